(** C24 — proofs about the pin-index model [model/M_C24.v]. *)
From Coq Require Import String Ascii.
From Coq Require Import List Bool NArith Lia.
From V Require Import lib.Verdict model.M_C24.
Import ListNotations.

(** ---------- small generic facts ---------- *)
Lemma bool_eq_iff (a b : bool) : (a = true <-> b = true) -> a = b.
Proof. destruct a, b; intuition congruence. Qed.

Lemma str_eqb_eq : forall a b, str_eqb a b = true <-> a = b.
Proof.
  induction a as [|x a IH]; intros [|y b]; cbn [str_eqb]; try (split; congruence).
  rewrite andb_true_iff, Ascii.eqb_eq, IH. split.
  - intros [Hx Ha]. congruence.
  - intros H. inversion H. auto.
Qed.

Lemma str_eqb_refl a : str_eqb a a = true.
Proof. apply str_eqb_eq. reflexivity. Qed.

Lemma str_eqb_sym a b : str_eqb a b = str_eqb b a.
Proof. apply bool_eq_iff. rewrite !str_eqb_eq. split; congruence. Qed.

Lemma pair_eqb_eq p q : pair_eqb p q = true <-> p = q.
Proof.
  destruct p as [a b], q as [c d]. unfold pair_eqb. cbn [fst snd].
  rewrite andb_true_iff, !str_eqb_eq. split.
  - intros [H1 H2]. congruence.
  - intros H. inversion H. auto.
Qed.

Lemma mm_mem_In p m : mm_mem p m = true <-> In p m.
Proof.
  unfold mm_mem. rewrite existsb_exists. split.
  - intros [q [Hin Hq]]. apply pair_eqb_eq in Hq. subst. exact Hin.
  - intros Hin. exists p. split; [exact Hin|]. apply pair_eqb_eq. reflexivity.
Qed.

Lemma ds_has_In k d : ds_has k d = true <-> In k d.
Proof.
  unfold ds_has. rewrite existsb_exists. split.
  - intros [q [Hin Hq]]. apply str_eqb_eq in Hq. subst. exact Hin.
  - intros Hin. exists k. split; [exact Hin|]. apply str_eqb_refl.
Qed.

Lemma filter_map_comm {A B} (g : A -> B) (f : B -> bool) (l : list A) :
  filter f (map g l) = map g (filter (fun a => f (g a)) l).
Proof.
  induction l as [|a l IH]; cbn [map filter]; [reflexivity|].
  destruct (f (g a)); cbn [map]; rewrite IH; reflexivity.
Qed.

Lemma filter_filter {A} (f g : A -> bool) (l : list A) :
  filter f (filter g l) = filter (fun x => g x && f x) l.
Proof.
  induction l as [|a l IH]; cbn [filter]; [reflexivity|].
  destruct (g a); cbn [filter andb]; [destruct (f a)|]; rewrite IH; reflexivity.
Qed.

Lemma filter_all {A} (f : A -> bool) (l : list A) :
  (forall x, In x l -> f x = true) -> filter f l = l.
Proof.
  induction l as [|a l IH]; intros H; cbn [filter]; [reflexivity|].
  rewrite (H a (or_introl eq_refl)). f_equal. apply IH. intros x Hx. apply H. right. exact Hx.
Qed.

Lemma filter_none {A} (f : A -> bool) (l : list A) :
  (forall x, In x l -> f x = false) -> filter f l = [].
Proof.
  induction l as [|a l IH]; intros H; cbn [filter]; [reflexivity|].
  rewrite (H a (or_introl eq_refl)). apply IH. intros x Hx. apply H. right. exact Hx.
Qed.

Lemma nodup_filter {A} (f : A -> bool) (l : list A) : NoDup l -> NoDup (filter f l).
Proof.
  induction 1 as [|a l Hn Hd IH]; cbn [filter]; [constructor|].
  destruct (f a); [|exact IH]. constructor; [|exact IH].
  intros Hin. apply filter_In in Hin. tauto.
Qed.

Lemma nodup_snoc {A} (l : list A) (p : A) : NoDup l -> ~ In p l -> NoDup (l ++ [p]).
Proof.
  induction 1 as [|a l Hn Hd IH]; intros Hp; cbn [app].
  - constructor; [intros []|constructor].
  - constructor.
    + intros Hin. apply in_app_or in Hin. destruct Hin as [Hin|[Hin|[]]]; [contradiction|].
      subst a. apply Hp. left. reflexivity.
    + apply IH. intros Hin. apply Hp. right. exact Hin.
Qed.

Lemma list_ind3 {A} (P : list A -> Prop) :
  P [] -> (forall a, P [a]) -> (forall a b, P [a; b]) ->
  (forall a b c r, P r -> P (a :: b :: c :: r)) -> forall l, P l.
Proof.
  intros H0 H1 H2 H3. fix IH 1. intros [|a [|b [|c r]]].
  - exact H0.
  - apply H1.
  - apply H2.
  - apply H3. apply IH.
Qed.

(** ---------- base64url ---------- *)
Lemma sx_char_rt s : sx_of_char (char_of_sx s) = Some s.
Proof.
  destruct s as [[[[[b5 b4] b3] b2] b1] b0].
  destruct b5, b4, b3, b2, b1, b0; vm_compute; reflexivity.
Qed.

Lemma char_plain s : char_of_sx s <> "/"%char /\ char_of_sx s <> "."%char.
Proof.
  destruct s as [[[[[b5 b4] b3] b2] b1] b0].
  destruct b5, b4, b3, b2, b1, b0; vm_compute; split; discriminate.
Qed.

Lemma chars_rt l : chars_to_sx (map char_of_sx l) = Some l.
Proof.
  induction l as [|s l IH]; cbn [map chars_to_sx]; [reflexivity|].
  rewrite sx_char_rt, IH. reflexivity.
Qed.

Lemma sextets_rt : forall l, unsextets (sextets l) = Some l.
Proof.
  apply list_ind3.
  - reflexivity.
  - intros [a0 a1 a2 a3 a4 a5 a6 a7]. reflexivity.
  - intros [a0 a1 a2 a3 a4 a5 a6 a7] [b0 b1 b2 b3 b4 b5 b6 b7]. reflexivity.
  - intros [a0 a1 a2 a3 a4 a5 a6 a7] [b0 b1 b2 b3 b4 b5 b6 b7] [c0 c1 c2 c3 c4 c5 c6 c7] r IH.
    cbn [sextets unsextets]. rewrite IH. reflexivity.
Qed.

Lemma b64_rt l : b64dec (b64enc l) = Some l.
Proof. unfold b64dec, b64enc. rewrite chars_rt. apply sextets_rt. Qed.

Lemma dec_enc s : dec (enc s) = Some s.
Proof. unfold dec, enc. rewrite Ascii.eqb_refl. apply b64_rt. Qed.

Lemma enc_inj a b : enc a = enc b -> a = b.
Proof. intros H. pose proof (dec_enc a) as Ha. rewrite H, dec_enc in Ha. congruence. Qed.

Lemma enc_alphabet s c : In c (enc s) -> c <> "/"%char /\ c <> "."%char.
Proof.
  unfold enc, b64enc. intros [Hc|Hc].
  - subst c. split; discriminate.
  - apply in_map_iff in Hc. destruct Hc as [x [Hx _]]. subst c. apply char_plain.
Qed.

Lemma enc_noslash s : ~ In slash (enc s).
Proof. intros H. apply enc_alphabet in H. unfold slash in H. tauto. Qed.

Lemma str_eqb_enc a b : str_eqb (enc a) (enc b) = str_eqb a b.
Proof.
  apply bool_eq_iff. rewrite !str_eqb_eq. split.
  - apply enc_inj.
  - congruence.
Qed.

(** ---------- paths ---------- *)
Lemma split_app a b : ~ In slash a -> split (a ++ slash :: b) = a :: split b.
Proof.
  induction a as [|c a IH]; intros Hn.
  - cbn [app split]. rewrite Ascii.eqb_refl. reflexivity.
  - cbn [app split]. destruct (Ascii.eqb c slash) eqn:Hc.
    + apply Ascii.eqb_eq in Hc. subst c. exfalso. apply Hn. left. reflexivity.
    + rewrite IH; [reflexivity|]. intros Hin. apply Hn. right. exact Hin.
Qed.

Lemma split_noslash a : ~ In slash a -> split a = [a].
Proof.
  induction a as [|c a IH]; intros Hn; cbn [split]; [reflexivity|].
  destruct (Ascii.eqb c slash) eqn:Hc.
  - apply Ascii.eqb_eq in Hc. subst c. exfalso. apply Hn. left. reflexivity.
  - rewrite IH; [reflexivity|]. intros Hin. apply Hn. right. exact Hin.
Qed.

Lemma split_dskey k v : split (dskey k v) = [[]; enc k; enc v].
Proof.
  unfold dskey. cbn [split]. rewrite Ascii.eqb_refl.
  rewrite split_app by apply enc_noslash. rewrite split_noslash by apply enc_noslash. reflexivity.
Qed.

Lemma base_dskey k v : base (dskey k v) = enc v.
Proof. unfold base. rewrite split_dskey. reflexivity. Qed.

Lemma dirbase_dskey k v : dirbase (dskey k v) = enc k.
Proof. unfold dirbase. rewrite split_dskey. reflexivity. Qed.

Lemma parse_dskey k v : parse_entry (dskey k v) = Some (k, v).
Proof. unfold parse_entry. rewrite base_dskey, dirbase_dskey, !dec_enc. reflexivity. Qed.

Lemma dskey_inj k v k' v' : dskey k v = dskey k' v' -> k = k' /\ v = v'.
Proof.
  intros H. pose proof (parse_dskey k v) as P. rewrite H, parse_dskey in P.
  inversion P. auto.
Qed.

Lemma starts_with_boundary : forall a b c,
  ~ In slash a -> ~ In slash b ->
  starts_with (a ++ [slash]) (b ++ slash :: c) = str_eqb a b.
Proof.
  induction a as [|x a IH]; intros [|y b] c Ha Hb; cbn [app starts_with str_eqb].
  - rewrite Ascii.eqb_refl. reflexivity.
  - destruct (Ascii.eqb slash y) eqn:E; [|reflexivity].
    apply Ascii.eqb_eq in E. subst y. exfalso. apply Hb. left. reflexivity.
  - destruct (Ascii.eqb x slash) eqn:E; [|reflexivity].
    apply Ascii.eqb_eq in E. subst x. exfalso. apply Ha. left. reflexivity.
  - rewrite IH; [reflexivity| |].
    + intros Hin. apply Ha. right. exact Hin.
    + intros Hin. apply Hb. right. exact Hin.
Qed.

(** the prefix filter of a key query selects exactly the entries of that key *)
Lemma prefix_match k k' v' :
  starts_with (slash :: enc k ++ [slash]) (dskey k' v') = str_eqb k k'.
Proof.
  unfold dskey. cbn [starts_with]. rewrite Ascii.eqb_refl. cbn [andb].
  rewrite starts_with_boundary by apply enc_noslash. apply str_eqb_enc.
Qed.

Lemma no_prefix_leak k1 k2 v :
  k1 <> k2 -> starts_with (slash :: enc k1 ++ [slash]) (dskey k2 v) = false.
Proof.
  intros Hne. rewrite prefix_match. destruct (str_eqb k1 k2) eqn:E; [|reflexivity].
  apply str_eqb_eq in E. contradiction.
Qed.

(** ---------- simulation: datastore-level model = multimap specification ---------- *)
Definition dk (p : str * str) : str := dskey (fst p) (snd p).

Lemma dk_inj p q : dk p = dk q -> p = q.
Proof.
  destruct p, q. unfold dk. cbn [fst snd]. intros H. apply dskey_inj in H. destruct H. congruence.
Qed.

Lemma dk_eqb p q : str_eqb (dk p) (dk q) = pair_eqb p q.
Proof.
  apply bool_eq_iff. rewrite str_eqb_eq, pair_eqb_eq. split.
  - apply dk_inj.
  - congruence.
Qed.

Lemma has_sim p m : ds_has (dk p) (map dk m) = mm_mem p m.
Proof.
  unfold ds_has, mm_mem. induction m as [|q m IH]; cbn [map existsb]; [reflexivity|].
  rewrite dk_eqb, IH. reflexivity.
Qed.

Lemma put_sim p m : ds_put (dk p) (map dk m) = map dk (mm_add p m).
Proof.
  unfold ds_put, mm_add. rewrite has_sim. destruct (mm_mem p m); [reflexivity|].
  rewrite map_app. reflexivity.
Qed.

Lemma del_sim p m : ds_del (dk p) (map dk m) = map dk (mm_del p m).
Proof.
  unfold ds_del, mm_del. rewrite filter_map_comm. f_equal.
  apply filter_ext. intros q. rewrite dk_eqb. reflexivity.
Qed.

Lemma isnil_enc k : isnil (enc k) = false.
Proof. reflexivity. Qed.

Lemma query_key_sim k m : ds_query (enc k) (map dk m) = map dk (mm_key k m).
Proof.
  unfold ds_query, mm_key. rewrite isnil_enc, filter_map_comm. f_equal.
  apply filter_ext. intros q. unfold dk. rewrite prefix_match. apply str_eqb_sym.
Qed.

Lemma query_sim k m : ds_query (prefix_of k) (map dk m) = map dk (mm_sel k m).
Proof.
  unfold prefix_of, mm_sel. destruct (isnil k); [reflexivity|]. apply query_key_sim.
Qed.

Lemma fold_del l : forall d,
  fold_left (fun d' e => ds_del e d') l d = filter (fun x => negb (existsb (str_eqb x) l)) d.
Proof.
  induction l as [|e l IH]; intros d; cbn [fold_left existsb].
  - symmetry. apply filter_all. reflexivity.
  - rewrite IH. unfold ds_del. rewrite filter_filter. apply filter_ext.
    intros x. rewrite negb_orb. reflexivity.
Qed.

Lemma delete_key_sim k m :
  delete_prefix (enc k) (map dk m) =
  (map dk (mm_delkey k m), BCount (N.of_nat (length (mm_key k m))) ENone).
Proof.
  unfold delete_prefix. rewrite query_key_sim, map_length. f_equal.
  rewrite fold_del, filter_map_comm. unfold mm_delkey. f_equal.
  apply filter_ext_in. intros q Hq. f_equal.
  apply bool_eq_iff. rewrite existsb_exists. split.
  - intros [x [Hx Hxq]]. apply str_eqb_eq in Hxq. apply in_map_iff in Hx.
    destruct Hx as [q' [Hq' Hin]]. rewrite <- Hq' in Hxq. apply dk_inj in Hxq. subst q'.
    unfold mm_key in Hin. apply filter_In in Hin. tauto.
  - intros Hk. exists (dk q). split; [|apply str_eqb_refl].
    apply in_map. unfold mm_key. apply filter_In. tauto.
Qed.

Lemma delete_all_sim m :
  delete_prefix [] (map dk m) = (map dk [], BCount (N.of_nat (length m)) ENone).
Proof.
  unfold delete_prefix, ds_query. cbn [isnil]. rewrite map_length. f_equal.
  rewrite fold_del. apply filter_none. intros x Hx.
  apply negb_false_iff, existsb_exists. exists x. split; [exact Hx|apply str_eqb_refl].
Qed.

Lemma parse_all l : mapM parse_entry (map dk l) = Some l.
Proof.
  induction l as [|[k v] l IH]; cbn [map mapM]; [reflexivity|].
  unfold dk at 1. cbn [fst snd]. rewrite parse_dskey, IH. reflexivity.
Qed.

Lemma decode_values l : mapM (fun key => dec (base key)) (map dk l) = Some (map snd l).
Proof.
  induction l as [|[k v] l IH]; cbn [map mapM]; [reflexivity|].
  unfold dk at 1. cbn [fst snd]. rewrite base_dskey, dec_enc, IH. reflexivity.
Qed.

Lemma foreach_sim k m : foreach (map dk m) k = BPairs (mm_sel k m) ENone.
Proof. unfold foreach. rewrite query_sim, parse_all. reflexivity. Qed.

Lemma step_sim m o :
  step (map dk m) o = (map dk (fst (spec_step m o)), snd (spec_step m o)).
Proof.
  destruct o as [k v|k v|k| |k|k n|k v|k|k]; cbn [step spec_step].
  - destruct (isnil k); [reflexivity|]. destruct (isnil v); [reflexivity|].
    cbn [fst snd]. change (dskey k v) with (dk (k, v)). rewrite put_sim. reflexivity.
  - destruct (isnil k); [reflexivity|]. destruct (isnil v); [reflexivity|].
    cbn [fst snd]. change (dskey k v) with (dk (k, v)). rewrite del_sim. reflexivity.
  - destruct (isnil k); [reflexivity|]. rewrite delete_key_sim. reflexivity.
  - rewrite delete_all_sim. reflexivity.
  - rewrite foreach_sim. reflexivity.
  - rewrite foreach_sim. reflexivity.
  - destruct (isnil k); [reflexivity|]. destruct (isnil v); [reflexivity|].
    cbn [fst snd]. change (dskey k v) with (dk (k, v)). rewrite has_sim. reflexivity.
  - rewrite foreach_sim. reflexivity.
  - destruct (isnil k); [reflexivity|]. rewrite query_key_sim, decode_values. reflexivity.
Qed.

Lemma run_sim ops : forall m,
  run step (map dk m) ops = (map dk (fst (run spec_step m ops)), snd (run spec_step m ops)).
Proof.
  induction ops as [|o ops IH]; intros m; cbn [run]; [reflexivity|].
  rewrite step_sim. destruct (spec_step m o) as [m' b]. cbn [fst snd].
  rewrite IH. destruct (run spec_step m' ops) as [m'' bs]. reflexivity.
Qed.

Theorem refines_multimap ops :
  snd (run step [] ops) = snd (run spec_step [] ops) /\
  fst (run step [] ops) = map dk (fst (run spec_step [] ops)).
Proof. change (@nil str) with (map dk []). rewrite run_sim. split; reflexivity. Qed.

(** ---------- the specification read over histories ---------- *)
Lemma spec_step_holds k v m o :
  mm_mem (k, v) (fst (spec_step m o)) = holds_step k v (mm_mem (k, v) m) o.
Proof.
  destruct o as [k' v'|k' v'|k'| |k'|k' n|k' v'|k'|k']; cbn [spec_step holds_step].
  - destruct (isnil k'); [reflexivity|]. destruct (isnil v'); [reflexivity|]. cbn [orb fst].
    unfold mm_add. destruct (pair_eqb (k', v') (k, v)) eqn:E.
    + apply pair_eqb_eq in E. rewrite E. destruct (mm_mem (k, v) m) eqn:Hm; [exact Hm|].
      apply mm_mem_In. apply in_or_app. right. left. reflexivity.
    + destruct (mm_mem (k', v') m); [reflexivity|].
      apply bool_eq_iff. rewrite !mm_mem_In, in_app_iff. split; [|tauto].
      intros [H|[H|[]]]; [exact H|]. rewrite H in E.
      assert (pair_eqb (k, v) (k, v) = true) by (apply pair_eqb_eq; reflexivity). congruence.
  - destruct (isnil k'); [reflexivity|]. destruct (isnil v'); [reflexivity|]. cbn [orb fst].
    unfold mm_del. destruct (pair_eqb (k', v') (k, v)) eqn:E.
    + apply pair_eqb_eq in E. rewrite E.
      destruct (mm_mem (k, v) (filter (fun q => negb (pair_eqb q (k, v))) m)) eqn:Hm; [|reflexivity].
      apply mm_mem_In, filter_In in Hm. destruct Hm as [_ Hm].
      assert (pair_eqb (k, v) (k, v) = true) as R by (apply pair_eqb_eq; reflexivity).
      rewrite R in Hm. discriminate.
    + apply bool_eq_iff. rewrite !mm_mem_In, filter_In. split; [tauto|].
      intros H. split; [exact H|]. apply negb_true_iff.
      destruct (pair_eqb (k, v) (k', v')) eqn:E2; [|reflexivity].
      apply pair_eqb_eq in E2. rewrite E2 in E.
      assert (pair_eqb (k', v') (k', v') = true) by (apply pair_eqb_eq; reflexivity). congruence.
  - destruct (isnil k'); [reflexivity|]. cbn [fst]. unfold mm_delkey.
    destruct (str_eqb k' k) eqn:E.
    + destruct (mm_mem (k, v) (filter (fun q => negb (str_eqb (fst q) k')) m)) eqn:Hm; [|reflexivity].
      apply mm_mem_In, filter_In in Hm. destruct Hm as [_ Hm]. cbn [fst] in Hm.
      rewrite str_eqb_sym, E in Hm. discriminate.
    + apply bool_eq_iff. rewrite !mm_mem_In, filter_In. split; [tauto|].
      intros H. split; [exact H|]. cbn [fst]. rewrite str_eqb_sym, E. reflexivity.
  - reflexivity.
  - reflexivity.
  - reflexivity.
  - destruct (isnil k'); [reflexivity|]. destruct (isnil v'); reflexivity.
  - reflexivity.
  - destruct (isnil k'); reflexivity.
Qed.

Lemma run_holds k v ops : forall m,
  mm_mem (k, v) (fst (run spec_step m ops)) = fold_left (holds_step k v) ops (mm_mem (k, v) m).
Proof.
  induction ops as [|o ops IH]; intros m; cbn [run fold_left]; [reflexivity|].
  rewrite <- spec_step_holds. destruct (spec_step m o) as [m' b]. cbn [fst].
  rewrite <- IH. destruct (run spec_step m' ops) as [m'' bs]. reflexivity.
Qed.

Lemma spec_holds ops k v : In (k, v) (fst (run spec_step [] ops)) <-> holds ops k v = true.
Proof. rewrite <- mm_mem_In, run_holds. reflexivity. Qed.

Lemma spec_step_nodup m o : NoDup m -> NoDup (fst (spec_step m o)).
Proof.
  intros Hm. destruct o as [k' v'|k' v'|k'| |k'|k' n|k' v'|k'|k']; cbn [spec_step].
  - destruct (isnil k'); [exact Hm|]. destruct (isnil v'); [exact Hm|]. cbn [fst].
    unfold mm_add. destruct (mm_mem (k', v') m) eqn:E; [exact Hm|].
    apply nodup_snoc; [exact Hm|]. intros Hx. apply mm_mem_In in Hx. congruence.
  - destruct (isnil k'); [exact Hm|]. destruct (isnil v'); [exact Hm|]. apply nodup_filter, Hm.
  - destruct (isnil k'); [exact Hm|]. apply nodup_filter, Hm.
  - constructor.
  - exact Hm.
  - exact Hm.
  - destruct (isnil k'); [exact Hm|]. destruct (isnil v'); exact Hm.
  - exact Hm.
  - destruct (isnil k'); exact Hm.
Qed.

Lemma run_nodup ops : forall m, NoDup m -> NoDup (fst (run spec_step m ops)).
Proof.
  induction ops as [|o ops IH]; intros m Hm; cbn [run]; [exact Hm|].
  pose proof (spec_step_nodup m o Hm) as H1. destruct (spec_step m o) as [m' b]. cbn [fst] in H1.
  specialize (IH m' H1). destruct (run spec_step m' ops) as [m'' bs]. exact IH.
Qed.

Lemma values_nodup k m : NoDup m -> NoDup (map snd (mm_key k m)).
Proof.
  intros Hm. unfold mm_key. induction Hm as [|[a b] m Hn Hd IH]; cbn [filter map]; [constructor|].
  cbn [fst]. destruct (str_eqb a k) eqn:E; [|exact IH]. cbn [map snd]. constructor; [|exact IH].
  intros Hin. apply in_map_iff in Hin. destruct Hin as [[a' b'] [Hb Hin]]. cbn [snd] in Hb. subst b'.
  apply filter_In in Hin. destruct Hin as [Hin Ha]. cbn [fst] in Ha.
  apply str_eqb_eq in E, Ha. subst a a'. contradiction.
Qed.

Lemma values_in k v m : In v (map snd (mm_key k m)) <-> In (k, v) m.
Proof.
  unfold mm_key. rewrite in_map_iff. split.
  - intros [[a b] [Hb Hin]]. cbn [snd] in Hb. subst b. apply filter_In in Hin.
    destruct Hin as [Hin Ha]. cbn [fst] in Ha. apply str_eqb_eq in Ha. subst a. exact Hin.
  - intros Hin. exists (k, v). split; [reflexivity|]. apply filter_In. split; [exact Hin|].
    apply str_eqb_refl.
Qed.

Lemma isnil_false {A} (l : list A) : l <> [] -> isnil l = false.
Proof. destruct l; [congruence|reflexivity]. Qed.

(** the state reached by the datastore-level model after a history *)
Definition after (ops : list op) : dstore := fst (run step [] ops).

Lemma after_spec ops : after ops = map dk (fst (run spec_step [] ops)).
Proof. apply refines_multimap. Qed.

Theorem search_exact ops k : k <> [] ->
  exists l, snd (step (after ops) (OSearch k)) = BVals l ENone /\ NoDup l /\
            forall v, In v l <-> holds ops k v = true.
Proof.
  intros Hk. rewrite after_spec, step_sim. cbn [snd spec_step]. rewrite (isnil_false k Hk).
  eexists. split; [reflexivity|]. split.
  - apply values_nodup, run_nodup. constructor.
  - intros v. rewrite values_in. apply spec_holds.
Qed.

Theorem foreach_exact ops k :
  exists l, snd (step (after ops) (OForEach k)) = BPairs l ENone /\ NoDup l /\
            forall k' v, In (k', v) l <-> (holds ops k' v = true /\ (k = [] \/ k' = k)).
Proof.
  rewrite after_spec, step_sim. cbn [snd spec_step]. eexists. split; [reflexivity|].
  pose proof (run_nodup ops [] (NoDup_nil _)) as Hnd. split.
  - unfold mm_sel. destruct (isnil k); [exact Hnd|]. apply nodup_filter, Hnd.
  - intros k' v. unfold mm_sel. destruct k as [|c k].
    + cbn [isnil]. rewrite spec_holds. tauto.
    + cbn [isnil]. unfold mm_key. rewrite filter_In, spec_holds. cbn [fst]. rewrite str_eqb_eq.
      split; [intros [H1 H2]; split; [exact H1|right; exact H2]|].
      intros [H1 [H2|H2]]; [discriminate|tauto].
Qed.

Theorem hasvalue_exact ops k v : k <> [] -> v <> [] ->
  snd (step (after ops) (OHasValue k v)) = BBool (holds ops k v) ENone.
Proof.
  intros Hk Hv. rewrite after_spec, step_sim. cbn [snd spec_step].
  rewrite (isnil_false k Hk), (isnil_false v Hv). cbn [snd]. f_equal.
  apply bool_eq_iff. rewrite mm_mem_In. apply spec_holds.
Qed.

Theorem hasany_exact ops k :
  exists b, snd (step (after ops) (OHasAny k)) = BBool b ENone /\
            (b = true <-> exists k' v, holds ops k' v = true /\ (k = [] \/ k' = k)).
Proof.
  destruct (foreach_exact ops k) as [l [Hl [_ Hin]]].
  rewrite after_spec, step_sim in Hl |- *. cbn [snd spec_step] in Hl |- *.
  inversion Hl as [Hsel]. eexists. split; [reflexivity|]. rewrite Hsel.
  destruct l as [|[k' v] l]; cbn [isnil negb].
  - split; [discriminate|]. intros [k' [v [H1 H2]]]. exfalso.
    apply (proj2 (Hin k' v)). tauto.
  - split; [|reflexivity]. intros _. exists k', v. apply Hin. left. reflexivity.
Qed.

Theorem deletekey_exact ops k : k <> [] ->
  exists l, snd (step (after ops) (OSearch k)) = BVals l ENone /\
            snd (step (after ops) (ODeleteKey k)) = BCount (N.of_nat (length l)) ENone.
Proof.
  intros Hk. rewrite after_spec, !step_sim. cbn [snd spec_step]. rewrite (isnil_false k Hk).
  eexists. split; [reflexivity|]. cbn [snd]. rewrite map_length. reflexivity.
Qed.

Theorem deleteall_exact ops :
  exists l, snd (step (after ops) (OForEach [])) = BPairs l ENone /\
            snd (step (after ops) ODeleteAll) = BCount (N.of_nat (length l)) ENone.
Proof.
  rewrite after_spec, !step_sim. cbn [snd spec_step]. eexists. split; reflexivity.
Qed.
