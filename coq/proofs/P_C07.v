(** C07 — proofs about the importer model (model/M_C07.v). *)
From Coq Require Import List ZArith Bool Lia Arith ZifyBool.
From V Require Import lib.Verdict lib.Tree model.M_C07.
Import ListNotations.
Open Scope Z_scope.

(** ---------- small facts ---------- *)
Lemma all_but_last_cons {A} (p : A -> bool) x l :
  all_but_last p (x :: l) = match l with [] => true | _ => p x && all_but_last p l end.
Proof. reflexivity. Qed.

Lemma forallb_all_but_last {A} (p : A -> bool) l : forallb p l = true -> all_but_last p l = true.
Proof.
  induction l as [|x l IH]; [reflexivity|]. cbn [forallb]. rewrite andb_true_iff. intros [Hx Hl].
  rewrite all_but_last_cons. destruct l; [reflexivity|]. rewrite Hx, (IH Hl). reflexivity.
Qed.

Section Build.
  Context {D : Type}.
  Variable dlen : D -> Z.
  Variable dnil : D.
  Variable w : nat.

  Notation fill_slots := (@fill_slots D).
  Notation sc := (sizes_consistent dlen).

  Lemma fill_slots_nil f s : fill_slots f s [] = ([], []).
  Proof. destruct s; reflexivity. Qed.

  (** what a sub-builder guarantees: it consumes a non-empty prefix of the stream
      and turns it into a tree whose leaves are that prefix; [p] holds of the tree,
      [q] ("complete") holds whenever data was left over *)
  Definition bspec (f : D -> list D -> tree D * list D) (p q : tree D -> bool) : Prop :=
    forall c r t r', f c r = (t, r') ->
      leaves t ++ r' = c :: r /\ sc t /\ p t = true /\ (r' <> [] -> q t = true) /\
      (length r' <= length r)%nat.

  Lemma fill_slots_spec f p q (Hf : bspec f p q) :
    forall s cs ks r', fill_slots f s cs = (ks, r') ->
      flat_map leaves ks ++ r' = cs /\ Forall sc ks /\ forallb p ks = true /\
      (length ks <= s)%nat /\ (r' <> [] -> length ks = s /\ forallb q ks = true) /\
      all_but_last q ks = true /\ (length r' <= length cs)%nat /\
      (s <> 0%nat -> cs <> [] -> ks <> [] /\ (length r' < length cs)%nat).
  Proof.
    induction s as [|s IH]; intros cs ks r' H.
    - cbn in H. assert (ks = [] /\ r' = cs) as [-> ->] by (destruct cs; inversion H; auto).
      cbn. repeat split; auto; try lia; try (intros Hs; congruence).
    - destruct cs as [|c r].
      + cbn in H. inversion H; subst. cbn. repeat split; auto; try lia; try congruence.
      + cbn [M_C07.fill_slots] in H.
        destruct (f c r) as [t r1] eqn:Ef.
        destruct (fill_slots f s r1) as [ks0 r2] eqn:Es.
        inversion H; subst; clear H.
        destruct (Hf _ _ _ _ Ef) as (Hl & Hsz & Hp & Hq & Hlen).
        destruct (IH _ _ _ Es) as (Il & Isz & Ip & Ilen & Iq & Iabl & Ilr & Ine).
        assert (Hr1 : ks0 <> [] \/ r' <> [] -> r1 <> []).
        { intros Hor Hr1. rewrite Hr1, fill_slots_nil in Es. inversion Es; subst.
          destruct Hor as [Hc | Hc]; apply Hc; reflexivity. }
        repeat split.
        * cbn [flat_map]. rewrite <- app_assoc, Il. exact Hl.
        * constructor; assumption.
        * cbn [forallb]. rewrite Hp, Ip. reflexivity.
        * cbn [length]. lia.
        * cbn [length]. destruct (Iq H) as [-> _]. reflexivity.
        * cbn [forallb]. destruct (Iq H) as [_ ->]. rewrite Hq; auto.
        * rewrite all_but_last_cons. destruct ks0 as [|k0 ks1]; [reflexivity|].
          rewrite Iabl, Hq; auto. apply Hr1. left. discriminate.
        * cbn [length]. lia.
        * discriminate.
        * cbn [length]. lia.
  Qed.

  (** ---------- balanced ---------- *)
  Hypothesis Hw1 : (1 <= w)%nat.

  Lemma leafb_spec k : bspec (leafb dlen k) (bal_ok w 0) (full w 0).
  Proof.
    intros c r t r' H. unfold leafb in H. inversion H; subst. cbn.
    repeat split; auto. constructor.
  Qed.

  Lemma bal_sub_spec k : forall d, bspec (bal_sub dlen w k d) (bal_ok w d) (full w d).
  Proof.
    induction d as [|d IH]; [apply leafb_spec|].
    intros c r t r' H. cbn [bal_sub] in H.
    destruct (fill_slots (bal_sub dlen w k d) w (c :: r)) as [ks r2] eqn:Es.
    inversion H; subst; clear H.
    destruct (fill_slots_spec _ _ _ IH _ _ _ _ Es) as (Il & Isz & Ip & Ilen & Iq & Iabl & Ilr & Ine).
    destruct Ine as [Hne Hlt]; [lia | discriminate |].
    repeat split.
    - rewrite leaves_mk_node. exact Il.
    - apply sizes_consistent_mk_node. exact Isz.
    - unfold mk_node. cbn [bal_ok]. rewrite Ip, Iabl, !andb_true_r.
      apply andb_true_iff. split; [apply Nat.leb_le | apply Nat.leb_le; exact Ilen].
      destruct ks; [congruence | cbn; lia].
    - intros Hr. destruct (Iq Hr) as [Hl Hq]. unfold mk_node. cbn [full].
      rewrite Hq, Hl, Nat.eqb_refl. reflexivity.
    - cbn [length] in Hlt. lia.
  Qed.

  (** the growing loop: the invariant is "root is a balanced tree of height d,
      complete if data is left" *)
  Lemma bal_grow_spec k : forall fuel d root cs t,
    bal_ok w d root = true -> (cs <> [] -> full w d root = true) -> sc root ->
    bal_grow dlen w fuel k d root cs = Some t ->
    exists h, bal_ok w h t = true /\ leaves t = leaves root ++ cs /\ sc t.
  Proof.
    induction fuel as [|fuel IH]; intros d root cs t Hb Hfull Hsz H.
    - destruct cs; cbn in H; inversion H; subst. exists d. rewrite app_nil_r. auto.
    - destruct cs as [|c r]; cbn [bal_grow] in H.
      { inversion H; subst. exists d. rewrite app_nil_r. auto. }
      destruct (fill_slots (bal_sub dlen w k d) (w - 1) (c :: r)) as [ks r2] eqn:Es.
      destruct (fill_slots_spec _ _ _ (bal_sub_spec k d) _ _ _ _ Es)
        as (Il & Isz & Ip & Ilen & Iq & Iabl & Ilr & Ine).
      assert (Hroot : full w d root = true) by (apply Hfull; discriminate).
      apply IH in H.
      + destruct H as (h & Hh & Hlv & Hs). exists h. split; [exact Hh|]. split; [|exact Hs].
        rewrite Hlv, leaves_mk_node. cbn [flat_map]. rewrite <- app_assoc, Il. reflexivity.
      + unfold mk_node. cbn [bal_ok forallb length]. rewrite Hb, Ip, !andb_true_r.
        apply andb_true_iff. split.
        * apply andb_true_iff. split; apply Nat.leb_le; lia.
        * rewrite all_but_last_cons. destruct ks; [reflexivity|]. rewrite Hroot, Iabl. reflexivity.
      + intros Hr. destruct (Iq Hr) as [Hl Hq]. unfold mk_node. cbn [full forallb length].
        rewrite Hroot, Hq, andb_true_r. apply Nat.eqb_eq. lia.
      + apply sizes_consistent_mk_node. constructor; assumption.
  Qed.

  (** fuel: with w >= 2 every round consumes a chunk *)
  Lemma bal_fuel_enough k (Hw2 : (2 <= w)%nat) : forall fuel d root cs,
    (length cs <= fuel)%nat -> exists t, bal_grow dlen w fuel k d root cs = Some t.
  Proof.
    induction fuel as [|fuel IH]; intros d root cs Hlen.
    - destruct cs; [eexists; reflexivity | cbn in Hlen; lia].
    - destruct cs as [|c r]; [eexists; reflexivity|]. cbn [bal_grow].
      destruct (fill_slots (bal_sub dlen w k d) (w - 1) (c :: r)) as [ks r2] eqn:Es.
      destruct (fill_slots_spec _ _ _ (bal_sub_spec k d) _ _ _ _ Es)
        as (_ & _ & _ & _ & _ & _ & _ & Ine).
      destruct Ine as [_ Hlt]; [lia | discriminate |].
      apply IH. cbn [length] in *. lia.
  Qed.

  (** [bal_ok] gives the property's wording *)
  Lemma max_height_all (h : nat) : forall l : list (tree D),
    (forall c, In c l -> height c = h) -> l <> [] ->
    fold_right (fun c m => Nat.max (height c) m) 0%nat l = h.
  Proof.
    induction l as [|x l IHl]; intros Hx Hne; [congruence|].
    cbn [fold_right]. rewrite (Hx x (or_introl eq_refl)).
    destruct l as [|y l1]; [cbn; lia|].
    rewrite IHl; [lia | intros c Hc; apply Hx; right; exact Hc | discriminate].
  Qed.

  Lemma bal_ok_uniform : forall h (t : tree D),
    bal_ok w h t = true -> uniform h t = true /\ max_links w t = true /\ height t = h.
  Proof.
    intros h t; revert h.
    induction t as [k rs d | rs bs kids IH] using tree_ind'; intros h H.
    - destruct h; cbn in H; [|discriminate]. cbn. auto.
    - destruct h as [|h]; cbn [bal_ok] in H; [discriminate|].
      rewrite !andb_true_iff in H. destruct H as [[[Hn Hlw] Hall] _].
      apply Nat.leb_le in Hn.
      assert (Hk : forall c, In c kids ->
                 uniform h c = true /\ max_links w c = true /\ height c = h).
      { intros c Hc. rewrite Forall_forall in IH. apply IH; auto.
        rewrite forallb_forall in Hall. auto. }
      assert (Hne : kids <> []) by (destruct kids; [cbn in Hn; lia | discriminate]).
      cbn [uniform max_links height]. repeat split.
      + destruct kids as [|c0 r0]; [congruence|]. cbn [negb andb].
        apply forallb_forall. intros c Hc. apply Hk, Hc.
      + rewrite Hlw. apply forallb_forall. intros c Hc. apply Hk, Hc.
      + f_equal. apply max_height_all; [intros c Hc; apply Hk, Hc | exact Hne].
  Qed.

  (** ---------- trickle ---------- *)
  Hypothesis Hdnil : dlen dnil = 0.

  (** the loop over the links in verifyTDagRec, as a function of its own *)
  Fixpoint tri_go (raw : bool) (depth i : Z) (l : list (tree D)) : bool :=
    match l with
    | [] => true
    | c :: r =>
        (if i <? Z.of_nat w then tri_ok dlen w raw c 0
         else let rd := (i - Z.of_nat w) / Z.of_nat depth_repeat + 1 in
              negb ((depth <=? rd) && (0 <? depth)) && tri_ok dlen w raw c rd)
        && tri_go raw depth (i + 1) r
    end.

  Lemma tri_ok_node raw rs bs kids depth :
    tri_ok dlen w raw (Node rs bs kids) depth = negb (depth =? 0) && tri_go raw depth 0 kids.
  Proof.
    cbn [tri_ok]. f_equal.
    match goal with |- ?F 0 kids = _ => set (G := F) end.
    assert (HG : forall l i, G i l = tri_go raw depth i l); [|apply HG].
    induction l as [|c r IH]; intros i; [reflexivity|].
    cbn [tri_go]. rewrite <- IH. reflexivity.
  Qed.

  Lemma tri_go_app raw depth : forall a b i,
    tri_go raw depth i (a ++ b) = tri_go raw depth i a && tri_go raw depth (i + zlen a) b.
  Proof.
    induction a as [|c a IH]; intros b i.
    - cbn. rewrite Z.add_0_r. reflexivity.
    - cbn [app tri_go]. rewrite IH, andb_assoc. do 2 f_equal.
      unfold zlen. cbn [length]. lia.
  Qed.

  Lemma tri_go_direct raw depth : forall l i,
    forallb (fun c => tri_ok dlen w raw c 0) l = true -> i + zlen l <= Z.of_nat w ->
    tri_go raw depth i l = true.
  Proof.
    induction l as [|c l IH]; intros i Hall Hi; [reflexivity|].
    cbn [forallb] in Hall. apply andb_true_iff in Hall. destruct Hall as [Hc Hl].
    unfold zlen in Hi. cbn [length] in Hi. cbn [tri_go].
    destruct (i <? Z.of_nat w) eqn:Ei; [|lia].
    rewrite Hc. apply IH; [exact Hl | unfold zlen; lia].
  Qed.

  Lemma tri_go_layer raw depth rd : forall l i,
    forallb (fun c => tri_ok dlen w raw c rd) l = true ->
    Z.of_nat w + 4 * (rd - 1) <= i -> i + zlen l <= Z.of_nat w + 4 * rd ->
    1 <= rd -> (depth <= 0 \/ rd < depth) ->
    tri_go raw depth i l = true.
  Proof.
    induction l as [|c l IH]; intros i Hall Hlo Hhi Hrd1 Hd; [reflexivity|].
    cbn [forallb] in Hall. apply andb_true_iff in Hall. destruct Hall as [Hc Hl].
    unfold zlen in Hhi. cbn [length] in Hhi. cbn [tri_go].
    change (Z.of_nat depth_repeat) with 4.
    assert (Hrd : (i - Z.of_nat w) / 4 + 1 = rd).
    { assert (rd - 1 = (i - Z.of_nat w) / 4); [|lia].
      apply (Z.div_unique (i - Z.of_nat w) 4 (rd - 1) (i - Z.of_nat w - 4 * (rd - 1))); lia. }
    cbv zeta. rewrite Hrd, Hc.
    destruct (i <? Z.of_nat w) eqn:Ei.
    - exfalso. lia.
    - replace ((depth <=? rd) && (0 <? depth)) with false by lia.
      cbn [negb andb]. apply IH; [exact Hl | lia | unfold zlen; lia | exact Hrd1 | exact Hd].
  Qed.

  Lemma leafb_tri_spec raw :
    bspec (leafb dlen (tri_kind raw)) (fun t => tri_ok dlen w raw t 0) (fun _ => true).
  Proof.
    intros c r t r' H. unfold leafb in H. inversion H; subst. cbn [leaves app].
    repeat split; auto; [constructor | destruct raw; reflexivity].
  Qed.

  Definition tri_kids_post (raw : bool) (m : nat) (cs : list D) (ks : list (tree D)) (r : list D) : Prop :=
    flat_map leaves ks ++ r = cs /\ Forall sc ks /\
    zlen ks <= Z.of_nat w + 4 * Z.of_nat m /\
    (r <> [] -> zlen ks = Z.of_nat w + 4 * Z.of_nat m) /\
    (forall depth, depth <= 0 \/ Z.of_nat m < depth -> tri_go raw depth 0 ks = true) /\
    (cs <> [] -> ks <> [] /\ (length r < length cs)%nat) /\
    (r <> [] -> (length r + S m <= length cs)%nat).

  Lemma tri_sub_spec raw m
    (IH : forall cs ks r, tri_kids dlen w (tri_kind raw) m cs = (ks, r) -> tri_kids_post raw m cs ks r) :
    bspec (tri_sub dlen w (tri_kind raw) m)
          (fun t => tri_ok dlen w raw t (Z.of_nat m + 1)) (fun _ => true).
  Proof.
    intros c r t r' H. unfold tri_sub in H.
    destruct (tri_kids dlen w (tri_kind raw) m (c :: r)) as [x r1] eqn:Ek.
    inversion H; subst; clear H.
    destruct (IH _ _ _ Ek) as (Hl & Hsz & _ & _ & Hgo & Hne & _).
    destruct Hne as [_ Hlt]; [discriminate|].
    repeat split; auto.
    - apply sizes_consistent_mk_node, Hsz.
    - unfold mk_node. rewrite tri_ok_node, Hgo by lia.
      replace (Z.of_nat m + 1 =? 0) with false by lia. reflexivity.
    - cbn [length] in Hlt. lia.
  Qed.

  Lemma tri_kids_spec raw : forall m cs ks r,
    tri_kids dlen w (tri_kind raw) m cs = (ks, r) -> tri_kids_post raw m cs ks r.
  Proof.
    induction m as [|m IH]; intros cs ks r H.
    - cbn [tri_kids] in H.
      destruct (fill_slots_spec _ _ _ (leafb_tri_spec raw) _ _ _ _ H)
        as (Il & Isz & Ip & Ilen & Iq & _ & Ilr & Ine).
      unfold tri_kids_post. repeat split; auto.
      + unfold zlen; lia.
      + intros Hr. destruct (Iq Hr) as [Hl _]. unfold zlen; lia.
      + intros depth _. apply tri_go_direct; [exact Ip | unfold zlen; lia].
      + apply Ine; [lia | assumption].
      + apply Ine; [lia |]. intros ->. cbn in Ilr. destruct r; [congruence | cbn in Ilr; lia].
      + intros Hr. assert (cs <> []) as Hcs.
        { intros ->. cbn in Ilr. destruct r; [congruence | cbn in Ilr; lia]. }
        destruct Ine as [_ Hlt]; [lia | exact Hcs | lia].
    - cbn [tri_kids] in H.
      destruct (tri_kids dlen w (tri_kind raw) m cs) as [ks0 r0] eqn:Ek.
      match type of H with context [M_C07.fill_slots ?f ?n ?x] =>
        change f with (tri_sub dlen w (tri_kind raw) m) in H;
        destruct (M_C07.fill_slots (tri_sub dlen w (tri_kind raw) m) n x) as [ls r1] eqn:Es end.
      inversion H; subst; clear H.
      destruct (IH _ _ _ Ek) as (Hl & Hsz & Hle & Hfull & Hgo & Hne & Hfuel).
      destruct (fill_slots_spec _ _ _ (tri_sub_spec raw m IH) _ _ _ _ Es)
        as (Il & Isz & Ip & Ilen & Iq & _ & Ilr & Ine).
      assert (Hr0 : ls <> [] \/ r <> [] -> r0 <> []).
      { intros Hor Hr0. rewrite Hr0, fill_slots_nil in Es. inversion Es; subst.
        destruct Hor as [Hc | Hc]; apply Hc; reflexivity. }
      unfold depth_repeat in Ilen, Iq, Ine.
      unfold tri_kids_post.
      split. { rewrite flat_map_app, <- app_assoc, Il. exact Hl. }
      split. { apply Forall_app. split; assumption. }
      split. { rewrite zlen_app. unfold zlen at 2. lia. }
      split. { intros Hr. destruct (Iq Hr) as [Hl4 _]. rewrite zlen_app, Hfull by (apply Hr0; auto).
               unfold zlen. lia. }
      split. { intros depth Hd. rewrite tri_go_app, Hgo by lia. cbn [andb].
               destruct ls as [|l0 ls0]; [reflexivity|].
               rewrite Hfull by (apply Hr0; left; discriminate).
               apply (tri_go_layer raw depth (Z.of_nat m + 1));
                 [exact Ip | lia | unfold zlen; lia | lia | lia]. }
      split. { intros Hcs. destruct (Hne Hcs) as [Hk Hlt]. split; [|lia].
               destruct ks0; [congruence | discriminate]. }
      intros Hr. assert (Hr0' : r0 <> []) by (apply Hr0; auto).
      specialize (Hfuel Hr0'). destruct Ine as [_ Hlt]; [lia | exact Hr0' | lia].
  Qed.

  Lemma tri_fuel_enough raw cs :
    exists ks, tri_kids dlen w (tri_kind raw) (length cs) cs = (ks, []).
  Proof.
    destruct (tri_kids dlen w (tri_kind raw) (length cs) cs) as [ks r] eqn:Ek.
    destruct (tri_kids_spec raw _ _ _ _ Ek) as (_ & _ & _ & _ & _ & _ & Hfuel).
    destruct r as [|c r]; [eexists; reflexivity|].
    exfalso. assert (c :: r <> []) as Hr by discriminate. specialize (Hfuel Hr). lia.
  Qed.

  (** ---------- the two layouts ---------- *)
  Lemma bal_tree_spec raw cs t : bal_tree dlen dnil w raw cs = Some t ->
    (exists h, bal_ok w h t = true) /\ sc t /\
    leaves t = (match cs with [] => [dnil] | _ => cs end).
  Proof.
    destruct cs as [|c r]; cbn [bal_tree]; intros H.
    - inversion H; subst. repeat split; [exists 0%nat; reflexivity | constructor].
    - apply bal_grow_spec in H; [| reflexivity | reflexivity | constructor].
      destruct H as (h & Hh & Hl & Hs). repeat split; [exists h; exact Hh | exact Hs | exact Hl].
  Qed.

  Lemma tri_tree_spec raw cs t : tri_tree dlen dnil w raw cs = Some t ->
    tri_shape dlen w raw t = true /\ sc t /\
    leaves t = (match cs with [] => [dnil] | _ => cs end).
  Proof.
    unfold tri_tree. destruct (tri_kids dlen w (tri_kind raw) (length cs) cs) as [ks r] eqn:Ek.
    destruct r; [|discriminate]. intros H; inversion H; subst; clear H.
    destruct (tri_kids_spec raw _ _ _ _ Ek) as (Hl & Hsz & _ & _ & Hgo & Hne & _).
    rewrite app_nil_r in Hl.
    destruct ks as [|k0 ks0]; cbn [file_node].
    - cbn in Hl. subst cs. split; [|split]; [unfold tri_shape; cbn; rewrite Hdnil; reflexivity | constructor | reflexivity].
    - assert (cs <> []) as Hcs.
      { intros ->. destruct (tri_kids_spec raw _ _ _ _ Ek) as (_ & _ & Hle & _).
        unfold zlen in Hle. cbn [length] in Hle.
        (* zero layers and an empty stream give no children *)
        cbn in Ek. rewrite fill_slots_nil in Ek. discriminate. }
      repeat split.
      + unfold tri_shape, mk_node. rewrite tri_ok_node, Hgo by lia. reflexivity.
      + apply sizes_consistent_mk_node, Hsz.
      + rewrite leaves_mk_node, Hl. destruct cs; [congruence | reflexivity].
  Qed.
End Build.

(** ---------- the property, for [layout] ---------- *)
Section Top.
  Context {D : Type}.
  Variable dlen : D -> Z.
  Variable dnil : D.
  Variable w : nat.
  Hypothesis Hdnil : dlen dnil = 0.

  Notation sc := (sizes_consistent dlen).
  Notation layout := (layout dlen dnil w).

  Definition expected_leaves (cs : list D) : list D := match cs with [] => [dnil] | _ => cs end.
  Definition expected_meta (req : meta) : meta := if has_attrs req then req else no_meta.

  Lemma finish_leaves fl req (t : tree D) : leaves (fst (finish fl req t)) = leaves t.
  Proof.
    unfold finish. destruct (has_attrs req); [|reflexivity].
    destruct (is_raw_root t); [|reflexivity].
    destruct (f_raw_root_meta fl); [reflexivity|]. cbn. apply app_nil_r.
  Qed.

  Lemma finish_sc fl req (t : tree D) : sc t -> sc (fst (finish fl req t)).
  Proof.
    intros H. unfold finish. destruct (has_attrs req); [|exact H].
    destruct (is_raw_root t); [|exact H].
    destruct (f_raw_root_meta fl); [exact H|]. cbn [fst].
    apply sizes_consistent_mk_node. constructor; [exact H | constructor].
  Qed.

  Lemma finish_bal (Hw : (1 <= w)%nat) fl req h (t : tree D) :
    bal_ok w h t = true -> exists h', bal_ok w h' (fst (finish fl req t)) = true.
  Proof.
    intros H. unfold finish. destruct (has_attrs req); [|exists h; exact H].
    destruct (is_raw_root t) eqn:Er; [|exists h; exact H].
    destruct (f_raw_root_meta fl); [exists h; exact H|].
    destruct t as [k rs d|]; [|discriminate Er].
    destruct h; [|discriminate H]. exists 1%nat. unfold mk_node. cbn.
    destruct w; [lia | reflexivity].
  Qed.

  Lemma finish_not_raw fl req (t : tree D) : is_raw_root t = false -> finish fl req t = (t, expected_meta req).
  Proof. intros H. unfold finish, expected_meta. rewrite H. destruct (has_attrs req); reflexivity. Qed.

  Lemma tri_shape_not_raw raw (t : tree D) : tri_shape dlen w raw t = true -> is_raw_root t = false.
  Proof. destruct t as [k rs d|]; [|reflexivity]. destruct k; try reflexivity. cbn. discriminate. Qed.

  (** totality: the fuel passed by the model is always enough (w >= 2) *)
  Theorem layout_total (Hw : (2 <= w)%nat) fl lk raw req cs :
    exists t m, layout fl lk raw req cs = Some (t, m).
  Proof.
    unfold M_C07.layout. destruct lk.
    - assert (exists t, bal_tree dlen dnil w raw cs = Some t) as [t ->].
      { destruct cs as [|c r]; [eexists; reflexivity|]. cbn [bal_tree].
        apply bal_fuel_enough; lia. }
      destruct (finish fl req t) as [t' m] eqn:E. exists t', m. reflexivity.
    - destruct (tri_fuel_enough dlen w ltac:(lia) raw cs) as [ks Ek].
      unfold tri_tree. rewrite Ek.
      destruct (finish fl req (file_node dlen dnil ks)) as [t' m] eqn:E. exists t', m. reflexivity.
  Qed.

  Lemma layout_inv (Hw : (1 <= w)%nat) fl lk raw req cs t m :
    layout fl lk raw req cs = Some (t, m) ->
    exists t0, (t, m) = finish fl req t0 /\ sc t0 /\ leaves t0 = expected_leaves cs /\
      match lk with
      | Balanced => exists h, bal_ok w h t0 = true
      | Trickle => tri_shape dlen w raw t0 = true
      end.
  Proof.
    unfold M_C07.layout. destruct lk.
    - destruct (bal_tree dlen dnil w raw cs) as [t0|] eqn:E; [|discriminate].
      intros H; inversion H as [H1]. exists t0. split; [reflexivity|].
      destruct (bal_tree_spec dlen dnil w Hw raw cs t0 E) as (Hh & Hs & Hl). auto.
    - destruct (tri_tree dlen dnil w raw cs) as [t0|] eqn:E; [|discriminate].
      intros H; inversion H as [H1]. exists t0. split; [reflexivity|].
      destruct (tri_tree_spec dlen dnil w Hw Hdnil raw cs t0 E) as (Hh & Hs & Hl). auto.
  Qed.

  (** the leaves are the chunks, in order *)
  Theorem layout_flatten (Hw : (1 <= w)%nat) fl lk raw req cs t m :
    layout fl lk raw req cs = Some (t, m) -> leaves t = expected_leaves cs.
  Proof.
    intros H. destruct (layout_inv Hw _ _ _ _ _ _ _ H) as (t0 & Hf & _ & Hl & _).
    replace t with (fst (finish fl req t0)) by (rewrite <- Hf; reflexivity).
    rewrite finish_leaves. exact Hl.
  Qed.

  (** recorded sizes are consistent at every node, and the root records the input length *)
  Theorem layout_sizes (Hw : (1 <= w)%nat) fl lk raw req cs t m :
    layout fl lk raw req cs = Some (t, m) -> sc t /\ rsize t = dsum dlen cs.
  Proof.
    intros H. destruct (layout_inv Hw _ _ _ _ _ _ _ H) as (t0 & Hf & Hs & _ & _).
    assert (Ht : sc t).
    { replace t with (fst (finish fl req t0)) by (rewrite <- Hf; reflexivity). apply finish_sc, Hs. }
    split; [exact Ht|].
    rewrite (sizes_consistent_rsize dlen t Ht). unfold tsize.
    rewrite (layout_flatten Hw _ _ _ _ _ _ _ H).
    destruct cs; [|reflexivity]. unfold dsum. cbn. lia.
  Qed.

  Theorem layout_sizes_everywhere (Hw : (1 <= w)%nat) fl lk raw req cs t m :
    layout fl lk raw req cs = Some (t, m) ->
    forall s, subtree s t ->
      rsize s = tsize dlen s /\
      match s with
      | Leaf _ _ _ => True
      | Node rs bs kids => rs = zsum bs /\ bs = map rsize kids /\ bs = map (tsize dlen) kids
      end.
  Proof.
    intros H s Hs. apply (sizes_consistent_everywhere dlen s t); [|exact Hs].
    apply (layout_sizes Hw _ _ _ _ _ _ _ H).
  Qed.

  (** balanced shape *)
  Theorem layout_bal_shape (Hw : (1 <= w)%nat) fl raw req cs t m :
    layout fl Balanced raw req cs = Some (t, m) ->
    exists h, bal_ok w h t = true /\ uniform h t = true /\ max_links w t = true /\ height t = h.
  Proof.
    intros H. destruct (layout_inv Hw _ _ _ _ _ _ _ H) as (t0 & Hf & _ & _ & (h0 & Hh)).
    destruct (finish_bal Hw fl req h0 t0 Hh) as [h Hb].
    replace (fst (finish fl req t0)) with t in Hb by (rewrite <- Hf; reflexivity).
    exists h. split; [exact Hb|]. apply (bal_ok_uniform w Hw h t Hb).
  Qed.

  Corollary layout_bal_shape_b (Hw : (1 <= w)%nat) fl raw req cs t m :
    layout fl Balanced raw req cs = Some (t, m) -> bal_shape w t = true.
  Proof.
    intros H. destruct (layout_bal_shape Hw _ _ _ _ _ _ H) as (h & _ & Hu & Hm & Hh).
    unfold bal_shape. rewrite Hh, Hu, Hm. reflexivity.
  Qed.

  (** trickle shape: the predicate of VerifyTrickleDagStructure *)
  Theorem layout_tri_shape (Hw : (1 <= w)%nat) fl raw req cs t m :
    layout fl Trickle raw req cs = Some (t, m) -> tri_shape dlen w raw t = true.
  Proof.
    intros H. destruct (layout_inv Hw _ _ _ _ _ _ _ H) as (t0 & Hf & _ & _ & Hsh).
    rewrite (finish_not_raw _ _ _ (tri_shape_not_raw _ _ Hsh)) in Hf. inversion Hf; subst. exact Hsh.
  Qed.

  (** metadata: with the defect off the root always carries what was requested;
      with it on, it does whenever the root is not a raw block *)
  Theorem layout_meta_off lk raw req cs t m :
    layout flags_off lk raw req cs = Some (t, m) -> m = expected_meta req.
  Proof.
    unfold M_C07.layout.
    destruct (match lk with Balanced => bal_tree dlen dnil w raw cs | Trickle => tri_tree dlen dnil w raw cs end)
      as [t0|]; [|discriminate].
    intros H; inversion H as [H1]. unfold finish, expected_meta in *.
    destruct (has_attrs req); [|inversion H1; reflexivity].
    destruct (is_raw_root t0); [|inversion H1; reflexivity].
    cbn in H1. destruct t0; inversion H1; reflexivity.
  Qed.

  Theorem layout_meta_on fl lk raw req cs t m :
    layout fl lk raw req cs = Some (t, m) -> is_raw_root t = false -> m = expected_meta req.
  Proof.
    unfold M_C07.layout.
    destruct (match lk with Balanced => bal_tree dlen dnil w raw cs | Trickle => tri_tree dlen dnil w raw cs end)
      as [t0|]; [|discriminate].
    intros H; inversion H as [H1]. clear H. unfold finish, expected_meta in *.
    destruct (has_attrs req); [|inversion H1; reflexivity].
    destruct (is_raw_root t0) eqn:E; [|inversion H1; reflexivity].
    destruct (f_raw_root_meta fl).
    - inversion H1; subst. congruence.
    - destruct t0; inversion H1; reflexivity.
  Qed.

  (** determinism: the tree, hence any Merkle hash of it, is a function of the
      parameters and the chunk list *)
  Section Merkle.
    Variable C : Type.
    Variable HL : kind -> Z -> D -> C.
    Variable HN : Z -> list Z -> list C -> C.
    Fixpoint mcid (t : tree D) : C :=
      match t with
      | Leaf k rs d => HL k rs d
      | Node rs bs kids => HN rs bs (map mcid kids)
      end.
    Theorem layout_deterministic fl lk raw req cs t1 m1 t2 m2 :
      layout fl lk raw req cs = Some (t1, m1) -> layout fl lk raw req cs = Some (t2, m2) ->
      mcid t1 = mcid t2 /\ m1 = m2.
    Proof. intros H1 H2. rewrite H1 in H2. inversion H2; subst. auto. Qed.
  End Merkle.
End Top.

(** byte level: the file denoted by the tree is the input *)
Theorem layout_content {A} (w : nat) (Hw : (1 <= w)%nat) fl lk raw req (cs : list (list A)) t m :
  layout zlen [] w fl lk raw req cs = Some (t, m) ->
  content t = concat cs /\ rsize t = zlen (concat cs).
Proof.
  intros H. split.
  - unfold content. rewrite (layout_flatten zlen [] w eq_refl Hw _ _ _ _ _ _ _ H).
    destruct cs; reflexivity.
  - destruct (layout_sizes zlen [] w eq_refl Hw _ _ _ _ _ _ _ H) as [_ ->]. apply dsum_zlen_concat.
Qed.

(** the defect: with the code's behaviour (flag on) a one-chunk balanced import
    with raw leaves loses the requested mode *)
Lemma meta_refuted :
  exists (cs : list (list Z)) req,
    has_attrs req = true /\
    match layout zlen [] 174 flags_on Balanced true req cs with
    | Some (_, m) => m <> req
    | None => False
    end.
Proof.
  exists [[1; 2; 3]], (Meta 420 false 0 0). split; [reflexivity|].
  vm_compute. discriminate.
Qed.
