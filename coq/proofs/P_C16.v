(** C16 — the switching directory of model/M_C16.v with the defect flags off: after
    every edit it is sharded exactly when the documented rule says so, keeps its
    per-directory threshold, edits succeed, and its root representation (hence the
    root CID) is a function of the final set of entries alone. *)
From Coq Require Import List ZArith Bool NArith String Ascii Lia Sorted Permutation OrderedTypeEx.
From V Require Import lib.Verdict model.M_C15 model.M_C16 proofs.P_C15_trie proofs.P_C15 proofs.P_C16_canon.
Import ListNotations.
Open Scope Z_scope.

(* ------------------------------------------------------------------ *)
(** * sizes are non-negative *)
Definition val_ok (v : val) : Prop := 0 <= v_cidlen v /\ 0 <= v_tsize v.

Lemma bitlen_nonneg : forall v, 0 <= bitlen v.
Proof. intros v. unfold bitlen. destruct (v <=? 0); [lia|]. pose proof (Z.log2_nonneg v). lia. Qed.
Lemma varint_len_nonneg : forall v, 0 <= varint_len v.
Proof. intros v. unfold varint_len. pose proof (bitlen_nonneg v). apply Z.div_pos; lia. Qed.
Lemma nlen_nonneg : forall k, 0 <= nlen k.
Proof. intros. unfold nlen. lia. Qed.

Lemma link_size_nonneg : forall c n v, 0 <= n -> val_ok v -> 0 <= link_size c n v.
Proof.
  intros c n v Hn [H1 H2]. unfold link_size, bsize, lsize. destruct (g_mode c =? 1); [|lia]. cbv zeta.
  pose proof (varint_len_nonneg (v_cidlen v)). pose proof (varint_len_nonneg n). pose proof (varint_len_nonneg (v_tsize v)).
  match goal with |- 0 <= 1 + varint_len ?x + _ => pose proof (varint_len_nonneg x) end. lia.
Qed.

Lemma nodup_app_l : forall {A} (a b : list A), NoDup (a ++ b) -> NoDup a.
Proof.
  intros A a b. induction a as [|x a IH]; intros H; [constructor|]. cbn [app] in H. inversion H as [|? ? Hn Hnd]. subst.
  constructor; [|apply IH; exact Hnd]. intros Hin. apply Hn. apply in_app_iff. left. exact Hin.
Qed.

(* ------------------------------------------------------------------ *)
(** * sums over entry lists *)
Lemma total_cons : forall c x a, total_size c (x :: a) = entry_size c x + total_size c a.
Proof. reflexivity. Qed.

Lemma total_app : forall c a b, total_size c (a ++ b) = total_size c a + total_size c b.
Proof.
  intros c a b. induction a as [|x a IH]; [reflexivity|].
  rewrite <- app_comm_cons, !total_cons, IH. lia.
Qed.

Lemma total_perm : forall c a b, Permutation a b -> total_size c a = total_size c b.
Proof.
  intros c a b H. induction H as [|x a b H IH|x y a|a b d H1 IH1 H2 IH2]; rewrite ?total_cons in *; try lia; reflexivity.
Qed.

Lemma total_bdel : forall c k l w, keys_nodup l -> bget k l = Some w ->
  total_size c (bdel k l) = total_size c l - link_size c (nlen k) w.
Proof.
  intros c k l. induction l as [|[g x] r IH]; intros w Hnd H; [discriminate|].
  unfold keys_nodup in Hnd. cbn [map fst] in Hnd. inversion Hnd as [|? ? Hn Hnd']. subst.
  cbn [bget] in H. unfold bdel. cbn [filter fst]. destruct (name_eqb g k) eqn:E.
  - apply name_eqb_eq in E. subst g. inversion H. subst x. cbn [negb]. rewrite total_cons. unfold entry_size. cbn [fst snd].
    assert (Hid : filter (fun p : name * val => negb (name_eqb (fst p) k)) r = r); [|rewrite Hid; lia].
    apply filter_all_id. intros [a b] Hin. cbn [fst]. apply negb_true_iff. apply name_eqb_neq. intros ->. apply Hn. eapply in_keys_l. exact Hin.
  - cbn [negb]. rewrite !total_cons. fold (bdel k r). rewrite (IH w Hnd' H). lia.
Qed.

Lemma total_bdel_none : forall k l, bget k l = None -> bdel k l = l.
Proof.
  intros k l H. unfold bdel. apply filter_all_id. intros [a b] Hin. cbn [fst].
  apply negb_true_iff. apply name_eqb_neq. intros ->. apply (bget_none_notin k l H). eapply in_keys_l. exact Hin.
Qed.

Lemma total_nonneg : forall c l, (forall e, In e l -> val_ok (snd e)) -> 0 <= total_size c l.
Proof.
  intros c l. induction l as [|x r IH]; intros H; [cbn; lia|]. rewrite total_cons.
  assert (0 <= entry_size c x) by (apply link_size_nonneg; [apply nlen_nonneg|apply H; left; reflexivity]).
  assert (0 <= total_size c r) by (apply IH; intros; apply H; right; assumption). lia.
Qed.

(* ------------------------------------------------------------------ *)
(** * name order: sorted link lists are unique *)
Definition klt (p q : name * val) : Prop := String.ltb (fst p) (fst q) = true.

Lemma ltb_lt : forall a b, String.ltb a b = true <-> String_as_OT.lt a b.
Proof.
  intros a b. unfold String.ltb. rewrite <- String_as_OT.cmp_lt. unfold String_as_OT.cmp.
  destruct (String.compare a b); split; intros H; try reflexivity; try discriminate.
Qed.
Lemma ltb_trans : forall a b c, String.ltb a b = true -> String.ltb b c = true -> String.ltb a c = true.
Proof. intros a b c. rewrite !ltb_lt. apply String_as_OT.lt_trans. Qed.
Lemma ltb_irrefl : forall a, String.ltb a a = false.
Proof.
  intros a. unfold String.ltb. assert (E : String.compare a a = Eq) by (apply String_as_OT.cmp_eq; reflexivity).
  rewrite E. reflexivity.
Qed.
Lemma ltb_total : forall a b, a <> b -> String.ltb a b = false -> String.ltb b a = true.
Proof.
  intros a b Hne H. unfold String.ltb in *. pose proof (String_as_OT.cmp_antisym b a) as Ha. unfold String_as_OT.cmp in Ha.
  destruct (String.compare a b) eqn:E.
  - exfalso. apply Hne. apply String_as_OT.cmp_eq. exact E.
  - discriminate.
  - rewrite Ha. reflexivity.
Qed.

Definition ssorted (l : list (name * val)) : Prop := StronglySorted klt l.

Lemma sort_ins_in : forall p l x, In x (sort_ins p l) <-> x = p \/ In x l.
Proof.
  intros p l x. split; intros H.
  - eapply Permutation_in in H; [|apply sort_ins_perm]. destruct H; auto.
  - eapply Permutation_in; [symmetry; apply sort_ins_perm|]. destruct H; [left; auto|right; auto].
Qed.

Lemma sort_ins_sorted : forall p l, ssorted l -> ~ In (fst p) (map fst l) -> ssorted (sort_ins p l).
Proof.
  intros p l. induction l as [|q r IH]; intros Hs Hn; cbn [sort_ins].
  - constructor; [constructor|constructor].
  - apply StronglySorted_inv in Hs. destruct Hs as [Hs Hall]. rewrite Forall_forall in Hall.
    destruct (String.ltb (fst p) (fst q)) eqn:E.
    + constructor; [constructor; [exact Hs|rewrite Forall_forall; exact Hall]|].
      rewrite Forall_forall. intros x [<-|Hx]; [exact E|]. unfold klt. eapply ltb_trans; [exact E|apply Hall; exact Hx].
    + assert (Hqp : String.ltb (fst q) (fst p) = true).
      { apply ltb_total; [|exact E]. intros Heq. apply Hn. left. symmetry. exact Heq. }
      constructor.
      * apply IH; [exact Hs|]. intros Hin. apply Hn. right. exact Hin.
      * rewrite Forall_forall. intros x Hx. apply sort_ins_in in Hx. destruct Hx as [->|Hx]; [exact Hqp|apply Hall; exact Hx].
Qed.

Lemma sort_links_sorted : forall l, keys_nodup l -> ssorted (sort_links l).
Proof.
  induction l as [|p r IH]; intros H; [constructor|]. unfold sort_links. cbn [fold_right]. fold (sort_links r).
  unfold keys_nodup in H. cbn [map] in H. inversion H as [|? ? Hn Hnd]. subst.
  apply sort_ins_sorted; [apply IH; exact Hnd|].
  intros Hin. apply Hn. apply in_map_iff in Hin. destruct Hin as [x [E Hx]]. apply in_map_iff. exists x. split; [exact E|].
  apply (sort_links_same r). exact Hx.
Qed.

Lemma ssorted_unique : forall a b, ssorted a -> ssorted b -> same a b -> a = b.
Proof.
  induction a as [|x a IH]; intros b Ha Hb Hs.
  - destruct b as [|y b]; [reflexivity|]. exfalso. apply (proj2 (Hs y)). left. reflexivity.
  - destruct b as [|y b]; [exfalso; apply (proj1 (Hs x)); left; reflexivity|].
    apply StronglySorted_inv in Ha. destruct Ha as [Ha Hxa]. rewrite Forall_forall in Hxa.
    apply StronglySorted_inv in Hb. destruct Hb as [Hb Hyb]. rewrite Forall_forall in Hyb.
    assert (Hxy : x = y).
    { destruct (proj1 (Hs x) (or_introl eq_refl)) as [E|Hx]; [auto|].
      destruct (proj2 (Hs y) (or_introl eq_refl)) as [E|Hy]; [auto|].
      exfalso. pose proof (Hyb x Hx) as L1. pose proof (Hxa y Hy) as L2. unfold klt in *.
      pose proof (ltb_trans _ _ _ L1 L2) as L3. rewrite ltb_irrefl in L3. discriminate. }
    subst y. f_equal. apply IH; [exact Ha|exact Hb|].
    intros z. split; intros Hz.
    + destruct (proj1 (Hs z) (or_intror Hz)) as [E|H]; [|exact H]. subst z.
      pose proof (Hxa x Hz) as L. unfold klt in L. rewrite ltb_irrefl in L. discriminate.
    + destruct (proj2 (Hs z) (or_intror Hz)) as [E|H]; [|exact H]. subst z.
      pose proof (Hyb x Hz) as L. unfold klt in L. rewrite ltb_irrefl in L. discriminate.
Qed.

Lemma sort_links_unique : forall a b, keys_nodup a -> keys_nodup b -> same a b -> sort_links a = sort_links b.
Proof.
  intros a b Ha Hb Hs. apply ssorted_unique; [apply sort_links_sorted; exact Ha|apply sort_links_sorted; exact Hb|].
  intros x. rewrite (sort_links_same a x), (sort_links_same b x). apply Hs.
Qed.

(* ------------------------------------------------------------------ *)
Section Dyn16.
  Variable c : cfg16.
  Variable hidx : name -> list Z.
  Hypothesis Hlen : forall a b, llen (hidx a) = llen (hidx b).
  Hypothesis Hpos : forall a, hidx a <> [].
  (** the empty directory is not above the threshold *)
  Hypothesis Hempty : rule c [] = false.

  Notation wf := (wf hidx).
  Notation fl := fl_spec.

  Definition vals_ok (m : fmap) : Prop := forall e, In e m -> val_ok (snd e).

  (** the rule only looks at the multiset of entries *)
  Lemma rule_perm : forall a b, Permutation a b -> rule c a = rule c b.
  Proof. intros a b H. unfold rule. rewrite (total_perm c a b H), (Permutation_length H). reflexivity. Qed.

  Lemma mput_total : forall k v m, keys_nodup m ->
    total_size c (mput k v m) = total_size c m + link_size c (nlen k) v
                               - match mget k m with Some w => link_size c (nlen k) w | None => 0 end.
  Proof.
    intros k v m Hm. unfold mput, mget. rewrite total_cons. unfold entry_size. cbn [fst snd].
    destruct (bget k m) as [w|] eqn:E.
    - rewrite (total_bdel c k m w Hm E). lia.
    - rewrite (total_bdel_none k m E). lia.
  Qed.

  Lemma mput_length : forall k v m, keys_nodup m ->
    Z.of_nat (llen (mput k v m)) = Z.of_nat (llen m) + match mget k m with Some _ => 0 | None => 1 end.
  Proof.
    intros k v m Hm. unfold mput, mget. cbn [llen]. destruct (bget k m) as [w|] eqn:E.
    - assert (Hp : Permutation m ((k, w) :: bdel k m)).
      { apply NoDup_Permutation.
        - apply nodup_pairs. exact Hm.
        - apply nodup_pairs. unfold keys_nodup. cbn [map fst]. constructor; [|apply nodup_bdel; exact Hm].
          intros Hin. apply keys_bdel in Hin. destruct Hin. congruence.
        - intros [a b]. cbn [In]. rewrite in_bdel. split.
          + intros Hin. destruct (String.eqb a k) eqn:Ea.
            * apply String.eqb_eq in Ea. subst a. left. f_equal. pose proof (bget_in k m b Hm Hin). congruence.
            * apply String.eqb_neq in Ea. right. auto.
          + intros [H|[_ H]]; [inversion H; subst; apply bget_some_in; exact E|exact H]. }
      apply Permutation_length in Hp. cbn [llen] in Hp. lia.
    - rewrite (total_bdel_none k m E). lia.
  Qed.

  Lemma mdel_total : forall k m w, keys_nodup m -> mget k m = Some w ->
    total_size c (mdel k m) = total_size c m - link_size c (nlen k) w.
  Proof. intros. unfold mdel. apply total_bdel; assumption. Qed.

  Lemma mdel_length : forall k m w, keys_nodup m -> mget k m = Some w ->
    Z.of_nat (llen (mdel k m)) = Z.of_nat (llen m) - 1.
  Proof.
    intros k m w Hm E. pose proof (mput_length k w m Hm) as H. rewrite E in H. unfold mput in H. cbn [llen] in H.
    unfold mdel. lia.
  Qed.

  Lemma rule_mdel : forall k m w, keys_nodup m -> vals_ok m -> mget k m = Some w ->
    rule c m = false -> rule c (mdel k m) = false.
  Proof.
    intros k m w Hm Hv E Hr. unfold rule in *. destruct (eff c (g_th c) =? 0); [reflexivity|].
    rewrite (mdel_total k m w Hm E), (mdel_length k m w Hm E).
    assert (0 <= link_size c (nlen k) w).
    { apply link_size_nonneg; [apply nlen_nonneg|]. apply (Hv (k, w)). apply bget_some_in. exact E. }
    apply orb_false_iff in Hr. destruct Hr as [R1 R2]. apply orb_false_iff. split.
    - destruct (negb (g_mode c =? 2)); [|reflexivity]. cbn [andb] in *. apply Z.ltb_ge in R1. apply Z.ltb_ge. lia.
    - destruct (0 <? g_maxlinks c); [|reflexivity]. cbn [andb] in *. apply Z.ltb_ge in R2. apply Z.ltb_ge. lia.
  Qed.

  (* ---------------- the invariant ---------------- *)
  Definition Inv (s : st) (m : fmap) : Prop :=
    keys_nodup m /\ vals_ok m /\
    match s with
    | SBasic l es th =>
        keys_nodup l /\ same l m /\ es = est_size c l /\ th = g_th c /\ g_dynamic c = true /\ rule c m = false
    | SHamt cs tl sc th =>
        wf 0 (Node cs) /\ same (walk (Node cs)) m /\ tl = count cs /\ th = g_th c /\
        (g_dynamic c = true -> rule c m = true)
    end.

  Lemma est_same : forall l m, keys_nodup l -> keys_nodup m -> same l m -> est_size c l = est_size c m.
  Proof. intros l m Hl Hm Hs. unfold est_size. rewrite (total_perm c l m (same_perm l m Hl Hm Hs)). reflexivity. Qed.

  (** projections of the C16 operations onto the C15 ones *)
  Lemma h_add_proj : forall k v cs tl sc,
    match h_add fl c hidx k v cs tl sc with
    | inl (cs', tl', _) => hamt_add hidx k v cs tl = inl (cs', tl')
    | inr e => hamt_add hidx k v cs tl = inr e
    end.
  Proof. intros. unfold h_add, hamt_add. destruct (swap hidx (hidx k) 0 k (Some v) cs) as [[w|] cs'| |]; reflexivity. Qed.

  Lemma h_remove_proj : forall k cs tl sc,
    match h_remove fl c hidx k cs tl sc with
    | inl (cs', tl', _) => hamt_remove hidx k cs tl = inl (cs', tl')
    | inr e => hamt_remove hidx k cs tl = inr e
    end.
  Proof. intros. unfold h_remove, hamt_remove. destruct (swap hidx (hidx k) 0 k None cs) as [[w|] cs'| |]; reflexivity. Qed.

  Lemma es_term_eq : forall k v, es_term c k v = if g_mode c =? 2 then 0 else link_size c (nlen k) v.
  Proof. reflexivity. Qed.

  Lemma b_add_proj : forall ml k v l es, keys_nodup l -> es = est_size c l ->
    match b_add c ml k v l es with
    | inl (l', es') => basic_add ml k v l = inl l' /\ es' = est_size c l'
    | inr e => basic_add ml k v l = inr e
    end.
  Proof.
    intros ml k v l es Hl He. unfold b_add, basic_add. destruct (bget k l) as [w|] eqn:E.
    - split; [reflexivity|]. subst es. unfold est_size, es_term. destruct (g_mode c =? 2); [lia|].
      rewrite total_app, (total_bdel c k l w Hl E). cbn [total_size fold_right]. unfold entry_size. cbn [fst snd]. lia.
    - destruct ((0 <? ml) && (ml <? Z.of_nat (llen l) + 1)); [reflexivity|]. split; [reflexivity|].
      subst es. unfold est_size, es_term. destruct (g_mode c =? 2); [lia|].
      rewrite total_app. cbn [total_size fold_right]. unfold entry_size. cbn [fst snd]. lia.
  Qed.

  Lemma b_remove_proj : forall k l es, keys_nodup l -> es = est_size c l ->
    match b_remove c k l es with
    | inl (l', es') => basic_remove k l = inl l' /\ es' = est_size c l'
    | inr e => basic_remove k l = inr e
    end.
  Proof.
    intros k l es Hl He. unfold b_remove, basic_remove. destruct (bget k l) as [w|] eqn:E; [|reflexivity].
    split; [reflexivity|]. subst es. unfold est_size, es_term. destruct (g_mode c =? 2); [lia|].
    rewrite (total_bdel c k l w Hl E). lia.
  Qed.

  Lemma conv_basic_proj : forall ml es l e0, NoDup (map fst l ++ map fst es) -> e0 = est_size c l ->
    match conv_basic c ml es l e0 with
    | inl (l', e') => to_basic ml es l = inl l' /\ e' = est_size c l'
    | inr e => to_basic ml es l = inr e
    end.
  Proof.
    induction es as [|[k v] es IH]; intros l e0 Hnd He; cbn [conv_basic to_basic]; [split; [reflexivity|exact He]|].
    assert (Hl : keys_nodup l) by (unfold keys_nodup; eapply nodup_app_l; exact Hnd).
    pose proof (b_add_proj ml k v l e0 Hl He) as Hb.
    destruct (b_add c ml k v l e0) as [[l' e']|e].
    - destruct Hb as [Hb1 Hb2]. rewrite Hb1. apply IH; [|exact Hb2].
      assert (Hk : ~ In k (map fst l)).
      { cbn [map fst] in Hnd. apply NoDup_remove_2 in Hnd. intros H. apply Hnd. apply in_app_iff. left. exact H. }
      unfold basic_add in Hb1. destruct (bget k l) as [w|] eqn:E.
      { exfalso. apply Hk. eapply in_keys_l. apply bget_some_in. exact E. }
      destruct ((0 <? ml) && (ml <? Z.of_nat (llen l) + 1)); [discriminate|]. inversion Hb1. subst l'.
      rewrite map_app. cbn [map fst]. rewrite <- app_assoc. exact Hnd.
    - rewrite Hb. reflexivity.
  Qed.

  Lemma lookup_mget : forall k cs m, wf 0 (Node cs) -> keys_nodup m -> same (walk (Node cs)) m ->
    lookup hidx k cs = mget k m.
  Proof.
    intros k cs m Hwf Hm Hs. unfold lookup, mget.
    pose proof (find_spec hidx (hidx k) 0 k cs Hwf eq_refl) as Hf.
    destruct (find (hidx k) k cs) as [v| |].
    - symmetry. apply bget_in; [exact Hm|apply Hs; exact Hf].
    - destruct (bget k m) as [w|] eqn:E; [|reflexivity]. exfalso. apply (Hf w). apply Hs. apply bget_some_in. exact E.
    - destruct (bget k m) as [w|] eqn:E; [|reflexivity]. exfalso. apply (Hf w). apply Hs. apply bget_some_in. exact E.
  Qed.

  (** the decisions of the flag-off model are the documented rule applied to the entries
      the directory will hold after the edit *)
  Lemma up_is_rule : forall k v l m, keys_nodup l -> keys_nodup m -> same l m -> rule c m = false ->
    up_decision c k v l (est_size c l) (g_th c) = rule c (mput k v m).
  Proof.
    intros k v l m Hl Hm Hs Hr. unfold up_decision, rule in *.
    destruct (eff c (g_th c) =? 0); [reflexivity|].
    rewrite (mput_total k v m Hm), (mput_length k v m Hm). unfold exceeded, mget.
    rewrite (bget_same k l m Hl Hm Hs), (same_length l m Hl Hm Hs).
    apply orb_false_iff in Hr. destruct Hr as [R1 R2].
    unfold est_size. rewrite (total_perm c l m (same_perm l m Hl Hm Hs)).
    destruct (g_mode c =? 2) eqn:Em; cbn [negb andb orb] in *.
    - destruct (bget k m); [|rewrite Z.add_comm; reflexivity]. rewrite Z.add_0_r. symmetry. exact R2.
    - f_equal.
      + f_equal. destruct (bget k m); lia.
      + destruct (bget k m); [rewrite Z.add_0_r; symmetry; exact R2|reflexivity].
  Qed.

  Lemma down_is_rule : forall k nv cs sc m, wf 0 (Node cs) -> keys_nodup m -> same (walk (Node cs)) m ->
    rule c m = true ->
    let m' := match nv with Some v => mput k v m | None => mdel k m end in
    (nv = None -> mget k m <> None) ->
    down_decision fl c hidx k nv cs (count cs) sc (g_th c) = negb (rule c m').
  Proof.
    intros k nv cs sc m Hwf Hm Hs Hr m' Hpres. unfold down_decision. unfold rule in Hr |- *.
    destruct (eff c (g_th c) =? 0) eqn:Ee; [discriminate|].
    rewrite (lookup_mget k cs m Hwf Hm Hs). rewrite (count_len hidx cs m Hwf Hm Hs).
    rewrite (total_perm c _ m (same_perm _ m (walk_nodup hidx cs Hwf) Hm Hs)).
    cbn [fl_spec f_gate f_prefix f_addname]. unfold stored_nlen. cbn [fl_spec f_prefix]. rewrite Z.add_0_r.
    assert (Hlen' : Z.of_nat (llen m') = Z.of_nat (llen m) + match nv with Some _ => 1 | None => 0 end
                                          - match mget k m with Some _ => 1 | None => 0 end).
    { subst m'. destruct nv as [v|].
      - rewrite (mput_length k v m Hm). destruct (mget k m); lia.
      - destruct (mget k m) as [w|] eqn:E; [|exfalso; exact (Hpres eq_refl eq_refl)]. rewrite (mdel_length k m w Hm E). lia. }
    assert (Htot : total_size c m' = total_size c m + match nv with Some v => link_size c (nlen k) v | None => 0 end
                                     - match mget k m with Some w => link_size c (nlen k) w | None => 0 end).
    { subst m'. destruct nv as [v|].
      - rewrite (mput_total k v m Hm). lia.
      - destruct (mget k m) as [w|] eqn:E; [|exfalso; exact (Hpres eq_refl eq_refl)]. rewrite (mdel_total k m w Hm E). lia. }
    rewrite Hlen', Htot.
    set (nt := Z.of_nat (llen m) + match nv with Some _ => 1 | None => 0 end - match mget k m with Some _ => 1 | None => 0 end).
    set (dl := match nv with Some v => link_size c (nlen k) v | None => 0 end - match mget k m with Some w => link_size c (nlen k) w | None => 0 end).
    replace (total_size c m + match nv with Some v => link_size c (nlen k) v | None => 0 end
             - match mget k m with Some w => link_size c (nlen k) w | None => 0 end) with (total_size c m + dl) by (subst dl; lia).
    destruct (g_mode c =? 2) eqn:Em; cbn [negb andb orb] in *.
    - apply andb_true_iff in Hr. destruct Hr as [R1 _]. rewrite R1. cbn [andb].
      destruct (g_maxlinks c <? nt) eqn:E1; cbn [negb andb].
      + reflexivity.
      + apply Z.ltb_ge in E1. apply Z.leb_le in E1. rewrite E1. reflexivity.
    - rewrite negb_orb. f_equal. rewrite Z.leb_antisym. f_equal. f_equal. lia.
  Qed.

  (* ---------------- one step ---------------- *)
  Definition no_coll (ks : list name) : Prop := has_collision hidx ks = false.

  Definition step_spec (m : fmap) (o : op16) (b : ob16) : bool :=
    let m' := apply_op m o (o_err b) in
    (if g_dynamic c then Bool.eqb (o_hamt b) (rule c m') else o_hamt b) &&
    (o_th b =? g_th c) &&
    (match o_err b, o with
     | None, AAdd _ _ => true
     | None, ARemove k => match mget k m with Some _ => true | None => false end
     | None, AReload => true
     | Some ENotExist, ARemove k => match mget k m with Some _ => false | None => true end
     | Some EMaxLinks, AAdd k _ =>
         (eff c (g_th c) =? 0) && g_dynamic c &&
         match mget k m with
         | None => (0 <? g_maxlinks c) && (g_maxlinks c <? Z.of_nat (llen m) + 1)
         | Some _ => false
         end
     | Some _, _ => false
     end).

  Lemma spec_hist_cons : forall m o ro b rb,
    spec_hist c m (o :: ro) (b :: rb) = step_spec m o b && spec_hist c (apply_op m o (o_err b)) ro rb.
  Proof. intros. cbn [spec_hist]. unfold step_spec. reflexivity. Qed.

  Definition op_val_ok (o : op16) : Prop := match o with AAdd _ v => val_ok v | _ => True end.
  (** the name an edit touches does not share its complete index list with a stored name *)
  Definition op_nc (m : fmap) (o : op16) : Prop :=
    match o with AAdd k _ | ARemove k => no_coll (k :: map fst m) | AReload => True end.

  Lemma observe_ok : forall s m e, Inv s m ->
    (if g_dynamic c then Bool.eqb (o_hamt (observe e s)) (rule c m) else o_hamt (observe e s)) = true /\
    (o_th (observe e s) =? g_th c) = true.
  Proof.
    intros s m e [Hm [Hv HI]]. destruct s as [l es th|cs tl sc th]; cbn [observe o_hamt o_th].
    - destruct HI as [_ [_ [_ [Hth [Hd Hr]]]]]. rewrite Hd, Hr, Hth. split; [reflexivity|apply Z.eqb_refl].
    - destruct HI as [_ [_ [_ [Hth Hr]]]]. rewrite Hth. split; [|apply Z.eqb_refl].
      destruct (g_dynamic c); [rewrite (Hr eq_refl)|]; reflexivity.
  Qed.

  Lemma vals_ok_mput : forall k v m, val_ok v -> vals_ok m -> vals_ok (mput k v m).
  Proof.
    intros k v m Hv Hm [a b] Hin. apply mput_in in Hin. destruct Hin as [[_ ->]|[_ Hin]]; [exact Hv|exact (Hm _ Hin)].
  Qed.
  Lemma vals_ok_mdel : forall k m, vals_ok m -> vals_ok (mdel k m).
  Proof. intros k m Hm [a b] Hin. unfold mdel in Hin. apply in_bdel in Hin. exact (Hm _ (proj2 Hin)). Qed.

  Lemma no_coll_false : forall k (m : fmap) g, no_coll (k :: map fst m) -> In g (map fst m) -> g <> k -> hidx g = hidx k -> False.
  Proof.
    intros k m g Hn Hg Hne He. unfold no_coll in Hn.
    rewrite (has_collision_intro hidx (k :: map fst m) k g) in Hn; [discriminate|left; reflexivity|right; exact Hg|congruence|congruence].
  Qed.

  Lemma step16_ok : forall s m o, Inv s m -> op_val_ok o -> op_nc m o ->
    let (s', b) := step16 fl c hidx s o in
    step_spec m o b = true /\ Inv s' (apply_op m o (o_err b)).
  Proof.
    intros s m o HInv Hov Hnc. pose proof HInv as [Hm [Hv HI]].
    unfold step16. destruct o as [k v|k|]; cbn [op_nc op_val_ok] in *.
    - (* AddChild *)
      assert (Hm' : keys_nodup (mput k v m)) by (apply mput_nodup; exact Hm).
      assert (Hv' : vals_ok (mput k v m)) by (apply vals_ok_mput; assumption).
      assert (Hfin : forall s' : st, Inv s' (mput k v m) ->
                let b := observe None s' in step_spec m (AAdd k v) b = true /\ Inv s' (apply_op m (AAdd k v) (o_err b))).
      { intros s' HI' b. assert (Eb : o_err b = None) by (subst b; destruct s'; reflexivity).
        split; [|rewrite Eb; exact HI']. unfold step_spec. rewrite Eb. cbn [apply_op].
        destruct (observe_ok s' (mput k v m) None HI') as [O1 O2]. fold b in O1, O2. rewrite O1, O2. reflexivity. }
      destruct s as [l es th|cs tl sc th]; cbn [add16].
      + destruct HI as [Hl [Hs [Hes [Hth [Hd Hr]]]]]. subst es th. rewrite Hd. cbn [andb].
        rewrite (up_is_rule k v l m Hl Hm Hs Hr).
        destruct (rule c (mput k v m)) eqn:Er.
        * (* becomes a HAMT *)
          pose proof (to_hamt_ok hidx Hlen Hpos (sort_links l) [] (wf_empty hidx 0)) as Hth. rewrite count_nil in Hth.
          specialize (Hth ltac:(cbn [walk flat_map map app]; apply sort_links_nodup; exact Hl)).
          destruct (to_hamt hidx (sort_links l) [] 0) as [[cs tl]|e].
          -- destruct Hth as [Hwf [Htl Hmem]]. subst tl.
             assert (Hs' : same (walk (Node cs)) m).
             { intros x. rewrite Hmem. cbn [walk flat_map In]. split.
               - intros [[]|H]. apply Hs. apply sort_links_same. exact H.
               - intros H. right. apply sort_links_same. apply Hs. exact H. }
             pose proof (h_add_proj k v cs (count cs) 0) as Hp.
             pose proof (hamt_add_ok hidx Hlen Hpos cs k v m Hwf Hm Hs') as Ha.
             destruct (h_add fl c hidx k v cs (count cs) 0) as [[[cs' tl'] sc']|e].
             ++ rewrite Hp in Ha. destruct Ha as [H1 [H2 H3]]. apply Hfin.
                split; [exact Hm'|]. split; [exact Hv'|]. split; [exact H1|]. split; [exact H3|]. split; [exact H2|]. split; [reflexivity|].
                intros _. exact Er.
             ++ exfalso. rewrite Hp in Ha. destruct Ha as [_ [g [Hg [Hgk He]]]]. exact (no_coll_false k m g Hnc Hg Hgk He).
          -- exfalso. destruct Hth as [_ Hc]. unfold no_coll in Hnc.
             rewrite (has_collision_incl hidx _ (k :: map fst m) Hc) in Hnc; [discriminate|].
             intros a Ha. cbn [walk flat_map map app] in Ha. right.
             apply in_map_iff in Ha. destruct Ha as [[x y] [E H]]. cbn in E. subst x.
             eapply in_keys_l. apply Hs. apply sort_links_same. exact H.
        * pose proof (b_add_proj (g_maxlinks c) k v l (est_size c l) Hl eq_refl) as Hp.
          pose proof (basic_add_ok (g_maxlinks c) l k v m Hl Hm Hs) as Hb.
          destruct (b_add c (g_maxlinks c) k v l (est_size c l)) as [[l' es']|e].
          -- destruct Hp as [Hp1 Hp2]. rewrite Hp1 in Hb. destruct Hb as [H1 H2]. apply Hfin.
             split; [exact Hm'|]. split; [exact Hv'|]. split; [exact H1|]. split; [exact H2|]. split; [exact Hp2|]. split; [reflexivity|]. split; [exact Hd|exact Er].
          -- rewrite Hp in Hb. destruct Hb as [-> [Hg Hcap]].
             assert (Ee : (eff c (g_th c) =? 0) = true).
             { unfold rule in Er. destruct (eff c (g_th c) =? 0); [reflexivity|]. exfalso.
               rewrite (mput_length k v m Hm), Hg in Er. apply orb_false_iff in Er. destruct Er as [_ Er].
               rewrite Hcap in Er. discriminate. }
             split.
             ++ unfold step_spec. cbn [observe o_err o_hamt o_th apply_op]. rewrite Hd, Hr, Ee, Hg, Hcap, Z.eqb_refl. reflexivity.
             ++ cbn [observe o_err apply_op]. exact HInv.
      + destruct HI as [Hwf [Hs [Htl [Hth Hr]]]]. subst tl th.
        destruct (g_dynamic c) eqn:Hd; cbn [andb].
        * specialize (Hr eq_refl).
          rewrite (down_is_rule k (Some v) cs sc m Hwf Hm Hs Hr ltac:(discriminate)).
          destruct (rule c (mput k v m)) eqn:Er; cbn [negb].
          -- pose proof (h_add_proj k v cs (count cs) sc) as Hp.
             pose proof (hamt_add_ok hidx Hlen Hpos cs k v m Hwf Hm Hs) as Ha.
             destruct (h_add fl c hidx k v cs (count cs) sc) as [[[cs' tl'] sc']|e].
             ++ rewrite Hp in Ha. destruct Ha as [H1 [H2 H3]]. apply Hfin.
                split; [exact Hm'|]. split; [exact Hv'|]. split; [exact H1|]. split; [exact H3|]. split; [exact H2|]. split; [reflexivity|].
                intros _. exact Er.
             ++ exfalso. rewrite Hp in Ha. destruct Ha as [_ [g [Hg [Hgk He]]]]. exact (no_coll_false k m g Hnc Hg Hgk He).
          -- (* back to a basic directory *)
             assert (Hcap : g_maxlinks c <= 0 \/ Z.of_nat (llen (mput k v m)) <= g_maxlinks c).
             { unfold rule in Er. destruct (eff c (g_th c) =? 0) eqn:Ee.
               - unfold rule in Hr. rewrite Ee in Hr. discriminate.
               - apply orb_false_iff in Er. destruct Er as [_ Er]. destruct (0 <? g_maxlinks c) eqn:E1.
                 + cbn [andb] in Er. apply Z.ltb_ge in Er. right. exact Er.
                 + apply Z.ltb_ge in E1. left. exact E1. }
             pose proof (conv_basic_proj (g_maxlinks c) (walk (Node cs)) [] (fresh_es c)) as Hcp.
             specialize (Hcp ltac:(cbn [map app]; apply (walk_nodup hidx cs Hwf))).
             specialize (Hcp ltac:(unfold fresh_es, est_size; cbn [total_size fold_right]; destruct (g_mode c =? 2); lia)).
             destruct (to_basic_ok (walk (Node cs)) [] (g_maxlinks c)) as [l [Hl1 [Hl2 Hl3]]].
             { cbn [map app]. apply (walk_nodup hidx cs Hwf). }
             { cbn [llen Nat.add]. rewrite (same_length _ m (walk_nodup hidx cs Hwf) Hm Hs).
               rewrite (mput_length k v m Hm) in Hcap. destruct (mget k m); lia. }
             destruct (conv_basic c (g_maxlinks c) (walk (Node cs)) [] (fresh_es c)) as [[l0 es0]|e0];
               [|rewrite Hl1 in Hcp; discriminate].
             destruct Hcp as [Hc1 Hc2]. rewrite Hl1 in Hc1. inversion Hc1. subst l0. clear Hc1.
             assert (Hsl : same l m).
             { intros x. rewrite Hl3. cbn [In]. split; [intros [[]|H]; apply Hs; exact H|intros H; right; apply Hs; exact H]. }
             pose proof (b_add_proj (g_maxlinks c) k v l es0 Hl2 Hc2) as Hp.
             pose proof (basic_add_ok (g_maxlinks c) l k v m Hl2 Hm Hsl) as Hb.
             destruct (b_add c (g_maxlinks c) k v l es0) as [[l' es']|e].
             ++ destruct Hp as [Hp1 Hp2]. rewrite Hp1 in Hb. destruct Hb as [H1 H2]. cbn [fl_spec f_thresh]. apply Hfin.
                split; [exact Hm'|]. split; [exact Hv'|]. split; [exact H1|]. split; [exact H2|]. split; [exact Hp2|]. split; [reflexivity|]. split; [exact Hd|exact Er].
             ++ exfalso. rewrite Hp in Hb. destruct Hb as [_ [Hg Hc']]. rewrite (mput_length k v m Hm), Hg in Hcap.
                apply andb_true_iff in Hc'. destruct Hc' as [C1 C2]. apply Z.ltb_lt in C1. apply Z.ltb_lt in C2. lia.
        * pose proof (h_add_proj k v cs (count cs) sc) as Hp.
          pose proof (hamt_add_ok hidx Hlen Hpos cs k v m Hwf Hm Hs) as Ha.
          destruct (h_add fl c hidx k v cs (count cs) sc) as [[[cs' tl'] sc']|e].
          -- rewrite Hp in Ha. destruct Ha as [H1 [H2 H3]]. apply Hfin.
             split; [exact Hm'|]. split; [exact Hv'|]. split; [exact H1|]. split; [exact H3|]. split; [exact H2|]. split; [reflexivity|].
             intros Hd'. congruence.
          -- exfalso. rewrite Hp in Ha. destruct Ha as [_ [g [Hg [Hgk He]]]]. exact (no_coll_false k m g Hnc Hg Hgk He).
    - (* RemoveChild *)
      assert (Hfin : forall (s' : st) w, mget k m = Some w -> Inv s' (mdel k m) ->
                let b := observe None s' in step_spec m (ARemove k) b = true /\ Inv s' (apply_op m (ARemove k) (o_err b))).
      { intros s' w Hw HI' b. assert (Eb : o_err b = None) by (subst b; destruct s'; reflexivity).
        split; [|rewrite Eb; exact HI']. unfold step_spec. rewrite Eb. cbn [apply_op]. rewrite Hw.
        destruct (observe_ok s' (mdel k m) None HI') as [O1 O2]. fold b in O1, O2. rewrite O1, O2. reflexivity. }
      assert (Hmiss : mget k m = None ->
                let b := observe (Some ENotExist) s in step_spec m (ARemove k) b = true /\ Inv s (apply_op m (ARemove k) (o_err b))).
      { intros Hw b. assert (Eb : o_err b = Some ENotExist) by (subst b; destruct s; reflexivity).
        split; [|rewrite Eb; exact HInv]. unfold step_spec. rewrite Eb. cbn [apply_op]. rewrite Hw.
        destruct (observe_ok s m (Some ENotExist) HInv) as [O1 O2]. fold b in O1, O2. rewrite O1, O2. reflexivity. }
      assert (Hm' : keys_nodup (mdel k m)) by (apply mdel_nodup; exact Hm).
      assert (Hv' : vals_ok (mdel k m)) by (apply vals_ok_mdel; exact Hv).
      destruct s as [l es th|cs tl sc th]; cbn [remove16].
      + destruct HI as [Hl [Hs [Hes [Hth [Hd Hr]]]]]. subst es th.
        pose proof (b_remove_proj k l (est_size c l) Hl eq_refl) as Hp.
        pose proof (basic_remove_ok l k m Hl Hm Hs) as Hb.
        destruct (b_remove c k l (est_size c l)) as [[l' es']|e].
        * destruct Hp as [Hp1 Hp2]. rewrite Hp1 in Hb. destruct Hb as [H1 [H2 H3]].
          destruct (mget k m) as [w|] eqn:Ew; [|congruence]. apply (Hfin _ w eq_refl).
          split; [exact Hm'|]. split; [exact Hv'|]. split; [exact H1|]. split; [exact H2|]. split; [exact Hp2|]. split; [reflexivity|]. split; [exact Hd|].
          apply (rule_mdel k m w Hm Hv Ew Hr).
        * rewrite Hp in Hb. destruct Hb as [-> Hg]. apply Hmiss. exact Hg.
      + destruct HI as [Hwf [Hs [Htl [Hth Hr]]]]. subst tl th.
        destruct (g_dynamic c && down_decision fl c hidx k None cs (count cs) sc (g_th c)) eqn:Edec.
        2: { pose proof (h_remove_proj k cs (count cs) sc) as Hp.
             pose proof (hamt_remove_ok hidx Hlen Hpos cs k m Hwf Hm Hs) as Ha.
             destruct (h_remove fl c hidx k cs (count cs) sc) as [[[cs' tl'] sc']|e].
             - rewrite Hp in Ha. destruct Ha as [H1 [H2 [H3 H4]]]. destruct (mget k m) as [w|] eqn:Ew; [|congruence].
               apply (Hfin _ w eq_refl). split; [exact Hm'|]. split; [exact Hv'|]. split; [exact H1|]. split; [exact H3|]. split; [exact H2|].
               split; [reflexivity|]. intros Hd. rewrite Hd in Edec. cbn [andb] in Edec. specialize (Hr Hd).
               rewrite (down_is_rule k None cs sc m Hwf Hm Hs Hr ltac:(intros _; congruence)) in Edec.
               apply negb_false_iff in Edec. exact Edec.
             - rewrite Hp in Ha. destruct Ha as [-> Hg]. apply Hmiss. exact Hg. }
        apply andb_true_iff in Edec. destruct Edec as [Hd Hdec]. specialize (Hr Hd).
        destruct (mget k m) as [w|] eqn:Ew.
        * rewrite (down_is_rule k None cs sc m Hwf Hm Hs Hr ltac:(intros _; congruence)) in Hdec.
          apply negb_true_iff in Hdec.
          set (ml' := if 0 <? g_maxlinks c then g_maxlinks c + 1 else g_maxlinks c).
          assert (Hcap : ml' <= 0 \/ Z.of_nat (llen m) <= ml').
          { subst ml'. unfold rule in Hdec. destruct (eff c (g_th c) =? 0) eqn:Ee.
            - unfold rule in Hr. rewrite Ee in Hr. discriminate.
            - apply orb_false_iff in Hdec. destruct Hdec as [_ Er]. rewrite (mdel_length k m w Hm Ew) in Er.
              destruct (0 <? g_maxlinks c) eqn:E1.
              + cbn [andb] in Er. apply Z.ltb_ge in Er. right. lia.
              + apply Z.ltb_ge in E1. left. exact E1. }
          pose proof (conv_basic_proj ml' (walk (Node cs)) [] (fresh_es c)) as Hcp.
          specialize (Hcp ltac:(cbn [map app]; apply (walk_nodup hidx cs Hwf))).
          specialize (Hcp ltac:(unfold fresh_es, est_size; cbn [total_size fold_right]; destruct (g_mode c =? 2); lia)).
          destruct (to_basic_ok (walk (Node cs)) [] ml') as [l [Hl1 [Hl2 Hl3]]].
          { cbn [map app]. apply (walk_nodup hidx cs Hwf). }
          { cbn [llen Nat.add]. rewrite (same_length _ m (walk_nodup hidx cs Hwf) Hm Hs). exact Hcap. }
          destruct (conv_basic c ml' (walk (Node cs)) [] (fresh_es c)) as [[l0 es0]|e0];
            [|rewrite Hl1 in Hcp; discriminate].
          destruct Hcp as [Hc1 Hc2]. rewrite Hl1 in Hc1. inversion Hc1. subst l0. clear Hc1.
          assert (Hsl : same l m).
          { intros x. rewrite Hl3. cbn [In]. split; [intros [[]|H]; apply Hs; exact H|intros H; right; apply Hs; exact H]. }
          pose proof (b_remove_proj k l es0 Hl2 Hc2) as Hp.
          pose proof (basic_remove_ok l k m Hl2 Hm Hsl) as Hb.
          destruct (b_remove c k l es0) as [[l' es']|e].
          -- destruct Hp as [Hp1 Hp2]. rewrite Hp1 in Hb. destruct Hb as [H1 [H2 H3]]. apply (Hfin _ w eq_refl).
             split; [exact Hm'|]. split; [exact Hv'|]. split; [exact H1|]. split; [exact H2|]. split; [exact Hp2|]. split; [reflexivity|]. split; [exact Hd|exact Hdec].
          -- exfalso. rewrite Hp in Hb. destruct Hb as [_ Hg]. congruence.
        * (* a missing name never converts: the rule holds for the unchanged entries *)
          exfalso. unfold down_decision in Hdec. unfold rule in Hr.
          destruct (eff c (g_th c) =? 0) eqn:Ee; [discriminate|].
          rewrite (lookup_mget k cs m Hwf Hm Hs), Ew in Hdec. rewrite (count_len hidx cs m Hwf Hm Hs) in Hdec.
          rewrite (total_perm c _ m (same_perm _ m (walk_nodup hidx cs Hwf) Hm Hs)) in Hdec.
          cbn [fl_spec f_gate f_addname] in Hdec. rewrite !Z.add_0_r, !Z.sub_0_r in Hdec.
          destruct (g_mode c =? 2) eqn:Em; cbn [negb andb orb] in *.
          -- apply andb_true_iff in Hdec. destruct Hdec as [Hdec H3]. apply andb_true_iff in Hdec. destruct Hdec as [H1 H2].
             apply andb_true_iff in Hr. destruct Hr as [_ R2]. apply Z.ltb_lt in R2. apply Z.leb_le in H3. lia.
          -- apply andb_true_iff in Hdec. destruct Hdec as [H1 H2]. apply Z.leb_le in H1.
             apply orb_true_iff in Hr. destruct Hr as [R|R].
             ++ apply Z.ltb_lt in R. lia.
             ++ rewrite R in H2. discriminate.
    - (* reload *)
      assert (HI' : Inv (reload16 fl c s) m).
      { split; [exact Hm|]. split; [exact Hv|]. destruct s as [l es th|cs tl sc th]; cbn [reload16 fl_spec f_reloadtl].
        - destruct HI as [Hl [Hs [Hes [Hth [Hd Hr]]]]].
          split; [apply sort_links_nodup; exact Hl|]. split; [intros x; rewrite (sort_links_same l x); apply Hs|].
          split; [|split; [reflexivity|split; [exact Hd|exact Hr]]].
          rewrite Hes. unfold est_size. rewrite (total_perm c _ _ (sort_links_perm l)). reflexivity.
        - destruct HI as [Hwf [Hs [Htl [Hth Hr]]]]. split; [exact Hwf|]. split; [exact Hs|]. split; [reflexivity|]. split; [reflexivity|exact Hr]. }
      assert (Eb : o_err (observe None (reload16 fl c s)) = None) by (destruct s; reflexivity).
      split; [|rewrite Eb; exact HI']. unfold step_spec. rewrite Eb. cbn [apply_op].
      destruct (observe_ok (reload16 fl c s) m None HI') as [O1 O2]. rewrite O1, O2. reflexivity.
  Qed.


  (* ---------------- histories ---------------- *)
  Fixpoint ops_ok (m : fmap) (ops : list op16) (obs : list ob16) : Prop :=
    match ops, obs with
    | o :: ro, b :: rb =>
        op_val_ok o /\ op_nc m o /\ ops_ok (apply_op m o (o_err b)) ro rb
    | _, _ => True
    end.

  Lemma init_inv : Inv (init16 c) [].
  Proof.
    split; [constructor|]. split; [intros ? []|]. unfold init16. destruct (g_dynamic c) eqn:Hd.
    - split; [constructor|]. split; [intros x; reflexivity|]. split; [|split; [reflexivity|split; [reflexivity|exact Hempty]]].
      unfold fresh_es, est_size. cbn [total_size fold_right]. destruct (g_mode c =? 2); lia.
    - split; [apply wf_empty|]. split; [intros x; reflexivity|]. split; [reflexivity|]. split; [reflexivity|]. intros H. discriminate.
  Qed.

  Lemma run16_ok : forall ops s m, Inv s m ->
    ops_ok m ops (snd (run16 fl c hidx s ops)) ->
    spec_hist c m ops (snd (run16 fl c hidx s ops)) = true /\
    Inv (fst (run16 fl c hidx s ops)) (final_map m ops (snd (run16 fl c hidx s ops))).
  Proof.
    induction ops as [|o ops IH]; intros s m HI Hok; [split; [reflexivity|exact HI]|].
    cbn [run16] in *. pose proof (step16_ok s m o HI) as Hst.
    destruct (step16 fl c hidx s o) as [s' b] eqn:Est.
    destruct (run16 fl c hidx s' ops) as [s'' bs] eqn:Er. cbn [fst snd ops_ok] in *.
    destruct Hok as [Hov [Hnc Hok]]. destruct (Hst Hov Hnc) as [Hsp HI'].
    specialize (IH s' _ HI'). rewrite Er in IH. cbn [fst snd] in IH. destruct (IH Hok) as [IH1 IH2].
    rewrite spec_hist_cons, Hsp, IH1. split; [reflexivity|]. cbn [final_map]. exact IH2.
  Qed.

  (** two states that hold the same entries have the same root *)
  Lemma inv_repr : forall s1 m1 s2 m2, Inv s1 m1 -> Inv s2 m2 -> same m1 m2 -> repr_of c s1 = repr_of c s2.
  Proof.
    intros s1 m1 s2 m2 [Hm1 [_ H1]] [Hm2 [_ H2]] Hs.
    assert (Hrule : rule c m1 = rule c m2) by (apply rule_perm; apply same_perm; assumption).
    destruct s1 as [l1 es1 th1|cs1 tl1 sc1 th1]; destruct s2 as [l2 es2 th2|cs2 tl2 sc2 th2]; cbn [repr_of].
    - destruct H1 as [Hl1 [Hs1 _]]. destruct H2 as [Hl2 [Hs2 _]]. f_equal. apply sort_links_unique; [exact Hl1|exact Hl2|].
      intros x. rewrite (Hs1 x), (Hs2 x). apply Hs.
    - exfalso. destruct H1 as [_ [_ [_ [_ [Hd Hr1]]]]]. destruct H2 as [_ [_ [_ [_ Hr2]]]]. specialize (Hr2 Hd). congruence.
    - exfalso. destruct H2 as [_ [_ [_ [_ [Hd Hr2]]]]]. destruct H1 as [_ [_ [_ [_ Hr1]]]]. specialize (Hr1 Hd). congruence.
    - destruct H1 as [Hw1 [Hs1 _]]. destruct H2 as [Hw2 [Hs2 _]]. f_equal. f_equal. f_equal.
      apply (shard_unique hidx cs1 cs2 Hw1 Hw2). intros x. rewrite (Hs1 x), (Hs2 x). apply Hs.
  Qed.

  (** reloading does not change the root *)
  Lemma reload_repr : forall s m, Inv s m -> repr_of c (reload16 fl c s) = repr_of c s.
  Proof.
    intros s m HI. pose proof (step16_ok s m AReload HI I I) as H. unfold step16 in H. destruct H as [_ HI'].
    cbn [apply_op observe] in HI'. assert (E : o_err (observe None (reload16 fl c s)) = None) by (destruct s; reflexivity).
    rewrite E in HI'. cbn [apply_op] in HI'. apply (inv_repr _ _ _ _ HI' HI). intros x; reflexivity.
  Qed.
End Dyn16.

(* ------------------------------------------------------------------ *)
(** * top-level statements *)

(** every history: sharded as the rule says after each edit, threshold kept, edits succeed *)
Theorem history_meets_spec : forall c hidx ops,
  (forall a b, llen (hidx a) = llen (hidx b)) -> (forall a, hidx a <> []) -> rule c [] = false ->
  ops_ok hidx [] ops (snd (run16 fl_spec c hidx (init16 c) ops)) ->
  spec_hist c [] ops (snd (run16 fl_spec c hidx (init16 c) ops)) = true.
Proof.
  intros c hidx ops Hlen Hpos He Hok.
  exact (proj1 (run16_ok c hidx Hlen Hpos He ops (init16 c) [] (init_inv c hidx He) Hok)).
Qed.

(** two histories that leave the same entries leave the same root *)
Theorem dynamic_canonical : forall c hidx ops1 ops2,
  (forall a b, llen (hidx a) = llen (hidx b)) -> (forall a, hidx a <> []) -> rule c [] = false ->
  ops_ok hidx [] ops1 (snd (run16 fl_spec c hidx (init16 c) ops1)) ->
  ops_ok hidx [] ops2 (snd (run16 fl_spec c hidx (init16 c) ops2)) ->
  same (final_map [] ops1 (snd (run16 fl_spec c hidx (init16 c) ops1)))
       (final_map [] ops2 (snd (run16 fl_spec c hidx (init16 c) ops2))) ->
  repr_of c (fst (run16 fl_spec c hidx (init16 c) ops1)) = repr_of c (fst (run16 fl_spec c hidx (init16 c) ops2)).
Proof.
  intros c hidx ops1 ops2 Hlen Hpos He H1 H2 Hs.
  pose proof (proj2 (run16_ok c hidx Hlen Hpos He ops1 (init16 c) [] (init_inv c hidx He) H1)) as I1.
  pose proof (proj2 (run16_ok c hidx Hlen Hpos He ops2 (init16 c) [] (init_inv c hidx He) H2)) as I2.
  exact (inv_repr c hidx _ _ _ _ I1 I2 Hs).
Qed.

(** a reload (persist, re-open from the root node) at any point of any history leaves the root unchanged *)
Theorem reload_canonical : forall c hidx ops,
  (forall a b, llen (hidx a) = llen (hidx b)) -> (forall a, hidx a <> []) -> rule c [] = false ->
  ops_ok hidx [] ops (snd (run16 fl_spec c hidx (init16 c) ops)) ->
  repr_of c (reload16 fl_spec c (fst (run16 fl_spec c hidx (init16 c) ops))) =
  repr_of c (fst (run16 fl_spec c hidx (init16 c) ops)).
Proof.
  intros c hidx ops Hlen Hpos He Hok.
  pose proof (proj2 (run16_ok c hidx Hlen Hpos He ops (init16 c) [] (init_inv c hidx He) Hok)) as HI.
  exact (reload_repr c hidx Hlen Hpos He _ _ HI).
Qed.

(** the directory is a HAMT exactly when the rule holds for its entries (dynamic directories) *)
Theorem sharded_iff : forall c hidx ops,
  (forall a b, llen (hidx a) = llen (hidx b)) -> (forall a, hidx a <> []) -> rule c [] = false ->
  g_dynamic c = true ->
  ops_ok hidx [] ops (snd (run16 fl_spec c hidx (init16 c) ops)) ->
  is_hamt16 (fst (run16 fl_spec c hidx (init16 c) ops)) =
  rule c (final_map [] ops (snd (run16 fl_spec c hidx (init16 c) ops))).
Proof.
  intros c hidx ops Hlen Hpos He Hd Hok.
  pose proof (proj2 (run16_ok c hidx Hlen Hpos He ops (init16 c) [] (init_inv c hidx He) Hok)) as [_ [_ HI]].
  destruct (fst (run16 fl_spec c hidx (init16 c) ops)) as [l es th|cs tl sc th]; cbn [is_hamt16].
  - destruct HI as [_ [_ [_ [_ [_ Hr]]]]]. symmetry. exact Hr.
  - destruct HI as [_ [_ [_ [_ Hr]]]]. symmetry. exact (Hr Hd).
Qed.

(* ------------------------------------------------------------------ *)
(** * the four defects: each flag, switched on alone, breaks the specification *)
Local Open Scope string_scope.
Definition whidx (k : name) : list Z :=
  match k with
  | EmptyString => [0; 0]
  | String ch _ => [Z.of_N (N_of_ascii ch); Z.of_nat (String.length k)]
  end.
Fixpoint rep (n : nat) (ch : ascii) : string := match n with O => EmptyString | S n' => String ch (rep n' ch) end.
Definition v34 := mkval 0 34 10.
Definition v36 := mkval 1 36 10.
Definition v8 := mkval 2 8 4.
Definition cfgL (th : Z) := mkcfg16 8 2%nat 0 262144 th 0 4 true.      (* width 256, links mode *)
Definition cfgB (th : Z) := mkcfg16 8 2%nat 0 262144 th 1 4 true.      (* width 256, block mode *)

(** C16-1: four 46-byte entries + one 45-byte entry = 229 = threshold; a sixth entry makes it a
    HAMT; removing the 45-byte one converts back although 230 bytes remain *)
Definition w1_ops := [AAdd (rep 12 "a") v34; AAdd (rep 12 "b") v34; AAdd (rep 12 "c") v34; AAdd (rep 12 "d") v34;
                      AAdd (rep 11 "m") v34; AAdd (rep 12 "e") v34; ARemove (rep 11 "m")].
(** C16-2: a replacement by a smaller value converts HAMT -> basic through AddChild: threshold lost *)
Definition w2_ops := [AAdd (rep 6 "a") v34; AAdd (rep 26 "x") v34; AAdd (rep 4 "b") v36; AAdd (rep 4 "b") v8].
(** C16-3: 80 bytes under a threshold of 100; X (44 bytes) makes it a HAMT; a 10-byte entry is
    added and X removed: 90 bytes, but the net change since the conversion is +10: stays a HAMT *)
Definition w3_ops := [AAdd (rep 6 "a") v34; AAdd (rep 6 "b") v34; AAdd (rep 10 "x") v34; AAdd (rep 2 "y") v8; ARemove (rep 10 "x")].
(** C16-4: block mode; one add and three removals since the conversion *)
Definition w4_ops := [AAdd (rep 6 "a") v34; AAdd (rep 6 "b") v34; AAdd (rep 6 "c") v34; AAdd (rep 6 "d") v34;
                      AAdd (rep 96 "x") v34; ARemove (rep 6 "a"); ARemove (rep 6 "b"); ARemove (rep 6 "c")].

(** C16-5: a HAMT of 164 bytes (threshold 120); replacing the 84-byte entry by itself is taken for
    a shrink by its 50 name bytes: converted to a BasicDirectory of 164 bytes *)
Definition w5_ops := [AAdd (rep 6 "a") v34; AAdd (rep 6 "b") v34; AAdd (rep 50 "x") v34; AAdd (rep 50 "x") v34].
Lemma addname_refuted :
  model_meets (mkflags16 false false false false true false) (cfgL 120) whidx w5_ops = false /\
  model_meets fl_spec (cfgL 120) whidx w5_ops = true.
Proof. vm_compute. split; reflexivity. Qed.

Lemma prefix_refuted :
  model_meets (mkflags16 true false false false false false) (cfgL 229) whidx w1_ops = false /\
  model_meets fl_spec (cfgL 229) whidx w1_ops = true.
Proof. vm_compute. split; reflexivity. Qed.
Lemma thresh_refuted :
  model_meets (mkflags16 false true false false false false) (cfgL 112) whidx w2_ops = false /\
  model_meets fl_spec (cfgL 112) whidx w2_ops = true.
Proof. vm_compute. split; reflexivity. Qed.
Lemma gate_refuted :
  model_meets (mkflags16 false false true false false false) (cfgL 100) whidx w3_ops = false /\
  model_meets fl_spec (cfgL 100) whidx w3_ops = true.
Proof. vm_compute. split; reflexivity. Qed.
Lemma units_refuted :
  model_meets (mkflags16 false false true true false false) (cfgB 196) whidx w4_ops = false /\
  model_meets (mkflags16 false false true false false false) (cfgB 196) whidx w4_ops = true /\
  model_meets fl_spec (cfgB 196) whidx w4_ops = true.
Proof. vm_compute. repeat split; reflexivity. Qed.

(** the hypotheses of the theorems hold for these witnesses *)
Lemma whidx_len : forall a b, llen (whidx a) = llen (whidx b).
Proof. intros [|x a] [|y b]; reflexivity. Qed.
Lemma whidx_pos : forall a, whidx a <> [].
Proof. intros [|x a]; discriminate. Qed.
Lemma witness_hyps :
  rule (cfgL 229) [] = false /\
  ops_ok whidx [] w1_ops (snd (run16 fl_spec (cfgL 229) whidx (init16 (cfgL 229)) w1_ops)) /\
  ops_ok whidx [] w4_ops (snd (run16 fl_spec (cfgB 196) whidx (init16 (cfgB 196)) w4_ops)).
Proof.
  split; [reflexivity|]. split; cbn [w1_ops w4_ops]; vm_compute; repeat split; try discriminate; try reflexivity; try (intros H; discriminate H).
Qed.
