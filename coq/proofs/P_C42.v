(** C42 — proofs about the delegated-routing filter / limit model [M_C42]. *)
From Coq Require Import List ZArith Bool String Ascii Lia.
From V Require Import lib.Verdict model.M_C42.
From V Require model.M_C43.
Import ListNotations.
Open Scope Z_scope.

(** ---------- small list facts ---------- *)
Lemma is_nil_true {A} (l : list A) : is_nil l = true <-> l = [].
Proof. destruct l; cbn; split; congruence. Qed.
Lemma is_nil_false {A} (l : list A) : is_nil l = false <-> l <> [].
Proof. destruct l; cbn; split; congruence. Qed.

Lemma contains_str_In l s : contains_str l s = true <-> In s l.
Proof.
  induction l as [|x l IH]; cbn [contains_str In]; [split; [discriminate|tauto]|].
  destruct (String.eqb x s) eqn:E.
  - apply String.eqb_eq in E. split; auto.
  - apply String.eqb_neq in E. rewrite IH. split; [auto|intros [H|H]; [contradiction|exact H]].
Qed.

Lemma filter_filter {A} (f : A -> bool) l : filter f (filter f l) = filter f l.
Proof.
  induction l as [|a l IH]; cbn [filter]; [reflexivity|].
  destruct (f a) eqn:E; cbn [filter]; [rewrite E, IH; reflexivity|exact IH].
Qed.
Lemma existsb_filter {A} (f : A -> bool) l : existsb f (filter f l) = existsb f l.
Proof.
  induction l as [|a l IH]; cbn [filter existsb]; [reflexivity|].
  destruct (f a) eqn:E; cbn [existsb]; [rewrite E, IH; reflexivity|exact IH].
Qed.
Lemma existsb_nil_filter {A} (f : A -> bool) l : existsb f l = negb (is_nil (filter f l)).
Proof.
  induction l as [|a l IH]; cbn [filter existsb]; [reflexivity|].
  destruct (f a); cbn; [reflexivity|exact IH].
Qed.
Lemma eq_bool_iff (a b : bool) : (a = true <-> b = true) -> a = b.
Proof. destruct a, b; intros [H1 H2]; try reflexivity; [symmetry; apply H1|apply H2]; reflexivity. Qed.

Lemma forallb_mem {A} (f : A -> bool) l l' :
  (forall x, In x l <-> In x l') -> forallb f l = forallb f l'.
Proof.
  intros H. apply eq_bool_iff. rewrite !forallb_forall.
  split; intros F x Hx; apply F, H, Hx.
Qed.
Lemma existsb_mem {A} (f : A -> bool) l l' :
  (forall x, In x l <-> In x l') -> existsb f l = existsb f l'.
Proof.
  intros H. apply eq_bool_iff. rewrite !existsb_exists.
  split; intros (x & Hx & Fx); exists x; (split; [apply H, Hx|exact Fx]).
Qed.
Lemma existsb_ext' {A} (f g : A -> bool) l : (forall a, f a = g a) -> existsb f l = existsb g l.
Proof. intros H. induction l as [|a l IH]; cbn [existsb]; [reflexivity|rewrite H, IH; reflexivity]. Qed.
Lemma is_nil_mem {A} (l l' : list A) : (forall x, In x l <-> In x l') -> is_nil l = is_nil l'.
Proof.
  intros H. destruct l as [|a l], l' as [|b l']; cbn; try reflexivity.
  - destruct (proj2 (H b) (or_introl eq_refl)).
  - destruct (proj1 (H a) (or_introl eq_refl)).
Qed.
Lemma contains_str_mem l l' s : (forall x, In x l <-> In x l') -> contains_str l s = contains_str l' s.
Proof. intros H. apply eq_bool_iff. rewrite !contains_str_In. apply H. Qed.

Lemma bang_some f n : bang f = Some n <-> f = String "!"%char n.
Proof.
  destruct f as [|c r]; cbn [bang]; [split; discriminate|].
  destruct (Ascii.eqb c "!"%char) eqn:E.
  - apply Ascii.eqb_eq in E. subst c. split; intros H; inversion H; reflexivity.
  - apply Ascii.eqb_neq in E. split; [discriminate|]. intros H. inversion H. subst. contradiction.
Qed.

Section Proofs.
  Variable code_of : string -> Z.
  Notation contains_protocol := (contains_protocol).
  Notation apply_filters := (apply_filters code_of).
  Notation ipip484 := (ipip484 code_of).
  Notation addr_okb := (addr_okb code_of).
  Notation addr_hasb := (addr_hasb code_of).
  Notation spec_one := (spec_one code_of).
  Notation apply_to_iter := (apply_to_iter code_of).

  (** ---------- A. the transcribed loops, as list functions ---------- *)
  Lemma contains_protocol_spec protos p :
    contains_protocol protos p = existsb (fun c => c =? p) protos.
  Proof.
    induction protos as [|q r IH]; cbn [M_C42.contains_protocol existsb]; [reflexivity|].
    destruct (q =? p); cbn; [reflexivity|exact IH].
  Qed.
  Lemma contains_any_spec protos fs :
    contains_any protos fs = existsb (fun f => existsb (fun c => c =? f) protos) fs.
  Proof.
    induction fs as [|f r IH]; cbn [contains_any existsb]; [reflexivity|].
    rewrite contains_protocol_spec. destruct (existsb _ protos); cbn; [reflexivity|exact IH].
  Qed.

  Definition posl (q : list string) : list Z :=
    flat_map (fun f => match bang f with None => [code_of f] | Some _ => [] end) q.
  Definition negl (q : list string) : list Z :=
    flat_map (fun f => match bang f with Some n => [code_of n] | None => [] end) q.

  Lemma split_filters_spec q pos neg :
    split_filters code_of q pos neg = (pos ++ posl q, neg ++ negl q).
  Proof.
    revert pos neg. induction q as [|f r IH]; intros pos neg; cbn [split_filters posl negl flat_map].
    - rewrite !app_nil_r. reflexivity.
    - destruct (bang f) as [n|]; rewrite IH; cbn [app]; rewrite <- ?app_assoc; reflexivity.
  Qed.

  Definition pass (pos neg : list Z) (a : addr) : bool :=
    negb (contains_any (a_codes a) neg) && (is_nil pos || contains_any (a_codes a) pos).
  Lemma addr_loop_spec addrs pos neg acc :
    addr_loop addrs pos neg acc = acc ++ filter (pass pos neg) addrs.
  Proof.
    revert acc. induction addrs as [|a r IH]; intros acc; cbn [addr_loop filter].
    - rewrite app_nil_r. reflexivity.
    - unfold pass at 1. destruct (contains_any (a_codes a) neg); cbn [negb andb].
      + apply IH.
      + destruct (is_nil pos || contains_any (a_codes a) pos).
        * rewrite IH, <- app_assoc. reflexivity.
        * apply IH.
  Qed.

  Lemma neg_part fa a :
    negb (contains_any (a_codes a) (negl fa)) =
    forallb (fun f => match bang f with Some n => negb (addr_hasb a n) | None => true end) fa.
  Proof.
    induction fa as [|f r IH]; cbn [negl flat_map forallb]; [reflexivity|].
    fold (negl r). destruct (bang f) as [n|]; cbn [app].
    - cbn [contains_any]. rewrite contains_protocol_spec. unfold M_C42.addr_hasb at 1.
      destruct (existsb _ (a_codes a)); cbn [negb andb]; [reflexivity|exact IH].
    - exact IH.
  Qed.
  Lemma pos_nil_part fa :
    is_nil (posl fa) = forallb (fun f => match bang f with Some _ => true | None => false end) fa.
  Proof.
    induction fa as [|f r IH]; cbn [posl flat_map forallb]; [reflexivity|].
    fold (posl r). destruct (bang f); cbn [app andb]; [exact IH|reflexivity].
  Qed.
  Lemma pos_part fa a :
    contains_any (a_codes a) (posl fa) =
    existsb (fun f => match bang f with Some _ => false | None => addr_hasb a f end) fa.
  Proof.
    induction fa as [|f r IH]; cbn [posl flat_map existsb]; [reflexivity|].
    fold (posl r). destruct (bang f) as [n|]; cbn [app orb].
    - exact IH.
    - cbn [contains_any]. rewrite contains_protocol_spec. unfold M_C42.addr_hasb at 1.
      destruct (existsb _ (a_codes a)); cbn [orb]; [reflexivity|exact IH].
  Qed.
  Lemma pass_okb fa a : pass (posl fa) (negl fa) a = addr_okb fa a.
  Proof. unfold pass, M_C42.addr_okb. rewrite neg_part, pos_nil_part, pos_part. reflexivity. Qed.

  Lemma apply_addr_filter_spec addrs fa :
    apply_addr_filter code_of addrs fa = if is_nil fa then addrs else filter (addr_okb fa) addrs.
  Proof.
    unfold apply_addr_filter. destruct (is_nil fa); [reflexivity|].
    rewrite split_filters_spec. cbn [app]. rewrite addr_loop_spec. cbn [app].
    apply filter_ext. intros a. apply pass_okb.
  Qed.

  Lemma any_fold_spec peer f :
    any_fold peer f = existsb (fun p => String.eqb (lower p) (lower f)) peer.
  Proof.
    induction peer as [|p r IH]; cbn [any_fold existsb]; [reflexivity|].
    unfold equal_fold. destruct (String.eqb (lower p) (lower f)); cbn [orb]; [reflexivity|exact IH].
  Qed.
  Lemma protocols_allowed_loop_spec peer fp :
    protocols_allowed_loop peer fp =
    (contains_str fp "unknown"%string && is_nil peer) ||
    existsb (fun f => existsb (fun p => String.eqb (lower p) (lower f)) peer) fp.
  Proof.
    induction fp as [|f r IH]; cbn [protocols_allowed_loop contains_str existsb]; [reflexivity|].
    rewrite any_fold_spec, IH.
    destruct (String.eqb f "unknown"%string), (is_nil peer),
      (existsb (fun p => String.eqb (lower p) (lower f)) peer),
      (contains_str r "unknown"%string); cbn; reflexivity.
  Qed.
  Lemma protocols_allowed_spec r fp : protocols_allowed (r_protos r) fp = proto_okb fp r.
  Proof.
    unfold protocols_allowed, proto_okb. destruct (is_nil fp); [reflexivity|].
    rewrite protocols_allowed_loop_spec. reflexivity.
  Qed.

  (** the transcription of applyFilters equals the functional IPIP-484 statement *)
  Theorem apply_filters_ipip484 r fa fp : apply_filters r fa fp = ipip484 fa fp r.
  Proof.
    unfold M_C42.apply_filters, M_C42.ipip484, keptb.
    rewrite protocols_allowed_spec, apply_addr_filter_spec.
    destruct (is_nil fa) eqn:Ea; cbn [andb orb negb].
    - destruct (is_nil fp) eqn:Ep.
      + unfold proto_okb. rewrite Ep. reflexivity.
      + destruct (proto_okb fp r); cbn [negb andb]; reflexivity.
    - destruct (proto_okb fp r); cbn [negb andb]; [|reflexivity].
      destruct (is_nil (r_addrs r) && contains_str fa "unknown"%string) eqn:Eu; cbn [orb].
      + apply andb_true_iff in Eu. destruct Eu as [En _]. apply is_nil_true in En.
        destruct r as [i ps ads]. cbn in En. subst ads. reflexivity.
      + rewrite existsb_nil_filter. destruct (is_nil (filter (addr_okb fa) (r_addrs r))); reflexivity.
  Qed.

  (** ---------- B. the functional statement reflects the declarative one ---------- *)
  Lemma addr_hasb_has a n : addr_hasb a n = true <-> addr_has code_of a n.
  Proof.
    unfold M_C42.addr_hasb, addr_has. rewrite existsb_exists. split.
    - intros (c & Hc & E). apply Z.eqb_eq in E. subst. exact Hc.
    - intros H. exists (code_of n). split; [exact H|apply Z.eqb_refl].
  Qed.

  Lemma addr_okb_ok fa a : addr_okb fa a = true <-> addr_ok code_of fa a.
  Proof.
    unfold M_C42.addr_okb, addr_ok. rewrite andb_true_iff, orb_true_iff, !forallb_forall, existsb_exists.
    split.
    - intros [Hn Hp]. split.
      + intros n Hin Hhas. specialize (Hn _ Hin). rewrite (proj2 (bang_some _ n) eq_refl) in Hn.
        apply addr_hasb_has in Hhas. rewrite Hhas in Hn. discriminate.
      + destruct Hp as [Hall|(f & Hin & Hf)].
        * left. intros f Hin. specialize (Hall _ Hin). destruct (bang f) as [n|] eqn:E; [|discriminate].
          exists n. apply bang_some, E.
        * right. exists f. destruct (bang f) eqn:E; [discriminate|].
          split; [exact Hin|split; [reflexivity|apply addr_hasb_has, Hf]].
    - intros [Hn Hp]. split.
      + intros f Hin. destruct (bang f) as [n|] eqn:E; [|reflexivity].
        apply bang_some in E. subst f. specialize (Hn _ Hin).
        destruct (addr_hasb a n) eqn:Eh; [|reflexivity]. apply addr_hasb_has in Eh. contradiction.
      + destruct Hp as [Hall|(f & Hin & Eb & Hf)].
        * left. intros f Hin. destruct (Hall _ Hin) as (n & ->).
          rewrite (proj2 (bang_some _ n) eq_refl). reflexivity.
        * right. exists f. split; [exact Hin|]. rewrite Eb. apply addr_hasb_has, Hf.
  Qed.

  Lemma proto_okb_ok fp r : proto_okb fp r = true <-> proto_ok fp r.
  Proof.
    unfold proto_okb, proto_ok.
    rewrite !orb_true_iff, andb_true_iff, !is_nil_true, contains_str_In, existsb_exists.
    split.
    - intros [[H|H]|(f & Hf & H)]; [left; exact H|right; left; exact H|].
      right; right. apply existsb_exists in H. destruct H as (p & Hp & E). apply String.eqb_eq in E.
      exists f, p. auto.
    - intros [H|[H|(f & p & Hf & Hp & E)]]; [left; left; exact H|left; right; exact H|].
      right. exists f. split; [exact Hf|]. apply existsb_exists. exists p. split; [exact Hp|].
      apply String.eqb_eq, E.
  Qed.

  Lemma keptb_kept fa fp r : keptb code_of fa fp r = true <-> kept code_of fa fp r.
  Proof.
    unfold keptb, kept.
    rewrite andb_true_iff, !orb_true_iff, andb_true_iff, !is_nil_true, contains_str_In, existsb_exists, proto_okb_ok.
    split; intros [Hp Ha]; (split; [exact Hp|]).
    - destruct Ha as [[H|H]|(a & Hin & H)]; [left; exact H|right; left; exact H|].
      right; right. exists a. split; [exact Hin|apply addr_okb_ok, H].
    - destruct Ha as [H|[H|(a & Hin & H)]]; [left; left; exact H|left; right; exact H|].
      right. exists a. split; [exact Hin|apply addr_okb_ok, H].
  Qed.

  Theorem filter_spec r fa fp :
    (apply_filters r fa fp = None <-> ~ kept code_of fa fp r) /\
    (forall r', apply_filters r fa fp = Some r' ->
       kept code_of fa fp r /\ r_id r' = r_id r /\ r_protos r' = r_protos r /\
       exists keep : addr -> bool,
         r_addrs r' = filter keep (r_addrs r) /\
         forall a, keep a = true <-> (fa = [] \/ addr_ok code_of fa a)).
  Proof.
    rewrite apply_filters_ipip484. unfold M_C42.ipip484.
    destruct (keptb code_of fa fp r) eqn:K.
    - apply keptb_kept in K. split; [split; [discriminate|intros H; contradiction]|].
      intros r' E. inversion E; subst r'; clear E. split; [exact K|].
      destruct (is_nil fa) eqn:Ea.
      + split; [reflexivity|split; [reflexivity|]].
        exists (fun _ => true). split.
        * clear. induction (r_addrs r) as [|a l IH]; cbn [filter]; [reflexivity|f_equal; exact IH].
        * intros a. split; [intros _; left; apply is_nil_true, Ea|reflexivity].
      + cbn [set_addrs r_id r_protos r_addrs]. split; [reflexivity|split; [reflexivity|]].
        exists (addr_okb fa). split; [reflexivity|].
        intros a. split.
        * intros H. right. apply addr_okb_ok, H.
        * intros [H|H]; [apply is_nil_true in H; congruence|apply addr_okb_ok, H].
    - split; [split; [intros _ H; apply keptb_kept in H; congruence|reflexivity]|discriminate].
  Qed.

  (** ---------- C. pipelines ---------- *)
  Lemma map_keep_spec fa fp v :
    (if keep_fn (map_fn code_of fa fp v) then Some (map_fn code_of fa fp v) else None) = spec_one fa fp v.
  Proof.
    destruct v as [[r|i p ads|i]| |]; cbn [map_fn M_C42.spec_one keep_fn]; try reflexivity;
      rewrite apply_filters_ipip484; destruct (ipip484 _ _ _); reflexivity.
  Qed.
  Lemma apply_to_iter_spec fa fp src : apply_to_iter fa fp src = filter_map (spec_one fa fp) src.
  Proof.
    unfold M_C42.apply_to_iter. induction src as [|v r IH]; cbn [map filter filter_map]; [reflexivity|].
    rewrite <- map_keep_spec. destruct (keep_fn (map_fn code_of fa fp v)); rewrite IH; reflexivity.
  Qed.

  Definition is_val (v : res) : Prop := match v with RVal _ => True | _ => False end.
  Lemma spec_one_val fa fp v o : spec_one fa fp v = Some o -> is_val o.
  Proof.
    destruct v as [[r|i p ads|i]| |]; cbn [M_C42.spec_one]; try discriminate.
    - destruct (ipip484 fa fp r); cbn; [|discriminate]. intros E; inversion E; exact I.
    - destruct (ipip484 fa fp _); cbn; [|discriminate]. intros E; inversion E; exact I.
    - intros E; inversion E; exact I.
  Qed.
  Lemma filter_map_Forall {A B} (f : A -> option B) (P : B -> Prop) l :
    (forall a b, f a = Some b -> P b) -> Forall P (filter_map f l).
  Proof.
    intros H. induction l as [|a l IH]; cbn [filter_map]; [constructor|].
    destruct (f a) eqn:E; [constructor; [eapply H, E|exact IH]|exact IH].
  Qed.
  Lemma Forall_firstn {A} (P : A -> Prop) n l : Forall P l -> Forall P (firstn n l).
  Proof.
    revert l. induction n as [|n IH]; intros l H; cbn [firstn]; [constructor|].
    destruct H; constructor; auto.
  Qed.
  Lemma Forall_firstn_limit {A} (P : A -> Prop) n (l : list A) : Forall P l -> Forall P (firstn_limit n l).
  Proof. unfold firstn_limit. destruct (0 <? n); [apply Forall_firstn|auto]. Qed.
  Lemma read_all_vals l : Forall is_val l -> read_all_results l = Some l.
  Proof.
    induction 1 as [|v l Hv _ IH]; cbn [read_all_results]; [reflexivity|].
    destruct v; try contradiction. rewrite IH. reflexivity.
  Qed.
  Lemma ndjson_vals l : Forall is_val l -> ndjson_written l = l.
  Proof.
    induction 1 as [|v l Hv _ IH]; cbn [ndjson_written]; [reflexivity|].
    destruct v; try contradiction. rewrite IH. reflexivity.
  Qed.
  Lemma take_firstn_limit {A} n (l : list A) : M_C43.take n l = firstn_limit n l.
  Proof. reflexivity. Qed.

  Definition limit_of (c : cfg) (f : fmt) : Z := match f with FJson => lim_json c | FNdjson => lim_nd c end.
  Definition src_of (e : rerr) (src : list res) : list res :=
    match e with RouterNotFound => [] | _ => src end.

  Theorem pipeline c sr fa fp e src :
    serve code_of c sr fa fp e src =
    match detect c sr, e with
    | None, _ | _, RouterFail => None
    | Some f, _ => Some (f, spec_records code_of (limit_of c f) fa fp (src_of e src))
    end.
  Proof.
    unfold serve, spec_records. destruct (detect c sr) as [f|]; [|reflexivity].
    assert (V : forall s, Forall is_val (firstn_limit (limit_of c f) (filter_map (spec_one fa fp) s))).
    { intros s. apply Forall_firstn_limit, filter_map_Forall. intros a b. apply spec_one_val. }
    destruct e; [|
      |reflexivity];
      rewrite take_firstn_limit, apply_to_iter_spec;
      destruct f; cbn [limit_of src_of] in *;
      rewrite ?read_all_vals, ?ndjson_vals by apply V; reflexivity.
  Qed.

  (** ---------- D. idempotence ---------- *)
  Theorem ipip484_idempotent fa fp r r' : ipip484 fa fp r = Some r' -> ipip484 fa fp r' = Some r'.
  Proof.
    unfold M_C42.ipip484. destruct (keptb code_of fa fp r) eqn:K; [|discriminate].
    intros E. inversion E; subst r'; clear E.
    destruct (is_nil fa) eqn:Ea; [rewrite K; reflexivity|].
    unfold keptb in *. rewrite Ea in *. cbn [orb] in *.
    apply andb_true_iff in K. destruct K as [Kp Ka].
    replace (proto_okb fp (set_addrs r (filter (addr_okb fa) (r_addrs r)))) with (proto_okb fp r) by reflexivity.
    rewrite Kp. cbn [set_addrs r_addrs andb].
    rewrite existsb_filter, filter_filter.
    apply orb_true_iff in Ka. destruct Ka as [Ka|Ka].
    - apply andb_true_iff in Ka. destruct Ka as [Kn Ku]. apply is_nil_true in Kn.
      rewrite Kn, Ku. reflexivity.
    - rewrite Ka, orb_true_r. reflexivity.
  Qed.

  Theorem filter_idempotent r fa fp r' :
    apply_filters r fa fp = Some r' -> apply_filters r' fa fp = Some r'.
  Proof. rewrite !apply_filters_ipip484. apply ipip484_idempotent. Qed.

  Definition fixed fa fp (v : res) : Prop := spec_one fa fp v = Some v.
  Lemma spec_one_fixed fa fp v o : spec_one fa fp v = Some o -> fixed fa fp o.
  Proof.
    unfold fixed. destruct v as [[r|i p ads|i]| |]; cbn [M_C42.spec_one]; try discriminate.
    - destruct (ipip484 fa fp r) as [r'|] eqn:E; cbn; [|discriminate].
      intros H; inversion H; subst o. cbn [M_C42.spec_one]. rewrite (ipip484_idempotent _ _ _ _ E). reflexivity.
    - destruct (ipip484 fa fp _) as [r'|] eqn:E; cbn; [|discriminate].
      intros H; inversion H; subst o. cbn [M_C42.spec_one]. rewrite (ipip484_idempotent _ _ _ _ E). reflexivity.
    - intros H; inversion H; subst o. reflexivity.
  Qed.
  Lemma filter_map_fixed {A} (f : A -> option A) l :
    Forall (fun x => f x = Some x) l -> filter_map f l = l.
  Proof. induction 1 as [|x l Hx _ IH]; cbn [filter_map]; [reflexivity|]. rewrite Hx, IH. reflexivity. Qed.

  Theorem records_idempotent limit fa fp src :
    apply_to_iter fa fp (spec_records code_of limit fa fp src) = spec_records code_of limit fa fp src.
  Proof.
    rewrite apply_to_iter_spec. apply filter_map_fixed. unfold spec_records.
    apply Forall_firstn_limit, filter_map_Forall. intros a b. apply spec_one_fixed.
  Qed.
  Theorem iter_idempotent fa fp src :
    apply_to_iter fa fp (apply_to_iter fa fp src) = apply_to_iter fa fp src.
  Proof.
    rewrite (apply_to_iter_spec fa fp src). apply (records_idempotent 0 fa fp src).
  Qed.

  Theorem idempotent_both fa fp limit src :
    apply_to_iter fa fp (apply_to_iter fa fp src) = apply_to_iter fa fp src /\
    apply_to_iter fa fp (spec_records code_of limit fa fp src) = spec_records code_of limit fa fp src.
  Proof. split; [apply iter_idempotent|apply records_idempotent]. Qed.
  Theorem pipeline_c43 fa fp limit src :
    M_C43.take limit (apply_to_iter fa fp src) = firstn_limit limit (filter_map (spec_one fa fp) src).
  Proof. rewrite apply_to_iter_spec. reflexivity. Qed.

  (** ---------- E. the filter only depends on which terms are listed ---------- *)
  Lemma addr_okb_mem fa fa' a : (forall x, In x fa <-> In x fa') -> addr_okb fa a = addr_okb fa' a.
  Proof.
    intros H. unfold M_C42.addr_okb.
    rewrite (forallb_mem _ fa fa' H), (forallb_mem _ fa fa' H), (existsb_mem _ fa fa' H). reflexivity.
  Qed.
  Theorem ipip484_mem fa fa' fp fp' r :
    (forall x, In x fa <-> In x fa') -> (forall x, In x fp <-> In x fp') ->
    ipip484 fa fp r = ipip484 fa' fp' r.
  Proof.
    intros Ha Hp. unfold M_C42.ipip484, keptb, proto_okb.
    rewrite (is_nil_mem fa fa' Ha), (is_nil_mem fp fp' Hp),
      (contains_str_mem fa fa' _ Ha), (contains_str_mem fp fp' _ Hp), (existsb_mem _ fp fp' Hp).
    rewrite (existsb_ext' _ _ _ (fun a => addr_okb_mem fa fa' a Ha)).
    rewrite (filter_ext _ _ (fun a => addr_okb_mem fa fa' a Ha)). reflexivity.
  Qed.
  Theorem apply_filters_mem fa fa' fp fp' r :
    (forall x, In x fa <-> In x fa') -> (forall x, In x fp <-> In x fp') ->
    apply_filters r fa fp = apply_filters r fa' fp'.
  Proof. intros. rewrite !apply_filters_ipip484. apply ipip484_mem; assumption. Qed.
  Lemma spec_records_mem limit fa fa' fp fp' src :
    (forall x, In x fa <-> In x fa') -> (forall x, In x fp <-> In x fp') ->
    spec_records code_of limit fa fp src = spec_records code_of limit fa' fp' src.
  Proof.
    intros Ha Hp. unfold spec_records. f_equal.
    induction src as [|v r IH]; cbn [filter_map]; [reflexivity|].
    replace (spec_one fa' fp' v) with (spec_one fa fp v); [rewrite IH; reflexivity|].
    destruct v as [[x|i p ads|i]| |]; cbn [M_C42.spec_one]; try reflexivity;
      rewrite (ipip484_mem fa fa' fp fp' _ Ha Hp); reflexivity.
  Qed.
  Lemma apply_to_iter_mem fa fa' fp fp' src :
    (forall x, In x fa <-> In x fa') -> (forall x, In x fp <-> In x fp') ->
    apply_to_iter fa fp src = M_C42.apply_to_iter code_of fa' fp' src.
  Proof.
    intros Ha Hp. rewrite !apply_to_iter_spec.
    apply (spec_records_mem 0 fa fa' fp fp' src Ha Hp).
  Qed.
End Proofs.

(** ---------- F. the wire form of a sorted list lists the same terms ---------- *)
Lemma lower_app a b : lower (a ++ b) = (lower a ++ lower b)%string.
Proof. induction a as [|c a IH]; cbn [lower append]; [reflexivity|rewrite IH; reflexivity]. Qed.
Lemma lower_concat l : lower (String.concat ","%string l) = String.concat ","%string (map lower l).
Proof.
  induction l as [|a [|b r] IH]; cbn [String.concat map]; try reflexivity.
  rewrite !lower_app. cbn [String.concat map] in IH. rewrite IH. reflexivity.
Qed.
Lemma lower_empty s : String.eqb (lower s) ""%string = String.eqb s ""%string.
Proof. destruct s; reflexivity. Qed.

Lemma split_comma_nonempty s : split_comma s <> [].
Proof.
  induction s as [|c s IH]; cbn [split_comma]; [discriminate|].
  destruct (Ascii.eqb c comma); [discriminate|]. destruct (split_comma s); [contradiction|discriminate].
Qed.
Lemma split_comma_app a b :
  split_comma (a ++ String comma b) = split_comma a ++ split_comma b.
Proof.
  induction a as [|c a IH]; cbn [append split_comma].
  - rewrite Ascii.eqb_refl. reflexivity.
  - destruct (Ascii.eqb c comma); [rewrite IH; reflexivity|].
    rewrite IH. destruct (split_comma a) as [|h t] eqn:E; [destruct (split_comma_nonempty a E)|reflexivity].
Qed.
Lemma In_split_concat x l :
  l <> [] -> (In x (split_comma (String.concat ","%string l)) <-> exists e, In e l /\ In x (split_comma e)).
Proof.
  induction l as [|a [|b r] IH]; intros Hne; [contradiction| |].
  - cbn [String.concat]. split; [intros H; exists a; split; [left; reflexivity|exact H]|].
    intros (e & [<-|[]] & H). exact H.
  - change (String.concat ","%string (a :: b :: r)) with (a ++ String comma (String.concat ","%string (b :: r)))%string.
    rewrite split_comma_app, in_app_iff, IH by discriminate. split.
    + intros [H|(e & He & H)]; [exists a; split; [left; reflexivity|exact H]|exists e; split; [right; exact He|exact H]].
    + intros (e & [<-|He] & H); [left; exact H|right; exists e; split; assumption].
Qed.

Definition trivial (l : list string) : bool :=
  match l with [] => true | [s] => String.eqb s ""%string | _ => false end.
Lemma append_comma_nonempty a b : String.eqb (a ++ String comma b) ""%string = false.
Proof. destruct a; reflexivity. Qed.
Lemma concat_empty l : String.eqb (String.concat ","%string l) ""%string = trivial l.
Proof.
  destruct l as [|a [|b r]]; try reflexivity.
  change (String.concat ","%string (a :: b :: r)) with (a ++ String comma (String.concat ","%string (b :: r)))%string.
  apply append_comma_nonempty.
Qed.

Lemma In_wire x l :
  In x (wire l) <-> trivial l = false /\ exists e, In e l /\ In x (split_comma (lower e)).
Proof.
  unfold wire, parse_filter. rewrite concat_empty.
  destruct (trivial l) eqn:T.
  - split; [intros []|intros [H _]; discriminate].
  - rewrite lower_concat.
    assert (Hne : map lower l <> []) by (destruct l; [discriminate T|discriminate]).
    rewrite (In_split_concat x _ Hne). split.
    + intros (e & He & H). apply in_map_iff in He. destruct He as (e0 & <- & He0).
      split; [reflexivity|exists e0; auto].
    + intros (_ & e & He & H). exists (lower e). split; [apply in_map, He|exact H].
Qed.

Lemma insert_sorted_In x y l : In x (insert_sorted y l) <-> x = y \/ In x l.
Proof.
  induction l as [|z l IH]; cbn [insert_sorted In]; [intuition congruence|].
  destruct (String.leb y z); cbn [In]; [intuition congruence|]. rewrite IH. intuition congruence.
Qed.
Lemma sort_strings_In x l : In x (sort_strings l) <-> In x l.
Proof.
  induction l as [|y l IH]; cbn [sort_strings In]; [tauto|].
  rewrite insert_sorted_In, IH. intuition congruence.
Qed.
Lemma insert_sorted_length y l : List.length (insert_sorted y l) = S (List.length l).
Proof.
  induction l as [|z l IH]; cbn [insert_sorted List.length]; [reflexivity|].
  destruct (String.leb y z); cbn [List.length]; [reflexivity|rewrite IH; reflexivity].
Qed.
Lemma sort_strings_length l : List.length (sort_strings l) = List.length l.
Proof.
  induction l as [|y l IH]; cbn [sort_strings List.length]; [reflexivity|].
  rewrite insert_sorted_length, IH. reflexivity.
Qed.
Lemma trivial_sort l : trivial (sort_strings l) = trivial l.
Proof.
  destruct l as [|a [|b r]]; try reflexivity.
  pose proof (sort_strings_length (a :: b :: r)) as L.
  destruct (sort_strings (a :: b :: r)) as [|x [|y z]]; cbn [List.length] in L; try discriminate. reflexivity.
Qed.

(** slices.Sort in the client options does not change what the server parses, as a set of terms *)
Theorem wire_sort_mem x l : In x (wire (sort_strings l)) <-> In x (wire l).
Proof.
  rewrite !In_wire, trivial_sort. split; intros (T & e & He & H); (split; [exact T|]); exists e.
  - split; [apply sort_strings_In, He|exact H].
  - split; [apply sort_strings_In, He|exact H].
Qed.

(** the server-side parse of an already parsed list lists the same terms *)
Lemma lower_ascii_comma c : Ascii.eqb (lower_ascii c) comma = Ascii.eqb c comma.
Proof. destruct c as [[] [] [] [] [] [] [] []]; reflexivity. Qed.
Lemma lower_ascii_idem c : lower_ascii (lower_ascii c) = lower_ascii c.
Proof. destruct c as [[] [] [] [] [] [] [] []]; reflexivity. Qed.
Lemma lower_idem s : lower (lower s) = lower s.
Proof. induction s as [|c s IH]; cbn [lower]; [reflexivity|rewrite lower_ascii_idem, IH; reflexivity]. Qed.
Lemma split_lower t : split_comma (lower t) = map lower (split_comma t).
Proof.
  induction t as [|c t IH]; cbn [lower split_comma map]; [reflexivity|].
  rewrite lower_ascii_comma. destruct (Ascii.eqb c comma); cbn [map lower]; [rewrite IH; reflexivity|].
  rewrite IH. destruct (split_comma t) as [|h tl] eqn:E; [destruct (split_comma_nonempty t E)|reflexivity].
Qed.
Lemma split_piece e t : In e (split_comma t) -> split_comma e = [e].
Proof.
  revert e. induction t as [|c t IH]; intros e; cbn [split_comma].
  - intros [<-|[]]. reflexivity.
  - destruct (Ascii.eqb c comma) eqn:Ec.
    + intros [<-|H]; [reflexivity|apply IH, H].
    + destruct (split_comma t) as [|h tl] eqn:E; [destruct (split_comma_nonempty t E)|].
      intros [<-|H].
      * cbn [split_comma]. rewrite Ec, (IH h (or_introl eq_refl)). reflexivity.
      * apply IH. right. exact H.
Qed.
Lemma split_single t s : split_comma t = [s] -> s = t.
Proof.
  revert s. induction t as [|c t IH]; intros s; cbn [split_comma].
  - intros E; inversion E; reflexivity.
  - destruct (Ascii.eqb c comma).
    + intros E. inversion E as [[E1 E2]]. destruct (split_comma_nonempty t E2).
    + destruct (split_comma t) as [|h tl] eqn:Et; [destruct (split_comma_nonempty t Et)|].
      intros E. inversion E; subst. rewrite (IH h eq_refl). reflexivity.
Qed.

Theorem wire_wire_mem x l : In x (wire (wire l)) <-> In x (wire l).
Proof.
  rewrite (In_wire x (wire l)). split.
  - intros (_ & e & He & H). pose proof He as He'. unfold wire, parse_filter in He'.
    destruct (String.eqb (String.concat ","%string l) ""%string); [destruct He'|].
    rewrite split_lower in He'. apply in_map_iff in He'. destruct He' as (e0 & <- & He0).
    rewrite lower_idem in H.
    assert (P : split_comma (lower e0) = [lower e0]).
    { rewrite split_lower, (split_piece e0 _ He0). reflexivity. }
    rewrite P in H. destruct H as [<-|[]]. exact He.
  - intros H. pose proof H as H'. unfold wire, parse_filter in H'.
    destruct (String.eqb (String.concat ","%string l) ""%string) eqn:Ee; [destruct H'|].
    split.
    + fold (parse_filter (String.concat ","%string l)) in H. unfold wire, parse_filter. rewrite Ee.
      destruct (split_comma (lower (String.concat ","%string l))) as [|a [|b r]] eqn:Es;
        [destruct H'| |reflexivity].
      cbn [trivial]. apply split_single in Es. subst a. rewrite lower_empty. exact Ee.
    + exists x. split; [exact H|].
      rewrite split_lower in H'. apply in_map_iff in H'. destruct H' as (e0 & <- & He0).
      rewrite lower_idem, split_lower, (split_piece e0 _ He0). left. reflexivity.
Qed.

(** all the lists the (fixed) client handles list the terms of [wire l] *)
Lemma norm_mem x l : In x (norm_filter false l) <-> In x (wire l).
Proof. unfold norm_filter. apply sort_strings_In. Qed.
Lemma wire_norm_mem x l : In x (wire (norm_filter false l)) <-> In x (wire l).
Proof. unfold norm_filter. rewrite wire_sort_mem. apply wire_wire_mem. Qed.

(** ---------- G. end to end ---------- *)
Theorem end_to_end code_of c q e src :
  client_view code_of false c q e src = spec_view code_of c q e src.
Proof.
  unfold client_view, spec_view. rewrite pipeline.
  destruct (detect c (stream_required q)) as [f|]; [|reflexivity].
  assert (M : forall limit s,
    spec_records code_of limit (wire (norm_filter false (q_addrs q))) (wire (norm_filter false (q_protos q))) s =
    spec_records code_of limit (wire (q_addrs q)) (wire (q_protos q)) s).
  { intros. apply spec_records_mem; intros x; apply wire_norm_mem. }
  assert (L : forall s,
    apply_to_iter code_of (norm_filter false (q_addrs q)) (norm_filter false (q_protos q)) s =
    apply_to_iter code_of (wire (q_addrs q)) (wire (q_protos q)) s).
  { intros. apply apply_to_iter_mem; intros x; apply norm_mem. }
  destruct e; try reflexivity; destruct (local_filter q); rewrite M, ?L, ?records_idempotent;
    destruct f; reflexivity.
Qed.

(** the defect: the client filtered the response with the caller's raw strings *)
Theorem client_raw_refuted :
  exists c q e src,
    client_view std_code_of true c q e src <> spec_view std_code_of c q e src /\
    client_view std_code_of false c q e src = spec_view std_code_of c q e src.
Proof.
  exists {| disable_nd := false; lim_json := 20; lim_nd := 0 |},
         {| stream_required := false; local_filter := true; q_addrs := ["TCP"%string]; q_protos := [] |},
         RouterOk,
         [RVal (OPeer {| r_id := 1; r_protos := ["transport-bitswap"%string];
                         r_addrs := [{| a_id := 0; a_codes := [4; 6] |}] |})].
  split; [vm_compute; discriminate|apply end_to_end].
Qed.

(** ---------- H. IPNS over HTTP ---------- *)
Theorem ipns_put k rf :
  snd (model_put k rf) = ik_valid k /\
  (ik_valid k = true -> fst (model_put k rf) = rf) /\
  (ik_valid k = false -> fst (model_put k rf) = true).
Proof. destruct k; cbn; repeat split; congruence. Qed.
Theorem ipns_get s :
  (model_get s = GotRecord <-> exists k, s = GRecord k /\ ik_valid k = true) /\
  (model_get s = GotNotFound <-> s = GNotFound).
Proof.
  destruct s as [[]| |]; cbn; (split; split); intros H;
    try discriminate; try reflexivity;
    try (destruct H as (k & E & V); inversion E; subst k; cbn in V; discriminate);
    try (eexists; split; reflexivity).
Qed.

(** the model's correspondence verdict is sound for CFind cases: whenever the
    check says VOk the observation meets the specification *)
Theorem check_find_sound peers c q e src obs :
  check_case (CFind peers c q e src obs) = VOk -> view_eqb obs (spec_view std_code_of c q e src) = true.
Proof.
  cbn [check_case]. destruct (peers && negb (peer_only src)); [discriminate|].
  destruct (view_eqb obs (spec_view std_code_of c q e src)); [reflexivity|].
  destruct (view_eqb obs (client_view std_code_of true c q e src) &&
            view_eqb (client_view std_code_of false c q e src) (spec_view std_code_of c q e src)); discriminate.
Qed.
