(** C44 — proofs about the reprovide loop and the prioritized key provider. *)
From Coq Require Import List ZArith Bool NArith Lia.
From V Require Import lib.Verdict model.M_C44.
Import ListNotations.
Open Scope Z_scope.

(** ---- basic facts ---- *)
Lemma cid_eqb_eq a b : cid_eqb a b = true <-> a = b.
Proof.
  destruct a as [a1 a2], b as [b1 b2]. unfold cid_eqb. cbn [fst snd].
  rewrite andb_true_iff, !N.eqb_eq. split; [intros [-> ->]; reflexivity|intros H; inversion H; auto].
Qed.

Lemma memc_In c l : memc c l = true <-> In c l.
Proof.
  unfold memc. rewrite existsb_exists. split.
  - intros (x & Hx & He). apply cid_eqb_eq in He. subst. exact Hx.
  - intros H. exists c. split; [exact H|apply cid_eqb_eq; reflexivity].
Qed.

Lemma memN_In x l : memN x l = true <-> In x l.
Proof.
  unfold memN. rewrite existsb_exists. split.
  - intros (y & Hy & He). apply N.eqb_eq in He. subst. exact Hy.
  - intros H. exists x. split; [exact H|apply N.eqb_refl].
Qed.

Lemma add_set_In l c x : In x (add_set l c) <-> In x l \/ x = c.
Proof.
  unfold add_set. destruct (memc c l) eqn:E.
  - apply memc_In in E. split; [auto|]. intros [H | ->]; assumption.
  - rewrite in_app_iff. cbn [In]. intuition.
Qed.

Lemma fold_add_In t : forall l x, In x (fold_left add_set t l) <-> In x l \/ In x t.
Proof.
  induction t as [|c t IH]; intros l x; cbn [fold_left In]; [tauto|].
  rewrite IH, add_set_In. intuition.
Qed.

Lemma filter_add_set_len (f : cid -> bool) l c :
  (length (filter f (add_set l c)) <= S (length (filter f l)))%nat.
Proof.
  unfold add_set. destruct (memc c l); [lia|].
  rewrite filter_app, app_length. cbn [filter]. destruct (f c); cbn [length]; lia.
Qed.

Lemma fold_add_filter_len (f : cid -> bool) t :
  forall l, (length (filter f (fold_left add_set t l)) <= length (filter f l) + length t)%nat.
Proof.
  induction t as [|c t IH]; intros l; cbn [fold_left length]; [lia|].
  specialize (IH (add_set l c)). pose proof (filter_add_set_len f l c). lia.
Qed.

Lemma filter_none {A} (f : A -> bool) l : (forall x, In x l -> f x = false) -> filter f l = [].
Proof.
  induction l as [|a l IH]; intros H; cbn [filter]; [reflexivity|].
  rewrite (H a (or_introl eq_refl)). apply IH. intros x Hx. apply H. right. exact Hx.
Qed.

(** ---- reading from the channel ---- *)
Lemma take_n_spec n : forall s t r d,
  take_n n s = (t, r, d) ->
  s = t ++ r /\ (length t <= n)%nat /\
  (d = false -> length t = n) /\ (d = true -> r = [] /\ (length s < n)%nat).
Proof.
  induction n as [|n IH]; intros s t r d E; cbn [take_n] in E.
  - inversion E; subst. cbn. repeat split; auto; discriminate.
  - destruct s as [|c s].
    + inversion E; subst. cbn. repeat split; auto; try lia; discriminate.
    + destruct (take_n n s) as [[t' r'] d'] eqn:E'. inversion E; subst.
      apply IH in E' as (Hs & Hl & Hf & Ht). subst s. cbn [app length].
      split; [reflexivity|]. split; [lia|]. split.
      * intros Hd. rewrite (Hf Hd). reflexivity.
      * intros Hd. destruct (Ht Hd) as [-> Hlt]. split; [reflexivity|]. rewrite app_length in *. cbn [length] in *. lia.
Qed.

(** ---- the loop: termination ---- *)
Lemma loop_terminates :
  forall fuel bad batch stream cids acc,
    1 <= batch -> (length stream < fuel)%nat ->
    exists bs, loop fuel bad batch stream cids acc = Some bs.
Proof.
  induction fuel as [|fuel IH]; intros bad batch stream cids acc Hb Hf; [lia|].
  cbn [loop].
  destruct (take_n (Z.to_nat (Z.min batch (Z.of_nat (length stream) + 1))) stream) as [[t r] d] eqn:E.
  apply take_n_spec in E as (Hs & Hl & Hfalse & Htrue).
  destruct d; [eexists; reflexivity|].
  specialize (Hfalse eq_refl).
  apply IH; [exact Hb|].
  assert (Hlen : length stream = (length t + length r)%nat) by (rewrite Hs at 1; apply app_length).
  lia.
Qed.

(** ---- the loop: what it announces ---- *)
Definition post (bad : list N) (batch : Z) (stream : list cid) (new : list (list N)) : Prop :=
  (forall c, In c stream -> valid bad c = true -> In (mh_of c) (concat new)) /\
  (forall m, In m (concat new) -> exists c, In c stream /\ valid bad c = true /\ mh_of c = m) /\
  (forall b, In b new -> b <> [] /\ Z.of_nat (length b) <= batch).

Lemma loop_post :
  forall fuel bad batch stream cids acc bs,
    1 <= batch ->
    (forall c, In c cids -> valid bad c = false) ->
    loop fuel bad batch stream cids acc = Some bs ->
    exists new, bs = acc ++ new /\ post bad batch stream new.
Proof.
  induction fuel as [|fuel IH]; intros bad batch stream cids acc bs Hb Hinv E; [discriminate|].
  cbn [loop] in E.
  destruct (take_n (Z.to_nat (Z.min batch (Z.of_nat (length stream) + 1))) stream) as [[t r] d] eqn:Et.
  apply take_n_spec in Et as (Hs & Hl & Hfalse & Htrue).
  set (cids1 := fold_left add_set t cids) in *.
  set (keys := map mh_of (filter (valid bad) cids1)) in *.
  set (cids2 := filter (fun c => negb (valid bad c)) cids1) in *.
  (* facts about this iteration's batch *)
  assert (Hkeys_in : forall m, In m keys -> exists c, In c t /\ valid bad c = true /\ mh_of c = m).
  { intros m Hm. unfold keys in Hm. apply in_map_iff in Hm as (c & <- & Hc).
    apply filter_In in Hc as [Hc Hv]. unfold cids1 in Hc. apply fold_add_In in Hc as [Hc|Hc].
    - rewrite (Hinv c Hc) in Hv. discriminate.
    - exists c. auto. }
  assert (Hkeys_all : forall c, In c t -> valid bad c = true -> In (mh_of c) keys).
  { intros c Hc Hv. unfold keys. apply in_map. apply filter_In. split; [|exact Hv].
    unfold cids1. apply fold_add_In. right. exact Hc. }
  assert (Hkeys_len : Z.of_nat (length keys) <= batch).
  { unfold keys. rewrite map_length.
    pose proof (fold_add_filter_len (valid bad) t cids) as Hle. fold cids1 in Hle.
    rewrite (filter_none (valid bad) cids Hinv) in Hle. cbn [length] in Hle. lia. }
  assert (Hinv2 : forall c, In c cids2 -> valid bad c = false).
  { intros c Hc. unfold cids2 in Hc. apply filter_In in Hc as [_ Hv]. apply negb_true_iff in Hv. exact Hv. }
  set (acc' := match keys with [] => acc | _ => acc ++ [keys] end) in *.
  assert (Hacc' : exists one, acc' = acc ++ one /\ (one = [] /\ keys = [] \/ one = [keys] /\ keys <> [])).
  { unfold acc'. destruct keys as [|k ks] eqn:Ek.
    - exists []. rewrite app_nil_r. auto.
    - exists [k :: ks]. split; [reflexivity|]. right. split; [reflexivity|discriminate]. }
  destruct Hacc' as (one & Hacc' & Hone).
  assert (Hone_post : post bad batch t one).
  { unfold post. destruct Hone as [[-> Hk]|[-> Hk]].
    - cbn [concat]. repeat split.
      + intros c Hc Hv. specialize (Hkeys_all c Hc Hv). rewrite Hk in Hkeys_all. destruct Hkeys_all.
      + intros m [].
      + destruct H.
      + destruct H.
    - cbn [concat]. rewrite app_nil_r. repeat split.
      + exact Hkeys_all.
      + exact Hkeys_in.
      + destruct H as [<-|[]]. exact Hk.
      + destruct H as [<-|[]]. exact Hkeys_len. }
  destruct d.
  - (* channel closed: this was the last iteration *)
    destruct (Htrue eq_refl) as [-> _]. rewrite app_nil_r in Hs. subst t.
    inversion E; subst bs. exists one. split; [exact Hacc'|exact Hone_post].
  - destruct (IH _ _ _ _ _ _ Hb Hinv2 E) as (new & -> & Hp1 & Hp2 & Hp3).
    destruct Hone_post as (Ho1 & Ho2 & Ho3).
    exists (one ++ new). split; [rewrite Hacc', app_assoc; reflexivity|].
    unfold post. rewrite concat_app. repeat split.
    + intros c Hc Hv. rewrite Hs in Hc. apply in_app_iff in Hc as [Hc|Hc]; apply in_app_iff; auto.
    + intros m Hm. apply in_app_iff in Hm as [Hm|Hm].
      * destruct (Ho2 m Hm) as (c & Hc & Hv & He). exists c. rewrite Hs. rewrite in_app_iff. auto.
      * destruct (Hp2 m Hm) as (c & Hc & Hv & He). exists c. rewrite Hs. rewrite in_app_iff. auto.
    + apply in_app_iff in H as [H|H]; [apply (Ho3 b H)|apply (Hp3 b H)].
    + apply in_app_iff in H as [H|H]; [apply (Ho3 b H)|apply (Hp3 b H)].
Qed.

(** ---- batch size 0 (the code before the repair): no progress, for any amount of fuel ---- *)
Lemma loop_batch_zero :
  forall fuel bad stream cids acc,
    (forall c, In c cids -> valid bad c = false) ->
    loop fuel bad 0 stream cids acc = None.
Proof.
  induction fuel as [|fuel IH]; intros bad stream cids acc Hinv; [reflexivity|].
  cbn [loop]. replace (Z.to_nat (Z.min 0 (Z.of_nat (length stream) + 1))) with O by lia.
  cbn [take_n fold_left]. rewrite (filter_none (valid bad) cids Hinv). cbn [map].
  apply IH. intros c Hc. apply filter_In in Hc as [Hc _]. apply Hinv. exact Hc.
Qed.

(** ---- the repaired configuration arithmetic ---- *)
Lemma batch_size_fixed_pos c : 1 <= batch_size false c.
Proof. unfold batch_size. lia. Qed.

Lemma batch_size_fixed_le c : batch_size false c <= Z.max 1 (max_batch c).
Proof.
  unfold batch_size. destruct (provide_many c); destruct (has_cb c); cbn [andb];
    try destruct (Z.ltb_spec (min_provides c) (max_batch c));
    try destruct (Z.ltb_spec (min_provides c) 1); lia.
Qed.

(** ---- top level: the repaired loop terminates and meets the boolean specification ---- *)
Theorem reprovide_meets_spec c bad stream :
  exists bs, reprovide false c bad stream = Some bs /\ spec_reprovide c bad stream true bs = true.
Proof.
  unfold reprovide.
  destruct (loop_terminates (fuel_for stream) bad (batch_size false c) stream [] []
              (batch_size_fixed_pos c) ltac:(unfold fuel_for; lia)) as [bs E].
  exists bs. split; [exact E|].
  destruct (loop_post _ _ _ _ _ _ _ (batch_size_fixed_pos c) (fun k (HF : In k []) => match HF with end) E)
    as (new & -> & H1 & H2 & H3).
  cbn [app]. unfold spec_reprovide, all_keys. cbn [andb].
  apply andb_true_iff; split; [apply andb_true_iff; split|].
  - apply forallb_forall. intros k Hk. destruct (valid bad k) eqn:Hv; cbn [negb orb]; [|reflexivity].
    apply memN_In. apply H1; assumption.
  - apply forallb_forall. intros m Hm. apply existsb_exists.
    destruct (H2 m Hm) as (k & Hk & Hv & He). exists k. split; [exact Hk|].
    rewrite Hv. cbn [andb]. apply N.eqb_eq. exact He.
  - apply forallb_forall. intros b Hb. destruct (H3 b Hb) as [Hne Hle].
    destruct b as [|x b]; [congruence|]. apply Z.leb_le.
    pose proof (batch_size_fixed_le c). lia.
Qed.

Theorem reprovide_batch_zero_diverges c bad stream fuel :
  batch_size true c = 0 -> loop fuel bad (batch_size true c) stream [] [] = None.
Proof. intros ->. apply loop_batch_zero. intros k HF. destruct HF. Qed.

(** ================= prioritized provider ================= *)
Inductive Sub : list cid -> list cid -> Prop :=
| Sub_nil : forall l, Sub [] l
| Sub_skip : forall a y l, Sub a l -> Sub a (y :: l)
| Sub_take : forall x a l, Sub a l -> Sub (x :: a) (x :: l).

Lemma Sub_refl l : Sub l l.
Proof. induction l; constructor; assumption. Qed.

Lemma Sub_app a b c d : Sub a b -> Sub c d -> Sub (a ++ c) (b ++ d).
Proof.
  intros H1 H2. induction H1 as [l|a y l H IH|x a l H IH]; cbn [app].
  - induction l as [|y l IHl]; cbn [app]; [exact H2|]. apply Sub_skip. exact IHl.
  - apply Sub_skip. exact IH.
  - apply Sub_take. exact IH.
Qed.

Lemma Sub_tail x a l : Sub (x :: a) l -> Sub a l.
Proof.
  intros H. remember (x :: a) as xa eqn:E. revert x a E.
  induction H as [l|a0 y l H IH|x0 a0 l H IH]; intros x a E; [discriminate| |].
  - apply Sub_skip. eapply IH. exact E.
  - inversion E; subst. apply Sub_skip. exact H.
Qed.

Lemma Sub_subseqb a l : Sub a l -> subseqb a l = true.
Proof.
  revert a. induction l as [|y l IH]; intros a H.
  - inversion H; subst. reflexivity.
  - destruct a as [|x a]; [reflexivity|]. cbn [subseqb].
    destruct (cid_eqb x y) eqn:E.
    + apply IH. inversion H; subst; [eapply Sub_tail; eassumption|assumption].
    + apply IH. inversion H; subst; [assumption|].
      assert (cid_eqb y y = true) by (apply cid_eqb_eq; reflexivity). congruence.
Qed.

(** one stream: the new output is [out ++ extra] with [extra] a subsequence of the stream,
    everything in the stream ends up in the output provided visited ⊆ out, and visited ⊆ out is kept *)
Lemma prio_stream_spec mark : forall s visited out v o,
  prio_stream mark s visited out = (v, o) ->
  (forall c, In c visited -> In c out) ->
  exists extra, o = out ++ extra /\ Sub extra s /\
    (forall c, In c s -> In c o) /\ (forall c, In c v -> In c o) /\
    (forall c, In c visited -> In c v) /\
    (forall c, In c extra -> ~ In c visited).
Proof.
  induction s as [|c s IH]; intros visited out v o E Hsub; cbn [prio_stream] in E.
  - inversion E; subst. exists []. rewrite app_nil_r. repeat split; auto using Sub_nil.
    intros c [].
  - destruct (memc c visited) eqn:Em.
    + apply memc_In in Em.
      destruct (IH _ _ _ _ E Hsub) as (extra & -> & Hs & Hall & Hv & Hmono & Hfresh).
      exists extra. repeat split; auto.
      * apply Sub_skip. exact Hs.
      * intros x [<-|Hx]; [apply in_app_iff; left; apply Hsub; exact Em|apply Hall; exact Hx].
    + assert (Hnot : ~ In c visited) by (intros H; apply memc_In in H; congruence).
      assert (Hsub' : forall x, In x (if mark then c :: visited else visited) -> In x (out ++ [c])).
      { intros x Hx. apply in_app_iff. destruct mark; [destruct Hx as [<-|Hx]|]; cbn [In]; auto. }
      destruct (IH _ _ _ _ E Hsub') as (extra & -> & Hs & Hall & Hv & Hmono & Hfresh).
      assert (Heq : (out ++ [c]) ++ extra = out ++ c :: extra) by (rewrite <- app_assoc; reflexivity).
      rewrite Heq in *.
      exists (c :: extra). repeat split; auto.
      * apply Sub_take. exact Hs.
      * intros x [<-|Hx]; [|apply Hall; exact Hx].
        apply in_app_iff. right. left. reflexivity.
      * intros x Hx. apply Hmono. destruct mark; [right|]; exact Hx.
      * intros x [<-|Hx]; [exact Hnot|].
        intros Hin. apply (Hfresh x Hx). destruct mark; [right|]; exact Hin.
Qed.

Lemma prio_spec : forall streams visited out,
  (forall c, In c visited -> In c out) ->
  exists extra, prio streams visited out = out ++ extra /\ Sub extra (flat streams) /\
    (forall c, In c (flat streams) -> In c (out ++ extra)).
Proof.
  induction streams as [|s rest IH]; intros visited out Hsub; cbn [prio].
  - exists []. rewrite app_nil_r. split; [reflexivity|]. split; [constructor|]. intros c [].
  - destruct s as [l|].
    + destruct (prio_stream match rest with [] => false | _ => true end l visited out) as [v o] eqn:E.
      destruct (prio_stream_spec _ _ _ _ _ _ E Hsub) as (e1 & -> & Hs1 & Hall1 & Hv1 & _ & _).
      destruct (IH v (out ++ e1) Hv1) as (e2 & -> & Hs2 & Hall2).
      exists (e1 ++ e2). rewrite app_assoc. split; [reflexivity|].
      unfold flat. cbn [map concat]. split; [apply Sub_app; assumption|].
      intros c Hc. apply in_app_iff in Hc as [Hc|Hc].
      * apply in_app_iff. left. apply Hall1. exact Hc.
      * apply Hall2. exact Hc.
    + destruct (IH visited out Hsub) as (e & -> & Hs & Hall).
      exists e. split; [reflexivity|]. unfold flat. cbn [map concat app]. split; assumption.
Qed.

Theorem prioritized_complete streams c : In c (flat streams) -> In c (prioritized streams).
Proof.
  intros Hc. unfold prioritized.
  destruct (prio_spec streams [] [] (fun k (HF : In k []) => match HF with end)) as (extra & -> & _ & Hall). apply Hall. exact Hc.
Qed.

Lemma NoDup_snoc (l : list cid) c : NoDup l -> ~ In c l -> NoDup (l ++ [c]).
Proof.
  induction l as [|a l IH]; intros Hnd Hn; cbn [app].
  - constructor; [intros []|constructor].
  - inversion Hnd; subst. constructor.
    + intros H. apply in_app_iff in H as [H|[<-|[]]]; [contradiction|]. apply Hn. left. reflexivity.
    + apply IH; [assumption|]. intros H. apply Hn. right. exact H.
Qed.

(** suppression: with marking on (every stream but the last), nothing is emitted twice *)
Lemma prio_stream_nodup : forall s visited out v o,
  prio_stream true s visited out = (v, o) ->
  NoDup out -> (forall c, In c out -> In c visited) ->
  NoDup o /\ (forall c, In c o -> In c v).
Proof.
  induction s as [|c s IH]; intros visited out v o E Hnd Hcov; cbn [prio_stream] in E.
  - inversion E; subst. auto.
  - destruct (memc c visited) eqn:Em.
    + eapply IH; eauto.
    + assert (Hnot : ~ In c visited) by (intros H; apply memc_In in H; congruence).
      eapply IH; [exact E| |].
      * apply NoDup_snoc; [exact Hnd|]. intros H. apply Hnot. apply Hcov. exact H.
      * intros x Hx. apply in_app_iff in Hx as [Hx|[<-|[]]]; [right; apply Hcov; exact Hx|left; reflexivity].
Qed.

Lemma prio_pre : forall pre visited out,
  NoDup out -> (forall c, In c out -> In c visited) -> (forall c, In c visited -> In c out) ->
  exists v o, (forall y, prio (pre ++ [y]) visited out = prio [y] v o) /\
              NoDup o /\ (forall c, In c o -> In c v) /\ (forall c, In c v -> In c o).
Proof.
  induction pre as [|s pre IH]; intros visited out Hnd H1 H2.
  - exists visited, out. cbn [app]. auto.
  - cbn [app prio].
    assert (Hm : forall y, match pre ++ [y] with [] => false | _ => true end = true)
      by (intros y; destruct pre; reflexivity).
    destruct s as [l|].
    + destruct (prio_stream true l visited out) as [v1 o1] eqn:E.
      destruct (prio_stream_nodup _ _ _ _ _ E Hnd H1) as [Hnd1 Hov].
      destruct (prio_stream_spec _ _ _ _ _ _ E H2) as (e & _ & _ & _ & Hvo & _ & _).
      destruct (IH v1 o1 Hnd1 Hov Hvo) as (v & o & Hy & Hnd' & Ha & Hb).
      exists v, o. split; [|auto]. intros y. rewrite Hm, E. apply Hy.
    + destruct (IH visited out Hnd H1 H2) as (v & o & Hy & Hnd' & Ha & Hb).
      exists v, o. split; [|auto]. intros y. apply Hy.
Qed.

(** Full characterisation of suppression: the streams before the last one contribute
    every key exactly once ([NoDup]); the last stream contributes, in order, exactly those
    of its keys that no earlier stream emitted (repeats inside the last stream are kept). *)
Theorem prioritized_suppression pre last :
  let first := prioritized (pre ++ [None]) in
  NoDup first /\
  exists extra, prioritized (pre ++ [Some last]) = first ++ extra /\
                Sub extra last /\ (forall c, In c extra -> ~ In c first) /\
                (forall c, In c last -> In c (first ++ extra)).
Proof.
  cbn zeta. unfold prioritized.
  destruct (prio_pre pre [] [] (NoDup_nil _) (fun _ H => H) (fun _ H => H)) as (v & o & Hy & Hnd & Ha & Hb).
  rewrite (Hy None), (Hy (Some last)). cbn [prio]. split; [exact Hnd|].
  destruct (prio_stream false last v o) as [v' o'] eqn:E.
  destruct (prio_stream_spec _ _ _ _ _ _ E Hb) as (e & -> & Hs & Hall & _ & _ & Hfresh).
  exists e. repeat split; auto.
  intros c Hc Hin. apply (Hfresh c Hc). apply Ha. exact Hin.
Qed.

(** ---- the suppression clause of the boolean specification ---- *)
Lemma countc_app c a b : countc c (a ++ b) = (countc c a + countc c b)%nat.
Proof. unfold countc. rewrite filter_app, app_length. reflexivity. Qed.

Lemma countc_notin c l : ~ In c l -> countc c l = 0%nat.
Proof.
  unfold countc. induction l as [|x l IH]; intros H; cbn [filter length]; [reflexivity|].
  destruct (cid_eqb c x) eqn:E.
  - apply cid_eqb_eq in E. subst. exfalso. apply H. left. reflexivity.
  - apply IH. intros Hin. apply H. right. exact Hin.
Qed.

Lemma countc_nodup c l : NoDup l -> In c l -> countc c l = 1%nat.
Proof.
  unfold countc. induction l as [|x l IH]; intros Hnd Hin; [destruct Hin|].
  inversion Hnd; subst. cbn [filter]. destruct (cid_eqb c x) eqn:E.
  - apply cid_eqb_eq in E. subst. cbn [length]. f_equal. apply (countc_notin x l). assumption.
  - destruct Hin as [->|Hin]; [assert (cid_eqb c c = true) by (apply cid_eqb_eq; reflexivity); congruence|].
    apply IH; assumption.
Qed.

Lemma removelast_snoc {A} (l : list A) x : removelast (l ++ [x]) = l.
Proof. apply removelast_last. Qed.

Lemma flat_app a b : flat (a ++ b) = flat a ++ flat b.
Proof. unfold flat. rewrite map_app, concat_app. reflexivity. Qed.

Theorem prioritized_meets_spec streams : spec_prioritized streams (prioritized streams) = true.
Proof.
  unfold spec_prioritized. apply andb_true_iff. split.
  - unfold prioritized.
    destruct (prio_spec streams [] [] (fun k (HF : In k []) => match HF with end)) as (extra & -> & Hs & Hall).
    cbn [app] in *. apply andb_true_iff. split.
    + apply forallb_forall. intros c Hc. apply memc_In. apply Hall. exact Hc.
    + apply Sub_subseqb. exact Hs.
  - induction streams as [|s0 streams _] using rev_ind; [reflexivity|].
    rewrite removelast_snoc. apply forallb_forall. intros c Hc. apply Nat.eqb_eq.
    assert (Hfirst : In c (prioritized (streams ++ [None]))).
    { apply prioritized_complete. rewrite flat_app. apply in_app_iff. left. exact Hc. }
    destruct s0 as [last|].
    + destruct (prioritized_suppression streams last) as (Hnd & extra & -> & _ & Hfresh & _).
      rewrite countc_app, (countc_nodup c _ Hnd Hfirst), (countc_notin c extra); [reflexivity|].
      intros Hin. apply (Hfresh c Hin). exact Hfirst.
    + destruct (prioritized_suppression streams []) as (Hnd & _).
      apply countc_nodup; assumption.
Qed.
