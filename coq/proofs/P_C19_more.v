(** C19 — more proofs: well-formedness of specification trees is preserved, and failed
    operations leave the tree unchanged (all operations except the late failure points of Mv). *)
From Coq Require Import List ZArith Bool NArith Lia.
From V Require Import lib.Verdict model.M_C19 proofs.P_C19.
Import ListNotations.
Open Scope Z_scope.

(** every well-formed tree is what some mechanism state shows, so the refinement transfers
    the invariant to the specification *)
Theorem t_step_wfn t o : wfn t -> wfn (fst (t_step t o)).
Proof.
  intro H. destruct (load_spec t) as [Ha Hw]. specialize (Hw H).
  destruct (step_refines (load t) o Hw) as (W & A & _). rewrite Ha in A. rewrite <- A. apply wf_abs. exact W.
Qed.
Theorem t_run_wfn ops : forall t, wfn t -> wfn (fst (t_run t ops)).
Proof.
  induction ops as [|o r IH]; intros t H; cbn [t_run]; [exact H|].
  pose proof (t_step_wfn t o H) as H1. destruct (t_step t o) as [t1 x]. cbn [fst] in H1.
  specialize (IH t1 H1). destruct (t_run t1 r) as [t2 xs]. exact IH.
Qed.

Lemma tnav_err_unchanged p g : forall t, wfn t ->
  (forall n, wfn n -> is_ok (snd (g n)) = false -> fst (g n) = n) ->
  is_ok (snd (tnav p g t)) = false -> fst (tnav p g t) = t.
Proof.
  induction p as [|k r IH]; intros t Hw Hg; cbn [tnav]; [apply Hg; exact Hw|].
  destruct t as [d m mt|e m mt]; [reflexivity|].
  destruct (lookup e k) as [c|] eqn:El; [|reflexivity].
  apply wfn_dir in Hw. destruct Hw as [Hnd Hall].
  assert (Hc : wfn c) by (eapply Forall_lookup; [exact Hall|exact El]).
  specialize (IH c Hc Hg). destruct (tnav r g c) as [c' x]. cbn [fst snd] in *.
  intro Hx. rewrite (IH Hx). rewrite upd_same by assumption. reflexivity.
Qed.
Lemma tnav_query p g : forall t, wfn t -> (forall n, fst (g n) = n) -> fst (tnav p g t) = t.
Proof.
  induction p as [|k r IH]; intros t Hw Hg; cbn [tnav]; [apply Hg|].
  destruct t as [d m mt|e m mt]; [reflexivity|].
  destruct (lookup e k) as [c|] eqn:El; [|reflexivity].
  apply wfn_dir in Hw. destruct Hw as [Hnd Hall].
  assert (Hc : wfn c) by (eapply Forall_lookup; [exact Hall|exact El]).
  specialize (IH c Hc Hg). destruct (tnav r g c) as [c' x]. cbn [fst snd] in *.
  rewrite IH. rewrite upd_same by assumption. reflexivity.
Qed.

Lemma mkdir_fresh_ok r : r <> [] -> is_ok (snd (t_mkdir r true newdir)) = true.
Proof.
  induction r as [|k r IH]; [congruence|]. intros _. unfold newdir at 1. cbn [t_mkdir lookup].
  destruct r as [|j r']; [reflexivity|].
  assert (H : j :: r' <> []) by congruence. specialize (IH H).
  destruct (t_mkdir (j :: r') true newdir) as [c' x]. exact IH.
Qed.

Lemma t_mkdir_err_unchanged p parents : forall t, wfn t ->
  is_ok (snd (t_mkdir p parents t)) = false -> fst (t_mkdir p parents t) = t.
Proof.
  induction p as [|k r IH]; intros t Hw; cbn [t_mkdir]; [reflexivity|].
  destruct t as [d m mt|e m mt]; [reflexivity|].
  apply wfn_dir in Hw. destruct Hw as [Hnd Hall].
  destruct r as [|j r'].
  - destruct (lookup e k) as [[d' m' t'|e' m' t']|]; cbn [fst snd is_ok]; try reflexivity; discriminate.
  - destruct (lookup e k) as [c|] eqn:El.
    + assert (Hc : wfn c) by (eapply Forall_lookup; [exact Hall|exact El]).
      specialize (IH c Hc). destruct (t_mkdir (j :: r') parents c) as [c' x]. cbn [fst snd] in *.
      intro Hx. rewrite (IH Hx). rewrite upd_same by assumption. reflexivity.
    + destruct parents; [|reflexivity].
      pose proof (mkdir_fresh_ok (j :: r') ltac:(congruence)) as Hok.
      destruct (t_mkdir (j :: r') true newdir) as [c' x]. cbn [fst snd] in *. congruence.
Qed.

(** a descriptor session answers an error only if its file could not be opened *)
Lemma t_fd_later_ok acts : forall p pos cur t outs, is_ok (snd (t_fd p false pos cur acts t outs)) = true.
Proof.
  induction acts as [|a r IH]; intros p pos cur t outs.
  - cbn [t_fd]. destruct (tnav p (tg_fseg false pos cur) t) as [t' x]. destruct x; reflexivity.
  - destruct a; cbn [t_fd]; try apply IH.
    destruct (tnav p (tg_fseg false pos cur) t) as [t' x]. destruct x; apply IH.
Qed.
Lemma tg_fseg_err fr pos seg nd0 : is_ok (snd (tg_fseg fr pos seg nd0)) = false -> fst (tg_fseg fr pos seg nd0) = nd0.
Proof.
  unfold tg_fseg. destruct nd0; [|reflexivity]. destruct (fr || seg_dirty seg); cbn; discriminate.
Qed.
Lemma t_fd_err_unchanged acts : forall p pos cur t outs, wfn t ->
  is_ok (snd (t_fd p true pos cur acts t outs)) = false -> fst (t_fd p true pos cur acts t outs) = t.
Proof.
  induction acts as [|a r IH]; intros p pos cur t outs Hw.
  - cbn [t_fd]. pose proof (tnav_err_unchanged p (tg_fseg true pos cur) t Hw (fun n _ => tg_fseg_err _ _ _ n)) as H.
    destruct (tnav p (tg_fseg true pos cur) t) as [t' x]. cbn [fst snd] in H.
    destruct x; cbn [fst snd is_ok]; try discriminate. exact H.
  - destruct a; cbn [t_fd]; try (apply IH; exact Hw).
    pose proof (tnav_err_unchanged p (tg_fseg true pos cur) t Hw (fun n _ => tg_fseg_err _ _ _ n)) as H.
    destruct (tnav p (tg_fseg true pos cur) t) as [t' x]. cbn [fst snd] in H.
    destruct x; cbn [fst snd is_ok]; try discriminate; try exact H.
    intro E. rewrite t_fd_later_ok in E. discriminate.
Qed.

Definition is_mv (o : op) : bool := match o with OMv _ _ _ => true | _ => false end.

(** C19_failed_unchanged (all operations but Mv): an operation that answers an error leaves
    the tree exactly as it was. *)
Theorem failed_unchanged t o : wfn t -> is_mv o = false ->
  is_ok (snd (t_step t o)) = false -> fst (t_step t o) = t.
Proof.
  intros Hw Hm. destruct o; try discriminate Hm; cbn [t_step]; unfold t_at_parent.
  - (* mkdir *)
    pose proof (t_mkdir_err_unchanged p parents t Hw) as H.
    destruct (t_mkdir p parents t) as [t1 x]. cbn [fst snd] in *.
    destruct (is_ok x) eqn:Ex; [rewrite andb_true_r|rewrite andb_false_r].
    + destruct flush; cbn [fst snd]; intro E; congruence.
    + cbn [fst snd]. intros _. apply H. reflexivity.
  - (* create *)
    destruct (split_last p) as [[d k]|]; [|reflexivity]. apply tnav_err_unchanged; [exact Hw|].
    intros nd0 _. unfold tg_addchild. destruct nd0 as [? ? ?|e m mt]; [reflexivity|].
    destruct (has e k); cbn; [reflexivity|discriminate].
  - apply tnav_err_unchanged; [exact Hw|]. intros nd0 _. unfold tg_fmod. destruct nd0; cbn; [discriminate|reflexivity].
  - apply tnav_err_unchanged; [exact Hw|]. intros nd0 _. unfold tg_fmod. destruct nd0; cbn; [discriminate|reflexivity].
  - (* rm *)
    destruct (split_last p) as [[d k]|]; [|reflexivity]. apply tnav_err_unchanged; [exact Hw|].
    intros nd0 _. unfold tg_unlink. destruct nd0 as [? ? ?|e m mt]; [reflexivity|].
    destruct (has e k); cbn; [discriminate|reflexivity].
  - apply tnav_err_unchanged; [exact Hw|]. intros nd0 _. rewrite tg_chmod_ok. discriminate.
  - apply tnav_err_unchanged; [exact Hw|]. intros nd0 _. rewrite tg_touch_ok. discriminate.
  - intros _. apply tnav_query; [exact Hw|reflexivity].
  - intros _. apply tnav_query; [exact Hw|]. intros nd0; destruct nd0; reflexivity.
  - intros _. apply tnav_query; [exact Hw|]. intros nd0; destruct nd0; reflexivity.
  - intros _. apply tnav_query; [exact Hw|]. intros nd0; destruct nd0; reflexivity.
  - apply t_fd_err_unchanged. exact Hw.
  - intros _. reflexivity.
  - intros _. reflexivity.
Qed.

(** queries never change the tree *)
Theorem queries_unchanged t p : wfn t ->
  fst (t_step t (OFlush p)) = t /\ fst (t_step t (OStat p)) = t /\
  fst (t_step t (OList p)) = t /\ fst (t_step t (ORead p)) = t.
Proof.
  intro Hw. cbn [t_step]. repeat split; apply tnav_query; try exact Hw; intros n; destruct n; reflexivity.
Qed.

(** transferred to the mechanism: what MFS shows is unchanged by a failed operation *)
Theorem mech_failed_unchanged o a : wf o -> is_mv a = false ->
  is_ok (snd (m_step flags_off o a)) = false -> abs (fst (m_step flags_off o a)) = abs o.
Proof.
  intros Hw Hm He. destruct (step_refines o a Hw) as (_ & A & X). rewrite A. rewrite X in He.
  apply failed_unchanged; [apply wf_abs; exact Hw|exact Hm|exact He].
Qed.
