(** C38 — proofs: what path resolution and the file-system operations of
    [lib/FsModel.v] can touch, and that the extractor model [model/M_C38.v] (with
    the repaired deferred update) never changes anything outside its target. *)
From Coq Require Import String List ZArith Bool Lia.
From V Require Import lib.Verdict lib.FsModel model.M_C38.
Import ListNotations.
Open Scope Z_scope.

(* the fuel constant must never be unfolded by tactics *)
Opaque STEPS.

(** ---------- byte strings and paths ---------- *)
Lemma bytes_eqb_refl : forall a, bytes_eqb a a = true.
Proof. induction a as [|x a IH]; cbn; [reflexivity|]. rewrite Z.eqb_refl, IH. reflexivity. Qed.

Lemma bytes_eqb_eq : forall a b, bytes_eqb a b = true <-> a = b.
Proof.
  induction a as [|x a IH]; intros [|y b]; cbn; split; intro H; try reflexivity; try discriminate.
  - apply andb_true_iff in H. destruct H as [H1 H2]. apply Z.eqb_eq in H1. apply IH in H2. congruence.
  - inversion H; subst. rewrite Z.eqb_refl. cbn. apply bytes_eqb_refl.
Qed.

Lemma path_eqb_refl : forall a, path_eqb a a = true.
Proof. induction a as [|x a IH]; cbn; [reflexivity|]. rewrite bytes_eqb_refl. exact IH. Qed.

Lemma path_eqb_eq : forall a b, path_eqb a b = true <-> a = b.
Proof.
  induction a as [|x a IH]; intros [|y b]; cbn; split; intro H; try reflexivity; try discriminate.
  - apply andb_true_iff in H. destruct H as [H1 H2]. apply bytes_eqb_eq in H1. apply IH in H2. congruence.
  - inversion H; subst. rewrite bytes_eqb_refl. cbn. apply path_eqb_refl.
Qed.

Lemma path_eqb_neq : forall a b, a <> b -> path_eqb a b = false.
Proof. intros a b H. destruct (path_eqb a b) eqn:E; [apply path_eqb_eq in E; contradiction|reflexivity]. Qed.

Lemma path_eqb_sym : forall a b, path_eqb a b = path_eqb b a.
Proof.
  intros a b. destruct (path_eqb a b) eqn:E.
  - apply path_eqb_eq in E. subst. symmetry. apply path_eqb_refl.
  - destruct (path_eqb b a) eqn:E'; [|reflexivity]. apply path_eqb_eq in E'. subst.
    rewrite path_eqb_refl in E. discriminate.
Qed.

Lemma under_refl : forall p, under p p = true.
Proof. unfold under. induction p as [|a p IH]; cbn; [reflexivity|]. rewrite bytes_eqb_refl. exact IH. Qed.

Lemma under_app : forall p s, under p (p ++ s) = true.
Proof. unfold under. induction p as [|a p IH]; intro s; cbn; [reflexivity|]. rewrite bytes_eqb_refl. apply IH. Qed.

Lemma under_spec : forall p q, under p q = true <-> exists s, q = p ++ s.
Proof.
  unfold under. induction p as [|a p IH]; intros q; cbn.
  - split; [intros _; exists q; reflexivity|reflexivity].
  - destruct q as [|b q]; [split; [discriminate|intros [s Hs]; discriminate]|].
    split.
    + intro H. apply andb_true_iff in H. destruct H as [H1 H2]. apply bytes_eqb_eq in H1.
      apply IH in H2. destruct H2 as [s Hs]. exists s. subst. reflexivity.
    + intros [s Hs]. inversion Hs; subst. rewrite bytes_eqb_refl. cbn. apply IH. exists s. reflexivity.
Qed.

Lemma parent_snoc : forall (p : path) c, parent (p ++ [c]) = p.
Proof. intros. unfold parent. apply removelast_last. Qed.

Lemma parent_neq : forall q : path, q <> [] -> parent q <> q.
Proof.
  intros q Hq. destruct (exists_last Hq) as (q' & a & E). subst q. rewrite parent_snoc. intro E.
  apply (f_equal (@List.length comp)) in E. rewrite app_length in E. cbn in E. lia.
Qed.

(** ---------- the finite map ---------- *)
Lemma get_del : forall f p q, get (del f p) q = if path_eqb q p then None else get f q.
Proof.
  induction f as [|[r i] f IH]; intros p q; cbn [del get].
  - destruct (path_eqb q p); reflexivity.
  - destruct (path_eqb p r) eqn:E.
    + apply path_eqb_eq in E. subst r. rewrite IH. destruct (path_eqb q p); reflexivity.
    + cbn [get]. rewrite IH. destruct (path_eqb q r) eqn:E2; [|reflexivity].
      apply path_eqb_eq in E2. subst r. rewrite path_eqb_sym, E. reflexivity.
Qed.

Lemma get_set : forall f p i q, get (set f p i) q = if path_eqb q p then Some i else get f q.
Proof.
  intros. unfold set. cbn [get]. destruct (path_eqb q p) eqn:E; [reflexivity|].
  rewrite get_del, E. reflexivity.
Qed.

Definition same_km (a b : option inode) : Prop :=
  match a, b with
  | Some x, Some y => i_kind x = i_kind y /\ i_mode x = i_mode y
  | None, None => True
  | _, _ => False
  end.

Lemma same_km_refl : forall a, same_km a a.
Proof. intros [x|]; cbn; auto. Qed.
Lemma same_km_trans : forall a b c, same_km a b -> same_km b c -> same_km a c.
Proof. intros [x|] [y|] [z|]; cbn; intuition congruence. Qed.

Lemma get_touch_dir : forall f d q,
  (q <> d -> get (touch_dir f d) q = get f q) /\ same_km (get f q) (get (touch_dir f d) q).
Proof.
  intros f d q. unfold touch_dir. destruct (get f d) as [i|] eqn:E.
  - rewrite get_set. destruct (path_eqb q d) eqn:E2.
    + apply path_eqb_eq in E2. subst q. split; [intro H; contradiction|]. rewrite E. cbn. auto.
    + split; [reflexivity|apply same_km_refl].
  - split; [reflexivity|apply same_km_refl].
Qed.

(** ---------- what an operation may change ---------- *)
(** [g] differs from [f] at most at [q] (anything) and at [parent q] (same kind and mode) *)
Definition changes_at (q : path) (f g : fs) : Prop :=
  forall p, p <> q -> (p <> parent q -> get g p = get f p) /\ same_km (get f p) (get g p).

Lemma changes_at_refl : forall q f, changes_at q f f.
Proof. intros q f p _. split; [reflexivity|apply same_km_refl]. Qed.

Lemma changes_set_touch : forall f q i, changes_at q f (set (touch_dir f (parent q)) q i).
Proof.
  intros f q i p Hp. rewrite get_set, (path_eqb_neq _ _ Hp).
  destruct (get_touch_dir f (parent q) p) as [H1 H2]. split; [exact H1|exact H2].
Qed.

Lemma changes_del_touch : forall f q, changes_at q f (touch_dir (del f q) (parent q)).
Proof.
  intros f q p Hp. destruct (get_touch_dir (del f q) (parent q) p) as [H1 H2].
  rewrite get_del, (path_eqb_neq _ _ Hp) in H1, H2. split; assumption.
Qed.

Lemma mkdir_changes : forall f p mode g, mkdir f p mode = Ok g ->
  exists q, res_nofollow f p = Ok q /\ changes_at q f g /\ get f q = None /\ is_dir (get g q) = true.
Proof.
  intros f p mode g H. unfold mkdir in H. destruct (res_nofollow f p) as [q|e] eqn:R; [|discriminate].
  destruct (get f q) eqn:G; [discriminate|]. destruct (is_nil q); [discriminate|]. inversion H; subst.
  exists q. split; [reflexivity|]. split; [apply changes_set_touch|]. split; [exact G|].
  rewrite get_set, path_eqb_refl. reflexivity.
Qed.

Lemma symlink_changes : forall f tg p g, symlink f tg p = Ok g ->
  exists q, res_nofollow f p = Ok q /\ changes_at q f g /\ get f q = None /\ get g q <> None.
Proof.
  intros f tg p g H. unfold symlink in H. destruct (is_nil tg); [discriminate|].
  destruct (res_nofollow f p) as [q|e] eqn:R; [|discriminate].
  destruct (get f q) eqn:G; [discriminate|]. destruct (is_nil q); [discriminate|]. inversion H; subst.
  exists q. split; [reflexivity|]. split; [apply changes_set_touch|]. split; [exact G|].
  rewrite get_set, path_eqb_refl. discriminate.
Qed.

Lemma put_file_changes : forall f p c g, put_file f p c = Ok g ->
  exists q, res_nofollow f p = Ok q /\ changes_at q f g /\ is_dir (get f q) = false /\
            get g q = Some (mk_inode (KFile c) 384).
Proof.
  intros f p c g H. unfold put_file in H. destruct (res_nofollow f p) as [q|e] eqn:R; [|discriminate].
  destruct (is_nil q); [discriminate|].
  exists q. split; [reflexivity|].
  destruct (get f q) as [[k m mt]|] eqn:G.
  - destruct k; [discriminate| |]; inversion H; subst;
      (split; [apply changes_set_touch|]; split; [reflexivity|]; rewrite get_set, path_eqb_refl; reflexivity).
  - inversion H; subst. split; [apply changes_set_touch|]. split; [reflexivity|].
    rewrite get_set, path_eqb_refl. reflexivity.
Qed.

Lemma remove_changes : forall f p g, remove f p = Ok g ->
  exists q, res_nofollow f p = Ok q /\ changes_at q f g /\ get g q = None /\
            (is_dir (get f q) = true -> has_children f q = false).
Proof.
  intros f p g H. unfold remove in H. destruct (res_nofollow f p) as [q|e] eqn:R; [|discriminate].
  destruct (get f q) as [i|] eqn:G; [|discriminate]. destruct (is_nil q) eqn:Nq; [discriminate|].
  assert (Hnp : parent q <> q) by (apply parent_neq; intro E; subst q; discriminate).
  assert (Hg : forall g', g' = touch_dir (del f q) (parent q) -> get g' q = None).
  { intros g' ->. destruct (get_touch_dir (del f q) (parent q) q) as [H1 _].
    rewrite H1 by (intro E; apply Hnp; symmetry; exact E). rewrite get_del, path_eqb_refl. reflexivity. }
  exists q. split; [reflexivity|].
  destruct i as [k m mt]. cbn [i_kind] in H. destruct k.
  - destruct (has_children f q) eqn:Hc; [discriminate|]. inversion H; subst.
    split; [apply changes_del_touch|]. split; [apply Hg; reflexivity|]. intros _. reflexivity.
  - inversion H; subst. split; [apply changes_del_touch|]. split; [apply Hg; reflexivity|].
    rewrite G. cbn. discriminate.
  - inversion H; subst. split; [apply changes_del_touch|]. split; [apply Hg; reflexivity|].
    rewrite G. cbn. discriminate.
Qed.

(** chmod and utimens keep the kind; they change exactly the resolved object *)
Definition meta_only (q : path) (f g : fs) : Prop :=
  (forall p, p <> q -> get g p = get f p) /\
  match get f q, get g q with
  | Some x, Some y => i_kind x = i_kind y
  | None, None => True
  | _, _ => False
  end.

Lemma meta_only_refl : forall q f, meta_only q f f.
Proof. intros q f. split; [reflexivity|]. destruct (get f q); auto. Qed.

Lemma meta_only_trans : forall q f g h, meta_only q f g -> meta_only q g h -> meta_only q f h.
Proof.
  intros q f g h [A1 A2] [B1 B2]. split.
  - intros p Hp. rewrite (B1 p Hp). apply A1. exact Hp.
  - destruct (get f q), (get g q), (get h q); try contradiction; auto. congruence.
Qed.

Lemma chmod_changes : forall f p mode g, chmod f p mode = Ok g ->
  exists q, res_follow f p = Ok q /\ meta_only q f g.
Proof.
  intros f p mode g H. unfold chmod in H. destruct (res_follow f p) as [q|e] eqn:R; [|discriminate].
  destruct (get f q) as [i|] eqn:G; [|discriminate]. inversion H; subst.
  exists q. split; [reflexivity|]. split.
  - intros p' Hp. rewrite get_set, (path_eqb_neq _ _ Hp). reflexivity.
  - rewrite G, get_set, path_eqb_refl. reflexivity.
Qed.

Lemma utimens_changes : forall f p t g, utimens f p t = Ok g ->
  exists q, res_nofollow f p = Ok q /\ meta_only q f g /\
            match get f q, get g q with Some x, Some y => i_mode x = i_mode y | _, _ => False end.
Proof.
  intros f p t g H. unfold utimens in H. destruct (res_nofollow f p) as [q|e] eqn:R; [|discriminate].
  destruct (get f q) as [i|] eqn:G; [|discriminate]. inversion H; subst.
  exists q. split; [reflexivity|]. split; [split|].
  - intros p' Hp. rewrite get_set, (path_eqb_neq _ _ Hp). reflexivity.
  - rewrite G, get_set, path_eqb_refl. reflexivity.
  - rewrite G, get_set, path_eqb_refl. reflexivity.
Qed.

(** ---------- resolution through real directories is the identity ---------- *)
Definition normal (c : comp) : Prop := c <> [] /\ c <> DOT /\ c <> DOTDOT.

(** every component of [todo] names a real directory below the real directory [cur] *)
Fixpoint real_from (f : fs) (cur : path) (todo : list comp) : Prop :=
  is_dir (get f cur) = true /\
  match todo with
  | [] => True
  | c :: rest => normal c /\ real_from f (cur ++ [c]) rest
  end.
Definition real (f : fs) (p : path) : Prop := real_from f [] p.

Lemma real_from_dir : forall f cur todo, real_from f cur todo -> is_dir (get f cur) = true.
Proof. intros f cur [|c r] H; cbn [real_from] in H; tauto. Qed.

Lemma normal_tests : forall c, normal c -> is_nil c || bytes_eqb c DOT = false /\ bytes_eqb c DOTDOT = false.
Proof.
  intros c (H1 & H2 & H3). split.
  - destruct c; [contradiction|]. cbn [is_nil orb].
    destruct (bytes_eqb (z :: c) DOT) eqn:E; [apply bytes_eqb_eq in E; contradiction|reflexivity].
  - destruct (bytes_eqb c DOTDOT) eqn:E; [apply bytes_eqb_eq in E; contradiction|reflexivity].
Qed.

Lemma is_dir_kind : forall o, is_dir o = true -> exists i, o = Some i /\ i_kind i = KDir.
Proof.
  intros [[k m mt]|] H; [|discriminate]. destruct k; try discriminate. eexists. split; reflexivity.
Qed.

(** walking a chain of real directories, then one more normal component that is
    not a followed symbolic link: the answer is the lexical path *)
Lemma resolve_real : forall pre n links f cur c follow q,
  real_from f cur pre -> normal c ->
  (follow = true -> forall i t, get f (cur ++ pre ++ [c]) = Some i -> i_kind i <> KLink t) ->
  resolve n links f cur (pre ++ [c]) follow = Ok q -> q = cur ++ pre ++ [c].
Proof.
  induction pre as [|d pre IH]; intros n links f cur c follow q Hr Hc Hl H.
  - destruct n as [|n]; [discriminate|]. cbn [app resolve] in H.
    pose proof (real_from_dir _ _ _ Hr) as Hd. apply is_dir_kind in Hd. destruct Hd as (ci & Hci & Hk). rewrite Hci, Hk in H.
    destruct (normal_tests c Hc) as [T1 T2]. rewrite T1, T2 in H.
    destruct (NAME_MAX <? Z.of_nat (List.length c)); [discriminate|].
    cbn [app] in Hl.
    destruct (get f (cur ++ [c])) as [[k m mt]|] eqn:G.
    + destruct k.
      * cbn [is_nil] in H. inversion H. reflexivity.
      * cbn [is_nil] in H. inversion H. reflexivity.
      * cbn [is_nil negb orb] in H. destruct follow.
        -- exfalso. eapply (Hl eq_refl); [reflexivity|]. reflexivity.
        -- inversion H. reflexivity.
    + cbn [is_nil] in H. inversion H. reflexivity.
  - destruct n as [|n]; [discriminate|]. cbn [app resolve] in H.
    destruct Hr as [Hd [Hnd Hr']]. apply is_dir_kind in Hd. destruct Hd as (ci & Hci & Hk). rewrite Hci, Hk in H.
    destruct (normal_tests d Hnd) as [T1 T2]. rewrite T1, T2 in H.
    destruct (NAME_MAX <? Z.of_nat (List.length d)); [discriminate|].
    pose proof (real_from_dir _ _ _ Hr') as Hd'. apply is_dir_kind in Hd'. destruct Hd' as (di & Hdi & Hdk).
    rewrite Hdi in H. destruct di as [k m mt]. cbn [i_kind] in Hdk. subst k.
    assert (Hnn : is_nil (pre ++ [c]) = false) by (destruct pre; reflexivity).
    rewrite Hnn in H.
    apply IH in H; try assumption.
    + rewrite H. rewrite <- app_assoc. reflexivity.
    + intros Hf i t. rewrite <- app_assoc. cbn [app]. apply Hl. exact Hf.
Qed.

Lemma real_from_snoc : forall f p cur c,
  real_from f cur (p ++ [c]) <->
  real_from f cur p /\ normal c /\ is_dir (get f (cur ++ p ++ [c])) = true.
Proof.
  intros f p. induction p as [|d p IH]; intros cur c.
  - cbn [app real_from]. tauto.
  - cbn [app real_from]. rewrite IH. rewrite <- app_assoc. cbn [app]. tauto.
Qed.

(** resolving the path of a real directory (either way) gives that path *)
Lemma resolve_real_dir : forall p n links f follow q, real f p -> p <> [] ->
  resolve n links f [] p follow = Ok q -> q = p.
Proof.
  intros p n links f follow q Hr Hne H.
  destruct (exists_last Hne) as (p' & c & E). subst p.
  unfold real in Hr. apply real_from_snoc in Hr. destruct Hr as [H1 [H2 H3]]. cbn [app] in H3.
  apply (resolve_real p' n links f [] c follow q H1 H2) in H; [exact H|].
  intros _ i t Hi Hk. cbn [app] in Hi. apply is_dir_kind in H3. destruct H3 as (i' & Hi' & Hk').
  rewrite Hi in Hi'. inversion Hi'; subst. rewrite Hk in Hk'. discriminate.
Qed.

(** ---------- the defect (flag on) ---------- *)
Definition w_dir (m t : Z) : inode := {| i_kind := KDir; i_mode := m; i_mtime := Some t |}.
Definition w_fs : fs :=
  [ ([], w_dir 493 0); ([bs "B"], w_dir 493 1); ([bs "B"; bs "out"], w_dir 493 2);
    ([bs "B"; bs "out"; bs "d"], w_dir 493 3) ].
Definition w_t : path := [bs "B"; bs "t"].
Definition w_entries : list entry :=
  [ {| e_name := bs "r"; e_type := TDir; e_mode := 493; e_mtime := Some 7; e_link := []; e_content := 0 |};
    {| e_name := bs "r/d"; e_type := TDir; e_mode := 448; e_mtime := Some 7; e_link := []; e_content := 0 |};
    {| e_name := bs "r/d"; e_type := TSym; e_mode := 511; e_mtime := Some 7; e_link := bs "../out/d"; e_content := 0 |} ].

Theorem deferred_refuted :
  snd (extract true w_fs w_t w_entries) = false /\
  get (fst (extract true w_fs w_t w_entries)) [bs "B"; bs "out"; bs "d"] = Some (w_dir 448 3) /\
  confined w_t w_fs (fst (extract true w_fs w_t w_entries)) = false /\
  confined w_t w_fs (fst (extract false w_fs w_t w_entries)) = true.
Proof. vm_compute. repeat split; reflexivity. Qed.

(** ---------- agreement outside the target ---------- *)
(** [g] agrees with [f] on everything that is not at or below [t]; the directory
    holding [t] keeps its kind and mode *)
Definition agree (t : path) (f g : fs) : Prop :=
  (forall p, under t p = false -> p <> parent t -> get g p = get f p) /\
  same_km (get f (parent t)) (get g (parent t)).

Lemma agree_refl : forall t f, agree t f f.
Proof. intros. split; [reflexivity|apply same_km_refl]. Qed.

Lemma agree_trans : forall t f g h, agree t f g -> agree t g h -> agree t f h.
Proof.
  intros t f g h [A1 A2] [B1 B2]. split.
  - intros p Hu Hp. rewrite (B1 p Hu Hp). apply A1; assumption.
  - eapply same_km_trans; eassumption.
Qed.

Lemma under_false_neq : forall t q p, under t q = true -> under t p = false -> p <> q.
Proof. intros t q p Hq Hp E. subst. congruence. Qed.

Lemma parent_under : forall t s c, parent (t ++ s ++ [c]) = t ++ s.
Proof. intros. rewrite app_assoc. apply parent_snoc. Qed.

Lemma parent_length : forall t : path, t <> [] -> S (List.length (parent t)) = List.length t.
Proof.
  intros t Ht. destruct (exists_last Ht) as (t' & a & E). subst t. rewrite parent_snoc, app_length. cbn. lia.
Qed.

Lemma changes_agree : forall t q f g, t <> [] -> under t q = true -> changes_at q f g -> agree t f g.
Proof.
  intros t q f g Ht Hq Hc. apply under_spec in Hq. destruct Hq as [s Hs]. subst q. split.
  - intros p Hu Hp.
    assert (Hne : p <> t ++ s) by (intro E; subst p; rewrite under_app in Hu; discriminate).
    destruct (Hc p Hne) as [H1 _]. apply H1. intro E.
    destruct s as [|c s'] using rev_ind.
    + rewrite app_nil_r in E. contradiction.
    + rewrite parent_under in E. subst p. rewrite under_app in Hu. discriminate.
  - assert (Hne : parent t <> t ++ s).
    { intro E. apply (f_equal (@List.length comp)) in E. rewrite app_length in E.
      pose proof (parent_length t Ht). lia. }
    destruct (Hc (parent t) Hne) as [_ H2]. exact H2.
Qed.

Lemma meta_agree : forall t q f g, t <> [] -> under t q = true -> meta_only q f g -> agree t f g.
Proof.
  intros t q f g Ht Hq [Hm _]. split.
  - intros p Hu _. apply Hm. eapply under_false_neq; eassumption.
  - rewrite Hm; [apply same_km_refl|]. intro E. apply under_spec in Hq. destruct Hq as [s Hs]. subst q.
    apply (f_equal (@List.length comp)) in E. rewrite app_length in E. pose proof (parent_length t Ht). lia.
Qed.

(** ---------- what survives an operation ---------- *)
Lemma is_dir_km : forall a b, same_km a b -> is_dir a = true -> is_dir b = true.
Proof.
  intros [[k m mt]|] [[k' m' mt']|] H Hd; cbn in *; try contradiction; try discriminate.
  destruct H as [H _]. subst k'. exact Hd.
Qed.

Lemma real_from_changes : forall q f g todo cur,
  changes_at q f g -> under q (cur ++ todo) = false -> real_from f cur todo -> real_from g cur todo.
Proof.
  intros q f g todo. induction todo as [|c rest IH]; intros cur Hc Hu Hr.
  - cbn [real_from] in *. split; [|exact I]. destruct Hr as [Hd _]. rewrite app_nil_r in Hu.
    assert (Hne : cur <> q) by (intro E; subst; rewrite under_refl in Hu; discriminate).
    destruct (Hc cur Hne) as [_ Hk]. eapply is_dir_km; eassumption.
  - cbn [real_from] in *. destruct Hr as [Hd [Hn Hr]].
    assert (Hne : cur <> q) by (intro E; subst; rewrite under_app in Hu; discriminate).
    split; [|split; [exact Hn|]].
    + destruct (Hc cur Hne) as [_ Hk]. eapply is_dir_km; eassumption.
    + apply IH; [exact Hc| |exact Hr]. rewrite <- app_assoc. exact Hu.
Qed.

Lemma meta_km : forall q f g x, meta_only q f g -> is_dir (get f x) = true -> is_dir (get g x) = true.
Proof.
  intros q f g x [Hm1 Hm2] Hd. destruct (list_eq_dec (list_eq_dec Z.eq_dec) x q) as [E|E].
  - subst x. apply is_dir_kind in Hd. destruct Hd as (i & Hi & Hki). rewrite Hi in Hm2.
    destruct (get g q) as [[k m mt]|]; [|contradiction]. cbn in *. rewrite <- Hm2, Hki. reflexivity.
  - rewrite (Hm1 x E). exact Hd.
Qed.

Lemma real_from_meta : forall q f g todo cur, meta_only q f g -> real_from f cur todo -> real_from g cur todo.
Proof.
  intros q f g todo. induction todo as [|c rest IH]; intros cur Hm Hr; cbn [real_from] in *.
  - split; [|exact I]. destruct Hr as [Hd _]. eapply meta_km; eassumption.
  - destruct Hr as [Hd [Hn Hr]]. split; [eapply meta_km; eassumption|]. split; [exact Hn|apply IH; assumption].
Qed.

Lemma exists_changes : forall q f g x, changes_at q f g -> x <> q -> get f x <> None -> get g x <> None.
Proof.
  intros q f g x Hc Hx Hf. destruct (Hc x Hx) as [_ Hk]. destruct (get f x); [|contradiction].
  destruct (get g x); [discriminate|contradiction].
Qed.

Lemma exists_meta : forall q f g x, meta_only q f g -> get f x <> None -> get g x <> None.
Proof.
  intros q f g x [Hm1 Hm2] Hf. destruct (list_eq_dec (list_eq_dec Z.eq_dec) x q) as [E|E].
  - subst. destruct (get f q); [|contradiction]. destruct (get g q); [discriminate|contradiction].
  - rewrite (Hm1 x E). exact Hf.
Qed.

(** ---------- lexical = physical below a chain of real directories ---------- *)
Lemma res_nofollow_lex : forall f p c q, real f p -> normal c ->
  res_nofollow f (p ++ [c]) = Ok q -> q = p ++ [c].
Proof.
  intros f p c q Hr Hn H. unfold res_nofollow in H.
  apply (resolve_real p _ _ f [] c false q Hr Hn) in H; [exact H|]. intro E. discriminate.
Qed.

Lemma res_follow_lex : forall f p c q, real f p -> normal c ->
  (forall i t, get f (p ++ [c]) = Some i -> i_kind i <> KLink t) ->
  res_follow f (p ++ [c]) = Ok q -> q = p ++ [c].
Proof.
  intros f p c q Hr Hn Hl H. unfold res_follow in H.
  apply (resolve_real p _ _ f [] c true q Hr Hn) in H; [exact H|]. intros _. exact Hl.
Qed.

Lemma resolve_nil : forall n l f cur follow q, resolve n l f cur [] follow = Ok q -> q = cur.
Proof. intros [|n] l f cur follow q H; cbn in H; [discriminate|]. inversion H. reflexivity. Qed.

Lemma res_dir_lex : forall f p q follow, real f p ->
  resolve STEPS MAXLINKS f [] p follow = Ok q -> q = p.
Proof.
  intros f p q follow Hr H. destruct p as [|a p'] eqn:E.
  - apply resolve_nil in H. exact H.
  - rewrite <- E in *. eapply resolve_real_dir; [exact Hr|subst; discriminate|exact H].
Qed.

(** ---------- more facts on chains ---------- *)
Lemma real_from_app : forall f a b cur, real_from f cur (a ++ b) -> real_from f cur a /\ real_from f (cur ++ a) b.
Proof.
  intros f a. induction a as [|c a IH]; intros b cur H.
  - cbn [app] in *. rewrite app_nil_r. split; [|exact H]. cbn [real_from]. split; [|exact I].
    eapply real_from_dir. exact H.
  - cbn [app real_from] in H. destruct H as [Hd [Hn H]]. apply IH in H. destruct H as [H1 H2].
    split; [cbn [real_from]; auto|]. rewrite <- app_assoc in H2. exact H2.
Qed.

Lemma prefix_real_dir : forall f p q, real f p -> under q p = true -> is_dir (get f q) = true.
Proof.
  intros f p q Hr Hu. apply under_spec in Hu. destruct Hu as [s Hs]. subst p.
  unfold real in Hr. apply real_from_app in Hr. destruct Hr as [_ H]. cbn [app] in H.
  eapply real_from_dir. exact H.
Qed.

Lemma prefix_real : forall f p q, real f p -> under q p = true -> real f q.
Proof.
  intros f p q Hr Hu. apply under_spec in Hu. destruct Hu as [s Hs]. subst p.
  unfold real in *. apply real_from_app in Hr. tauto.
Qed.

Lemma get_In : forall f p i, get f p = Some i -> exists q, path_eqb p q = true /\ In (q, i) f.
Proof.
  induction f as [|[r j] f IH]; intros p i H; [discriminate|]. cbn [get] in H.
  destruct (path_eqb p r) eqn:E.
  - inversion H; subst. exists r. split; [exact E|left; reflexivity].
  - destruct (IH _ _ H) as (q & Hq & Hin). exists q. split; [exact Hq|right; exact Hin].
Qed.

Lemma has_children_intro : forall f q c, get f (q ++ [c]) <> None -> has_children f q = true.
Proof.
  intros f q c H. destruct (get f (q ++ [c])) as [i|] eqn:G; [|contradiction].
  destruct (get_In _ _ _ G) as (r & Hr & Hin). apply path_eqb_eq in Hr. subst r.
  unfold has_children. apply existsb_exists. exists (q ++ [c], i). split; [exact Hin|].
  cbn [fst]. rewrite parent_snoc, path_eqb_refl. destruct q; reflexivity.
Qed.

Lemma under_longer : forall (q p : path), (List.length p < List.length q)%nat -> under q p = false.
Proof.
  intros q p H. destruct (under q p) eqn:E; [|reflexivity]. apply under_spec in E. destruct E as [s Hs].
  subst p. rewrite app_length in H. lia.
Qed.

(** ---------- the invariant of the extraction loop ---------- *)
Section Confine.
  Variable t : path.
  Hypothesis t_ne : t <> [].
  Variable f0 : fs.

  (** a deferred path: below the target, reached through real directories, and
      (where [ex] says so) present *)
  Definition dpath_ok (f : fs) (ex : path -> Prop) (d : deferred) : Prop :=
    exists p c, d_path d = p ++ [c] /\ under t (p ++ [c]) = true /\ normal c /\ real f p /\
                (ex (p ++ [c]) -> get f (p ++ [c]) <> None).
  Definition inv (ex : path -> Prop) (f : fs) (rds : list deferred) : Prop :=
    agree t f0 f /\ real f t /\ Forall (dpath_ok f ex) rds.

  Definition always (_ : path) : Prop := True.
  Definition never (_ : path) : Prop := False.

  Lemma inv_weaken : forall (ex ex' : path -> Prop) f rds,
    (forall x, ex' x -> ex x) -> inv ex f rds -> inv ex' f rds.
  Proof.
    intros ex ex' f rds Himp (A & R & D). split; [exact A|]. split; [exact R|].
    eapply Forall_impl; [|exact D]. intros d (p & c & E & U & N & Rp & X).
    exists p, c. split; [exact E|]. split; [exact U|]. split; [exact N|]. split; [exact Rp|].
    intro Hx. apply X. apply Himp. exact Hx.
  Qed.

  Lemma inv_meta : forall ex f rds q g, inv ex f rds -> under t q = true -> meta_only q f g -> inv ex g rds.
  Proof.
    intros ex f rds q g (A & R & D) Hq Hm. split; [|split].
    - eapply agree_trans; [exact A|]. eapply meta_agree; eassumption.
    - eapply real_from_meta; eassumption.
    - eapply Forall_impl; [|exact D]. intros d (p & c & E & U & N & Rp & X).
      exists p, c. split; [exact E|]. split; [exact U|]. split; [exact N|]. split.
      + eapply real_from_meta; eassumption.
      + intro Hx. eapply exists_meta; [exact Hm|]. apply X. exact Hx.
  Qed.

  (** UpdateMetaUnix on a path below real directories that is not a symbolic link
      changes the metadata of exactly that object, error or not *)
  Lemma update_meta_ok : forall f p c mode mt, real f p -> normal c ->
    (forall i tg, get f (p ++ [c]) = Some i -> i_kind i <> KLink tg) ->
    meta_only (p ++ [c]) f (fst (update_meta f (p ++ [c]) mode mt)).
  Proof.
    intros f p c mode mt Hr Hn Hl. unfold update_meta.
    assert (H1 : forall f1, (match mt with Some tm => utimens f (p ++ [c]) tm | None => Ok f end) = Ok f1 ->
                            meta_only (p ++ [c]) f f1).
    { intros f1 E. destruct mt as [tm|]; [|inversion E; apply meta_only_refl].
      apply utimens_changes in E. destruct E as (q & Rq & Hm & _).
      apply res_nofollow_lex in Rq; [|assumption|assumption]. subst q. exact Hm. }
    destruct (match mt with Some tm => utimens f (p ++ [c]) tm | None => Ok f end) as [f1|e] eqn:E1;
      [|apply meta_only_refl].
    specialize (H1 f1 eq_refl). destruct (chmod_bits mode =? 0); [exact H1|].
    destruct (chmod f1 (p ++ [c]) (chmod_bits mode)) as [f2|e] eqn:E2; cbn [fst]; [|exact H1].
    apply chmod_changes in E2. destruct E2 as (q & Rq & Hm).
    apply res_follow_lex in Rq.
    - subst q. eapply meta_only_trans; eassumption.
    - eapply real_from_meta; eassumption.
    - exact Hn.
    - intros i tg Hi Hk. destruct H1 as [_ H1]. rewrite Hi in H1.
      destruct (get f (p ++ [c])) as [j|] eqn:Gj; [|contradiction].
      apply (Hl j tg eq_refl). rewrite H1. exact Hk.
  Qed.

  Lemma apply_deferred_ok : forall f ex d, dpath_ok f ex d ->
    meta_only (d_path d) f (fst (apply_deferred false f d)).
  Proof.
    intros f ex d (p & c & E & U & N & Rp & X). unfold apply_deferred. rewrite E.
    unfold lstat. destruct (res_nofollow f (p ++ [c])) as [q|e] eqn:Rq; [|apply meta_only_refl].
    apply res_nofollow_lex in Rq; [|assumption|assumption]. subst q.
    destruct (get f (p ++ [c])) as [i|] eqn:G; [|apply meta_only_refl].
    destruct (i_kind i) eqn:K; try apply meta_only_refl.
    apply update_meta_ok; try assumption.
    intros j tg Hj Hk. rewrite G in Hj. inversion Hj; subst. congruence.
  Qed.

  Lemma dpath_under : forall f ex d, dpath_ok f ex d -> under t (d_path d) = true.
  Proof. intros f ex d (p & c & E & U & _). rewrite E. exact U. Qed.

  (** doUpdates keeps everything outside the target as it was *)
  Lemma do_updates_ok : forall rds ex f, inv ex f rds -> inv ex (do_updates_rev false f rds) [].
  Proof.
    induction rds as [|d rds IH]; intros ex f Hi.
    - cbn. destruct Hi as (A & R & _). split; [exact A|]. split; [exact R|constructor].
    - cbn [do_updates_rev]. pose proof Hi as (A & R & D). inversion D as [|? ? Hd Hds]; subst.
      pose proof (apply_deferred_ok f ex d Hd) as Hm.
      pose proof (inv_meta ex f (d :: rds) _ _ Hi (dpath_under _ _ _ Hd) Hm) as Hi'.
      destruct (apply_deferred false f d) as [f' er]. cbn [fst] in *.
      destruct er.
      + destruct Hi' as (A' & R' & _). split; [exact A'|]. split; [exact R'|constructor].
      + apply (IH ex). destruct Hi' as (A' & R' & D'). split; [exact A'|]. split; [exact R'|].
        inversion D'; assumption.
  Qed.
End Confine.

(** ---------- names ---------- *)
Lemma prefix_b_spec : forall p s, prefix_b p s = true -> s = p ++ skipn (List.length p) s.
Proof.
  induction p as [|a p IH]; intros s H; [reflexivity|]. destruct s as [|b s]; [discriminate|].
  cbn in H. apply andb_true_iff in H. destruct H as [H1 H2]. apply Z.eqb_eq in H1. subst b.
  cbn [List.length skipn app]. f_equal. apply IH. exact H2.
Qed.

Lemma split_slash_suffix : forall a b, exists l, l <> [] /\ split_slash (a ++ 47 :: b) = l ++ split_slash b.
Proof.
  induction a as [|c a IH]; intro b.
  - exists [[]]. split; [discriminate|]. cbn. reflexivity.
  - destruct (IH b) as (l & Hl & E). cbn [app split_slash]. destruct (c =? 47).
    + exists ([] :: l). split; [discriminate|]. rewrite E. reflexivity.
    + rewrite E. destruct l as [|h l']; [contradiction|]. cbn [app].
      exists ((c :: h) :: l'). split; [discriminate|]. reflexivity.
Qed.

Lemma split_slash_nonempty : forall s, split_slash s <> [].
Proof.
  induction s as [|c s IH]; cbn; [discriminate|]. destruct (c =? 47); [discriminate|].
  destruct (split_slash s); discriminate.
Qed.

Lemma bad_elem_normal : forall e, bad_elem e = false -> normal e.
Proof.
  intros e H. unfold bad_elem in H. apply orb_false_iff in H. destruct H as [H H3].
  apply orb_false_iff in H. destruct H as [H1 H2]. repeat split.
  - intro E. subst. discriminate.
  - intro E. subst. discriminate.
  - intro E. subst. discriminate.
Qed.

Lemma rel_elems_normal : forall root n rel, valid_tar_path n = true -> relative_to root n = Some rel ->
  Forall normal (split_slash rel).
Proof.
  intros root n rel Hv Hr. unfold relative_to in Hr.
  destruct (prefix_b (root ++ [47]) n) eqn:P; [|discriminate]. inversion Hr; subst rel. clear Hr.
  apply prefix_b_spec in P. unfold valid_tar_path in Hv.
  apply andb_true_iff in Hv. destruct Hv as [_ Hv]. apply negb_true_iff in Hv.
  set (rel := skipn (List.length (root ++ [47])) n) in *.
  rewrite <- app_assoc in P. cbn [app] in P.
  destruct (split_slash_suffix root rel) as (l & _ & E). rewrite <- P in E.
  assert (HF : Forall normal (split_slash n)).
  { apply Forall_forall. intros e He. apply bad_elem_normal.
    destruct (bad_elem e) eqn:B; [|reflexivity]. exfalso.
    assert (existsb bad_elem (split_slash n) = true) by (apply existsb_exists; exists e; auto). congruence. }
  rewrite E in HF. apply Forall_app in HF. tauto.
Qed.

(** ---------- outputPath hands out lexical paths that are physical ---------- *)
Lemma real_last_dir : forall f p, real f p -> is_dir (get f p) = true.
Proof. intros f p H. eapply prefix_real_dir; [exact H|apply under_refl]. Qed.

Lemma real_snoc : forall f p c, real f p -> normal c -> is_dir (get f (p ++ [c])) = true -> real f (p ++ [c]).
Proof. intros f p c Hr Hn Hd. unfold real. apply real_from_snoc. cbn [app]. auto. Qed.

Lemma lstat_lex : forall f p c i, real f p -> normal c -> lstat f (p ++ [c]) = Ok i -> get f (p ++ [c]) = Some i.
Proof.
  intros f p c i Hr Hn H. unfold lstat in H. destruct (res_nofollow f (p ++ [c])) as [q|x] eqn:Rq; [|discriminate].
  apply res_nofollow_lex in Rq; [|assumption|assumption]. subst q.
  destruct (get f (p ++ [c])); [inversion H; reflexivity|discriminate].
Qed.

Lemma output_path_ok : forall f elems cur L, real f cur -> Forall normal elems -> elems <> [] ->
  output_path f cur elems = Some L ->
  exists s c, L = (cur ++ s) ++ [c] /\ normal c /\ real f (cur ++ s).
Proof.
  intros f elems. induction elems as [|e rest IH]; intros cur L Hr HF Hne H; [contradiction|].
  inversion HF as [|? ? Hn HF']; subst. cbn [output_path] in H.
  destruct (negb (valid_component e)); [discriminate|].
  destruct rest as [|e2 rest'].
  - inversion H; subst. exists [], e. rewrite app_nil_r. auto.
  - cbn iota in H.
    match type of H with context [lstat ?a ?b] => destruct (lstat a b) as [i|x] eqn:Ls; [|discriminate H] end.
    destruct (i_kind i) eqn:K; try discriminate H.
    assert (G : get f (cur ++ [e]) = Some i) by (apply lstat_lex; assumption).
    assert (Hr' : real f (cur ++ [e])).
    { apply real_snoc; try assumption. rewrite G. destruct i as [k m mt]. cbn in K. subst k. reflexivity. }
    destruct (IH (cur ++ [e]) L Hr' HF' ltac:(discriminate) H) as (s & c & EL & Hc & Hrs).
    exists (e :: s), c.
    replace ((cur ++ [e]) ++ s) with (cur ++ e :: s) in * by (rewrite <- app_assoc; reflexivity).
    split; [exact EL|]. split; [exact Hc|exact Hrs].
Qed.

(** ---------- MkdirAll / extractDir ---------- *)
Lemma stat_real : forall f p i, real f p -> stat f p = Ok i -> get f p = Some i.
Proof.
  intros f p i Hr H. unfold stat in H. destruct (res_follow f p) as [q|x] eqn:Rq; [|discriminate].
  unfold res_follow in Rq. apply res_dir_lex in Rq; [|exact Hr]. subst q.
  destruct (get f p); [inversion H; reflexivity|discriminate].
Qed.

Lemma mkdir_all_real : forall m f rp g, real f (rev rp) -> mkdir_all_rev f rp m = Ok g -> g = f.
Proof.
  intros m f rp. induction rp as [|c rp IH]; intros g Hr H.
  - cbn [mkdir_all_rev] in H. destruct (stat f (rev [])) as [i|x]; [|discriminate].
    destruct (i_kind i); inversion H; reflexivity.
  - cbn [mkdir_all_rev] in H. destruct (stat f (rev (c :: rp))) as [i|x] eqn:St.
    + destruct (i_kind i); inversion H; reflexivity.
    + assert (Hrp : real f (rev rp)).
      { eapply prefix_real; [exact Hr|]. cbn [rev]. apply under_app. }
      destruct (mkdir_all_rev f rp m) as [f'|x'] eqn:Rec; [|discriminate].
      specialize (IH f' Hrp eq_refl). subst f'.
      destruct (mkdir f (rev (c :: rp)) m) as [f''|x''] eqn:Mk.
      * exfalso. apply mkdir_changes in Mk. destruct Mk as (q & Rq & _ & Gq & _).
        unfold res_nofollow in Rq. apply res_dir_lex in Rq; [|exact Hr]. subst q.
        pose proof (real_last_dir _ _ Hr) as Hd. rewrite Gq in Hd. discriminate.
      * destruct (lstat f (rev (c :: rp))) as [[k mm mt]|]; [|discriminate].
        destruct k; inversion H; reflexivity.
Qed.

Lemma under_snoc_false : forall (p : path) c, under (p ++ [c]) p = false.
Proof. intros. apply under_longer. rewrite app_length. cbn. lia. Qed.

Lemma mkdir_all_ok : forall f p c m f1, real f p -> normal c -> mkdir_all f (p ++ [c]) m = Ok f1 ->
  f1 = f \/ (changes_at (p ++ [c]) f f1 /\ get f (p ++ [c]) = None).
Proof.
  intros f p c m f1 Hr Hn Mk.
  unfold mkdir_all in Mk. rewrite rev_app_distr in Mk. cbn [rev app] in Mk. cbn [mkdir_all_rev] in Mk.
  replace (rev (c :: rev p)) with (p ++ [c]) in Mk by (cbn [rev]; rewrite rev_involutive; reflexivity).
  destruct (stat f (p ++ [c])) as [i|x] eqn:St.
  - destruct (i_kind i); inversion Mk; auto.
  - destruct (mkdir_all_rev f (rev p) m) as [f'|x'] eqn:Rec; [|discriminate].
    apply mkdir_all_real in Rec; [|rewrite rev_involutive; exact Hr]. subst f'.
    destruct (mkdir f (p ++ [c]) m) as [f''|x''] eqn:Mk2.
    + inversion Mk; subst f''. right. apply mkdir_changes in Mk2. destruct Mk2 as (q & Rq & Hc & Gq & _).
      apply res_nofollow_lex in Rq; [|assumption|assumption]. subst q. auto.
    + destruct (lstat f (p ++ [c])) as [[k mm mt]|]; [|discriminate]. destruct k; inversion Mk; auto.
Qed.

Lemma extract_dir_ok : forall f p c g, real f p -> normal c -> extract_dir f (p ++ [c]) = Ok g ->
  (g = f \/ (changes_at (p ++ [c]) f g /\ get f (p ++ [c]) = None)) /\
  real g p /\ is_dir (get g (p ++ [c])) = true.
Proof.
  intros f p c g Hr Hn H. unfold extract_dir in H.
  destruct (mkdir_all f (p ++ [c]) 493) as [f1|x] eqn:Mk; [|discriminate].
  pose proof (mkdir_all_ok _ _ _ _ _ Hr Hn Mk) as Hcase.
  assert (Hr1 : real f1 p).
  { destruct Hcase as [E|[Hc _]]; [subst; exact Hr|].
    eapply real_from_changes; [exact Hc| |exact Hr]. cbn [app]. apply under_snoc_false. }
  destruct (lstat f1 (p ++ [c])) as [i|x] eqn:Ls; [|discriminate].
  apply lstat_lex in Ls; [|assumption|assumption].
  destruct (i_kind i) eqn:K; try discriminate. inversion H; subst g.
  split; [exact Hcase|]. split; [exact Hr1|]. rewrite Ls. destruct i as [k m mt]. cbn in K. subst k. reflexivity.
Qed.

Lemma remove_if_exists_ok : forall f p c g, real f p -> normal c -> remove_if_exists f (p ++ [c]) = Ok g ->
  g = f \/ (changes_at (p ++ [c]) f g /\ get g (p ++ [c]) = None /\
            (is_dir (get f (p ++ [c])) = true -> has_children f (p ++ [c]) = false)).
Proof.
  intros f p c g Hr Hn H. unfold remove_if_exists in H.
  destruct (remove f (p ++ [c])) as [f1|x] eqn:Rm.
  - inversion H; subst f1. right. apply remove_changes in Rm. destruct Rm as (q & Rq & Hc & Gq & Hch).
    apply res_nofollow_lex in Rq; [|assumption|assumption]. subst q. auto.
  - destruct x; inversion H; auto.
Qed.

(** ---------- extractFile / extractSymlink as traces of confined steps ---------- *)
(** a file or symlink extraction at [L]: nothing; or an optional removal of [L], then
    either nothing more (error) or a creation at [L] followed by metadata changes of [L] *)
Definition trace (L : path) (f f' : fs) (er : bool) : Prop :=
  (f' = f /\ er = true) \/
  exists f1,
    (f1 = f \/ (changes_at L f f1 /\ get f1 L = None /\
                (is_dir (get f L) = true -> has_children f L = false))) /\
    ((f' = f1 /\ er = true) \/
     exists f2, changes_at L f1 f2 /\ is_dir (get f1 L) = false /\ get f2 L <> None /\ meta_only L f2 f').

Lemma real_after_removal : forall f f1 p c,
  real f p -> (f1 = f \/ (changes_at (p ++ [c]) f f1 /\ get f1 (p ++ [c]) = None /\
                          (is_dir (get f (p ++ [c])) = true -> has_children f (p ++ [c]) = false))) ->
  real f1 p.
Proof.
  intros f f1 p c Hr [E|[Hc _]]; [subst; exact Hr|].
  eapply real_from_changes; [exact Hc| |exact Hr]. cbn [app]. apply under_snoc_false.
Qed.

Lemma extract_file_trace : forall f p c e f' er, real f p -> normal c ->
  extract_file f (p ++ [c]) e = (f', er) -> trace (p ++ [c]) f f' er.
Proof.
  intros f p c e f' er Hr Hn H. unfold extract_file in H.
  destruct (remove_if_exists f (p ++ [c])) as [f1|x] eqn:Rm; [|inversion H; left; auto].
  apply remove_if_exists_ok in Rm; [|assumption|assumption]. right. exists f1. split; [exact Rm|].
  pose proof (real_after_removal _ _ _ _ Hr Rm) as Hr1.
  destruct (put_file f1 (p ++ [c]) (e_content e)) as [f2|x] eqn:Pf; [|inversion H; left; auto].
  right. exists f2. apply put_file_changes in Pf. destruct Pf as (q & Rq & Hc & Hnd & Gq).
  apply res_nofollow_lex in Rq; [|assumption|assumption]. subst q.
  split; [exact Hc|]. split; [exact Hnd|]. split; [rewrite Gq; discriminate|].
  assert (Hr2 : real f2 p).
  { eapply real_from_changes; [exact Hc| |exact Hr1]. cbn [app]. apply under_snoc_false. }
  replace f' with (fst (update_meta f2 (p ++ [c]) (e_mode e) (e_mtime e))) by (rewrite H; reflexivity).
  apply update_meta_ok; try assumption.
  intros i tg Hi Hk. rewrite Gq in Hi. inversion Hi; subst i. discriminate.
Qed.

Lemma extract_symlink_trace : forall f p c e f' er, real f p -> normal c ->
  extract_symlink f (p ++ [c]) e = (f', er) -> trace (p ++ [c]) f f' er.
Proof.
  intros f p c e f' er Hr Hn H. unfold extract_symlink in H.
  destruct (remove_if_exists f (p ++ [c])) as [f1|x] eqn:Rm; [|inversion H; left; auto].
  apply remove_if_exists_ok in Rm; [|assumption|assumption]. right. exists f1. split; [exact Rm|].
  pose proof (real_after_removal _ _ _ _ Hr Rm) as Hr1.
  destruct (symlink f1 (e_link e) (p ++ [c])) as [f2|x] eqn:Sl; [|inversion H; left; auto].
  right. exists f2. apply symlink_changes in Sl. destruct Sl as (q & Rq & Hc & Gn & Gq).
  apply res_nofollow_lex in Rq; [|assumption|assumption]. subst q.
  split; [exact Hc|]. split; [rewrite Gn; reflexivity|]. split; [exact Gq|].
  assert (Hr2 : real f2 p).
  { eapply real_from_changes; [exact Hc| |exact Hr1]. cbn [app]. apply under_snoc_false. }
  destruct (e_mtime e) as [tm|]; [|inversion H; apply meta_only_refl].
  destruct (utimens f2 (p ++ [c]) tm) as [f3|x] eqn:Ut; inversion H; subst; [|apply meta_only_refl].
  apply utimens_changes in Ut. destruct Ut as (q & Rq & Hm & _).
  apply res_nofollow_lex in Rq; [|assumption|assumption]. subst q. exact Hm.
Qed.

Section Main.
  Variable t : path.
  Hypothesis t_ne : t <> [].
  Variable f0 : fs.

  Lemma trace_agree : forall L f f' er, under t L = true -> trace L f f' er -> agree t f f'.
  Proof.
    intros L f f' er HL [[E _]|(f1 & H1 & H2)]; [subst; apply agree_refl|].
    assert (A1 : agree t f f1).
    { destruct H1 as [E|[Hc _]]; [subst; apply agree_refl|]. eapply changes_agree; eassumption. }
    destruct H2 as [[E _]|(f2 & Hc & _ & _ & Hm)]; [subst; exact A1|].
    eapply agree_trans; [exact A1|]. eapply agree_trans.
    - eapply changes_agree; eassumption.
    - eapply meta_agree; eassumption.
  Qed.

  Definition except (q : path) (x : path) : Prop := x <> q.

  Lemma inv_create : forall f rds q g,
    inv t f0 (except q) f rds -> under t q = true -> (List.length t < List.length q)%nat ->
    changes_at q f g -> is_dir (get f q) = false -> get g q <> None ->
    inv t f0 always g rds.
  Proof.
    intros f rds q g (A & R & D) Hq Hlen Hc Hnd Hg. split; [|split].
    - eapply agree_trans; [exact A|]. eapply changes_agree; eassumption.
    - eapply real_from_changes; [exact Hc| |exact R]. cbn [app]. apply under_longer. exact Hlen.
    - eapply Forall_impl; [|exact D]. intros d (p & c & E & U & N & Rp & X).
      exists p, c. split; [exact E|]. split; [exact U|]. split; [exact N|]. split.
      + eapply real_from_changes; [exact Hc| |exact Rp]. cbn [app].
        destruct (under q p) eqn:Up; [|reflexivity].
        pose proof (prefix_real_dir _ _ _ Rp Up) as Hd. congruence.
      + intros _. destruct (list_eq_dec (list_eq_dec Z.eq_dec) (p ++ [c]) q) as [Eq|Ne].
        * rewrite Eq. exact Hg.
        * eapply exists_changes; [exact Hc|exact Ne|]. apply X. exact Ne.
  Qed.

  Lemma inv_remove : forall f rds q g,
    inv t f0 always f rds -> under t q = true -> (List.length t < List.length q)%nat ->
    changes_at q f g -> (is_dir (get f q) = true -> has_children f q = false) ->
    inv t f0 (except q) g rds.
  Proof.
    intros f rds q g (A & R & D) Hq Hlen Hc Hch. split; [|split].
    - eapply agree_trans; [exact A|]. eapply changes_agree; eassumption.
    - eapply real_from_changes; [exact Hc| |exact R]. cbn [app]. apply under_longer. exact Hlen.
    - eapply Forall_impl; [|exact D]. intros d (p & c & E & U & N & Rp & X).
      exists p, c. split; [exact E|]. split; [exact U|]. split; [exact N|]. split.
      + eapply real_from_changes; [exact Hc| |exact Rp]. cbn [app].
        destruct (under q p) eqn:Up; [|reflexivity]. exfalso.
        pose proof (prefix_real_dir _ _ _ Rp Up) as Hd. specialize (Hch Hd).
        apply under_spec in Up. destruct Up as [s Hs].
        assert (Hex : exists c', get f (q ++ [c']) <> None).
        { destruct s as [|e s'].
          - rewrite app_nil_r in Hs. subst p. exists c. apply X. exact I.
          - exists e. assert (Hu : under (q ++ [e]) p = true).
            { apply under_spec. exists s'. rewrite Hs, <- app_assoc. reflexivity. }
            pose proof (prefix_real_dir _ _ _ Rp Hu) as Hd'. intro G. rewrite G in Hd'. discriminate. }
        destruct Hex as [c' Hc']. apply has_children_intro in Hc'. congruence.
      + intro Hx. eapply exists_changes; [exact Hc|exact Hx|]. apply X. exact I.
  Qed.

  Lemma trace_inv : forall L f f' er rds,
    under t L = true -> (List.length t < List.length L)%nat -> trace L f f' er ->
    inv t f0 always f rds ->
    inv t f0 never f' rds /\ (er = false -> inv t f0 always f' rds).
  Proof.
    intros L f f' er rds HL Hlen Htr Hi.
    assert (W : forall g, inv t f0 always g rds -> inv t f0 never g rds).
    { intros g Hg. eapply inv_weaken; [|exact Hg]. intros x []. }
    destruct Htr as [[E Eer]|(f1 & H1 & H2)]; [subst; split; [apply W; exact Hi|discriminate]|].
    assert (I1 : inv t f0 (except L) f1 rds).
    { destruct H1 as [E|(Hc & _ & Hch)].
      - subst. eapply inv_weaken; [|exact Hi]. intros x _. exact I.
      - eapply inv_remove; eassumption. }
    destruct H2 as [[E Eer]|(f2 & Hc & Hnd & Hg & Hm)].
    - subst. split; [|discriminate]. eapply inv_weaken; [|exact I1]. intros x [].
    - pose proof (inv_create _ _ _ _ I1 HL Hlen Hc Hnd Hg) as I2.
      pose proof (inv_meta t t_ne f0 always f2 rds L f' I2 HL Hm) as I3.
      split; [apply W; exact I3|intros _; exact I3].
  Qed.

  Lemma under_target : forall s c, under t ((t ++ s) ++ [c]) = true.
  Proof. intros. rewrite <- app_assoc. apply under_app. Qed.
  Lemma longer_target : forall s (c : comp), (List.length t < List.length ((t ++ s) ++ [c]))%nat.
  Proof. intros. rewrite !app_length. cbn. lia. Qed.

  (** deferUpdate *)
  Lemma defer_update_ok : forall f rds p c e f' rds' er,
    inv t f0 always f rds -> under t (p ++ [c]) = true -> normal c -> real f p ->
    get f (p ++ [c]) <> None ->
    defer_update false f rds (p ++ [c]) e = (f', rds', er) -> inv t f0 always f' rds'.
  Proof.
    intros f rds p c e f' rds' er Hi HL Hn Hr Hg H. unfold defer_update in H.
    assert (Knew : forall g rs, inv t f0 always g rs -> real g p -> get g (p ++ [c]) <> None ->
                   inv t f0 always g ({| d_path := p ++ [c]; d_mode := e_mode e; d_mtime := e_mtime e |} :: rs)).
    { intros g rs (A & R & D) Hrg Hgg. split; [exact A|]. split; [exact R|]. constructor; [|exact D].
      exists p, c. cbn [d_path]. auto. }
    destruct (e_mode e =? 0) eqn:Em; destruct (e_mtime e) as [tm|] eqn:Et;
      try (inversion H; subst; exact Hi).
    all: destruct rds as [|m older]; [inversion H; subst; apply Knew; assumption|].
    all: match type of H with (if ?b then _ else _) = _ => destruct b end;
         [|inversion H; subst; apply Knew; assumption].
    all: pose proof Hi as (A & R & D); inversion D as [|? ? Hm Hold]; subst;
         pose proof (apply_deferred_ok t f always m Hm) as Hmeta;
         pose proof (inv_meta t t_ne f0 always f (m :: older) _ _ Hi (dpath_under t _ _ _ Hm) Hmeta) as Hi';
         destruct (apply_deferred false f m) as [g erm]; cbn [fst] in *; inversion H; subst;
         destruct er; [exact Hi'|];
         apply Knew; [destruct Hi' as (A' & R' & D'); split; [exact A'|]; split; [exact R'|]; inversion D'; assumption
                     |eapply real_from_meta; eassumption|eapply exists_meta; eassumption].
  Qed.
End Main.

Section Main2.
  Variable t : path.
  Hypothesis t_ne : t <> [].
  Variable f0 : fs.

  Lemma inv_never : forall g rds, inv t f0 always g rds -> inv t f0 never g rds.
  Proof. intros g rds H. eapply inv_weaken; [|exact H]. intros x []. Qed.

  (** one entry of the loop *)
  Lemma step_ok : forall root f rds e f' rds' er,
    inv t f0 always f rds -> step false t root f rds e = (f', rds', er) ->
    inv t f0 never f' rds' /\ (er = false -> inv t f0 always f' rds').
  Proof.
    intros root f rds e f' rds' er Hi H. unfold step in H.
    assert (Same : (f, rds, true) = (f', rds', er) -> inv t f0 never f' rds' /\ (er = false -> inv t f0 always f' rds')).
    { intro E. inversion E; subst. split; [apply inv_never; exact Hi|discriminate]. }
    destruct (negb (valid_tar_path (e_name e))) eqn:V; [apply Same; exact H|].
    apply negb_false_iff in V.
    destruct (relative_to root (e_name e)) as [rel|] eqn:Rel; [|apply Same; exact H].
    destruct (output_path f t (split_slash rel)) as [L|] eqn:OP; [|apply Same; exact H].
    pose proof Hi as (A & R & D).
    apply output_path_ok in OP; [|exact R|eapply rel_elems_normal; eassumption|apply split_slash_nonempty].
    destruct OP as (s & c & EL & Hn & Hrs). subst L.
    pose proof (under_target t s c) as HU. pose proof (longer_target t s c) as HLen.
    destruct (e_type e).
    - (* directory *)
      destruct (extract_dir f ((t ++ s) ++ [c])) as [f1|x] eqn:Ed; [|apply Same; exact H].
      apply extract_dir_ok in Ed; [|assumption|assumption]. destruct Ed as (Hcase & Hr1 & Hd1).
      assert (I1 : inv t f0 always f1 rds).
      { destruct Hcase as [E|[Hc Gn]]; [subst; exact Hi|].
        eapply (inv_create t t_ne f0 f rds ((t ++ s) ++ [c]) f1); try eassumption.
        - eapply inv_weaken; [|exact Hi]. intros x _. exact I.
        - rewrite Gn. reflexivity.
        - intro G. rewrite G in Hd1. discriminate. }
      assert (Hg1 : get f1 ((t ++ s) ++ [c]) <> None) by (intro G; rewrite G in Hd1; discriminate).
      pose proof (defer_update_ok t t_ne f0 f1 rds (t ++ s) c e f' rds' er I1 HU Hn Hr1 Hg1 H) as I2.
      split; [apply inv_never; exact I2|intros _; exact I2].
    - (* regular file *)
      destruct (extract_file f ((t ++ s) ++ [c]) e) as [f1 er1] eqn:Ef. inversion H; subst.
      apply extract_file_trace in Ef; [|assumption|assumption].
      eapply trace_inv; eassumption.
    - (* symlink *)
      destruct (extract_symlink f ((t ++ s) ++ [c]) e) as [f1 er1] eqn:Es. inversion H; subst.
      apply extract_symlink_trace in Es; [|assumption|assumption].
      eapply trace_inv; eassumption.
    - apply Same; exact H.
  Qed.

  Lemma steps_ok : forall root es f rds f' rds' er,
    inv t f0 always f rds -> steps false t root f rds es = (f', rds', er) -> inv t f0 never f' rds'.
  Proof.
    intros root es. induction es as [|e es IH]; intros f rds f' rds' er Hi H.
    - cbn in H. inversion H; subst. apply inv_never. exact Hi.
    - cbn [steps] in H. destruct (step false t root f rds e) as [[f1 rds1] er1] eqn:St.
      apply step_ok in St; [|exact Hi]. destruct St as [Hn Ha].
      destruct er1.
      + inversion H; subst. exact Hn.
      + eapply IH; [apply Ha; reflexivity|exact H].
  Qed.

  (** the target's own path: its directory is reached through real directories *)
  Variable p0 : path.
  Variable c0 : comp.
  Hypothesis t_split : t = p0 ++ [c0].
  Hypothesis c0_normal : normal c0.
  Hypothesis p0_real : real f0 p0.

  Lemma under_self : under t (p0 ++ [c0]) = true.
  Proof. rewrite <- t_split. apply under_refl. Qed.

  Theorem extract_agree : forall es, agree t f0 (fst (extract false f0 t es)).
  Proof.
    intros es. unfold extract. destruct es as [|h rest]; [apply agree_refl|].
    destruct (memb 47 (e_name h) || bad_elem (e_name h)) eqn:RootBad; [apply agree_refl|].
    apply orb_false_iff in RootBad. destruct RootBad as [_ RootOk]. apply bad_elem_normal in RootOk.
    destruct (e_type h) eqn:Ty.
    - (* root directory *)
      destruct (extract_dir f0 t) as [f1|x] eqn:Ed.
      + rewrite t_split in Ed. apply extract_dir_ok in Ed; [|assumption|assumption].
        rewrite <- t_split in Ed. destruct Ed as (Hcase & Hr1 & Hd1).
        assert (A1 : agree t f0 f1).
        { destruct Hcase as [E|[Hc _]]; [subst f1; apply agree_refl|].
          eapply changes_agree; [exact t_ne|apply under_refl|exact Hc]. }
        assert (I1 : inv t f0 always f1 []).
        { split; [exact A1|]. split; [|constructor]. rewrite t_split. apply real_snoc; try assumption.
          rewrite <- t_split. exact Hd1. }
        assert (Hg1 : get f1 t <> None) by (intro G; rewrite G in Hd1; discriminate).
        destruct (defer_update false f1 [] t h) as [[f2 rds] er] eqn:Du.
        assert (I2 : inv t f0 always f2 rds).
        { rewrite t_split in Du, Hg1.
          eapply (defer_update_ok t t_ne f0 f1 [] p0 c0); try eassumption. apply under_self. }
        destruct er.
        * cbn [fst]. pose proof (do_updates_ok t t_ne f0 rds never f2 (inv_never _ _ I2)) as (A & _). exact A.
        * destruct (steps false t (e_name h) f2 rds rest) as [[f3 rds3] er3] eqn:Ss.
          apply steps_ok in Ss; [|exact I2]. cbn [fst].
          pose proof (do_updates_ok t t_ne f0 rds3 never f3 Ss) as (A & _). exact A.
      + cbn [fst]. unfold extract_dir_state.
        destruct (mkdir_all f0 t 493) as [f1|y] eqn:Mk; [|apply agree_refl].
        rewrite t_split in Mk. apply mkdir_all_ok in Mk; [|assumption|assumption]. rewrite <- t_split in Mk.
        destruct Mk as [E|[Hc _]]; [subst f1; apply agree_refl|].
        eapply changes_agree; [exact t_ne|apply under_refl|exact Hc].
    - (* root file *)
      destruct (lstat f0 t) as [i|x] eqn:Ls.
      + rewrite t_split in Ls. apply lstat_lex in Ls; [|assumption|assumption]. rewrite <- t_split in Ls.
        destruct (i_kind i) eqn:K.
        * (* into the existing directory *)
          cbn [andb]. destruct (negb (valid_component (e_name h))); [apply agree_refl|].
          assert (Rt : real f0 t).
          { rewrite t_split. apply real_snoc; try assumption. rewrite <- t_split, Ls.
            destruct i as [k m mt]. cbn in K. subst k. reflexivity. }
          destruct (extract_file f0 (t ++ [e_name h]) h) as [f1 er] eqn:Ef.
          apply extract_file_trace in Ef; [|assumption|assumption].
          apply (trace_agree t t_ne) in Ef; [|apply under_app].
          destruct er; [exact Ef|]. destruct rest; exact Ef.
        * cbn [andb]. destruct (extract_file f0 t h) as [f1 er] eqn:Ef. rewrite t_split in Ef.
          apply extract_file_trace in Ef; [|assumption|assumption].
          apply (trace_agree t t_ne) in Ef; [|apply under_self].
          destruct er; [exact Ef|]. destruct rest; exact Ef.
        * cbn [andb]. destruct (extract_file f0 t h) as [f1 er] eqn:Ef. rewrite t_split in Ef.
          apply extract_file_trace in Ef; [|assumption|assumption].
          apply (trace_agree t t_ne) in Ef; [|apply under_self].
          destruct er; [exact Ef|]. destruct rest; exact Ef.
      + destruct x; try apply agree_refl.
        cbn [andb]. destruct (extract_file f0 t h) as [f1 er] eqn:Ef. rewrite t_split in Ef.
        apply extract_file_trace in Ef; [|assumption|assumption].
        apply (trace_agree t t_ne) in Ef; [|apply under_self].
        destruct er; [exact Ef|]. destruct rest; exact Ef.
    - (* root symlink *)
      destruct (lstat f0 t) as [i|x] eqn:Ls.
      + rewrite t_split in Ls. apply lstat_lex in Ls; [|assumption|assumption]. rewrite <- t_split in Ls.
        destruct (i_kind i) eqn:K.
        * cbn [andb]. destruct (negb (valid_component (e_name h))); [apply agree_refl|].
          assert (Rt : real f0 t).
          { rewrite t_split. apply real_snoc; try assumption. rewrite <- t_split, Ls.
            destruct i as [k m mt]. cbn in K. subst k. reflexivity. }
          destruct (extract_symlink f0 (t ++ [e_name h]) h) as [f1 er] eqn:Ef.
          apply extract_symlink_trace in Ef; [|assumption|assumption].
          apply (trace_agree t t_ne) in Ef; [|apply under_app].
          destruct er; [exact Ef|]. destruct rest; exact Ef.
        * cbn [andb]. destruct (extract_symlink f0 t h) as [f1 er] eqn:Ef. rewrite t_split in Ef.
          apply extract_symlink_trace in Ef; [|assumption|assumption].
          apply (trace_agree t t_ne) in Ef; [|apply under_self].
          destruct er; [exact Ef|]. destruct rest; exact Ef.
        * cbn [andb]. destruct (extract_symlink f0 t h) as [f1 er] eqn:Ef. rewrite t_split in Ef.
          apply extract_symlink_trace in Ef; [|assumption|assumption].
          apply (trace_agree t t_ne) in Ef; [|apply under_self].
          destruct er; [exact Ef|]. destruct rest; exact Ef.
      + destruct x; try apply agree_refl.
        cbn [andb]. destruct (extract_symlink f0 t h) as [f1 er] eqn:Ef. rewrite t_split in Ef.
        apply extract_symlink_trace in Ef; [|assumption|assumption].
        apply (trace_agree t t_ne) in Ef; [|apply under_self].
        destruct er; [exact Ef|]. destruct rest; exact Ef.
    - apply agree_refl.
  Qed.
End Main2.

(** ---------- from agreement to the executable check ---------- *)
Lemma kind_eqb_refl : forall k, kind_eqb k k = true.
Proof. intros [|c|s]; cbn; [reflexivity|apply Z.eqb_refl|apply bytes_eqb_refl]. Qed.

Lemma oinode_eqb_refl : forall o, oinode_eqb o o = true.
Proof.
  intros [[k m mt]|]; cbn; [|reflexivity]. unfold inode_eqb. cbn.
  rewrite kind_eqb_refl, Z.eqb_refl. destruct mt; cbn; [apply Z.eqb_refl|reflexivity].
Qed.

Lemma same_km_bool : forall a b, same_km a b -> same_kind_mode a b = true.
Proof.
  intros [[k m mt]|] [[k' m' mt']|] H; cbn in *; try contradiction; [|reflexivity].
  destruct H as [H1 H2]. subst. rewrite kind_eqb_refl, Z.eqb_refl. reflexivity.
Qed.

Lemma agree_confined : forall t f g, agree t f g -> confined t f g = true.
Proof.
  intros t f g [A1 A2]. unfold confined, same_outside. apply forallb_forall. intros e _. cbn zeta.
  destruct (under t (fst e)) eqn:U; [reflexivity|]. cbn [orb].
  destruct (path_eqb (fst e) (parent t)) eqn:P.
  - apply path_eqb_eq in P. rewrite P. apply same_km_bool. exact A2.
  - rewrite (A1 (fst e) U); [apply oinode_eqb_refl|].
    intro E. rewrite E, path_eqb_refl in P. discriminate.
Qed.

(** Extraction (with the repaired deferred update) of ANY entry list into ANY file
    system never changes an object that is not at or below the target [t], provided
    the directory that is to hold the target is reached through real directories
    (no symbolic link in the lexical path of the target's parent) and the target's
    own name is an ordinary component. *)
Theorem extract_confined : forall f0 p0 c0 es,
  normal c0 -> real f0 p0 ->
  confined (p0 ++ [c0]) f0 (fst (extract false f0 (p0 ++ [c0]) es)) = true.
Proof.
  intros f0 p0 c0 es Hn Hr. apply agree_confined.
  apply (extract_agree (p0 ++ [c0]) ltac:(destruct p0; discriminate) f0 p0 c0 eq_refl Hn Hr).
Qed.

(** the same, spelled out: every path that is not at or below the target and is not
    the directory holding it has exactly the inode it had; that directory keeps its
    kind and mode *)
Theorem extract_outside_unchanged : forall f0 p0 c0 es q,
  normal c0 -> real f0 p0 -> under (p0 ++ [c0]) q = false ->
  (q <> p0 -> get (fst (extract false f0 (p0 ++ [c0]) es)) q = get f0 q) /\
  (q = p0 -> same_km (get f0 q) (get (fst (extract false f0 (p0 ++ [c0]) es)) q)).
Proof.
  intros f0 p0 c0 es q Hn Hr Hu.
  destruct (extract_agree (p0 ++ [c0]) ltac:(destruct p0; discriminate) f0 p0 c0 eq_refl Hn Hr es) as [A1 A2].
  rewrite parent_snoc in *. split.
  - intro Hq. apply A1; assumption.
  - intro Hq. subst q. exact A2.
Qed.
