(** C38 — proofs: what path resolution and the file-system operations of
    [lib/FsModel.v] can touch, and that the extractor model [model/M_C38.v] (with
    the repaired deferred update) never changes anything outside its target. *)
From Coq Require Import String List ZArith Bool Lia.
From V Require Import lib.Verdict lib.FsModel model.M_C38.
Import ListNotations.
Open Scope Z_scope.

(* the fuel constant must never be unfolded by tactics *)
Opaque STEPS.

(** ---------- byte strings and paths ---------- *)
Lemma bytes_eqb_refl : forall a, bytes_eqb a a = true.
Proof. induction a as [|x a IH]; cbn; [reflexivity|]. rewrite Z.eqb_refl, IH. reflexivity. Qed.

Lemma bytes_eqb_eq : forall a b, bytes_eqb a b = true <-> a = b.
Proof.
  induction a as [|x a IH]; intros [|y b]; cbn; split; intro H; try reflexivity; try discriminate.
  - apply andb_true_iff in H. destruct H as [H1 H2]. apply Z.eqb_eq in H1. apply IH in H2. congruence.
  - inversion H; subst. rewrite Z.eqb_refl. cbn. apply bytes_eqb_refl.
Qed.

Lemma path_eqb_refl : forall a, path_eqb a a = true.
Proof. induction a as [|x a IH]; cbn; [reflexivity|]. rewrite bytes_eqb_refl. exact IH. Qed.

Lemma path_eqb_eq : forall a b, path_eqb a b = true <-> a = b.
Proof.
  induction a as [|x a IH]; intros [|y b]; cbn; split; intro H; try reflexivity; try discriminate.
  - apply andb_true_iff in H. destruct H as [H1 H2]. apply bytes_eqb_eq in H1. apply IH in H2. congruence.
  - inversion H; subst. rewrite bytes_eqb_refl. cbn. apply path_eqb_refl.
Qed.

Lemma path_eqb_neq : forall a b, a <> b -> path_eqb a b = false.
Proof. intros a b H. destruct (path_eqb a b) eqn:E; [apply path_eqb_eq in E; contradiction|reflexivity]. Qed.

Lemma path_eqb_sym : forall a b, path_eqb a b = path_eqb b a.
Proof.
  intros a b. destruct (path_eqb a b) eqn:E.
  - apply path_eqb_eq in E. subst. symmetry. apply path_eqb_refl.
  - destruct (path_eqb b a) eqn:E'; [|reflexivity]. apply path_eqb_eq in E'. subst.
    rewrite path_eqb_refl in E. discriminate.
Qed.

Lemma under_refl : forall p, under p p = true.
Proof. unfold under. induction p as [|a p IH]; cbn; [reflexivity|]. rewrite bytes_eqb_refl. exact IH. Qed.

Lemma under_app : forall p s, under p (p ++ s) = true.
Proof. unfold under. induction p as [|a p IH]; intro s; cbn; [reflexivity|]. rewrite bytes_eqb_refl. apply IH. Qed.

Lemma under_spec : forall p q, under p q = true <-> exists s, q = p ++ s.
Proof.
  unfold under. induction p as [|a p IH]; intros q; cbn.
  - split; [intros _; exists q; reflexivity|reflexivity].
  - destruct q as [|b q]; [split; [discriminate|intros [s Hs]; discriminate]|].
    split.
    + intro H. apply andb_true_iff in H. destruct H as [H1 H2]. apply bytes_eqb_eq in H1.
      apply IH in H2. destruct H2 as [s Hs]. exists s. subst. reflexivity.
    + intros [s Hs]. inversion Hs; subst. rewrite bytes_eqb_refl. cbn. apply IH. exists s. reflexivity.
Qed.

Lemma parent_snoc : forall (p : path) c, parent (p ++ [c]) = p.
Proof. intros. unfold parent. apply removelast_last. Qed.

(** ---------- the finite map ---------- *)
Lemma get_del : forall f p q, get (del f p) q = if path_eqb q p then None else get f q.
Proof.
  induction f as [|[r i] f IH]; intros p q; cbn [del get].
  - destruct (path_eqb q p); reflexivity.
  - destruct (path_eqb p r) eqn:E.
    + apply path_eqb_eq in E. subst r. rewrite IH. destruct (path_eqb q p); reflexivity.
    + cbn [get]. rewrite IH. destruct (path_eqb q r) eqn:E2; [|reflexivity].
      apply path_eqb_eq in E2. subst r. rewrite path_eqb_sym, E. reflexivity.
Qed.

Lemma get_set : forall f p i q, get (set f p i) q = if path_eqb q p then Some i else get f q.
Proof.
  intros. unfold set. cbn [get]. destruct (path_eqb q p) eqn:E; [reflexivity|].
  rewrite get_del, E. reflexivity.
Qed.

Definition same_km (a b : option inode) : Prop :=
  match a, b with
  | Some x, Some y => i_kind x = i_kind y /\ i_mode x = i_mode y
  | None, None => True
  | _, _ => False
  end.

Lemma same_km_refl : forall a, same_km a a.
Proof. intros [x|]; cbn; auto. Qed.
Lemma same_km_trans : forall a b c, same_km a b -> same_km b c -> same_km a c.
Proof. intros [x|] [y|] [z|]; cbn; intuition congruence. Qed.

Lemma get_touch_dir : forall f d q,
  (q <> d -> get (touch_dir f d) q = get f q) /\ same_km (get f q) (get (touch_dir f d) q).
Proof.
  intros f d q. unfold touch_dir. destruct (get f d) as [i|] eqn:E.
  - rewrite get_set. destruct (path_eqb q d) eqn:E2.
    + apply path_eqb_eq in E2. subst q. split; [intro H; contradiction|]. rewrite E. cbn. auto.
    + split; [reflexivity|apply same_km_refl].
  - split; [reflexivity|apply same_km_refl].
Qed.

(** ---------- what an operation may change ---------- *)
(** [g] differs from [f] at most at [q] (anything) and at [parent q] (same kind and mode) *)
Definition changes_at (q : path) (f g : fs) : Prop :=
  forall p, p <> q -> (p <> parent q -> get g p = get f p) /\ same_km (get f p) (get g p).

Lemma changes_at_refl : forall q f, changes_at q f f.
Proof. intros q f p _. split; [reflexivity|apply same_km_refl]. Qed.

Lemma changes_set_touch : forall f q i, changes_at q f (set (touch_dir f (parent q)) q i).
Proof.
  intros f q i p Hp. rewrite get_set, (path_eqb_neq _ _ Hp).
  destruct (get_touch_dir f (parent q) p) as [H1 H2]. split; [exact H1|exact H2].
Qed.

Lemma changes_del_touch : forall f q, changes_at q f (touch_dir (del f q) (parent q)).
Proof.
  intros f q p Hp. destruct (get_touch_dir (del f q) (parent q) p) as [H1 H2].
  rewrite get_del, (path_eqb_neq _ _ Hp) in H1, H2. split; assumption.
Qed.

Lemma mkdir_changes : forall f p mode g, mkdir f p mode = Ok g ->
  exists q, res_nofollow f p = Ok q /\ changes_at q f g /\ get f q = None /\ is_dir (get g q) = true.
Proof.
  intros f p mode g H. unfold mkdir in H. destruct (res_nofollow f p) as [q|e] eqn:R; [|discriminate].
  destruct (get f q) eqn:G; [discriminate|]. destruct (is_nil q); [discriminate|]. inversion H; subst.
  exists q. split; [reflexivity|]. split; [apply changes_set_touch|]. split; [exact G|].
  rewrite get_set, path_eqb_refl. reflexivity.
Qed.

Lemma symlink_changes : forall f tg p g, symlink f tg p = Ok g ->
  exists q, res_nofollow f p = Ok q /\ changes_at q f g /\ get f q = None /\ get g q <> None.
Proof.
  intros f tg p g H. unfold symlink in H. destruct (is_nil tg); [discriminate|].
  destruct (res_nofollow f p) as [q|e] eqn:R; [|discriminate].
  destruct (get f q) eqn:G; [discriminate|]. destruct (is_nil q); [discriminate|]. inversion H; subst.
  exists q. split; [reflexivity|]. split; [apply changes_set_touch|]. split; [exact G|].
  rewrite get_set, path_eqb_refl. discriminate.
Qed.

Lemma put_file_changes : forall f p c g, put_file f p c = Ok g ->
  exists q, res_nofollow f p = Ok q /\ changes_at q f g /\ is_dir (get f q) = false /\ get g q <> None.
Proof.
  intros f p c g H. unfold put_file in H. destruct (res_nofollow f p) as [q|e] eqn:R; [|discriminate].
  destruct (is_nil q); [discriminate|].
  exists q. split; [reflexivity|].
  destruct (get f q) as [[k m mt]|] eqn:G.
  - destruct k; [discriminate| |]; inversion H; subst;
      (split; [apply changes_set_touch|]; split; [reflexivity|]; rewrite get_set, path_eqb_refl; discriminate).
  - inversion H; subst. split; [apply changes_set_touch|]. split; [reflexivity|].
    rewrite get_set, path_eqb_refl. discriminate.
Qed.

Lemma remove_changes : forall f p g, remove f p = Ok g ->
  exists q, res_nofollow f p = Ok q /\ changes_at q f g /\ get g q = None /\
            (is_dir (get f q) = true -> has_children f q = false).
Proof.
  intros f p g H. unfold remove in H. destruct (res_nofollow f p) as [q|e] eqn:R; [|discriminate].
  destruct (get f q) as [i|] eqn:G; [|discriminate]. destruct (is_nil q) eqn:Nq; [discriminate|].
  assert (Hnp : parent q <> q).
  { destruct q as [|a q'] using rev_ind; [discriminate|]. rewrite parent_snoc. intro E.
    apply (f_equal (@List.length comp)) in E. rewrite app_length in E. cbn in E. lia. }
  assert (Hg : forall g', g' = touch_dir (del f q) (parent q) -> get g' q = None).
  { intros g' ->. destruct (get_touch_dir (del f q) (parent q) q) as [H1 _].
    rewrite H1 by (intro E; apply Hnp; symmetry; exact E). rewrite get_del, path_eqb_refl. reflexivity. }
  exists q. split; [reflexivity|].
  destruct i as [k m mt]. cbn [i_kind] in H. destruct k.
  - destruct (has_children f q) eqn:Hc; [discriminate|]. inversion H; subst.
    split; [apply changes_del_touch|]. split; [apply Hg; reflexivity|]. intros _. reflexivity.
  - inversion H; subst. split; [apply changes_del_touch|]. split; [apply Hg; reflexivity|].
    cbn. discriminate.
  - inversion H; subst. split; [apply changes_del_touch|]. split; [apply Hg; reflexivity|].
    cbn. discriminate.
Qed.

(** chmod and utimens keep the kind; they change exactly the resolved object *)
Definition meta_only (q : path) (f g : fs) : Prop :=
  (forall p, p <> q -> get g p = get f p) /\
  match get f q, get g q with
  | Some x, Some y => i_kind x = i_kind y
  | _, _ => False
  end.

Lemma chmod_changes : forall f p mode g, chmod f p mode = Ok g ->
  exists q, res_follow f p = Ok q /\ meta_only q f g.
Proof.
  intros f p mode g H. unfold chmod in H. destruct (res_follow f p) as [q|e] eqn:R; [|discriminate].
  destruct (get f q) as [i|] eqn:G; [|discriminate]. inversion H; subst.
  exists q. split; [reflexivity|]. split.
  - intros p' Hp. rewrite get_set, (path_eqb_neq _ _ Hp). reflexivity.
  - rewrite G, get_set, path_eqb_refl. reflexivity.
Qed.

Lemma utimens_changes : forall f p t g, utimens f p t = Ok g ->
  exists q, res_nofollow f p = Ok q /\ meta_only q f g /\
            match get f q, get g q with Some x, Some y => i_mode x = i_mode y | _, _ => False end.
Proof.
  intros f p t g H. unfold utimens in H. destruct (res_nofollow f p) as [q|e] eqn:R; [|discriminate].
  destruct (get f q) as [i|] eqn:G; [|discriminate]. inversion H; subst.
  exists q. split; [reflexivity|]. split; [split|].
  - intros p' Hp. rewrite get_set, (path_eqb_neq _ _ Hp). reflexivity.
  - rewrite G, get_set, path_eqb_refl. reflexivity.
  - rewrite G, get_set, path_eqb_refl. reflexivity.
Qed.

(** ---------- resolution through real directories is the identity ---------- *)
Definition normal (c : comp) : Prop := c <> [] /\ c <> DOT /\ c <> DOTDOT.

(** every component of [todo] names a real directory below the real directory [cur] *)
Fixpoint real_from (f : fs) (cur : path) (todo : list comp) : Prop :=
  is_dir (get f cur) = true /\
  match todo with
  | [] => True
  | c :: rest => normal c /\ real_from f (cur ++ [c]) rest
  end.
Definition real (f : fs) (p : path) : Prop := real_from f [] p.

Lemma normal_tests : forall c, normal c -> is_nil c || bytes_eqb c DOT = false /\ bytes_eqb c DOTDOT = false.
Proof.
  intros c (H1 & H2 & H3). split.
  - destruct c; [contradiction|]. cbn [is_nil orb].
    destruct (bytes_eqb (z :: c) DOT) eqn:E; [apply bytes_eqb_eq in E; contradiction|reflexivity].
  - destruct (bytes_eqb c DOTDOT) eqn:E; [apply bytes_eqb_eq in E; contradiction|reflexivity].
Qed.

Lemma is_dir_kind : forall o, is_dir o = true -> exists i, o = Some i /\ i_kind i = KDir.
Proof.
  intros [[k m mt]|] H; [|discriminate]. destruct k; try discriminate. eexists. split; reflexivity.
Qed.

(** walking a chain of real directories, then one more normal component that is
    not a followed symbolic link: the answer is the lexical path *)
Lemma resolve_real : forall pre n links f cur c follow q,
  real_from f cur pre -> normal c ->
  (follow = true -> forall i t, get f (cur ++ pre ++ [c]) = Some i -> i_kind i <> KLink t) ->
  resolve n links f cur (pre ++ [c]) follow = Ok q -> q = cur ++ pre ++ [c].
Proof.
  induction pre as [|d pre IH]; intros n links f cur c follow q Hr Hc Hl H.
  - destruct n as [|n]; [discriminate|]. cbn [app resolve] in H.
    destruct Hr as [Hd _]. apply is_dir_kind in Hd. destruct Hd as (ci & Hci & Hk). rewrite Hci, Hk in H.
    destruct (normal_tests c Hc) as [T1 T2]. rewrite T1, T2 in H.
    destruct (NAME_MAX <? Z.of_nat (List.length c)); [discriminate|].
    cbn [app] in Hl.
    destruct (get f (cur ++ [c])) as [[k m mt]|] eqn:G.
    + destruct k.
      * cbn [is_nil] in H. inversion H. reflexivity.
      * cbn [is_nil] in H. inversion H. reflexivity.
      * cbn [is_nil negb orb] in H. destruct follow.
        -- exfalso. eapply (Hl eq_refl); [reflexivity|]. reflexivity.
        -- inversion H. reflexivity.
    + cbn [is_nil] in H. inversion H. reflexivity.
  - destruct n as [|n]; [discriminate|]. cbn [app resolve] in H.
    destruct Hr as [Hd [Hnd Hr']]. apply is_dir_kind in Hd. destruct Hd as (ci & Hci & Hk). rewrite Hci, Hk in H.
    destruct (normal_tests d Hnd) as [T1 T2]. rewrite T1, T2 in H.
    destruct (NAME_MAX <? Z.of_nat (List.length d)); [discriminate|].
    pose proof Hr' as Hr''. destruct Hr'' as [Hd' _]. apply is_dir_kind in Hd'. destruct Hd' as (di & Hdi & Hdk).
    rewrite Hdi in H. destruct di as [k m mt]. cbn [i_kind] in Hdk. subst k.
    assert (Hnn : is_nil (pre ++ [c]) = false) by (destruct pre; reflexivity).
    rewrite Hnn in H.
    apply IH in H; try assumption.
    + rewrite H. rewrite <- app_assoc. reflexivity.
    + intros Hf i t. rewrite <- app_assoc. cbn [app]. apply Hl. exact Hf.
Qed.

(** resolving the path of a real directory (either way) gives that path *)
Lemma resolve_real_dir : forall p n links f follow q, real f p -> p <> [] ->
  resolve n links f [] p follow = Ok q -> q = p.
Proof.
  intros p n links f follow q Hr Hne H.
  destruct p as [|c p'] using rev_ind; [contradiction|]. clear IHp'.
  assert (Hsplit : real_from f [] p' /\ normal c /\ is_dir (get f (p' ++ [c])) = true).
  { clear H Hne. unfold real in Hr. revert Hr. generalize (@nil comp) as cur.
    induction p' as [|d p' IH]; intros cur Hr.
    - cbn [app real_from] in *. destruct Hr as [H1 [H2 [H3 _]]]. split; [split; [exact H1|exact I]|]. split; [exact H2|exact H3].
    - cbn [app real_from] in Hr. destruct Hr as [H1 [H2 H3]]. specialize (IH _ H3).
      destruct IH as [I1 [I2 I3]]. split; [cbn [real_from]; split; [exact H1|split; [exact H2|exact I1]]|].
      split; [exact I2|]. rewrite <- app_assoc in I3. exact I3. }
  destruct Hsplit as [H1 [H2 H3]].
  apply (resolve_real p' n links f [] c follow q H1 H2) in H; [exact H|].
  intros _ i t Hi Hk. cbn [app] in Hi. apply is_dir_kind in H3. destruct H3 as (i' & Hi' & Hk').
  rewrite Hi in Hi'. inversion Hi'; subst. rewrite Hk in Hk'. discriminate.
Qed.
