(** C34 — proofs about the bitswap message model [model/M_C34.v]. *)
From Coq Require Import List ZArith Bool NArith Lia Permutation.
From V Require Import lib.Verdict model.M_C34.
Import ListNotations.
Open Scope Z_scope.

(** ---------- byte strings ---------- *)
Lemma bytes_eqb_eq : forall a b, bytes_eqb a b = true <-> a = b.
Proof.
  induction a as [|x a IH]; destruct b as [|y b]; cbn [bytes_eqb]; split; intro HH;
    try reflexivity; try discriminate.
  - apply andb_true_iff in HH. destruct HH as [Hx Hr]. apply Z.eqb_eq in Hx. apply IH in Hr. congruence.
  - inversion HH; subst. apply andb_true_iff. split; [apply Z.eqb_refl | apply IH; reflexivity].
Qed.

Lemma bytes_eqb_refl : forall a, bytes_eqb a a = true.
Proof. intro a. apply bytes_eqb_eq. reflexivity. Qed.

Lemma bytes_eqb_neq : forall a b, bytes_eqb a b = false <-> a <> b.
Proof.
  intros a b. split.
  - intros HF HE. apply bytes_eqb_eq in HE. congruence.
  - intro HN. destruct (bytes_eqb a b) eqn:E; [apply bytes_eqb_eq in E; contradiction | reflexivity].
Qed.

Ltac beq k k' E := destruct (bytes_eqb k k') eqn:E;
  [apply bytes_eqb_eq in E | apply bytes_eqb_neq in E].

(** ---------- association lists ---------- *)
Section ALP.
  Context {V : Type}.
  Implicit Types (l : list (bytes * V)) (k : bytes) (v : V).

  Lemma aget_aset_same : forall l k v, aget k (aset k v l) = Some v.
  Proof.
    induction l as [|[k' v'] r IH]; intros k v; cbn [aset aget].
    - rewrite bytes_eqb_refl. reflexivity.
    - beq k k' E; cbn [aget].
      + rewrite bytes_eqb_refl. reflexivity.
      + apply bytes_eqb_neq in E. rewrite E. apply IH.
  Qed.

  Lemma aget_aset_other : forall l k k' v, k <> k' -> aget k' (aset k v l) = aget k' l.
  Proof.
    induction l as [|[k0 v0] r IH]; intros k k' v HN; cbn [aset aget].
    - assert (E : bytes_eqb k' k = false) by (apply bytes_eqb_neq; congruence). rewrite E. reflexivity.
    - beq k k0 E; cbn [aget].
      + subst k0. assert (E2 : bytes_eqb k' k = false) by (apply bytes_eqb_neq; congruence).
        rewrite E2. reflexivity.
      + destruct (bytes_eqb k' k0); [reflexivity | apply IH; assumption].
  Qed.

  Lemma aget_adel_same : forall l k, aget k (adel k l) = None.
  Proof.
    induction l as [|[k0 v0] r IH]; intro k; cbn [adel aget]; [reflexivity|].
    destruct (bytes_eqb k k0) eqn:E; [apply IH|]. cbn [aget]. rewrite E. apply IH.
  Qed.

  Lemma aget_adel_other : forall l k k', k <> k' -> aget k' (adel k l) = aget k' l.
  Proof.
    induction l as [|[k0 v0] r IH]; intros k k' HN; cbn [adel aget]; [reflexivity|].
    beq k k0 E.
    - subst k0. assert (E2 : bytes_eqb k' k = false) by (apply bytes_eqb_neq; congruence).
      rewrite E2. apply IH; assumption.
    - cbn [aget]. destruct (bytes_eqb k' k0); [reflexivity | apply IH; assumption].
  Qed.

  Lemma aget_none_notin : forall l k, aget k l = None <-> ~ In k (map fst l).
  Proof.
    induction l as [|[k0 v0] r IH]; intro k; cbn [aget map fst In].
    - split; [intros _ []| reflexivity].
    - beq k k0 E.
      + subst. split; [discriminate | intro HH; exfalso; apply HH; left; reflexivity].
      + rewrite IH. split; [intros HH [HE|HI]; [congruence | contradiction] | intros HH HI; apply HH; right; assumption].
  Qed.

  Lemma aget_some_in : forall l k v, aget k l = Some v -> In (k, v) l.
  Proof.
    induction l as [|[k0 v0] r IH]; intros k v; cbn [aget In]; [discriminate|].
    beq k k0 E.
    - intro HH. inversion HH; subst. left; reflexivity.
    - intro HH. right. apply IH; assumption.
  Qed.

  Lemma in_aget_some : forall l k v, NoDup (map fst l) -> In (k, v) l -> aget k l = Some v.
  Proof.
    induction l as [|[k0 v0] r IH]; intros k v ND HI; cbn [aget]; [destruct HI|].
    cbn [map fst] in ND. inversion ND as [|? ? HNI ND']; subst.
    destruct HI as [HE|HI].
    - inversion HE; subst. rewrite bytes_eqb_refl. reflexivity.
    - beq k k0 E.
      + subst k0. exfalso. apply HNI. apply in_map_iff. exists (k, v). split; [reflexivity | assumption].
      + apply IH; assumption.
  Qed.

  Lemma aget_perm : forall l l' k, NoDup (map fst l) -> Permutation l l' -> aget k l = aget k l'.
  Proof.
    intros l l' k ND HP.
    assert (ND' : NoDup (map fst l')) by (eapply Permutation_NoDup; [apply Permutation_map; exact HP | exact ND]).
    destruct (aget k l) as [v|] eqn:E1.
    - symmetry. apply in_aget_some; [exact ND'|]. eapply Permutation_in; [exact HP|]. apply aget_some_in; exact E1.
    - destruct (aget k l') as [v'|] eqn:E2; [|reflexivity].
      apply aget_some_in in E2. apply Permutation_sym in HP. eapply Permutation_in in E2; [|exact HP].
      apply in_aget_some in E2; [congruence | exact ND].
  Qed.

  Lemma aset_absent : forall l k v, aget k l = None -> aset k v l = l ++ [(k, v)].
  Proof.
    induction l as [|[k0 v0] r IH]; intros k v; cbn [aget aset app]; [reflexivity|].
    destruct (bytes_eqb k k0); [discriminate|]. intro HH. rewrite IH by assumption. reflexivity.
  Qed.

  Lemma amem_true : forall l k, amem k l = true <-> aget k l <> None.
  Proof. intros l k. unfold amem. destruct (aget k l); split; congruence. Qed.
  Lemma amem_false : forall l k, amem k l = false <-> aget k l = None.
  Proof. intros l k. unfold amem. destruct (aget k l); split; congruence. Qed.

  Lemma nodupb_NoDup : forall l, nodupb l = true <-> NoDup (map fst l).
  Proof.
    induction l as [|[k0 v0] r IH]; cbn [nodupb map fst].
    - split; [constructor | reflexivity].
    - rewrite andb_true_iff, negb_true_iff, amem_false, aget_none_notin, IH. split.
      + intros [HA HB]. constructor; assumption.
      + intro HH. inversion HH; subst. split; assumption.
  Qed.

  Lemma in_aset : forall l k v x, In x (aset k v l) -> x = (k, v) \/ In x l.
  Proof.
    induction l as [|[k0 v0] r IH]; intros k v x; cbn [aset In].
    - intros [HE|[]]. left; congruence.
    - destruct (bytes_eqb k k0); cbn [In].
      + intros [HE|HI]; [left; congruence | right; right; assumption].
      + intros [HE|HI]; [right; left; assumption|]. apply IH in HI. destruct HI; [left | right; right]; assumption.
  Qed.

  Lemma aget_aset_mono : forall l k v k', aget k' l <> None -> aget k' (aset k v l) <> None.
  Proof.
    intros l k v k' HH. beq k k' E.
    - subst. rewrite aget_aset_same. discriminate.
    - rewrite aget_aset_other by assumption. assumption.
  Qed.
End ALP.

(** ---------- varints ---------- *)
Lemma uvf_bound : forall fuel first buf v r,
  uvf fuel first buf = Some (v, r) -> 0 <= v < 128 ^ Z.of_nat fuel.
Proof.
  induction fuel as [|f IH]; intros first buf v r; cbn [uvf]; [discriminate|].
  destruct buf as [|b rest]; [discriminate|].
  destruct ((b <? 0) || (255 <? b)) eqn:Erange; [discriminate|].
  apply orb_false_iff in Erange. destruct Erange as [E0 E255].
  apply Z.ltb_ge in E0. apply Z.ltb_ge in E255.
  replace (Z.of_nat (S f)) with (Z.of_nat f + 1) by lia.
  rewrite Z.pow_add_r by lia. change (128 ^ 1) with 128.
  assert (HP : 0 < 128 ^ Z.of_nat f) by (apply Z.pow_pos_nonneg; lia).
  remember (128 ^ Z.of_nat f) as P eqn:EP.
  destruct (b <? 128) eqn:E128.
  - apply Z.ltb_lt in E128. destruct ((b =? 0) && negb first); [discriminate|].
    intro HH. assert (Hv : v = b) by congruence. lia.
  - apply Z.ltb_ge in E128.
    destruct (uvf f false rest) as [[v' r']|] eqn:Erec; [|discriminate].
    intro HH. assert (Hv : v = b - 128 + 128 * v') by congruence. apply IH in Erec. lia.
Qed.

Lemma uvarint_bound : forall buf v r, uvarint buf = Some (v, r) -> 0 <= v < 2 ^ 63.
Proof.
  intros buf v r HH. apply uvf_bound in HH. change (128 ^ Z.of_nat 9) with (2 ^ 63) in HH. exact HH.
Qed.

(** PutUvarint then FromUvarint: any value below 128^fuel, any continuation *)
Lemma uvf_putuvf : forall f pf first x rest,
  0 <= x < 128 ^ Z.of_nat (S f) -> (S f <= pf)%nat -> (first = false -> 0 < x) ->
  uvf (S f) first (putuvf pf x ++ rest) = Some (x, rest).
Proof.
  induction f as [|f IH]; intros pf first x rest Hx Hpf Hfirst;
    (destruct pf as [|pf']; [lia|]); cbn [putuvf].
  - change (128 ^ Z.of_nat 1) with 128 in Hx.
    assert (E : x <? 128 = true) by (apply Z.ltb_lt; lia). rewrite E. cbn [app uvf].
    assert (E0 : (x <? 0) || (255 <? x) = false)
      by (apply orb_false_iff; split; apply Z.ltb_ge; lia).
    rewrite E0, E.
    destruct first; cbn [negb]; [rewrite andb_false_r; reflexivity|].
    specialize (Hfirst eq_refl). assert (E1 : x =? 0 = false) by (apply Z.eqb_neq; lia).
    rewrite E1. reflexivity.
  - destruct (x <? 128) eqn:E.
    + apply Z.ltb_lt in E. cbn [app uvf].
      assert (E0 : (x <? 0) || (255 <? x) = false)
        by (apply orb_false_iff; split; apply Z.ltb_ge; lia).
      rewrite E0. assert (E' : x <? 128 = true) by (apply Z.ltb_lt; lia). rewrite E'.
      destruct first; cbn [negb]; [rewrite andb_false_r; reflexivity|].
      specialize (Hfirst eq_refl). assert (E1 : x =? 0 = false) by (apply Z.eqb_neq; lia).
      rewrite E1. reflexivity.
    + apply Z.ltb_ge in E.
      replace (Z.of_nat (S (S f))) with (Z.of_nat (S f) + 1) in Hx by lia.
      rewrite Z.pow_add_r in Hx by lia. change (128 ^ 1) with 128 in Hx.
      assert (Hm : 0 <= x mod 128 < 128) by (apply Z.mod_pos_bound; lia).
      assert (Hd : x = 128 * (x / 128) + x mod 128) by (apply Z.div_mod; lia).
      assert (Hq : 0 < x / 128 < 128 ^ Z.of_nat (S f)) by nia.
      change ((x mod 128 + 128 :: putuvf pf' (x / 128)) ++ rest)
        with (x mod 128 + 128 :: (putuvf pf' (x / 128) ++ rest)).
      remember (S f) as f1 eqn:Ef1. cbn [uvf].
      assert (E0 : (x mod 128 + 128 <? 0) || (255 <? x mod 128 + 128) = false)
        by (apply orb_false_iff; split; apply Z.ltb_ge; lia).
      rewrite E0. assert (E' : x mod 128 + 128 <? 128 = false) by (apply Z.ltb_ge; lia). rewrite E'.
      subst f1. rewrite IH; [| lia | lia | intros _; lia].
      f_equal. f_equal. lia.
Qed.

Lemma uvarint_putuv : forall x rest, 0 <= x < 2 ^ 63 -> uvarint (putuv x ++ rest) = Some (x, rest).
Proof.
  intros x rest Hx. unfold uvarint, putuv. apply uvf_putuvf.
  - change (128 ^ Z.of_nat 9) with (2 ^ 63). exact Hx.
  - lia.
  - discriminate.
Qed.

(** ---------- go-cid ---------- *)
Lemma cast_some : forall b c, cast b = Some c -> c = b.
Proof.
  intros b c. unfold cast.
  destruct (is_v0_head b).
  - destruct (len b =? 34); congruence.
  - destruct (uvarint b) as [[vers r1]|]; [|discriminate].
    destruct (negb (vers =? 1)); [discriminate|].
    destruct (uvarint r1) as [[cd r2]|]; [|discriminate].
    destruct (mh_from r2) as [n|]; [|discriminate].
    destruct (len b - len r2 + n =? len b); congruence.
Qed.

Lemma validb_cast : forall c, validb c = true -> c <> [] /\ cast c = Some c.
Proof.
  intros c. unfold validb. destruct c as [|x c']; [discriminate|].
  destruct (cast (x :: c')) as [c2|] eqn:E; [|discriminate].
  intros _. split; [discriminate|]. apply cast_some in E. congruence.
Qed.

Definition prefix_ok (p : prefix) : Prop :=
  let '(v, cd, t, l) := p in
  0 <= v < 2 ^ 63 /\ 0 <= cd < 2 ^ 63 /\ 0 <= t < 2 ^ 63 /\ 0 <= l < 2 ^ 63.

Lemma prefix_of_ok : forall c, prefix_ok (prefix_of c).
Proof.
  intro c. unfold prefix_of. destruct (is_v0 c); [unfold v0prefix, prefix_ok; lia|].
  destruct (uvarint c) as [[v r1]|] eqn:E1; [|unfold prefix_ok; lia].
  apply uvarint_bound in E1.
  destruct (uvarint r1) as [[cd r2]|] eqn:E2; [|unfold prefix_ok; lia].
  apply uvarint_bound in E2.
  destruct (uvarint r2) as [[t r3]|] eqn:E3; [|unfold prefix_ok; lia].
  apply uvarint_bound in E3.
  destruct (uvarint r3) as [[l r4]|] eqn:E4; [|unfold prefix_ok; lia].
  apply uvarint_bound in E4. unfold prefix_ok. lia.
Qed.

(** PrefixFromBytes (Prefix.Bytes p) = p *)
Lemma prefix_roundtrip : forall p, prefix_ok p -> prefix_from_bytes (prefix_bytes p) = Some p.
Proof.
  intros [[[v cd] t] l] (Hv & Hcd & Ht & Hl). unfold prefix_from_bytes, prefix_bytes.
  rewrite uvarint_putuv by exact Hv. rewrite uvarint_putuv by exact Hcd.
  rewrite uvarint_putuv by exact Ht.
  rewrite <- (app_nil_r (putuv l)). rewrite uvarint_putuv by exact Hl. reflexivity.
Qed.

(** ---------- unfolding lemmas for the three decoding loops ---------- *)
Section Dec.
  Variable H : prefix -> bytes -> option cid.
  Variable H0 : bytes -> cid.

  Lemma pb_entries_cons : forall e r wl,
    pb_entries (e :: r) wl =
    if validb (pe_block e)
    then pb_entries r (add_entry (pe_block e) (pe_prio e) (pe_cancel e) (pe_wt e) (pe_sdh e) wl)
    else None.
  Proof.
    intros e r wl. cbn [pb_entries]. unfold validb.
    destruct (pe_block e) as [|x b'] eqn:Eb; [reflexivity|].
    destruct (cast (x :: b')) as [c|] eqn:Ec; [|reflexivity].
    apply cast_some in Ec. subst c. reflexivity.
  Qed.

  Lemma pb_presences_cons : forall cb t r m,
    pb_presences ((cb, t) :: r) m =
    if validb cb then pb_presences r (add_presence cb t m) else None.
  Proof.
    intros cb t r m. cbn [pb_presences]. unfold validb.
    destruct cb as [|x b']; [reflexivity|].
    destruct (cast (x :: b')) as [c|] eqn:Ec; [|reflexivity].
    apply cast_some in Ec. subst c. reflexivity.
  Qed.

  Definition of_pb (e : pbentry) : cid * ent :=
    (pe_block e, mkent (pe_prio e) (pe_wt e) (pe_cancel e) (pe_sdh e)).

  Lemma of_pb_to_pb : forall ce, of_pb (ent_to_pb ce) = ce.
  Proof. intros [c [p w cn s]]. reflexivity. Qed.

  (** fresh keys are appended in wire order *)
  Lemma pb_entries_fresh : forall es acc,
    NoDup (map fst acc ++ map pe_block es) ->
    (forall e, In e es -> validb (pe_block e) = true) ->
    pb_entries es acc = Some (acc ++ map of_pb es).
  Proof.
    induction es as [|e r IH]; intros acc ND HV.
    - cbn [pb_entries map]. rewrite app_nil_r. reflexivity.
    - rewrite pb_entries_cons. rewrite (HV e (or_introl eq_refl)).
      cbn [map] in ND.
      assert (Hnone : aget (pe_block e) acc = None).
      { apply aget_none_notin. apply NoDup_remove_2 in ND. intro HI. apply ND. apply in_or_app. left. exact HI. }
      unfold add_entry. rewrite Hnone. rewrite aset_absent by exact Hnone.
      rewrite IH.
      + rewrite <- app_assoc. reflexivity.
      + rewrite map_app, <- app_assoc. exact ND.
      + intros e' HI. apply HV. right. exact HI.
  Qed.

  Definition pay (cd : cid * bytes) : bytes * bytes := (prefix_bytes (prefix_of (fst cd)), snd cd).

  Lemma pb_payloads_fresh : forall bs m,
    m_pres m = [] ->
    NoDup (map fst (m_blocks m) ++ map fst bs) ->
    (forall c d, In (c, d) bs -> H (prefix_of c) d = Some c) ->
    pb_payloads H (map pay bs) m = Some (mkmsg (m_full m) (m_wl m) (m_blocks m ++ bs) [] (m_pending m)).
  Proof.
    induction bs as [|[c d] r IH]; intros m HP ND HH.
    - cbn [map pb_payloads]. rewrite app_nil_r. destruct m; cbn in *. subst. reflexivity.
    - cbn [map pb_payloads pay fst snd].
      rewrite prefix_roundtrip by apply prefix_of_ok.
      rewrite (HH c d (or_introl eq_refl)).
      cbn [map fst] in ND.
      assert (Hnone : aget c (m_blocks m) = None).
      { apply aget_none_notin. apply NoDup_remove_2 in ND. intro HI. apply ND. apply in_or_app. left. exact HI. }
      rewrite IH.
      + unfold add_block; cbn [m_full m_wl m_blocks m_pres m_pending].
        rewrite aset_absent by exact Hnone. rewrite <- app_assoc. reflexivity.
      + unfold add_block; cbn [m_pres]. rewrite HP. reflexivity.
      + unfold add_block; cbn [m_blocks]. rewrite aset_absent by exact Hnone.
        rewrite map_app, <- app_assoc. exact ND.
      + intros c' d' HI. apply HH. right. exact HI.
  Qed.

  Lemma pb_presences_fresh : forall ps m,
    NoDup (map fst (m_pres m) ++ map fst ps) ->
    (forall c t, In (c, t) ps -> validb c = true /\ amem c (m_blocks m) = false) ->
    pb_presences ps m = Some (mkmsg (m_full m) (m_wl m) (m_blocks m) (m_pres m ++ ps) (m_pending m)).
  Proof.
    induction ps as [|[c t] r IH]; intros m ND HV.
    - cbn [pb_presences]. rewrite app_nil_r. destruct m; reflexivity.
    - rewrite pb_presences_cons. destruct (HV c t (or_introl eq_refl)) as [Hv Hm]. rewrite Hv.
      cbn [map fst] in ND.
      assert (Hnone : aget c (m_pres m) = None).
      { apply aget_none_notin. apply NoDup_remove_2 in ND. intro HI. apply ND. apply in_or_app. left. exact HI. }
      unfold add_presence. rewrite Hm.
      rewrite IH; cbn [m_full m_wl m_blocks m_pres m_pending].
      + rewrite aset_absent by exact Hnone. rewrite <- app_assoc. reflexivity.
      + rewrite aset_absent by exact Hnone. rewrite map_app, <- app_assoc. exact ND.
      + intros c' t' HI. apply (HV c' t'). right. exact HI.
  Qed.
End Dec.

(** ---------- round trips ---------- *)
Section RT.
  Variable H : prefix -> bytes -> option cid.
  Variable H0 : bytes -> cid.

  Lemma wfb_facts : forall m, wfb H m = true ->
    NoDup (map fst (m_wl m)) /\ NoDup (map fst (m_blocks m)) /\ NoDup (map fst (m_pres m)) /\
    (forall c e, In (c, e) (m_wl m) -> validb c = true) /\
    (forall c d, In (c, d) (m_blocks m) -> validb c = true /\ H (prefix_of c) d = Some c) /\
    (forall c t, In (c, t) (m_pres m) -> validb c = true /\ amem c (m_blocks m) = false).
  Proof.
    intros m Hwf. unfold wfb in Hwf.
    repeat (apply andb_true_iff in Hwf; let X := fresh "W" in destruct Hwf as [Hwf X]).
    rename Hwf into W5.
    rewrite forallb_forall in W, W1, W2. unfold selfcertb in W0. rewrite forallb_forall in W0.
    apply nodupb_NoDup in W5. apply nodupb_NoDup in W4. apply nodupb_NoDup in W3.
    split; [exact W5|]. split; [exact W4|]. split; [exact W3|].
    split; [|split].
    - intros c e HI. apply (W2 (c, e) HI).
    - intros c d HI. split; [apply (W1 (c, d) HI)|].
      specialize (W0 (c, d) HI). cbn [fst snd] in W0.
      destruct (H (prefix_of c) d) as [c'|]; [|discriminate]. apply bytes_eqb_eq in W0. congruence.
    - intros c t HI. specialize (W (c, t) HI). cbn [fst] in W. apply andb_true_iff in W.
      destruct W as [Wv Wm]. split; [exact Wv|]. apply negb_true_iff in Wm. exact Wm.
  Qed.

  Theorem v1_roundtrip : forall m pb,
    wfb H m = true -> pb_perm pb (to_pb_v1 m) ->
    exists m', from_pb H H0 pb = Some m' /\ msg_equiv m' m.
  Proof.
    intros m pb Hwf HP.
    destruct (wfb_facts m Hwf) as (NDw & NDb & NDp & Vw & Vb & Vp).
    destruct pb as [wlo bl pl pr pn]. unfold pb_perm, to_pb_v1 in HP.
    cbn [pb_wl pb_blocks pb_payload pb_pres pb_pending] in HP.
    destruct wlo as [[es f]|]; [|destruct HP as [[] _]].
    destruct HP as ([Pes Ef] & Pbl & Ppl & Ppr & Epn). subst f pn.
    apply Permutation_sym, Permutation_nil in Pbl. subst bl.
    (* want-list *)
    assert (Pw : Permutation (m_wl m) (map of_pb es)).
    { apply Permutation_sym. apply (Permutation_map of_pb) in Pes. rewrite map_map in Pes.
      rewrite (map_ext _ (fun x => x)) in Pes by apply of_pb_to_pb. rewrite map_id in Pes. exact Pes. }
    assert (Ekeys : map pe_block es = map fst (map of_pb es)) by (rewrite map_map; reflexivity).
    assert (Hes : pb_entries es [] = Some (map of_pb es)).
    { rewrite pb_entries_fresh; [reflexivity | |].
      - cbn [map app]. rewrite Ekeys. eapply Permutation_NoDup; [apply Permutation_map; exact Pw | exact NDw].
      - intros e HI. eapply Permutation_in in HI; [|exact Pes].
        apply in_map_iff in HI. destruct HI as ([c e0] & He & HI). subst e. cbn [ent_to_pb pe_block].
        apply (Vw c e0 HI). }
    (* payload *)
    change (map (fun cd : cid * bytes => (prefix_bytes (prefix_of (fst cd)), snd cd)) (m_blocks m))
      with (map pay (m_blocks m)) in Ppl.
    apply Permutation_map_inv in Ppl. destruct Ppl as (bs' & Epl & Pb). subst pl.
    assert (NDb' : NoDup (map fst bs'))
      by (eapply Permutation_NoDup; [apply Permutation_map; exact Pb | exact NDb]).
    (* presences *)
    apply Permutation_sym in Ppr.
    assert (NDp' : NoDup (map fst pr))
      by (eapply Permutation_NoDup; [apply Permutation_map; exact Ppr | exact NDp]).
    unfold from_pb. cbn [pb_wl pb_blocks pb_payload pb_pres pb_pending]. rewrite Hes.
    cbn [pb_old_blocks fold_left].
    rewrite pb_payloads_fresh; cbn [m_full m_wl m_blocks m_pres m_pending map app];
      [ | reflexivity | exact NDb' | ].
    2:{ intros c d HI. apply Vb. eapply Permutation_in; [apply Permutation_sym; exact Pb | exact HI]. }
    rewrite pb_presences_fresh; cbn [m_full m_wl m_blocks m_pres m_pending map app];
      [ | exact NDp' | ].
    2:{ intros c t HI. eapply Permutation_in in HI; [|apply Permutation_sym; exact Ppr].
        destruct (Vp c t HI) as [Hv Hm]. split; [exact Hv|].
        apply amem_false. apply amem_false in Hm. rewrite <- Hm. symmetry.
        apply aget_perm; assumption. }
    eexists. split; [reflexivity|].
    unfold msg_equiv; cbn [m_full m_wl m_blocks m_pres m_pending].
    repeat split.
    - intro k. symmetry. apply aget_perm; assumption.
    - intro k. symmetry. apply aget_perm; assumption.
    - intro k. symmetry. apply aget_perm; assumption.
  Qed.
End RT.

(** ---------- what the decoding loops preserve / establish ---------- *)
Section Loops.
  Variable H : prefix -> bytes -> option cid.
  Variable H0 : bytes -> cid.

  Definition oldf (l : list (cid * bytes)) (d : bytes) := aset (H0 d) d l.

  Lemma old_blocks_shape : forall ds m,
    pb_old_blocks H0 ds m =
    mkmsg (m_full m) (m_wl m) (fold_left oldf ds (m_blocks m))
          (fold_left (fun p d => adel (H0 d) p) ds (m_pres m)) (m_pending m).
  Proof.
    induction ds as [|d r IH]; intro m; cbn [pb_old_blocks fold_left].
    - destruct m; reflexivity.
    - unfold pb_old_blocks in IH. rewrite IH. reflexivity.
  Qed.

  Lemma fold_adel_nil : forall (ds : list bytes), fold_left (fun (p : list (cid * Z)) d => adel (H0 d) p) ds [] = [].
  Proof. induction ds as [|d r IH]; cbn [fold_left adel]; [reflexivity | exact IH]. Qed.

  Lemma oldf_in : forall ds l c d,
    In (c, d) (fold_left oldf ds l) -> In (c, d) l \/ (c = H0 d /\ In d ds).
  Proof.
    induction ds as [|x r IH]; intros l c d HI; cbn [fold_left] in HI; [left; exact HI|].
    apply IH in HI. destruct HI as [HI|[He HI]].
    - unfold oldf in HI. apply in_aset in HI. destruct HI as [HE|HI]; [|left; exact HI].
      inversion HE; subst. right. split; [reflexivity | left; reflexivity].
    - right. split; [exact He | right; exact HI].
  Qed.

  Lemma oldf_keep : forall ds l k,
    (exists d', aget k l = Some d' /\ H0 d' = k) ->
    exists d', aget k (fold_left oldf ds l) = Some d' /\ H0 d' = k.
  Proof.
    induction ds as [|x r IH]; intros l k HE; cbn [fold_left]; [exact HE|].
    apply IH. unfold oldf. beq (H0 x) k E.
    - exists x. subst k. rewrite aget_aset_same. split; reflexivity.
    - rewrite aget_aset_other by exact E. exact HE.
  Qed.

  Lemma oldf_has : forall ds l d, In d ds ->
    exists d', aget (H0 d) (fold_left oldf ds l) = Some d' /\ H0 d' = H0 d.
  Proof.
    induction ds as [|x r IH]; intros l d HI; [destruct HI|]. cbn [fold_left].
    destruct HI as [HE|HI].
    - subst x. apply oldf_keep. exists d. unfold oldf. rewrite aget_aset_same. split; reflexivity.
    - apply IH. exact HI.
  Qed.

  Lemma oldf_mono : forall ds l k, aget k l <> None -> aget k (fold_left oldf ds l) <> None.
  Proof.
    induction ds as [|x r IH]; intros l k HN; cbn [fold_left]; [exact HN|].
    apply IH. unfold oldf. apply aget_aset_mono. exact HN.
  Qed.

  (** payload loop *)
  Definition okp (pd : bytes * bytes) : bool :=
    match prefix_from_bytes (fst pd) with
    | Some p => match H p (snd pd) with Some _ => true | None => false end
    | None => false
    end.

  Lemma payloads_none : forall ps m, pb_payloads H ps m = None <-> forallb okp ps = false.
  Proof.
    induction ps as [|[pfx d] r IH]; intro m; cbn [pb_payloads forallb].
    - split; discriminate.
    - unfold okp at 1; cbn [fst snd].
      destruct (prefix_from_bytes pfx) as [p|]; [|split; reflexivity].
      destruct (H p d) as [c|]; [|split; reflexivity].
      cbn [andb]. apply IH.
  Qed.

  Lemma payloads_spec : forall ps m m', pb_payloads H ps m = Some m' ->
    m_full m' = m_full m /\ m_wl m' = m_wl m /\ m_pending m' = m_pending m /\
    (forall k, aget k (m_blocks m) <> None -> aget k (m_blocks m') <> None) /\
    (forall c d, In (c, d) (m_blocks m') ->
       In (c, d) (m_blocks m) \/
       exists pfx p, In (pfx, d) ps /\ prefix_from_bytes pfx = Some p /\ H p d = Some c) /\
    (forall pfx d, In (pfx, d) ps ->
       exists p c, prefix_from_bytes pfx = Some p /\ H p d = Some c /\ aget c (m_blocks m') <> None).
  Proof.
    induction ps as [|[pfx d] r IH]; intros m m'; cbn [pb_payloads].
    - intro HE. inversion HE; subst m'. repeat split; try reflexivity.
      + intros k HN; exact HN.
      + intros c d HI. left. exact HI.
      + intros pfx d [].
    - destruct (prefix_from_bytes pfx) as [p|] eqn:Ep; [|discriminate].
      destruct (H p d) as [c|] eqn:Ec; [|discriminate].
      intro HE. apply IH in HE. destruct HE as (Ef & Ew & Epn & Hmono & Hin & Hall).
      unfold add_block in Ef, Ew, Epn, Hmono, Hin; cbn [m_full m_wl m_blocks m_pres m_pending] in *.
      split; [exact Ef|]. split; [exact Ew|]. split; [exact Epn|]. split; [|split].
      + intros k HN. apply Hmono. apply aget_aset_mono. exact HN.
      + intros c' d' HI. apply Hin in HI. destruct HI as [HI|(pfx' & p' & HI & HP & HH)].
        * apply in_aset in HI. destruct HI as [HE|HI]; [|left; exact HI].
          inversion HE; subst c' d'. right. exists pfx, p. split; [left; reflexivity|]. split; assumption.
        * right. exists pfx', p'. split; [right; exact HI|]. split; assumption.
      + intros pfx' d' [HE|HI].
        * inversion HE; subst pfx' d'. exists p, c. split; [exact Ep|]. split; [exact Ec|].
          apply Hmono. rewrite aget_aset_same. discriminate.
        * apply Hall. exact HI.
  Qed.

  (** presence loop *)
  Lemma presences_none : forall ps m,
    pb_presences ps m = None <-> forallb (fun ct : bytes * Z => validb (fst ct)) ps = false.
  Proof.
    induction ps as [|[cb t] r IH]; intro m.
    - cbn. split; discriminate.
    - rewrite pb_presences_cons. cbn [forallb fst].
      destruct (validb cb); cbn [andb]; [apply IH | split; reflexivity].
  Qed.

  Lemma presences_spec : forall ps m m', pb_presences ps m = Some m' ->
    m_full m' = m_full m /\ m_wl m' = m_wl m /\ m_blocks m' = m_blocks m /\ m_pending m' = m_pending m /\
    (forall k, aget k (m_pres m) <> None -> aget k (m_pres m') <> None) /\
    (forall c t, In (c, t) ps -> aget c (m_pres m') <> None \/ aget c (m_blocks m') <> None).
  Proof.
    induction ps as [|[cb t] r IH]; intros m m'.
    - cbn [pb_presences]. intro HE. inversion HE; subst m'. repeat split; try reflexivity.
      + intros k HN; exact HN.
      + intros c t [].
    - rewrite pb_presences_cons. destruct (validb cb) eqn:Ev; [|discriminate].
      intro HE. apply IH in HE. destruct HE as (Ef & Ew & Eb & Epn & Hmono & Hall).
      assert (Efields : m_full (add_presence cb t m) = m_full m /\ m_wl (add_presence cb t m) = m_wl m /\
                        m_blocks (add_presence cb t m) = m_blocks m /\
                        m_pending (add_presence cb t m) = m_pending m).
      { unfold add_presence. destruct (amem cb (m_blocks m)); repeat split; reflexivity. }
      destruct Efields as (F1 & F2 & F3 & F4).
      rewrite F1 in Ef. rewrite F2 in Ew. rewrite F3 in Eb. rewrite F4 in Epn.
      split; [exact Ef|]. split; [exact Ew|]. split; [exact Eb|]. split; [exact Epn|]. split.
      + intros k HN. apply Hmono. unfold add_presence. destruct (amem cb (m_blocks m)); [exact HN|].
        cbn [m_pres]. apply aget_aset_mono. exact HN.
      + intros c t' [HE|HI]; [|apply Hall with t'; exact HI].
        inversion HE; subst c t'.
        destruct (amem cb (m_blocks m)) eqn:Em.
        * right. rewrite Eb. apply amem_true. exact Em.
        * left. apply Hmono. unfold add_presence. rewrite Em. cbn [m_pres].
          rewrite aget_aset_same. discriminate.
  Qed.

  (** entry loop *)
  Lemma add_entry_get_same : forall c p cn wt s wl,
    aget c (add_entry c p cn wt s wl) =
    Some (match aget c wl with Some e => merge_ent e p cn wt s | None => mkent p wt cn s end).
  Proof. intros. unfold add_entry. destruct (aget c wl); apply aget_aset_same. Qed.

  Lemma add_entry_get_other : forall c k p cn wt s wl, c <> k ->
    aget k (add_entry c p cn wt s wl) = aget k wl.
  Proof. intros. unfold add_entry. destruct (aget c wl); apply aget_aset_other; assumption. Qed.

  Lemma add_entry_mono : forall c k p cn wt s wl,
    aget k wl <> None -> aget k (add_entry c p cn wt s wl) <> None.
  Proof. intros. unfold add_entry. destruct (aget c wl); apply aget_aset_mono; assumption. Qed.

  Lemma entries_none : forall es acc,
    pb_entries es acc = None <-> forallb (fun e => validb (pe_block e)) es = false.
  Proof.
    induction es as [|e r IH]; intro acc.
    - cbn. split; discriminate.
    - rewrite pb_entries_cons. cbn [forallb].
      destruct (validb (pe_block e)); cbn [andb]; [apply IH | split; reflexivity].
  Qed.

  Lemma entries_spec : forall es acc wl, pb_entries es acc = Some wl ->
    (forall k, aget k acc <> None -> aget k wl <> None) /\
    (forall e, In e es -> aget (pe_block e) wl <> None).
  Proof.
    induction es as [|e r IH]; intros acc wl.
    - cbn [pb_entries]. intro HE. inversion HE; subst wl. split; [intros k HN; exact HN | intros e []].
    - rewrite pb_entries_cons. destruct (validb (pe_block e)); [|discriminate].
      intro HE. apply IH in HE. destruct HE as [Hmono Hall]. split.
      + intros k HN. apply Hmono. apply add_entry_mono. exact HN.
      + intros e' [HE|HI]; [|apply Hall; exact HI]. subst e'.
        apply Hmono. rewrite add_entry_get_same. discriminate.
  Qed.
End Loops.

(** ---------- v0 round trip, self-certification, reject-or-whole ---------- *)
Section Top.
  Variable H : prefix -> bytes -> option cid.
  Variable H0 : bytes -> cid.

  Theorem v0_roundtrip : forall m pb,
    wf_v0b m = true -> pb_perm pb (to_pb_v0 m) ->
    exists m0, from_pb H H0 pb = Some m0 /\
      m_full m0 = m_full m /\
      (forall k, aget k (m_wl m0) = aget k (m_wl m)) /\
      (forall c d, In (c, d) (m_blocks m0) -> c = H0 d /\ In d (map snd (m_blocks m))) /\
      (forall d, In d (map snd (m_blocks m)) ->
         exists d', aget (H0 d) (m_blocks m0) = Some d' /\ H0 d' = H0 d).
  Proof.
    intros m pb Hwf HP. unfold wf_v0b in Hwf. apply andb_true_iff in Hwf. destruct Hwf as [NDw Vw].
    apply nodupb_NoDup in NDw. rewrite forallb_forall in Vw.
    destruct pb as [wlo bl pl pr pn]. unfold pb_perm, to_pb_v0 in HP.
    cbn [pb_wl pb_blocks pb_payload pb_pres pb_pending] in HP.
    destruct wlo as [[es f]|]; [|destruct HP as [[] _]].
    destruct HP as ([Pes Ef] & Pbl & Ppl & Ppr & Epn). subst f pn.
    apply Permutation_sym, Permutation_nil in Ppl. subst pl.
    apply Permutation_sym, Permutation_nil in Ppr. subst pr.
    assert (Pw : Permutation (m_wl m) (map of_pb es)).
    { apply Permutation_sym. apply (Permutation_map of_pb) in Pes. rewrite map_map in Pes.
      rewrite (map_ext _ (fun x => x)) in Pes by apply of_pb_to_pb. rewrite map_id in Pes. exact Pes. }
    assert (Ekeys : map pe_block es = map fst (map of_pb es)) by (rewrite map_map; reflexivity).
    assert (Hes : pb_entries es [] = Some (map of_pb es)).
    { rewrite pb_entries_fresh; [reflexivity | |].
      - cbn [map app]. rewrite Ekeys. eapply Permutation_NoDup; [apply Permutation_map; exact Pw | exact NDw].
      - intros e HI. eapply Permutation_in in HI; [|exact Pes].
        apply in_map_iff in HI. destruct HI as ([c e0] & He & HI). subst e. cbn [ent_to_pb pe_block].
        apply (Vw (c, e0) HI). }
    unfold from_pb. cbn [pb_wl pb_blocks pb_payload pb_pres pb_pending]. rewrite Hes.
    rewrite old_blocks_shape. cbn [m_full m_wl m_blocks m_pres m_pending pb_payloads pb_presences].
    eexists. split; [reflexivity|]. cbn [m_full m_wl m_blocks m_pres m_pending].
    split; [reflexivity|]. split; [|split].
    - intro k. symmetry. apply aget_perm; assumption.
    - intros c d HI. apply oldf_in in HI. destruct HI as [[]|[He HI]]. split; [exact He|].
      eapply Permutation_in; [exact Pbl | exact HI].
    - intros d HI. apply oldf_has. eapply Permutation_in; [apply Permutation_sym; exact Pbl | exact HI].
  Qed.

  (** where a decoded block comes from *)
  Definition block_src (pb : pbmsg) (c : cid) (d : bytes) : Prop :=
    (exists pfx p, In (pfx, d) (pb_payload pb) /\ prefix_from_bytes pfx = Some p /\ H p d = Some c) \/
    (In d (pb_blocks pb) /\ c = H0 d).

  Theorem self_certifying : forall pb m, from_pb H H0 pb = Some m ->
    forall c d, In (c, d) (m_blocks m) -> block_src pb c d.
  Proof.
    intros pb m. unfold from_pb.
    destruct (pb_entries _ []) as [wl|]; [|discriminate].
    destruct (pb_payloads H (pb_payload pb) _) as [m2|] eqn:E2; [|discriminate].
    destruct (pb_presences (pb_pres pb) m2) as [m3|] eqn:E3; [|discriminate].
    intro HE. inversion HE; subst m. cbn [m_blocks]. intros c d HI.
    apply presences_spec in E3. destruct E3 as (_ & _ & Eb & _). rewrite Eb in HI.
    apply payloads_spec in E2. destruct E2 as (_ & _ & _ & _ & Hin & _).
    apply Hin in HI. destruct HI as [HI|HI].
    - rewrite old_blocks_shape in HI. cbn [m_blocks] in HI. apply oldf_in in HI.
      destruct HI as [[]|[He HI]]. right. split; assumption.
    - left. exact HI.
  Qed.

  (** with the two laws of go-cid's Prefix.Sum (checked on every oracle table by the
      harness) this is the boolean form [check_case] evaluates *)
  Theorem self_certifying_b :
    (forall p d c, H p d = Some c -> H (prefix_of c) d = Some c) ->
    (forall d, H (prefix_of (H0 d)) d = Some (H0 d)) ->
    forall pb m, from_pb H H0 pb = Some m -> selfcertb H m = true.
  Proof.
    intros L1 L2 pb m HF. unfold selfcertb. apply forallb_forall. intros [c d] HI. cbn [fst snd].
    destruct (self_certifying pb m HF c d HI) as [(pfx & p & _ & _ & HH)|[_ He]].
    - rewrite (L1 p d c HH). apply bytes_eqb_refl.
    - subst c. rewrite L2. apply bytes_eqb_refl.
  Qed.

  Theorem reject_iff : forall pb, from_pb H H0 pb = None <-> pb_okb H pb = false.
  Proof.
    intro pb. unfold from_pb, pb_okb.
    set (es := match pb_wl pb with Some (es, _) => es | None => [] end).
    fold (okp H).
    destruct (pb_entries es []) as [wl|] eqn:E1.
    - assert (A : forallb (fun e => validb (pe_block e)) es = true).
      { destruct (forallb (fun e => validb (pe_block e)) es) eqn:EA; [reflexivity|].
        apply (entries_none es []) in EA. congruence. }
      rewrite A. cbn [andb].
      destruct (pb_payloads H (pb_payload pb) _) as [m2|] eqn:E2.
      + assert (B : forallb (okp H) (pb_payload pb) = true).
        { destruct (forallb (okp H) (pb_payload pb)) eqn:EB; [reflexivity|].
          apply (payloads_none H) with (m := pb_old_blocks H0 (pb_blocks pb)
            (mkmsg match pb_wl pb with Some (_, f) => f | None => false end wl [] [] 0)) in EB. congruence. }
        rewrite B. cbn [andb].
        destruct (pb_presences (pb_pres pb) m2) as [m3|] eqn:E3.
        * split; [discriminate|]. intro C. apply (presences_none (pb_pres pb) m2) in C. congruence.
        * split; [|reflexivity]. intros _. apply (presences_none (pb_pres pb) m2). exact E3.
      + apply payloads_none in E2. rewrite E2. cbn [andb]. split; reflexivity.
    - apply entries_none in E1. rewrite E1. cbn [andb]. split; reflexivity.
  Qed.

  Theorem whole : forall pb m, from_pb H H0 pb = Some m -> wholeb H H0 pb m = true.
  Proof.
    intros pb m. unfold from_pb.
    set (es := match pb_wl pb with Some (es, _) => es | None => [] end).
    set (f := match pb_wl pb with Some (_, f) => f | None => false end).
    destruct (pb_entries es []) as [wl|] eqn:E1; [|discriminate].
    destruct (pb_payloads H (pb_payload pb) _) as [m2|] eqn:E2; [|discriminate].
    destruct (pb_presences (pb_pres pb) m2) as [m3|] eqn:E3; [|discriminate].
    intro HE. inversion HE; subst m. clear HE.
    apply entries_spec in E1. destruct E1 as [_ Hes].
    apply payloads_spec in E2. destruct E2 as (Ef2 & Ew2 & _ & Hmono2 & _ & Hall2).
    rewrite old_blocks_shape in Ef2, Ew2, Hmono2. cbn [m_full m_wl m_blocks] in Ef2, Ew2, Hmono2.
    apply presences_spec in E3. destruct E3 as (Ef3 & Ew3 & Eb3 & _ & _ & Hall3).
    unfold wholeb. fold es. fold f. cbn [m_full m_wl m_blocks m_pres m_pending].
    repeat (apply andb_true_iff; split).
    - rewrite Ef3, Ef2. apply eqb_reflx.
    - apply Z.eqb_refl.
    - apply forallb_forall. intros e HI. apply amem_true. rewrite Ew3, Ew2. apply Hes. exact HI.
    - apply forallb_forall. intros d HI. apply amem_true. rewrite Eb3. apply Hmono2.
      destruct (oldf_has H0 (pb_blocks pb) [] d HI) as (d' & Hg & _). rewrite Hg. discriminate.
    - apply forallb_forall. intros [pfx d] HI. cbn [fst snd].
      destruct (Hall2 pfx d HI) as (p & c & Hp & Hc & Hg). rewrite Hp, Hc. apply amem_true.
      rewrite Eb3. exact Hg.
    - apply forallb_forall. intros [c t] HI. cbn [fst]. apply orb_true_iff.
      destruct (Hall3 c t HI) as [Hg|Hg]; [left | right]; apply amem_true; exact Hg.
  Qed.

  (** every individually malformed item makes the whole message be rejected *)
  Corollary reject_malformed_entry : forall pb es f e,
    pb_wl pb = Some (es, f) -> In e es -> validb (pe_block e) = false -> from_pb H H0 pb = None.
  Proof.
    intros pb es f e Hw HI Hv. apply reject_iff. unfold pb_okb. rewrite Hw.
    assert (A : forallb (fun e => validb (pe_block e)) es = false).
    { destruct (forallb (fun e => validb (pe_block e)) es) eqn:EA; [|reflexivity].
      rewrite forallb_forall in EA. rewrite (EA e HI) in Hv. discriminate. }
    rewrite A. reflexivity.
  Qed.
End Top.

(** ---------- merge rules of addEntry ---------- *)
Lemma merge_cancel_sticky : forall e p c wt s, e_cancel (merge_ent e p c wt s) = c || e_cancel e.
Proof. intros e p [] wt s; reflexivity. Qed.
Lemma merge_sdh_sticky : forall e p c wt s, e_sdh (merge_ent e p c wt s) = s || e_sdh e.
Proof. intros e p c wt []; reflexivity. Qed.
Lemma merge_block_stays : forall e p c wt s, e_wt e = WBlock -> e_wt (merge_ent e p c wt s) = WBlock.
Proof.
  intros e p c wt s HE. cbn [merge_ent e_wt]. rewrite HE. unfold WBlock, WHave. cbn [Z.eqb].
  rewrite andb_false_r. reflexivity.
Qed.
Lemma merge_upgrade : forall e p c s, e_wt e = WHave -> e_wt (merge_ent e p c WBlock s) = WBlock.
Proof. intros e p c s HE. cbn [merge_ent e_wt]. rewrite HE. reflexivity. Qed.
Lemma merge_no_downgrade : forall e p c wt s, wt <> WBlock -> e_wt (merge_ent e p c wt s) = e_wt e.
Proof.
  intros e p c wt s HN. cbn [merge_ent e_wt]. apply Z.eqb_neq in HN. rewrite HN. reflexivity.
Qed.
Lemma merge_prio : forall e p c wt s,
  e_prio (merge_ent e p c wt s) = if e_wt e =? wt then p else e_prio e.
Proof. reflexivity. Qed.

(** the want-list after any wire/API sequence decomposes per CID: the entry of [c]
    is the sequential merge of exactly the items that name [c] *)
Definition item := (cid * (Z * bool * Z * bool))%type.     (* cid, priority, cancel, type, sendDontHave *)
Definition add_item (wl : list (cid * ent)) (it : item) :=
  let '(c, (p, cn, wt, s)) := it in add_entry c p cn wt s wl.
Definition merge_item (o : option ent) (it : item) : option ent :=
  let '(_, (p, cn, wt, s)) := it in
  Some (match o with Some e => merge_ent e p cn wt s | None => mkent p wt cn s end).

Lemma merge_per_cid : forall its wl c,
  aget c (fold_left add_item its wl) =
  fold_left merge_item (filter (fun it : item => bytes_eqb (fst it) c) its) (aget c wl).
Proof.
  induction its as [|[c0 [[[p cn] wt] s]] r IH]; intros wl c; cbn [fold_left filter fst]; [reflexivity|].
  rewrite IH. cbn [add_item]. beq c0 c E.
  - subst c0. cbn [fold_left merge_item]. rewrite add_entry_get_same. reflexivity.
  - rewrite add_entry_get_other by exact E. reflexivity.
Qed.

Definition it_cancel (it : item) : bool := let '(_, (_, cn, _, _)) := it in cn.
Definition it_sdh (it : item) : bool := let '(_, (_, _, _, s)) := it in s.
Definition it_wt (it : item) : Z := let '(_, (_, _, wt, _)) := it in wt.

Lemma merge_fold_flags : forall its e,
  match fold_left merge_item its (Some e) with
  | Some e' =>
      e_cancel e' = e_cancel e || existsb it_cancel its /\
      e_sdh e' = e_sdh e || existsb it_sdh its /\
      e_wt e' = (if (e_wt e =? WHave) && existsb (fun it => it_wt it =? WBlock) its then WBlock else e_wt e)
  | None => False
  end.
Proof.
  induction its as [|[c0 [[[p cn] wt] s]] r IH]; intro e; cbn [fold_left merge_item existsb].
  - rewrite !orb_false_r, andb_false_r. repeat split; reflexivity.
  - specialize (IH (merge_ent e p cn wt s)).
    destruct (fold_left merge_item r (Some (merge_ent e p cn wt s))) as [e'|]; [|exact IH].
    destruct IH as (Hc & Hs & Hw). rewrite Hc, Hs, Hw.
    rewrite merge_cancel_sticky, merge_sdh_sticky. cbn [it_cancel it_sdh it_wt].
    split; [destruct cn, (e_cancel e); reflexivity|].
    split; [destruct s, (e_sdh e); reflexivity|].
    cbn [merge_ent e_wt]. unfold WBlock, WHave.
    destruct (wt =? 0) eqn:E1; destruct (e_wt e =? 1) eqn:E2; cbn [andb orb].
    + apply Z.eqb_eq in E1. subst wt. cbn [Z.eqb andb]. reflexivity.
    + destruct (existsb _ r); rewrite ?andb_false_r, ?andb_true_r, ?E2; reflexivity.
    + rewrite E2. cbn [andb]. reflexivity.
    + rewrite E2. cbn [andb]. reflexivity.
Qed.

Lemma merge_idem : forall e p c wt s,
  let e1 := merge_ent e p c wt s in merge_ent e1 p c wt s = merge_ent (merge_ent e1 p c wt s) p c wt s.
Proof.
  intros [ep ew ec es] p c wt s. cbv zeta. unfold merge_ent, WBlock, WHave; cbn [e_prio e_wt e_cancel e_sdh].
  destruct c, s, ec, es;
    repeat match goal with |- context [?a =? ?b] => let E := fresh "E" in destruct (a =? b) eqn:E end;
    cbn [andb] in *;
    repeat match goal with
    | HH : (_ =? _) = true |- _ => apply Z.eqb_eq in HH
    | HH : (_ =? _) = false |- _ => apply Z.eqb_neq in HH
    end;
    try reflexivity; try (exfalso; lia); f_equal; try lia.
Qed.

(** ---------- every message built through the API is well-formed ---------- *)
Section KeysP.
  Context {V : Type}.
  Implicit Types (l : list (bytes * V)).

  Lemma key_in_aset : forall l k v x, In x (map fst (aset k v l)) -> x = k \/ In x (map fst l).
  Proof.
    intros l k v x HI. apply in_map_iff in HI. destruct HI as ([k1 v1] & HE & HI). cbn [fst] in HE. subst k1.
    apply in_aset in HI. destruct HI as [HE|HI].
    - left. congruence.
    - right. apply in_map_iff. exists (x, v1). split; [reflexivity | exact HI].
  Qed.

  Lemma NoDup_aset : forall l k v, NoDup (map fst l) -> NoDup (map fst (aset k v l)).
  Proof.
    induction l as [|[k0 v0] r IH]; intros k v ND; cbn [aset].
    - cbn. constructor; [intros [] | constructor].
    - cbn [map fst] in ND. inversion ND as [|? ? HNI ND']; subst.
      beq k k0 E; cbn [map fst].
      + subst k0. constructor; assumption.
      + constructor; [|apply IH; exact ND'].
        intro HI. apply key_in_aset in HI. destruct HI as [HE|HI]; [congruence | contradiction].
  Qed.

  Lemma in_adel : forall l k x, In x (adel k l) -> In x l /\ fst x <> k.
  Proof.
    induction l as [|[k0 v0] r IH]; intros k x; cbn [adel]; [intros []|].
    beq k k0 E.
    - intro HI. apply IH in HI. destruct HI as [HI HN]. split; [right; exact HI | exact HN].
    - cbn [In]. intros [HE|HI].
      + subst x. split; [left; reflexivity | cbn [fst]; congruence].
      + apply IH in HI. destruct HI as [HI HN]. split; [right; exact HI | exact HN].
  Qed.

  Lemma NoDup_adel : forall l k, NoDup (map fst l) -> NoDup (map fst (adel k l)).
  Proof.
    induction l as [|[k0 v0] r IH]; intros k ND; cbn [adel]; [constructor|].
    cbn [map fst] in ND. inversion ND as [|? ? HNI ND']; subst.
    destruct (bytes_eqb k k0); [apply IH; exact ND'|].
    cbn [map fst]. constructor; [|apply IH; exact ND'].
    intro HI. apply in_map_iff in HI. destruct HI as ([k1 v1] & HE & HI). cbn [fst] in HE. subst k1.
    apply in_adel in HI. destruct HI as [HI _]. apply HNI. apply in_map_iff. exists (k0, v1). split; [reflexivity | exact HI].
  Qed.
End KeysP.

Section Api.
  Variable H : prefix -> bytes -> option cid.

  Definition wfP (m : msg) : Prop :=
    NoDup (map fst (m_wl m)) /\ NoDup (map fst (m_blocks m)) /\ NoDup (map fst (m_pres m)) /\
    (forall c e, In (c, e) (m_wl m) -> validb c = true) /\
    (forall c d, In (c, d) (m_blocks m) -> validb c = true /\ H (prefix_of c) d = Some c) /\
    (forall c t, In (c, t) (m_pres m) -> validb c = true /\ amem c (m_blocks m) = false).

  Lemma wfP_wfb : forall m, wfP m -> wfb H m = true.
  Proof.
    intros m (NDw & NDb & NDp & Vw & Vb & Vp). unfold wfb.
    repeat (apply andb_true_iff; split).
    - apply nodupb_NoDup. exact NDw.
    - apply nodupb_NoDup. exact NDb.
    - apply nodupb_NoDup. exact NDp.
    - apply forallb_forall. intros [c e] HI. apply (Vw c e HI).
    - apply forallb_forall. intros [c d] HI. apply (Vb c d HI).
    - unfold selfcertb. apply forallb_forall. intros [c d] HI. cbn [fst snd].
      destruct (Vb c d HI) as [_ HH]. rewrite HH. apply bytes_eqb_refl.
    - apply forallb_forall. intros [c t] HI. cbn [fst]. destruct (Vp c t HI) as [Hv Hm].
      rewrite Hv, Hm. reflexivity.
  Qed.

  Lemma wfP_set_wl_aset : forall m c e, wfP m -> validb c = true -> wfP (set_wl m (aset c e (m_wl m))).
  Proof.
    intros m c e (NDw & NDb & NDp & Vw & Vb & Vp) Hv. unfold wfP, set_wl; cbn [m_wl m_blocks m_pres].
    split; [apply NoDup_aset; exact NDw|]. split; [exact NDb|]. split; [exact NDp|].
    split; [|split; [exact Vb | exact Vp]].
    intros c' e' HI. apply in_aset in HI. destruct HI as [HE|HI]; [congruence | apply (Vw c' e' HI)].
  Qed.

  Lemma step_wfP : forall m o, wfP m -> op_okb H o = true -> wfP (step m o).
  Proof.
    intros m o Hwf Hok. destruct o as [c p wt sdh|c|c|c d|c t|n|f]; cbn [step op_okb] in *.
    - unfold add_entry. destruct (aget c (m_wl m)); apply wfP_set_wl_aset; assumption.
    - unfold add_entry. destruct (aget c (m_wl m)); apply wfP_set_wl_aset; assumption.
    - destruct Hwf as (NDw & NDb & NDp & Vw & Vb & Vp). unfold wfP, set_wl; cbn [m_wl m_blocks m_pres].
      split; [apply NoDup_adel; exact NDw|]. split; [exact NDb|]. split; [exact NDp|].
      split; [|split; [exact Vb | exact Vp]].
      intros c' e' HI. apply in_adel in HI. destruct HI as [HI _]. apply (Vw c' e' HI).
    - destruct Hwf as (NDw & NDb & NDp & Vw & Vb & Vp).
      apply andb_true_iff in Hok. destruct Hok as [Hv Hh].
      destruct (H (prefix_of c) d) as [c'|] eqn:EH; [|discriminate]. apply bytes_eqb_eq in Hh. subst c'.
      unfold wfP, add_block; cbn [m_wl m_blocks m_pres].
      split; [exact NDw|]. split; [apply NoDup_aset; exact NDb|]. split; [apply NoDup_adel; exact NDp|].
      split; [exact Vw|]. split.
      + intros c' d' HI. apply in_aset in HI. destruct HI as [HE|HI]; [|apply (Vb c' d' HI)].
        inversion HE; subst c' d'. split; assumption.
      + intros c' t' HI. apply in_adel in HI. destruct HI as [HI HN]. cbn [fst] in HN.
        destruct (Vp c' t' HI) as [Hv' Hm']. split; [exact Hv'|].
        apply amem_false. apply amem_false in Hm'. rewrite aget_aset_other by congruence. exact Hm'.
    - destruct Hwf as (NDw & NDb & NDp & Vw & Vb & Vp). unfold add_presence.
      destruct (amem c (m_blocks m)) eqn:Em; [exact (conj NDw (conj NDb (conj NDp (conj Vw (conj Vb Vp)))))|].
      unfold wfP; cbn [m_wl m_blocks m_pres].
      split; [exact NDw|]. split; [exact NDb|]. split; [apply NoDup_aset; exact NDp|].
      split; [exact Vw|]. split; [exact Vb|].
      intros c' t' HI. apply in_aset in HI. destruct HI as [HE|HI]; [|apply (Vp c' t' HI)].
      inversion HE; subst c' t'. split; assumption.
    - exact Hwf.
    - unfold wfP, empty; cbn [m_wl m_blocks m_pres map].
      split; [constructor|]. split; [constructor|]. split; [constructor|].
      split; [intros ? ? []|]. split; intros ? ? [].
  Qed.

  Theorem api_wf : forall ops full, forallb (op_okb H) ops = true -> wfb H (run full ops) = true.
  Proof.
    intros ops full Hok. apply wfP_wfb. unfold run.
    assert (W0 : wfP (empty full)).
    { unfold wfP, empty; cbn [m_wl m_blocks m_pres map].
      split; [constructor|]. split; [constructor|]. split; [constructor|].
      split; [intros ? ? []|]. split; intros ? ? []. }
    revert W0 Hok. generalize (empty full). induction ops as [|o r IH]; intros m W Hok; cbn [fold_left]; [exact W|].
    cbn [forallb] in Hok. apply andb_true_iff in Hok. destruct Hok as [Ho Hr].
    apply IH; [apply step_wfP; assumption | exact Hr].
  Qed.
End Api.
