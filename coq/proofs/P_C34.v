From Coq Require Import List ZArith Bool NArith Lia.
From V Require Import lib.Verdict model.M_C34.
Import ListNotations.
Open Scope Z_scope.

Ltac zb :=
  repeat match goal with
  | |- context [?a =? ?b] => let E := fresh "E" in destruct (a =? b) eqn:E
  end;
  repeat match goal with
  | H : (_ =? _) = true |- _ => apply Z.eqb_eq in H
  | H : (_ =? _) = false |- _ => apply Z.eqb_neq in H
  end.

Lemma merge_idem : forall e p c wt s,
  let e1 := merge_ent e p c wt s in merge_ent (merge_ent e1 p c wt s) p c wt s = merge_ent e1 p c wt s.
Proof.
  intros [ep ew ec es] p c wt s. cbv zeta. unfold merge_ent, WBlock, WHave; cbn [e_prio e_wt e_cancel e_sdh].
  destruct c, s, ec, es; zb; cbn [andb] in *; zb; cbn [andb] in *; try reflexivity; try (exfalso; lia); f_equal; try lia.
Qed.
