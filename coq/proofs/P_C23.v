(** C23 — proofs: every prefix of every operation's datastore writes is recoverable. *)
From Coq Require Import List Bool Arith NArith Lia.
From V Require Import lib.Verdict lib.PinModel lib.PinFacts model.M_C23.
Import ListNotations.
Open Scope N_scope.

(** a pinner between operations: indexes and records agree, ids unique, and the persisted
    dirty flag is set whenever the in-memory state is dirty *)
Definition Good (p : pst) : Prop := Inv [] p.

Lemma would_unpin_unpins o c : would_unpin o c = unpins o c.
Proof. destruct o; reflexivity. Qed.

Lemma Inv_with_log C l p : Inv C p -> Inv C (with_log l p).
Proof. intros H. eapply Inv_same; [| |exact H]; reflexivity. Qed.

(** core: an operation run from a good state leaves, after each of its writes, a datastore on
    which the CIDs of [C] have records and which a reopening pinner repairs *)
Lemma exec_log_ok C fl newid p o r p' lg :
  Inv C p -> fresh newid (st p) -> allowed fl o C ->
  exec_log fl newid p o = (r, p', lg) ->
  Inv C p' /\
  forall n, Inv C (open_pinner (crash n lg (st p))) /\
            consistent (recover (crash n lg (st p))) = true /\
            (forall c, In c C -> pinned (recover (crash n lg (st p))) c = true).
Proof.
  intros HI Hf Hal Hrun. unfold exec_log in Hrun.
  destruct (exec fl newid (with_log [] p) o) as [r0 p0] eqn:E. inversion Hrun. subst r p' lg. clear Hrun.
  destruct (exec_ok C fl newid (with_log [] p) o r0 p0 (Inv_with_log C [] p HI) Hf Hal E) as [J1 [ws [Hl [Hs HQ]]]].
  split; [apply Inv_with_log; exact J1|].
  cbn [with_log log] in Hl. rewrite app_nil_r in Hl. rewrite Hl, rev_involutive.
  intros n. unfold crash, recover. destruct (HQ n) as [HP HPr]. cbn [with_log st] in HP, HPr.
  destruct (open_ok C _ HP HPr) as (K1 & _ & _).
  split; [exact K1|]. split; [eapply Inv_consistent; exact K1|].
  intros c Hc. eapply Inv_pinned; eassumption.
Qed.

(** C23_consistent_after_recovery, both defect settings *)
Theorem consistent_after_recovery fl newid p o :
  Good p -> fresh newid (st p) ->
  let '(_, p', lg) := exec_log fl newid p o in
  Good p' /\ forall n, consistent (recover (crash n lg (st p))) = true /\ Good (open_pinner (crash n lg (st p))).
Proof.
  intros HG Hf. destruct (exec_log fl newid p o) as [[r p'] lg] eqn:E.
  destruct (exec_log_ok [] fl newid p o r p' lg HG Hf) as [J1 J2]; [intros c []|exact E|].
  split; [exact J1|]. intros n. destruct (J2 n) as (K1 & K2 & _). split; assumption.
Qed.

Lemma Inv_add_prot p c : Good p -> pinned (st p) c = true -> Inv [c] p.
Proof.
  intros (H1 & H2 & H3 & H4 & _) Hp. unfold Inv. repeat (split; [assumption|]).
  intros c' [E|[]]. subst c'. apply pinned_rec; assumption.
Qed.

(** C23_preserves_others, defect off *)
Theorem preserves_others newid p o c :
  Good p -> fresh newid (st p) -> pinned (st p) c = true -> would_unpin o c = false ->
  let '(_, _, lg) := exec_log flags_fixed newid p o in
  forall n, pinned (recover (crash n lg (st p))) c = true.
Proof.
  intros HG Hf Hp Hw. destruct (exec_log flags_fixed newid p o) as [[r p'] lg] eqn:E.
  destruct (exec_log_ok [c] flags_fixed newid p o r p' lg (Inv_add_prot p c HG Hp) Hf) as [_ J2]; [|exact E|].
  - intros c' [Ec|[]]. subst c'. split; [rewrite <- would_unpin_unpins; exact Hw|]. intros X. discriminate.
  - intros n. destruct (J2 n) as (_ & _ & K). apply K. left. reflexivity.
Qed.

(** what the current code still guarantees: CIDs the operation does not name stay pinned *)
Theorem preserves_untouched fl newid p o c :
  Good p -> fresh newid (st p) -> pinned (st p) c = true -> would_unpin o c = false -> repins o c = false ->
  let '(_, _, lg) := exec_log fl newid p o in
  forall n, pinned (recover (crash n lg (st p))) c = true.
Proof.
  intros HG Hf Hp Hw Hr. destruct (exec_log fl newid p o) as [[r p'] lg] eqn:E.
  destruct (exec_log_ok [c] fl newid p o r p' lg (Inv_add_prot p c HG Hp) Hf) as [_ J2]; [|exact E|].
  - intros c' [Ec|[]]. subst c'. split; [rewrite <- would_unpin_unpins; exact Hw|]. intros _. exact Hr.
  - intros n. destruct (J2 n) as (_ & _ & K). apply K. left. reflexivity.
Qed.

(** whole histories with crashes in between: states reachable by operations and by
    crash-and-reopen at any write are good *)
Inductive reachable (fl : flags) : pst -> Prop :=
| r_init : reachable fl (open_pinner empty_store)
| r_op p newid o : reachable fl p -> fresh newid (st p) ->
    reachable fl (snd (fst (exec_log fl newid p o)))
| r_crash p newid o n : reachable fl p -> fresh newid (st p) ->
    reachable fl (open_pinner (crash n (snd (exec_log fl newid p o)) (st p))).

Theorem reachable_good fl p : reachable fl p -> Good p /\ consistent (st p) = true.
Proof.
  intros H. assert (HG : Good p).
  { induction H as [|p newid o Hr IH Hf|p newid o n Hr IH Hf].
    - exact Inv_empty.
    - pose proof (consistent_after_recovery fl newid p o IH Hf) as K.
      destruct (exec_log fl newid p o) as [[r p'] lg]. exact (proj1 K).
    - pose proof (consistent_after_recovery fl newid p o IH Hf) as K.
      destruct (exec_log fl newid p o) as [[r p'] lg]. cbn [snd]. exact (proj2 (proj2 K n)). }
  split; [exact HG|]. eapply Inv_consistent. exact HG.
Qed.

(** the defect of the current code: a recursive re-pin under a new name, stopped after the
    fourth write (dirty flag, cid index entry, name index entry, record of the old pin
    deleted), leaves the CID unpinned *)
Definition witness_pre : pst := snd (fst (exec_log flags_now 1 (open_pinner empty_store) (OPin 5 true 1 true))).

Theorem repin_refuted :
  exists p newid o n c,
    reachable flags_now p /\ fresh newid (st p) /\ pinned (st p) c = true /\ would_unpin o c = false /\
    pinned (recover (crash n (snd (exec_log flags_now newid p o)) (st p))) c = false.
Proof.
  exists witness_pre, 2, (OPin 5 true 2 true), 4%nat, 5.
  split; [apply (r_op flags_now (open_pinner empty_store) 1 (OPin 5 true 1 true)); [apply r_init|intros []]|].
  split; [vm_compute; intros [H|[]]; discriminate|].
  vm_compute. repeat split; reflexivity.
Qed.
