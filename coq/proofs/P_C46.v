(** C46 — proofs about the peer-handler transition system [M_C46]. *)
From Coq Require Import List ZArith Bool NArith Lia.
From V Require Import lib.Verdict model.M_C46.
Import ListNotations.
Open Scope Z_scope.

Ltac Zify.zify_post_hook ::= Z.div_mod_to_equations.

(** ---------- backoff arithmetic ---------- *)
Lemma nb_next_ok d r1 r2 :
  initial_delay <= d <= max_backoff -> 0 <= r1 < d -> 0 <= r2 < jitter_span ->
  next_ok d (nb d r1 r2) = true.
Proof.
  unfold next_ok, nb, initial_delay, max_backoff, jitter_span. intros Hd H1 H2.
  destruct (Z.ltb_spec d 600000000000) as [Hlt|Hge].
  - destruct (Z.ltb_spec 600000000000 (d + d / 2 + r1)) as [Hc|Hc].
    + apply orb_true_iff. right. rewrite !andb_true_iff, !Z.ltb_lt, Z.leb_le. lia.
    + apply orb_true_iff. left. rewrite !andb_true_iff, !Z.leb_le, Z.ltb_lt. lia.
  - destruct (Z.ltb_spec 600000000000 d); [lia|]. apply Z.eqb_eq. reflexivity.
Qed.

Lemma next_ok_nb d d' :
  initial_delay <= d <= max_backoff -> next_ok d d' = true ->
  exists r1 r2, 0 <= r1 < d /\ 0 <= r2 < jitter_span /\ nb d r1 r2 = d'.
Proof.
  unfold next_ok, nb, initial_delay, max_backoff, jitter_span. intros Hd H.
  destruct (Z.ltb_spec d 600000000000) as [Hlt|Hge].
  - apply orb_true_iff in H as [H|H].
    + rewrite !andb_true_iff, !Z.leb_le, Z.ltb_lt in H. destruct H as [[Ha Hb] Hc].
      exists (d' - (d + d / 2)), 0. split; [lia|]. split; [lia|].
      replace (d + d / 2 + (d' - (d + d / 2))) with d' by lia.
      destruct (Z.ltb_spec 600000000000 d'); [lia|reflexivity].
    + rewrite !andb_true_iff, !Z.ltb_lt, Z.leb_le in H. destruct H as [[Ha Hb] Hc].
      exists (d - 1), (600000000000 - d'). split; [lia|]. split; [lia|].
      destruct (Z.ltb_spec 600000000000 (d + d / 2 + (d - 1))); lia.
  - apply Z.eqb_eq in H. subst d'. exists 0, 0. split; [lia|]. split; [lia|].
    destruct (Z.ltb_spec 600000000000 d); [lia|reflexivity].
Qed.

Lemma next_ok_range d d' :
  initial_delay <= d <= max_backoff -> next_ok d d' = true ->
  initial_delay <= d' <= max_backoff /\ (d <= d' \/ max_backoff - jitter_span < d').
Proof.
  unfold next_ok, initial_delay, max_backoff, jitter_span. intros Hd H.
  destruct (Z.ltb_spec d 600000000000) as [Hlt|Hge].
  - apply orb_true_iff in H as [H|H].
    + rewrite !andb_true_iff, !Z.leb_le, Z.ltb_lt in H. lia.
    + rewrite !andb_true_iff, !Z.ltb_lt, Z.leb_le in H. lia.
  - apply Z.eqb_eq in H. lia.
Qed.

(** every value nextBackoff can return lies in (0, 10 min], for every sequence of draws *)
Fixpoint backoffs (d : Z) (draws : list (Z * Z)) : list Z :=
  match draws with
  | [] => []
  | (r1, r2) :: r => let d' := nb d r1 r2 in d' :: backoffs d' r
  end.

Fixpoint draws_ok (d : Z) (draws : list (Z * Z)) : Prop :=
  match draws with
  | [] => True
  | (r1, r2) :: r => 0 <= r1 < d /\ 0 <= r2 < jitter_span /\ draws_ok (nb d r1 r2) r
  end.

Lemma backoff_sequence_range : forall draws d,
  initial_delay <= d <= max_backoff -> draws_ok d draws ->
  Forall (fun x => 0 < x <= max_backoff) (backoffs d draws).
Proof.
  induction draws as [|[r1 r2] draws IH]; intros d Hd Hok; cbn [backoffs]; [constructor|].
  cbn [draws_ok] in Hok. destruct Hok as (H1 & H2 & Hok).
  pose proof (next_ok_range d _ Hd (nb_next_ok d r1 r2 Hd H1 H2)) as [Hr _].
  constructor; [unfold initial_delay in Hr; lia|]. apply IH; assumption.
Qed.

(** ---------- the invariant of the repaired handler ---------- *)
Definition budget (s : st) : nat := match recon s with Some RDial => 1%nat | _ => 0%nat end.

Definition dead_ok (s : st) : Prop :=
  match recon s with Some RDial | Some (RTail _) => True | _ => False end.

Definition Inv (s : st) : Prop :=
  initial_delay <= delay s <= max_backoff /\
  (tm s = TDead -> dead_ok s) /\
  (registered s = true -> connected s = false -> tm s = TNil -> (0 < pstart s)%nat) /\
  (cancelled s = true -> tm s = TNil) /\
  (cancelled s = negb (registered s)).

Ltac prj := cbn [tm cancelled registered connected delay pstart pstop recon dials_live dials_dead upd_tm] in *.
Ltac fin := unfold Inv, dead_ok, upd_tm in *; prj; unfold initial_delay, max_backoff in *;
            repeat split; intros; prj; try lia; try discriminate; try congruence; auto;
            try (match goal with Hx : ?a = TDead, HI : ?a = TDead -> _ |- _ => exact (HI Hx) end).

Lemma Inv_init conn : Inv (init conn).
Proof. unfold init. fin. Qed.

Ltac inv_some H := injection H as <-.

Lemma step_Inv s e s' : Inv s -> step fixed_flags s e = Some s' -> Inv s'.
Proof.
  intros (Hd & HI1 & HI2 & HI3 & HI4) H.
  destruct e as [| |d'| | |ok|d'| |]; cbn [step fixed_flags f_start_after_stop f_dead_timer negb andb] in H.
  - (* EConn *) inv_some H. fin.
  - (* EDisc *) inv_some H. fin. destruct (registered s); [lia|discriminate].
  - (* ERunStart *)
    destruct (pstart s) as [|n] eqn:Ep; [discriminate|].
    destruct (cancelled s) eqn:Ec.
    + destruct (d' =? delay s); [|discriminate]. inv_some H. fin.
      destruct (registered s); discriminate.
    + cbn [andb] in H.
      destruct (is_nil (tm s) && negb (connected s)) eqn:Eg.
      * destruct (next_ok (delay s) d') eqn:En; [|discriminate]. inv_some H.
        pose proof (next_ok_range _ _ Hd En) as [Hr _]. fin.
      * destruct (d' =? delay s); [|discriminate]. inv_some H. fin.
        match goal with Ht : tm s = TNil, Hc : connected s = false |- _ => rewrite Ht, Hc in Eg; discriminate end.
  - (* ERunStop *)
    destruct (pstop s) as [|n] eqn:Ep; [discriminate|].
    destruct (negb (is_nil (tm s)) && connected s) eqn:Eg; inv_some H.
    + apply andb_true_iff in Eg as [_ Hc]. fin.
    + fin.
  - (* EFire *)
    destruct (recon s) eqn:Er; [discriminate|].
    destruct (is_armed (tm s)) eqn:Ea; [|discriminate]. inv_some H.
    destruct (tm s) eqn:Et; try discriminate. fin.
    match goal with Hc : cancelled s = true |- _ => specialize (HI3 Hc); discriminate end.
  - (* EDialRet *)
    destruct (recon s) as [[| |]|] eqn:Er; try discriminate.
    destruct (cancelled s) eqn:Ec; inv_some H.
    + fin.
    + fin. destruct ok; [discriminate|]. apply HI2; assumption.
  - (* ETail1 *)
    destruct (recon s) as [[|ok|]|] eqn:Er; try discriminate.
    destruct (is_nil (tm s)) eqn:En.
    + destruct (d' =? delay s); [|discriminate]. inv_some H. fin.
      match goal with Ht : tm s = TDead |- _ => rewrite Ht in En; discriminate end.
    + destruct (connected s) eqn:Ecn.
      * destruct (d' =? initial_delay); [|discriminate]. inv_some H. fin.
      * destruct (next_ok (delay s) d') eqn:Enx; [|discriminate]. inv_some H.
        pose proof (next_ok_range _ _ Hd Enx) as [Hr _]. fin.
        match goal with Hc : cancelled s = true |- _ => specialize (HI3 Hc); rewrite HI3 in En; discriminate end.
  - (* ETail2 *)
    destruct (recon s) as [[| |]|] eqn:Er; try discriminate. inv_some H. fin.
    match goal with Ht : tm s = TDead |- _ => specialize (HI1 Ht); unfold dead_ok in HI1; rewrite Er in HI1; exact HI1 end.
  - (* EStop *)
    inv_some H. fin.
Qed.

(** the invariant implies the state clauses of the property *)
Lemma Inv_spec s : Inv s -> spec_scheduled s = true /\ spec_quiet s = true.
Proof.
  intros (Hd & HI1 & HI2 & HI3 & HI4). split.
  - unfold spec_scheduled.
    destruct (registered s && negb (connected s) && quiescent s) eqn:Eg; [|reflexivity].
    apply andb_true_iff in Eg as [Eg Hq]. apply andb_true_iff in Eg as [Hr Hc].
    apply negb_true_iff in Hc. unfold quiescent in Hq. apply andb_true_iff in Hq as [Hp Hrec].
    apply Nat.eqb_eq in Hp. destruct (recon s) eqn:Er; [discriminate|].
    destruct (tm s) eqn:Et.
    + specialize (HI2 Hr Hc eq_refl). lia.
    + cbn [is_armed andb]. unfold initial_delay, max_backoff in *.
      apply andb_true_iff. split; [apply Z.ltb_lt; lia|apply Z.leb_le; lia].
    + specialize (HI1 eq_refl). unfold dead_ok in HI1. rewrite Er in HI1. contradiction.
  - unfold spec_quiet. destruct (cancelled s) eqn:Ec; [|reflexivity].
    rewrite (HI3 eq_refl). reflexivity.
Qed.

(** once stopped: stays stopped, no Connect with a live context, and the number of Connect calls
    still to come is bounded by the reconnect in flight *)
Lemma step_stopped s e s' :
  Inv s -> cancelled s = true -> step fixed_flags s e = Some s' ->
  cancelled s' = true /\ dials_live s' = dials_live s /\
  (dials_dead s' + budget s' <= dials_dead s + budget s)%nat.
Proof.
  intros (Hd & HI1 & HI2 & HI3 & HI4) Hc H. pose proof (HI3 Hc) as Ht.
  destruct e as [| |d'| | |ok|d'| |]; cbn [step fixed_flags f_start_after_stop f_dead_timer negb andb] in H.
  - inv_some H. unfold budget. prj. auto.
  - inv_some H. unfold budget. prj. auto.
  - destruct (pstart s); [discriminate|]. rewrite Hc in H.
    destruct (d' =? delay s); [|discriminate]. inv_some H. unfold budget. prj. auto.
  - destruct (pstop s); [discriminate|]. rewrite Ht in H. cbn [is_nil negb andb] in H.
    inv_some H. unfold budget. prj. auto.
  - destruct (recon s); [discriminate|]. rewrite Ht in H. discriminate.
  - destruct (recon s) as [[| |]|] eqn:Er; try discriminate. rewrite Hc in H. inv_some H.
    unfold budget. prj. rewrite Er. repeat split; auto. lia.
  - destruct (recon s) as [[|ok|]|] eqn:Er; try discriminate. rewrite Ht in H. cbn [is_nil] in H.
    destruct (d' =? delay s); [|discriminate]. inv_some H. unfold budget. prj. rewrite Er. auto.
  - destruct (recon s) as [[| |]|] eqn:Er; try discriminate. inv_some H. unfold budget. prj. rewrite Er. auto.
  - inv_some H. unfold budget. prj. auto.
Qed.

Definition step_or_stay (s : st) (e : ev) : st :=
  match step fixed_flags s e with Some x => x | None => s end.

Lemma step_or_stay_Inv s e : Inv s -> Inv (step_or_stay s e).
Proof.
  intros HI. unfold step_or_stay. destruct (step fixed_flags s e) eqn:E; [eapply step_Inv; eassumption|exact HI].
Qed.

(** trace lemma with the stop snapshot [a] *)
Lemma run_spec_stopped : forall es s a,
  Inv s -> cancelled s = true -> dials_live s = dials_live a ->
  (dials_dead s + budget s <= dials_dead a + budget a)%nat ->
  spec_trace_from (Some a) (run fixed_flags s es) = true.
Proof.
  induction es as [|e es IH]; intros s a HI Hc Hl Hb; cbn [run spec_trace_from]; [reflexivity|].
  fold (step_or_stay s e).
  pose proof (step_or_stay_Inv s e HI) as HI'.
  assert (Hst : cancelled (step_or_stay s e) = true /\ dials_live (step_or_stay s e) = dials_live s /\
                (dials_dead (step_or_stay s e) + budget (step_or_stay s e) <= dials_dead s + budget s)%nat).
  { unfold step_or_stay. destruct (step fixed_flags s e) eqn:E; [eapply step_stopped; eassumption|auto]. }
  destruct Hst as (Hc' & Hl' & Hb'). destruct (Inv_spec _ HI') as [H1 H2].
  rewrite H1, H2. cbn [andb].
  assert (Hd : spec_dials_after_stop a (step_or_stay s e) = true).
  { unfold spec_dials_after_stop. apply andb_true_iff. split.
    - apply Nat.eqb_eq. congruence.
    - apply Nat.leb_le. unfold budget in *. destruct (recon a) as [[| |]|]; lia. }
  rewrite Hd. cbn [andb]. apply IH; auto; lia.
Qed.

Lemma run_spec_live : forall es s,
  Inv s -> cancelled s = false -> spec_trace_from None (run fixed_flags s es) = true.
Proof.
  induction es as [|e es IH]; intros s HI Hc; cbn [run spec_trace_from]; [reflexivity|].
  fold (step_or_stay s e).
  pose proof (step_or_stay_Inv s e HI) as HI'. destruct (Inv_spec _ HI') as [H1 H2].
  rewrite H1, H2. cbn [andb].
  destruct (cancelled (step_or_stay s e)) eqn:Ec'.
  - apply run_spec_stopped; auto.
  - apply IH; assumption.
Qed.

(** MAIN: for every initial connectedness and EVERY sequence of events — any interleaving of
    notifications, deferred goroutines, timer expiries, dial outcomes, stop — with any backoff
    values nextBackoff can produce, the repaired handler satisfies the property at every step *)
Theorem handler_meets_spec conn es : spec_trace (run fixed_flags (init conn) es) = true.
Proof. unfold spec_trace. apply run_spec_live; [apply Inv_init|reflexivity]. Qed.

(** in Prop form, for every reachable state *)
Inductive reachable : st -> Prop :=
| reach_init : forall conn, reachable (init conn)
| reach_step : forall s e s', reachable s -> step fixed_flags s e = Some s' -> reachable s'.

Lemma reachable_Inv s : reachable s -> Inv s.
Proof. induction 1 as [conn|s e s' _ IH H]; [apply Inv_init|eapply step_Inv; eassumption]. Qed.

Theorem scheduled_while_running s :
  reachable s -> registered s = true -> connected s = false -> pstart s = 0%nat -> recon s = None ->
  tm s = TArmed /\ 0 < delay s <= max_backoff.
Proof.
  intros Hr Hreg Hc Hp Hrec. destruct (Inv_spec s (reachable_Inv s Hr)) as [H _].
  unfold spec_scheduled, quiescent in H. rewrite Hreg, Hc, Hp, Hrec in H. cbn in H.
  apply andb_true_iff in H as [H H3]. apply andb_true_iff in H as [H1 H2].
  destruct (tm s); try discriminate. split; [reflexivity|]. apply Z.ltb_lt in H2. apply Z.leb_le in H3. lia.
Qed.

Theorem quiet_after_stop s :
  reachable s -> cancelled s = true ->
  tm s = TNil /\
  forall e s', step fixed_flags s e = Some s' ->
    cancelled s' = true /\ dials_live s' = dials_live s /\ (dials_dead s' + budget s' <= dials_dead s + budget s)%nat.
Proof.
  intros Hr Hc. pose proof (reachable_Inv s Hr) as HI. split.
  - destruct HI as (_ & _ & _ & H3 & _). apply H3. exact Hc.
  - intros e s' H. eapply step_stopped; eassumption.
Qed.

(** ---------- the two defects of the code before the repairs, refuted ---------- *)
Lemma start_after_stop_refuted :
  exists es, spec_trace (run {| f_start_after_stop := true; f_dead_timer := false |} (init false) es) = false.
Proof. exists [EStop; ERunStart 7500000000]. vm_compute. reflexivity. Qed.

Lemma dead_timer_refuted :
  exists es, spec_trace (run {| f_start_after_stop := false; f_dead_timer := true |} (init false) es) = false.
Proof.
  exists [ERunStart 7500000000; EFire; EDialRet true; EDisc; ERunStart 7500000000; ETail1 7500000000; ETail2; ERunStop].
  vm_compute. reflexivity.
Qed.
