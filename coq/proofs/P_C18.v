(** C18 — part B of the proofs: the FSNode model [M_C18] refines the abstract
    metadata specification for every history, through every serialisation. *)
From Coq Require Import List ZArith Bool Lia.
From V Require Import lib.Verdict lib.GoInt lib.Varint lib.Pb lib.UnixFsPb gen.Gen_C18 model.M_C18
  proofs.P_C18_perm.
Import ListNotations.
Open Scope Z_scope.

(** ---------- mask arithmetic (constants only, no bit blasting) ---------- *)
Lemma land_small : forall p, 0 <= p < 4096 -> Z.land p 4095 = p.
Proof. intros p H. change 4095 with (Z.ones 12). rewrite Z.land_ones by lia. apply Z.mod_small. exact H. Qed.

Lemma land_4095_range : forall a, 0 <= Z.land a 4095 < 4096.
Proof. intro a. pose proof (land_le_r a 4095 ltac:(lia)). lia. Qed.

Lemma lor_ext_perm_low : forall a u,
  Z.land (Z.lor (Z.land a ext_mask) (Z.land u 4095)) 4095 = Z.land u 4095.
Proof.
  intros. rewrite Z.land_lor_distr_l, <- !Z.land_assoc.
  change (Z.land ext_mask 4095) with 0. change (Z.land 4095 4095) with 4095.
  rewrite Z.land_0_r, Z.lor_0_l. reflexivity.
Qed.

Lemma lor_ext_perm_high : forall a u,
  Z.land (Z.lor (Z.land a ext_mask) (Z.land u 4095)) ext_mask = Z.land a ext_mask.
Proof.
  intros. rewrite Z.land_lor_distr_l, <- !Z.land_assoc.
  change (Z.land ext_mask ext_mask) with ext_mask. change (Z.land 4095 ext_mask) with 0.
  rewrite Z.land_0_r, Z.lor_0_r. reflexivity.
Qed.

Lemma u32_bound_land : forall a c, 0 <= c < two32 -> 0 <= Z.land a c < two32.
Proof. intros a c H. pose proof (land_le_r a c ltac:(lia)). lia. Qed.

Lemma lor_u32 : forall a b, 0 <= a < two32 -> 0 <= b < two32 -> 0 <= Z.lor a b < two32.
Proof. intros a b Ha Hb. change two32 with (2 ^ 32) in *. apply lor_bound; lia. Qed.

(** the shifted extended word [(x << 12)] in uint32 *)
Definition ext_word (x : Z) : Z := (x * 4096) mod two32.

Lemma ext_word_eq : forall x, ext_word x = 4096 * (x mod 1048576).
Proof.
  intro x. unfold ext_word. change two32 with (1048576 * 4096).
  rewrite Z.mul_mod_distr_r by lia. lia.
Qed.

Lemma ext_word_range : forall x, 0 <= ext_word x < two32.
Proof. intro x. unfold ext_word. apply Z.mod_pos_bound. reflexivity. Qed.

Lemma ext_word_low : forall x, Z.land (ext_word x) 4095 = 0.
Proof.
  intro x. rewrite ext_word_eq. change 4095 with (Z.ones 12). rewrite Z.land_ones by lia.
  change (2 ^ 12) with 4096. rewrite Z.mul_comm. apply Z.mod_mul. lia.
Qed.

Lemma ext_word_high : forall x, Z.land (ext_word x) ext_mask = ext_word x.
Proof.
  intro x. pose proof (ext_word_range x) as R.
  assert (E : Z.land (ext_word x) (Z.ones 32) = ext_word x).
  { rewrite Z.land_ones by lia. apply Z.mod_small. exact R. }
  change (Z.ones 32) with (Z.lor ext_mask 4095) in E.
  rewrite Z.land_lor_distr_r, ext_word_low, Z.lor_0_r in E. exact E.
Qed.

Lemma ext_word_shift : forall x, Z.shiftr (ext_word x) 12 = Z.land x 1048575.
Proof.
  intro x. rewrite ext_word_eq, Z.shiftr_div_pow2 by lia. change (2 ^ 12) with 4096.
  rewrite Z.mul_comm, Z.div_mul by lia.
  change 1048575 with (Z.ones 20). rewrite Z.land_ones by lia. reflexivity.
Qed.

(** ---------- what Mode() shows of the stored word ---------- *)
Definition perm_of (d : data) : Z := Z.land (get_mode d) 4095.

Lemma typebits_off : forall a,
  Z.land (Z.lor a ModeDir) perm_mask = Z.land a perm_mask /\
  Z.land (Z.lor a ModeSymlink) perm_mask = Z.land a perm_mask.
Proof.
  intro a. rewrite !Z.land_lor_distr_l.
  change (Z.land ModeDir perm_mask) with 0. change (Z.land ModeSymlink perm_mask) with 0.
  rewrite Z.lor_0_r. split; reflexivity.
Qed.

(** the permission bits of Mode() are the spread of the 12 low stored bits *)
Lemma mode_of_perm_bits : forall d, Z.land (mode_of d) perm_mask = spread (perm_of d).
Proof.
  intro d. unfold mode_of. fold (perm_of d).
  pose proof (land_4095_range (get_mode d)) as R. fold (perm_of d) in R.
  destruct (Z.eqb_spec (perm_of d) 0) as [E|E].
  - rewrite E. reflexivity.
  - destruct (perm_word (perm_of d) R) as (_ & Hs & Hm).
    destruct ((get_type d =? TDirectory) || (get_type d =? THAMTShard)).
    + rewrite (proj1 (typebits_off _)), Hm. exact Hs.
    + destruct (get_type d =? TSymlink).
      * rewrite (proj2 (typebits_off _)), Hm. exact Hs.
      * rewrite Hm. exact Hs.
Qed.

(** ---------- frame facts of the record updaters ---------- *)
Ltac dd d := destruct d as [ty da fs bl ht fo mo mt].

Lemma set_mode_unix_perm : forall u d, perm_of (set_mode_unix u d) = Z.land u 4095.
Proof.
  intros u d. unfold set_mode_unix, perm_of.
  destruct (Z.eqb_spec u 0) as [->|Hu]; cbn [andb].
  - destruct (Z.eqb_spec (Z.land (Z.lor (Z.land (get_mode d) ext_mask) (Z.land 0 4095)) ext_mask) 0).
    + dd d. reflexivity.
    + dd d. cbn [with_mode get_mode d_mode opt0]. apply lor_ext_perm_low.
  - dd d. cbn [with_mode get_mode d_mode opt0]. apply lor_ext_perm_low.
Qed.

Lemma set_mode_unix_ext : forall u d, extended_mode (set_mode_unix u d) = extended_mode d.
Proof.
  intros u d. unfold set_mode_unix, extended_mode.
  destruct (Z.eqb_spec u 0) as [->|Hu]; cbn [andb].
  - destruct (Z.eqb_spec (Z.land (Z.lor (Z.land (get_mode d) ext_mask) (Z.land 0 4095)) ext_mask) 0) as [E|E].
    + rewrite lor_ext_perm_high in E. rewrite E. dd d. reflexivity.
    + dd d. cbn [with_mode get_mode d_mode opt0]. rewrite lor_ext_perm_high. reflexivity.
  - dd d. cbn [with_mode get_mode d_mode opt0]. rewrite lor_ext_perm_high. reflexivity.
Qed.

Lemma set_ext_perm : forall x d, perm_of (set_extended_mode x d) = perm_of d.
Proof.
  intros x d. unfold set_extended_mode, perm_of. fold (ext_word x).
  assert (L : Z.land (Z.lor (ext_word x) (Z.land 4095 (get_mode d))) 4095 = Z.land (get_mode d) 4095).
  { rewrite Z.land_lor_distr_l, ext_word_low, Z.lor_0_l, (Z.land_comm 4095), <- Z.land_assoc.
    reflexivity. }
  destruct (Z.eqb_spec (Z.lor (ext_word x) (Z.land 4095 (get_mode d))) 0) as [E|E].
  - rewrite E in L. rewrite <- L. dd d. reflexivity.
  - dd d. cbn [with_mode get_mode d_mode opt0] in *. exact L.
Qed.

Lemma set_ext_ext : forall x d, extended_mode (set_extended_mode x d) = Z.land x 1048575.
Proof.
  intros x d. unfold set_extended_mode, extended_mode. fold (ext_word x).
  assert (L : Z.land (Z.lor (ext_word x) (Z.land 4095 (get_mode d))) ext_mask = ext_word x).
  { rewrite Z.land_lor_distr_l, ext_word_high, <- Z.land_assoc, (Z.land_comm (get_mode d)), Z.land_assoc.
    change (Z.land 4095 ext_mask) with 0. rewrite Z.land_0_l, Z.lor_0_r. reflexivity. }
  destruct (Z.eqb_spec (Z.lor (ext_word x) (Z.land 4095 (get_mode d))) 0) as [E|E].
  - rewrite E in L. change (Z.land 0 ext_mask) with 0 in L. rewrite <- ext_word_shift, <- L.
    dd d. reflexivity.
  - dd d. cbn [with_mode get_mode d_mode opt0] in *. rewrite L. apply ext_word_shift.
Qed.

Lemma set_mode_unix_mode_range : forall u d, 0 <= get_mode d < two32 ->
  0 <= get_mode (set_mode_unix u d) < two32.
Proof.
  intros u d R. unfold set_mode_unix.
  assert (B : 0 <= Z.lor (Z.land (get_mode d) ext_mask) (Z.land u 4095) < two32).
  { apply lor_u32; apply u32_bound_land; unfold two32, ext_mask; lia. }
  destruct ((u =? 0) && _); dd d; cbn [with_mode get_mode d_mode opt0] in *; [unfold two32; lia|exact B].
Qed.

Lemma set_ext_mode_range : forall x d, 0 <= get_mode (set_extended_mode x d) < two32.
Proof.
  intros x d. unfold set_extended_mode. fold (ext_word x).
  assert (B : 0 <= Z.lor (ext_word x) (Z.land 4095 (get_mode d)) < two32).
  { apply lor_u32; [apply ext_word_range|].
    rewrite Z.land_comm. apply u32_bound_land. unfold two32. lia. }
  destruct (_ =? 0); dd d; cbn [with_mode get_mode d_mode opt0] in *; [unfold two32; lia|exact B].
Qed.

(** ---------- modification time ---------- *)
Definition wf_gtime (t : gtime) : Prop := - two63 <= fst t < two63 /\ 0 <= snd t < 1000000000.

Lemma mod_time_set : forall t d, wf_gtime t ->
  mod_time (set_mod_time t d) = if is_zero t then zero_time else t.
Proof.
  intros [s n] d [Hs Hn]. cbn [fst snd] in *. unfold set_mod_time.
  destruct (is_zero (s, n)); [dd d; reflexivity|].
  cbn [fst snd]. destruct (Z.ltb_spec 0 n) as [Hp|Hz].
  - dd d. unfold mod_time. cbn [with_mtime d_mtime t_sec t_nanos].
    destruct (Z.ltb_spec n 1); [lia|]. destruct (Z.ltb_spec 999999999 n); [lia|]. reflexivity.
  - dd d. unfold mod_time. cbn [with_mtime d_mtime t_sec t_nanos].
    replace n with 0 by lia. reflexivity.
Qed.

(** zero time in = unset = zero time out, and nothing else reads as zero *)
Lemma mod_time_zero_iff : forall t d, wf_gtime t ->
  is_zero (mod_time (set_mod_time t d)) = is_zero t.
Proof.
  intros t d H. rewrite mod_time_set by exact H.
  destruct (is_zero t) eqn:E; [reflexivity|exact E].
Qed.

(** ---------- well-formedness is preserved ---------- *)
Definition wf_optdata (b : option (list Z)) : Prop :=
  match b with Some l => blen l < two64 | None => True end.

Lemma wf_with_data : forall d b, wf_data d -> wf_optdata b -> wf_data (with_data d b).
Proof. intros d b H Hb. dd d. unfold wf_data in *. cbn in *. tauto. Qed.
Lemma wf_with_filesize : forall d x, wf_data d -> in_opt in_u64 x -> wf_data (with_filesize d x).
Proof. intros d b H Hb. dd d. unfold wf_data in *. cbn in *. tauto. Qed.
Lemma wf_with_blocks : forall d x, wf_data d -> Forall in_u64 x -> wf_data (with_blocks d x).
Proof. intros d b H Hb. dd d. unfold wf_data in *. cbn in *. tauto. Qed.
Lemma wf_with_mode : forall d x, wf_data d -> in_opt (fun m => 0 <= m < two32) x -> wf_data (with_mode d x).
Proof. intros d b H Hb. dd d. unfold wf_data in *. cbn in *. tauto. Qed.
Lemma wf_with_mtime : forall d x, wf_data d ->
  match x with Some t => wf_mtime t | None => True end -> wf_data (with_mtime d x).
Proof. intros d b H Hb. dd d. unfold wf_data in *. cbn in *. tauto. Qed.
Lemma wf_with_type : forall d x, wf_data d -> in_opt (fun t => - two31 <= t < two31) x -> wf_data (with_type d x).
Proof. intros d b H Hb. dd d. unfold wf_data in *. cbn in *. tauto. Qed.
Lemma wf_with_hash_fanout : forall d h f, wf_data d -> in_opt in_u64 h -> in_opt in_u64 f ->
  wf_data (with_hash_fanout d h f).
Proof. intros d h f H Hh Hf. dd d. unfold wf_data in *. cbn in *. tauto. Qed.

Lemma wf_update_filesize : forall diff d, wf_data d -> wf_data (update_filesize diff d).
Proof. intros. unfold update_filesize. apply wf_with_filesize; [assumption|]. apply to_u64_range. Qed.

Lemma wf_empty : wf_data empty_data.
Proof. unfold wf_data. cbn. repeat split; auto. Qed.

Lemma wf_mode_range : forall d, wf_data d -> 0 <= get_mode d < two32.
Proof.
  intros d H. dd d. unfold wf_data in H. cbn in *. destruct H as (_ & _ & _ & _ & _ & _ & Hm & _).
  destruct mo; cbn in *; [exact Hm|unfold two32; lia].
Qed.

Lemma wf_data_len : forall d, wf_data d -> 0 <= blen (get_data d) < two64.
Proof.
  intros d H. dd d. unfold wf_data in H. cbn in *. destruct H as (_ & Hd & _).
  destruct da; cbn; [pose proof (blen_nonneg l); lia|unfold two64; lia].
Qed.

(** ---------- [initialized] is preserved ---------- *)
Lemma init_with_data : forall d x, initialized (with_data d x) = initialized d.
Proof. intros; dd d; reflexivity. Qed.
Lemma init_with_filesize : forall d x, initialized (with_filesize d x) = initialized d.
Proof. intros; dd d; reflexivity. Qed.
Lemma init_with_blocks : forall d x, initialized (with_blocks d x) = initialized d.
Proof. intros; dd d; reflexivity. Qed.
Lemma init_with_mode : forall d x, initialized (with_mode d x) = initialized d.
Proof. intros; dd d; reflexivity. Qed.
Lemma init_with_hash_fanout : forall d h f, initialized (with_hash_fanout d h f) = initialized d.
Proof. intros; dd d; reflexivity. Qed.

(** ---------- sums ---------- *)
Lemma sum_list_app : forall a b, sum_list (a ++ b) = sum_list a + sum_list b.
Proof.
  unfold sum_list. induction a as [|x a IH]; intro b; cbn [app fold_right]; [reflexivity|].
  rewrite IH. lia.
Qed.

Lemma sum_remove_nth : forall i l x, nth_error l i = Some x ->
  sum_list (remove_nth i l) = sum_list l - x.
Proof.
  unfold sum_list.
  induction i as [|i IH]; intros [|y l] x E; cbn [nth_error] in E; try discriminate.
  - injection E as ->. cbn [remove_nth fold_right]. lia.
  - cbn [remove_nth fold_right]. rewrite (IH l x E). lia.
Qed.

Lemma Forall_remove_nth : forall {A} (P : A -> Prop) i l, Forall P l -> Forall P (remove_nth i l).
Proof.
  induction i as [|i IH]; intros [|y l] H; cbn [remove_nth]; try constructor.
  - inversion H; assumption.
  - inversion H; assumption.
  - apply IH. inversion H; assumption.
Qed.

Lemma to_u64_add_l : forall a b, to_u64 (to_u64 a + b) = to_u64 (a + b).
Proof. intros. unfold to_u64. apply Z.add_mod_idemp_l. unfold two64. lia. Qed.

Lemma to_i64_congr : forall x, to_u64 (to_i64 x) = to_u64 x.
Proof.
  intro x. unfold to_i64, to_u64. destruct (x mod two64 <? two63).
  - apply Z.mod_mod. unfold two64. lia.
  - rewrite <- (Z.mod_add _ 1) by (unfold two64; lia).
    replace (x mod two64 - two64 + 1 * two64) with (x mod two64) by lia.
    apply Z.mod_mod. unfold two64. lia.
Qed.

Lemma to_u64_add_i64 : forall a x, to_u64 (a + to_i64 x) = to_u64 (a + x).
Proof.
  intros. unfold to_u64. rewrite <- Z.add_mod_idemp_r by (unfold two64; lia).
  fold (to_u64 (to_i64 x)). rewrite to_i64_congr. unfold to_u64.
  rewrite Z.add_mod_idemp_r by (unfold two64; lia). reflexivity.
Qed.

Lemma to_u64_sub_i64 : forall a x, to_u64 (a + - to_i64 x) = to_u64 (a - x).
Proof.
  intros. unfold to_u64.
  replace (a + - to_i64 x) with (a - to_i64 x) by lia.
  rewrite Zminus_mod, (Zminus_mod a x).
  fold (to_u64 (to_i64 x)). rewrite to_i64_congr. reflexivity.
Qed.

Lemma to_u64_idem : forall a, to_u64 (to_u64 a) = to_u64 a.
Proof. intro. unfold to_u64. apply Z.mod_mod. unfold two64. lia. Qed.

(** ================================================================
    The invariant linking a node to the abstract metadata
    ================================================================ *)
Record inv (d : data) (s : sstate) : Prop := {
  i_wf : wf_data d;
  i_init : initialized d = true;
  i_type : get_type d = s_type s;
  i_perm : spread (perm_of d) = s_perm s;
  i_ext : extended_mode d = s_ext s;
  i_time : mod_time d = s_time s;
  i_len : blen (get_data d) = s_datalen s;
  i_blocks : d_blocksizes d = s_blocks s;
  i_size : s_sized s = true -> get_filesize d = to_u64 (s_datalen s + sum_list (s_blocks s))
}.

Definition wf_op (o : op) : Prop :=
  match o with
  | OSetData b => wf_optdata b
  | OAddBlock x => in_u64 x
  | OSetModTime t => wf_gtime t
  | _ => True
  end.

(** accessors that ignore the fields an updater touches *)
Lemma frame_filesize : forall d x,
  get_type (with_filesize d x) = get_type d /\ perm_of (with_filesize d x) = perm_of d /\
  extended_mode (with_filesize d x) = extended_mode d /\ mod_time (with_filesize d x) = mod_time d /\
  get_data (with_filesize d x) = get_data d /\ d_blocksizes (with_filesize d x) = d_blocksizes d /\
  get_filesize (with_filesize d x) = opt0 x.
Proof. intros; dd d; repeat split. Qed.
Lemma frame_data : forall d x,
  get_type (with_data d x) = get_type d /\ perm_of (with_data d x) = perm_of d /\
  extended_mode (with_data d x) = extended_mode d /\ mod_time (with_data d x) = mod_time d /\
  d_blocksizes (with_data d x) = d_blocksizes d /\ get_filesize (with_data d x) = get_filesize d /\
  get_data (with_data d x) = match x with Some b => b | None => [] end.
Proof. intros; dd d; repeat split. Qed.
Lemma frame_blocks : forall d x,
  get_type (with_blocks d x) = get_type d /\ perm_of (with_blocks d x) = perm_of d /\
  extended_mode (with_blocks d x) = extended_mode d /\ mod_time (with_blocks d x) = mod_time d /\
  get_data (with_blocks d x) = get_data d /\ get_filesize (with_blocks d x) = get_filesize d /\
  d_blocksizes (with_blocks d x) = x.
Proof. intros; dd d; repeat split. Qed.
Lemma frame_mode : forall d x,
  get_type (with_mode d x) = get_type d /\ mod_time (with_mode d x) = mod_time d /\
  get_data (with_mode d x) = get_data d /\ d_blocksizes (with_mode d x) = d_blocksizes d /\
  get_filesize (with_mode d x) = get_filesize d.
Proof. intros; dd d; repeat split. Qed.
Lemma frame_mtime : forall d x,
  get_type (with_mtime d x) = get_type d /\ perm_of (with_mtime d x) = perm_of d /\
  extended_mode (with_mtime d x) = extended_mode d /\
  get_data (with_mtime d x) = get_data d /\ d_blocksizes (with_mtime d x) = d_blocksizes d /\
  get_filesize (with_mtime d x) = get_filesize d.
Proof. intros; dd d; repeat split. Qed.

Lemma frame_set_mode_unix : forall u d,
  get_type (set_mode_unix u d) = get_type d /\ mod_time (set_mode_unix u d) = mod_time d /\
  get_data (set_mode_unix u d) = get_data d /\ d_blocksizes (set_mode_unix u d) = d_blocksizes d /\
  get_filesize (set_mode_unix u d) = get_filesize d /\
  initialized (set_mode_unix u d) = initialized d.
Proof.
  intros u d. unfold set_mode_unix. destruct (_ && _);
    (repeat split; try apply frame_mode; apply init_with_mode).
Qed.
Lemma frame_set_ext : forall x d,
  get_type (set_extended_mode x d) = get_type d /\ mod_time (set_extended_mode x d) = mod_time d /\
  get_data (set_extended_mode x d) = get_data d /\ d_blocksizes (set_extended_mode x d) = d_blocksizes d /\
  get_filesize (set_extended_mode x d) = get_filesize d /\
  initialized (set_extended_mode x d) = initialized d.
Proof.
  intros x d. unfold set_extended_mode. destruct (_ =? 0);
    (repeat split; try apply frame_mode; apply init_with_mode).
Qed.

Lemma wf_set_mode_unix : forall u d, wf_data d -> wf_data (set_mode_unix u d).
Proof.
  intros u d H. pose proof (set_mode_unix_mode_range u d (wf_mode_range d H)) as R.
  unfold set_mode_unix in *. destruct (_ && _).
  - apply wf_with_mode; [exact H|exact I].
  - apply wf_with_mode; [exact H|]. dd d. cbn [with_mode get_mode d_mode opt0 in_opt] in *. exact R.
Qed.
Lemma wf_set_ext : forall x d, wf_data d -> wf_data (set_extended_mode x d).
Proof.
  intros x d H. pose proof (set_ext_mode_range x d) as R.
  unfold set_extended_mode in *. destruct (_ =? 0).
  - apply wf_with_mode; [exact H|exact I].
  - apply wf_with_mode; [exact H|]. dd d. cbn [with_mode get_mode d_mode opt0 in_opt] in *. exact R.
Qed.

(** FileMode in, permission bits out *)
Lemma spread_unix_of_mode : forall m,
  spread (Z.land (ModePermsToUnixPerms m) 4095) = Z.land m perm_mask.
Proof.
  intro m. pose proof (unix_perms_range m) as R. rewrite land_small by exact R.
  destruct (perm_word _ R) as (_ & Hs & _). rewrite <- Hs. apply mode_of_unix_of_mode.
Qed.

(** every operation keeps the invariant *)
Lemma step_inv : forall o d s s', inv d s -> wf_op o -> spec_step s o = Some s' ->
  exists d', step d o = Some d' /\ inv d' s'.
Proof.
  intros o d s s' I W E. destruct I as [Iwf Iinit Ity Iperm Iext Itime Ilen Ibl Isz].
  destruct o as [b|x|i| |diff|m|u|x|t| ]; cbn [spec_step step wf_op] in *.
  - (* SetData *)
    injection E as <-. eexists; split; [reflexivity|]. unfold set_data.
    set (d1 := update_filesize _ d).
    assert (W1 : wf_data d1) by (apply wf_update_filesize; exact Iwf).
    destruct (frame_data d1 b) as (F1 & F2 & F3 & F4 & F5 & F6 & F7).
    destruct (frame_filesize d (Some (to_u64 (get_filesize d +
      (match b with Some l => blen l | None => 0 end - blen (get_data d)))))) as (G1 & G2 & G3 & G4 & G5 & G6 & G7).
    fold (update_filesize (match b with Some l => blen l | None => 0 end - blen (get_data d)) d) in *.
    fold d1 in G1, G2, G3, G4, G5, G6, G7.
    constructor; cbn [s_type s_perm s_ext s_time s_datalen s_blocks s_sized].
    + apply wf_with_data; assumption.
    + rewrite init_with_data. unfold d1, update_filesize. rewrite init_with_filesize. exact Iinit.
    + congruence.
    + congruence.
    + congruence.
    + congruence.
    + rewrite F7. destruct b; reflexivity.
    + congruence.
    + intro Hs. rewrite F6, G7. cbn [opt0]. rewrite (Isz Hs), Ilen.
      rewrite to_u64_add_l. f_equal. lia.
  - (* AddBlock *)
    injection E as <-. eexists; split; [reflexivity|]. unfold add_blocksize.
    set (d1 := update_filesize (to_i64 x) d).
    assert (W1 : wf_data d1) by (apply wf_update_filesize; exact Iwf).
    destruct (frame_blocks d1 (d_blocksizes d1 ++ [x])) as (F1 & F2 & F3 & F4 & F5 & F6 & F7).
    destruct (frame_filesize d (Some (to_u64 (get_filesize d + to_i64 x)))) as (G1 & G2 & G3 & G4 & G5 & G6 & G7).
    fold (update_filesize (to_i64 x) d) in *. fold d1 in G1, G2, G3, G4, G5, G6, G7.
    constructor; cbn [s_type s_perm s_ext s_time s_datalen s_blocks s_sized].
    + apply wf_with_blocks; [exact W1|]. rewrite G6. apply Forall_app. split.
      * dd d. unfold wf_data in Iwf. cbn in *. tauto.
      * constructor; [exact W|constructor].
    + rewrite init_with_blocks. unfold d1, update_filesize. rewrite init_with_filesize. exact Iinit.
    + congruence.
    + congruence.
    + congruence.
    + congruence.
    + rewrite F5, G5. exact Ilen.
    + rewrite F7, G6, Ibl. reflexivity.
    + intro Hs. rewrite F6, G7. cbn [opt0]. rewrite (Isz Hs), to_u64_add_l, to_u64_add_i64.
      rewrite sum_list_app. cbn [sum_list fold_right]. f_equal. lia.
  - (* RemoveBlock *)
    rewrite <- Ibl in E. unfold remove_blocksize.
    destruct (nth_error (d_blocksizes d) i) as [sz|] eqn:En; [|discriminate].
    injection E as <-. eexists; split; [reflexivity|].
    set (d1 := update_filesize (- to_i64 sz) d).
    assert (W1 : wf_data d1) by (apply wf_update_filesize; exact Iwf).
    destruct (frame_blocks d1 (remove_nth i (d_blocksizes d1))) as (F1 & F2 & F3 & F4 & F5 & F6 & F7).
    destruct (frame_filesize d (Some (to_u64 (get_filesize d + - to_i64 sz)))) as (G1 & G2 & G3 & G4 & G5 & G6 & G7).
    fold (update_filesize (- to_i64 sz) d) in *. fold d1 in G1, G2, G3, G4, G5, G6, G7.
    constructor; cbn [s_type s_perm s_ext s_time s_datalen s_blocks s_sized].
    + apply wf_with_blocks; [exact W1|]. rewrite G6. apply Forall_remove_nth.
      dd d. unfold wf_data in Iwf. cbn in *. tauto.
    + rewrite init_with_blocks. unfold d1, update_filesize. rewrite init_with_filesize. exact Iinit.
    + congruence.
    + congruence.
    + congruence.
    + congruence.
    + rewrite F5, G5. exact Ilen.
    + rewrite F7, G6. reflexivity.
    + intro Hs. rewrite F6, G7. cbn [opt0]. rewrite (Isz Hs), to_u64_add_l, to_u64_sub_i64.
      rewrite (sum_remove_nth i _ sz En), <- Ibl. f_equal. lia.
  - (* RemoveAll *)
    injection E as <-. eexists; split; [reflexivity|]. unfold remove_all_blocksizes.
    destruct (frame_blocks d []) as (F1 & F2 & F3 & F4 & F5 & F6 & F7).
    destruct (frame_filesize (with_blocks d []) (Some (blen (get_data d)))) as (G1 & G2 & G3 & G4 & G5 & G6 & G7).
    constructor; cbn [s_type s_perm s_ext s_time s_datalen s_blocks s_sized].
    + apply wf_with_filesize; [apply wf_with_blocks; [exact Iwf|constructor]|].
      cbn [in_opt]. apply wf_data_len. exact Iwf.
    + rewrite init_with_filesize, init_with_blocks. exact Iinit.
    + congruence.
    + congruence.
    + congruence.
    + congruence.
    + rewrite G5, F5. exact Ilen.
    + rewrite G6, F7. reflexivity.
    + intros _. rewrite G7. cbn [opt0 sum_list fold_right]. rewrite Z.add_0_r, <- Ilen.
      symmetry. apply to_u64_nonneg. apply wf_data_len. exact Iwf.
  - (* UpdateFilesize *)
    injection E as <-. eexists; split; [reflexivity|].
    destruct (frame_filesize d (Some (to_u64 (get_filesize d + diff)))) as (G1 & G2 & G3 & G4 & G5 & G6 & G7).
    fold (update_filesize diff d) in *.
    constructor; cbn [s_type s_perm s_ext s_time s_datalen s_blocks s_sized].
    + apply wf_update_filesize. exact Iwf.
    + unfold update_filesize. rewrite init_with_filesize. exact Iinit.
    + congruence.
    + congruence.
    + congruence.
    + congruence.
    + rewrite G5. exact Ilen.
    + congruence.
    + intro Hs. apply andb_true_iff in Hs. destruct Hs as [Hd Hs]. apply Z.eqb_eq in Hd. subst diff.
      rewrite G7. cbn [opt0]. rewrite (Isz Hs), Z.add_0_r. apply to_u64_idem.
  - (* SetMode *)
    injection E as <-. eexists; split; [reflexivity|]. unfold set_mode.
    destruct (frame_set_mode_unix (ModePermsToUnixPerms m) d) as (F1 & F2 & F3 & F4 & F5 & F6).
    constructor; cbn [s_type s_perm s_ext s_time s_datalen s_blocks s_sized].
    + apply wf_set_mode_unix. exact Iwf.
    + congruence.
    + congruence.
    + rewrite set_mode_unix_perm. apply spread_unix_of_mode.
    + rewrite set_mode_unix_ext. exact Iext.
    + congruence.
    + rewrite F3. exact Ilen.
    + congruence.
    + intro Hs. rewrite F5. exact (Isz Hs).
  - (* SetModeFromUnixPermissions *)
    injection E as <-. eexists; split; [reflexivity|].
    destruct (frame_set_mode_unix u d) as (F1 & F2 & F3 & F4 & F5 & F6).
    constructor; cbn [s_type s_perm s_ext s_time s_datalen s_blocks s_sized].
    + apply wf_set_mode_unix. exact Iwf.
    + congruence.
    + congruence.
    + rewrite set_mode_unix_perm. reflexivity.
    + rewrite set_mode_unix_ext. exact Iext.
    + congruence.
    + rewrite F3. exact Ilen.
    + congruence.
    + intro Hs. rewrite F5. exact (Isz Hs).
  - (* SetExtendedMode *)
    injection E as <-. eexists; split; [reflexivity|].
    destruct (frame_set_ext x d) as (F1 & F2 & F3 & F4 & F5 & F6).
    constructor; cbn [s_type s_perm s_ext s_time s_datalen s_blocks s_sized].
    + apply wf_set_ext. exact Iwf.
    + congruence.
    + congruence.
    + rewrite set_ext_perm. exact Iperm.
    + apply set_ext_ext.
    + congruence.
    + rewrite F3. exact Ilen.
    + congruence.
    + intro Hs. rewrite F5. exact (Isz Hs).
  - (* SetModTime *)
    injection E as <-. eexists; split; [reflexivity|].
    pose proof (mod_time_set t d W) as MT.
    unfold set_mod_time in *. destruct W as [Ws Wn].
    destruct (is_zero t).
    + destruct (frame_mtime d None) as (F1 & F2 & F3 & F4 & F5 & F6).
      constructor; cbn [s_type s_perm s_ext s_time s_datalen s_blocks s_sized].
      * apply wf_with_mtime; [exact Iwf|exact I].
      * dd d. unfold initialized in *. cbn in *. rewrite andb_true_r.
        apply andb_true_iff in Iinit. tauto.
      * congruence.
      * congruence.
      * congruence.
      * exact MT.
      * rewrite F4. exact Ilen.
      * congruence.
      * intro Hs. rewrite F6. exact (Isz Hs).
    + match goal with |- context [with_mtime d ?x] => destruct (frame_mtime d x) as (F1 & F2 & F3 & F4 & F5 & F6) end.
      constructor; cbn [s_type s_perm s_ext s_time s_datalen s_blocks s_sized].
      * apply wf_with_mtime; [exact Iwf|]. split; cbn [t_sec t_nanos in_opt]; [exact Ws|].
        destruct (0 <? snd t); cbn [in_opt]; [unfold two32; lia|exact I].
      * dd d. unfold initialized in *. cbn in *. rewrite andb_true_r.
        apply andb_true_iff in Iinit. tauto.
      * congruence.
      * congruence.
      * congruence.
      * exact MT.
      * rewrite F4. exact Ilen.
      * congruence.
      * intro Hs. rewrite F6. exact (Isz Hs).
  - (* RoundTrip: serialisation changes nothing *)
    injection E as <-. exists d. split.
    + unfold encode_data. rewrite Iinit.
      apply (decode_encode d); [exact Iwf|]. unfold encode_data. rewrite Iinit. reflexivity.
    + constructor; assumption.
Qed.

Lemma run_inv : forall ops d s s', inv d s -> Forall wf_op ops -> spec_run s ops = Some s' ->
  exists d', run d ops = Some d' /\ inv d' s'.
Proof.
  induction ops as [|o ops IH]; intros d s s' I W E; cbn [spec_run run] in *.
  - injection E as <-. exists d. split; [reflexivity|exact I].
  - inversion W as [|? ? Wo Wops]; subst.
    destruct (spec_step s o) as [s1|] eqn:E1; [|discriminate].
    destruct (step_inv o d s s1 I Wo E1) as (d1 & S1 & I1). rewrite S1.
    apply (IH d1 s1 s' I1 Wops E).
Qed.

(** the invariant gives the read-back clauses of the property *)
Lemma inv_meets : forall d s, inv d s -> meets s (view_of d) = true.
Proof.
  intros d s [Iwf Iinit Ity Iperm Iext Itime Ilen Ibl Isz]. unfold meets, view_of.
  cbn [v_mode v_ext v_time v_tzero v_size].
  rewrite mode_of_perm_bits, Iperm, Iext, Itime, !Z.eqb_refl.
  unfold gtime_eqb. rewrite !Z.eqb_refl, eqb_reflx. cbn [andb].
  unfold file_size, size_of. rewrite Ity.
  destruct (Z.eqb_spec (s_type s) TFile) as [E|E]; cbn [orb].
  - destruct (s_sized s) eqn:Hs; [|reflexivity].
    rewrite E. cbn. rewrite (Isz eq_refl). apply Z.eqb_refl.
  - destruct (Z.eqb_spec (s_type s) TRaw) as [E2|E2].
    + destruct (s_sized s) eqn:Hs; [|reflexivity].
      rewrite E2. cbn. rewrite (Isz eq_refl). apply Z.eqb_refl.
    + destruct (Z.eqb_spec (s_type s) TSymlink) as [E3|E3]; [|reflexivity].
      rewrite E3. cbn. rewrite Ilen. apply Z.eqb_refl.
Qed.

(** ---------- the constructors establish the invariant ---------- *)
Definition wf_init (i : init) : Prop :=
  match i with
  | INew t => - two31 <= t < two31
  | IFile b total => wf_optdata b /\ in_u64 total
  | IFileStat b total mode t => wf_optdata b /\ in_u64 total /\ wf_gtime t
  | IFolder => True
  | IFolderStat mode t => wf_gtime t
  | IWrap b => wf_optdata b
  | ISymlink b => blen b < two64
  | IHamt b fanout hashType mode t => wf_optdata b /\ in_u64 fanout /\ in_u64 hashType /\ wf_gtime t
  end.

Lemma olen_range : forall b, wf_optdata b -> in_u64 (match b with Some l => blen l | None => 0 end).
Proof.
  intros [l|] H; unfold in_u64; cbn in *; [pose proof (blen_nonneg l); lia|unfold two64; lia].
Qed.

Lemma typed_facts : forall t, - two31 <= t < two31 ->
  wf_data (typed t) /\ initialized (typed t) = true /\ get_type (typed t) = t /\
  perm_of (typed t) = 0 /\ extended_mode (typed t) = 0 /\ mod_time (typed t) = zero_time /\
  get_data (typed t) = [] /\ d_blocksizes (typed t) = [] /\ get_filesize (typed t) = 0.
Proof.
  intros t H. unfold typed. split; [apply wf_with_type; [apply wf_empty|exact H]|].
  repeat split.
Qed.

(** the part of the invariant that [add_stat] establishes *)
Lemma add_stat_facts : forall mode t d, wf_data d -> initialized d = true -> wf_gtime t ->
  d_mode d = None -> d_mtime d = None ->
  let d' := add_stat mode t d in
  wf_data d' /\ initialized d' = true /\ get_type d' = get_type d /\
  spread (perm_of d') = Z.land mode perm_mask /\ extended_mode d' = 0 /\
  mod_time d' = (if is_zero t then zero_time else t) /\
  get_data d' = get_data d /\ d_blocksizes d' = d_blocksizes d /\ get_filesize d' = get_filesize d.
Proof.
  intros mode t d Hwf Hin [Ws Wn] Hm Ht. cbv zeta. unfold add_stat.
  set (d1 := if mode =? 0 then d else with_mode d (Some (ModePermsToUnixPerms mode))).
  pose proof (unix_perms_range mode) as R.
  assert (P1 : wf_data d1 /\ initialized d1 = true /\ get_type d1 = get_type d /\
               spread (perm_of d1) = Z.land mode perm_mask /\ extended_mode d1 = 0 /\
               mod_time d1 = zero_time /\ d_mtime d1 = None /\
               get_data d1 = get_data d /\ d_blocksizes d1 = d_blocksizes d /\
               get_filesize d1 = get_filesize d).
  { unfold d1. destruct (Z.eqb_spec mode 0) as [->|Hne].
    - dd d. cbn in Hm, Ht. subst mo mt.
      split; [exact Hwf|]. split; [exact Hin|]. repeat split.
    - dd d. cbn in Hm, Ht. subst mo mt.
      split; [apply (wf_with_mode _ (Some _)); [exact Hwf|]; cbn [in_opt]; unfold two32; lia|].
      split; [exact Hin|]. split; [reflexivity|].
      split; [unfold perm_of; cbn [with_mode get_mode d_mode opt0]; apply spread_unix_of_mode|].
      split; [|repeat split].
      unfold extended_mode. cbn [with_mode get_mode d_mode opt0].
      assert (E : Z.land (ModePermsToUnixPerms mode) ext_mask = 0).
      { rewrite <- (land_small _ R), <- Z.land_assoc. change (Z.land 4095 ext_mask) with 0.
        apply Z.land_0_r. }
      rewrite E. reflexivity. }
  destruct P1 as (Q1 & Q2 & Q3 & Q4 & Q5 & Q6 & Q7 & Q8 & Q9 & Q10).
  destruct (is_zero t) eqn:Ez.
  - split; [exact Q1|]. split; [exact Q2|]. repeat split; assumption.
  - match goal with |- context [with_mtime d1 ?x] => destruct (frame_mtime d1 x) as (F1 & F2 & F3 & F4 & F5 & F6) end.
    split.
    { apply wf_with_mtime; [exact Q1|]. split; cbn [t_sec t_nanos in_opt]; [exact Ws|].
      destruct (0 <? snd t); cbn [in_opt]; [unfold two32; lia|exact I]. }
    split.
    { clear - Q2. dd d1. unfold initialized in *. cbn in *. rewrite andb_true_r.
      apply andb_true_iff in Q2. tauto. }
    split; [congruence|]. split; [congruence|]. split; [congruence|].
    split.
    { pose proof (mod_time_set t d1 (conj Ws Wn)) as MT. unfold set_mod_time in MT.
      rewrite Ez in MT. exact MT. }
    split; [congruence|]. split; congruence.
Qed.

Lemma init_data_inv : forall i, wf_init i -> inv (init_data i) (spec_init i).
Proof.
  intros i W. destruct i as [t|b total|b total mode t| |mode t|b|b|b fanout hashType mode t];
    cbn [init_data spec_init wf_init] in *.
  - (* INew *)
    destruct (typed_facts t W) as (T1 & T2 & T3 & T4 & T5 & T6 & T7 & T8 & T9).
    unfold new_fsnode. fold (typed t).
    destruct (frame_filesize (typed t) (Some (to_u64 (get_filesize (typed t) + 0)))) as (G1 & G2 & G3 & G4 & G5 & G6 & G7).
    fold (update_filesize 0 (typed t)) in *.
    constructor; cbn [s_type s_perm s_ext s_time s_datalen s_blocks s_sized].
    + apply wf_update_filesize. exact T1.
    + unfold update_filesize. rewrite init_with_filesize. exact T2.
    + congruence.
    + rewrite G2, T4. reflexivity.
    + congruence.
    + congruence.
    + rewrite G5, T7. reflexivity.
    + congruence.
    + intros _. rewrite G7, T9. reflexivity.
  - (* IFile *)
    destruct W as [Wb Wt].
    destruct (typed_facts TFile ltac:(unfold two31, TFile; lia)) as (T1 & T2 & T3 & T4 & T5 & T6 & T7 & T8 & T9).
    destruct (frame_data (typed TFile) b) as (F1 & F2 & F3 & F4 & F5 & F6 & F7).
    destruct (frame_filesize (with_data (typed TFile) b) (Some total)) as (G1 & G2 & G3 & G4 & G5 & G6 & G7).
    constructor; cbn [s_type s_perm s_ext s_time s_datalen s_blocks s_sized].
    + apply wf_with_filesize; [apply wf_with_data; assumption|exact Wt].
    + rewrite init_with_filesize, init_with_data. exact T2.
    + congruence.
    + rewrite G2, F2, T4. reflexivity.
    + congruence.
    + congruence.
    + rewrite G5, F7. destruct b; reflexivity.
    + congruence.
    + intro Hs. apply Z.eqb_eq in Hs. rewrite G7. cbn [opt0 sum_list fold_right].
      rewrite Z.add_0_r, <- Hs. symmetry. apply to_u64_nonneg. exact Wt.
  - (* IFileStat *)
    destruct W as (Wb & Wt & Wtm).
    destruct (typed_facts TFile ltac:(unfold two31, TFile; lia)) as (T1 & T2 & T3 & T4 & T5 & T6 & T7 & T8 & T9).
    destruct (frame_data (typed TFile) b) as (F1 & F2 & F3 & F4 & F5 & F6 & F7).
    destruct (frame_filesize (with_data (typed TFile) b) (Some total)) as (G1 & G2 & G3 & G4 & G5 & G6 & G7).
    set (d0 := with_filesize (with_data (typed TFile) b) (Some total)) in *.
    assert (W0 : wf_data d0) by (apply wf_with_filesize; [apply wf_with_data; assumption|exact Wt]).
    assert (I0 : initialized d0 = true) by (unfold d0; rewrite init_with_filesize, init_with_data; exact T2).
    destruct (add_stat_facts mode t d0 W0 I0 Wtm eq_refl eq_refl) as (A1 & A2 & A3 & A4 & A5 & A6 & A7 & A8 & A9).
    constructor; cbn [s_type s_perm s_ext s_time s_datalen s_blocks s_sized].
    + exact A1.
    + exact A2.
    + congruence.
    + exact A4.
    + exact A5.
    + exact A6.
    + rewrite A7, G5, F7. destruct b; reflexivity.
    + congruence.
    + intro Hs. apply Z.eqb_eq in Hs. rewrite A9, G7. cbn [opt0 sum_list fold_right].
      rewrite Z.add_0_r, <- Hs. symmetry. apply to_u64_nonneg. exact Wt.
  - (* IFolder *)
    destruct (typed_facts TDirectory ltac:(unfold two31, TDirectory; lia)) as (T1 & T2 & T3 & T4 & T5 & T6 & T7 & T8 & T9).
    constructor; cbn [s_type s_perm s_ext s_time s_datalen s_blocks s_sized].
    + exact T1.
    + exact T2.
    + exact T3.
    + rewrite T4. reflexivity.
    + exact T5.
    + exact T6.
    + rewrite T7. reflexivity.
    + exact T8.
    + intros _. exact T9.
  - (* IFolderStat *)
    destruct (typed_facts TDirectory ltac:(unfold two31, TDirectory; lia)) as (T1 & T2 & T3 & T4 & T5 & T6 & T7 & T8 & T9).
    destruct (add_stat_facts mode t (typed TDirectory) T1 T2 W eq_refl eq_refl) as (A1 & A2 & A3 & A4 & A5 & A6 & A7 & A8 & A9).
    constructor; cbn [s_type s_perm s_ext s_time s_datalen s_blocks s_sized].
    + exact A1.
    + exact A2.
    + congruence.
    + exact A4.
    + exact A5.
    + exact A6.
    + rewrite A7, T7. reflexivity.
    + congruence.
    + intros _. rewrite A9. exact T9.
  - (* IWrap *)
    destruct (typed_facts TRaw ltac:(unfold two31, TRaw; lia)) as (T1 & T2 & T3 & T4 & T5 & T6 & T7 & T8 & T9).
    destruct (frame_data (typed TRaw) b) as (F1 & F2 & F3 & F4 & F5 & F6 & F7).
    match goal with |- inv (with_filesize _ ?x) _ =>
      destruct (frame_filesize (with_data (typed TRaw) b) x) as (G1 & G2 & G3 & G4 & G5 & G6 & G7) end.
    constructor; cbn [s_type s_perm s_ext s_time s_datalen s_blocks s_sized].
    + apply wf_with_filesize; [apply wf_with_data; assumption|]. cbn [in_opt]. apply olen_range. exact W.
    + rewrite init_with_filesize, init_with_data. exact T2.
    + congruence.
    + rewrite G2, F2, T4. reflexivity.
    + congruence.
    + congruence.
    + rewrite G5, F7. destruct b; reflexivity.
    + congruence.
    + intros _. rewrite G7. cbn [opt0 sum_list fold_right]. rewrite Z.add_0_r.
      symmetry. apply to_u64_nonneg. apply olen_range. exact W.
  - (* ISymlink *)
    destruct (typed_facts TSymlink ltac:(unfold two31, TSymlink; lia)) as (T1 & T2 & T3 & T4 & T5 & T6 & T7 & T8 & T9).
    destruct (frame_data (typed TSymlink) (Some b)) as (F1 & F2 & F3 & F4 & F5 & F6 & F7).
    constructor; cbn [s_type s_perm s_ext s_time s_datalen s_blocks s_sized].
    + apply wf_with_data; [exact T1|exact W].
    + rewrite init_with_data. exact T2.
    + congruence.
    + rewrite F2, T4. reflexivity.
    + congruence.
    + congruence.
    + rewrite F7. reflexivity.
    + congruence.
    + intro Hs. discriminate Hs.
  - (* IHamt *)
    destruct W as (Wb & Wf & Wh & Wtm).
    destruct (typed_facts THAMTShard ltac:(unfold two31, THAMTShard; lia)) as (T1 & T2 & T3 & T4 & T5 & T6 & T7 & T8 & T9).
    destruct (frame_data (typed THAMTShard) b) as (F1 & F2 & F3 & F4 & F5 & F6 & F7).
    set (d0 := with_hash_fanout (with_data (typed THAMTShard) b) (Some hashType) (Some fanout)) in *.
    assert (W0 : wf_data d0) by (apply wf_with_hash_fanout; [apply wf_with_data; assumption|exact Wh|exact Wf]).
    assert (I0 : initialized d0 = true) by (unfold d0; rewrite init_with_hash_fanout, init_with_data; exact T2).
    destruct (add_stat_facts mode t d0 W0 I0 Wtm eq_refl eq_refl) as (A1 & A2 & A3 & A4 & A5 & A6 & A7 & A8 & A9).
    constructor; cbn [s_type s_perm s_ext s_time s_datalen s_blocks s_sized].
    + exact A1.
    + exact A2.
    + rewrite A3. reflexivity.
    + exact A4.
    + exact A5.
    + exact A6.
    + rewrite A7. unfold d0. destruct b; reflexivity.
    + rewrite A8. reflexivity.
    + intro Hs. discriminate Hs.
Qed.

(** the static constructors' bytes parse back to exactly the message built *)
Lemma init_node_data : forall i, wf_init i -> init_node i = Some (init_data i).
Proof.
  intros i W. pose proof (init_data_inv i W) as [Iwf Iinit _ _ _ _ _ _ _].
  destruct i; cbn [init_node]; try reflexivity;
    unfold encode_data; rewrite Iinit;
    (apply decode_encode; [exact Iwf|unfold encode_data; rewrite Iinit; reflexivity]).
Qed.

(** ================================================================
    Main theorem: every history, through every serialisation
    ================================================================ *)
Theorem history_refines : forall i ops s,
  wf_init i -> Forall wf_op ops -> spec_run (spec_init i) ops = Some s ->
  exists d0 d bs,
    init_node i = Some d0 /\ run d0 ops = Some d /\
    meets s (view_of d) = true /\
    encode_data d = Some bs /\ decode_data bs = Some d.
Proof.
  intros i ops s Wi Wo E.
  destruct (run_inv ops (init_data i) (spec_init i) s (init_data_inv i Wi) Wo E) as (d & R & I).
  exists (init_data i), d, (emit (data_fields d)).
  split; [apply init_node_data; exact Wi|]. split; [exact R|].
  split; [apply inv_meets; exact I|].
  destruct I as [Iwf Iinit _ _ _ _ _ _ _].
  assert (Enc : encode_data d = Some (emit (data_fields d))) by (unfold encode_data; rewrite Iinit; reflexivity).
  split; [exact Enc|]. apply decode_encode; assumption.
Qed.

(** single-step corollaries in the words of the property *)
Lemma node_wf_of_history : forall i ops s d0 d,
  wf_init i -> Forall wf_op ops -> spec_run (spec_init i) ops = Some s ->
  init_node i = Some d0 -> run d0 ops = Some d -> inv d s.
Proof.
  intros i ops s d0 d Wi Wo E E0 R.
  rewrite (init_node_data i Wi) in E0. injection E0 as <-.
  destruct (run_inv ops _ _ s (init_data_inv i Wi) Wo E) as (d' & R' & I). congruence.
Qed.

(** Mode after SetMode and a serialisation: same permission bits *)
Theorem mode_after_parse : forall d m bs,
  wf_data d -> initialized d = true ->
  encode_data (set_mode m d) = Some bs ->
  exists d', decode_data bs = Some d' /\
             Z.land (mode_of d') perm_mask = Z.land m perm_mask /\
             extended_mode d' = extended_mode d.
Proof.
  intros d m bs Hwf Hin E. exists (set_mode m d).
  split; [apply decode_encode; [apply wf_set_mode_unix; exact Hwf|exact E]|].
  split.
  - rewrite mode_of_perm_bits. unfold set_mode. rewrite set_mode_unix_perm. apply spread_unix_of_mode.
  - unfold set_mode. apply set_mode_unix_ext.
Qed.

(** the extended bits survive both permission setters, and setting them does
    not disturb the permissions *)
Theorem extended_preserved : forall d u x,
  extended_mode (set_mode_unix u d) = extended_mode d /\
  extended_mode (set_extended_mode x d) = Z.land x 1048575 /\
  mode_of (set_extended_mode x d) = mode_of d.
Proof.
  intros d u x. split; [apply set_mode_unix_ext|]. split; [apply set_ext_ext|].
  unfold mode_of. pose proof (set_ext_perm x d) as P. unfold perm_of in P. rewrite P.
  destruct (frame_set_ext x d) as (F1 & _). rewrite F1. reflexivity.
Qed.

(** ModTime after SetModTime and a serialisation: the same instant; zero = unset *)
Theorem mtime_roundtrip : forall d t bs,
  wf_data d -> initialized d = true -> wf_gtime t ->
  encode_data (set_mod_time t d) = Some bs ->
  exists d', decode_data bs = Some d' /\
             mod_time d' = (if is_zero t then zero_time else t) /\
             is_zero (mod_time d') = is_zero t /\
             (is_zero t = true <-> d_mtime d' = None).
Proof.
  intros d t bs Hwf Hin Wt E. exists (set_mod_time t d).
  assert (W' : wf_data (set_mod_time t d)).
  { unfold set_mod_time. destruct Wt as [Ws Wn]. destruct (is_zero t).
    - apply wf_with_mtime; [exact Hwf|exact I].
    - apply wf_with_mtime; [exact Hwf|]. split; cbn [t_sec t_nanos in_opt]; [exact Ws|].
      destruct (0 <? snd t); cbn [in_opt]; [unfold two32; lia|exact I]. }
  split; [apply decode_encode; [exact W'|exact E]|].
  split; [apply mod_time_set; exact Wt|].
  split; [apply mod_time_zero_iff; exact Wt|].
  unfold set_mod_time. destruct (is_zero t); dd d; cbn [with_mtime d_mtime]; split; intro H;
    try reflexivity; try discriminate.
Qed.

Lemma spec_step_type : forall s o s', spec_step s o = Some s' -> s_type s' = s_type s.
Proof.
  intros s o s' E. destruct o as [b|x|i| |diff|m|u|x|t| ]; cbn [spec_step] in E;
    try (injection E as <-; reflexivity).
  destruct (nth_error (s_blocks s) i); [injection E as <-; reflexivity|discriminate].
Qed.

Lemma spec_run_type : forall ops s s', spec_run s ops = Some s' -> s_type s' = s_type s.
Proof.
  induction ops as [|o ops IH]; intros s s' E; cbn [spec_run] in E.
  - injection E as <-. reflexivity.
  - destruct (spec_step s o) as [s1|] eqn:E1; [|discriminate].
    rewrite (IH _ _ E). apply (spec_step_type _ _ _ E1).
Qed.

(** FileSize after any content history (with serialisations anywhere in it) *)
Theorem size_accessors : forall t ops s d,
  - two31 <= t < two31 -> Forall wf_op ops ->
  spec_run (spec_init (INew t)) ops = Some s -> run (new_fsnode t) ops = Some d ->
  (s_sized s = true -> (t = TFile \/ t = TRaw) ->
     file_size d = to_u64 (s_datalen s + sum_list (s_blocks s))) /\
  (t = TSymlink -> file_size d = s_datalen s) /\
  s_datalen s = blen (get_data d) /\ s_blocks s = d_blocksizes d.
Proof.
  intros t ops s d Wt Wo E R.
  pose proof (node_wf_of_history (INew t) ops s (new_fsnode t) d Wt Wo E eq_refl R) as I.
  destruct I as [Iwf Iinit Ity Iperm Iext Itime Ilen Ibl Isz].
  pose proof (spec_run_type _ _ _ E) as Ts. cbn [spec_init s_type] in Ts.
  unfold file_size, size_of. rewrite Ity, Ts.
  split; [|split; [|split; [symmetry; exact Ilen|symmetry; exact Ibl]]].
  - intros Hs [->| ->]; cbn; exact (Isz Hs).
  - intros ->. cbn. exact Ilen.
Qed.
