(** C18 — proofs about the FSNode metadata model [M_C18]. *)
From Coq Require Import List ZArith Bool Lia.
From V Require Import lib.Verdict lib.GoInt lib.Varint lib.Pb lib.UnixFsPb gen.Gen_C18 model.M_C18.
Import ListNotations.
Open Scope Z_scope.

(** ---------- the 4096 permission words, exhaustively ---------- *)
Fixpoint zrange (n : nat) : list Z :=
  match n with O => [] | S n' => zrange n' ++ [Z.of_nat n'] end.

Lemma zrange_in : forall n z, 0 <= z < Z.of_nat n -> In z (zrange n).
Proof.
  induction n as [|n IH]; intros z H; [lia|].
  cbn [zrange]. apply in_or_app. destruct (Z.eq_dec z (Z.of_nat n)) as [->|Hne].
  - right. left. reflexivity.
  - left. apply IH. lia.
Qed.

Definition perm_sweep : bool :=
  forallb (fun p => (ModePermsToUnixPerms (UnixPermsToModePerms p) =? p) &&
                    (UnixPermsToModePerms p =? spread p) &&
                    (Z.land (UnixPermsToModePerms p) perm_mask =? UnixPermsToModePerms p))
          (zrange 4096).

Lemma perm_sweep_ok : perm_sweep = true.
Proof. vm_compute. reflexivity. Qed.

Lemma perm_word : forall p, 0 <= p < 4096 ->
  ModePermsToUnixPerms (UnixPermsToModePerms p) = p /\
  UnixPermsToModePerms p = spread p /\
  Z.land (UnixPermsToModePerms p) perm_mask = UnixPermsToModePerms p.
Proof.
  intros p H. pose proof perm_sweep_ok as S. unfold perm_sweep in S.
  rewrite forallb_forall in S. specialize (S p (zrange_in 4096 p H)).
  apply andb_true_iff in S. destruct S as [S S3]. apply andb_true_iff in S. destruct S as [S1 S2].
  apply Z.eqb_eq in S1, S2, S3. auto.
Qed.

Lemma unix_of_mode_of_unix : forall p, 0 <= p < 4096 ->
  ModePermsToUnixPerms (UnixPermsToModePerms p) = p.
Proof. intros p H. apply perm_word. assumption. Qed.
