(** C36 — concrete histories on which the model with one defect switched on fails the
    specification (the flag-off model meets it on the same history).  These are the
    witnesses replayed on the real engine by the harness corpus. *)
From Coq Require Import List ZArith Bool NArith Arith.
From V Require Import lib.Verdict model.M_C36 proofs.P_C36 proofs.P_C36_inv.
Import ListNotations.
Open Scope nat_scope.

Definition base (limit : nat) : cfg := CFG limit 1024 true true [] [].
Definition wit := (cfg * nat * list nat * list op)%type.

(** C36-1: wants {0:1, 1:5} with blocks, limit 2; a newcomer of priority 9 *)
Definition w1 : wit :=
  (base 2, 1, [0; 1; 2],
   [OMsg 0 false [W 0 1 true false true; W 1 5 true false true]; OMsg 0 false [W 2 9 true false true]; ODrain]).
(** C36-2: a full want-list [2] after wants 0,1 *)
Definition w2 : wit :=
  (base 3, 1, [0; 1; 2; 3],
   [OMsg 0 false [W 0 1 false false true; W 1 2 true false true]; OMsg 0 true [W 2 3 true false true]; ODrain]).
(** C36-3: want 0 queued, full want-list [1], drain *)
Definition w3 : wit :=
  (base 3, 1, [0; 1],
   [OMsg 0 false [W 0 1 true false true]; OMsg 0 true [W 1 2 true false true]; ODrain]).
(** C36-4: wants 0,1,2 queued and re-sent together with 3, limit 4 *)
Definition w4 : wit :=
  (base 4, 1, [0; 1; 2; 3],
   [OMsg 0 false [W 0 4 true false true; W 1 3 true false true; W 2 2 true false true];
    OMsg 0 false [W 0 4 true false true; W 1 3 true false true; W 2 2 true false true; W 3 1 true false true]; ODrain]).
(** C36-5: block 0 has length 0 and is present *)
Definition w5 : wit :=
  (CFG 3 1024 true true [] [(0, 0)], 1, [0; 1],
   [OMsg 0 false [W 0 2 true false true; W 1 1 true false true]; ODrain]).
(** C36-6: a denied want (DONT_HAVE requested) is cancelled before the envelope is built *)
Definition w6 : wit :=
  (CFG 3 1024 true true [(0, 0)] [], 1, [0],
   [OMsg 0 false [W 0 1 true false true]; OMsg 0 false [W 0 0 true true false]; ODrain]).

Definition wit_wf (w : wit) : bool := let '(_, _, _, ops) := w in forallb wf_opb ops.
Definition wit_spec (fl : flags) (w : wit) : bool :=
  let '(g, np, b0, ops) := w in spec_check g np b0 ops (run fl g (init np b0) ops).

Definition refutes (k : nat) (w : wit) : Prop :=
  let '(g, np, b0, ops) := w in
  Forall wf_op ops /\
  spec_check g np b0 ops (run (mkf [k]) g (init np b0) ops) = false /\
  spec_check g np b0 ops (run flags_off g (init np b0) ops) = true.

Lemma refutes_intro k w :
  wit_wf w = true -> wit_spec (mkf [k]) w = false -> wit_spec flags_off w = true -> refutes k w.
Proof.
  destruct w as [[[g np] b0] ops]. unfold wit_wf, wit_spec, refutes. intros H1 H2 H3.
  split; [apply wf_opsb_ok, H1|split; assumption].
Qed.

Lemma refuted1 : refutes 1 w1. Proof. apply refutes_intro; vm_compute; reflexivity. Qed.
Lemma refuted2 : refutes 2 w2. Proof. apply refutes_intro; vm_compute; reflexivity. Qed.
Lemma refuted3 : refutes 3 w3. Proof. apply refutes_intro; vm_compute; reflexivity. Qed.
Lemma refuted4 : refutes 4 w4. Proof. apply refutes_intro; vm_compute; reflexivity. Qed.
Lemma refuted5 : refutes 5 w5. Proof. apply refutes_intro; vm_compute; reflexivity. Qed.
Lemma refuted6 : refutes 6 w6. Proof. apply refutes_intro; vm_compute; reflexivity. Qed.
