(** C25 — proofs about IPNS validation ([lib/Ipns.v], [model/M_C25.v]). *)
From Coq Require Import ZArith List Bool Lia.
From V Require Import lib.Verdict lib.Varint lib.Pb lib.CborScalar lib.Ipns model.M_C25.
Import ListNotations.
Open Scope Z_scope.

Lemma bytes_eqb_true : forall a b, bytes_eqb a b = true -> a = b.
Proof. intros a b H. apply bytes_eqb_eq. exact H. Qed.

Lemma name_eqb_eq : forall a b, name_eqb a b = true -> a = b.
Proof.
  intros [x|x] [y|y] H; cbn in H; try discriminate; apply bytes_eqb_true in H; subst; reflexivity.
Qed.

(** UnmarshalRecord: the node is the decoding of the Data field and nothing else *)
Lemma unmarshal_record_inv : forall bs r, unmarshal_record bs = Ok r ->
  blen bs <= max_record_size /\
  unmarshal_pb bs = Some (r_pb r) /\
  olen (p_data (r_pb r)) <> 0 /\
  dec_map (oget (p_data (r_pb r))) = Some (r_node r).
Proof.
  intros bs r H. unfold unmarshal_record in H.
  destruct (Z.ltb_spec max_record_size (blen bs)) as [Hs|Hs]; [discriminate|].
  destruct (unmarshal_pb bs) as [pb|] eqn:Epb; [|discriminate].
  destruct (Z.eqb_spec (olen (p_data pb)) 0) as [Hd|Hd]; [discriminate|].
  destruct (dec_map (oget (p_data pb))) as [nd|] eqn:End; [|discriminate].
  injection H as <-. cbn [r_pb r_node]. repeat split; assumption.
Qed.

(** validateCborDataMatchesPbData implies that every present legacy field agrees *)
Lemma match_pb_agrees : forall r, match_pb r = true -> legacy_agrees r = true.
Proof.
  intros r H. unfold match_pb in H. unfold legacy_agrees.
  destruct (get_bytes kValue (r_node r)) as [v|]; [|discriminate].
  apply andb_true_iff in H. destruct H as [H1 H].
  destruct (get_bytes kValidity (r_node r)) as [vl|]; [|discriminate].
  apply andb_true_iff in H. destruct H as [H2 H].
  destruct (get_int kValidityType (r_node r)) as [vt|]; [|discriminate].
  apply andb_true_iff in H. destruct H as [H3 H].
  destruct (get_int kSequence (r_node r)) as [sq|]; [|discriminate].
  apply andb_true_iff in H. destruct H as [H4 H].
  destruct (get_int kTTL (r_node r)) as [tl|]; [|discriminate].
  destruct (p_value (r_pb r)), (p_validity (r_pb r)), (p_vtype (r_pb r)), (p_seq (r_pb r)), (p_ttl (r_pb r));
    cbn [oget ozget] in *; rewrite ?H1, ?H2, ?H3, ?H4, ?H; reflexivity.
Qed.

Section Validation.
  Variable pk : Type.
  Variable parse_pk : bytes -> option pk.
  Variable marshal_pk : pk -> bytes.
  Variable verify : pk -> bytes -> bytes -> bool.
  Variable sha256 : bytes -> bytes.
  Variable parse_time : bytes -> option Z.

  Notation validate := (Ipns.validate pk verify parse_time).
  Notation extract_pk := (Ipns.extract_pk pk parse_pk marshal_pk sha256).
  Notation pid_of := (Ipns.pid_of pk marshal_pk sha256).
  Notation key_bound := (M_C25.key_bound pk parse_pk marshal_pk sha256).
  Notation validate_f := (M_C25.validate_f pk verify parse_time).
  Notation validate_with_name_f := (M_C25.validate_with_name_f pk parse_pk marshal_pk verify sha256 parse_time).
  Notation validator_validate_f := (M_C25.validator_validate_f pk parse_pk marshal_pk verify sha256 parse_time).

  Notation validated := (M_C25.validated pk verify parse_time).

  Lemma validate_inv : forall now r k, validate now r k = Ok tt -> validated now r k.
  Proof.
    intros now r k H. unfold Ipns.validate in H.
    destruct (Z.ltb_spec max_record_size (pb_size (r_pb r))) as [Hs|Hs]; [discriminate|].
    destruct (Z.eqb_spec (olen (p_sigv2 (r_pb r))) 0) as [H2|H2]; [discriminate|].
    destruct (Z.eqb_spec (olen (p_data (r_pb r))) 0) as [Hd|Hd]; [discriminate|].
    destruct (verify k (sig_prefix ++ oget (p_data (r_pb r))) (oget (p_sigv2 (r_pb r)))) eqn:Hv;
      cbn [negb] in H; [|discriminate].
    destruct ((negb (olen (p_sigv1 (r_pb r)) =? 0) || negb (olen (p_value (r_pb r)) =? 0)) &&
              negb (match_pb r)) eqn:Hm; [discriminate|].
    destruct (acc_validity parse_time r) as [eol|e] eqn:Ee; [|discriminate].
    destruct (Z.ltb_spec eol now) as [Hn|Hn]; [discriminate|].
    unfold M_C25.validated. repeat split; try assumption.
    - intros Hgate. apply andb_false_iff in Hm. destruct Hm as [Hm|Hm].
      + apply orb_false_iff in Hm. destruct Hm as [A B].
        apply negb_false_iff in A. apply negb_false_iff in B.
        apply Z.eqb_eq in A. apply Z.eqb_eq in B. destruct Hgate; contradiction.
      + apply negb_false_iff in Hm. exact Hm.
    - exists eol. split; [exact Ee | exact Hn].
    - intros t Ht. rewrite Ht in H. destruct (Z.ltb_spec t 0); [discriminate | assumption].
  Qed.

  Lemma validate_f_inv : forall g now r k, validate_f g now r k = Ok tt ->
    validated now r k /\ (g = false -> legacy_agrees r = true).
  Proof.
    intros g now r k H. unfold M_C25.validate_f in H.
    destruct (validate now r k) as [[]|e] eqn:E; [|discriminate].
    split; [apply validate_inv; exact E|].
    intros ->. destruct (legacy_agrees r); [reflexivity | discriminate].
  Qed.

  Lemma extract_inv : forall r n k, extract_pk r n = Ok k -> key_bound r n k.
  Proof.
    intros r n k H. unfold Ipns.extract_pk in H. unfold M_C25.key_bound.
    destruct (Z.eqb_spec (olen (p_pubkey (r_pb r))) 0) as [E|E].
    - right. split; [exact E|]. destruct n as [d|h]; [|discriminate].
      destruct (parse_pk d) as [k0|] eqn:Ep; [|discriminate].
      injection H as <-. exists d. split; [reflexivity | exact Ep].
    - left. split; [exact E|].
      destruct (parse_pk (oget (p_pubkey (r_pb r)))) as [k0|] eqn:Ep; [|discriminate].
      destruct (name_eqb n (pid_of k0)) eqn:En; [|discriminate].
      injection H as <-. split; [reflexivity|]. symmetry. apply name_eqb_eq. exact En.
  Qed.

  (** C25_accept_implies_verified (ValidateWithName) *)
  Theorem vwn_accept : forall g now r n,
    validate_with_name_f g now r n = Ok tt ->
    exists k, key_bound r n k /\ validated now r k /\ (g = false -> legacy_agrees r = true).
  Proof.
    intros g now r n H. unfold M_C25.validate_with_name_f in H.
    destruct (extract_pk r n) as [k|e] eqn:E; [|discriminate].
    exists k. split; [apply extract_inv; exact E|]. apply validate_f_inv. exact H.
  Qed.

  (** C25_accept_implies_verified (Validator.Validate on bytes) *)
  Theorem vv_accept : forall g now n bs,
    validator_validate_f g now n bs = Ok tt ->
    exists r k,
      unmarshal_record bs = Ok r /\ blen bs <= max_record_size /\
      dec_map (oget (p_data (r_pb r))) = Some (r_node r) /\
      key_bound r n k /\ validated now r k /\ (g = false -> legacy_agrees r = true).
  Proof.
    intros g now n bs H. unfold M_C25.validator_validate_f in H.
    destruct (unmarshal_record bs) as [r|e] eqn:Eu; [|discriminate].
    destruct (extract_pk r n) as [k|e] eqn:E; [|destruct e; discriminate].
    destruct (unmarshal_record_inv bs r Eu) as (Hs & _ & _ & Hn).
    exists r, k. split; [reflexivity|]. split; [exact Hs|]. split; [exact Hn|].
    split; [apply extract_inv; exact E|]. apply validate_f_inv. exact H.
  Qed.

  (** with unforgeability stated as a hypothesis: acceptance means the owner of
      the key bound to the name signed exactly this Data *)
  Theorem vv_accept_signed : forall (signed : pk -> bytes -> Prop),
    (forall k m s, verify k m s = true -> signed k m) ->
    forall g now n bs, validator_validate_f g now n bs = Ok tt ->
    exists r k, unmarshal_record bs = Ok r /\ key_bound r n k /\
                signed k (sig_prefix ++ oget (p_data (r_pb r))).
  Proof.
    intros signed Hunf g now n bs H.
    destruct (vv_accept g now n bs H) as (r & k & Hu & _ & _ & Hb & Hv & _).
    exists r, k. split; [exact Hu|]. split; [exact Hb|].
    destruct Hv as (_ & _ & _ & Hver & _). eapply Hunf. exact Hver.
  Qed.

  (** tampering: an accepted record with other Data or another signature is a second
      valid (message, signature) pair under a key bound to the same name *)
  Theorem tamper_data_or_sig : forall g now n bs bs' r r',
    validator_validate_f g now n bs = Ok tt -> unmarshal_record bs = Ok r ->
    validator_validate_f g now n bs' = Ok tt -> unmarshal_record bs' = Ok r' ->
    (oget (p_data (r_pb r')) <> oget (p_data (r_pb r)) \/
     oget (p_sigv2 (r_pb r')) <> oget (p_sigv2 (r_pb r))) ->
    exists k', key_bound r' n k' /\
      verify k' (sig_prefix ++ oget (p_data (r_pb r'))) (oget (p_sigv2 (r_pb r'))) = true /\
      (sig_prefix ++ oget (p_data (r_pb r')), oget (p_sigv2 (r_pb r'))) <>
      (sig_prefix ++ oget (p_data (r_pb r)), oget (p_sigv2 (r_pb r))).
  Proof.
    intros g now n bs bs' r r' H Hr H' Hr' Hdiff.
    destruct (vv_accept g now n bs' H') as (r1 & k' & Hu & _ & _ & Hb & Hv & _).
    rewrite Hr' in Hu. injection Hu as <-.
    exists k'. split; [exact Hb|]. destruct Hv as (_ & _ & _ & Hver & _). split; [exact Hver|].
    intros Heq. inversion Heq as [[E1 E2]].
    destruct Hdiff as [D|D]; contradiction.
  Qed.

  (** tampering with the embedded key: two embedded keys accepted for one name are
      the same key bytes, or a SHA-256 collision *)
  Theorem tamper_key : forall r r' n k k',
    olen (p_pubkey (r_pb r)) <> 0 -> olen (p_pubkey (r_pb r')) <> 0 ->
    key_bound r n k -> key_bound r' n k' ->
    marshal_pk k = marshal_pk k' \/
    (marshal_pk k <> marshal_pk k' /\ sha256 (marshal_pk k) = sha256 (marshal_pk k')).
  Proof.
    intros r r' n k k' He He' Hb Hb'.
    destruct Hb as [(_ & _ & Hp)|(Hz & _)]; [|contradiction].
    destruct Hb' as [(_ & _ & Hp')|(Hz' & _)]; [|contradiction].
    rewrite <- Hp' in Hp. unfold Ipns.pid_of in Hp.
    destruct (blen (marshal_pk k) <=? 42), (blen (marshal_pk k') <=? 42); try discriminate.
    - injection Hp as E. left. exact E.
    - injection Hp as E.
      destruct (list_eq_dec Z.eq_dec (marshal_pk k) (marshal_pk k')) as [Eq|Ne];
        [left; exact Eq | right; split; assumption].
  Qed.

  (** the legacy fields: what the code today guarantees, and what the repaired
      (gate-off) validation guarantees *)
  Theorem legacy_checked_today : forall now n bs r,
    validator_validate_f true now n bs = Ok tt -> unmarshal_record bs = Ok r ->
    olen (p_sigv1 (r_pb r)) <> 0 \/ olen (p_value (r_pb r)) <> 0 ->
    match_pb r = true /\ legacy_agrees r = true.
  Proof.
    intros now n bs r H Hr Hgate.
    destruct (vv_accept true now n bs H) as (r1 & k & Hu & _ & _ & _ & Hv & _).
    rewrite Hr in Hu. injection Hu as <-.
    destruct Hv as (_ & _ & _ & _ & Hm & _).
    split; [apply Hm; exact Hgate | apply match_pb_agrees; apply Hm; exact Hgate].
  Qed.

  Theorem legacy_checked_fixed : forall now n bs r,
    validator_validate_f false now n bs = Ok tt -> unmarshal_record bs = Ok r ->
    legacy_agrees r = true.
  Proof.
    intros now n bs r H Hr.
    destruct (vv_accept false now n bs H) as (r1 & k & Hu & _ & _ & _ & _ & Hl).
    rewrite Hr in Hu. injection Hu as <-. apply Hl. reflexivity.
  Qed.

  (** the repaired validation only ever rejects more *)
  Theorem fixed_refines_today : forall now n bs,
    validator_validate_f false now n bs = Ok tt -> validator_validate_f true now n bs = Ok tt.
  Proof.
    intros now n bs H. unfold M_C25.validator_validate_f, M_C25.validate_f in *.
    destruct (unmarshal_record bs) as [r|e]; [|discriminate].
    destruct (extract_pk r n) as [k|e]; [|exact H].
    destruct (validate now r k) as [[]|e]; [reflexivity | discriminate].
  Qed.
End Validation.

(** every accessor is a function of the Data field alone *)
Theorem accessors_signed : forall bs bs' r r',
  unmarshal_record bs = Ok r -> unmarshal_record bs' = Ok r' ->
  oget (p_data (r_pb r)) = oget (p_data (r_pb r')) ->
  r_node r = r_node r' /\
  acc_value r = acc_value r' /\ acc_sequence r = acc_sequence r' /\
  acc_ttl r = acc_ttl r' /\ acc_validity_type r = acc_validity_type r' /\
  (forall parse_time, acc_validity parse_time r = acc_validity parse_time r') /\
  (forall k, acc_metadata k r = acc_metadata k r').
Proof.
  intros bs bs' r r' H H' Hd.
  destruct (unmarshal_record_inv bs r H) as (_ & _ & _ & Hn).
  destruct (unmarshal_record_inv bs' r' H') as (_ & _ & _ & Hn').
  rewrite Hd in Hn. rewrite Hn' in Hn. injection Hn as E.
  assert (En : r_node r = r_node r') by (symmetry; exact E).
  split; [exact En|].
  unfold acc_value, acc_sequence, acc_ttl, acc_validity_type, acc_validity, acc_validity_type, acc_metadata.
  rewrite En. repeat split; reflexivity.
Qed.

(** ---------- the witness of finding C25-1 ---------- *)
Definition w_node : list entry :=
  [(kTTL, CInt 5); (kValue, CBytes [47]); (kSequence, CInt 5); (kValidity, CBytes [9]); (kValidityType, CInt 0)].
Definition w_pb : pbrec :=
  mkPb None None None None (Some 999) None None (Some [1]) (Some (enc_map w_node)) [].
Definition w_parse_time (b : bytes) : option Z := match b with [9] => Some 100 | _ => None end.

Lemma legacy_refuted :
  let vv g := validator_validate_f unit (fun _ => Some tt) (fun _ => [7]) (fun _ _ _ => true)
                (fun _ => []) w_parse_time g 50 (NInline [7]) (marshal w_pb) in
  vv true = Ok tt /\ vv false = Err EOther /\
  exists r, unmarshal_record (marshal w_pb) = Ok r /\ legacy_agrees r = false /\
            p_seq (r_pb r) = Some 999 /\ acc_sequence r = Some 5.
Proof.
  cbv zeta. split; [vm_compute; reflexivity|]. split; [vm_compute; reflexivity|].
  eexists. split; [vm_compute; reflexivity|]. vm_compute. repeat split; reflexivity.
Qed.
