(** C31 — proofs.
    1. [norm_sound]: the entity-bytes arithmetic of walkGatewaySimpleSelector selects exactly the byte positions
       the parameter asks for (relative to the end when negative, To inclusive), for every size and every From/To;
    2. [read_sufficient]: reading bytes [lo, hi) of any file DAG through a store that holds only the blocks
       [covering lo hi] names gives the same result as reading through the full store, and never fails;
    3. [required_in_needed], [model_meets_spec]: the set of blocks the model's traversal emits contains every
       block the specification requires (path, scope, byte range), for every tree and every request;
    4. the boolean checkers used on observations mean what they should. *)
From Coq Require Import List ZArith Bool Lia.
From V Require Import lib.Verdict model.M_C31.
Import ListNotations.
Open Scope Z_scope.

(** ---------- induction over the rose tree ---------- *)
Section NodeInd.
  Variable P : node -> Prop.
  Hypothesis H : forall k i n len kids, Forall P kids -> P (Nd k i n len kids).
  Fixpoint node_ind' (t : node) : P t :=
    match t with
    | Nd k i n len kids =>
        H k i n len kids
          ((fix go (l : list node) : Forall P l :=
              match l with
              | [] => Forall_nil P
              | c :: r => Forall_cons c (node_ind' c) (go r)
              end) kids)
    end.
End NodeInd.

(** ---------- 1. entity-bytes ---------- *)
Definition in_code (fsize from : Z) (cnt : option Z) (p : Z) : bool :=
  (0 <=? p) && (p <? fsize) && (from <=? p) && match cnt with None => true | Some n => p <? from + n end.

Lemma norm_sound fsize f t : 0 <= fsize ->
  match norm fsize (Some (f, t)) with
  | NErr => forall p, in_sem fsize (Some (f, t)) p = false
  | NRead from cnt =>
      0 <= from /\ match cnt with Some n => 0 <= n | None => True end /\
      forall p, in_sem fsize (Some (f, t)) p = in_code fsize from cnt p
  end.
Proof.
  intro Hsz. unfold norm, in_sem, in_code, sem_lo, sem_hi.
  destruct t as [t0|].
  - set (from := if f <? 0 then Z.max (fsize + f) 0 else f).
    set (to := if t0 <? 0 then fsize + t0 else t0).
    assert (Hfrom : 0 <= from \/ (0 <= f /\ from = f)) by (unfold from; destruct (f <? 0) eqn:E; [left; lia|right; apply Z.ltb_ge in E; lia]).
    destruct (1 + to - from <? 0) eqn:En; [apply Z.ltb_lt in En|apply Z.ltb_ge in En].
    + intro p. apply not_true_is_false. rewrite !andb_true_iff, !Z.leb_le, !Z.ltb_lt.
      unfold from, to in *. destruct (f <? 0) eqn:Ef; [apply Z.ltb_lt in Ef|apply Z.ltb_ge in Ef];
        destruct (t0 <? 0) eqn:Et; [apply Z.ltb_lt in Et|apply Z.ltb_ge in Et| apply Z.ltb_lt in Et|apply Z.ltb_ge in Et]; lia.
    + split; [unfold from; destruct (f <? 0) eqn:Ef; [lia|apply Z.ltb_ge in Ef]|].
      2: split; [lia|].
      2: { intro p. apply eq_true_iff_eq. rewrite !andb_true_iff, !Z.leb_le, !Z.ltb_lt.
           unfold from, to in *. destruct (f <? 0) eqn:Ef; [apply Z.ltb_lt in Ef|apply Z.ltb_ge in Ef];
             destruct (t0 <? 0) eqn:Et; [apply Z.ltb_lt in Et|apply Z.ltb_ge in Et| apply Z.ltb_lt in Et|apply Z.ltb_ge in Et]; lia. }
      (* f >= 0 and the read starts at f: NewDagByteRange only yields such f >= 0 here *)
      lia.
  - split; [destruct (f <? 0) eqn:Ef; [lia|apply Z.ltb_ge in Ef; lia]|]. split; [exact I|].
    intro p. apply eq_true_iff_eq. rewrite !andb_true_iff, !Z.leb_le, !Z.ltb_lt.
    destruct (f <? 0) eqn:Ef; [apply Z.ltb_lt in Ef|apply Z.ltb_ge in Ef]; lia.
Qed.

(** ---------- helper views of the inner loops ---------- *)
Fixpoint cov_kids (lo hi : Z) (l : list node) (off : Z) : list Z :=
  match l with
  | [] => []
  | c :: r => (if meets lo hi off (size c) then covering lo hi off c else []) ++ cov_kids lo hi r (off + size c)
  end.

Lemma covering_unfold lo hi base k i n len kids :
  covering lo hi base (Nd k i n len kids) =
  i :: match k with KFile => cov_kids lo hi kids base | _ => [] end.
Proof.
  cbn [covering]. f_equal. destruct k; try reflexivity.
  revert base. induction kids as [|c r IH]; intro base; [reflexivity|].
  cbn [cov_kids]. rewrite <- IH. reflexivity.
Qed.

(** ---------- 2. reading through a restricted store ---------- *)
(** the result of reading file bytes [lo, hi): the slices (leaf block, first, last+1) in order; None = a block that
    is needed is not in the store *)
Fixpoint read (has : Z -> bool) (lo hi base : Z) (t : node) : option (list (Z * Z * Z)) :=
  match t with
  | Nd k i _ len kids =>
      if negb (has i) then None else
      match k with
      | KFile =>
          (fix go (l : list node) (off : Z) : option (list (Z * Z * Z)) :=
             match l with
             | [] => Some []
             | c :: r =>
                 match (if meets lo hi off (size c) then read has lo hi off c else Some []) with
                 | None => None
                 | Some a => match go r (off + size c) with None => None | Some b => Some (a ++ b) end
                 end
             end) kids base
      | KRaw | KLeaf =>
          Some (if meets lo hi base len then [(i, Z.max lo base - base, Z.min hi (base + len) - base)] else [])
      | _ => Some []
      end
  end.

Fixpoint read_kids (has : Z -> bool) (lo hi : Z) (l : list node) (off : Z) : option (list (Z * Z * Z)) :=
  match l with
  | [] => Some []
  | c :: r =>
      match (if meets lo hi off (size c) then read has lo hi off c else Some []) with
      | None => None
      | Some a => match read_kids has lo hi r (off + size c) with None => None | Some b => Some (a ++ b) end
      end
  end.

Lemma read_unfold has lo hi base k i n len kids :
  read has lo hi base (Nd k i n len kids) =
  if negb (has i) then None else
  match k with
  | KFile => read_kids has lo hi kids base
  | KRaw | KLeaf => Some (if meets lo hi base len then [(i, Z.max lo base - base, Z.min hi (base + len) - base)] else [])
  | _ => Some []
  end.
Proof.
  cbn [read]. destruct (negb (has i)); [reflexivity|]. destruct k; try reflexivity.
  revert base. induction kids as [|c r IH]; intro base; [reflexivity|].
  cbn [read_kids]. rewrite <- IH. reflexivity.
Qed.

Definition full : Z -> bool := fun _ => true.

Lemma read_sufficient t : forall has lo hi base,
  (forall x, In x (covering lo hi base t) -> has x = true) ->
  read has lo hi base t = read full lo hi base t.
Proof.
  induction t as [k i n len kids IH] using node_ind'. intros has lo hi base Hall.
  rewrite !read_unfold. rewrite covering_unfold in Hall.
  rewrite (Hall i (or_introl eq_refl)). unfold full at 1. cbn [negb].
  destruct k; try reflexivity.
  assert (Hk : forall x, In x (cov_kids lo hi kids base) -> has x = true) by (intros x Hx; apply Hall; right; exact Hx).
  clear Hall. revert base Hk. induction IH as [|c r Hc _ IHr]; intros base Hk; [reflexivity|].
  cbn [read_kids cov_kids] in *.
  rewrite IHr by (intros x Hx; apply Hk; apply in_or_app; right; exact Hx).
  destruct (meets lo hi base (size c)); [|reflexivity].
  rewrite (Hc has lo hi base) by (intros x Hx; apply Hk; apply in_or_app; left; exact Hx).
  reflexivity.
Qed.

Lemma read_full_total t : forall lo hi base, exists l, read full lo hi base t = Some l.
Proof.
  induction t as [k i n len kids IH] using node_ind'. intros lo hi base.
  rewrite read_unfold. unfold full at 1. cbn [negb].
  destruct k; try (eexists; reflexivity).
  revert base. induction IH as [|c r Hc _ IHr]; intro base; [eexists; reflexivity|].
  cbn [read_kids]. destruct (IHr (base + size c)) as [b Hb]. rewrite Hb.
  destruct (meets lo hi base (size c)); [destruct (Hc lo hi base) as [a Ha]; rewrite Ha|]; eexists; reflexivity.
Qed.

(** ---------- 3. the emitted set contains the required set ---------- *)
Lemma meets_mono lo hi lo' hi' off sz : lo' <= lo -> hi <= hi' -> meets lo hi off sz = true -> meets lo' hi' off sz = true.
Proof.
  unfold meets. rewrite !andb_true_iff, !Z.ltb_lt. lia.
Qed.

Lemma covering_mono t : forall lo hi lo' hi' base, lo' <= lo -> hi <= hi' ->
  incl (covering lo hi base t) (covering lo' hi' base t).
Proof.
  induction t as [k i n len kids IH] using node_ind'. intros lo hi lo' hi' base H1 H2.
  rewrite !covering_unfold. apply incl_cons; [left; reflexivity|]. apply incl_tl.
  destruct k; try apply incl_refl.
  revert base. induction IH as [|c r Hc _ IHr]; intro base; [apply incl_refl|].
  cbn [cov_kids]. apply incl_app; [apply incl_appl|apply incl_appr; apply IHr].
  destruct (meets lo hi base (size c)) eqn:Em; [|intros x []].
  rewrite (meets_mono _ _ _ _ _ _ H1 H2 Em). apply Hc; assumption.
Qed.

Lemma covering_empty t lo hi base : hi <= lo -> covering lo hi base t = [nid t].
Proof.
  intro Hle. destruct t as [k i n len kids]. rewrite covering_unfold. cbn [nid]. f_equal.
  destruct k; try reflexivity.
  revert base. induction kids as [|c r IH]; intro base; [reflexivity|].
  cbn [cov_kids]. rewrite IH.
  replace (meets lo hi base (size c)) with false; [reflexivity|].
  symmetry. unfold meets. replace (lo <? hi) with false by (symmetry; apply Z.ltb_ge; lia). reflexivity.
Qed.

Lemma covering_head lo hi base t : In (nid t) (covering lo hi base t).
Proof. destruct t. rewrite covering_unfold. left. reflexivity. Qed.

(** the blocks the code reads for a file contain the blocks the requested bytes live in *)
Lemma required_file_in_read t rng : 0 <= size t ->
  incl (required_file t rng) (read_ids t (norm (size t) rng)).
Proof.
  intro Hsz. destruct rng as [[f to]|].
  2:{ cbn [required_file norm read_ids]. apply covering_mono; lia. }
  unfold required_file. unfold norm, sem_lo, sem_hi.
  set (from := if f <? 0 then Z.max (size t + f) 0 else f).
  assert (Hlo : from <= Z.max (if f <? 0 then size t + f else f) 0)
    by (unfold from; destruct (f <? 0); lia).
  destruct to as [t0|].
  - set (to := if t0 <? 0 then size t + t0 else t0).
    destruct (1 + to - from <? 0) eqn:En; [apply Z.ltb_lt in En|apply Z.ltb_ge in En]; cbn [read_ids].
    + rewrite covering_empty by lia. apply incl_refl.
    + apply covering_mono; lia.
  - cbn [read_ids]. apply covering_mono; lia.
Qed.

(** well-formed trees: block payload lengths are not negative *)
Fixpoint wf (t : node) : bool :=
  match t with Nd _ _ _ len kids => (0 <=? len) && forallb wf kids end.

Lemma zsum_nonneg l : Forall (fun x => 0 <= x) l -> 0 <= zsum l.
Proof. induction 1; cbn [zsum]; lia. Qed.

Lemma size_nonneg t : wf t = true -> 0 <= size t.
Proof.
  induction t as [k i n len kids IH] using node_ind'. cbn [wf]. rewrite andb_true_iff, Z.leb_le. intros [Hl Hk].
  destruct k; cbn [size]; try lia.
  apply zsum_nonneg. rewrite forallb_forall in Hk. rewrite Forall_forall in IH.
  apply Forall_forall. intros x Hx. apply in_map_iff in Hx as [c [Hc Hin]]. subst x. apply IH; auto.
Qed.

Lemma find_ent_wf nm t : wf t = true -> forall p c, find_ent nm t = Some (p, c) -> wf c = true.
Proof.
  induction t as [k i n len kids IH] using node_ind'. cbn [wf]. rewrite andb_true_iff. intros [_ Hk] p c.
  cbn [find_ent].
  assert (Hgo : forall p c,
    (fix go (l : list node) : option (list Z * node) :=
       match l with
       | [] => None
       | c0 :: r =>
           if is_sub c0
           then match find_ent nm c0 with Some (p0, x) => Some (nid c0 :: p0, x) | None => go r end
           else if nname c0 =? nm then Some ([], c0) else go r
       end) kids = Some (p, c) -> wf c = true).
  { clear k. rewrite forallb_forall in Hk.
    induction IH as [|c0 r Hc0 _ IHr]; intros p' c' Hf; [discriminate|].
    assert (Hwc0 : wf c0 = true) by (apply Hk; left; reflexivity).
    assert (Hkr : forall x, In x r -> wf x = true) by (intros x Hx; apply Hk; right; exact Hx).
    destruct (is_sub c0).
    - destruct (find_ent nm c0) as [[p0 x]|] eqn:E0.
      + inversion Hf; subst. eapply Hc0; eauto.
      + eapply IHr; eauto.
    - destruct (nname c0 =? nm).
      + inversion Hf; subst. exact Hwc0.
      + eapply IHr; eauto. }
  destruct k; try discriminate; apply Hgo.
Qed.

Lemma resolve_wf path : forall w p t, wf w = true -> resolve path w = Some (p, t) -> wf t = true.
Proof.
  induction path as [|nm rest IH]; intros w p t Hw; cbn [resolve].
  - intro H; inversion H; subst; exact Hw.
  - destruct (find_ent nm w) as [[p0 c]|] eqn:Ef; [|discriminate].
    destruct (resolve rest c) as [[q x]|] eqn:Er; [|discriminate].
    intro H; inversion H; subst. eapply IH; [|exact Er]. eapply find_ent_wf; eauto.
Qed.

Lemma required_scope_in_scope t rq : wf t = true -> incl (required_scope t rq) (scope_ids t rq).
Proof.
  intro Hw. unfold required_scope, scope_ids, entity_ids.
  destruct (c_scope rq); try apply incl_refl.
  destruct (nkind t); try apply incl_refl; apply required_file_in_read; apply size_nonneg; exact Hw.
Qed.

(** For every tree and every request: every block the specification requires (path blocks, terminal block, scope,
    blocks holding a requested byte) is among the blocks the model's traversal emits. *)
Lemma required_in_needed w rq req : wf w = true -> required w rq = Some req ->
  exists l, needed w rq = Some l /\ incl req l.
Proof.
  intros Hw. unfold required, needed.
  destruct (resolve (c_path rq) w) as [[p t]|] eqn:Er; [|discriminate].
  intro H; inversion H; subst. eexists; split; [reflexivity|].
  apply incl_app; [apply incl_appl; apply incl_refl|apply incl_appr].
  apply required_scope_in_scope. eapply resolve_wf; eauto.
Qed.

(** the terminal block (= the CAR root) is always emitted *)
Lemma scope_ids_head t rq : In (nid t) (scope_ids t rq).
Proof.
  unfold scope_ids, entity_ids. destruct (c_scope rq).
  - left; reflexivity.
  - destruct (nkind t); try (left; reflexivity).
    + unfold read_ids. destruct (norm (size t) (c_range rq)) as [|from [n|]]; [left; reflexivity|apply covering_head..].
    + unfold read_ids. destruct (norm (size t) (c_range rq)) as [|from [n|]]; [left; reflexivity|apply covering_head..].
    + destruct t; left; reflexivity.
  - destruct t; left; reflexivity.
Qed.

Lemma root_emitted w rq l : needed w rq = Some l -> In (term_id w rq) l.
Proof.
  unfold needed, term_id. destruct (resolve (c_path rq) w) as [[p t]|]; [|discriminate].
  intro H; inversion H; subst. apply in_or_app; right. apply scope_ids_head.
Qed.

(** ---------- 4. the boolean checkers ---------- *)
Lemma memZ_In x l : memZ x l = true <-> In x l.
Proof.
  induction l as [|y r IH]; cbn [memZ In]; [split; [discriminate|intros []]|].
  destruct (x =? y) eqn:E.
  - apply Z.eqb_eq in E. subst. split; auto.
  - apply Z.eqb_neq in E. rewrite IH. split; [auto|intros [H|H]; [congruence|exact H]].
Qed.

Lemma subset_incl a b : subset a b = true <-> incl a b.
Proof.
  unfold subset, incl. rewrite forallb_forall. split; intros H x Hx; [apply memZ_In|apply memZ_In]; auto.
Qed.

Lemma nodupb_NoDup l : nodupb l = true <-> NoDup l.
Proof.
  induction l as [|x r IH]; cbn [nodupb]; [split; [constructor|reflexivity]|].
  rewrite andb_true_iff, negb_true_iff, IH. split.
  - intros [H1 H2]. constructor; [|exact H2]. intro Hin. apply memZ_In in Hin. congruence.
  - intro H; inversion H; subst. split; [|assumption].
    destruct (memZ x r) eqn:E; [apply memZ_In in E; contradiction|reflexivity].
Qed.

(** what a passing case means *)
Lemma spec_ok_meaning w rq o : spec_ok w rq o = true ->
  exists req, required w rq = Some req /\
    o_status o = 200 /\ o_hashes o = true /\ o_root o = term_id w rq /\
    incl req (o_blocks o) /\ (c_dups rq = false -> NoDup (o_blocks o)).
Proof.
  unfold spec_ok. destruct (required w rq) as [req|]; [|discriminate].
  rewrite !andb_true_iff. intros [[[[[[H1 H2] H3] _] H5] H6] _].
  exists req. split; [reflexivity|].
  apply Z.eqb_eq in H1, H3. apply subset_incl in H5.
  repeat split; try assumption.
  intro Hd. rewrite Hd in H6. cbn [orb] in H6. apply nodupb_NoDup. exact H6.
Qed.

(** If the implementation emits the model's set (and its blocks hash correctly, carry known ids and are not
    repeated unless asked), the specification holds: the model's traversal is sufficient. *)
Lemma model_meets_spec w rq o : wf w = true ->
  model_ok w rq o = true -> o_hashes o = true ->
  forallb (fun x => 0 <=? x) (o_blocks o) = true ->
  (c_dups rq || nodupb (o_blocks o)) = true ->
  spec_ok w rq o = true.
Proof.
  intros Hw Hm Hh Hids Hd. unfold model_ok in Hm. unfold spec_ok.
  destruct (needed w rq) as [l|] eqn:En; [|discriminate].
  rewrite !andb_true_iff in Hm. destruct Hm as [[[[Hst Hroot] Hsub1] _] Herr].
  unfold needed in En. unfold required.
  destruct (resolve (c_path rq) w) as [[p t]|] eqn:Er; [|discriminate].
  inversion En; subst l.
  assert (Hwt : wf t = true) by (eapply resolve_wf; eauto).
  rewrite Hst, Hh, Hroot, Hids, Hd. cbn [andb].
  assert (Hreq : subset (p ++ required_scope t rq) (o_blocks o) = true).
  { apply subset_incl. apply subset_incl in Hsub1.
    intros x Hx. apply Hsub1. apply in_app_or in Hx as [Hx|Hx]; apply in_or_app; [left; exact Hx|right].
    apply (required_scope_in_scope t rq Hwt). exact Hx. }
  rewrite Hreq. cbn [andb].
  destruct (o_err o) eqn:Eo; [|reflexivity]. cbn [negb orb].
  apply eqb_prop in Herr. unfold stream_err in Herr. rewrite Er in Herr.
  unfold required_scope.
  destruct (c_scope rq); try discriminate.
  destruct (nkind t) eqn:Ek; try discriminate.
  all: destruct (norm (size t) (c_range rq)) as [|from cnt] eqn:Enorm; try discriminate.
  all: apply subset_incl.
  all: destruct (c_range rq) as [[f to]|]; [|discriminate].
  all: unfold required_file; unfold norm, sem_lo, sem_hi in *.
  all: pose proof (size_nonneg t Hwt) as Hsz.
  all: destruct to as [t0|]; [|discriminate].
  all: match type of Enorm with (if ?c then _ else _) = _ => destruct c eqn:Ec; [|discriminate] end.
  all: apply Z.ltb_lt in Ec.
  all: rewrite covering_empty; [apply incl_refl|].
  all: destruct (f <? 0) eqn:Ef; [apply Z.ltb_lt in Ef|apply Z.ltb_ge in Ef]; lia.
Qed.
