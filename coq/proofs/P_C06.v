(** C06 — proofs about the chunker model [model/M_C06.v]. *)
From Coq Require Import String Ascii.
From Coq Require Import List ZArith NArith Bool Arith Lia ZifyBool.
From V Require Import lib.Verdict model.M_C06.
Import ListNotations.

Ltac Zify.zify_post_hook ::= Z.to_euclidean_division_equations.

(* ------------------------------------------------------------------ *)
(** * Generic facts about [chunksf] *)

Lemma chunksf_nil : forall cut fuel, chunksf cut fuel [] = Some [].
Proof. intros cut fuel. destruct fuel; reflexivity. Qed.

(** one unfolding step on a non-empty input *)
Lemma chunksf_step : forall cut fuel d,
  d <> [] ->
  chunksf cut (S fuel) d =
    if (cut d =? 0) || (length d <? cut d) then None
    else match chunksf cut fuel (skipn (cut d) d) with
         | Some r => Some (firstn (cut d) d :: r)
         | None => None
         end.
Proof. intros cut fuel d Hd. destruct d as [|x d']; [congruence|reflexivity]. Qed.

Lemma chunksf_concat : forall cut fuel d cs, chunksf cut fuel d = Some cs -> concat cs = d.
Proof.
  intros cut fuel. induction fuel as [|fuel IH]; intros d cs H.
  - destruct d; simpl in H; [inversion H; reflexivity|discriminate].
  - destruct d as [|x d'] eqn:Ed; [simpl in H; inversion H; reflexivity|].
    rewrite <- Ed in *. assert (Hne : d <> []) by (subst d; discriminate).
    rewrite chunksf_step in H by exact Hne.
    destruct ((cut d =? 0) || (length d <? cut d)) eqn:Eg; [discriminate|].
    destruct (chunksf cut fuel (skipn (cut d) d)) as [r|] eqn:Er; [|discriminate].
    inversion H; subst cs. cbn [concat]. rewrite (IH _ _ Er). apply firstn_skipn.
Qed.

Lemma chunksf_nonempty : forall cut fuel d cs,
  chunksf cut fuel d = Some cs -> Forall (fun c => c <> []) cs.
Proof.
  intros cut fuel. induction fuel as [|fuel IH]; intros d cs H.
  - destruct d; simpl in H; [inversion H; constructor|discriminate].
  - destruct d as [|x d'] eqn:Ed; [simpl in H; inversion H; constructor|].
    rewrite <- Ed in *. assert (Hne : d <> []) by (subst d; discriminate).
    rewrite chunksf_step in H by exact Hne.
    destruct ((cut d =? 0) || (length d <? cut d)) eqn:Eg; [discriminate|].
    destruct (chunksf cut fuel (skipn (cut d) d)) as [r|] eqn:Er; [|discriminate].
    inversion H; subst cs. constructor; [|exact (IH _ _ Er)].
    intro Hf. apply (f_equal (@length N)) in Hf. rewrite firstn_length in Hf. simpl in Hf.
    destruct d; [congruence|]. simpl in Hf. lia.
Qed.

(** a cut function is well-formed when it always makes progress and never overruns *)
Definition cut_wf (cut : list N -> nat) : Prop :=
  forall d, d <> [] -> 1 <= cut d <= length d.

Lemma chunksf_total : forall cut, cut_wf cut ->
  forall fuel d, length d <= fuel -> exists cs, chunksf cut fuel d = Some cs.
Proof.
  intros cut Hwf fuel. induction fuel as [|fuel IH]; intros d Hlen.
  - destruct d; [exists []; reflexivity|simpl in Hlen; lia].
  - destruct d as [|x d'] eqn:Ed; [exists []; reflexivity|].
    rewrite <- Ed in *. assert (Hne : d <> []) by (subst d; discriminate).
    rewrite chunksf_step by exact Hne.
    destruct (Hwf d Hne) as [H1 H2].
    destruct ((cut d =? 0) || (length d <? cut d)) eqn:Eg; [lia|].
    destruct (IH (skipn (cut d) d)) as [r Hr]; [rewrite skipn_length; lia|].
    rewrite Hr. eexists; reflexivity.
Qed.

(** with a well-formed cut the amount of fuel does not matter once it covers the input *)
Lemma chunksf_fuel : forall cut, cut_wf cut ->
  forall f1 f2 d, length d <= f1 -> length d <= f2 -> chunksf cut f1 d = chunksf cut f2 d.
Proof.
  intros cut Hwf f1. induction f1 as [|f1 IH]; intros f2 d H1 H2.
  - destruct d; [now rewrite !chunksf_nil|simpl in H1; lia].
  - destruct d as [|x d'] eqn:Ed; [now rewrite !chunksf_nil|].
    rewrite <- Ed in *. assert (Hne : d <> []) by (subst d; discriminate).
    destruct f2 as [|f2]; [subst d; simpl in H2; lia|].
    rewrite !chunksf_step by exact Hne.
    destruct (Hwf d Hne) as [Ha Hb].
    destruct ((cut d =? 0) || (length d <? cut d)) eqn:Eg; [reflexivity|].
    rewrite (IH f2); [reflexivity| |]; rewrite skipn_length; lia.
Qed.

(* ------------------------------------------------------------------ *)
(** * Bounds: what a cut function must guarantee for [lens_ok] *)

Definition cut_spec (mn mx lim : N) (cut : list N -> nat) : Prop :=
  forall d, d <> [] ->
    1 <= cut d <= length d /\ cut d <= N.to_nat lim /\
    (cut d = length d \/ N.to_nat mn <= cut d <= N.to_nat mx).

Lemma cut_spec_wf : forall mn mx lim cut, cut_spec mn mx lim cut -> cut_wf cut.
Proof. intros mn mx lim cut H d Hd. apply (H d Hd). Qed.

Lemma all_but_last_cons : forall P x r,
  r <> [] -> all_but_last P (x :: r) = P x && all_but_last P r.
Proof. intros P x r Hr. destruct r; [congruence|reflexivity]. Qed.

Lemma chunksf_lens : forall mn mx lim cut, cut_spec mn mx lim cut ->
  forall fuel d cs, chunksf cut fuel d = Some cs ->
  lens_ok mn mx lim (map lenN cs) = true.
Proof.
  intros mn mx lim cut Hs fuel. unfold lens_ok.
  induction fuel as [|fuel IH]; intros d cs H.
  - destruct d; simpl in H; [inversion H; reflexivity|discriminate].
  - destruct d as [|x d'] eqn:Ed; [simpl in H; inversion H; reflexivity|].
    rewrite <- Ed in *. assert (Hne : d <> []) by (subst d; discriminate).
    rewrite chunksf_step in H by exact Hne.
    destruct ((cut d =? 0) || (length d <? cut d)) eqn:Eg; [discriminate|].
    destruct (chunksf cut fuel (skipn (cut d) d)) as [r|] eqn:Er; [|discriminate].
    inversion H; subst cs. clear H.
    destruct (Hs d Hne) as [[H1 H2] [H3 H4]].
    specialize (IH _ _ Er). apply andb_true_iff in IH. destruct IH as [IHa IHb].
    assert (Hl : lenN (firstn (cut d) d) = N.of_nat (cut d)).
    { unfold lenN. rewrite firstn_length. f_equal. lia. }
    cbn [map forallb]. rewrite Hl, IHa.
    assert (Hfirst : ((1 <=? N.of_nat (cut d))%N && (N.of_nat (cut d) <=? lim)%N) = true) by lia.
    rewrite Hfirst. cbn [andb].
    destruct r as [|c r'].
    + reflexivity.
    + rewrite all_but_last_cons by (cbn [map]; discriminate). rewrite IHb, andb_true_r.
      (* not the last chunk: the rest of the input is not empty *)
      assert (Hrest : skipn (cut d) d <> []).
      { intro Hf. rewrite Hf in Er. rewrite chunksf_nil in Er. discriminate. }
      assert (cut d <> length d).
      { intro Hf. apply Hrest. rewrite Hf. apply skipn_all. }
      lia.
Qed.

Lemma bytes_eqb_refl : forall l, bytes_eqb l l = true.
Proof.
  induction l as [|a l IH]; [reflexivity|]. unfold bytes_eqb in *. cbn [list_eqb].
  rewrite N.eqb_refl, IH. reflexivity.
Qed.

(** everything the property asks of one chunker, from [cut_spec] *)
Lemma cut_spec_run : forall mn mx lim cut, cut_spec mn mx lim cut ->
  forall d, exists cs, chunks cut d = Some cs /\ run_ok mn mx lim d cs = true.
Proof.
  intros mn mx lim cut Hs d. unfold chunks.
  destruct (chunksf_total cut (cut_spec_wf _ _ _ _ Hs) (length d) d (le_n _)) as [cs Hcs].
  exists cs. split; [exact Hcs|]. unfold run_ok.
  rewrite (chunksf_concat _ _ _ _ Hcs), bytes_eqb_refl.
  exact (chunksf_lens _ _ _ _ Hs _ _ _ Hcs).
Qed.

(* ------------------------------------------------------------------ *)
(** * The three cut functions meet [cut_spec] *)

Lemma length_pos : forall (d : list N), d <> [] -> 1 <= length d.
Proof. intros d H. destruct d; [congruence|simpl; lia]. Qed.

Lemma cut_size_spec : forall size lim, (1 <= size)%N -> (size <= lim)%N ->
  cut_spec size size lim (cut_size size).
Proof.
  intros size lim H1 H2 d Hd. unfold cut_size. pose proof (length_pos d Hd). lia.
Qed.

Lemma buz_scan_le : forall p ins st outs, buz_scan p st outs ins <= length ins.
Proof.
  intros p ins. induction ins as [|b ins IH]; intros st outs; cbn [buz_scan].
  - destruct (N.land st (bz_mask p) =? 0)%N; simpl; lia.
  - destruct (N.land st (bz_mask p) =? 0)%N; [simpl; lia|].
    destruct outs as [|o outs]; [simpl; lia|]. cbn [length]. specialize (IH (N.lxor (N.lxor (rotl1 st) (bh p o)) (bh p b)) outs). lia.
Qed.

(** the cut inside a buffer of at least [min] bytes lies in [min, |buf|] *)
Lemma buz_cut_buf_range : forall p buf,
  N.to_nat (bz_min p) <= length buf ->
  N.to_nat (bz_min p) <= buz_cut_buf p buf <= length buf.
Proof.
  intros p buf H. unfold buz_cut_buf.
  match goal with |- _ <= _ + buz_scan p ?s ?o ?i <= _ => pose proof (buz_scan_le p i s o) as Hs end.
  rewrite skipn_length in Hs. lia.
Qed.

Definition bzp_wf (p : bzp) : Prop := (32 <= bz_min p)%N /\ (bz_min p <= bz_max p)%N.

Lemma cut_buz_spec : forall p lim, bzp_wf p -> (bz_max p <= lim)%N ->
  cut_spec (bz_min p) (bz_max p) lim (cut_buz p).
Proof.
  intros p lim [Hw1 Hw2] Hl d Hd. unfold cut_buz.
  pose proof (length_pos d Hd) as Hp.
  pose proof (firstn_length (N.to_nat (bz_max p)) d) as Hf.
  destruct (length (firstn (N.to_nat (bz_max p)) d) <? N.to_nat (bz_min p)) eqn:E.
  - lia.
  - pose proof (buz_cut_buf_range p (firstn (N.to_nat (bz_max p)) d)) as Hr. lia.
Qed.

(** rabin *)
Lemma rabin_scan_facts : forall hit mn mx d rest k,
  let r := rabin_scan hit mn mx d k rest in
  k <= r <= k + length rest /\
  (rest <> [] -> k < r) /\
  (r = k + length rest \/ N.to_nat mn <= r) /\
  (forall F, N.to_nat mn <= F -> N.to_nat mx <= F -> k < F -> r <= F).
Proof.
  intros hit mn mx d rest. induction rest as [|b rest IH]; intros k; cbn [rabin_scan length].
  - repeat split; try lia; try congruence.
  - destruct ((N.to_nat mn <=? S k) && (hit d (S k) || (N.to_nat mx <=? S k))) eqn:E.
    + repeat split; try lia.
    + specialize (IH (S k)). cbn zeta in IH. destruct IH as [I1 [I2 [I3 I4]]].
      repeat split; try lia.
      intros F HF1 HF2 HF3. destruct (Nat.eq_dec (S k) F) as [Heq|Hne].
      * exfalso. subst F. lia.
      * apply I4; lia.
Qed.

Lemma rabin_pre_nowrap : forall mn, (16 <= mn)%N -> (Z.of_N mn < two64)%Z ->
  rabin_pre mn = (Z.of_N mn - 16)%Z.
Proof. intros mn H1 H2. unfold rabin_pre. apply Z.mod_small. unfold two64 in *. lia. Qed.

Lemma cut_rabin_spec : forall hit mn mx lim,
  (16 <= mn)%N -> (mn <= mx)%N -> (mx <= lim)%N -> (Z.of_N lim < two64)%Z ->
  cut_spec mn mx lim (cut_rabin hit mn mx).
Proof.
  intros hit mn mx lim H16 Hmm Hml Hl64 d Hd. unfold cut_rabin.
  pose proof (length_pos d Hd) as Hp.
  rewrite rabin_pre_nowrap by lia.
  destruct (Z.of_nat (length d) <=? Z.of_N mn - 16)%Z eqn:E.
  - (* the whole input is swallowed before a cut may start *)
    split; [lia|]. split; lia.
  - pose proof (rabin_scan_facts hit mn mx d (skipn (Z.to_nat (Z.of_N mn - 16)) d) (Z.to_nat (Z.of_N mn - 16))) as F.
    cbn zeta in F. rewrite skipn_length in F. destruct F as [F1 [F2 [F3 F4]]].
    assert (Hrest : skipn (Z.to_nat (Z.of_N mn - 16)) d <> []).
    { intro Hf. apply (f_equal (@length N)) in Hf. rewrite skipn_length in Hf. simpl in Hf. lia. }
    specialize (F2 Hrest). assert (F4' := F4 (N.to_nat mx) ltac:(lia) ltac:(lia) ltac:(lia)).
    split; [lia|]. split; [lia|]. destruct F3 as [F3|F3]; [left; lia|right; lia].
Qed.

(** with min below the window size the subtraction wraps and no cut happens before EOF *)
Lemma cut_rabin_small : forall hit mn mx d,
  (mn < 16)%N -> (Z.of_nat (length d) <= two64 - 16)%Z ->
  cut_rabin hit mn mx d = length d.
Proof.
  intros hit mn mx d Hmn Hd. unfold cut_rabin.
  assert (Hpre : rabin_pre mn = (two64 + Z.of_N mn - 16)%Z).
  { unfold rabin_pre. replace (Z.of_N mn - 16)%Z with ((two64 + Z.of_N mn - 16) + (-1) * two64)%Z by lia.
    rewrite Z.mod_add by (unfold two64; lia). apply Z.mod_small. unfold two64. lia. }
  rewrite Hpre. destruct (Z.of_nat (length d) <=? two64 + Z.of_N mn - 16)%Z eqn:E; [reflexivity|lia].
Qed.

Lemma chunks_single : forall cut d, d <> [] -> cut d = length d -> chunks cut d = Some [d].
Proof.
  intros cut d Hd Hc. unfold chunks. destruct d as [|x d'] eqn:Ed; [congruence|].
  rewrite <- Ed in *. assert (Hne : d <> []) by (subst d; discriminate).
  replace (length d) with (S (length d')) at 1 by (subst d; reflexivity).
  rewrite chunksf_step by exact Hne. rewrite Hc.
  pose proof (length_pos d Hne).
  destruct ((length d =? 0) || (length d <? length d)) eqn:Eg; [lia|].
  rewrite skipn_all, chunksf_nil, firstn_all. reflexivity.
Qed.

(* ------------------------------------------------------------------ *)
(** * io.ReadFull over ANY fragmentation returns the same prefix *)

(** error of ReadFull(want) on a reader holding [data], [acc] already read *)
Definition rf_err (want : nat) (acc data : list N) : rerr :=
  if want <=? length data then ENil else if is_nil (acc ++ data) then EEOF else EUnexpected.

Lemma read_fullf_zero : forall fuel r acc, read_fullf fuel r 0 acc = Some (acc, ENil, r).
Proof. intros fuel r acc. destruct fuel; reflexivity. Qed.

Lemma read_fullf_S : forall fuel r w acc,
  read_fullf (S fuel) r (S w) acc =
    let '(got, eof, r') := rd_read r (S w) in
    let acc' := acc ++ got in
    let want' := S w - length got in
    if eof then
      Some (acc', (if want' =? 0 then ENil else if is_nil acc' then EEOF else EUnexpected), r')
    else read_fullf fuel r' want' acc'.
Proof. reflexivity. Qed.

Lemma rd_read_nonempty : forall data frs want, data <> [] ->
  rd_read {| rd_data := data; rd_frags := frs |} want =
    let '(k, e, frs1) := match frs with
                         | [] => (want, false, [])
                         | (k, e) :: frs1 => (N.to_nat k, e, frs1)
                         end in
    let k' := Nat.min k want in
    (firstn k' data, e && is_nil (skipn k' data), {| rd_data := skipn k' data; rd_frags := frs1 |}).
Proof. intros data frs want H. destruct data; [congruence|reflexivity]. Qed.

Lemma is_nil_true : forall (A : Type) (l : list A), is_nil l = true -> l = [].
Proof. intros A l H. destruct l; [reflexivity|discriminate]. Qed.
Lemma is_nil_length : forall (A : Type) (l : list A), is_nil l = (length l =? 0).
Proof. intros A l. destruct l; reflexivity. Qed.

Lemma read_fullf_spec : forall fuel data frs want acc,
  length frs + (if is_nil data then 1 else 2) <= fuel ->
  exists frs', read_fullf fuel {| rd_data := data; rd_frags := frs |} want acc =
    Some (acc ++ firstn want data, rf_err want acc data,
          {| rd_data := skipn want data; rd_frags := frs' |}).
Proof.
  induction fuel as [|fuel IH]; intros data frs want acc Hm.
  - destruct (is_nil data); lia.
  - destruct want as [|w].
    + exists frs. rewrite read_fullf_zero. unfold rf_err. cbn [firstn skipn Nat.leb]. rewrite app_nil_r. reflexivity.
    + rewrite read_fullf_S.
      destruct data as [|x data'] eqn:Ed.
      * (* EOF *)
        exists frs. cbn [rd_read rd_data]. cbn [length Nat.sub Nat.eqb firstn skipn]. unfold rf_err. cbn [length Nat.leb].
        reflexivity.
      * rewrite <- Ed in *. assert (Hne : data <> []) by (subst data; discriminate).
        rewrite rd_read_nonempty by exact Hne.
        (* the three components of the fragment in force *)
        assert (Hfr : exists k e frs1,
                   match frs with [] => (S w, false, []) | (k, e) :: frs1 => (N.to_nat k, e, frs1) end = (k, e, frs1) /\
                   (length frs1 + 2 <= fuel \/ (frs1 = [] /\ Nat.min k (S w) = S w /\ 1 <= fuel))).
        { assert (is_nil data = false) as Hn by (subst data; reflexivity). rewrite Hn in Hm.
          destruct frs as [|[k e] frs1].
          - exists (S w), false, []. split; [reflexivity|]. right. cbn [length] in Hm. repeat split; lia.
          - exists (N.to_nat k), e, frs1. split; [reflexivity|]. left. cbn [length] in Hm. lia. }
        destruct Hfr as [k [e [frs1 [Hfr Hfuel]]]]. rewrite Hfr. cbn zeta.
        set (k' := Nat.min k (S w)).
        set (g := firstn k' data). set (rest := skipn k' data).
        assert (Hd : data = g ++ rest) by (symmetry; apply firstn_skipn).
        assert (Hlg : length g <= S w) by (unfold g; rewrite firstn_length; lia).
        assert (F1 : firstn (S w) data = g ++ firstn (S w - length g) rest).
        { rewrite Hd at 1. rewrite firstn_app, (firstn_all2 g) by lia. reflexivity. }
        assert (F2 : skipn (S w) data = skipn (S w - length g) rest).
        { rewrite Hd at 1. rewrite skipn_app, (skipn_all2 g) by lia. reflexivity. }
        assert (F3 : length data = length g + length rest) by (rewrite Hd at 1; apply app_length).
        destruct (e && is_nil rest) eqn:Eeof.
        -- (* io.EOF together with the last bytes *)
           apply andb_true_iff in Eeof. destruct Eeof as [_ Hr]. apply is_nil_true in Hr.
           exists frs1. rewrite F1, F2, Hr. rewrite Hr in F3.
           rewrite firstn_nil, skipn_nil, app_nil_r. unfold rf_err. rewrite F3, Hd, Hr, app_nil_r.
           cbn [length]. rewrite Nat.add_0_r.
           destruct (S w - length g =? 0) eqn:E1; destruct (S w <=? length g) eqn:E2; try lia; reflexivity.
        -- destruct (S w - length g) as [|w'] eqn:Ew.
           ++ exists frs1. rewrite read_fullf_zero. rewrite F1, F2. cbn [firstn skipn]. rewrite app_nil_r.
              unfold rf_err. destruct (S w <=? length data) eqn:E2; [reflexivity|lia].
           ++ destruct (IH rest frs1 (S w') (acc ++ g)) as [frs' Hrec].
              { destruct Hfuel as [Hf|[Hf1 [Hf2 Hf3]]].
                - destruct (is_nil rest); lia.
                - assert (length g = length data) by (unfold g in *; rewrite firstn_length in *; lia).
                  assert (length rest = 0) by lia. rewrite is_nil_length, H0. subst frs1. cbn. lia. }
              exists frs'. rewrite Hrec. rewrite F1, F2, app_assoc. f_equal. f_equal. f_equal.
              unfold rf_err. rewrite <- app_assoc, <- Hd, F3.
              destruct (S w' <=? length rest) eqn:E1; destruct (S w <=? length g + length rest) eqn:E2; try lia; reflexivity.
Qed.

Lemma read_full_spec : forall data frs want,
  exists frs', read_full {| rd_data := data; rd_frags := frs |} want =
    Some (firstn want data, rf_err want [] data, {| rd_data := skipn want data; rd_frags := frs' |}).
Proof.
  intros data frs want. unfold read_full. cbn [rd_frags].
  destruct (read_fullf_spec (length frs + 2) data frs want []) as [frs' H].
  - destruct (is_nil data); lia.
  - exists frs'. exact H.
Qed.

(* ------------------------------------------------------------------ *)
(** * Determinism: the stateful splitters over any fragmentation = the pure chunking *)

Lemma cut_size_wf : forall size, (1 <= size)%N -> cut_wf (cut_size size).
Proof. intros size H. exact (cut_spec_wf _ _ _ _ (cut_size_spec size size H (N.le_refl _))). Qed.

Lemma drive_size : forall size, (1 <= size)%N ->
  forall fuel f' data frs,
    length data + 2 <= fuel -> length data <= f' ->
    drive (size_next size) fuel ({| rd_data := data; rd_frags := frs |}, false) =
    chunksf (cut_size size) f' data.
Proof.
  intros size Hs. induction fuel as [|fuel IH]; intros f' data frs Hf Hf'; [lia|].
  cbn [drive]. unfold size_next at 1.
  destruct (read_full_spec data frs (N.to_nat size)) as [frs' Hr]. rewrite Hr. unfold rf_err. cbn [app].
  destruct (N.to_nat size <=? length data) eqn:E1.
  - (* a full block *)
    assert (Hne : data <> []) by (intro Hx; subst data; simpl in E1; lia).
    destruct f' as [|f']; [pose proof (length_pos data Hne); lia|].
    rewrite chunksf_step by exact Hne. unfold cut_size at 1 2.
    replace (Nat.min (N.to_nat size) (length data)) with (N.to_nat size) by lia.
    destruct ((N.to_nat size =? 0) || (length data <? N.to_nat size)) eqn:Eg; [lia|].
    rewrite (IH f'); [|rewrite skipn_length; lia|rewrite skipn_length; lia].
    unfold cut_size. replace (Nat.min (N.to_nat size) (length data)) with (N.to_nat size) by lia. reflexivity.
  - destruct (is_nil data) eqn:E2.
    + apply is_nil_true in E2. subst data. rewrite chunksf_nil. reflexivity.
    + (* the short last block, then the sticky io.EOF *)
      assert (Hne : data <> []) by (intro Hx; subst data; discriminate).
      destruct f' as [|f']; [pose proof (length_pos data Hne); lia|].
      rewrite chunksf_step by exact Hne. unfold cut_size.
      replace (Nat.min (N.to_nat size) (length data)) with (length data) by lia.
      pose proof (length_pos data Hne).
      destruct ((length data =? 0) || (length data <? length data)) eqn:Eg; [lia|].
      rewrite skipn_all, chunksf_nil, firstn_all.
      rewrite (firstn_all2 data) by lia.
      destruct fuel as [|fuel]; [lia|]. reflexivity.
Qed.

Lemma firstn_app_le : forall (A : Type) (l1 l2 : list A) n,
  length l1 <= n -> firstn n (l1 ++ l2) = l1 ++ firstn (n - length l1) l2.
Proof. intros A l1 l2 n H. rewrite firstn_app, firstn_all2 by lia. reflexivity. Qed.

Lemma cut_buz_wf : forall p, bzp_wf p -> cut_wf (cut_buz p).
Proof. intros p H. exact (cut_spec_wf _ _ _ _ (cut_buz_spec p (bz_max p) H (N.le_refl _))). Qed.

Lemma drive_buz : forall p, bzp_wf p ->
  forall fuel f' carry data frs,
    length carry < N.to_nat (bz_max p) ->
    length (carry ++ data) + 2 <= fuel -> length (carry ++ data) <= f' ->
    drive (buz_next p) fuel (carry, {| rd_data := data; rd_frags := frs |}, false) =
    chunksf (cut_buz p) f' (carry ++ data).
Proof.
  intros p Hwf. pose proof Hwf as [Hw1 Hw2].
  induction fuel as [|fuel IH]; intros f' carry data frs Hc Hf Hf'; [lia|].
  cbn [drive]. unfold buz_next at 1.
  set (mx := N.to_nat (bz_max p)) in *. set (mn := N.to_nat (bz_min p)) in *.
  destruct (read_full_spec data frs (mx - length carry)) as [frs' Hr]. rewrite Hr.
  set (want := mx - length carry) in *.
  set (buf := carry ++ firstn want data).
  assert (Hbuf : buf = firstn mx (carry ++ data)).
  { unfold buf, want. rewrite firstn_app_le by lia. reflexivity. }
  assert (Hrem : carry ++ data = buf ++ skipn want data).
  { unfold buf. rewrite <- app_assoc, firstn_skipn. reflexivity. }
  assert (Hlb : length buf = length carry + Nat.min want (length data)).
  { unfold buf. rewrite app_length, firstn_length. reflexivity. }
  unfold rf_err. cbn [app].
  assert (Hshort : (match (if want <=? length data then ENil else if is_nil data then EEOF else EUnexpected) with
                    | ENil => false | _ => length buf <? mn end) =
                   (length (firstn mx (carry ++ data)) <? mn)).
  { rewrite <- Hbuf. destruct (want <=? length data) eqn:E1.
    - symmetry. apply Nat.ltb_ge. unfold want, mx, mn in *. lia.
    - destruct (is_nil data); reflexivity. }
  rewrite Hshort, <- Hbuf.
  destruct (length buf <? mn) eqn:Es.
  - (* fewer than min bytes are left: they are the last chunk *)
    assert (Hall : buf = carry ++ data).
    { rewrite Hbuf. apply firstn_all2. rewrite Hbuf, firstn_length in Es. unfold mx, mn in *. lia. }
    destruct (is_nil buf) eqn:En.
    + apply is_nil_true in En. rewrite <- Hall, En, chunksf_nil. reflexivity.
    + assert (Hne : carry ++ data <> []) by (rewrite <- Hall; intro Hx; rewrite Hx in En; discriminate).
      destruct f' as [|f']; [pose proof (length_pos _ Hne); lia|].
      rewrite chunksf_step by exact Hne.
      assert (Hcut : cut_buz p (carry ++ data) = length (carry ++ data)).
      { unfold cut_buz. fold mx mn. rewrite <- Hbuf, Es, Hall. reflexivity. }
      rewrite Hcut. pose proof (length_pos _ Hne).
      destruct ((length (carry ++ data) =? 0) || (length (carry ++ data) <? length (carry ++ data))) eqn:Eg; [lia|].
      rewrite skipn_all, chunksf_nil, firstn_all, Hall.
      destruct fuel as [|fuel]; [lia|]. reflexivity.
  - (* a cut inside the buffer *)
    assert (Hmn : mn <= length buf) by lia.
    pose proof (buz_cut_buf_range p buf Hmn) as [Hi1 Hi2]. fold mn in Hi1.
    set (i := buz_cut_buf p buf) in *.
    assert (Hne : carry ++ data <> []).
    { intro Hx. rewrite Hx in Hbuf. rewrite firstn_nil in Hbuf. rewrite Hbuf in Hmn. simpl in Hmn. unfold mn in *. lia. }
    destruct f' as [|f']; [pose proof (length_pos _ Hne); lia|].
    rewrite chunksf_step by exact Hne.
    assert (Hcut : cut_buz p (carry ++ data) = i).
    { unfold cut_buz. fold mx mn. rewrite <- Hbuf, Es. reflexivity. }
    rewrite Hcut.
    assert (Hlen : length (carry ++ data) = length buf + length (skipn want data)) by (rewrite Hrem at 1; apply app_length).
    destruct ((i =? 0) || (length (carry ++ data) <? i)) eqn:Eg; [unfold mn in *; lia|].
    assert (Hfi : firstn i (carry ++ data) = firstn i buf).
    { rewrite Hrem, firstn_app. replace (i - length buf) with 0 by lia. cbn [firstn]. apply app_nil_r. }
    assert (Hsi : skipn i (carry ++ data) = skipn i buf ++ skipn want data).
    { rewrite Hrem, skipn_app. replace (i - length buf) with 0 by lia. reflexivity. }
    rewrite Hfi, Hsi.
    rewrite (IH f' (skipn i buf) (skipn want data) frs'); [reflexivity| | |].
    + rewrite skipn_length. rewrite Hbuf, firstn_length in Hi2 |- *. unfold mx, mn in *. lia.
    + rewrite <- Hsi, skipn_length. unfold mn in *. lia.
    + rewrite <- Hsi, skipn_length. unfold mn in *. lia.
Qed.

(* ------------------------------------------------------------------ *)
(** * The rabin consistency check accepts every output of the rabin model *)

Lemma rabin_pre_range : forall mn, (0 <= rabin_pre mn < two64)%Z.
Proof. intros mn. unfold rabin_pre. apply Z.mod_pos_bound. unfold two64. lia. Qed.

Lemma cut_rabin_facts : forall hit mn mx d, d <> [] ->
  let l := Z.of_nat (cut_rabin hit mn mx d) in
  let total := Z.of_nat (length d) in
  (1 <= l <= total)%Z /\ (l <= rabin_force mn mx)%Z /\ (l = total \/ rabin_first mn <= l)%Z.
Proof.
  intros hit mn mx d Hd. cbn zeta. unfold cut_rabin, rabin_force, rabin_first.
  pose proof (rabin_pre_range mn) as Hpre. set (pre := rabin_pre mn) in *.
  pose proof (length_pos d Hd) as Hp.
  destruct (Z.of_nat (length d) <=? pre)%Z eqn:E.
  - lia.
  - pose proof (rabin_scan_facts hit mn mx d (skipn (Z.to_nat pre) d) (Z.to_nat pre)) as F.
    cbn zeta in F. rewrite skipn_length in F. destruct F as [F1 [F2 [F3 F4]]].
    assert (Hrest : skipn (Z.to_nat pre) d <> []).
    { intro Hf. apply (f_equal (@length N)) in Hf. rewrite skipn_length in Hf. simpl in Hf. lia. }
    specialize (F2 Hrest).
    specialize (F4 (Z.to_nat (Z.max (Z.max (pre + 1) (Z.of_N mn)) (Z.of_N mx))) ltac:(lia) ltac:(lia) ltac:(lia)).
    lia.
Qed.

Lemma rabin_cons_sound : forall hit mn mx fuel d cs,
  chunksf (cut_rabin hit mn mx) fuel d = Some cs ->
  rabin_cons mn mx (Z.of_nat (length d)) (map lenN cs) = true.
Proof.
  intros hit mn mx fuel. induction fuel as [|fuel IH]; intros d cs H.
  - destruct d; simpl in H; [inversion H; reflexivity|discriminate].
  - destruct d as [|x d'] eqn:Ed; [simpl in H; inversion H; reflexivity|].
    rewrite <- Ed in *. assert (Hne : d <> []) by (subst d; discriminate).
    rewrite chunksf_step in H by exact Hne.
    set (n := cut_rabin hit mn mx d) in *.
    destruct ((n =? 0) || (length d <? n)) eqn:Eg; [discriminate|].
    destruct (chunksf (cut_rabin hit mn mx) fuel (skipn n d)) as [r|] eqn:Er; [|discriminate].
    inversion H; subst cs. clear H.
    pose proof (cut_rabin_facts hit mn mx d Hne) as F. cbn zeta in F. fold n in F.
    specialize (IH _ _ Er). rewrite skipn_length in IH.
    cbn [map rabin_cons].
    assert (Hl : Z.of_N (lenN (firstn n d)) = Z.of_nat n).
    { unfold lenN. rewrite firstn_length. lia. }
    rewrite Hl. replace (Z.of_nat (length d) - Z.of_nat n)%Z with (Z.of_nat (length d - n)) by lia.
    rewrite IH. lia.
Qed.

(* ------------------------------------------------------------------ *)
(** * The parser only accepts parameters that keep the promises *)

Lemma from_string_sound : forall s, params_ok (from_string flags_off s) = true.
Proof.
  intros s. unfold from_string, parse_size, parse_rabin.
  cbn [flags_off f_rabin_small f_rabin_huge negb andb].
  repeat match goal with
         | |- params_ok (match ?x with _ => _ end) = true => destruct x eqn:?
         | |- params_ok (if ?x then _ else _) = true => destruct x eqn:?
         end;
    try reflexivity;
    cbn [params_ok]; unfold limitN, limitZ, rabin_min_of, rabin_max_of in *; lia.
Qed.

(** the two defects of the tree the design was written against *)
Lemma from_string_small_refuted :
  from_string {| f_rabin_small := true; f_rabin_huge := false |} (bos "rabin-47") = PRabin 15 47 70 /\
  params_ok (PRabin 15 47 70) = false.
Proof. split; vm_compute; reflexivity. Qed.

Lemma from_string_huge_refuted :
  from_string {| f_rabin_small := false; f_rabin_huge := true |} (bos "rabin-7000000000000000000") = PPanic.
Proof. vm_compute. reflexivity. Qed.

Lemma rabin_small_one_chunk : forall hit mn mx d,
  (mn < 16)%N -> d <> [] -> (Z.of_nat (length d) <= two64 - 16)%Z ->
  chunks (cut_rabin hit mn mx) d = Some [d].
Proof.
  intros hit mn mx d Hmn Hd Hl. apply chunks_single; [exact Hd|]. apply cut_rabin_small; assumption.
Qed.

Lemma rabin_small_refuted : forall hit mn mx, (mn < 16)%N ->
  exists d, chunks (cut_rabin hit mn mx) d = Some [d] /\ lens_ok mn mx limitN (map lenN [d]) = false.
Proof.
  intros hit mn mx Hmn. exists (repeat 0%N (N.to_nat (limitN + 1))).
  assert (Hlen : length (repeat 0%N (N.to_nat (limitN + 1))) = N.to_nat (limitN + 1)) by apply repeat_length.
  split.
  - apply rabin_small_one_chunk; [exact Hmn| |].
    + intro Hf. apply (f_equal (@length N)) in Hf. rewrite Hlen in Hf. simpl in Hf. unfold limitN in Hf. lia.
    + rewrite Hlen. unfold limitN, two64. lia.
  - unfold lens_ok. cbn [map forallb]. unfold lenN. rewrite Hlen, N2Nat.id.
    replace (limitN + 1 <=? limitN)%N with false by (unfold limitN; lia).
    rewrite andb_false_r. reflexivity.
Qed.

(* ------------------------------------------------------------------ *)
(** * End to end: any accepted specification, any input *)

Lemma buz_real_wf : bzp_wf buz_real /\ (bz_max buz_real <= limitN)%N.
Proof. unfold bzp_wf, buz_real, limitN. cbn [bz_min bz_max]. lia. Qed.

Lemma end_to_end : forall hit s cut,
  cut_of hit (from_string flags_off s) = Some cut ->
  forall d, exists cs, chunks cut d = Some cs /\
    run_ok (fst (bounds_of (from_string flags_off s))) (snd (bounds_of (from_string flags_off s))) limitN d cs = true.
Proof.
  intros hit s cut Hc d. pose proof (from_string_sound s) as Hp.
  destruct (from_string flags_off s) as [e|n|mn avg mx| |] eqn:Er; cbn [cut_of] in Hc; try discriminate;
    inversion Hc; subst cut; cbn [bounds_of fst snd]; cbn [params_ok] in Hp.
  - apply cut_spec_run. apply cut_size_spec; lia.
  - apply cut_spec_run. apply cut_rabin_spec; unfold limitN, two64 in *; lia.
  - apply cut_spec_run. destruct buz_real_wf as [Hw Hl]. apply cut_buz_spec; assumption.
Qed.

(* ------------------------------------------------------------------ *)
(** * Arithmetic of the hash step *)

Lemma rotl1_bits_eq : forall x, (x < 4294967296)%N -> rotl1 x = rotl1_bits x.
Proof.
  intros x Hx. unfold rotl1, rotl1_bits.
  change 4294967295%N with (N.ones 32). rewrite N.land_ones, N.shiftl_mul_pow2, N.shiftr_div_pow2.
  change (2 ^ 1)%N with 2%N. change (2 ^ 31)%N with 2147483648%N. change (2 ^ 32)%N with 4294967296%N.
  destruct (x <? 2147483648)%N eqn:E.
  - replace (x / 2147483648)%N with 0%N by (symmetry; apply N.div_small; lia).
    rewrite N.lor_0_r, N.mod_small by lia. rewrite N.double_spec. lia.
  - set (y := (x - 2147483648)%N).
    replace (x / 2147483648)%N with 1%N.
    2:{ apply (N.div_unique x 2147483648 1 y); unfold y; lia. }
    replace ((x * 2) mod 4294967296)%N with (N.double y).
    2:{ apply (N.mod_unique (x * 2) 4294967296 1 (N.double y)); rewrite ?N.double_spec; unfold y; lia. }
    destruct y as [|py]; reflexivity.
Qed.

(** the two-level table lookup is the plain indexing of the table of buzhash.go *)
Lemma bh_real_nth : forall b, (b < 256)%N -> bh_real b = nth (N.to_nat b) bytehash 0%N.
Proof.
  assert (H : forallb (fun n => (bh_real (N.of_nat n) =? nth n bytehash 0)%N) (seq 0 256) = true)
    by (vm_compute; reflexivity).
  intros b Hb. rewrite forallb_forall in H.
  specialize (H (N.to_nat b)). rewrite N2Nat.id in H. apply N.eqb_eq, H.
  apply in_seq. lia.
Qed.

(* ------------------------------------------------------------------ *)
(** * Statements in the form used by props/Props_C06.v *)

Lemma lossless : forall cut d cs, chunks cut d = Some cs -> concat cs = d.
Proof. intros cut d cs H. exact (chunksf_concat _ _ _ _ H). Qed.

Lemma nonempty : forall cut d cs, chunks cut d = Some cs -> Forall (fun c => c <> []) cs.
Proof. intros cut d cs H. exact (chunksf_nonempty _ _ _ _ H). Qed.

Lemma chunks_total : forall cut, cut_wf cut -> forall d, exists cs, chunks cut d = Some cs.
Proof. intros cut H d. exact (chunksf_total cut H (length d) d (le_n _)). Qed.

Lemma size_bounds : forall size lim d, (1 <= size)%N -> (size <= lim)%N ->
  exists cs, chunks (cut_size size) d = Some cs /\ run_ok size size lim d cs = true.
Proof. intros size lim d H1 H2. apply cut_spec_run. apply cut_size_spec; assumption. Qed.

Lemma buz_bounds : forall p lim d, (32 <= bz_min p)%N -> (bz_min p <= bz_max p)%N -> (bz_max p <= lim)%N ->
  exists cs, chunks (cut_buz p) d = Some cs /\ run_ok (bz_min p) (bz_max p) lim d cs = true.
Proof. intros p lim d H1 H2 H3. apply cut_spec_run. apply cut_buz_spec; [split|]; assumption. Qed.

Lemma rabin_bounds : forall hit mn mx lim d,
  (16 <= mn)%N -> (mn <= mx)%N -> (mx <= lim)%N -> (Z.of_N lim < two64)%Z ->
  exists cs, chunks (cut_rabin hit mn mx) d = Some cs /\ run_ok mn mx lim d cs = true.
Proof. intros hit mn mx lim d H1 H2 H3 H4. apply cut_spec_run. apply cut_rabin_spec; assumption. Qed.

Lemma run_size_det : forall size frs d, (1 <= size)%N ->
  run_size size {| rd_data := d; rd_frags := frs |} = chunks (cut_size size) d.
Proof.
  intros size frs d H. unfold run_size, chunks. cbn [rd_data].
  apply drive_size; [exact H|lia|lia].
Qed.

Lemma run_buz_det : forall p frs d, (32 <= bz_min p)%N -> (bz_min p <= bz_max p)%N ->
  run_buz p {| rd_data := d; rd_frags := frs |} = chunks (cut_buz p) d.
Proof.
  intros p frs d H1 H2. unfold run_buz, chunks. cbn [rd_data].
  change d with ([] ++ d) at 2 3.
  apply drive_buz; [split; assumption|cbn [length]; lia|cbn [app]; lia|cbn [app]; lia].
Qed.

Lemma rabin_cons_complete_model : forall hit mn mx d cs,
  chunks (cut_rabin hit mn mx) d = Some cs ->
  rabin_cons mn mx (Z.of_nat (length d)) (map lenN cs) = true.
Proof. intros hit mn mx d cs H. exact (rabin_cons_sound _ _ _ _ _ _ H). Qed.
