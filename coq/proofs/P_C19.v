(** C19 — proofs: the MFS mechanism model (directories with entry caches,
    propagation to the root, cacheSync) refines the tree specification. *)
From Coq Require Import List ZArith Bool NArith Lia.
From V Require Import lib.Verdict model.M_C19.
Import ListNotations.
Open Scope Z_scope.

(** ---------- association lists ---------- *)
Section AssocLemmas.
  Context {A : Type}.
  Implicit Types (l : list (name * A)) (k : name) (v : A).

  Lemma has_lookup l k : has l k = true <-> lookup l k <> None.
  Proof. unfold has. destruct (lookup l k); split; intro H; try congruence; discriminate. Qed.
  Lemma has_false l k : has l k = false <-> lookup l k = None.
  Proof. unfold has. destruct (lookup l k); split; intro H; try congruence; discriminate. Qed.

  Lemma lookup_app_none l1 l2 k : lookup l1 k = None -> lookup (l1 ++ l2) k = lookup l2 k.
  Proof.
    induction l1 as [|[k' v'] r IH]; cbn [lookup app]; intro H; [reflexivity|].
    destruct (k =? k'); [discriminate|auto].
  Qed.
  Lemma lookup_app_some l1 l2 k v : lookup l1 k = Some v -> lookup (l1 ++ l2) k = Some v.
  Proof.
    induction l1 as [|[k' v'] r IH]; cbn [lookup app]; intro H; [discriminate|].
    destruct (k =? k'); auto.
  Qed.

  Lemma lookup_repl l k v k' :
    lookup (map (fun e => if k =? fst e then (fst e, v) else e) l) k' =
    if k' =? k then match lookup l k with Some _ => Some v | None => None end else lookup l k'.
  Proof.
    induction l as [|[j w] r IH]; cbn [lookup map fst].
    - destruct (k' =? k); reflexivity.
    - destruct (k =? j) eqn:Ekj; cbn [lookup].
      + apply Z.eqb_eq in Ekj. subst j. destruct (k' =? k) eqn:E; [reflexivity|exact IH].
      + destruct (k' =? j) eqn:E'.
        * apply Z.eqb_eq in E'. subst j. rewrite Z.eqb_sym in Ekj. rewrite Ekj. reflexivity.
        * exact IH.
  Qed.

  Lemma lookup_upd_eq l k v : lookup (upd k v l) k = Some v.
  Proof.
    unfold upd. destruct (has l k) eqn:H.
    - rewrite lookup_repl, Z.eqb_refl. apply has_lookup in H. destruct (lookup l k); congruence.
    - apply has_false in H. rewrite lookup_app_none by exact H. cbn. rewrite Z.eqb_refl. reflexivity.
  Qed.
  Lemma lookup_upd_ne l k v k' : k' <> k -> lookup (upd k v l) k' = lookup l k'.
  Proof.
    intro Hne. apply Z.eqb_neq in Hne. unfold upd. destruct (has l k) eqn:H.
    - rewrite lookup_repl, Hne. reflexivity.
    - destruct (lookup l k') eqn:E.
      + apply lookup_app_some. exact E.
      + rewrite lookup_app_none by exact E. cbn. rewrite Hne. reflexivity.
  Qed.
  Lemma lookup_upd l k v k' : lookup (upd k v l) k' = if k' =? k then Some v else lookup l k'.
  Proof.
    destruct (k' =? k) eqn:E.
    - apply Z.eqb_eq in E. subst. apply lookup_upd_eq.
    - apply Z.eqb_neq in E. apply lookup_upd_ne. exact E.
  Qed.
  Lemma has_upd l k v k' : has (upd k v l) k' = (k' =? k) || has l k'.
  Proof. unfold has. rewrite lookup_upd. destruct (k' =? k); reflexivity. Qed.

  Lemma lookup_del l k k' : lookup (del k l) k' = if k' =? k then None else lookup l k'.
  Proof.
    induction l as [|[j w] r IH]; cbn [del lookup].
    - destruct (k' =? k); reflexivity.
    - destruct (k =? j) eqn:Ekj.
      + apply Z.eqb_eq in Ekj. subst j. rewrite IH. destruct (k' =? k); reflexivity.
      + cbn [lookup]. rewrite IH. destruct (k' =? j) eqn:E'; [|reflexivity].
        apply Z.eqb_eq in E'. subst j. rewrite Z.eqb_sym in Ekj. rewrite Ekj. reflexivity.
  Qed.
  Lemma has_del l k k' : has (del k l) k' = negb (k' =? k) && has l k'.
  Proof. unfold has. rewrite lookup_del. destruct (k' =? k); reflexivity. Qed.

  Lemma keys_repl l k v : keys (map (fun e => if k =? fst e then (fst e, v) else e) l) = keys l.
  Proof.
    unfold keys. rewrite map_map. apply map_ext. intros [j w]. cbn [fst].
    destruct (k =? j); reflexivity.
  Qed.
  Lemma keys_upd l k v : keys (upd k v l) = if has l k then keys l else keys l ++ [k].
  Proof.
    unfold upd. destruct (has l k).
    - apply keys_repl.
    - unfold keys. rewrite map_app. reflexivity.
  Qed.

  Lemma lookup_in_keys l k : lookup l k <> None <-> In k (keys l).
  Proof.
    induction l as [|[j w] r IH]; cbn [lookup keys map fst In].
    - split; [congruence|tauto].
    - destruct (k =? j) eqn:E.
      + apply Z.eqb_eq in E. subst. split; [auto|congruence].
      + apply Z.eqb_neq in E. rewrite IH. unfold keys. split; [auto|intros [H|H]; [congruence|exact H]].
  Qed.

  Lemma upd_upd l k v w : upd k v (upd k w l) = upd k v l.
  Proof.
    unfold upd at 1. rewrite has_upd, Z.eqb_refl. cbn [orb]. unfold upd.
    destruct (has l k) eqn:H.
    - rewrite map_map. apply map_ext. intros [j x]. cbn [fst].
      destruct (k =? j) eqn:E; cbn [fst]; rewrite E; reflexivity.
    - rewrite map_app. cbn [map fst]. rewrite Z.eqb_refl. f_equal.
      apply has_false in H. clear -H.
      induction l as [|[j x] r IH]; cbn [map]; [reflexivity|].
      cbn [lookup] in H. cbn [fst]. destruct (k =? j); [discriminate|]. f_equal. auto.
  Qed.

  (** with unique names, re-linking what is already linked changes nothing *)
  Lemma upd_same l k v : NoDup (keys l) -> lookup l k = Some v -> upd k v l = l.
  Proof.
    intros Hnd Hl. unfold upd. replace (has l k) with true
      by (symmetry; apply has_lookup; congruence).
    induction l as [|[j w] r IH]; cbn [map]; [reflexivity|].
    cbn [lookup] in Hl. cbn [keys map fst] in Hnd. inversion Hnd as [|? ? Hnin Hnd']; subst.
    cbn [fst]. destruct (k =? j) eqn:E.
    - apply Z.eqb_eq in E. subst j. inversion Hl; subst. f_equal.
      clear -Hnin. induction r as [|[j x] r IH]; cbn [map]; [reflexivity|].
      cbn [keys map fst In] in Hnin. cbn [fst]. destruct (k =? j) eqn:E.
      + apply Z.eqb_eq in E. subst. tauto.
      + f_equal. apply IH. tauto.
    - f_equal. apply IH; assumption.
  Qed.

  Lemma nodup_upd l k v : NoDup (keys l) -> NoDup (keys (upd k v l)).
  Proof.
    intro H. rewrite keys_upd. destruct (has l k) eqn:E; [exact H|].
    apply has_false in E.
    assert (Hnin : ~ In k (keys l)) by (intro Hin; apply lookup_in_keys in Hin; congruence).
    clear E. induction (keys l) as [|j r IH]; cbn [app].
    - constructor; [intros []|constructor].
    - inversion H as [|? ? Hj Hr]; subst. cbn [In] in Hnin. constructor.
      + rewrite in_app_iff. cbn [In]. intros [Hi|[Hi|[]]]; [tauto|subst; tauto].
      + apply IH; tauto.
  Qed.
End AssocLemmas.
