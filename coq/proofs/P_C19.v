(** C19 — proofs: the MFS mechanism model (directories with entry caches,
    propagation to the root, cacheSync) refines the tree specification. *)
From Coq Require Import List ZArith Bool NArith Lia.
From V Require Import lib.Verdict model.M_C19.
Import ListNotations.
Open Scope Z_scope.

(** ---------- association lists ---------- *)
Section AssocLemmas.
  Context {A : Type}.
  Implicit Types (l : list (name * A)) (k : name) (v : A).

  Lemma has_lookup l k : has l k = true <-> lookup l k <> None.
  Proof. unfold has. destruct (lookup l k); split; intro H; try congruence; discriminate. Qed.
  Lemma has_false l k : has l k = false <-> lookup l k = None.
  Proof. unfold has. destruct (lookup l k); split; intro H; try congruence; discriminate. Qed.

  Lemma lookup_app_none l1 l2 k : lookup l1 k = None -> lookup (l1 ++ l2) k = lookup l2 k.
  Proof.
    induction l1 as [|[k' v'] r IH]; cbn [lookup app]; intro H; [reflexivity|].
    destruct (k =? k'); [discriminate|auto].
  Qed.
  Lemma lookup_app_some l1 l2 k v : lookup l1 k = Some v -> lookup (l1 ++ l2) k = Some v.
  Proof.
    induction l1 as [|[k' v'] r IH]; cbn [lookup app]; intro H; [discriminate|].
    destruct (k =? k'); auto.
  Qed.

  Lemma lookup_repl l k v k' :
    lookup (map (fun e => if k =? fst e then (fst e, v) else e) l) k' =
    if k' =? k then match lookup l k with Some _ => Some v | None => None end else lookup l k'.
  Proof.
    induction l as [|[j w] r IH]; cbn [lookup map fst].
    - destruct (k' =? k); reflexivity.
    - destruct (k =? j) eqn:Ekj; cbn [lookup].
      + apply Z.eqb_eq in Ekj. subst j. destruct (k' =? k) eqn:E; [reflexivity|exact IH].
      + destruct (k' =? j) eqn:E'.
        * apply Z.eqb_eq in E'. subst j. rewrite Z.eqb_sym in Ekj. rewrite Ekj. reflexivity.
        * exact IH.
  Qed.

  Lemma lookup_upd_eq l k v : lookup (upd k v l) k = Some v.
  Proof.
    unfold upd. destruct (has l k) eqn:H.
    - rewrite lookup_repl, Z.eqb_refl. apply has_lookup in H. destruct (lookup l k); congruence.
    - apply has_false in H. rewrite lookup_app_none by exact H. cbn. rewrite Z.eqb_refl. reflexivity.
  Qed.
  Lemma lookup_upd_ne l k v k' : k' <> k -> lookup (upd k v l) k' = lookup l k'.
  Proof.
    intro Hne. apply Z.eqb_neq in Hne. unfold upd. destruct (has l k) eqn:H.
    - rewrite lookup_repl, Hne. reflexivity.
    - destruct (lookup l k') eqn:E.
      + apply lookup_app_some. exact E.
      + rewrite lookup_app_none by exact E. cbn. rewrite Hne. reflexivity.
  Qed.
  Lemma lookup_upd l k v k' : lookup (upd k v l) k' = if k' =? k then Some v else lookup l k'.
  Proof.
    destruct (k' =? k) eqn:E.
    - apply Z.eqb_eq in E. subst. apply lookup_upd_eq.
    - apply Z.eqb_neq in E. apply lookup_upd_ne. exact E.
  Qed.
  Lemma has_upd l k v k' : has (upd k v l) k' = (k' =? k) || has l k'.
  Proof. unfold has. rewrite lookup_upd. destruct (k' =? k); reflexivity. Qed.

  Lemma lookup_del l k k' : lookup (del k l) k' = if k' =? k then None else lookup l k'.
  Proof.
    induction l as [|[j w] r IH]; cbn [del lookup].
    - destruct (k' =? k); reflexivity.
    - destruct (k =? j) eqn:Ekj.
      + apply Z.eqb_eq in Ekj. subst j. rewrite IH. destruct (k' =? k); reflexivity.
      + cbn [lookup]. rewrite IH. destruct (k' =? j) eqn:E'; [|reflexivity].
        apply Z.eqb_eq in E'. subst j. rewrite Z.eqb_sym in Ekj. rewrite Ekj. reflexivity.
  Qed.
  Lemma has_del l k k' : has (del k l) k' = negb (k' =? k) && has l k'.
  Proof. unfold has. rewrite lookup_del. destruct (k' =? k); reflexivity. Qed.

  Lemma keys_repl l k v : keys (map (fun e => if k =? fst e then (fst e, v) else e) l) = keys l.
  Proof.
    unfold keys. rewrite map_map. apply map_ext. intros [j w]. cbn [fst].
    destruct (k =? j); reflexivity.
  Qed.
  Lemma keys_upd l k v : keys (upd k v l) = if has l k then keys l else keys l ++ [k].
  Proof.
    unfold upd. destruct (has l k).
    - apply keys_repl.
    - unfold keys. rewrite map_app. reflexivity.
  Qed.

  Lemma lookup_in_keys l k : lookup l k <> None <-> In k (keys l).
  Proof.
    induction l as [|[j w] r IH]; cbn [lookup keys map fst In].
    - split; [congruence|tauto].
    - destruct (k =? j) eqn:E.
      + apply Z.eqb_eq in E. subst. split; [auto|congruence].
      + apply Z.eqb_neq in E. rewrite IH. unfold keys. split; [auto|intros [H|H]; [congruence|exact H]].
  Qed.

  Lemma upd_upd l k v w : upd k v (upd k w l) = upd k v l.
  Proof.
    unfold upd at 1. rewrite has_upd, Z.eqb_refl. cbn [orb]. unfold upd.
    destruct (has l k) eqn:H.
    - rewrite map_map. apply map_ext. intros [j x]. cbn [fst].
      destruct (k =? j) eqn:E; cbn [fst]; rewrite E; reflexivity.
    - rewrite map_app. cbn [map fst]. rewrite Z.eqb_refl. f_equal.
      apply has_false in H. clear -H.
      induction l as [|[j x] r IH]; cbn [map]; [reflexivity|].
      cbn [lookup] in H. cbn [fst]. destruct (k =? j); [discriminate|]. f_equal. auto.
  Qed.

  (** with unique names, re-linking what is already linked changes nothing *)
  Lemma upd_same l k v : NoDup (keys l) -> lookup l k = Some v -> upd k v l = l.
  Proof.
    intros Hnd Hl. unfold upd. replace (has l k) with true
      by (symmetry; apply has_lookup; congruence).
    induction l as [|[j w] r IH]; cbn [map]; [reflexivity|].
    cbn [lookup] in Hl. cbn [keys map fst] in Hnd. inversion Hnd as [|? ? Hnin Hnd']; subst.
    cbn [fst]. destruct (k =? j) eqn:E.
    - apply Z.eqb_eq in E. subst j. inversion Hl; subst. f_equal.
      clear -Hnin. induction r as [|[j x] r IH]; cbn [map]; [reflexivity|].
      cbn [keys map fst In] in Hnin. cbn [fst]. destruct (k =? j) eqn:E.
      + apply Z.eqb_eq in E. subst. tauto.
      + f_equal. apply IH. tauto.
    - f_equal. apply IH; assumption.
  Qed.

  Lemma nodup_upd l k v : NoDup (keys l) -> NoDup (keys (upd k v l)).
  Proof.
    intro H. rewrite keys_upd. destruct (has l k) eqn:E; [exact H|].
    apply has_false in E.
    assert (Hnin : ~ In k (keys l)) by (intro Hin; apply lookup_in_keys in Hin; congruence).
    clear E. induction (keys l) as [|j r IH]; cbn [app].
    - constructor; [intros []|constructor].
    - inversion H as [|? ? Hj Hr]; subst. cbn [In] in Hnin. constructor.
      + rewrite in_app_iff. cbn [In]. intros [Hi|[Hi|[]]]; [tauto|subst; tauto].
      + apply IH; tauto.
  Qed.
End AssocLemmas.

(** ---------- mapping over values ---------- *)
Definition mapv {A B} (f : A -> B) (l : list (name * A)) : list (name * B) :=
  map (fun e => match e with (k, c) => (k, f c) end) l.

Lemma lookup_mapv {A B} (f : A -> B) l k : lookup (mapv f l) k = option_map f (lookup l k).
Proof.
  induction l as [|[j w] r IH]; cbn [mapv map lookup option_map]; [reflexivity|].
  destruct (k =? j); [reflexivity|exact IH].
Qed.
Lemma has_mapv {A B} (f : A -> B) l k : has (mapv f l) k = has l k.
Proof. unfold has. rewrite lookup_mapv. destruct (lookup l k); reflexivity. Qed.
Lemma keys_mapv {A B} (f : A -> B) l : keys (mapv f l) = keys l.
Proof. unfold keys, mapv. rewrite map_map. apply map_ext. intros [j w]. reflexivity. Qed.
Lemma mapv_upd {A B} (f : A -> B) k v l : mapv f (upd k v l) = upd k (f v) (mapv f l).
Proof.
  unfold upd. rewrite has_mapv. destruct (has l k).
  - unfold mapv. rewrite !map_map. apply map_ext. intros [j w]. cbn [fst].
    destruct (k =? j); reflexivity.
  - unfold mapv. rewrite map_app. reflexivity.
Qed.
Lemma mapv_del {A B} (f : A -> B) k l : mapv f (del k l) = del k (mapv f l).
Proof.
  induction l as [|[j w] r IH]; cbn [del mapv map]; [reflexivity|].
  destruct (k =? j); [exact IH|]. cbn [map]. f_equal. exact IH.
Qed.
Lemma mapv_mapv {A B C} (f : A -> B) (g : B -> C) l : mapv g (mapv f l) = mapv (fun x => g (f x)) l.
Proof. unfold mapv. rewrite map_map. apply map_ext. intros [j w]. reflexivity. Qed.
Lemma mapv_ext_Forall {A B} (f g : A -> B) l :
  Forall (fun e => f (snd e) = g (snd e)) l -> mapv f l = mapv g l.
Proof.
  induction 1 as [|[j w] r H _ IH]; cbn [mapv map]; [reflexivity|].
  cbn [snd] in H. rewrite H. f_equal. exact IH.
Qed.

(** ---------- overlay ---------- *)
Lemma overlay_ext p c1 c2 :
  (forall k, has p k = true -> lookup c1 k = lookup c2 k) -> overlay p c1 = overlay p c2.
Proof.
  intro H. unfold overlay. apply map_ext_in. intros [j w] Hin. unfold ov. cbn [fst snd].
  rewrite H; [reflexivity|]. apply has_lookup, lookup_in_keys. unfold keys.
  change j with (fst (j, w)). apply in_map. exact Hin.
Qed.
Lemma keys_overlay p c : keys (overlay p c) = keys p.
Proof. unfold keys, overlay. rewrite map_map. apply map_ext. intros [j w]. reflexivity. Qed.
Lemma lookup_overlay p c k :
  lookup (overlay p c) k =
  match lookup p k with
  | None => None
  | Some v => Some (match lookup c k with Some v' => v' | None => v end)
  end.
Proof.
  induction p as [|[j w] r IH]; cbn [overlay map lookup ov fst snd]; [reflexivity|].
  destruct (k =? j) eqn:E; [|exact IH]. apply Z.eqb_eq in E. subst. reflexivity.
Qed.
Lemma has_overlay p c k : has (overlay p c) k = has p k.
Proof. unfold has. rewrite lookup_overlay. destruct (lookup p k); reflexivity. Qed.
Lemma overlay_nil p : overlay p [] = p.
Proof. unfold overlay. rewrite <- (map_id p) at 2. apply map_ext. intros [j w]. reflexivity. Qed.

Lemma overlay_upd_cache p c k v : has p k = true -> overlay p (upd k v c) = upd k v (overlay p c).
Proof.
  intro H. unfold upd at 2. rewrite has_overlay, H. unfold overlay. rewrite map_map.
  apply map_ext. intros [j w]. unfold ov. cbn [fst snd]. rewrite lookup_upd.
  rewrite (Z.eqb_sym j k). destruct (k =? j); reflexivity.
Qed.
Lemma overlay_upd_pers_shadowed p c k v w :
  lookup c k = Some w -> has p k = true -> overlay (upd k v p) c = overlay p c.
Proof.
  intros Hc H. unfold upd. rewrite H. unfold overlay. rewrite map_map.
  apply map_ext. intros [j x]. cbn [fst]. destruct (k =? j) eqn:E; [|reflexivity].
  apply Z.eqb_eq in E. subst j. unfold ov. cbn [fst snd]. rewrite Hc. reflexivity.
Qed.
Lemma overlay_upd_pers_fresh p c k v :
  lookup c k = None -> overlay (upd k v p) c = upd k v (overlay p c).
Proof.
  intro Hc. unfold upd. rewrite has_overlay. destruct (has p k).
  - unfold overlay. rewrite !map_map. apply map_ext. intros [j x]. cbn [fst].
    unfold ov. cbn [fst snd]. destruct (k =? j) eqn:E; cbn [fst snd]; [|reflexivity].
    apply Z.eqb_eq in E. subst j. rewrite Hc. reflexivity.
  - unfold overlay. rewrite map_app. cbn [map]. unfold ov. cbn [fst snd]. rewrite Hc. reflexivity.
Qed.
Lemma overlay_del p c k : overlay (del k p) (del k c) = del k (overlay p c).
Proof.
  induction p as [|[j w] r IH]; [reflexivity|].
  change (overlay ((j, w) :: r) c) with (ov c (j, w) :: overlay r c).
  cbn [del]. unfold ov at 1. cbn [fst snd]. destruct (k =? j) eqn:E; [exact IH|].
  change (overlay ((j, w) :: del k r) (del k c)) with (ov (del k c) (j, w) :: overlay (del k r) (del k c)).
  unfold ov. cbn [fst snd]. rewrite lookup_del, Z.eqb_sym, E, IH. reflexivity.
Qed.
Lemma overlay_idem p c : overlay (overlay p c) c = overlay p c.
Proof.
  unfold overlay. rewrite map_map. apply map_ext. intros [j w]. unfold ov. cbn [fst snd].
  destruct (lookup c j); reflexivity.
Qed.

(** ---------- induction over objects ---------- *)
Section ObjInd.
  Variable P : obj -> Prop.
  Hypothesis HF : forall d m t, P (OFile d m t).
  Hypothesis HD : forall p m t c, Forall (fun e => P (snd e)) c -> P (ODir p m t c).
  Fixpoint obj_ind' (o : obj) : P o :=
    match o with
    | OFile d m t => HF d m t
    | ODir p m t c =>
        HD p m t c
          ((fix go (l : list (name * obj)) : Forall (fun e => P (snd e)) l :=
              match l with
              | [] => Forall_nil _
              | e :: r => Forall_cons e (obj_ind' (snd e)) (go r)
              end) c)
    end.
End ObjInd.

(** ---------- well-formed trees: names are unique in every directory ---------- *)
Fixpoint wfn (n : node) : Prop :=
  match n with
  | NFile _ _ _ => True
  | NDir e _ _ =>
      NoDup (keys e) /\
      (fix go (l : list (name * node)) : Prop :=
         match l with [] => True | x :: r => wfn (snd x) /\ go r end) e
  end.
Lemma wfn_dir e m t : wfn (NDir e m t) <-> NoDup (keys e) /\ Forall (fun x => wfn (snd x)) e.
Proof.
  cbn [wfn]. apply and_iff_compat_l. induction e as [|x r IH].
  - split; intros _; [constructor|exact I].
  - rewrite IH. split.
    + intros [H1 H2]. constructor; assumption.
    + intro H. inversion H; subst. split; assumption.
Qed.
Lemma wfn_file d m t : wfn (NFile d m t).
Proof. exact I. Qed.
Opaque wfn.

(** ---------- the invariant of the mechanism: unique linked names, well-formed
    linked nodes, cached names are linked names — at every level ---------- *)
Definition sub {A B} (c : list (name * A)) (p : list (name * B)) : Prop :=
  forall k, has c k = true -> has p k = true.

Fixpoint wf (o : obj) : Prop :=
  match o with
  | OFile _ _ _ => True
  | ODir p _ _ c =>
      NoDup (keys p) /\ Forall (fun x => wfn (snd x)) p /\ sub c p /\
      (fix wfl (l : list (name * obj)) : Prop :=
         match l with [] => True | e :: r => wf (snd e) /\ wfl r end) c
  end.

Lemma wf_dir p m t c :
  wf (ODir p m t c) <->
  NoDup (keys p) /\ Forall (fun x => wfn (snd x)) p /\ sub c p /\ Forall (fun e => wf (snd e)) c.
Proof.
  cbn [wf]. do 3 apply and_iff_compat_l. induction c as [|e r IH].
  - split; intros _; [constructor|exact I].
  - rewrite IH. split.
    + intros [H1 H2]. constructor; assumption.
    + intro H. inversion H; subst. split; assumption.
Qed.
Lemma wf_file d m t : wf (OFile d m t).
Proof. exact I. Qed.
Opaque wf.

Lemma abs_dir p m t c : abs (ODir p m t c) = NDir (overlay p (mapv abs c)) m t.
Proof. reflexivity. Qed.
Lemma sync_dir p m t c :
  sync (ODir p m t c) = ODir (overlay p (mapv persnode (mapv sync c))) m t (mapv sync c).
Proof. reflexivity. Qed.

Lemma Forall_lookup {A} (Q : A -> Prop) (l : list (name * A)) k v :
  Forall (fun e => Q (snd e)) l -> lookup l k = Some v -> Q v.
Proof.
  induction 1 as [|[j w] r H _ IH]; cbn [lookup]; [discriminate|].
  destruct (k =? j); [intro E; inversion E; subst; exact H|exact IH].
Qed.
Lemma Forall_upd {A} (Q : A -> Prop) (l : list (name * A)) k v :
  Forall (fun e => Q (snd e)) l -> Q v -> Forall (fun e => Q (snd e)) (upd k v l).
Proof.
  intros H Hv. unfold upd. destruct (has l k).
  - apply Forall_map. eapply Forall_impl; [|exact H]. intros [j w] Hw. cbn [fst].
    destruct (k =? j); [exact Hv|exact Hw].
  - apply Forall_app. split; [exact H|constructor; [exact Hv|constructor]].
Qed.
Lemma Forall_del {A} (Q : A -> Prop) (l : list (name * A)) k :
  Forall (fun e => Q (snd e)) l -> Forall (fun e => Q (snd e)) (del k l).
Proof.
  induction 1 as [|[j w] r H _ IH]; cbn [del]; [constructor|].
  destruct (k =? j); [exact IH|constructor; assumption].
Qed.
Lemma Forall_mapv {A B} (Q : B -> Prop) (f : A -> B) (l : list (name * A)) :
  Forall (fun e => Q (f (snd e))) l -> Forall (fun e => Q (snd e)) (mapv f l).
Proof.
  induction 1 as [|[j w] r H _ IH]; cbn [mapv map]; constructor; assumption.
Qed.
Lemma Forall_overlay (Q : node -> Prop) p c :
  Forall (fun e => Q (snd e)) p -> Forall (fun e => Q (snd e)) c ->
  Forall (fun e => Q (snd e)) (overlay p c).
Proof.
  intros Hp Hc. unfold overlay. apply Forall_map. eapply Forall_impl; [|exact Hp].
  intros [j w] Hw. unfold ov. cbn [fst snd] in *. destruct (lookup c j) eqn:E; [|exact Hw].
  eapply Forall_lookup; [exact Hc|exact E].
Qed.
Lemma nodup_del {A} (l : list (name * A)) k : NoDup (keys l) -> NoDup (keys (del k l)).
Proof.
  induction l as [|[j w] r IH]; cbn [del keys map fst]; intro H; [constructor|].
  inversion H as [|? ? Hn Hr]; subst. destruct (k =? j); [auto|].
  cbn [keys map fst]. constructor; [|auto].
  intro Hin. apply Hn. apply lookup_in_keys in Hin. rewrite lookup_del in Hin.
  apply lookup_in_keys. destruct (j =? k); congruence.
Qed.

Lemma wf_persnode o : wf o -> wfn (persnode o).
Proof.
  destruct o as [d m t|p m t c]; cbn [persnode]; intro H; [apply wfn_file|].
  apply wf_dir in H. apply wfn_dir. tauto.
Qed.

Lemma load_spec n : abs (load n) = n /\ (wfn n -> wf (load n)).
Proof.
  destruct n as [d m t|e m t]; cbn [load].
  - split; [reflexivity|intros _; apply wf_file].
  - split.
    + rewrite abs_dir. cbn [mapv map]. rewrite overlay_nil. reflexivity.
    + intro H. apply wfn_dir in H. apply wf_dir. repeat split; try tauto.
      * intros k Hk; discriminate Hk.
      * constructor.
Qed.

(** cacheSync: afterwards the UnixFS node of the object IS what the object shows *)
Lemma sync_spec o : wf o -> abs (sync o) = abs o /\ persnode (sync o) = abs o /\ wf (sync o).
Proof.
  induction o as [d m t|p m t c IH] using obj_ind'; intro Hwf.
  - split; [|split]; try reflexivity; try apply wf_file.
  - apply wf_dir in Hwf. destruct Hwf as (Hnd & Hpn & Hsub & Hall).
    assert (IH' : Forall (fun e => abs (sync (snd e)) = abs (snd e) /\
                                   persnode (sync (snd e)) = abs (snd e) /\ wf (sync (snd e))) c).
    { clear Hsub. induction IH as [|e r H _ IHr]; [constructor|].
      inversion Hall; subst. constructor; auto. }
    assert (E1 : mapv persnode (mapv sync c) = mapv abs c).
    { rewrite mapv_mapv. apply mapv_ext_Forall. eapply Forall_impl; [|exact IH'].
      intros a (H1 & H2 & H3). exact H2. }
    assert (E2 : mapv abs (mapv sync c) = mapv abs c).
    { rewrite mapv_mapv. apply mapv_ext_Forall. eapply Forall_impl; [|exact IH'].
      intros a (H1 & H2 & H3). exact H1. }
    assert (W : Forall (fun e => wfn (snd e)) (mapv abs c)).
    { rewrite <- E1. rewrite mapv_mapv. apply Forall_mapv. eapply Forall_impl; [|exact IH'].
      intros a (H1 & H2 & H3). apply wf_persnode. exact H3. }
    rewrite sync_dir, E1. split; [|split].
    + rewrite !abs_dir, E2, overlay_idem. reflexivity.
    + rewrite abs_dir. reflexivity.
    + apply wf_dir. repeat split.
      * rewrite keys_overlay. exact Hnd.
      * apply Forall_overlay; assumption.
      * intros k Hk. rewrite has_mapv in Hk. rewrite has_overlay. auto.
      * apply Forall_mapv. eapply Forall_impl; [|exact IH']. intros a (H1 & H2 & H3). exact H3.
Qed.

Lemma wf_abs o : wf o -> wfn (abs o).
Proof.
  intro H. destruct (sync_spec o H) as (_ & E & W). rewrite <- E. apply wf_persnode. exact W.
Qed.

(** ---------- local actions refine tree actions ---------- *)
Definition grefines (g : obj -> lres) (tg : node -> node * out) : Prop :=
  forall o, wf o ->
    wf (fst3 (g o)) /\ abs (fst3 (g o)) = fst (tg (abs o)) /\ snd (fst (g o)) = snd (tg (abs o)).

Lemma child_spec p m t c k :
  wf (ODir p m t c) ->
  match child (ODir p m t c) k with
  | (o1, None) => o1 = ODir p m t c /\ lookup c k = None /\ lookup p k = None
  | (o1, Some x) =>
      exists c1, o1 = ODir p m t c1 /\ wf o1 /\
                 overlay p (mapv abs c1) = overlay p (mapv abs c) /\
                 lookup c1 k = Some x /\ wf x /\ has p k = true /\
                 lookup (overlay p (mapv abs c)) k = Some (abs x)
  end.
Proof.
  intro Hwf. pose proof Hwf as Hwf0. apply wf_dir in Hwf. destruct Hwf as (Hnd & Hpn & Hsub & Hall).
  cbn [child]. destruct (lookup c k) as [x|] eqn:Ec.
  - exists c. assert (Hp : has p k = true) by (apply Hsub, has_lookup; congruence).
    split; [reflexivity|]. split; [exact Hwf0|]. split; [reflexivity|]. split; [exact Ec|].
    split; [eapply Forall_lookup; [exact Hall|exact Ec]|]. split; [exact Hp|].
    rewrite lookup_overlay, lookup_mapv, Ec. cbn [option_map].
    apply has_lookup in Hp. destruct (lookup p k); [reflexivity|congruence].
  - destruct (lookup p k) as [n|] eqn:Ep.
    + destruct (load_spec n) as [Habs Hwfl].
      assert (Hwn : wfn n) by (eapply Forall_lookup; [exact Hpn|exact Ep]).
      assert (Hp : has p k = true) by (apply has_lookup; congruence).
      assert (Hlk : lookup (overlay p (mapv abs c)) k = Some n).
      { rewrite lookup_overlay, Ep, lookup_mapv, Ec. reflexivity. }
      exists (upd k (load n) c). split; [reflexivity|]. split; [|split; [|split; [|split; [|split]]]].
      * apply wf_dir. split; [exact Hnd|]. split; [exact Hpn|]. split.
        -- intros k' Hk'. rewrite has_upd in Hk'. apply orb_true_iff in Hk'. destruct Hk' as [E|E].
           ++ apply Z.eqb_eq in E. subst. exact Hp.
           ++ auto.
        -- apply Forall_upd; auto.
      * rewrite mapv_upd, Habs, overlay_upd_cache by exact Hp.
        apply upd_same; [rewrite keys_overlay; exact Hnd|exact Hlk].
      * apply lookup_upd_eq.
      * auto.
      * exact Hp.
      * rewrite Habs. exact Hlk.
    + split; [reflexivity|]. split; first [reflexivity|assumption].
Qed.

Lemma wf_set_cache p m t c k x :
  wf (ODir p m t c) -> has p k = true -> wf x -> wf (ODir p m t (upd k x c)).
Proof.
  intros H Hp Hx. apply wf_dir in H. destruct H as (Hnd & Hpn & Hsub & Hall).
  apply wf_dir. split; [exact Hnd|]. split; [exact Hpn|]. split.
  - intros k' Hk'. rewrite has_upd in Hk'. apply orb_true_iff in Hk'. destruct Hk' as [E|E].
    + apply Z.eqb_eq in E. subst. exact Hp.
    + auto.
  - apply Forall_upd; assumption.
Qed.
Lemma wf_set_pers p m t c k v :
  wf (ODir p m t c) -> wfn v -> wf (ODir (upd k v p) m t c).
Proof.
  intros H Hv. apply wf_dir in H. destruct H as (Hnd & Hpn & Hsub & Hall).
  apply wf_dir. split; [apply nodup_upd; exact Hnd|]. split; [apply Forall_upd; assumption|].
  split; [|exact Hall]. intros k' Hk'. rewrite has_upd. apply orb_true_iff. right. auto.
Qed.

(** one step of a path walk *)
Lemma into_refines g tg k p m t c :
  grefines g tg -> wf (ODir p m t c) ->
  let r := into k g (ODir p m t c) in
  let tr := match lookup (overlay p (mapv abs c)) k with
            | None => (NDir (overlay p (mapv abs c)) m t, RErr ENotExist)
            | Some n => (NDir (upd k (fst (tg n)) (overlay p (mapv abs c))) m t, snd (tg n))
            end in
  wf (fst3 r) /\ abs (fst3 r) = fst tr /\ snd (fst r) = snd tr.
Proof.
  intros Hg Hwf. cbv zeta. unfold into.
  pose proof (child_spec p m t c k Hwf) as Hc.
  destruct (child (ODir p m t c) k) as [o1 [x|]].
  - destruct Hc as (c1 & -> & Hwf1 & Habs1 & Hl & Hwfx & Hhas & Hlk). rewrite Hlk.
    specialize (Hg x Hwfx). destruct (g x) as [[x' y] pr]. cbn [fst3 fst snd] in Hg.
    destruct Hg as (Hwfx' & Habsx' & Hy). cbn [set_cache].
    assert (Hw2 : wf (ODir p m t (upd k x' c1))) by (apply wf_set_cache; assumption).
    assert (Ha2 : overlay p (mapv abs (upd k x' c1)) = upd k (fst (tg (abs x))) (overlay p (mapv abs c))).
    { rewrite mapv_upd, overlay_upd_cache, Habs1, Habsx' by exact Hhas. reflexivity. }
    destruct pr; cbn [fst3 fst snd set_pers].
    + split; [apply wf_set_pers; [exact Hw2|apply wf_persnode; exact Hwfx']|].
      split; [|exact Hy]. rewrite abs_dir.
      rewrite (overlay_upd_pers_shadowed p _ k (persnode x') (abs x')); [rewrite Ha2; reflexivity| |exact Hhas].
      rewrite mapv_upd. apply lookup_upd_eq.
    + split; [exact Hw2|]. split; [|exact Hy]. rewrite abs_dir, Ha2. reflexivity.
  - destruct Hc as (-> & Hc1 & Hp1). cbn [fst3 fst snd].
    rewrite lookup_overlay, Hp1. cbn [fst snd]. split; [exact Hwf|]. split; reflexivity.
Qed.

(** DirLookup + action + propagation refines "navigate and apply" on the tree *)
Lemma nav_refines p g tg : grefines g tg -> grefines (nav p g) (tnav p tg).
Proof.
  intro Hg. induction p as [|k r IH]; [exact Hg|].
  intros o Hwf. cbn [nav tnav]. destruct o as [d m t|pe m t c].
  - cbn [fst3 fst snd abs]. split; [exact Hwf|]. split; reflexivity.
  - rewrite abs_dir. pose proof (into_refines (nav r g) (tnav r tg) k pe m t c IH Hwf) as H.
    cbv zeta in H. destruct (lookup (overlay pe (mapv abs c)) k) as [n|].
    + destruct (tnav r tg n) as [n' y] eqn:E. cbn [fst snd] in H. exact H.
    + exact H.
Qed.

(** ---------- the individual local actions ---------- *)
Ltac gfile := intros o Hwf; destruct o as [d m t|pe m t c];
  [cbn [fst3 fst snd abs]; try (split; [first [exact Hwf|apply wf_file]|split; reflexivity])|].

Lemma gr_isdir : grefines g_isdir tg_isdir.
Proof. gfile. rewrite abs_dir. cbn [g_isdir tg_isdir fst3 fst snd]. split; [exact Hwf|]. rewrite abs_dir. split; reflexivity. Qed.

Lemma gr_fmod h s : grefines (g_fmod h s) (tg_fmod h).
Proof.
  gfile.
  - cbn [g_fmod tg_fmod]. destruct (h d m t) as [[d' m'] t']. cbn [fst3 fst snd abs].
    split; [apply wf_file|]. split; reflexivity.
  - rewrite abs_dir. cbn [g_fmod tg_fmod fst3 fst snd]. split; [exact Hwf|]. rewrite abs_dir. split; reflexivity.
Qed.

Lemma gr_fseg first pos seg pr : grefines (g_fseg first pos seg pr) (tg_fseg first pos seg).
Proof.
  gfile.
  - cbn [g_fseg tg_fseg]. destruct (first || seg_dirty seg); cbn [fst3 fst snd abs];
      (split; [apply wf_file|]); split; reflexivity.
  - rewrite abs_dir. cbn [g_fseg tg_fseg fst3 fst snd]. split; [exact Hwf|]. rewrite abs_dir. split; reflexivity.
Qed.

Lemma gr_kind : grefines g_kind tg_kind.
Proof.
  gfile. rewrite abs_dir. cbn [g_kind tg_kind fst3 fst snd is_dirnode].
  split; [exact Hwf|]. rewrite abs_dir. split; reflexivity.
Qed.
Lemma gr_list : grefines g_list tg_list.
Proof.
  gfile. rewrite abs_dir. cbn [g_list tg_list fst3 fst snd].
  split; [exact Hwf|]. rewrite abs_dir, keys_overlay. split; reflexivity.
Qed.
Lemma gr_read : grefines g_read tg_read.
Proof.
  gfile. rewrite abs_dir. cbn [g_read tg_read fst3 fst snd].
  split; [exact Hwf|]. rewrite abs_dir. split; reflexivity.
Qed.

Lemma set_mode_spec md o : wf o -> wf (set_mode md o) /\ abs (set_mode md o) = fst (tg_chmod md (abs o)).
Proof.
  destruct o as [d m t|pe m t c]; intro H; cbn [set_mode].
  - split; [apply wf_file|reflexivity].
  - split; [apply wf_dir; apply wf_dir in H; exact H|rewrite !abs_dir; reflexivity].
Qed.
Lemma set_mtime_spec ts o : wf o -> wf (set_mtime ts o) /\ abs (set_mtime ts o) = fst (tg_touch ts (abs o)).
Proof.
  destruct o as [d m t|pe m t c]; intro H; cbn [set_mtime].
  - split; [apply wf_file|reflexivity].
  - split; [apply wf_dir; apply wf_dir in H; exact H|rewrite !abs_dir; reflexivity].
Qed.
Lemma tg_chmod_ok md n : snd (tg_chmod md n) = ROk.
Proof. destruct n; reflexivity. Qed.
Lemma tg_touch_ok ts n : snd (tg_touch ts n) = ROk.
Proof. destruct n; reflexivity. Qed.

Lemma gr_chmod md : grefines (g_chmod md) (tg_chmod md).
Proof.
  intros o Hwf. destruct (sync_spec o Hwf) as (Ha & _ & Hw).
  destruct (set_mode_spec md (sync o) Hw) as [Hw' Ha']. unfold g_chmod. cbn [fst3 fst snd].
  split; [exact Hw'|]. rewrite Ha', Ha, tg_chmod_ok. split; reflexivity.
Qed.
Lemma gr_touch ts : grefines (g_touch ts) (tg_touch ts).
Proof.
  intros o Hwf. destruct (sync_spec o Hwf) as (Ha & _ & Hw).
  destruct (set_mtime_spec ts (sync o) Hw) as [Hw' Ha']. unfold g_touch. cbn [fst3 fst snd].
  split; [exact Hw'|]. rewrite Ha', Ha, tg_touch_ok. split; reflexivity.
Qed.
Lemma gr_getnode : grefines g_getnode tg_getnode.
Proof.
  intros o Hwf. destruct (sync_spec o Hwf) as (Ha & Hp & Hw). unfold g_getnode, tg_getnode.
  cbn [fst3 fst snd]. rewrite Hp. split; [exact Hw|]. split; [exact Ha|reflexivity].
Qed.

Lemma clean_spec o : wf o -> persnode o = abs o ->
  wf (clean o) /\ abs (clean o) = abs o /\ persnode (clean o) = abs o.
Proof.
  destruct o as [d m t|pe m t c]; cbn [clean]; intros Hwf Hp.
  - split; [exact Hwf|]. split; reflexivity.
  - split.
    + apply wf_dir in Hwf. apply wf_dir. destruct Hwf as (H1 & H2 & _ & _).
      split; [exact H1|]. split; [exact H2|]. split; [intros k Hk; discriminate Hk|constructor].
    + cbn [persnode] in *. rewrite <- Hp. rewrite abs_dir. cbn [mapv map]. rewrite overlay_nil.
      split; reflexivity.
Qed.
Lemma gr_flush : grefines g_flush tg_getnode.
Proof.
  intros o Hwf. destruct (sync_spec o Hwf) as (Ha & Hp & Hw).
  destruct (clean_spec (sync o) Hw) as (Hw' & Ha' & Hp'); [congruence|].
  unfold g_flush, tg_getnode. cbn [fst3 fst snd]. rewrite Hp', Ha', Ha.
  split; [exact Hw'|]. split; reflexivity.
Qed.
Lemma gr_stat : grefines g_stat tg_stat.
Proof.
  intros o Hwf. destruct o as [d m t|pe m t c].
  - cbn [g_stat tg_stat abs fst3 fst snd]. split; [exact Hwf|]. split; reflexivity.
  - destruct (sync_spec _ Hwf) as (Ha & _ & Hw). cbn [g_stat fst3 fst snd].
    split; [exact Hw|]. rewrite Ha, abs_dir. split; reflexivity.
Qed.

Lemma gr_addchild k v : wfn v -> grefines (g_addchild k v) (tg_addchild k v).
Proof.
  intro Hv. gfile. rewrite abs_dir. unfold g_addchild, tg_addchild.
  pose proof (child_spec pe m t c k Hwf) as Hc.
  destruct (child (ODir pe m t c) k) as [o1 [x|]].
  - destruct Hc as (c1 & -> & Hwf1 & Habs1 & Hl & Hwfx & Hhas & Hlk).
    rewrite has_overlay, Hhas. cbn [fst3 fst snd]. split; [exact Hwf1|].
    rewrite abs_dir, Habs1. split; reflexivity.
  - destruct Hc as (-> & Hc1 & Hp1). rewrite has_overlay.
    replace (has pe k) with false by (symmetry; apply has_false; exact Hp1).
    cbn [set_pers fst3 fst snd]. split; [apply wf_set_pers; assumption|].
    rewrite abs_dir, overlay_upd_pers_fresh; [split; reflexivity|].
    rewrite lookup_mapv, Hc1. reflexivity.
Qed.

Lemma gr_unlink k : grefines (g_unlink k) (tg_unlink k).
Proof.
  gfile. rewrite abs_dir. unfold g_unlink, tg_unlink. rewrite has_overlay.
  pose proof Hwf as Hwf0. apply wf_dir in Hwf. destruct Hwf as (Hnd & Hpn & Hsub & Hall).
  destruct (has pe k) eqn:Hh; cbn [fst3 fst snd].
  - split.
    + apply wf_dir. split; [apply nodup_del; exact Hnd|]. split; [apply Forall_del; exact Hpn|].
      split; [|apply Forall_del; exact Hall]. intros k' Hk'. rewrite has_del in Hk'. rewrite has_del.
      apply andb_true_iff in Hk'. apply andb_true_iff. split; [tauto|apply Hsub; tauto].
    + rewrite abs_dir, mapv_del, overlay_del. split; reflexivity.
  - split.
    + apply wf_dir. split; [exact Hnd|]. split; [exact Hpn|]. split; [|apply Forall_del; exact Hall].
      intros k' Hk'. rewrite has_del in Hk'. apply andb_true_iff in Hk'. apply Hsub; tauto.
    + rewrite abs_dir, mapv_del. split; [|reflexivity]. f_equal. apply overlay_ext.
      intros k' Hk'. rewrite lookup_del. destruct (k' =? k) eqn:E; [|reflexivity].
      apply Z.eqb_eq in E. subst. congruence.
Qed.

(** ---------- Mkdir ---------- *)
Lemma wfn_newdir : wfn newdir.
Proof. apply wfn_dir. split; constructor. Qed.
Lemma wfn_newfile : wfn newfile.
Proof. apply wfn_file. Qed.

Lemma ensure_spec p m t c k :
  wf (ODir p m t c) -> lookup c k = None ->
  wf (ensure k (ODir p m t c)) /\
  overlay (upd k newdir p) (mapv abs (upd k (load newdir) c)) = upd k newdir (overlay p (mapv abs c)).
Proof.
  intros Hwf Hc. split.
  - cbn [ensure]. apply wf_set_cache.
    + apply wf_set_pers; [exact Hwf|apply wfn_newdir].
    + rewrite has_upd, Z.eqb_refl. reflexivity.
    + apply (proj2 (load_spec newdir)), wfn_newdir.
  - rewrite mapv_upd. change (abs (load newdir)) with newdir.
    rewrite overlay_upd_cache by (rewrite has_upd, Z.eqb_refl; reflexivity).
    rewrite overlay_upd_pers_fresh by (rewrite lookup_mapv, Hc; reflexivity).
    apply upd_upd.
Qed.

Lemma mkdir_refines p parents : grefines (m_mkdir p parents) (t_mkdir p parents).
Proof.
  induction p as [|k r IH]; intros o Hwf.
  - cbn [m_mkdir t_mkdir fst3 fst snd]. split; [exact Hwf|]. split; reflexivity.
  - cbn [m_mkdir t_mkdir]. destruct o as [d m t|pe m t c].
    + cbn [abs fst3 fst snd]. split; [exact Hwf|]. split; reflexivity.
    + rewrite abs_dir. pose proof (child_spec pe m t c k Hwf) as Hc.
      destruct (child (ODir pe m t c) k) as [o1 [x|]].
      * destruct Hc as (c1 & -> & Hwf1 & Habs1 & Hl & Hwfx & Hhas & Hlk). rewrite Hlk.
        destruct r as [|j r'].
        -- destruct x as [d' m' t'|p' m' t' c']; [cbn [abs]|rewrite abs_dir]; cbn [fst3 fst snd];
             (split; [exact Hwf1|]); rewrite abs_dir, Habs1; split; reflexivity.
        -- pose proof (into_refines _ _ k pe m t c1 IH Hwf1) as H. cbv zeta in H.
           rewrite Habs1, Hlk in H.
           destruct (t_mkdir (j :: r') parents (abs x)) as [n' y]. cbn [fst snd] in H. exact H.
      * destruct Hc as (-> & Hc1 & Hp1).
        rewrite lookup_overlay, Hp1.
        destruct (ensure_spec pe m t c k Hwf Hc1) as [Hwe Hoe].
        destruct r as [|j r'].
        -- cbn [fst3 fst snd]. split; [exact Hwe|]. cbn [ensure]. rewrite abs_dir, Hoe. split; reflexivity.
        -- destruct parents.
           ++ cbn [ensure] in *.
              pose proof (into_refines _ _ k _ m t _ IH Hwe) as H. cbv zeta in H.
              rewrite Hoe, lookup_upd_eq, upd_upd in H.
              destruct (t_mkdir (j :: r') true newdir) as [n' y]. cbn [fst snd] in H. exact H.
           ++ cbn [fst3 fst snd]. split; [exact Hwf|]. rewrite abs_dir. split; reflexivity.
Qed.

(** ---------- Mv (with both defects repaired) ---------- *)
Lemma res2_fst r : fst (res2 r) = fst3 r. Proof. reflexivity. Qed.
Lemma res2_snd r : snd (res2 r) = snd (fst r). Proof. reflexivity. Qed.

Lemma tnav_getnode_wfn p t nd : wfn t -> snd (tnav p tg_getnode t) = RNode nd -> wfn nd.
Proof.
  revert t. induction p as [|k r IH]; intros t Hw; cbn [tnav].
  - unfold tg_getnode. cbn [snd]. intro E. inversion E; subst. exact Hw.
  - destruct t as [d m mt|e m mt]; [discriminate|].
    destruct (lookup e k) as [c|] eqn:El; [|discriminate].
    apply wfn_dir in Hw. destruct Hw as [_ Hall].
    destruct (tnav r tg_getnode c) as [c' x] eqn:E. cbn [snd]. intro Hx.
    apply (IH c); [eapply Forall_lookup; [exact Hall|exact El]|rewrite E; exact Hx].
Qed.

Ltac nav_step p g tg lem o Hwf o' x' Hw' Et :=
  let H := fresh "H" in
  let b := fresh "b" in
  let t' := fresh "t" in
  let y' := fresh "y" in
  let Ha := fresh "Ha" in
  let Hx := fresh "Hx" in
  pose proof (nav_refines p g tg lem o Hwf) as H;
  destruct (nav p g o) as [[o' x'] b];
  destruct (tnav p tg (abs o)) as [t' y'] eqn:Et;
  cbn [fst3 fst snd] in H; destruct H as (Hw' & Ha & Hx);
  subst t' y'.

Lemma mv_refines src dst slash o : wf o ->
  wf (fst (m_mv flags_off src dst slash o)) /\
  abs (fst (m_mv flags_off src dst slash o)) = fst (t_mv src dst slash (abs o)) /\
  snd (m_mv flags_off src dst slash o) = snd (t_mv src dst slash (abs o)).
Proof.
  intro Hwf. unfold m_mv, t_mv.
  destruct (mv_target src dst slash) as [[[[sdir sname] ddir] dname]|];
    [|cbn [fst snd]; split; [exact Hwf|split; reflexivity]].
  nav_step ddir g_isdir tg_isdir gr_isdir o Hwf o1 x1 Hw1 Et1.
  destruct (negb (is_ok x1)); [cbn [fst snd]; split; [exact Hw1|split; reflexivity]|].
  nav_step sdir g_isdir tg_isdir gr_isdir o1 Hw1 o2 x2 Hw2 Et2.
  destruct (negb (is_ok x2)); [cbn [fst snd]; split; [exact Hw2|split; reflexivity]|].
  assert (Hnd : forall nd, snd (tnav (sdir ++ [sname]) tg_getnode (abs o2)) = RNode nd -> wfn nd).
  { intros nd E. eapply tnav_getnode_wfn; [apply wf_abs; exact Hw2|exact E]. }
  nav_step (sdir ++ [sname]) g_getnode tg_getnode gr_getnode o2 Hw2 o3 x3 Hw3 Et3.
  try rewrite Et3 in Hnd. cbn [snd] in Hnd.
  destruct x3 as [| | | | |nd|]; try (cbn [fst snd]; split; [exact Hw3|split; reflexivity]).
  cbn [f_mv_self flags_off negb andb].
  destruct (is_dirnode nd && prefixb (sdir ++ [sname]) ddir);
    [cbn [fst snd]; split; [exact Hw3|split; reflexivity]|].
  nav_step (ddir ++ [dname]) g_kind tg_kind gr_kind o3 Hw3 o4 x4 Hw4 Et4.
  set (kind := match x4 with RStat isd _ _ _ => Some isd | _ => None end).
  destruct (match kind with Some true => (ddir ++ [dname], sname) | _ => (ddir, dname) end) as [fdir fname].
  cbn [f_mv_self flags_off negb andb].
  destruct (is_dirnode nd && prefixb (sdir ++ [sname]) fdir);
    [cbn [fst snd]; split; [exact Hw4|split; reflexivity]|].
  assert (H5 : wf (match kind with Some false => fst3 (nav ddir (g_unlink dname) o4) | _ => o4 end) /\
               abs (match kind with Some false => fst3 (nav ddir (g_unlink dname) o4) | _ => o4 end) =
               match kind with Some false => fst (tnav ddir (tg_unlink dname) (abs o4)) | _ => abs o4 end).
  { destruct kind as [[|]|]; try (split; [exact Hw4|reflexivity]).
    pose proof (nav_refines ddir _ _ (gr_unlink dname) o4 Hw4) as H. tauto. }
  destruct H5 as [Hw5 Ha5]. rewrite <- Ha5.
  set (o5 := match kind with Some false => fst3 (nav ddir (g_unlink dname) o4) | _ => o4 end) in *.
  nav_step fdir (g_addchild fname nd) (tg_addchild fname nd) (gr_addchild fname nd (Hnd nd eq_refl)) o5 Hw5 o6 x6 Hw6 Et6.
  destruct (negb (is_ok x6)); [cbn [fst snd]; split; [exact Hw6|split; reflexivity]|].
  unfold same_dir. cbn [f_mv_name flags_off].
  destruct (path_eqb sdir fdir && (sname =? fname)); [cbn [fst snd]; split; [exact Hw6|split; reflexivity]|].
  pose proof (nav_refines sdir _ _ (gr_unlink sname) o6 Hw6) as H.
  rewrite res2_fst, res2_snd. exact H.
Qed.

(** ---------- every operation, every history ---------- *)
Lemma at_parent_refines p g tg o :
  (forall k, grefines (g k) (tg k)) -> wf o ->
  wf (fst (m_at_parent p g o)) /\
  abs (fst (m_at_parent p g o)) = fst (t_at_parent p tg (abs o)) /\
  snd (m_at_parent p g o) = snd (t_at_parent p tg (abs o)).
Proof.
  intros Hg Hwf. unfold m_at_parent, t_at_parent. destruct (split_last p) as [[d k]|].
  - rewrite res2_fst, res2_snd. apply nav_refines; [apply Hg|exact Hwf].
  - cbn [fst snd]. split; [exact Hwf|split; reflexivity].
Qed.

(** a descriptor session: every flush / the close is a path walk + flushUp *)
Lemma fd_refines acts : forall p sync fr pos cur o outs, wf o ->
  wf (fst (m_fd p sync fr pos cur acts o outs)) /\
  abs (fst (m_fd p sync fr pos cur acts o outs)) = fst (t_fd p fr pos cur acts (abs o) outs) /\
  snd (m_fd p sync fr pos cur acts o outs) = snd (t_fd p fr pos cur acts (abs o) outs).
Proof.
  induction acts as [|a r IH]; intros p sync fr pos cur o outs Hwf.
  - cbn [m_fd t_fd].
    pose proof (nav_refines p _ _ (gr_fseg fr pos cur sync) o Hwf) as H.
    destruct (nav p (g_fseg fr pos cur sync) o) as [[o1 x] b].
    destruct (tnav p (tg_fseg fr pos cur) (abs o)) as [t1 y].
    cbn [fst3 fst snd] in H. destruct H as (Hw1 & Ha1 & Hx). subst t1 y.
    destruct x; try (destruct fr; cbn [fst snd]; (split; [exact Hw1|split; reflexivity]));
      cbn [fst snd]; (split; [exact Hw1|split; reflexivity]).
  - destruct a; cbn [m_fd t_fd]; try (apply IH; exact Hwf).
    pose proof (nav_refines p _ _ (gr_fseg fr pos cur true) o Hwf) as H.
    destruct (nav p (g_fseg fr pos cur true) o) as [[o1 x] b].
    destruct (tnav p (tg_fseg fr pos cur) (abs o)) as [t1 y].
    cbn [fst3 fst snd] in H. destruct H as (Hw1 & Ha1 & Hx). subst t1 y.
    destruct x; try (destruct fr; [cbn [fst snd]; (split; [exact Hw1|split; reflexivity])|apply IH; exact Hw1]);
      apply IH; exact Hw1.
Qed.

Lemma step_refines o a : wf o ->
  wf (fst (m_step flags_off o a)) /\
  abs (fst (m_step flags_off o a)) = fst (t_step (abs o) a) /\
  snd (m_step flags_off o a) = snd (t_step (abs o) a).
Proof.
  intro Hwf. destruct a; cbn [m_step t_step];
    try (rewrite res2_fst, res2_snd; apply nav_refines; [|exact Hwf]).
  - (* Mkdir *)
    pose proof (mkdir_refines p parents o Hwf) as H.
    destruct (m_mkdir p parents o) as [[o1 x] b]. destruct (t_mkdir p parents (abs o)) as [t1 y].
    cbn [fst3 fst snd] in H. destruct H as (Hw1 & Ha1 & Hx). subst t1 y.
    destruct (flush && is_ok x).
    + pose proof (nav_refines p _ _ gr_flush o1 Hw1) as H. cbn [fst snd]. tauto.
    + cbn [fst snd]. split; [exact Hw1|split; reflexivity].
  - apply at_parent_refines; [|exact Hwf]. intro k. apply gr_addchild, wfn_newfile.
  - apply gr_fmod.
  - apply gr_fmod.
  - apply mv_refines. exact Hwf.
  - apply at_parent_refines; [|exact Hwf]. intro k. apply gr_unlink.
  - apply gr_chmod.
  - apply gr_touch.
  - apply gr_flush.
  - apply gr_stat.
  - apply gr_list.
  - apply gr_read.
  - apply fd_refines. exact Hwf.
  - cbn [fst snd]. split; [exact Hwf|split; reflexivity].
  - cbn [f_mvx_unlink flags_off fst snd]. split; [exact Hwf|split; reflexivity].
Qed.

Lemma run_refines ops : forall o, wf o ->
  wf (fst (m_run flags_off o ops)) /\
  abs (fst (m_run flags_off o ops)) = fst (t_run (abs o) ops) /\
  snd (m_run flags_off o ops) = snd (t_run (abs o) ops).
Proof.
  induction ops as [|a r IH]; intros o Hwf; cbn [m_run t_run].
  - cbn [fst snd]. split; [exact Hwf|split; reflexivity].
  - destruct (step_refines o a Hwf) as (Hw1 & Ha1 & Hx1).
    destruct (m_step flags_off o a) as [o1 x]. destruct (t_step (abs o) a) as [t1 y].
    cbn [fst snd] in *. subst t1 y. specialize (IH o1 Hw1).
    destruct (m_run flags_off o1 r) as [o2 xs]. destruct (t_run (abs o1) r) as [t2 ys].
    cbn [fst snd] in *. destruct IH as (Hw2 & Ha2 & Hxs). subst. split; [exact Hw2|split; reflexivity].
Qed.

Lemma wf_root : wf (load newdir).
Proof. apply (proj2 (load_spec newdir)), wfn_newdir. Qed.

(** C19_refines_tree *)
Theorem refines_tree ops :
  snd (m_run flags_off (load newdir) ops) = snd (t_run newdir ops) /\
  abs (fst (m_run flags_off (load newdir) ops)) = fst (t_run newdir ops).
Proof.
  destruct (run_refines ops (load newdir) wf_root) as (_ & Ha & Hx).
  change (abs (load newdir)) with newdir in *. split; assumption.
Qed.

(** and from any reachable mechanism state *)
Theorem refines_tree_from o ops : wf o ->
  snd (m_run flags_off o ops) = snd (t_run (abs o) ops) /\
  abs (fst (m_run flags_off o ops)) = fst (t_run (abs o) ops) /\
  wf (fst (m_run flags_off o ops)).
Proof. intro H. destruct (run_refines ops o H) as (Hw & Ha & Hx). repeat split; assumption. Qed.

(** C19_flush_persists: after flushing the root, the UnixFS DAG of the root IS the
    tree MFS shows — at every level (nodes are values: the whole DAG) — the
    flush returns that DAG and does not change what is shown. *)
Theorem flush_persists o : wf o ->
  let r := m_step flags_off o (OFlush []) in
  snd r = RNode (abs o) /\ persnode (fst r) = abs o /\ abs (fst r) = abs o.
Proof.
  intro Hwf. cbn [m_step nav]. rewrite res2_fst, res2_snd. unfold g_flush. cbn [fst3 fst snd].
  destruct (sync_spec o Hwf) as (Ha & Hp & Hw).
  destruct (clean_spec (sync o) Hw) as (Hw' & Ha' & Hp'); [congruence|].
  rewrite Hp', Ha', Ha. repeat split.
Qed.

(** flushing any path returns the subtree the specification has there *)
Lemma tnav_getnode_tget p t n : tget p t = Some n -> snd (tnav p tg_getnode t) = RNode n.
Proof.
  revert t. induction p as [|k r IH]; intros t; cbn [tget tnav].
  - intro E. inversion E. reflexivity.
  - destruct t as [d m mt|e m mt]; [discriminate|]. destruct (lookup e k) as [c|]; [|discriminate].
    intro E. specialize (IH c E). destruct (tnav r tg_getnode c). exact IH.
Qed.
Theorem flush_returns_subtree o p n : wf o -> tget p (abs o) = Some n ->
  snd (m_step flags_off o (OFlush p)) = RNode n.
Proof.
  intros Hwf E. destruct (step_refines o (OFlush p) Hwf) as (_ & _ & Hx). rewrite Hx.
  cbn [t_step]. apply tnav_getnode_tget. exact E.
Qed.
