(** C02, sequential part: the cached store is observationally equal to the
    uncached map for every history, every eviction choice, every Bloom position
    function and every enumeration outcome. *)
From Coq Require Import List ZArith Bool NArith Arith PeanoNat Lia.
From V Require Import lib.Verdict model.M_C02.
Import ListNotations.

(** ---------- list-as-set / assoc-list facts ---------- *)
Lemma mem_true_iff k l : mem k l = true <-> In k l.
Proof.
  unfold mem. rewrite existsb_exists. split.
  - intros (x & Hin & He). apply Nat.eqb_eq in He. now subst.
  - intros Hin. exists k. split; [assumption | apply Nat.eqb_refl].
Qed.

Lemma mem_cons k x l : mem k (x :: l) = (k =? x) || mem k l.
Proof. reflexivity. Qed.

Lemma mem_insert k x l : mem k (insert x l) = (k =? x) || mem k l.
Proof.
  induction l as [|y r IH]; cbn [insert].
  - reflexivity.
  - destruct (x <? y) eqn:Hlt.
    + reflexivity.
    + destruct (x =? y) eqn:Heq.
      * apply Nat.eqb_eq in Heq. subst y. rewrite mem_cons.
        destruct (k =? x); reflexivity.
      * rewrite !mem_cons, IH.
        destruct (k =? x), (k =? y); reflexivity.
Qed.

Lemma mem_remove k x l : mem k (remove x l) = negb (k =? x) && mem k l.
Proof.
  unfold remove. induction l as [|y r IH]; cbn [filter].
  - now rewrite andb_false_r.
  - destruct (x =? y) eqn:Heq; cbn [negb].
    + apply Nat.eqb_eq in Heq. subst y. rewrite IH, mem_cons.
      destruct (k =? x); reflexivity.
    + rewrite !mem_cons, IH.
      destruct (k =? x) eqn:Hkx, (k =? y) eqn:Hky; cbn; try reflexivity.
      apply Nat.eqb_eq in Hkx, Hky. subst. now rewrite Nat.eqb_refl in Heq.
Qed.

Lemma mem_sort_dedup k l : mem k (sort_dedup l) = mem k l.
Proof.
  unfold sort_dedup. induction l as [|x r IH]; cbn [fold_right].
  - reflexivity.
  - now rewrite mem_insert, IH, mem_cons.
Qed.

Lemma mem_filter k f l : mem k (filter f l) = mem k l && f k.
Proof.
  induction l as [|x r IH]; cbn [filter].
  - reflexivity.
  - destruct (f x) eqn:Hf; rewrite ?mem_cons, IH.
    + destruct (k =? x) eqn:He; cbn; [|reflexivity].
      apply Nat.eqb_eq in He. subst. now rewrite Hf.
    + destruct (k =? x) eqn:He; cbn; [|reflexivity].
      apply Nat.eqb_eq in He. subst. now rewrite Hf, andb_false_r.
Qed.

Lemma mem_fold_insert k ks s :
  mem k (fold_left (fun x y => insert y x) ks s) = mem k ks || mem k s.
Proof.
  revert s. induction ks as [|x r IH]; intros s; cbn [fold_left].
  - reflexivity.
  - rewrite IH, mem_insert, mem_cons.
    destruct (k =? x), (mem k r); reflexivity.
Qed.

Lemma lookup_cdel {A} k x (c : list (nat * A)) :
  lookup k (cdel x c) = if k =? x then None else lookup k c.
Proof.
  unfold cdel. induction c as [|[y e] r IH]; cbn [filter lookup fst].
  - now destruct (k =? x).
  - destruct (x =? y) eqn:Hxy; cbn [negb lookup].
    + apply Nat.eqb_eq in Hxy. subst y. rewrite IH. now destruct (k =? x).
    + rewrite IH. destruct (k =? y) eqn:Hky; [|reflexivity].
      apply Nat.eqb_eq in Hky. subst y.
      destruct (k =? x) eqn:Hkx; [|reflexivity].
      apply Nat.eqb_eq in Hkx. subst. now rewrite Nat.eqb_refl in Hxy.
Qed.

Lemma lookup_cset {A} k x (e : A) c :
  lookup k (cset x e c) = if k =? x then Some e else lookup k c.
Proof.
  unfold cset. cbn [lookup]. rewrite lookup_cdel. now destruct (k =? x).
Qed.

Lemma lookup_fold_cdel {A} k ks (c : list (nat * A)) :
  lookup k (fold_left (fun c x => cdel x c) ks c) = if mem k ks then None else lookup k c.
Proof.
  revert c. induction ks as [|x r IH]; intros c; cbn [fold_left].
  - reflexivity.
  - rewrite IH, lookup_cdel, mem_cons.
    destruct (mem k r), (k =? x); reflexivity.
Qed.

Lemma lookup_fold_cset {A} (f : nat -> A) k ks c :
  lookup k (fold_left (fun c x => cset x (f x) c) ks c) = if mem k ks then Some (f k) else lookup k c.
Proof.
  revert c. induction ks as [|x r IH]; intros c; cbn [fold_left].
  - reflexivity.
  - rewrite IH, lookup_cset, mem_cons.
    destruct (mem k r); [now rewrite orb_true_r|]. rewrite orb_false_r.
    destruct (k =? x) eqn:He; [|reflexivity].
    apply Nat.eqb_eq in He. now subst.
Qed.

Lemma forallb_mem_ext (f : nat -> bool) l :
  forallb f l = true <-> forall k, mem k l = true -> f k = true.
Proof.
  rewrite forallb_forall. split; intros H k Hk.
  - apply H. now apply mem_true_iff.
  - apply H. now apply mem_true_iff.
Qed.

(** ---------- Bloom bit masks ---------- *)
Lemma bsub_spec p f :
  bsub p f = true <-> forall n, N.testbit p n = true -> N.testbit f n = true.
Proof.
  unfold bsub. rewrite N.eqb_eq. split.
  - intros H n Hp. rewrite <- H in Hp. rewrite N.land_spec in Hp.
    now apply andb_true_iff in Hp.
  - intros H. apply N.bits_inj. intros n. rewrite N.land_spec.
    destruct (N.testbit p n) eqn:Hp; [|reflexivity].
    now rewrite (H n Hp).
Qed.

Lemma bsub_lor_self p f : bsub p (N.lor p f) = true.
Proof. apply bsub_spec. intros n Hp. now rewrite N.lor_spec, Hp. Qed.

Lemma bsub_lor_mono p q f : bsub p f = true -> bsub p (N.lor q f) = true.
Proof.
  rewrite !bsub_spec. intros H n Hp. rewrite N.lor_spec, (H n Hp). apply orb_true_r.
Qed.

Section SeqProofs.
Variable cf : cfg.
Variable pos : key -> N.
Variable sz : key -> Z.

Lemma bsub_filt_of k ks : mem k ks = true -> bsub (pos k) (filt_of pos ks) = true.
Proof.
  unfold filt_of. induction ks as [|x r IH]; cbn [fold_right].
  - discriminate.
  - rewrite mem_cons. destruct (k =? x) eqn:He; cbn [orb].
    + apply Nat.eqb_eq in He. subst. intros _. apply bsub_lor_self.
    + intros H. apply bsub_lor_mono. now apply IH.
Qed.

(** ---------- the invariant ---------- *)
Definition agrees (store : list key) (k : key) (e : entry) : Prop :=
  match e with
  | CHave b => b = mem k store
  | CSize n => mem k store = true /\ n = sz k
  end.

(** every entry the 2Q layer can see agrees with the store *)
Definition cache_sound (s : st) : Prop :=
  forall k e, query cf s k = Some e -> agrees (s_store s) k e.

(** while the filter is active every stored key is in it *)
Definition bloom_complete (s : st) : Prop :=
  c_bloom cf = true -> s_active s = true -> forall k, mem k (s_store s) = true -> bsub (pos k) (s_filt s) = true.

Definition Inv (s : st) : Prop := cache_sound s /\ bloom_complete s.

Definition seteq (a b : list key) : Prop := forall k, mem k a = mem k b.

Lemma agrees_ehas store k e : agrees store k e -> ehas e = mem k store.
Proof. destruct e as [b|n]; cbn; [auto | now intros [-> _]]. Qed.

Lemma agrees_ext store store' k e :
  mem k store' = mem k store -> agrees store k e -> agrees store' k e.
Proof. intros H. destruct e; cbn; now rewrite H. Qed.

Lemma query_set s k e k' x f a :
  query cf (mkSt x (tq_set cf s k e) f a) k' =
  if c_tq cf then (if k' =? k then Some e else lookup k' (s_cache s)) else None.
Proof. unfold query, tq_set. cbn. destruct (c_tq cf); [apply lookup_cset | reflexivity]. Qed.

Lemma query_del s k k' x f a :
  query cf (mkSt x (tq_del cf s k) f a) k' =
  if c_tq cf then (if k' =? k then None else lookup k' (s_cache s)) else None.
Proof. unfold query, tq_del. cbn. destruct (c_tq cf); [apply lookup_cdel | reflexivity]. Qed.

Lemma query_lookup s k e : query cf s k = Some e -> c_tq cf = true /\ lookup k (s_cache s) = Some e.
Proof. unfold query. destruct (c_tq cf); [auto | discriminate]. Qed.

Lemma query_of_lookup s k : c_tq cf = true -> query cf s k = lookup k (s_cache s).
Proof. unfold query. now intros ->. Qed.

Lemma evict_inv ks s : Inv s -> Inv (evict ks s).
Proof.
  intros [Hc Hb]. split.
  - intros k e Hq. apply query_lookup in Hq as [Htq Hl]. cbn in Hl.
    rewrite lookup_fold_cdel in Hl. destruct (mem k ks); [discriminate|].
    apply Hc. now rewrite query_of_lookup.
  - exact Hb.
Qed.

Lemma evict_store ks s : s_store (evict ks s) = s_store s.
Proof. reflexivity. Qed.

Lemma bloom_neg_absent s k : Inv s -> bloom_neg cf pos s k = true -> mem k (s_store s) = false.
Proof.
  intros [_ Hb]. unfold bloom_neg. intros H.
  apply andb_true_iff in H as [H Hn]. apply andb_true_iff in H as [Hbl Ha].
  destruct (mem k (s_store s)) eqn:Hm; [|reflexivity].
  rewrite (Hb Hbl Ha k Hm) in Hn. discriminate.
Qed.

(** a cache entry only ever lets a read conclude what the store would say *)
Lemma conclude_sound store rk k e r :
  agrees store k e -> conclude rk k e = Some r -> r = read_res sz rk k (mem k store).
Proof.
  unfold read_res, found_res, missing_res. intros Ha Hc.
  destruct e as [b|n]; cbn [agrees] in Ha.
  - subst b. destruct rk; cbn [conclude ehas] in Hc; destruct (mem k store);
      try discriminate Hc; now injection Hc as <-.
  - destruct Ha as [Hm Hn]. subst n. rewrite Hm.
    destruct rk; cbn [conclude ehas] in Hc; try discriminate Hc.
    + now injection Hc as <-.
    + destruct (0 <=? sz k)%Z; [now injection Hc as <- | discriminate Hc].
Qed.

Lemma read_upd_agrees store rk k : agrees store k (read_upd sz rk k (mem k store)).
Proof.
  unfold read_upd. destruct rk; cbn; try reflexivity;
    destruct (mem k store) eqn:Hm; cbn; auto.
Qed.

(** replacing the entry of [k] by one that agrees with the new store, where the
    new store differs from the old one at most at [k], keeps the cache sound *)
Lemma cache_sound_set s k e x f a :
  cache_sound s ->
  (forall k', k' <> k -> mem k' x = mem k' (s_store s)) ->
  agrees x k e ->
  cache_sound (mkSt x (tq_set cf s k e) f a).
Proof.
  intros Hc Hst Ha k' e' Hq. rewrite query_set in Hq. cbn [s_store].
  destruct (c_tq cf) eqn:Htq; [|discriminate].
  destruct (k' =? k) eqn:He.
  - apply Nat.eqb_eq in He. subst. now injection Hq as <-.
  - apply Nat.eqb_neq in He. apply (agrees_ext (s_store s)); [now apply Hst|].
    apply Hc. now rewrite query_of_lookup.
Qed.

Lemma cache_sound_del s k x f a :
  cache_sound s ->
  (forall k', k' <> k -> mem k' x = mem k' (s_store s)) ->
  cache_sound (mkSt x (tq_del cf s k) f a).
Proof.
  intros Hc Hst k' e' Hq. rewrite query_del in Hq. cbn [s_store].
  destruct (c_tq cf) eqn:Htq; [|discriminate].
  destruct (k' =? k) eqn:He; [discriminate|].
  apply Nat.eqb_neq in He. apply (agrees_ext (s_store s)); [now apply Hst|].
  apply Hc. now rewrite query_of_lookup.
Qed.

Lemma bloom_complete_same_store s c : bloom_complete s -> bloom_complete (with_cache s c).
Proof. exact (fun H => H). Qed.

(** what a step must establish *)
Definition step_ok (s : st) (store : list key) (o : op) : Prop :=
  let '(s', (r, _)) := step cf pos sz s o in
  let (store', so) := spec_step sz store o in
  Inv s' /\ seteq (s_store s') store' /\ match so with Some r' => r = r' | None => True end.

Lemma tq_read_ok s store rk k :
  Inv s -> seteq (s_store s) store ->
  let '(s', (r, _)) := tq_read cf sz s rk k in
  Inv s' /\ seteq (s_store s') store /\ r = read_res sz rk k (mem k store).
Proof.
  intros [Hc Hb] Hs. unfold tq_read.
  destruct (query cf s k) as [e|] eqn:Hq.
  - destruct (conclude rk k e) as [r|] eqn:Hcon.
    + repeat split; try assumption.
      rewrite <- Hs. eapply conclude_sound; [|exact Hcon]. now apply Hc.
    + repeat split; cbn [s_store with_cache]; try assumption; [|now rewrite Hs].
      apply cache_sound_set; auto. apply read_upd_agrees.
  - repeat split; cbn [s_store with_cache]; try assumption; [|now rewrite Hs].
    apply cache_sound_set; auto. apply read_upd_agrees.
Qed.

Lemma query_has_true s k :
  cache_sound s -> match query cf s k with Some e => ehas e | None => false end = true ->
  mem k (s_store s) = true.
Proof.
  intros Hc. destruct (query cf s k) as [e|] eqn:Hq; [|discriminate].
  intros He. rewrite <- (agrees_ehas _ _ _ (Hc _ _ Hq)). exact He.
Qed.

Lemma query_has_false s k :
  cache_sound s -> match query cf s k with Some e => negb (ehas e) | None => false end = true ->
  mem k (s_store s) = false.
Proof.
  intros Hc. destruct (query cf s k) as [e|] eqn:Hq; [|discriminate].
  intros He. rewrite <- (agrees_ehas _ _ _ (Hc _ _ Hq)). now apply negb_true_iff.
Qed.

Lemma seteq_insert a b k : seteq a b -> seteq (insert k a) (insert k b).
Proof. intros H x. now rewrite !mem_insert, H. Qed.
Lemma seteq_remove a b k : seteq a b -> seteq (remove k a) (remove k b).
Proof. intros H x. now rewrite !mem_remove, H. Qed.

Lemma bloom_add_complete s k x c :
  bloom_complete s ->
  (forall k', mem k' x = true -> k' = k \/ mem k' (s_store s) = true) ->
  bloom_complete (bloom_add cf pos (mkSt x c (s_filt s) (s_active s)) k).
Proof.
  intros Hb Hx Hbl. unfold bloom_add. rewrite Hbl. cbn.
  intros Ha k' Hk'. destruct (Hx _ Hk') as [->|Hold].
  - apply bsub_lor_self.
  - apply bsub_lor_mono. now apply Hb.
Qed.

Lemma bloom_add_store s k : s_store (bloom_add cf pos s k) = s_store s.
Proof. unfold bloom_add. now destruct (c_bloom cf). Qed.
Lemma bloom_add_query s k k' : query cf (bloom_add cf pos s k) k' = query cf s k'.
Proof. unfold bloom_add. now destruct (c_bloom cf). Qed.
Lemma bloom_add_active s k : s_active (bloom_add cf pos s k) = s_active s.
Proof. unfold bloom_add. now destruct (c_bloom cf). Qed.

Lemma bloom_add_cache_sound s k : cache_sound s -> cache_sound (bloom_add cf pos s k).
Proof. intros H k' e. rewrite bloom_add_query, bloom_add_store. apply H. Qed.

Lemma bloom_add_grows s k k' :
  bsub (pos k') (s_filt s) = true -> bsub (pos k') (s_filt (bloom_add cf pos s k)) = true.
Proof. unfold bloom_add. destruct (c_bloom cf); cbn; [apply bsub_lor_mono | auto]. Qed.

Lemma bloom_add_self s k :
  c_bloom cf = true -> bsub (pos k) (s_filt (bloom_add cf pos s k)) = true.
Proof. unfold bloom_add. intros ->. cbn. apply bsub_lor_self. Qed.

(** adding a whole list *)
Lemma fold_bloom_add_store s ks : s_store (fold_left (bloom_add cf pos) ks s) = s_store s.
Proof. revert s. induction ks as [|x r IH]; intros s; cbn; [reflexivity|]. now rewrite IH, bloom_add_store. Qed.
Lemma fold_bloom_add_active s ks : s_active (fold_left (bloom_add cf pos) ks s) = s_active s.
Proof. revert s. induction ks as [|x r IH]; intros s; cbn; [reflexivity|]. now rewrite IH, bloom_add_active. Qed.
Lemma fold_bloom_add_cache_sound s ks : cache_sound s -> cache_sound (fold_left (bloom_add cf pos) ks s).
Proof. revert s. induction ks as [|x r IH]; intros s H; cbn; [assumption|]. apply IH. now apply bloom_add_cache_sound. Qed.
Lemma fold_bloom_add_grows s ks k' :
  bsub (pos k') (s_filt s) = true -> bsub (pos k') (s_filt (fold_left (bloom_add cf pos) ks s)) = true.
Proof. revert s. induction ks as [|x r IH]; intros s H; cbn; [assumption|]. apply IH. now apply bloom_add_grows. Qed.
Lemma fold_bloom_add_mem s ks k' :
  c_bloom cf = true -> mem k' ks = true ->
  bsub (pos k') (s_filt (fold_left (bloom_add cf pos) ks s)) = true.
Proof.
  intros Hbl. revert s. induction ks as [|x r IH]; intros s; cbn [fold_left]; [discriminate|].
  rewrite mem_cons. destruct (k' =? x) eqn:He; cbn [orb].
  - apply Nat.eqb_eq in He. subst. intros _. apply fold_bloom_add_grows. now apply bloom_add_self.
  - apply IH.
Qed.

(** ---------- single-key writes ---------- *)
Lemma put_ok s store k fault : Inv s -> seteq (s_store s) store -> step_ok s store (OPut k fault).
Proof.
  intros [Hc Hb] Hs. unfold step_ok. cbn [step spec_step]. unfold tq_put.
  rewrite <- (Hs k).
  destruct (match query cf s k with Some e => ehas e | None => false end) eqn:Hq.
  - (* cache says present *)
    rewrite (query_has_true _ _ Hc Hq). repeat split.
    + now apply bloom_add_cache_sound.
    + destruct s as [x c f a]. apply (bloom_add_complete (mkSt x c f a) k x c Hb). auto.
    + now rewrite bloom_add_store.
  - destruct (mem k (s_store s)) eqn:Hm.
    + repeat split.
      * apply bloom_add_cache_sound. apply cache_sound_set; auto. cbn. auto.
      * apply (bloom_add_complete s k (s_store s)); auto.
      * now rewrite bloom_add_store.
    + destruct fault.
      * repeat split; cbn [s_store with_cache]; try assumption.
        apply cache_sound_del; auto.
      * repeat split.
        -- apply bloom_add_cache_sound. apply cache_sound_set; auto.
           ++ intros k' Hne. rewrite mem_insert. apply Nat.eqb_neq in Hne. now rewrite Hne.
           ++ cbn. split; [|reflexivity]. now rewrite mem_insert, Nat.eqb_refl.
        -- apply (bloom_add_complete s k); auto.
           intros k'. rewrite mem_insert. destruct (k' =? k) eqn:He; cbn [orb]; [|auto].
           apply Nat.eqb_eq in He. auto.
        -- rewrite bloom_add_store. cbn [s_store with_store_cache]. now apply seteq_insert.
Qed.

Lemma delete_ok s store k fault : Inv s -> seteq (s_store s) store -> step_ok s store (ODelete k fault).
Proof.
  intros [Hc Hb] Hs. unfold step_ok. cbn [step spec_step].
  rewrite <- (Hs k).
  destruct (bloom_neg cf pos s k) eqn:Hneg.
  - rewrite (bloom_neg_absent s k (conj Hc Hb) Hneg). cbn [negb]. repeat split; assumption.
  - unfold tq_delete.
    destruct (match query cf s k with Some e => negb (ehas e) | None => false end) eqn:Hq.
    + rewrite (query_has_false _ _ Hc Hq). cbn [negb]. repeat split; assumption.
    + destruct (mem k (s_store s)) eqn:Hm; cbn [negb].
      * destruct fault.
        -- repeat split; cbn [s_store with_cache]; try assumption. apply cache_sound_del; auto.
        -- repeat split.
           ++ apply cache_sound_set; auto.
              ** intros k' Hne. rewrite mem_remove. apply Nat.eqb_neq in Hne. now rewrite Hne.
              ** cbn. now rewrite mem_remove, Nat.eqb_refl.
           ++ intros Hbl Ha k'. cbn [s_store with_store_cache s_filt]. rewrite mem_remove.
              intros Hk'. apply andb_true_iff in Hk' as [_ Hk']. now apply Hb.
           ++ cbn [s_store with_store_cache]. now apply seteq_remove.
      * repeat split; cbn [s_store with_cache]; try assumption.
        apply cache_sound_set; auto. cbn. now rewrite Hm.
Qed.

Lemma read_ok s store rk k : Inv s -> seteq (s_store s) store -> step_ok s store (ORead rk k).
Proof.
  intros HI Hs. unfold step_ok. cbn [step spec_step].
  destruct (bloom_neg cf pos s k) eqn:Hneg.
  - repeat split; try apply HI; try assumption.
    rewrite <- (Hs k), (bloom_neg_absent s k HI Hneg). reflexivity.
  - pose proof (tq_read_ok s store rk k HI Hs) as H.
    destruct (tq_read cf sz s rk k) as [s' [r t]]. exact H.
Qed.

(** ---------- PutMany ---------- *)
Lemma good_subset s ks k : mem k (good_keys cf s ks) = true -> mem k ks = true.
Proof.
  unfold good_keys. destruct (c_tq cf); [|auto].
  rewrite mem_sort_dedup, mem_filter. intros H. now apply andb_true_iff in H.
Qed.

Lemma good_or_present s ks k :
  cache_sound s -> mem k ks = true -> mem k (good_keys cf s ks) = true \/ mem k (s_store s) = true.
Proof.
  intros Hc Hk. unfold good_keys. destruct (c_tq cf) eqn:Htq; [|auto].
  rewrite mem_sort_dedup, mem_filter, Hk. cbn [andb].
  destruct (query cf s k) as [e|] eqn:Hq; [|auto].
  rewrite <- (agrees_ehas _ _ _ (Hc _ _ Hq)). destruct (ehas e); auto.
Qed.

Lemma forallb_good s ks :
  cache_sound s ->
  forallb (fun k => mem k (s_store s)) (good_keys cf s ks) = forallb (fun k => mem k (s_store s)) ks.
Proof.
  intros Hc. apply eq_true_iff_eq. rewrite !forallb_mem_ext. split; intros H k Hk.
  - destruct (good_or_present s ks k Hc Hk); auto.
  - apply H. eapply good_subset; eauto.
Qed.

Definition csize_all (good : list key) (c : list (key * entry)) :=
  fold_left (fun c k => if c_tq cf then cset k (CSize (sz k)) c else c) good c.

Lemma query_csize_all s good k x f a :
  query cf (mkSt x (csize_all good (s_cache s)) f a) k =
  if c_tq cf then (if mem k good then Some (CSize (sz k)) else lookup k (s_cache s)) else None.
Proof.
  unfold query, csize_all. cbn [s_cache]. destruct (c_tq cf); [|reflexivity].
  apply (lookup_fold_cset (fun k => CSize (sz k))).
Qed.

Lemma putmany_state_inv s x good ks :
  Inv s ->
  (forall k, mem k x = mem k good || mem k (s_store s)) ->
  (forall k, mem k good = true -> mem k ks = true) ->
  Inv (fold_left (bloom_add cf pos) ks (mkSt x (csize_all good (s_cache s)) (s_filt s) (s_active s))).
Proof.
  intros [Hc Hb] Hx Hsub. split.
  - apply fold_bloom_add_cache_sound. intros k e. rewrite query_csize_all. cbn [s_store].
    destruct (c_tq cf) eqn:Htq; [|discriminate].
    destruct (mem k good) eqn:Hg.
    + intros [= <-]. cbn. split; [|reflexivity]. now rewrite Hx, Hg.
    + intros Hl. apply (agrees_ext (s_store s)); [now rewrite Hx, Hg|].
      apply Hc. now rewrite query_of_lookup.
  - intros Hbl. rewrite fold_bloom_add_active, fold_bloom_add_store. cbn [s_active s_store].
    intros Ha k Hk. rewrite Hx in Hk. destruct (mem k good) eqn:Hg.
    + apply fold_bloom_add_mem; auto.
    + cbn [orb] in Hk. apply fold_bloom_add_grows. cbn [s_filt]. now apply Hb.
Qed.

Lemma forallb_pointwise (f g : nat -> bool) l :
  (forall k, f k = g k) -> forallb f l = forallb g l.
Proof. intros H. induction l as [|x r IH]; cbn; [reflexivity|]. now rewrite H, IH. Qed.

Lemma putmany_ok s store ks fault : Inv s -> seteq (s_store s) store -> step_ok s store (OPutMany ks fault).
Proof.
  intros HI Hs. pose proof HI as [Hc Hb]. unfold step_ok. cbn [step spec_step]. unfold tq_putmany.
  fold (csize_all (good_keys cf s ks) (s_cache s)).
  set (good := good_keys cf s ks).
  assert (Hall : forallb (fun k => mem k store) ks = forallb (fun k => mem k (s_store s)) good).
  { unfold good. rewrite forallb_good by assumption. apply forallb_pointwise. intros k. now rewrite Hs. }
  rewrite Hall.
  assert (Hsub : forall k, mem k good = true -> mem k ks = true) by (intros k; apply good_subset).
  destruct (forallb (fun k => mem k (s_store s)) good) eqn:Hpres.
  - (* every forwarded block is already stored *)
    assert (Hx : forall k, mem k (s_store s) = mem k good || mem k (s_store s)).
    { intros k. destruct (mem k good) eqn:Hg; [|reflexivity].
      cbn. rewrite forallb_mem_ext in Hpres. now apply Hpres. }
    pose proof (putmany_state_inv s (s_store s) good ks HI Hx Hsub) as HI'.
    unfold with_cache. split; [exact HI'|]. split; [|reflexivity].
    now rewrite fold_bloom_add_store.
  - destruct fault.
    + repeat split; assumption.
    + assert (Hx : forall k, mem k (fold_left (fun x k => insert k x) good (s_store s)) =
                            mem k good || mem k (s_store s)) by (intros k; apply mem_fold_insert).
      pose proof (putmany_state_inv s _ good ks HI Hx Hsub) as HI'.
      unfold with_store_cache. split; [exact HI'|]. split; [|reflexivity].
      rewrite fold_bloom_add_store. cbn [s_store]. intros k.
      rewrite Hx, mem_fold_insert, <- Hs.
      destruct (mem k good) eqn:Hg.
      * now rewrite (Hsub _ Hg).
      * cbn [orb]. destruct (mem k ks) eqn:Hk; [|reflexivity].
        destruct (good_or_present s ks k Hc Hk) as [Hg'|Hp].
        -- fold good in Hg'. congruence.
        -- now rewrite Hp.
Qed.

(** ---------- Rebuild / initial build ---------- *)
Lemma enum_ok_all store n complete :
  enum_ok store n complete = true -> enum_keys store n = store.
Proof.
  unfold enum_ok, enum_keys. intros H. apply andb_true_iff in H as [_ H].
  apply Nat.leb_le in H. now apply firstn_all2.
Qed.

Lemma rebuilt_complete store c n complete :
  bloom_complete (mkSt store c (filt_of pos (enum_keys store n)) (enum_ok store n complete)).
Proof.
  intros _ Ha k Hk. cbn in *. rewrite (enum_ok_all _ _ _ Ha). now apply bsub_filt_of.
Qed.

Lemma rebuild_ok s store n complete : Inv s -> seteq (s_store s) store -> step_ok s store (ORebuild n complete).
Proof.
  intros [Hc Hb] Hs. unfold step_ok. cbn [step spec_step].
  destruct (c_bloom cf); repeat split; try assumption.
  apply rebuilt_complete.
Qed.

Lemma step_correct s store o : Inv s -> seteq (s_store s) store -> step_ok s store o.
Proof.
  intros HI Hs. destruct o as [rk k|k f|k f|ks f|n c| |].
  - now apply read_ok.
  - now apply put_ok.
  - now apply delete_ok.
  - now apply putmany_ok.
  - now apply rebuild_ok.
  - unfold step_ok. cbn. repeat split; solve [assumption | apply HI].
  - unfold step_ok. cbn. repeat split; solve [assumption | apply HI].
Qed.

Lemma init_inv keys n complete :
  Inv (init cf pos keys n complete) /\ s_store (init cf pos keys n complete) = sort_dedup keys.
Proof.
  unfold init. destruct (c_bloom cf) eqn:Hbl.
  - split; [|reflexivity]. split.
    + intros k e. unfold query. cbn. destruct (c_tq cf); discriminate.
    + apply rebuilt_complete.
  - split; [|reflexivity]. split.
    + intros k e. unfold query. cbn. destruct (c_tq cf); discriminate.
    + intros Hbl'. congruence.
Qed.

(** ---------- whole histories ---------- *)
Definition outs_agree (xs : list out) (ss : list (option res)) : Prop :=
  Forall2 (fun (x : out) so => match so with Some r' => fst x = r' | None => True end) xs ss.

Lemma run_transparent h : forall s store,
  Inv s -> seteq (s_store s) store ->
  outs_agree (fst (run cf pos sz s h)) (fst (spec_run sz store (map snd h))) /\
  seteq (s_store (snd (run cf pos sz s h))) (snd (spec_run sz store (map snd h))) /\
  Inv (snd (run cf pos sz s h)).
Proof.
  induction h as [|[ev o] r IH]; intros s store HI Hs; cbn [run spec_run map snd].
  - split; [constructor | split; assumption].
  - pose proof (step_correct (evict ev s) store o (evict_inv ev s HI) Hs) as Hstep.
    unfold step_ok in Hstep.
    destruct (step cf pos sz (evict ev s) o) as [s' [x t]].
    destruct (spec_step sz store o) as [store' so].
    destruct Hstep as (HI' & Hs' & Hout).
    specialize (IH s' store' HI' Hs').
    destruct (run cf pos sz s' r) as [xs fin].
    destruct (spec_run sz store' (map snd r)) as [ss sfin].
    cbn [fst snd] in *. destruct IH as (Ho & Hf & HIf).
    split; [constructor; assumption | split; assumption].
Qed.

Theorem seq_transparent keys n complete h :
  let s0 := init cf pos keys n complete in
  outs_agree (fst (run cf pos sz s0 h)) (fst (spec_run sz (sort_dedup keys) (map snd h))) /\
  seteq (s_store (snd (run cf pos sz s0 h))) (snd (spec_run sz (sort_dedup keys) (map snd h))).
Proof.
  cbn zeta. destruct (init_inv keys n complete) as [HI Hst].
  destruct (run_transparent h _ (sort_dedup keys) HI) as (H1 & H2 & _).
  - rewrite Hst. intros k. reflexivity.
  - split; assumption.
Qed.

(** after a Rebuild (or initial build) whose enumeration was truncated the filter is
    inactive; it stays inactive until the next Rebuild *)
Lemma failed_enum_inactive s n complete :
  c_bloom cf = true ->
  enum_ok (s_store s) n complete = false ->
  s_active (fst (step cf pos sz s (ORebuild n complete))) = false /\
  snd (step cf pos sz s (ORebuild n complete)) = (RErr, [QMARK]).
Proof. intros Hbl Hno. cbn [step]. rewrite Hbl, Hno. split; reflexivity. Qed.

Lemma enum_ok_false_cases store n complete :
  complete = false \/ n < length store -> enum_ok store n complete = false.
Proof.
  unfold enum_ok. intros [->|Hlt]; [reflexivity|].
  apply andb_false_iff. right. apply Nat.leb_gt. exact Hlt.
Qed.

Lemma inactive_stays s o :
  s_active s = false -> (forall n c, o <> ORebuild n c) -> s_active (fst (step cf pos sz s o)) = false.
Proof.
  intros Ha Hno. destruct o as [rk k|k f|k f|ks f|n c| |]; cbn [step].
  - destruct (bloom_neg cf pos s k); [exact Ha|]. unfold tq_read.
    destruct (match query cf s k with Some e => conclude rk k e | None => None end); exact Ha.
  - unfold tq_put.
    destruct (match query cf s k with Some e => ehas e | None => false end);
      [|destruct (mem k (s_store s)); [|destruct f]]; cbn [fst]; rewrite ?bloom_add_active; exact Ha.
  - destruct (bloom_neg cf pos s k); [exact Ha|]. unfold tq_delete.
    destruct (match query cf s k with Some e => negb (ehas e) | None => false end);
      [|destruct (negb (mem k (s_store s))); [|destruct f]]; exact Ha.
  - unfold tq_putmany.
    destruct (forallb (fun k => mem k (s_store s)) (good_keys cf s ks)); [|destruct f];
      cbn [fst]; rewrite ?fold_bloom_add_active; exact Ha.
  - exfalso. now apply (Hno n c).
  - exact Ha.
  - exact Ha.
Qed.

End SeqProofs.
