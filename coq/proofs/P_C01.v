(** C01 — proofs about the blockstore model [M_C01].

    Stage 1 (key abstraction): the mechanism over the real key mapping
      [dskey c] behaves exactly like the same mechanism keyed by the bare
      multihash ([sh_*], "shadow"), because [dskey c] is injective on byte
      strings and [key_to_mh c] inverts it.
    Stage 2 (honesty): the shadow mechanism (existence check before write,
      batch filtered against the pre-batch store) equals the plain map
      specification [a_step] when WriteThrough is on, or when equal multihashes
      always come with equal bytes. *)
From Coq Require Import List ZArith Bool NArith Lia Arith.
From V Require Import lib.Verdict lib.BaseN model.M_C01.
Import ListNotations.

(** * byte-string equality *)
Lemma bytes_eqb_eq : forall a b, bytes_eqb a b = true <-> a = b.
Proof.
  induction a as [|x a IH]; intros [|y b]; cbn [bytes_eqb]; split; intros H; try congruence; try discriminate.
  - apply andb_prop in H. destruct H as [H1 H2]. apply N.eqb_eq in H1. apply IH in H2. congruence.
  - injection H as -> ->. rewrite N.eqb_refl. cbn. now apply IH.
Qed.

Lemma bytes_eqb_refl : forall a, bytes_eqb a a = true.
Proof. intros a. now apply bytes_eqb_eq. Qed.

Lemma bytes_eqb_neq : forall a b, a <> b -> bytes_eqb a b = false.
Proof.
  intros a b H. destruct (bytes_eqb a b) eqn:E; [|reflexivity]. apply bytes_eqb_eq in E. contradiction.
Qed.

Lemma bytes_eqb_sym : forall a b, bytes_eqb a b = bytes_eqb b a.
Proof.
  intros a b. destruct (bytes_eqb a b) eqn:E.
  - apply bytes_eqb_eq in E. subst. now rewrite bytes_eqb_refl.
  - destruct (bytes_eqb b a) eqn:E'; [|reflexivity]. apply bytes_eqb_eq in E'. subst.
    now rewrite bytes_eqb_refl in E.
Qed.

(** * association-list stores *)
Definition keys (s : store) : list bytes := map fst s.

Lemma st_find_put_same : forall k v s, st_find k (st_put k v s) = Some v.
Proof.
  intros k v s. induction s as [|[k' v'] r IH]; cbn [st_put st_find].
  - now rewrite bytes_eqb_refl.
  - destruct (bytes_eqb k k') eqn:E; cbn [st_find]; rewrite E; [reflexivity|exact IH].
Qed.

Lemma st_find_put_other : forall k k' v s, k <> k' -> st_find k' (st_put k v s) = st_find k' s.
Proof.
  intros k k' v s Hne. induction s as [|[k0 v0] r IH]; cbn [st_put st_find].
  - rewrite bytes_eqb_neq by congruence. reflexivity.
  - destruct (bytes_eqb k k0) eqn:E; cbn [st_find].
    + apply bytes_eqb_eq in E. subst k0. rewrite bytes_eqb_neq by congruence. reflexivity.
    + destruct (bytes_eqb k' k0); [reflexivity|exact IH].
Qed.

Lemma st_put_noop : forall k v s, st_find k s = Some v -> st_put k v s = s.
Proof.
  intros k v s. induction s as [|[k0 v0] r IH]; cbn [st_put st_find]; intros H; [discriminate|].
  destruct (bytes_eqb k k0) eqn:E.
  - now injection H as ->.
  - now rewrite IH.
Qed.

Lemma st_find_remove_same : forall k s, st_find k (st_remove k s) = None.
Proof.
  intros k s. induction s as [|[k0 v0] r IH]; cbn [st_remove st_find]; [reflexivity|].
  destruct (bytes_eqb k k0) eqn:E; [exact IH|]. cbn [st_find]. now rewrite E.
Qed.

Lemma st_find_remove_other : forall k k' s, k <> k' -> st_find k' (st_remove k s) = st_find k' s.
Proof.
  intros k k' s Hne. induction s as [|[k0 v0] r IH]; cbn [st_remove st_find]; [reflexivity|].
  destruct (bytes_eqb k k0) eqn:E.
  - apply bytes_eqb_eq in E. subst k0. rewrite (bytes_eqb_neq k' k) by congruence. exact IH.
  - cbn [st_find]. destruct (bytes_eqb k' k0); [reflexivity|exact IH].
Qed.

Lemma st_find_In : forall k v s, st_find k s = Some v -> In (k, v) s.
Proof.
  intros k v s. induction s as [|[k0 v0] r IH]; cbn [st_find]; intros H; [discriminate|].
  destruct (bytes_eqb k k0) eqn:E.
  - apply bytes_eqb_eq in E. injection H as ->. subst. now left.
  - right. now apply IH.
Qed.

Lemma st_find_None_keys : forall k s, st_find k s = None <-> ~ In k (keys s).
Proof.
  intros k s. induction s as [|[k0 v0] r IH]; cbn [st_find keys map fst In].
  - tauto.
  - destruct (bytes_eqb k k0) eqn:E.
    + apply bytes_eqb_eq in E. subst. split; [discriminate|]. intros H. exfalso. apply H. now left.
    + rewrite IH. split.
      * intros H [H1|H1]; [|now apply H]. subst. now rewrite bytes_eqb_refl in E.
      * intros H H1. apply H. now right.
Qed.

Lemma st_has_true_keys : forall k s, st_has k s = true <-> In k (keys s).
Proof.
  intros k s. unfold st_has. destruct (st_find k s) eqn:E.
  - split; [|reflexivity]. intros _. apply st_find_In in E. apply (in_map fst) in E. exact E.
  - split; [discriminate|]. intros H. apply st_find_None_keys in E. contradiction.
Qed.

(** entries after a put / remove *)
Lemma st_put_Forall : forall (P : bytes * bytes -> Prop) k v s,
  Forall P s -> P (k, v) -> Forall P (st_put k v s).
Proof.
  intros P k v s Hs Hk. induction Hs as [|[k0 v0] r H0 Hr IH]; cbn [st_put].
  - now constructor.
  - destruct (bytes_eqb k k0) eqn:E.
    + apply bytes_eqb_eq in E. subst. now constructor.
    + now constructor.
Qed.

Lemma st_remove_Forall : forall (P : bytes * bytes -> Prop) k s, Forall P s -> Forall P (st_remove k s).
Proof.
  intros P k s Hs. induction Hs as [|[k0 v0] r H0 Hr IH]; cbn [st_remove]; [constructor|].
  destruct (bytes_eqb k k0); [exact IH|now constructor].
Qed.

Lemma keys_put_Forall : forall (P : bytes -> Prop) k v s,
  Forall P (keys s) -> P k -> Forall P (keys (st_put k v s)).
Proof.
  intros P k v s Hs Hk. unfold keys in *. rewrite Forall_map in *.
  apply st_put_Forall; assumption.
Qed.

Lemma keys_remove_Forall : forall (P : bytes -> Prop) k s, Forall P (keys s) -> Forall P (keys (st_remove k s)).
Proof. intros P k s Hs. unfold keys in *. rewrite Forall_map in *. now apply st_remove_Forall. Qed.

Lemma keys_put : forall k v s, keys (st_put k v s) = if st_has k s then keys s else keys s ++ [k].
Proof.
  intros k v s. unfold st_has. induction s as [|[k0 v0] r IH]; cbn [st_put st_find keys map fst app]; [reflexivity|].
  destruct (bytes_eqb k k0) eqn:E; [reflexivity|].
  cbn [map fst]. fold (keys (st_put k v r)). rewrite IH. fold (keys r). now destruct (st_find k r).
Qed.

Lemma keys_remove_incl : forall k s x, In x (keys (st_remove k s)) -> In x (keys s) /\ x <> k.
Proof.
  intros k s x. induction s as [|[k0 v0] r IH]; cbn [st_remove keys map fst In]; [tauto|].
  destruct (bytes_eqb k k0) eqn:E.
  - intros H. apply IH in H. tauto.
  - cbn [map fst In]. intros [H|H].
    + subst. split; [now left|]. intros ->. now rewrite bytes_eqb_refl in E.
    + apply IH in H. tauto.
Qed.

Lemma keys_remove_In : forall k s x, In x (keys s) -> x <> k -> In x (keys (st_remove k s)).
Proof.
  intros k s x. induction s as [|[k0 v0] r IH]; cbn [st_remove keys map fst In]; [tauto|].
  intros [H|H] Hne.
  - subst. rewrite bytes_eqb_neq by congruence. now left.
  - destruct (bytes_eqb k k0); [now apply IH|]. right. now apply IH.
Qed.

Lemma NoDup_app_singleton : forall (l : list bytes) k, NoDup l -> ~ In k l -> NoDup (l ++ [k]).
Proof.
  intros l k Hnd. induction Hnd as [|x l Hx Hnd IH]; intros Hk; cbn [app].
  - constructor; [tauto|constructor].
  - constructor.
    + rewrite in_app_iff. cbn [In]. intros [H|[H|[]]]; [contradiction|]. subst. apply Hk. now left.
    + apply IH. intros H. apply Hk. now right.
Qed.

Lemma NoDup_keys_put : forall k v s, NoDup (keys s) -> NoDup (keys (st_put k v s)).
Proof.
  intros k v s H. rewrite keys_put. destruct (st_has k s) eqn:E; [assumption|].
  assert (~ In k (keys s)) by (intros Hin; apply st_has_true_keys in Hin; congruence).
  apply NoDup_app_singleton; assumption.
Qed.

Lemma NoDup_keys_remove : forall k s, NoDup (keys s) -> NoDup (keys (st_remove k s)).
Proof.
  intros k s. induction s as [|[k0 v0] r IH]; cbn [st_remove keys map fst]; intros H; [constructor|].
  inversion H as [|? ? Hnin Hnd]; subst.
  destruct (bytes_eqb k k0); [now apply IH|].
  cbn [map fst]. constructor; [|now apply IH].
  intros Hin. apply keys_remove_incl in Hin. tauto.
Qed.

(** * Stage 1: the key mapping is transparent *)
Definition mapk (K : bytes -> bytes) (s : store) : store := map (fun kv => (K (fst kv), snd kv)) s.

Definition wrk (K : bytes -> bytes) (w : wr) : wr :=
  match w with
  | WPut k v => WPut (K k) v
  | WDel k => WDel (K k)
  | WBPut k v => WBPut (K k) v
  | WCommit => WCommit
  end.

Definition idk : bytes -> bytes := fun m => m.
Definition unk : bytes -> option bytes := fun m => Some m.

(** the mechanism keyed by the bare multihash *)
Definition sh_step := g_step idk unk.
Definition sh_run := g_run idk unk.

Definition wf_op (wf : bytes -> Prop) (o : op) : Prop := Forall (fun k => wf (c_mh k)) (cids_of o).

Lemma filter_ext_Forall : forall A (f g : A -> bool) l,
  Forall (fun x => f x = g x) l -> filter f l = filter g l.
Proof.
  intros A f g l H. induction H as [|x l Hx H IH]; [reflexivity|]. cbn [filter]. now rewrite Hx, IH.
Qed.

Lemma filter_Forall : forall A (P : A -> Prop) f l, Forall P l -> Forall P (filter f l).
Proof.
  intros A P f l H. induction H as [|x l Hx H IH]; cbn [filter]; [constructor|].
  destruct (f x); [now constructor|assumption].
Qed.

Section KeyMap.
  Variable K : bytes -> bytes.
  Variable unkey : bytes -> option bytes.
  Variable wf : bytes -> Prop.
  Hypothesis K_inj : forall a b, wf a -> wf b -> K a = K b -> a = b.
  Hypothesis unkey_K : forall m, wf m -> unkey (K m) = Some m.

  Lemma K_eqb : forall a b, wf a -> wf b -> bytes_eqb (K a) (K b) = bytes_eqb a b.
  Proof.
    intros a b Ha Hb. destruct (bytes_eqb a b) eqn:E.
    - apply bytes_eqb_eq in E. subst. apply bytes_eqb_refl.
    - apply bytes_eqb_neq. intros H. apply K_inj in H; try assumption. subst.
      now rewrite bytes_eqb_refl in E.
  Qed.

  Lemma find_mapk : forall m a, wf m -> Forall wf (keys a) -> st_find (K m) (mapk K a) = st_find m a.
  Proof.
    intros m a Hm Ha. induction a as [|[k0 v0] r IH]; cbn [mapk map st_find fst snd]; [reflexivity|].
    cbn [keys map fst] in Ha. inversion Ha as [|? ? H0 Hr]; subst.
    rewrite K_eqb by assumption. destruct (bytes_eqb m k0); [reflexivity|]. now apply IH.
  Qed.

  Lemma has_mapk : forall m a, wf m -> Forall wf (keys a) -> st_has (K m) (mapk K a) = st_has m a.
  Proof. intros. unfold st_has. now rewrite find_mapk. Qed.

  Lemma put_mapk : forall m d a, wf m -> Forall wf (keys a) ->
    st_put (K m) d (mapk K a) = mapk K (st_put m d a).
  Proof.
    intros m d a Hm Ha. induction a as [|[k0 v0] r IH]; cbn [mapk map st_put fst snd]; [reflexivity|].
    cbn [keys map fst] in Ha. inversion Ha as [|? ? H0 Hr]; subst.
    rewrite K_eqb by assumption. destruct (bytes_eqb m k0); cbn [map fst snd]; [reflexivity|].
    f_equal. now apply IH.
  Qed.

  Lemma remove_mapk : forall m a, wf m -> Forall wf (keys a) ->
    st_remove (K m) (mapk K a) = mapk K (st_remove m a).
  Proof.
    intros m a Hm Ha. induction a as [|[k0 v0] r IH]; cbn [mapk map st_remove fst snd]; [reflexivity|].
    cbn [keys map fst] in Ha. inversion Ha as [|? ? H0 Hr]; subst.
    rewrite K_eqb by assumption. destruct (bytes_eqb m k0); cbn [map fst snd]; [now apply IH|].
    f_equal. now apply IH.
  Qed.

  Lemma unkey_mapk : forall a, Forall wf (keys a) ->
    filter_map (fun kv => unkey (fst kv)) (mapk K a) = filter_map (fun kv => unk (fst kv)) a.
  Proof.
    intros a Ha. induction a as [|[k0 v0] r IH]; cbn [mapk map filter_map fst snd]; [reflexivity|].
    cbn [keys map fst] in Ha. inversion Ha as [|? ? H0 Hr]; subst.
    rewrite unkey_K by assumption. unfold unk at 1. f_equal. now apply IH.
  Qed.

  Variable wt : bool.

  Definition lift (r : store * ob * list wr) : store * ob * list wr :=
    let '(a', b, w) := r in (mapk K a', b, map (wrk K) w).

  Definition keys_wf (r : store * ob * list wr) : Prop := Forall wf (keys (fst (fst r))).

  Lemma bs_put_mapk : forall a k d, wf (c_mh k) -> Forall wf (keys a) ->
    bs_put K wt (mapk K a) k d = lift (bs_put idk wt a k d) /\ keys_wf (bs_put idk wt a k d).
  Proof.
    intros a k d Hk Ha. unfold bs_put, idk. rewrite has_mapk by assumption.
    destruct (negb wt && st_has (c_mh k) a); unfold lift, keys_wf; cbn [map wrk fst].
    - split; [reflexivity|assumption].
    - rewrite put_mapk by assumption. split; [reflexivity|]. now apply keys_put_Forall.
  Qed.

  (** the general (batch) branch of PutMany *)
  Definition batch_of (kf : bytes -> bytes) (s : store) (bl : list (cid * bytes)) : store * ob * list wr :=
    let batch := filter (fun b => wt || negb (st_has (kf (c_mh (fst b))) s)) bl in
    (fold_left (fun s' b => st_put (kf (c_mh (fst b))) (snd b) s') batch s,
     BDone ROk,
     map (fun b => WBPut (kf (c_mh (fst b))) (snd b)) batch ++ [WCommit]).

  Lemma bs_putmany_cases : forall kf s bl,
    bs_putmany kf wt s bl =
    match bl with [(k, d)] => bs_put kf wt s k d | _ => batch_of kf s bl end.
  Proof. intros kf s [|[k d] [|b2 r]]; reflexivity. Qed.

  Lemma fold_put_mapk : forall bl a, Forall (fun b : cid * bytes => wf (c_mh (fst b))) bl -> Forall wf (keys a) ->
    fold_left (fun s' b => st_put (K (c_mh (fst b))) (snd b) s') bl (mapk K a) =
    mapk K (fold_left (fun s' b => st_put (idk (c_mh (fst b))) (snd b) s') bl a) /\
    Forall wf (keys (fold_left (fun s' b => st_put (idk (c_mh (fst b))) (snd b) s') bl a)).
  Proof.
    induction bl as [|b bl IH]; intros a Hbl Ha; cbn [fold_left]; [split; [reflexivity|assumption]|].
    inversion Hbl as [|? ? Hb Hbl']; subst.
    rewrite put_mapk by assumption. unfold idk at 2 4. apply IH; [assumption|].
    now apply keys_put_Forall.
  Qed.

  Lemma batch_mapk : forall a bl, Forall (fun b : cid * bytes => wf (c_mh (fst b))) bl -> Forall wf (keys a) ->
    batch_of K (mapk K a) bl = lift (batch_of idk a bl) /\ keys_wf (batch_of idk a bl).
  Proof.
    intros a bl Hbl Ha. unfold batch_of, lift, keys_wf. cbn [fst].
    assert (Hf : filter (fun b : cid * bytes => wt || negb (st_has (K (c_mh (fst b))) (mapk K a))) bl =
                 filter (fun b : cid * bytes => wt || negb (st_has (idk (c_mh (fst b))) a)) bl).
    { apply filter_ext_Forall. eapply Forall_impl; [|exact Hbl]. intros b Hb. cbv beta.
      rewrite has_mapk by assumption. reflexivity. }
    rewrite Hf. set (batch := filter _ bl).
    assert (Hbatch : Forall (fun b : cid * bytes => wf (c_mh (fst b))) batch) by (now apply filter_Forall).
    destruct (fold_put_mapk batch a Hbatch Ha) as [E W]. rewrite E. split; [|exact W].
    f_equal. rewrite map_app, map_map. reflexivity.
  Qed.

  Lemma bs_putmany_mapk : forall a bl, Forall (fun b : cid * bytes => wf (c_mh (fst b))) bl -> Forall wf (keys a) ->
    bs_putmany K wt (mapk K a) bl = lift (bs_putmany idk wt a bl) /\ keys_wf (bs_putmany idk wt a bl).
  Proof.
    intros a bl Hbl Ha. rewrite !bs_putmany_cases.
    destruct bl as [|[k d] [|b2 r]]; try (now apply batch_mapk).
    inversion Hbl; subst. now apply bs_put_mapk.
  Qed.

  Lemma wf_op_putmany : forall bl, wf_op wf (OPutMany bl) -> Forall (fun b : cid * bytes => wf (c_mh (fst b))) bl.
  Proof. intros bl H. unfold wf_op in H. cbn [cids_of] in H. now rewrite Forall_map in H. Qed.

  Lemma bs_step_mapk : forall a o, wf_op wf o -> Forall wf (keys a) ->
    bs_step K unkey wt (mapk K a) o = lift (bs_step idk unk wt a o) /\ keys_wf (bs_step idk unk wt a o).
  Proof.
    intros a o Ho Ha.
    destruct o as [k d|bl|k|k| |k|k|k| ]; cbn [bs_step];
      try (assert (Hk : wf (c_mh k)) by (unfold wf_op in Ho; cbn [cids_of] in Ho; now inversion Ho)).
    - now apply bs_put_mapk.
    - apply bs_putmany_mapk; [now apply wf_op_putmany|assumption].
    - unfold lift, keys_wf, idk. cbn [fst map wrk]. rewrite remove_mapk by assumption.
      split; [reflexivity|now apply keys_remove_Forall].
    - unfold lift, keys_wf, bs_get, idk. cbn [fst map]. rewrite find_mapk by assumption. split; [reflexivity|assumption].
    - unfold lift, keys_wf. cbn [fst map]. split; [reflexivity|assumption].
    - unfold lift, keys_wf, idk. cbn [fst map]. rewrite has_mapk by assumption. split; [reflexivity|assumption].
    - unfold lift, keys_wf, bs_size, idk. cbn [fst map]. rewrite find_mapk by assumption. split; [reflexivity|assumption].
    - unfold lift, keys_wf, bs_get, idk. cbn [fst map]. rewrite find_mapk by assumption. split; [reflexivity|assumption].
    - unfold lift, keys_wf, bs_allkeys. cbn [fst map]. rewrite unkey_mapk by assumption. split; [reflexivity|assumption].
  Qed.

  Lemma g_step_mapk : forall idl a o, wf_op wf o -> Forall wf (keys a) ->
    g_step K unkey wt idl (mapk K a) o = lift (sh_step wt idl a o) /\ keys_wf (sh_step wt idl a o).
  Proof.
    intros idl a o Ho Ha. unfold sh_step, g_step. destruct idl; [|now apply bs_step_mapk].
    assert (Htriv : forall b, (mapk K a, b, @nil wr) = lift (a, b, []) /\ keys_wf (a, b, @nil wr))
      by (intros b; split; [reflexivity|exact Ha]).
    destruct o as [k d|bl|k|k| |k|k|k| ]; cbn [id_step].
    - destruct (is_id k); [apply Htriv|now apply bs_step_mapk].
    - apply bs_step_mapk; [|assumption]. unfold wf_op. cbn [cids_of]. rewrite Forall_map.
      apply filter_Forall. now apply wf_op_putmany.
    - destruct (is_id k); [apply Htriv|now apply bs_step_mapk].
    - destruct (extract k); [apply Htriv|now apply bs_step_mapk].
    - now apply bs_step_mapk.
    - destruct (is_id k); [apply Htriv|now apply bs_step_mapk].
    - destruct (extract k); [apply Htriv|now apply bs_step_mapk].
    - destruct (extract k); [apply Htriv|now apply bs_step_mapk].
    - now apply bs_step_mapk.
  Qed.

  Definition lift_obs (l : list (ob * list wr)) : list (ob * list wr) :=
    map (fun bw => (fst bw, map (wrk K) (snd bw))) l.

  Theorem g_run_mapk : forall idl ops a, Forall (wf_op wf) ops -> Forall wf (keys a) ->
    g_run K unkey wt idl (mapk K a) ops =
      (mapk K (fst (sh_run wt idl a ops)), lift_obs (snd (sh_run wt idl a ops))) /\
    Forall wf (keys (fst (sh_run wt idl a ops))).
  Proof.
    intros idl ops. induction ops as [|o ops IH]; intros a Hops Ha; cbn [g_run sh_run].
    - split; [reflexivity|exact Ha].
    - inversion Hops as [|? ? Ho Hops']; subst.
      destruct (g_step_mapk idl a o Ho Ha) as [E W]. rewrite E. unfold sh_run, sh_step in *.
      cbn [g_run]. destruct (g_step idk unk wt idl a o) as [[a' b] w] eqn:Es.
      unfold lift. unfold keys_wf in W. cbn [fst] in W.
      destruct (IH a' Hops' W) as [E' W']. rewrite E'.
      destruct (g_run idk unk wt idl a' ops) as [a'' l]. cbn [fst snd lift_obs map] in *.
      split; [reflexivity|exact W'].
  Qed.
End KeyMap.

(** * Stage 2: existence checks are invisible for WriteThrough or honest histories *)
Lemma filter_map_unk : forall (a : store), filter_map (fun kv => unk (fst kv)) a = map fst a.
Proof.
  induction a as [|kv a IH]; [reflexivity|]. cbn [filter_map map].
  change (unk (fst kv)) with (Some (fst kv)). now rewrite IH.
Qed.

Lemma filter_true : forall A (f : A -> bool) l, (forall x, f x = true) -> filter f l = l.
Proof. intros A f l H. induction l as [|x l IH]; cbn [filter]; [reflexivity|]. now rewrite H, IH. Qed.

Section Honest.
  Variable content : bytes -> bytes.
  Variable wt : bool.

  (** every stored value is the content of its multihash (or we do not care: WriteThrough) *)
  Definition cons (a : amap) : Prop := wt = true \/ Forall (fun kv => snd kv = content (fst kv)) a.
  Definition puts_ok (bl : list (cid * bytes)) : Prop :=
    wt = true \/ Forall (fun b => snd b = content (c_mh (fst b))) bl.

  Lemma cons_put : forall a m d, cons a -> (wt = true \/ d = content m) -> cons (st_put m d a).
  Proof.
    intros a m d [Hw|Ha] Hd; [now left|]. destruct Hd as [Hw|Hd]; [now left|]. right.
    apply st_put_Forall; assumption.
  Qed.

  Lemma cons_remove : forall a m, cons a -> cons (st_remove m a).
  Proof. intros a m [Hw|Ha]; [now left|]. right. now apply st_remove_Forall. Qed.

  Lemma cons_find : forall a m d, cons a -> st_find m a = Some d -> wt = true \/ d = content m.
  Proof.
    intros a m d [Hw|Ha] Hf; [now left|]. right. apply st_find_In in Hf.
    rewrite Forall_forall in Ha. now apply Ha in Hf.
  Qed.

  Definition aput (a : amap) (b : cid * bytes) : amap := st_put (c_mh (fst b)) (snd b) a.

  Lemma sh_put_eq : forall a k d, cons a -> (wt = true \/ d = content (c_mh k)) ->
    fst (fst (bs_put idk wt a k d)) = st_put (c_mh k) d a /\ snd (fst (bs_put idk wt a k d)) = BDone ROk.
  Proof.
    intros a k d Ha Hd. unfold bs_put, idk, st_has.
    destruct wt eqn:Ew; cbn [negb andb fst snd]; [split; reflexivity|].
    destruct (st_find (c_mh k) a) as [d'|] eqn:Ef; cbn [fst snd]; [|split; reflexivity].
    split; [|reflexivity]. symmetry. apply st_put_noop. rewrite Ef. f_equal.
    destruct (cons_find a _ _ Ha Ef) as [H|H]; [congruence|].
    destruct Hd as [H'|H']; congruence.
  Qed.

  (** [a] extends [a0]: whatever [a0] maps, [a] maps alike *)
  Definition ext (a0 a : amap) : Prop := forall m d, st_find m a0 = Some d -> st_find m a = Some d.

  Lemma fold_skip : forall a0 bl a, wt = false -> cons a -> ext a0 a ->
    Forall (fun b => snd b = content (c_mh (fst b))) bl ->
    fold_left aput (filter (fun b => negb (st_has (c_mh (fst b)) a0)) bl) a = fold_left aput bl a.
  Proof.
    intros a0 bl. induction bl as [|b bl IH]; intros a Hw Ha Hext Hbl; [reflexivity|].
    inversion Hbl as [|? ? Hb Hbl']; subst. cbn [filter fold_left].
    assert (Hext' : ext a0 (aput a b)).
    { intros m d Hf. unfold aput. destruct (bytes_eqb (c_mh (fst b)) m) eqn:E.
      - apply bytes_eqb_eq in E. subst m. rewrite st_find_put_same. f_equal.
        apply Hext in Hf. destruct (cons_find a _ _ Ha Hf) as [H|H]; congruence.
      - rewrite st_find_put_other; [now apply Hext|]. intros H. subst. now rewrite bytes_eqb_refl in E. }
    assert (Ha' : cons (aput a b)) by (apply cons_put; [assumption|now right]).
    unfold st_has at 1. destruct (st_find (c_mh (fst b)) a0) as [d0|] eqn:Ef; cbn [negb].
    - (* present before the batch: skipped, and the put would not change anything *)
      assert (En : aput a b = a).
      { unfold aput. apply st_put_noop. apply Hext in Ef. rewrite Ef. f_equal.
        destruct (cons_find a _ _ Ha Ef) as [H|H]; congruence. }
      rewrite En. now apply IH.
    - cbn [fold_left]. now apply IH.
  Qed.

  Lemma sh_batch_eq : forall a bl, cons a -> puts_ok bl ->
    fst (fst (batch_of wt idk a bl)) = fold_left aput bl a /\ snd (fst (batch_of wt idk a bl)) = BDone ROk.
  Proof.
    intros a bl Ha Hbl. unfold batch_of, idk. cbn [fst snd]. split; [|reflexivity].
    fold aput. change (fun s' b => st_put (c_mh (fst b)) (snd b) s') with aput.
    destruct wt eqn:Ew.
    - rewrite filter_true by reflexivity. reflexivity.
    - cbn [orb]. destruct Hbl as [H|Hbl]; [congruence|].
      apply fold_skip; try assumption; try reflexivity. intros m d H. exact H.
  Qed.

  Lemma cons_fold : forall bl a, cons a -> puts_ok bl -> cons (fold_left aput bl a).
  Proof.
    induction bl as [|b bl IH]; intros a Ha Hbl; [assumption|]. cbn [fold_left].
    apply IH.
    - apply cons_put; [assumption|]. destruct Hbl as [H|H]; [now left|]. right. now inversion H.
    - destruct Hbl as [H|H]; [now left|]. right. now inversion H.
  Qed.

  Lemma sh_putmany_eq : forall a bl, cons a -> puts_ok bl ->
    fst (fst (bs_putmany idk wt a bl)) = fold_left aput bl a /\ snd (fst (bs_putmany idk wt a bl)) = BDone ROk.
  Proof.
    intros a bl Ha Hbl. rewrite bs_putmany_cases.
    destruct bl as [|[k d] [|b2 r]]; try (now apply sh_batch_eq).
    cbn [fold_left]. apply sh_put_eq; [assumption|].
    destruct Hbl as [H|H]; [now left|]. right. now inversion H.
  Qed.

  Lemma a_put_false : forall a b, a_put false a b = aput a b.
  Proof. reflexivity. Qed.

  Lemma fold_a_put_false : forall bl a, fold_left (a_put false) bl a = fold_left aput bl a.
  Proof. reflexivity. Qed.

  Lemma fold_a_put_true : forall bl a,
    fold_left (a_put true) bl a = fold_left aput (filter (fun b => negb (is_id (fst b))) bl) a.
  Proof.
    induction bl as [|b bl IH]; intros a; [reflexivity|]. cbn [fold_left filter].
    unfold a_put at 2. cbn [andb]. destruct (is_id (fst b)); cbn [negb fold_left]; apply IH.
  Qed.

  Lemma puts_ok_filter : forall f bl, puts_ok bl -> puts_ok (filter f bl).
  Proof. intros f bl [H|H]; [now left|]. right. now apply filter_Forall. Qed.

  (** one step of the shadow mechanism = one step of the map specification *)
  Lemma sh_step_eq : forall idl a o, cons a -> puts_ok (puts_of o) ->
    a_step idl a o = (fst (fst (sh_step wt idl a o)), snd (fst (sh_step wt idl a o))) /\
    cons (fst (fst (sh_step wt idl a o))).
  Proof.
    intros idl a o Ha Ho. unfold sh_step, g_step.
    destruct o as [k d|bl|k|k| |k|k|k| ]; cbn [puts_of] in Ho.
    - (* Put *)
      assert (Hd : wt = true \/ d = content (c_mh k)).
      { destruct Ho as [H|H]; [now left|]. right. now inversion H. }
      destruct (sh_put_eq a k d Ha Hd) as [E1 E2].
      destruct idl; cbn [id_step bs_step a_step]; unfold a_put; cbn [fst snd andb].
      + destruct (is_id k); cbn [fst snd]; [split; [reflexivity|assumption]|].
        rewrite E1, E2. split; [reflexivity|now apply cons_put].
      + rewrite E1, E2. split; [reflexivity|now apply cons_put].
    - (* PutMany *)
      destruct idl; cbn [id_step bs_step a_step].
      + set (bl' := filter (fun b => negb (is_id (fst b))) bl).
        assert (Hbl' : puts_ok bl') by (now apply puts_ok_filter).
        destruct (sh_putmany_eq a bl' Ha Hbl') as [E1 E2]. rewrite E1, E2, fold_a_put_true.
        split; [reflexivity|now apply cons_fold].
      + destruct (sh_putmany_eq a bl Ha Ho) as [E1 E2]. rewrite E1, E2.
        split; [reflexivity|now apply cons_fold].
    - (* Delete *)
      destruct idl; cbn [id_step bs_step a_step andb fst snd]; unfold idk.
      + destruct (is_id k); cbn [fst snd]; (split; [reflexivity|]); [assumption|now apply cons_remove].
      + split; [reflexivity|now apply cons_remove].
    - (* Get *)
      destruct idl; cbn [id_step bs_step a_step]; unfold a_lookup; unfold bs_get, idk.
      + destruct (extract k); cbn [fst snd]; (split; [|assumption]); [reflexivity|].
        now destruct (st_find (c_mh k) a).
      + cbn [fst snd]. split; [|assumption]. now destruct (st_find (c_mh k) a).
    - destruct idl; cbn [id_step bs_step a_step fst snd]; (split; [reflexivity|assumption]).
    - (* Has *)
      destruct idl; cbn [id_step bs_step a_step]; unfold a_lookup; unfold is_id, st_has, idk.
      + destruct (extract k); cbn [fst snd]; (split; [reflexivity|assumption]).
      + cbn [fst snd]. split; [reflexivity|assumption].
    - (* GetSize *)
      destruct idl; cbn [id_step bs_step a_step]; unfold a_lookup; unfold bs_size, idk.
      + destruct (extract k); cbn [fst snd]; (split; [|assumption]); [reflexivity|].
        now destruct (st_find (c_mh k) a).
      + cbn [fst snd]. split; [|assumption]. now destruct (st_find (c_mh k) a).
    - (* View *)
      destruct idl; cbn [id_step bs_step a_step]; unfold a_lookup; unfold bs_get, idk.
      + destruct (extract k); cbn [fst snd]; (split; [|assumption]); [reflexivity|].
        now destruct (st_find (c_mh k) a).
      + cbn [fst snd]. split; [|assumption]. now destruct (st_find (c_mh k) a).
    - (* AllKeys *)
      assert (E : bs_allkeys unk a = BKeys ROk (map (fun kv => v1raw (fst kv)) a)).
      { unfold bs_allkeys. now rewrite filter_map_unk, map_map. }
      destruct idl; cbn [id_step bs_step a_step fst snd]; rewrite E; (split; [reflexivity|assumption]).
  Qed.

  Lemma puts_ok_app : forall l1 l2, puts_ok (l1 ++ l2) -> puts_ok l1 /\ puts_ok l2.
  Proof.
    intros l1 l2 [H|H]; [split; now left|]. apply Forall_app in H. destruct H. split; now right.
  Qed.

  Theorem sh_run_eq : forall idl ops a, cons a -> puts_ok (all_puts ops) ->
    a_run idl a ops = (fst (sh_run wt idl a ops), map fst (snd (sh_run wt idl a ops))).
  Proof.
    intros idl ops. induction ops as [|o ops IH]; intros a Ha Hops; [reflexivity|].
    unfold all_puts in Hops. cbn [flat_map] in Hops. apply puts_ok_app in Hops. destruct Hops as [Ho Hops].
    destruct (sh_step_eq idl a o Ha Ho) as [E C].
    cbn [a_run]. rewrite E. unfold sh_run, sh_step in *. cbn [g_run].
    destruct (g_step idk unk wt idl a o) as [[a' b] w]. cbn [fst snd] in *.
    rewrite (IH a' C Hops). destruct (g_run idk unk wt idl a' ops) as [a'' l]. reflexivity.
  Qed.
End Honest.

(** * The real key mapping: injective, and inverted by AllKeysChan's reader *)
Definition wfb (m : bytes) : Prop := Forall is_byte m.

Lemma dskey_inj : forall c m1 m2, wfb m1 -> wfb m2 -> dskey c m1 = dskey c m2 -> m1 = m2.
Proof.
  intros c m1 m2 H1 H2 E. unfold dskey in E. apply app_inv_head in E. injection E as E.
  now apply b32_encode_inj.
Qed.

Lemma strip_prefix_app : forall p x, strip_prefix p (p ++ x) = Some x.
Proof. induction p as [|a p IH]; intros x; cbn [strip_prefix app]; [reflexivity|]. now rewrite N.eqb_refl. Qed.

Lemma filter_keep_Forall : forall A (f : A -> bool) l, Forall (fun x => f x = true) l -> filter f l = l.
Proof. intros A f l H. induction H as [|x l Hx H IH]; cbn [filter]; [reflexivity|]. now rewrite Hx, IH. Qed.

(** the number of base32 digits of a byte string never leaves a group of 1, 3 or 6 *)
Lemma b32_digits_mod8 : forall m, let j := (length (digits_of_bytes 5 m) mod 8)%nat in
  j <> 1%nat /\ j <> 3%nat /\ j <> 6%nat.
Proof.
  intros m. destruct (@bits_of_digits_of_bytes 5 m ltac:(lia)) as (p & Hp & _ & _ & Hlen).
  set (L := length (digits_of_bytes 5 m)) in *. cbv zeta.
  pose proof (Nat.div_mod L 8 ltac:(lia)) as Hdm.
  pose proof (Nat.mod_upper_bound L 8 ltac:(lia)) as Hm.
  lia.
Qed.

Lemma go_b32_decode_encode : forall m, wfb m -> go_b32_decode (b32_encode m) = Some m.
Proof.
  intros m Hm. unfold go_b32_decode.
  rewrite filter_keep_Forall.
  2:{ eapply Forall_impl; [|apply b32_encode_chars]. intros c Hc. unfold b32_char in Hc. cbv beta.
      destruct (N.eqb_spec c 10); [lia|]. destruct (N.eqb_spec c 13); [lia|]. reflexivity. }
  unfold b32_encode. rewrite mapM_encode.
  - destruct (b32_digits_mod8 m) as (H1 & H3 & H6). cbv zeta in *.
    set (j := (length (digits_of_bytes 5 m) mod 8)%nat) in *.
    destruct (Nat.eqb_spec j 1); [contradiction|]. destruct (Nat.eqb_spec j 3); [contradiction|].
    destruct (Nat.eqb_spec j 6); [contradiction|]. cbn [orb].
    f_equal. apply bytes_of_digits_of_bytes; [lia|lia|exact Hm].
  - lia.
  - apply norm_digit_char.
    + apply nodupb_NoDup. vm_compute. reflexivity.
    + reflexivity.
    + apply fix_Forall. vm_compute. reflexivity.
Qed.

Lemma key_to_mh_dskey : forall c m, wfb m -> key_to_mh c (dskey c m) = Some m.
Proof.
  intros c m Hm. unfold key_to_mh, dskey. rewrite strip_prefix_app, N.eqb_refl.
  now apply go_b32_decode_encode.
Qed.

(** * Honest histories have a content function *)
Definition content_of (l : list (cid * bytes)) (m : bytes) : bytes :=
  match find (fun b => bytes_eqb m (c_mh (fst b))) l with Some b => snd b | None => [] end.

Lemma consistent_with_In : forall m d l, consistent_with m d l = true ->
  forall b, In b l -> c_mh (fst b) = m -> snd b = d.
Proof.
  intros m d l. induction l as [|[k' d'] r IH]; cbn [consistent_with]; intros H b Hin Hm; [contradiction|].
  apply andb_prop in H. destruct H as [H1 H2]. destruct Hin as [<-|Hin]; [|now apply IH].
  cbn [fst snd] in *. subst m. rewrite bytes_eqb_refl in H1. apply bytes_eqb_eq in H1. congruence.
Qed.

Lemma honestb_content : forall l, honestb l = true ->
  Forall (fun b => snd b = content_of l (c_mh (fst b))) l.
Proof.
  induction l as [|[k d] r IH]; intros H; [constructor|].
  cbn [honestb] in H. apply andb_prop in H. destruct H as [Hc Hr].
  constructor.
  - unfold content_of. cbn [find fst snd]. now rewrite bytes_eqb_refl.
  - specialize (IH Hr). rewrite Forall_forall in *. intros b Hb.
    unfold content_of. cbn [find fst]. destruct (bytes_eqb (c_mh (fst b)) (c_mh k)) eqn:E.
    + apply bytes_eqb_eq in E. cbn [snd]. now apply (consistent_with_In _ _ _ Hc).
    + now apply IH.
Qed.

(** * C01: the blockstore answers like a map from multihash to bytes *)
Definition wf_ops (ops : list op) : Prop := Forall (wf_op wfb) ops.

Lemma map_fst_lift_obs : forall K l, map fst (lift_obs K l) = map fst l.
Proof. intros K l. unfold lift_obs. rewrite map_map. reflexivity. Qed.

Lemma run_shadow : forall c ops, wf_ops ops ->
  run c [] ops = (mapk (dskey c) (fst (sh_run (f_wt c) (f_id c) [] ops)),
                  lift_obs (dskey c) (snd (sh_run (f_wt c) (f_id c) [] ops))) /\
  Forall wfb (keys (fst (sh_run (f_wt c) (f_id c) [] ops))).
Proof.
  intros c ops Hops. unfold run.
  change (@nil (bytes * bytes)) with (mapk (dskey c) []) at 1.
  apply g_run_mapk with (wf := wfb).
  - intros a b Ha Hb. now apply dskey_inj.
  - intros m Hm. now apply key_to_mh_dskey.
  - exact Hops.
  - constructor.
Qed.

Theorem refines_map : forall c ops, wf_ops ops ->
  f_wt c = true \/ honestb (all_puts ops) = true ->
  fst (run c [] ops) = mapk (dskey c) (fst (a_run (f_id c) [] ops)) /\
  map fst (snd (run c [] ops)) = snd (a_run (f_id c) [] ops).
Proof.
  intros c ops Hwf Hh. destruct (run_shadow c ops Hwf) as [E _]. rewrite E. cbn [fst snd].
  rewrite map_fst_lift_obs.
  rewrite (sh_run_eq (content_of (all_puts ops)) (f_wt c) (f_id c) ops []).
  - split; reflexivity.
  - right. constructor.
  - destruct Hh as [H|H]; [now left|]. right. now apply honestb_content.
Qed.

(** * identity CIDs *)
Definition wf_cid (k : cid) : Prop :=
  wfb (c_mh k) /\ (c_ver k = 0%N -> exists r, c_mh k = 18%N :: r).
Definition wf_cids (ops : list op) : Prop := Forall (fun o => Forall wf_cid (cids_of o)) ops.

Lemma wf_cids_wf_ops : forall ops, wf_cids ops -> wf_ops ops.
Proof.
  intros ops H. unfold wf_cids, wf_ops, wf_op in *. eapply Forall_impl; [|exact H].
  intros o Ho. eapply Forall_impl; [|exact Ho]. intros k [Hk _]. exact Hk.
Qed.

(** a multihash that is not an identity multihash *)
Definition nonid (m : bytes) : Prop := extract (Cid 1 0 m) = None.

Lemma extract_v1 : forall k, c_ver k <> 0%N -> extract k = extract (Cid 1 0 (c_mh k)).
Proof.
  intros k Hv. unfold extract. cbn [c_ver c_mh]. destruct (N.eqb_spec (c_ver k) 0); [contradiction|]. reflexivity.
Qed.

Lemma extract_v0 : forall k, c_ver k = 0%N -> extract k = None.
Proof. intros k Hv. unfold extract. now rewrite Hv. Qed.

Lemma nonid_sha : forall r, nonid (18%N :: r).
Proof. intros r. unfold nonid, extract, uvarint. cbn. reflexivity. Qed.

Lemma nonid_of : forall k, wf_cid k -> is_id k = false -> nonid (c_mh k).
Proof.
  intros k [_ Hv0] Hid. destruct (N.eq_dec (c_ver k) 0) as [Hv|Hv].
  - destruct (Hv0 Hv) as [r ->]. apply nonid_sha.
  - unfold nonid. rewrite <- extract_v1 by assumption. unfold is_id in Hid. now destruct (extract k).
Qed.

Lemma id_not_nonid : forall k, is_id k = true -> ~ nonid (c_mh k).
Proof.
  intros k Hid Hn. unfold is_id in Hid. destruct (N.eq_dec (c_ver k) 0) as [Hv|Hv].
  - now rewrite extract_v0 in Hid.
  - rewrite extract_v1 in Hid by assumption. unfold nonid in Hn. now rewrite Hn in Hid.
Qed.

(** identity CIDs with the same multihash are interchangeable for well-formed CIDs *)
Definition alias (k1 k2 : cid) : Prop := c_mh k1 = c_mh k2 /\ extract k1 = extract k2.

Lemma alias_wf : forall k1 k2, wf_cid k1 -> wf_cid k2 -> c_mh k1 = c_mh k2 -> alias k1 k2.
Proof.
  intros k1 k2 [_ H1] [_ H2] E. split; [exact E|].
  destruct (N.eq_dec (c_ver k1) 0) as [V1|V1]; destruct (N.eq_dec (c_ver k2) 0) as [V2|V2].
  - now rewrite !extract_v0.
  - rewrite extract_v0 by assumption. rewrite extract_v1 by assumption. rewrite <- E.
    destruct (H1 V1) as [r ->]. symmetry. apply nonid_sha.
  - rewrite (extract_v0 k2) by assumption. rewrite extract_v1 by assumption. rewrite E.
    destruct (H2 V2) as [r ->]. apply nonid_sha.
  - rewrite (extract_v1 k1), (extract_v1 k2) by assumption. now rewrite E.
Qed.

Theorem identity_present : forall c s k d, f_id c = true -> extract k = Some d ->
  step c s (OHas k) = (s, BHas ROk true, []) /\
  step c s (OGet k) = (s, BData ROk d, []) /\
  step c s (OView k) = (s, BData ROk d, []) /\
  step c s (OGetSize k) = (s, BSize ROk (Z.of_nat (length d)), []) /\
  (forall x, step c s (OPut k x) = (s, BDone ROk, [])) /\
  step c s (ODelete k) = (s, BDone ROk, []).
Proof.
  intros c s k d Hid He. unfold step, g_step. rewrite Hid. cbn [id_step]. unfold is_id. rewrite He.
  repeat split; reflexivity.
Qed.

(** keys of writes *)
Definition wkey (w : wr) : option bytes :=
  match w with WPut x _ | WBPut x _ | WDel x => Some x | WCommit => None end.

Definition writes_P (P : bytes -> Prop) (ws : list wr) : Prop :=
  Forall (fun w => forall x, wkey w = Some x -> P x) ws.

Lemma fold_put_keys_P : forall (P : bytes -> Prop) (bl : list (cid * bytes)) a,
  Forall (fun b => P (c_mh (fst b))) bl -> Forall P (keys a) ->
  Forall P (keys (fold_left (fun s' b => st_put (idk (c_mh (fst b))) (snd b) s') bl a)).
Proof.
  intros P bl. induction bl as [|b bl IH]; intros a Hbl Ha; [exact Ha|]. cbn [fold_left].
  inversion Hbl; subst. apply IH; [assumption|]. apply keys_put_Forall; assumption.
Qed.

Lemma bs_step_P : forall (P : bytes -> Prop) wt a o,
  Forall (fun k => P (c_mh k)) (cids_of o) -> Forall P (keys a) ->
  Forall P (keys (fst (fst (bs_step idk unk wt a o)))) /\ writes_P P (snd (bs_step idk unk wt a o)).
Proof.
  intros P wt a o Ho Ha.
  assert (Hnil : writes_P P []) by constructor.
  destruct o as [k d|bl|k|k| |k|k|k| ]; cbn [bs_step cids_of] in *;
    try (split; [exact Ha|exact Hnil]);
    try (assert (Hk : P (c_mh k)) by (now inversion Ho)).
  - unfold bs_put, idk. destruct (negb wt && st_has (c_mh k) a); cbn [fst snd]; [split; assumption|].
    split; [now apply keys_put_Forall|]. constructor; [|constructor]. intros x Hx. cbn in Hx. congruence.
  - rewrite Forall_map in Ho. rewrite bs_putmany_cases.
    destruct bl as [|[k d] [|b2 r]].
    + cbn. split; [exact Ha|]. constructor; [|constructor]. intros x Hx. discriminate.
    + inversion Ho as [|? ? Hk _]; subst. cbn [fst] in Hk.
      unfold bs_put, idk. destruct (negb wt && st_has (c_mh k) a); cbn [fst snd]; [split; assumption|].
      split; [now apply keys_put_Forall|]. constructor; [|constructor]. intros x Hx. cbn in Hx. congruence.
    + unfold batch_of. cbn [fst snd]. set (bl := (k, d) :: b2 :: r) in *.
      set (batch := filter _ bl).
      assert (Hb : Forall (fun b : cid * bytes => P (c_mh (fst b))) batch) by (now apply filter_Forall).
      split; [now apply fold_put_keys_P|].
      unfold writes_P. apply Forall_app. split; [|constructor; [intros x Hx; discriminate|constructor]].
      rewrite Forall_map. eapply Forall_impl; [|exact Hb]. intros b Hb' x Hx. cbn in Hx. unfold idk in Hx. congruence.
  - unfold idk. split; [now apply keys_remove_Forall|]. constructor; [|constructor].
    intros x Hx. cbn in Hx. congruence.
Qed.

Lemma sh_step_P : forall (P : bytes -> Prop) wt idl a o,
  wf_op P o -> Forall P (keys a) ->
  Forall P (keys (fst (fst (sh_step wt idl a o)))) /\ writes_P P (snd (sh_step wt idl a o)).
Proof.
  intros P wt idl a o Ho Ha. unfold sh_step, g_step. destruct idl; [|now apply bs_step_P].
  assert (Hbs : forall o', wf_op P o' ->
     Forall P (keys (fst (fst (bs_step idk unk wt a o')))) /\
     writes_P P (snd (bs_step idk unk wt a o'))) by (intros o' Ho'; now apply bs_step_P).
  assert (Hnil : writes_P P []) by constructor.
  destruct o as [k0 d|bl|k0|k0| |k0|k0|k0| ]; cbn [id_step]; try (now apply Hbs).
  - destruct (is_id k0); [split; assumption|now apply Hbs].
  - apply Hbs. unfold wf_op in *. cbn [cids_of] in *. rewrite Forall_map in *. now apply filter_Forall.
  - destruct (is_id k0); [split; assumption|now apply Hbs].
  - destruct (extract k0); [split; assumption|now apply Hbs].
  - destruct (is_id k0); [split; assumption|now apply Hbs].
  - destruct (extract k0); [split; assumption|now apply Hbs].
  - destruct (extract k0); [split; assumption|now apply Hbs].
Qed.

Lemma sh_run_P : forall (P : bytes -> Prop) wt idl ops a,
  Forall (wf_op P) ops -> Forall P (keys a) ->
  Forall P (keys (fst (sh_run wt idl a ops))) /\
  Forall (fun bw => writes_P P (snd bw)) (snd (sh_run wt idl a ops)).
Proof.
  intros P wt idl ops. induction ops as [|o ops IH]; intros a Hops Ha; cbn [sh_run g_run].
  - split; [exact Ha|constructor].
  - inversion Hops as [|? ? Ho Hops']; subst.
    destruct (sh_step_P P wt idl a o Ho Ha) as [H1 H2]. unfold sh_run, sh_step in *. cbn [g_run].
    destruct (g_step idk unk wt idl a o) as [[a' b] w]. cbn [fst snd] in *.
    destruct (IH a' Hops' H1) as [H3 H4].
    destruct (g_run idk unk wt idl a' ops) as [a'' l]. cbn [fst snd] in *.
    split; [exact H3|]. constructor; [exact H2|exact H4].
Qed.

Lemma sh_step_nonid : forall wt a o, Forall wf_cid (cids_of o) -> Forall nonid (keys a) ->
  Forall nonid (keys (fst (fst (sh_step wt true a o)))) /\ writes_P nonid (snd (sh_step wt true a o)).
Proof.
  intros wt a o Ho Ha. unfold sh_step, g_step.
  assert (Hnil : writes_P nonid []) by constructor.
  assert (Hbs : forall o', Forall wf_cid (cids_of o') -> Forall (fun k => is_id k = false) (cids_of o') ->
            Forall nonid (keys (fst (fst (bs_step idk unk wt a o')))) /\ writes_P nonid (snd (bs_step idk unk wt a o'))).
  { intros o' H1 H2. apply bs_step_P; [|exact Ha]. rewrite Forall_forall in *. intros k Hk.
    apply nonid_of; [now apply H1|now apply H2]. }
  destruct o as [k d|bl|k|k| |k|k|k| ]; cbn [id_step];
    try (apply Hbs; [exact Ho|constructor]).
  - destruct (is_id k) eqn:E; [split; assumption|]. apply Hbs; [exact Ho|]. cbn. now constructor.
  - apply Hbs; cbn [cids_of] in *; rewrite Forall_map in *.
    + now apply filter_Forall.
    + clear. induction bl as [|b bl IH]; cbn [filter]; [constructor|].
      destruct (is_id (fst b)) eqn:E; cbn [negb]; [exact IH|]. now constructor.
  - destruct (is_id k) eqn:E; [split; assumption|]. apply Hbs; [exact Ho|]. cbn. now constructor.
  - destruct (extract k) eqn:E; [split; assumption|]. apply Hbs; [exact Ho|]. cbn. constructor; [|constructor].
    unfold is_id. now rewrite E.
  - destruct (is_id k) eqn:E; [split; assumption|]. apply Hbs; [exact Ho|]. cbn. now constructor.
  - destruct (extract k) eqn:E; [split; assumption|]. apply Hbs; [exact Ho|]. cbn. constructor; [|constructor].
    unfold is_id. now rewrite E.
  - destruct (extract k) eqn:E; [split; assumption|]. apply Hbs; [exact Ho|]. cbn. constructor; [|constructor].
    unfold is_id. now rewrite E.
Qed.

Lemma sh_run_nonid : forall wt ops a, wf_cids ops -> Forall nonid (keys a) ->
  Forall nonid (keys (fst (sh_run wt true a ops))) /\
  Forall (fun bw => writes_P nonid (snd bw)) (snd (sh_run wt true a ops)).
Proof.
  intros wt ops. induction ops as [|o ops IH]; intros a Hops Ha; cbn [sh_run g_run].
  - split; [exact Ha|constructor].
  - inversion Hops as [|? ? Ho Hops']; subst.
    destruct (sh_step_nonid wt a o Ho Ha) as [H1 H2]. unfold sh_run, sh_step in *. cbn [g_run].
    destruct (g_step idk unk wt true a o) as [[a' b] w]. cbn [fst snd] in *.
    destruct (IH a' Hops' H1) as [H3 H4].
    destruct (g_run idk unk wt true a' ops) as [a'' l]. cbn [fst snd] in *.
    split; [exact H3|]. constructor; [exact H2|exact H4].
Qed.

Lemma keys_mapk : forall K a, keys (mapk K a) = map K (keys a).
Proof. intros K a. unfold keys, mapk. rewrite !map_map. reflexivity. Qed.

Theorem identity_never_written : forall c ops, f_id c = true -> wf_cids ops ->
  forall k, wf_cid k -> is_id k = true ->
    st_has (dskey c (c_mh k)) (fst (run c [] ops)) = false /\
    Forall (fun bw => Forall (fun w => wkey w <> Some (dskey c (c_mh k))) (snd bw)) (snd (run c [] ops)).
Proof.
  intros c ops Hid Hops k Hk Hkid.
  destruct (run_shadow c ops (wf_cids_wf_ops ops Hops)) as [E W]. rewrite E, Hid in *. cbn [fst snd].
  destruct (sh_run_nonid (f_wt c) ops [] Hops ltac:(constructor)) as [N1 N2].
  set (a' := fst (sh_run (f_wt c) true [] ops)) in *.
  set (obs := snd (sh_run (f_wt c) true [] ops)) in *.
  destruct Hk as [Hkb _].
  assert (Hcontra : forall m, wfb m -> nonid m -> dskey c m <> dskey c (c_mh k)).
  { intros m Hm Hn Heq. apply dskey_inj in Heq; try assumption. subst m. now apply (id_not_nonid k). }
  split.
  - destruct (st_has (dskey c (c_mh k)) (mapk (dskey c) a')) eqn:Eh; [|reflexivity]. exfalso.
    apply st_has_true_keys in Eh. rewrite keys_mapk in Eh. apply in_map_iff in Eh.
    destruct Eh as (m & Heq & Hin). rewrite Forall_forall in W, N1. now apply (Hcontra m (W _ Hin) (N1 _ Hin)).
  - (* writes: keys of the shadow writes are non-identity multihashes of the history *)
    unfold lift_obs. rewrite Forall_map. cbn [snd].
    assert (Wobs : Forall (fun bw : ob * list wr => writes_P wfb (snd bw)) obs).
    { subst obs. apply sh_run_P; [now apply wf_cids_wf_ops|constructor]. }
    rewrite Forall_forall in *. intros bw Hbw. specialize (N2 bw Hbw). specialize (Wobs bw Hbw).
    unfold writes_P in *. rewrite Forall_map. rewrite Forall_forall in *. intros w Hw Heq.
    specialize (N2 w Hw). specialize (Wobs w Hw).
    destruct w as [x v|x|x v| ]; cbn [wrk wkey] in *; try discriminate;
      injection Heq as Heq; apply (Hcontra x); auto.
Qed.

(** * key enumeration *)
Lemma fold_put_nodup : forall (bl : list (cid * bytes)) a, NoDup (keys a) ->
  NoDup (keys (fold_left (fun s' b => st_put (idk (c_mh (fst b))) (snd b) s') bl a)).
Proof.
  induction bl as [|b bl IH]; intros a Ha; [exact Ha|]. cbn [fold_left]. apply IH. now apply NoDup_keys_put.
Qed.

Lemma bs_step_nodup : forall wt a o, NoDup (keys a) -> NoDup (keys (fst (fst (bs_step idk unk wt a o)))).
Proof.
  intros wt a o Ha. destruct o as [k d|bl|k|k| |k|k|k| ]; cbn [bs_step fst]; try exact Ha.
  - unfold bs_put. destruct (negb wt && st_has (idk (c_mh k)) a); cbn [fst]; [exact Ha|now apply NoDup_keys_put].
  - rewrite bs_putmany_cases. destruct bl as [|[k d] [|b2 r]].
    + exact Ha.
    + unfold bs_put. destruct (negb wt && st_has (idk (c_mh k)) a); cbn [fst]; [exact Ha|now apply NoDup_keys_put].
    + unfold batch_of. cbn [fst]. now apply fold_put_nodup.
  - now apply NoDup_keys_remove.
Qed.

Lemma sh_run_nodup : forall wt idl ops a, NoDup (keys a) -> NoDup (keys (fst (sh_run wt idl a ops))).
Proof.
  intros wt idl ops. induction ops as [|o ops IH]; intros a Ha; cbn [sh_run g_run]; [exact Ha|].
  assert (H1 : NoDup (keys (fst (fst (sh_step wt idl a o))))).
  { unfold sh_step, g_step. destruct idl; [|now apply bs_step_nodup].
    destruct o as [k d|bl|k|k| |k|k|k| ]; cbn [id_step]; try (now apply bs_step_nodup).
    - destruct (is_id k); [exact Ha|now apply bs_step_nodup].
    - destruct (is_id k); [exact Ha|now apply bs_step_nodup].
    - destruct (extract k); [exact Ha|now apply bs_step_nodup].
    - destruct (is_id k); [exact Ha|now apply bs_step_nodup].
    - destruct (extract k); [exact Ha|now apply bs_step_nodup].
    - destruct (extract k); [exact Ha|now apply bs_step_nodup]. }
  unfold sh_run, sh_step in *. destruct (g_step idk unk wt idl a o) as [[a' b] w]. cbn [fst] in *.
  specialize (IH a' H1). destruct (g_run idk unk wt idl a' ops) as [a'' l]. exact IH.
Qed.

Lemma v1raw_inj : forall m1 m2, v1raw m1 = v1raw m2 -> m1 = m2.
Proof. intros m1 m2 H. unfold v1raw in H. now injection H. Qed.

Lemma NoDup_map_inj : forall (f : bytes -> bytes) l, (forall a b, f a = f b -> a = b) -> NoDup l -> NoDup (map f l).
Proof.
  intros f l Hf H. induction H as [|x l Hx H IH]; cbn [map]; constructor; [|exact IH].
  intros Hin. apply in_map_iff in Hin. destruct Hin as (y & Hy & Hin). apply Hf in Hy. now subst.
Qed.

Theorem allkeys_spec : forall c ops, wf_ops ops ->
  let s' := fst (run c [] ops) in
  exists ks, snd (fst (step c s' OAllKeys)) = BKeys ROk ks /\ NoDup ks /\
    (forall x, In x ks -> exists m, x = v1raw m /\ wfb m /\ st_has (dskey c m) s' = true) /\
    (forall m, wfb m -> st_has (dskey c m) s' = true -> In (v1raw m) ks).
Proof.
  intros c ops Hops. cbv zeta. destruct (run_shadow c ops Hops) as [E W]. rewrite E. cbn [fst].
  set (a' := fst (sh_run (f_wt c) (f_id c) [] ops)) in *.
  assert (Hnd : NoDup (keys a')) by (apply sh_run_nodup; constructor).
  exists (map v1raw (keys a')).
  assert (Hstep : snd (fst (step c (mapk (dskey c) a') OAllKeys)) = BKeys ROk (map v1raw (keys a'))).
  { unfold step, g_step. destruct (f_id c); cbn [id_step bs_step fst snd]; unfold bs_allkeys;
      (rewrite (unkey_mapk (dskey c) (key_to_mh c) wfb);
       [now rewrite filter_map_unk|intros m Hm; now apply key_to_mh_dskey|exact W]). }
  split; [exact Hstep|]. split; [apply NoDup_map_inj; [exact v1raw_inj|exact Hnd]|]. split.
  - intros x Hx. apply in_map_iff in Hx. destruct Hx as (m & <- & Hin). exists m.
    assert (Hm : wfb m) by (rewrite Forall_forall in W; now apply W).
    repeat split; [exact Hm|]. rewrite (has_mapk (dskey c) wfb); [|intros; now apply (dskey_inj c)|exact Hm|exact W].
    now apply st_has_true_keys.
  - intros m Hm Hh. apply in_map. apply st_has_true_keys.
    rewrite (has_mapk (dskey c) wfb) in Hh; [exact Hh|intros; now apply (dskey_inj c)|exact Hm|exact W].
Qed.

(** * aliases: only the multihash (and identity-ness) of a CID matters *)
Inductive op_alias : op -> op -> Prop :=
| AlPut k1 k2 d : alias k1 k2 -> op_alias (OPut k1 d) (OPut k2 d)
| AlPutMany bl1 bl2 : Forall2 (fun b1 b2 => alias (fst b1) (fst b2) /\ snd b1 = snd b2) bl1 bl2 ->
    op_alias (OPutMany bl1) (OPutMany bl2)
| AlDelete k1 k2 : alias k1 k2 -> op_alias (ODelete k1) (ODelete k2)
| AlGet k1 k2 : alias k1 k2 -> op_alias (OGet k1) (OGet k2)
| AlGetUndef : op_alias OGetUndef OGetUndef
| AlHas k1 k2 : alias k1 k2 -> op_alias (OHas k1) (OHas k2)
| AlSize k1 k2 : alias k1 k2 -> op_alias (OGetSize k1) (OGetSize k2)
| AlView k1 k2 : alias k1 k2 -> op_alias (OView k1) (OView k2)
| AlAllKeys : op_alias OAllKeys OAllKeys.

Definition bl_alias := Forall2 (fun b1 b2 : cid * bytes => alias (fst b1) (fst b2) /\ snd b1 = snd b2).

Section Alias.
  Variable kf : bytes -> bytes.
  Variable unkey : bytes -> option bytes.
  Variable wt : bool.

  Lemma bs_put_alias : forall s k1 k2 d, alias k1 k2 -> bs_put kf wt s k1 d = bs_put kf wt s k2 d.
  Proof. intros s k1 k2 d [E _]. unfold bs_put. now rewrite E. Qed.

  Lemma batch_alias : forall s bl1 bl2, bl_alias bl1 bl2 -> batch_of wt kf s bl1 = batch_of wt kf s bl2.
  Proof.
    intros s bl1 bl2 H. unfold batch_of.
    assert (Hf : bl_alias (filter (fun b => wt || negb (st_has (kf (c_mh (fst b))) s)) bl1)
                          (filter (fun b => wt || negb (st_has (kf (c_mh (fst b))) s)) bl2)).
    { induction H as [|b1 b2 l1 l2 Hb H IH]; cbn [filter]; [constructor|].
      destruct Hb as [[Hm He] Hd].
      rewrite Hm. destruct (wt || negb (st_has (kf (c_mh (fst b2))) s)); [|exact IH].
      constructor; [|exact IH]. split; [split; assumption|assumption]. }
    clear H. set (f1 := filter _ bl1) in *. set (f2 := filter _ bl2) in *. clearbody f1 f2.
    f_equal; [f_equal|f_equal].
    - revert s. induction Hf as [|b1 b2 l1 l2 [[Hm _] Hd] H IH]; intros s; [reflexivity|].
      cbn [fold_left]. rewrite Hm, Hd. apply IH.
    - induction Hf as [|b1 b2 l1 l2 [[Hm _] Hd] H IH]; [reflexivity|]. cbn [map]. now rewrite Hm, Hd, IH.
  Qed.

  Lemma bs_putmany_alias : forall s bl1 bl2, bl_alias bl1 bl2 -> bs_putmany kf wt s bl1 = bs_putmany kf wt s bl2.
  Proof.
    intros s bl1 bl2 H. rewrite !bs_putmany_cases.
    pose proof (batch_alias s bl1 bl2 H) as Hb.
    destruct H as [|[k1 d1] [k2 d2] l1 l2 [Ha Hd] H]; [exact Hb|].
    destruct H as [|b1 b2 l1 l2 Hb12 H]; [|exact Hb].
    cbn [fst snd] in *. subst d2. now apply bs_put_alias.
  Qed.

  Lemma bs_step_alias : forall s o1 o2, op_alias o1 o2 -> bs_step kf unkey wt s o1 = bs_step kf unkey wt s o2.
  Proof.
    intros s o1 o2 H. destruct H as [k1 k2 d Ha|bl1 bl2 Hbl|k1 k2 Ha|k1 k2 Ha| |k1 k2 Ha|k1 k2 Ha|k1 k2 Ha| ];
      cbn [bs_step]; try reflexivity; try (unfold bs_get, bs_size; destruct Ha as [-> _]; reflexivity).
    - now apply bs_put_alias.
    - now apply bs_putmany_alias.
  Qed.

  Lemma is_id_alias : forall k1 k2, alias k1 k2 -> is_id k1 = is_id k2.
  Proof. intros k1 k2 [_ E]. unfold is_id. now rewrite E. Qed.

  Lemma g_step_alias : forall idl s o1 o2, op_alias o1 o2 ->
    g_step kf unkey wt idl s o1 = g_step kf unkey wt idl s o2.
  Proof.
    intros idl s o1 o2 H. unfold g_step. destruct idl; [|now apply bs_step_alias].
    pose proof (bs_step_alias s o1 o2 H) as Hbs.
    destruct H as [k1 k2 d Ha|bl1 bl2 Hbl|k1 k2 Ha|k1 k2 Ha| |k1 k2 Ha|k1 k2 Ha|k1 k2 Ha| ]; cbn [id_step];
      try exact Hbs;
      try (rewrite (is_id_alias k1 k2 Ha); destruct (is_id k2); [reflexivity|exact Hbs]);
      try (destruct Ha as [Hm He]; rewrite He; destruct (extract k2); [reflexivity|exact Hbs]).
    apply bs_step_alias. constructor. clear Hbs.
    induction Hbl as [|b1 b2 l1 l2 [Ha Hd] H IH]; cbn [filter]; [constructor|].
    rewrite (is_id_alias _ _ Ha). destruct (is_id (fst b2)); cbn [negb]; [exact IH|].
    constructor; [split; assumption|exact IH].
  Qed.

  Theorem g_run_alias : forall idl ops1 ops2 s, Forall2 op_alias ops1 ops2 ->
    g_run kf unkey wt idl s ops1 = g_run kf unkey wt idl s ops2.
  Proof.
    intros idl ops1 ops2 s H. revert s. induction H as [|o1 o2 l1 l2 Ho H IH]; intros s; [reflexivity|].
    cbn [g_run]. rewrite (g_step_alias idl s o1 o2 Ho).
    destruct (g_step kf unkey wt idl s o2) as [[s' b] w]. now rewrite IH.
  Qed.
End Alias.

Theorem run_alias : forall c s ops1 ops2, Forall2 op_alias ops1 ops2 -> run c s ops1 = run c s ops2.
Proof. intros c s ops1 ops2 H. unfold run. now apply g_run_alias. Qed.
