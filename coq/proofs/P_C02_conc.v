(** C02, concurrent part: invariants of the transition system of
    [model/M_C02.v] for ALL interleavings (all label sequences, including
    evictions at any time), first for the 2Q layer. *)
From Coq Require Import List ZArith Bool NArith Arith PeanoNat Lia.
From V Require Import lib.Verdict model.M_C02 proofs.P_C02_seq.
Import ListNotations.

(** ---------- thread table ---------- *)
Definition pcof (s : cst) (t : tid) : pc := t_pc (tget s t).

Lemma tget_upd h h' thr t th t' :
  tget (mkC h (cset t th thr)) t' = if t' =? t then th else tget (mkC h' thr) t'.
Proof.
  unfold tget. cbn [g_thr]. rewrite lookup_cset. now destruct (t' =? t).
Qed.

Lemma pcof_upd s h t th t' :
  pcof (mkC h (cset t th (g_thr s))) t' = if t' =? t then t_pc th else pcof s t'.
Proof.
  unfold pcof. rewrite (tget_upd h (g_sh s)). destruct s as [h0 thr]. cbn [g_sh g_thr].
  now destruct (t' =? t).
Qed.

Lemma lookup_none_dom {A} t (l : list (nat * A)) :
  lookup t l = None \/ In t (map fst l).
Proof.
  induction l as [|[x e] r IH]; cbn [lookup map fst]; [now left|].
  destruct (t =? x) eqn:He.
  - right. left. apply Nat.eqb_eq in He. now subst.
  - destruct IH; [now left | right; now right].
Qed.

Lemma tget_dom s t : tget s t = idle_thread \/ In t (tids s).
Proof.
  unfold tget, tids. destruct (lookup_none_dom t (g_thr s)) as [H|H]; [left; now rewrite H | now right].
Qed.

(** a guard of the form "every other thread satisfies [negb (f pc)]" *)
Lemma guard_spec (f : pc -> bool) s t :
  f PIdle = false ->
  forallb (fun t' => (t' =? t) || negb (f (t_pc (tget s t')))) (tids s) = true ->
  forall t', t' <> t -> f (pcof s t') = false.
Proof.
  intros Hidle H t' Hne. unfold pcof.
  destruct (tget_dom s t') as [Hi|Hin]; [now rewrite Hi|].
  rewrite forallb_forall in H. specialize (H _ Hin).
  apply Nat.eqb_neq in Hne. rewrite Hne in H. cbn in H. now apply negb_true_iff in H.
Qed.

Lemma can_lock_spec s t k w :
  can_lock s t k w = true ->
  forall t' w', t' <> t -> In (k, w') (held (pcof s t')) -> w = false /\ w' = false.
Proof.
  intros H t' w' Hne Hin.
  pose proof (guard_spec (fun p => existsb (conflicts k w) (held p)) s t eq_refl H t' Hne) as Hf.
  cbn beta in Hf.
  destruct (w || w') eqn:Hw.
  - exfalso. assert (existsb (conflicts k w) (held (pcof s t')) = true); [|congruence].
    apply existsb_exists. exists (k, w'). split; [assumption|].
    unfold conflicts. cbn [fst snd]. now rewrite Nat.eqb_refl, Hw.
  - now apply orb_false_iff in Hw.
Qed.

Lemma mu_free_spec s t : mu_free s t = true -> forall t', t' <> t -> holds_mu (pcof s t') = false.
Proof. intros H. exact (guard_spec holds_mu s t eq_refl H). Qed.

Lemma no_window_spec s t :
  no_put_window s t = true -> forall t', t' <> t -> in_put_window (pcof s t') = false.
Proof. intros H. exact (guard_spec in_put_window s t eq_refl H). Qed.

Section Conc.
Variable cf : cfg.
Variable fl : flags.
Variable pos : key -> N.
Variable sz : key -> Z.

Notation tstep1 := (tstep1 cf fl pos sz).
Notation tstep := (tstep cf fl pos sz).
Notation lstep := (lstep cf fl pos sz).
Notation lrun := (lrun cf fl pos sz).

Lemma tstep_inv s t s' :
  tstep s t = Some s' ->
  exists h th', tstep1 s t (tget s t) = Some (h, th') /\ s' = mkC h (cset t th' (g_thr s)).
Proof.
  unfold M_C02.tstep. destruct (M_C02.tstep1 cf fl pos sz s t (tget s t)) as [[h th']|]; [|discriminate].
  intros [= <-]. eauto.
Qed.

(** case analysis of one thread step: destructs every [match] / [if] of [tstep1] *)
Ltac step_cases H :=
  unfold M_C02.tstep1 in H; cbn [t_pc t_ops t_res] in H;
  repeat (match type of H with
          | context [match ?x with _ => _ end] =>
              let E := fresh "E" in destruct x eqn:E; try discriminate H
          end);
  try discriminate H;
  injection H as <- <-.

(** ================================================================== *)
(** * The 2Q layer: lock exclusion, store outcomes, cache soundness *)

Definition wf_pc (p : pc) : Prop :=
  match p with MUpd _ good todo => incl todo good | _ => True end.

(** what a thread that has performed its store call knows about the store *)
Definition out_ok (store : list key) (a : sk) (k : key) (o : bool) : Prop :=
  match a with
  | SKRead _ => o = mem k store
  | SKPut _ => o = true -> mem k store = true
  | SKDel _ => o = true -> mem k store = false
  end.

Definition knows (store : list key) (p : pc) : Prop :=
  match p with
  | SPost a k o | TUpd a k o => out_ok store a k o
  | MSPost _ good true | MUpd _ good _ => forall k, In k good -> mem k store = true
  | _ => True
  end.

(** the store entry of [k] has been written under the write lock and the cache
    entry of [k] is still to be updated by this thread *)
Definition wwin (p : pc) (k : key) : Prop :=
  match p with
  | SPost a k' _ | TUpd a k' _ => is_write a = true /\ k' = k
  | MSPost _ good true => In k good
  | MUpd _ _ todo => In k todo
  | _ => False
  end.

Definition excl (s : cst) : Prop :=
  forall t1 t2 k w1 w2, t1 <> t2 ->
    In (k, w1) (held (pcof s t1)) -> In (k, w2) (held (pcof s t2)) -> w1 = false /\ w2 = false.

Definition cache_ok (s : cst) : Prop :=
  forall k e, lookup k (g_cache (g_sh s)) = Some e ->
    agrees sz (g_store (g_sh s)) k e \/ exists t, wwin (pcof s t) k.

Record TQInv (s : cst) : Prop := {
  tq_excl : excl s;
  tq_knows : forall t, knows (g_store (g_sh s)) (pcof s t);
  tq_cache : cache_ok s;
  tq_wf : forall t, wf_pc (pcof s t)
}.

(** pure facts about the store call and the cache update *)
Lemma sk_store_frame a k store k1 :
  mem k1 (fst (sk_store a k store)) = mem k1 store \/ (is_write a = true /\ k = k1).
Proof.
  destruct a as [rk|f|f]; cbn [sk_store fst is_write]; [now left| |].
  - destruct (mem k store); [now left|]. destruct f; [now left|]. cbn [fst].
    rewrite mem_insert. destruct (k1 =? k) eqn:He; [right | now left].
    apply Nat.eqb_eq in He. auto.
  - destruct (negb (mem k store)); [now left|]. destruct f; [now left|]. cbn [fst].
    rewrite mem_remove. destruct (k1 =? k) eqn:He; [right | now left].
    apply Nat.eqb_eq in He. auto.
Qed.

Lemma sk_store_ok a k store :
  out_ok (fst (sk_store a k store)) a k (snd (sk_store a k store)).
Proof.
  destruct a as [rk|f|f]; cbn [sk_store out_ok]; [reflexivity| |].
  - destruct (mem k store) eqn:Hm; [auto|]. destruct f; cbn [fst snd]; [discriminate|].
    intros _. now rewrite mem_insert, Nat.eqb_refl.
  - destruct (negb (mem k store)) eqn:Hm; cbn [fst snd].
    + intros _. now apply negb_true_iff in Hm.
    + destruct f; cbn [fst snd]; [discriminate|]. intros _. now rewrite mem_remove, Nat.eqb_refl.
Qed.

Lemma sk_upd_entries store a k o c k1 e :
  out_ok store a k o ->
  lookup k1 (sk_upd sz a k o c) = Some e ->
  (k1 <> k /\ lookup k1 c = Some e) \/ (k1 = k /\ agrees sz store k1 e).
Proof.
  intros Hok. destruct (Nat.eq_dec k1 k) as [->|Hne].
  - intros Hl. right. split; [reflexivity|].
    destruct a as [rk|f|f]; cbn [sk_upd out_ok] in *.
    + rewrite lookup_cset, Nat.eqb_refl in Hl. injection Hl as <-. subst o. apply read_upd_agrees.
    + destruct o.
      * rewrite lookup_cset, Nat.eqb_refl in Hl. injection Hl as <-. cbn. auto.
      * rewrite lookup_cdel, Nat.eqb_refl in Hl. discriminate.
    + destruct o.
      * rewrite lookup_cset, Nat.eqb_refl in Hl. injection Hl as <-. cbn. now rewrite Hok.
      * rewrite lookup_cdel, Nat.eqb_refl in Hl. discriminate.
  - intros Hl. left. split; [assumption|]. apply Nat.eqb_neq in Hne.
    destruct a as [rk|f|f]; cbn [sk_upd] in Hl; try destruct o;
      rewrite ?lookup_cset, ?lookup_cdel, Hne in Hl; exact Hl.
Qed.

(** one-step characterisation, proved by a single case analysis.  [th] is the
    local state of the stepping thread, [h'], [th'] the results. *)
Record step_facts (s : cst) (t : tid) (p p' : pc) (h h' : shared) : Prop := {
  sf_held : forall k w, In (k, w) (held p') -> In (k, w) (held p) \/ can_lock s t k w = true;
  sf_knows : wf_pc p -> knows (g_store h) p -> knows (g_store h') p';
  sf_wf : wf_pc p -> wf_pc p';
  (* the store changes only at keys this thread holds the write lock of, and opens a window there *)
  sf_store : forall k1, mem k1 (g_store h') = mem k1 (g_store h) \/ (In (k1, true) (held p) /\ wwin p' k1);
  (* every entry of the new cache is an old one or agrees with the new store *)
  sf_cache : wf_pc p -> knows (g_store h) p ->
             forall k1 e, lookup k1 (g_cache h') = Some e ->
                          lookup k1 (g_cache h) = Some e \/ agrees sz (g_store h') k1 e;
  (* a window closes only by writing an agreeing entry (or none) *)
  sf_win : wf_pc p -> knows (g_store h) p ->
           forall k1, wwin p k1 -> wwin p' k1 \/
                      (forall e, lookup k1 (g_cache h') = Some e -> agrees sz (g_store h') k1 e)
}.

Lemma mem_in k l : mem k l = true <-> In k l.
Proof. apply mem_true_iff. Qed.

Lemma step_char s t th h' th' :
  c_tq cf = true ->
  tstep1 s t th = Some (h', th') ->
  step_facts s t (t_pc th) (t_pc th') (g_sh s) h'.
Proof.
  intros Htq H.
  destruct th as [ops p res]. cbn [t_pc] in *.
  destruct p; step_cases H;
    unfold after_inner, after_many, start_op, enter, enter_inner, add_if_live, setpc, fin in *;
    try rewrite Htq in *; try discriminate.
  all: repeat match goal with
         | |- context [if ?b then _ else _] => destruct b
         | |- context [match ?a with SKRead _ => _ | _ => _ end] => destruct a
         | |- context [match ?r with ROk => _ | _ => _ end] => destruct r
         end.
  all: cbn [t_pc t_ops t_res].
  all: split; cbn [held wwin wf_pc knows g_store g_cache map sh_store sh_cache sh_filt sh_active sh_swap];
       try (intros; tauto); auto.
  all: try solve
    [ intros k0 w0 [[= <- <-]|[]]; right; assumption
    | intros k0 w0 Hin; left; right; exact Hin
    | intros k0 w0 Hin; rewrite map_app, in_app_iff in Hin; destruct Hin as [Hin|[[= <- <-]|[]]];
      [left; assumption | right; assumption]
    | intros _; apply incl_refl
    | intros Hi x Hx; apply Hi; now right
    | match goal with
      | E : sk_store ?a ?k ?st = (?l, ?b) |- _ -> _ -> out_ok _ _ _ _ =>
          intros _ _; pose proof (sk_store_ok a k st) as X; rewrite E in X; exact X
      | E : sk_store ?a ?k ?st = (?l, ?b) |- forall k1, _ \/ _ =>
          intros k1; pose proof (sk_store_frame a k st k1) as X; rewrite E in X; cbn [fst] in X;
          destruct X as [X|[X1 X2]]; [left; exact X | right; subst; rewrite X1; cbn; auto]
      | E : forallb _ _ = true |- _ =>
          intros _ _ k0 Hin; rewrite forallb_forall in E; apply E; exact Hin
      end
    | intros _ Hk k1 e Hl; destruct (sk_upd_entries _ _ _ _ _ _ _ Hk Hl) as [[_ X]|[_ X]]; auto
    | intros _ Hk k1 [_ <-]; right; intros e Hl;
      destruct (sk_upd_entries _ _ _ _ _ _ _ Hk Hl) as [[X _]|[_ X]]; [congruence | exact X]
    | intros _ _ k0 Hin; rewrite mem_fold_insert; apply mem_in in Hin; rewrite Hin; reflexivity
    | intros k1; rewrite mem_fold_insert; destruct (mem k1 good) eqn:Hm;
      [ right; apply mem_in in Hm; split; [apply in_map_iff; eauto | exact Hm] | left; reflexivity ]
    | intros Hi Hk k1 e Hl; rewrite lookup_cset in Hl; destruct (k1 =? k) eqn:He;
      [ right; apply Nat.eqb_eq in He; subst; injection Hl as <-; cbn; split;
        [apply Hk, Hi; now left | reflexivity]
      | left; exact Hl ]
    | intros Hi Hk k1 [<-|Hin];
      [ right; intros e Hl; rewrite lookup_cset, Nat.eqb_refl in Hl; injection Hl as <-; cbn; split;
        [apply Hk, Hi; now left | reflexivity]
      | left; exact Hin ] ].
Qed.

Lemma knows_frame store store' q :
  (forall k1 w, In (k1, w) (held q) -> mem k1 store' = mem k1 store) -> knows store q -> knows store' q.
Proof.
  intros Hf. destruct q; cbn [knows held] in *; auto.
  - unfold out_ok. rewrite (Hf k (is_write a) (or_introl eq_refl)). auto.
  - unfold out_ok. rewrite (Hf k (is_write a) (or_introl eq_refl)). auto.
  - destruct o; auto. intros Hk k Hin. rewrite (Hf k true); [now apply Hk|].
    apply in_map_iff. eauto.
  - intros Hk k Hin. rewrite (Hf k true); [now apply Hk|]. apply in_map_iff. eauto.
Qed.

Lemma tq_step s t s' : c_tq cf = true -> TQInv s -> tstep s t = Some s' -> TQInv s'.
Proof.
  intros Htq [Hx Hk Hc Hw] H. destruct (tstep_inv _ _ _ H) as (h & th' & H1 & ->).
  pose proof (step_char s t _ _ _ Htq H1) as [F1 F2 F3 F4 F5 F6].
  fold (pcof s t) in *.
  specialize (F2 (Hw t) (Hk t)). specialize (F3 (Hw t)).
  specialize (F5 (Hw t) (Hk t)). specialize (F6 (Hw t) (Hk t)).
  assert (Hpc : forall t1, pcof (mkC h (cset t th' (g_thr s))) t1 = if t1 =? t then t_pc th' else pcof s t1)
    by (intros; apply pcof_upd).
  split.
  - intros t1 t2 k w1 w2 Hne Hi1 Hi2. rewrite Hpc in Hi1, Hi2.
    destruct (t1 =? t) eqn:E1, (t2 =? t) eqn:E2.
    + apply Nat.eqb_eq in E1, E2. congruence.
    + apply Nat.eqb_eq in E1. subst t1. destruct (F1 _ _ Hi1) as [Hold|Hcl].
      * now apply (Hx t t2 k w1 w2).
      * apply (can_lock_spec _ _ _ _ Hcl t2 w2); auto.
    + apply Nat.eqb_eq in E2. subst t2. destruct (F1 _ _ Hi2) as [Hold|Hcl].
      * now apply (Hx t1 t k w1 w2).
      * destruct (can_lock_spec _ _ _ _ Hcl t1 w1); auto.
    + now apply (Hx t1 t2 k w1 w2).
  - intros t1. cbn [g_sh]. rewrite Hpc. destruct (t1 =? t) eqn:E1; [exact F2|].
    apply Nat.eqb_neq in E1.
    apply (knows_frame (g_store (g_sh s))); [|apply Hk].
    intros k1 w Hin. destruct (F4 k1) as [Heq|[Hheld _]]; [exact Heq|].
    exfalso. destruct (Hx t t1 k1 true w) as [Habs _]; auto. discriminate.
  - intros k e Hl. cbn [g_sh] in *. destruct (F5 k e Hl) as [Hold|Hag]; [|left; exact Hag].
    destruct (Hc k e Hold) as [Hag|[t1 Hwin]].
    + destruct (F4 k) as [Heq|[_ Hwin']].
      * left. eapply agrees_ext; eauto.
      * right. exists t. now rewrite Hpc, Nat.eqb_refl.
    + destruct (Nat.eq_dec t1 t) as [->|Hne].
      * destruct (F6 k Hwin) as [Hw'|Hag].
        -- right. exists t. now rewrite Hpc, Nat.eqb_refl.
        -- left. now apply Hag.
      * right. exists t1. rewrite Hpc. apply Nat.eqb_neq in Hne. now rewrite Hne.
  - intros t1. rewrite Hpc. destruct (t1 =? t); [exact F3 | apply Hw].
Qed.

Lemma tq_evict s k :
  TQInv s -> TQInv (mkC (sh_cache (g_sh s) (cdel k (g_cache (g_sh s)))) (g_thr s)).
Proof.
  intros [Hx Hk Hc Hw].
  assert (Hpc : forall t, pcof (mkC (sh_cache (g_sh s) (cdel k (g_cache (g_sh s)))) (g_thr s)) t = pcof s t)
    by reflexivity.
  split.
  - intros t1 t2. rewrite !Hpc. apply Hx.
  - intros t. rewrite Hpc. apply Hk.
  - intros k' e Hl. cbn in Hl. rewrite lookup_cdel in Hl. destruct (k' =? k); [discriminate|].
    destruct (Hc k' e Hl) as [Ha|[t Ht]]; [now left | right; exists t; now rewrite Hpc].
  - intros t. rewrite Hpc. apply Hw.
Qed.

Lemma tq_lstep s l s' : c_tq cf = true -> TQInv s -> lstep s l = Some s' -> TQInv s'.
Proof.
  intros Htq HI. destruct l as [t|k]; cbn [M_C02.lstep].
  - now apply tq_step.
  - intros [= <-]. now apply tq_evict.
Qed.

Lemma tq_lrun ls : forall s s', c_tq cf = true -> TQInv s -> lrun s ls = Some s' -> TQInv s'.
Proof.
  induction ls as [|l r IH]; intros s s' Htq HI; cbn [M_C02.lrun].
  - now intros [= <-].
  - destruct (M_C02.lstep cf fl pos sz s l) as [s1|] eqn:Hl; [|discriminate].
    intros Hr. apply (IH s1 s' Htq); [|exact Hr]. eapply tq_lstep; eauto.
Qed.

(** initial states *)
Lemma lookup_in_snd {A} t (l : list (nat * A)) x : lookup t l = Some x -> In x (map snd l).
Proof.
  induction l as [|[y e] r IH]; cbn [lookup map snd]; [discriminate|].
  destruct (t =? y); [intros [= <-]; now left | intros H; right; now apply IH].
Qed.

Lemma map_snd_combine {A} (l : list A) : map snd (combine (seq 0 (length l)) l) = l.
Proof.
  generalize 0. induction l as [|x r IH]; intros n; cbn; [reflexivity|]. now rewrite IH.
Qed.

Definition init_pc (p : pc) : Prop := p = PIdle \/ exists n c, p = RMu false n c.

Lemma cinit_pcs keys bn bc progs t : init_pc (pcof (cinit cf keys bn bc progs) t).
Proof.
  unfold pcof, tget. destruct (lookup t (g_thr (cinit cf keys bn bc progs))) as [x|] eqn:Hl; [|now left].
  apply lookup_in_snd in Hl. unfold cinit in Hl. cbn [g_thr] in Hl. rewrite map_snd_combine in Hl.
  destruct (c_bloom cf).
  - destruct Hl as [Hx|Hin].
    + subst x. right. do 2 eexists. reflexivity.
    + apply in_map_iff in Hin. destruct Hin as (pr & Hpr & _). subst x. now left.
  - apply in_map_iff in Hl. destruct Hl as (pr & Hpr & _). subst x. now left.
Qed.

Lemma tq_init keys bn bc progs : TQInv (cinit cf keys bn bc progs).
Proof.
  split.
  - intros t1 t2 k w1 w2 _ Hi. destruct (cinit_pcs keys bn bc progs t1) as [E|(n & c & E)];
      rewrite E in Hi; destruct Hi.
  - intros t. destruct (cinit_pcs keys bn bc progs t) as [E|(n & c & E)]; rewrite E; exact I.
  - intros k e Hl. discriminate.
  - intros t. destruct (cinit_pcs keys bn bc progs t) as [E|(n & c & E)]; rewrite E; exact I.
Qed.

(** Every reachable state of the 2Q layer, for every interleaving and every
    eviction: locks exclude each other, and every cached entry agrees with the
    store unless a writer holding that key's write lock is between its store
    call and its cache update. *)
Theorem tq_reachable keys bn bc progs ls s :
  c_tq cf = true -> lrun (cinit cf keys bn bc progs) ls = Some s -> TQInv s.
Proof. intros Htq. apply tq_lrun; [assumption | apply tq_init]. Qed.

End Conc.
