(** C11 — families of nodes related by Copy / UpdateNodeLink: the cache model of
    every node answers like the specification, in which a node's links, encoding
    and CID depend only on the operations applied to that node. *)
From Coq Require Import List ZArith Bool Lia.
From V Require Import lib.Verdict lib.C11_DagPb model.M_C11 proofs.P_C11.
Import ListNotations.
Open Scope Z_scope.

Definition mtarget (m : mop) : nat * op :=
  match m with
  | MOp i o => (i, o)
  | MFork i => (i, OCopy)
  | MForkUpdate i n s c => (i, OUpdate n s c)
  end.

Definition azero := astep (fun _ _ => 0).

(** what Go's types guarantee about a family history (see [op_ok]) *)
Fixpoint mhist_ok (st : list anode) (ms : list mop) : Prop :=
  match ms with
  | [] => True
  | m :: r =>
      match nth_error st (fst (mtarget m)) with
      | Some a => op_ok a (snd (mtarget m))
      | None => True
      end /\ mhist_ok (fst (gmstep azero st m)) r
  end.

Lemma astep_ob_H : forall H a n s c,
  snd (astep H a (OUpdate n s c)) = snd (azero a (OUpdate n s c)).
Proof. intros. unfold azero. cbn [astep]. destruct (link_ok _); reflexivity. Qed.

Lemma gmstep_state : forall H st m, fst (gmstep (astep H) st m) = fst (gmstep azero st m).
Proof.
  intros H st m. unfold azero. destruct m as [i o|i|i n s c]; cbn [gmstep];
    destruct (nth_error st i) as [a|]; try reflexivity.
  - pose proof (astep_state H a o) as E1. pose proof (astep_state (fun _ _ => 0) a o) as E2.
    destruct (astep H a o) as [a1 b1]. destruct (astep (fun _ _ => 0) a o) as [a2 b2].
    cbn [fst] in *. congruence.
Qed.

Section Multi.
Variable H : Z -> bytes -> Z.

Definition Rel (ns : list node) (sts : list anode) : Prop :=
  Forall2 (fun n a => R H n a /\ links_ok a) ns sts.

Lemma Rel_nth : forall ns sts i, Rel ns sts ->
  match nth_error ns i, nth_error sts i with
  | Some n, Some a => R H n a /\ links_ok a
  | None, None => True
  | _, _ => False
  end.
Proof.
  intros ns sts i F. revert i. induction F as [|n a ns sts Hna F IH]; intros [|i]; cbn [nth_error]; auto.
  apply IH.
Qed.

Lemma Rel_upd : forall ns sts i n a, Rel ns sts -> R H n a -> links_ok a ->
  Rel (upd_nth i n ns) (upd_nth i a sts).
Proof.
  intros ns sts i n a F HR L. revert i. induction F as [|n0 a0 ns sts Hna F IH]; intros [|i]; cbn [upd_nth].
  - constructor.
  - constructor.
  - constructor; [split; assumption| exact F].
  - constructor; [exact Hna| apply IH].
Qed.

Lemma Rel_app1 : forall ns sts n a, Rel ns sts -> R H n a -> links_ok a -> Rel (ns ++ [n]) (sts ++ [a]).
Proof.
  intros ns sts n a F HR L. apply Forall2_app; [exact F|]. constructor; [split; assumption| constructor].
Qed.

Lemma mstep_refines : forall ns sts m, Rel ns sts ->
  match nth_error sts (fst (mtarget m)) with
  | Some a => op_ok a (snd (mtarget m))
  | None => True
  end ->
  snd (gmstep (step flags_off H) ns m) = snd (gmstep (astep H) sts m) /\
  Rel (fst (gmstep (step flags_off H) ns m)) (fst (gmstep (astep H) sts m)).
Proof.
  intros ns sts m F Hop.
  assert (T : forall i o,
    match nth_error sts i with Some a => op_ok a o | None => True end ->
    match nth_error ns i, nth_error sts i with
    | Some n, Some a =>
        snd (step flags_off H n o) = snd (astep H a o) /\
        R H (fst (step flags_off H n o)) (fst (astep H a o)) /\ links_ok (fst (astep H a o))
    | None, None => True
    | _, _ => False
    end).
  { intros i o Ho. pose proof (Rel_nth ns sts i F) as N.
    destruct (nth_error ns i) as [n|]; destruct (nth_error sts i) as [a|]; try exact N.
    destruct N as [HR L]. apply step_refines; assumption. }
  destruct m as [i o|i|i nm sz c]; cbn [mtarget fst snd] in Hop; cbn [gmstep];
    specialize (T i _ Hop);
    destruct (nth_error ns i) as [n|]; destruct (nth_error sts i) as [a|]; try contradiction;
    try (split; [reflexivity| exact F]).
  - destruct (step flags_off H n o) as [n' b]. destruct (astep H a o) as [a' b'].
    cbn [fst snd] in *. destruct T as (-> & HR & L). split; [reflexivity|]. apply Rel_upd; assumption.
  - destruct (step flags_off H n OCopy) as [n' b]. destruct (astep H a OCopy) as [a' b'].
    cbn [fst snd] in *. destruct T as (-> & HR & L). split; [reflexivity|]. apply Rel_app1; assumption.
  - destruct (step flags_off H n (OUpdate nm sz c)) as [n' b].
    destruct (astep H a (OUpdate nm sz c)) as [a' b'].
    cbn [fst snd] in *. destruct T as (-> & HR & L).
    destruct b'; cbn [fst snd]; (split; [reflexivity|]); try exact F.
    apply Rel_app1; assumption.
Qed.

Lemma mrun_refines_gen : forall ms ns sts, Rel ns sts -> mhist_ok sts ms ->
  snd (gmrun (step flags_off H) ns ms) = snd (gmrun (astep H) sts ms).
Proof.
  induction ms as [|m r IH]; intros ns sts F Hh; [reflexivity|].
  cbn [mhist_ok] in Hh. destruct Hh as [Ho Hr].
  destruct (mstep_refines ns sts m F Ho) as [Eo F'].
  rewrite <- (gmstep_state H) in Hr.
  cbn [gmrun].
  destruct (gmstep (step flags_off H) ns m) as [ns' b].
  destruct (gmstep (astep H) sts m) as [sts' b']. cbn [fst snd] in *.
  specialize (IH ns' sts' F' Hr).
  destruct (gmrun (step flags_off H) ns' r) as [x bs]. destruct (gmrun (astep H) sts' r) as [y bs'].
  cbn [snd] in *. subst. reflexivity.
Qed.

Lemma multi_refines : forall d0 ms, mhist_ok [afresh d0] ms ->
  snd (gmrun (step flags_off H) [fresh d0] ms) = snd (gmrun (astep H) [afresh d0] ms).
Proof.
  intros d0 ms Hh. apply mrun_refines_gen; [|exact Hh].
  constructor; [split; [apply R_fresh| apply links_ok_fresh]| constructor].
Qed.
End Multi.

(** operations on one node never change what another node answers (specification side,
    hence by [multi_refines] also the cache model): an op on node i leaves every
    other abstract node as it was *)
Lemma nth_upd_other : forall {A} (l : list A) i j x, i <> j -> nth_error (upd_nth i x l) j = nth_error l j.
Proof.
  induction l as [|y r IH]; intros [|i] [|j] x Hij; cbn [upd_nth nth_error]; try reflexivity; try congruence.
  apply IH. congruence.
Qed.

Lemma family_independent : forall H sts m j,
  j <> fst (mtarget m) -> (j < length sts)%nat ->
  nth_error (fst (gmstep (astep H) sts m)) j = nth_error sts j.
Proof.
  intros H sts m j Hj Hlt. destruct m as [i o|i|i nm sz c]; cbn [mtarget fst] in Hj; cbn [gmstep];
    destruct (nth_error sts i) as [a|]; try reflexivity.
  - destruct (astep H a o) as [a' b]. cbn [fst]. apply nth_upd_other. congruence.
  - destruct (astep H a OCopy) as [a' b]. cbn [fst]. apply nth_error_app1. exact Hlt.
  - destruct (astep H a (OUpdate nm sz c)) as [a' b]. destruct b; cbn [fst]; try reflexivity.
    apply nth_error_app1. exact Hlt.
Qed.
