(** C10 — proofs: the buffering machinery of DagModifier (flags off) refines the
    byte-array file. *)
From Coq Require Import List ZArith Bool NArith Lia ZifyBool.
From V Require Import lib.Verdict model.M_C10.
Import ListNotations.
Open Scope Z_scope.

Arguments Z.mul : simpl never.
Arguments Z.add : simpl never.
Arguments Z.sub : simpl never.
Arguments Z.modulo : simpl never.
Arguments Z.to_nat : simpl never.
Arguments Z.of_nat : simpl never.

(** ---------- byte strings by length and pointwise content ---------- *)
Lemma len_nonneg {A} (l : list A) : 0 <= len l.
Proof. unfold len. lia. Qed.

Lemma len_nil : len (@nil Z) = 0.
Proof. reflexivity. Qed.

Lemma len_app {A} (a b : list A) : len (a ++ b) = len a + len b.
Proof. unfold len. rewrite app_length. lia. Qed.

Lemma len_takeZ {A} n (l : list A) : len (takeZ n l) = Z.min (Z.max 0 n) (len l).
Proof. unfold len, takeZ. rewrite firstn_length. lia. Qed.

Lemma len_dropZ {A} n (l : list A) : len (dropZ n l) = len l - Z.min (Z.max 0 n) (len l).
Proof. unfold len, dropZ. rewrite skipn_length. lia. Qed.

Lemma len_zeros n : len (zeros n) = Z.max 0 n.
Proof. unfold len, zeros. rewrite repeat_length. lia. Qed.

Lemma getZ_nil i : getZ [] i = 0.
Proof. unfold getZ. destruct (i <? 0); [reflexivity|]. destruct (Z.to_nat i); reflexivity. Qed.

Lemma getZ_beyond l i : len l <= i -> getZ l i = 0.
Proof.
  intros H. unfold getZ. destruct (i <? 0) eqn:E; [reflexivity|].
  apply nth_overflow. unfold len in H. lia.
Qed.

Lemma getZ_neg l i : i < 0 -> getZ l i = 0.
Proof. intros H. unfold getZ. destruct (i <? 0) eqn:E; [reflexivity|lia]. Qed.

Lemma getZ_app a b i : getZ (a ++ b) i = if i <? len a then getZ a i else getZ b (i - len a).
Proof.
  unfold getZ, len. destruct (i <? 0) eqn:E.
  - destruct (i <? Z.of_nat (length a)) eqn:E1; [reflexivity|].
    destruct (i - Z.of_nat (length a) <? 0) eqn:E2; [reflexivity|lia].
  - destruct (i <? Z.of_nat (length a)) eqn:E1.
    + apply app_nth1. lia.
    + destruct (i - Z.of_nat (length a) <? 0) eqn:E2; [lia|].
      rewrite app_nth2 by lia. f_equal. lia.
Qed.

Lemma nth_firstn_lt {A} (d : A) : forall n i (l : list A), (i < n)%nat -> nth i (firstn n l) d = nth i l d.
Proof.
  induction n as [|n IH]; intros i l H; [lia|].
  destruct l as [|x l]; [reflexivity|]. destruct i as [|i]; [reflexivity|].
  cbn [firstn nth]. apply IH. lia.
Qed.

Lemma getZ_takeZ n l i : getZ (takeZ n l) i = if i <? n then getZ l i else 0.
Proof.
  unfold getZ, takeZ. destruct (i <? 0) eqn:E.
  - destruct (i <? n); reflexivity.
  - destruct (i <? n) eqn:E1.
    + apply nth_firstn_lt. lia.
    + apply nth_overflow. rewrite firstn_length. lia.
Qed.

Lemma nth_skipn {A} (d : A) : forall n i (l : list A), nth i (skipn n l) d = nth (n + i) l d.
Proof.
  induction n as [|n IH]; intros i l; [reflexivity|].
  destruct l as [|x l]; [destruct i; reflexivity|]. cbn [skipn plus nth]. apply IH.
Qed.

Lemma getZ_dropZ n l i : getZ (dropZ n l) i = if i <? 0 then 0 else getZ l (i + Z.max 0 n).
Proof.
  unfold getZ, dropZ. destruct (i <? 0) eqn:E; [reflexivity|].
  destruct (i + Z.max 0 n <? 0) eqn:E1; [lia|].
  rewrite nth_skipn. f_equal. lia.
Qed.

Lemma getZ_zeros n i : getZ (zeros n) i = 0.
Proof.
  unfold getZ, zeros. destruct (i <? 0); [reflexivity|].
  destruct (Nat.lt_ge_cases (Z.to_nat i) (Z.to_nat n)) as [H|H].
  - apply nth_repeat.
  - apply nth_overflow. rewrite repeat_length. exact H.
Qed.

Lemma list_ext (a b : list Z) :
  len a = len b -> (forall i, 0 <= i < len a -> getZ a i = getZ b i) -> a = b.
Proof.
  revert b. induction a as [|x a IH]; intros b Hl Hg.
  - destruct b; [reflexivity|]. unfold len in Hl. cbn [length] in Hl. lia.
  - destruct b as [|y b]; [unfold len in Hl; cbn [length] in Hl; lia|].
    f_equal.
    + specialize (Hg 0). unfold getZ in Hg. cbn in Hg. apply Hg. unfold len. cbn [length]. lia.
    + apply IH.
      * unfold len in *. cbn [length] in Hl. lia.
      * intros i Hi. specialize (Hg (i + 1)).
        unfold getZ in *. destruct (i <? 0) eqn:E; [lia|]. destruct (i + 1 <? 0) eqn:E1; [lia|].
        replace (Z.to_nat (i + 1)) with (S (Z.to_nat i)) in Hg by lia. cbn [nth] in Hg.
        apply Hg. unfold len in *. cbn [length]. lia.
Qed.

Ltac lens := repeat (rewrite ?len_app, ?len_takeZ, ?len_dropZ, ?len_zeros, ?len_nil).
Ltac lens_in H := repeat (rewrite ?len_app, ?len_takeZ, ?len_dropZ, ?len_zeros, ?len_nil in H).
Ltac gets := repeat (rewrite ?getZ_app, ?getZ_takeZ, ?getZ_dropZ, ?getZ_zeros, ?getZ_nil).
Ltac splits :=
  once (repeat lazymatch goal with
               | |- context [if ?c then _ else _] => let E := fresh "E" in destruct c eqn:E
               end).
Ltac fin :=
  first [ reflexivity | lia
        | (apply getZ_beyond; lens; lia) | (symmetry; apply getZ_beyond; lens; lia)
        | (apply getZ_neg; lia) | (symmetry; apply getZ_neg; lia)
        | (f_equal; lia)
        | (transitivity 0; [apply getZ_beyond; lens; lia | symmetry; apply getZ_beyond; lens; lia]) ].
(** equality of two byte-string expressions, by length and pointwise *)
Ltac bytes_eq :=
  apply list_ext; [ lens; lia | let i := fresh "i" in let Hi := fresh "Hi" in
                                intros i Hi; lens_in Hi; repeat (progress (gets; lens)); splits; fin ].

(** ---------- the byte-array write ---------- *)
Lemma len_wr_at f off b : 0 <= off -> len (wr_at f off b) = Z.max (len f) (off + len b).
Proof. intros H. unfold wr_at. lens. pose proof (len_nonneg f). pose proof (len_nonneg b). lia. Qed.

Lemma getZ_wr_at f off b i : 0 <= off ->
  getZ (wr_at f off b) i = if (off <=? i) && (i <? off + len b) then getZ b (i - off) else getZ f i.
Proof.
  intros H. unfold wr_at. pose proof (len_nonneg f). pose proof (len_nonneg b).
  gets. lens.
  destruct (off <=? i) eqn:E1; destruct (i <? off + len b) eqn:E2; cbn [andb]; splits; fin.
Qed.

Lemma wr_at_app f ws x b : 0 <= ws -> wr_at (wr_at f ws x) (ws + len x) b = wr_at f ws (x ++ b).
Proof.
  intros H. pose proof (len_nonneg f). pose proof (len_nonneg b). pose proof (len_nonneg x).
  apply list_ext.
  - rewrite !len_wr_at by lia. lens. lia.
  - intros i Hi. rewrite !getZ_wr_at by lia. gets. lens.
    destruct (ws + len x <=? i) eqn:E1; destruct (i <? ws + len x + len b) eqn:E2;
      destruct (ws <=? i) eqn:E3; destruct (i <? ws + len x) eqn:E4;
      destruct (i <? ws + (len x + len b)) eqn:E5; cbn [andb]; splits; fin.
Qed.

Lemma wr_at_cover f ws x b : 0 <= ws -> len x <= len b -> wr_at (wr_at f ws x) ws b = wr_at f ws b.
Proof.
  intros H Hc. pose proof (len_nonneg f). pose proof (len_nonneg b). pose proof (len_nonneg x).
  apply list_ext.
  - rewrite !len_wr_at by lia. lia.
  - intros i Hi. rewrite !getZ_wr_at by lia.
    destruct (ws <=? i) eqn:E1; destruct (i <? ws + len b) eqn:E2;
      destruct (i <? ws + len x) eqn:E3; cbn [andb]; fin.
Qed.

(** zero padding below the write offset is invisible *)
Lemma wr_at_sim c c' off b : 0 <= off -> len c <= off -> len c' <= off ->
  (forall i, getZ c i = getZ c' i) -> wr_at c off b = wr_at c' off b.
Proof.
  intros H H1 H2 Hs. pose proof (len_nonneg b).
  apply list_ext.
  - rewrite !len_wr_at by lia. lia.
  - intros i Hi. rewrite !getZ_wr_at by lia. rewrite Hs. reflexivity.
Qed.

(** ---------- Sync ---------- *)
Lemma sync_file f ws b : 0 <= ws ->
  let f1 := if len f <? ws then f ++ zeros (ws - len f) else f in
  let k := Z.min (len b) (len f1 - ws) in
  (takeZ ws f1 ++ takeZ k b ++ dropZ (ws + k) f1) ++ dropZ k b = wr_at f ws b.
Proof.
  intros H f1 k. pose proof (len_nonneg f). pose proof (len_nonneg b).
  assert (L1 : len f1 = Z.max (len f) ws).
  { subst f1. destruct (len f <? ws) eqn:E; lens; lia. }
  assert (G1 : forall i, getZ f1 i = getZ f i).
  { intros i. subst f1. destruct (len f <? ws) eqn:E; [|reflexivity]. gets. splits; fin. }
  apply list_ext.
  - rewrite len_wr_at by lia. lens. rewrite L1. subst k. rewrite L1. lia.
  - intros i Hi. rewrite getZ_wr_at by lia. gets. lens. rewrite !L1. rewrite !G1.
    subst k. rewrite !L1.
    destruct (ws <=? i) eqn:E1; destruct (i <? ws + len b) eqn:E2; cbn [andb]; splits; fin.
Qed.

(** ---------- invariant and abstraction ---------- *)
Definition inv (s : st) : Prop :=
  0 <= s_ws s /\
  match s_buf s with
  | None => s_ws s = s_co s
  | Some b => s_co s = s_ws s + len b /\ s_rd s = None
  end /\
  match s_rd s with
  | None => True
  | Some r => r_snap r = s_file s /\ r_off r = s_co s
  end.

Lemma inv_co_nonneg s : inv s -> 0 <= s_co s.
Proof.
  intros (H1 & H2 & _). destruct (s_buf s) as [b|]; [destruct H2 as [H2 _]; pose proof (len_nonneg b)|]; lia.
Qed.

Lemma size_abs s : inv s -> size_of s = len (f_content (abs s)).
Proof.
  intros (H1 & H2 & _). unfold size_of, abs. cbn [f_content].
  destruct (s_buf s) as [b|]; [|reflexivity]. rewrite len_wr_at by lia. lia.
Qed.

Lemma sync_ok s : inv s ->
  inv (sync fl_off s) /\ abs (sync fl_off s) = abs s /\ s_buf (sync fl_off s) = None /\
  s_co (sync fl_off s) = s_co s.
Proof.
  intros (H1 & H2 & H3). unfold sync.
  destruct (s_buf s) as [b|] eqn:Eb.
  - destruct H2 as [H2 Hr]. cbn zeta. split; [|split; [|split]].
    + unfold inv. cbn [s_ws s_buf s_rd s_co]. pose proof (len_nonneg b). repeat split; lia.
    + unfold abs. cbn [s_buf s_file s_ws s_co]. rewrite Eb. f_equal.
      apply (sync_file (s_file s) (s_ws s) b H1).
    + reflexivity.
    + reflexivity.
  - split; [|split; [|split]]; try reflexivity; try assumption.
    unfold inv. rewrite Eb. auto.
Qed.

(** a state without a pending buffer *)
Lemma abs_nobuf s : s_buf s = None -> abs s = {| f_content := s_file s; f_pos := s_co s |}.
Proof. intros H. unfold abs. rewrite H. reflexivity. Qed.

(** ---------- the single steps ---------- *)
Lemma write_ok s b : inv s ->
  let '(s', o) := write s b in
  inv s' /\ abs s' = fst (spec_step (abs s) (OWrite b)) /\ o = snd (spec_step (abs s) (OWrite b)).
Proof.
  intros (H1 & H2 & H3). unfold write. cbn [spec_step fst snd].
  pose proof (len_nonneg b) as Lb.
  destruct (s_buf s) as [x|] eqn:Eb.
  - destruct H2 as [H2 Hr]. pose proof (len_nonneg x) as Lx. split; [|split].
    + unfold inv. cbn [s_ws s_buf s_rd s_co]. lens. repeat split; lia.
    + unfold abs. cbn [s_buf s_file s_ws s_co f_content f_pos]. rewrite Eb. f_equal.
      rewrite H2. symmetry. apply wr_at_app. exact H1.
    + reflexivity.
  - split; [|split].
    + unfold inv. cbn [s_ws s_buf s_rd s_co app]. repeat split; lia.
    + unfold abs. cbn [s_buf s_file s_ws s_co f_content f_pos app]. rewrite Eb. f_equal.
      rewrite H2. reflexivity.
    + reflexivity.
Qed.

Lemma getZ_abs_expand s n i :
  getZ (f_content (abs {| s_file := s_file s ++ zeros n; s_ws := s_ws s; s_co := s_co s;
                          s_buf := s_buf s; s_rd := None |})) i
  = getZ (f_content (abs s)) i.
Proof.
  intros. unfold abs. cbn [s_buf s_file s_ws f_content].
  destruct (s_buf s) as [x|].
  - destruct (Z_le_gt_dec 0 (s_ws s)) as [Hw|Hw].
    + rewrite !getZ_wr_at by exact Hw. destruct ((s_ws s <=? i) && (i <? s_ws s + len x)); [reflexivity|].
      gets. splits; fin.
    + (* negative writeStart never occurs; still true *)
      unfold wr_at. pose proof (len_nonneg (s_file s)).
      gets. lens. splits; lens; fin.
  - gets. splits; fin.
Qed.

Lemma write_at_ok s b off : inv s -> 0 <= off ->
  let '(s', o) := write_at fl_off s b off in
  inv s' /\ abs s' = fst (spec_step (abs s) (OWriteAt b off)) /\
  o = snd (spec_step (abs s) (OWriteAt b off)).
Proof.
  intros Hinv Hoff. pose proof Hinv as (H1 & H2 & H3).
  pose proof (len_nonneg b) as Lb.
  unfold write_at. cbn [f_overlap f_curoff fl_off spec_step fst snd].
  destruct ((off =? s_ws s) && is_some (s_buf s) &&
            (match s_buf s with None => 0 | Some x => len x end <=? len b)) eqn:Ehit.
  - (* the new data covers the pending write: replace it *)
    destruct (s_buf s) as [x|] eqn:Eb; [|cbn in Ehit; lia].
    destruct H2 as [H2 Hr]. cbn [is_some] in Ehit.
    assert (off = s_ws s) by lia. assert (len x <= len b) by lia. subst off.
    unfold write. cbn [s_buf s_file s_ws s_co s_rd app]. split; [|split].
    + unfold inv. cbn [s_ws s_buf s_rd s_co]. repeat split; lia.
    + unfold abs. cbn [s_buf s_file s_ws s_co f_content f_pos]. rewrite Eb. f_equal.
      symmetry. apply wr_at_cover; assumption.
    + reflexivity.
  - destruct (negb (off =? s_co s)) eqn:Eco.
    + (* non-sequential write: expand, flush, reposition *)
      assert (Hne : off <> s_co s) by lia. clear Ehit Eco.
      rewrite (size_abs s Hinv).
      set (C := f_content (abs s)).
      set (s1 := if len C <? off then expand_sparse fl_off s (off - len C) else s).
      assert (Hinv1 : inv s1).
      { subst s1. destruct (len C <? off); [|exact Hinv].
        unfold expand_sparse, drop_reader, inv. cbn [f_stale fl_off s_ws s_buf s_rd s_co s_file].
        destruct (s_buf s); repeat split; try tauto; try lia. }
      assert (Hg : forall i, getZ (f_content (abs s1)) i = getZ C i).
      { intros i. subst s1. destruct (len C <? off); [|reflexivity].
        unfold expand_sparse, drop_reader. cbn [f_stale fl_off s_ws s_buf s_rd s_co s_file].
        apply getZ_abs_expand. }
      assert (Hl : len (f_content (abs s1)) <= Z.max (len C) off).
      { subst s1. destruct (len C <? off) eqn:E; [|subst C; lia].
        subst C. unfold expand_sparse, drop_reader, abs in E |- *.
        cbn [f_stale fl_off s_ws s_buf s_rd s_co s_file f_content] in E |- *.
        destruct (s_buf s) as [x|].
        - rewrite !len_wr_at by lia. rewrite len_wr_at in E by lia. lens. lia.
        - lens. lia. }
      destruct (sync_ok s1 Hinv1) as (Hinv2 & Habs2 & Hb2 & Hco2).
      set (s2 := sync fl_off s1) in *.
      unfold write. cbn [s_buf s_file s_ws s_co s_rd]. rewrite Hb2. cbn [app].
      split; [|split].
      * unfold inv. cbn [s_ws s_buf s_rd s_co]. repeat split; lia.
      * unfold abs at 1. cbn [s_buf s_file s_ws s_co f_content f_pos]. f_equal.
        rewrite (abs_nobuf s2 Hb2) in Habs2.
        assert (Hf : s_file s2 = f_content (abs s1)) by (rewrite <- Habs2; reflexivity).
        rewrite Hf.
        destruct (len C <? off) eqn:E.
        -- apply wr_at_sim; try lia. exact Hg.
        -- subst s1. reflexivity.
      * reflexivity.
    + (* sequential continuation *)
      assert (off = s_co s) by lia. subst off.
      pose proof (write_ok s b Hinv) as Hw. unfold write in *. cbn [spec_step fst snd] in Hw.
      destruct Hw as (Hw1 & Hw2 & Hw3). split; [exact Hw1|split; [|reflexivity]].
      rewrite Hw2. reflexivity.
Qed.

(** ---------- int64 / uint64 views ---------- *)
Lemma i64_u64 z : - two63 <= z < two63 -> i64 (u64 z) = z.
Proof.
  intros H. unfold i64, u64, two64, two63 in *.
  rewrite Z.mod_mod by lia.
  destruct (z mod 18446744073709551616 <? 9223372036854775808) eqn:E.
  - pose proof (Z.mod_pos_bound z 18446744073709551616 ltac:(lia)).
    pose proof (Z.div_mod z 18446744073709551616 ltac:(lia)).
    assert (z / 18446744073709551616 = 0) by nia. nia.
  - pose proof (Z.mod_pos_bound z 18446744073709551616 ltac:(lia)).
    pose proof (Z.div_mod z 18446744073709551616 ltac:(lia)).
    assert (z / 18446744073709551616 = -1) by nia. nia.
Qed.

Lemma u64_small z : 0 <= z < two63 -> u64 z = z.
Proof. intros H. unfold u64, two64, two63 in *. apply Z.mod_small. lia. Qed.

Lemma i64_small z : 0 <= z < two63 -> i64 z = z.
Proof.
  intros H. pose proof (i64_u64 z ltac:(unfold two63 in *; lia)) as E.
  rewrite u64_small in E by exact H. exact E.
Qed.

(** ---------- Read ---------- *)
Lemma read_ok s n : inv s -> fits (abs s) ->
  let '(s', o) := read fl_off s n in
  inv s' /\ abs s' = fst (spec_step (abs s) (ORead n)) /\ o = snd (spec_step (abs s) (ORead n)).
Proof.
  intros Hinv Hfit.
  destruct (sync_ok s Hinv) as (Hinv1 & Habs1 & Hb1 & Hco1).
  unfold read. set (s1 := sync fl_off s) in *.
  pose proof (inv_co_nonneg s1 Hinv1) as Hnn.
  assert (Hlt : s_co s1 < two63).
  { rewrite Hco1. destruct Hfit as [Hp _]. unfold abs in Hp. cbn [f_pos] in Hp. exact Hp. }
  rewrite (abs_nobuf s1 Hb1) in Habs1.
  rewrite <- Habs1. cbn [spec_step f_content f_pos fst snd].
  pose proof Hinv1 as (H1 & H2 & H3). rewrite Hb1 in H2.
  assert (Hr : match s_rd s1 with
               | Some r => Some r
               | None => if i64 (s_co s1) <? 0 then None
                         else Some {| r_snap := s_file s1; r_off := i64 (s_co s1) |}
               end = Some {| r_snap := s_file s1; r_off := s_co s1 |}).
  { destruct (s_rd s1) as [r|].
    - destruct H3 as [Hs Ho]. destruct r as [sn ro]. cbn [r_snap r_off] in *. subst. reflexivity.
    - rewrite i64_small by lia. destruct (s_co s1 <? 0) eqn:E; [lia|reflexivity]. }
  rewrite Hr. unfold reader_read. cbn [r_snap r_off f_readws fl_off].
  set (d := takeZ n (dropZ (s_co s1) (s_file s1))).
  split; [|split].
  - unfold inv. cbn [s_ws s_buf s_rd s_co s_file r_snap r_off]. rewrite Hb1.
    pose proof (len_nonneg d). repeat split; lia.
  - unfold abs. cbn [s_buf s_file s_ws s_co]. rewrite Hb1. reflexivity.
  - reflexivity.
Qed.

(** ---------- Seek ---------- *)
Lemma seek_ok s off wh : inv s -> fits (abs s) -> int64_arg off ->
  fits (fst (spec_step (abs s) (OSeek off wh))) ->
  let '(s', o) := seek fl_off s off wh in
  inv s' /\ abs s' = fst (spec_step (abs s) (OSeek off wh)) /\
  o = snd (spec_step (abs s) (OSeek off wh)).
Proof.
  intros Hinv Hfit Harg Hfit'.
  destruct (sync_ok s Hinv) as (Hinv1 & Habs1 & Hb1 & Hco1).
  unfold seek. set (s1 := sync fl_off s) in *.
  pose proof (inv_co_nonneg s1 Hinv1) as Hnn.
  rewrite (size_abs s1 Hinv1).
  rewrite <- Habs1 in Hfit, Hfit' |- *.
  rewrite (abs_nobuf s1 Hb1) in Hfit, Hfit' |- *.
  pose proof Hinv1 as (H1 & H2 & H3). rewrite Hb1 in H2.
  destruct Hfit as [Hp Hc]. cbn [f_pos f_content] in Hp, Hc.
  pose proof (len_nonneg (s_file s1)) as Lf.
  cbn [spec_step f_content f_pos f_seekend f_seekneg fl_off negb andb] in Hfit' |- *.
  unfold int64_arg in Harg.
  (* the target of the seek, if the whence is valid *)
  set (tgt := if wh =? 0 then Some off else if wh =? 1 then Some (s_co s1 + off)
              else if wh =? 2 then Some (len (s_file s1) + off) else None) in *.
  assert (Hnew : (if wh =? 0 then Some (u64 off)
                  else if wh =? 1 then Some (u64 (s_co s1 + off))
                  else if wh =? 2 then Some (u64 (len (s_file s1) + off)) else None)
                 = match tgt with Some t => Some (u64 t) | None => None end).
  { subst tgt. destruct (wh =? 0); [reflexivity|]. destruct (wh =? 1); [reflexivity|].
    destruct (wh =? 2); reflexivity. }
  rewrite Hnew. clear Hnew.
  destruct tgt as [t|] eqn:Et.
  2:{ split; [exact Hinv1|split; [cbn [fst]; apply abs_nobuf; exact Hb1|reflexivity]]. }
  assert (Ht : - two63 <= t < two63 + two63).
  { subst tgt. unfold two63 in *.
    destruct (wh =? 0); [inversion Et; lia|]. destruct (wh =? 1); [inversion Et; lia|].
    destruct (wh =? 2); [inversion Et; lia|discriminate]. }
  destruct (t <? 0) eqn:Eneg.
  - (* before the start: rejected *)
    rewrite i64_u64 by (unfold two63 in *; lia). rewrite Eneg.
    split; [exact Hinv1|split; [cbn [fst]; apply abs_nobuf; exact Hb1|reflexivity]].
  - destruct Hfit' as [Hp' Hc']. cbn [fst f_pos f_content] in Hp', Hc'.
    rewrite i64_u64 by (unfold two63 in *; lia). rewrite Eneg.
    rewrite u64_small by lia.
    assert (Hrd : forall r, s_rd s1 = Some r -> reader_seek r off wh = ({| r_snap := r_snap r; r_off := t |}, true)).
    { intros r Er. rewrite Er in H3. destruct H3 as [Hs Ho].
      unfold reader_seek. subst tgt.
      destruct (wh =? 0); [inversion Et; subst; rewrite Eneg; reflexivity|].
      destruct (wh =? 1).
      { inversion Et as [Et']. destruct (off =? 0) eqn:E0.
        - destruct r as [sn ro]. cbn [r_snap r_off] in *. f_equal. f_equal. lia.
        - rewrite Ho, Et', Eneg. reflexivity. }
      destruct (wh =? 2); [|discriminate].
      inversion Et as [Et']. rewrite Hs, Et', Eneg. reflexivity. }
    destruct (len (s_file s1) <? t) eqn:Egrow.
    + (* past the end: sparse expansion, the reader is dropped *)
      unfold expand_sparse, drop_reader. cbn [f_stale fl_off s_rd s_file s_ws s_co s_buf].
      split; [|split].
      * unfold inv. cbn [s_ws s_buf s_rd s_co]. rewrite Hb1. repeat split; lia.
      * unfold abs. cbn [s_buf s_file s_ws s_co]. rewrite Hb1. reflexivity.
      * reflexivity.
    + assert (Hz : zeros (t - len (s_file s1)) = []).
      { unfold zeros. replace (Z.to_nat (t - len (s_file s1))) with O by lia. reflexivity. }
      rewrite Hz, app_nil_r.
      destruct (s_rd s1) as [r|] eqn:Er.
      * rewrite (Hrd r eq_refl). split; [|split].
        -- unfold inv. cbn [s_ws s_buf s_rd s_co s_file r_snap r_off]. rewrite Hb1.
           destruct H3 as [Hs Ho]. repeat split; try lia. exact Hs.
        -- unfold abs. cbn [s_buf s_file s_ws s_co]. rewrite Hb1. reflexivity.
        -- reflexivity.
      * split; [|split].
        -- unfold inv. cbn [s_ws s_buf s_rd s_co]. rewrite Hb1. repeat split; lia.
        -- unfold abs. cbn [s_buf s_file s_ws s_co]. rewrite Hb1. reflexivity.
        -- reflexivity.
Qed.

(** ---------- Truncate ---------- *)
Lemma truncate_ok s sz : inv s -> 0 <= sz ->
  let '(s', o) := truncate fl_off s sz in
  inv s' /\ abs s' = fst (spec_step (abs s) (OTruncate sz)) /\
  o = snd (spec_step (abs s) (OTruncate sz)).
Proof.
  intros Hinv Hsz.
  destruct (sync_ok s Hinv) as (Hinv1 & Habs1 & Hb1 & Hco1).
  unfold truncate. set (s1 := sync fl_off s) in *.
  rewrite (size_abs s1 Hinv1).
  rewrite <- Habs1. rewrite (abs_nobuf s1 Hb1).
  pose proof Hinv1 as (H1 & H2 & H3). rewrite Hb1 in H2.
  cbn [spec_step f_content f_pos fst snd f_stale fl_off].
  pose proof (len_nonneg (s_file s1)) as Lf.
  destruct (sz =? len (s_file s1)) eqn:E1.
  - assert (Hz : zeros (sz - len (s_file s1)) = []).
    { unfold zeros. replace (Z.to_nat (sz - len (s_file s1))) with O by lia. reflexivity. }
    destruct (sz <? len (s_file s1)) eqn:E2; [lia|]. rewrite Hz, app_nil_r.
    split; [exact Hinv1|split; [apply abs_nobuf; exact Hb1|reflexivity]].
  - destruct (len (s_file s1) <? sz) eqn:E2.
    + destruct (sz <? len (s_file s1)) eqn:E3; [lia|].
      unfold expand_sparse, drop_reader. cbn [f_stale fl_off s_rd s_file s_ws s_co s_buf].
      split; [|split].
      * unfold inv. cbn [s_ws s_buf s_rd s_co]. rewrite Hb1. repeat split; lia.
      * unfold abs. cbn [s_buf s_file s_ws s_co]. rewrite Hb1. reflexivity.
      * reflexivity.
    + destruct (sz <? len (s_file s1)) eqn:E3; [|lia].
      unfold drop_reader. cbn [s_rd s_file s_ws s_co s_buf].
      split; [|split].
      * unfold inv. cbn [s_ws s_buf s_rd s_co]. rewrite Hb1. repeat split; lia.
      * unfold abs. cbn [s_buf s_file s_ws s_co]. rewrite Hb1. reflexivity.
      * reflexivity.
Qed.

(** ---------- every step refines the byte-array file ---------- *)
Lemma step_ok s o : inv s -> fits (abs s) -> op_wf o = true -> op_args o ->
  fits (fst (spec_step (abs s) o)) ->
  inv (fst (step fl_off s o)) /\ abs (fst (step fl_off s o)) = fst (spec_step (abs s) o) /\
  snd (step fl_off s o) = snd (spec_step (abs s) o).
Proof.
  intros Hinv Hfit Hwf Harg Hfit'.
  destruct o as [b|b off|off wh|n|sz| | |]; cbn [step op_wf op_args] in *.
  - pose proof (write_ok s b Hinv) as H. destruct (write s b). exact H.
  - pose proof (write_at_ok s b off Hinv ltac:(lia)) as H. destruct (write_at fl_off s b off). exact H.
  - pose proof (seek_ok s off wh Hinv Hfit Harg Hfit') as H. destruct (seek fl_off s off wh). exact H.
  - pose proof (read_ok s n Hinv Hfit) as H. destruct (read fl_off s n). exact H.
  - pose proof (truncate_ok s sz Hinv ltac:(lia)) as H. destruct (truncate fl_off s sz). exact H.
  - cbn [fst snd spec_step]. rewrite (size_abs s Hinv). auto.
  - destruct (sync_ok s Hinv) as (H1 & H2 & _). cbn [fst snd spec_step]. auto.
  - destruct (sync_ok s Hinv) as (H1 & H2 & H3 & _). cbn [fst snd spec_step].
    split; [exact H1|split; [exact H2|]].
    rewrite <- H2. rewrite (abs_nobuf _ H3). reflexivity.
Qed.

Lemma inv_init c : inv (init c).
Proof. unfold inv, init. cbn. repeat split; lia. Qed.

Lemma abs_init c : abs (init c) = spec_init c.
Proof. reflexivity. Qed.

Lemma run_refines : forall ops s,
  inv s -> fits (abs s) -> forallb op_wf ops = true -> spec_fits (abs s) ops ->
  snd (run fl_off s ops) = snd (spec_run (abs s) ops) /\
  inv (fst (run fl_off s ops)) /\ abs (fst (run fl_off s ops)) = fst (spec_run (abs s) ops).
Proof.
  induction ops as [|o r IH]; intros s Hinv Hfit Hwf Hsf.
  - cbn [run spec_run fst snd]. auto.
  - cbn [forallb] in Hwf. apply andb_prop in Hwf. destruct Hwf as [Hwf Hwfr].
    cbn [spec_fits] in Hsf. destruct Hsf as (Harg & Hfit' & Hsfr).
    destruct (step_ok s o Hinv Hfit Hwf Harg Hfit') as (Hi & Ha & Ho).
    cbn [run spec_run].
    destruct (step fl_off s o) as [s' b] eqn:Es. destruct (spec_step (abs s) o) as [a' b'] eqn:Ea.
    cbn [fst snd] in *. subst a' b'.
    specialize (IH s' Hi Hfit' Hwfr Hsfr).
    destruct (run fl_off s' r) as [s'' bs]. destruct (spec_run (abs s') r) as [a'' bs'].
    cbn [fst snd] in *. destruct IH as (I1 & I2 & I3). subst bs'. auto.
Qed.

(** the refinement theorem *)
Lemma refines_file c ops :
  len c < two63 -> forallb op_wf ops = true -> spec_fits (spec_init c) ops ->
  snd (run fl_off (init c) ops) = snd (spec_run (spec_init c) ops).
Proof.
  intros Hc Hwf Hsf.
  apply (run_refines ops (init c) (inv_init c)); try assumption.
  split; [cbn; unfold two63; lia|exact Hc].
Qed.

(** the representation invariant along every history: whatever is pending in the buffer,
    the modifier denotes exactly the byte-array file *)
Lemma denotes_file c ops :
  len c < two63 -> forallb op_wf ops = true -> spec_fits (spec_init c) ops ->
  abs (fst (run fl_off (init c) ops)) = fst (spec_run (spec_init c) ops).
Proof.
  intros Hc Hwf Hsf.
  apply (run_refines ops (init c) (inv_init c)); try assumption.
  split; [cbn; unfold two63; lia|exact Hc].
Qed.

(** Sync is invisible *)
Lemma sync_transparent c ops :
  len c < two63 -> forallb op_wf ops = true -> spec_fits (spec_init c) ops ->
  let s := fst (run fl_off (init c) ops) in
  abs (sync fl_off s) = abs s /\ s_buf (sync fl_off s) = None.
Proof.
  intros Hc Hwf Hsf s.
  assert (Hinv : inv s).
  { apply (run_refines ops (init c) (inv_init c)); try assumption.
    split; [cbn; unfold two63; lia|exact Hc]. }
  destruct (sync_ok s Hinv) as (_ & H2 & H3 & _). auto.
Qed.

(** ---------- no write is lost, misplaced or duplicated ---------- *)
Lemma spec_run_app : forall l1 l2 a,
  spec_run a (l1 ++ l2) =
  (fst (spec_run (fst (spec_run a l1)) l2), snd (spec_run a l1) ++ snd (spec_run (fst (spec_run a l1)) l2)).
Proof.
  induction l1 as [|o r IH]; intros l2 a.
  - cbn [app spec_run fst snd]. destruct (spec_run a l2); reflexivity.
  - cbn [app spec_run]. destruct (spec_step a o) as [a' b]. rewrite IH.
    destruct (spec_run a' r) as [a1 o1]. cbn [fst snd]. reflexivity.
Qed.

Lemma spec_quiet_content : forall q a,
  forallb quiet q = true -> f_content (fst (spec_run a q)) = f_content a.
Proof.
  induction q as [|o r IH]; intros a Hq; [reflexivity|].
  cbn [forallb] in Hq. apply andb_prop in Hq. destruct Hq as [Ho Hr].
  cbn [spec_run]. destruct (spec_step a o) as [a' b] eqn:E.
  specialize (IH a' Hr). destruct (spec_run a' r) as [a'' bs]. cbn [fst] in *. rewrite IH.
  destruct o; try discriminate Ho; cbn [spec_step] in E; inversion E; reflexivity.
Qed.

Lemma no_lost_write c ops b off q :
  len c < two63 -> 0 <= off ->
  forallb quiet q = true ->
  forallb op_wf (ops ++ OWriteAt b off :: q ++ [OGetNode]) = true ->
  spec_fits (spec_init c) (ops ++ OWriteAt b off :: q ++ [OGetNode]) ->
  let old := f_content (fst (spec_run (spec_init c) ops)) in
  exists content,
    last (snd (run fl_off (init c) (ops ++ OWriteAt b off :: q ++ [OGetNode]))) BPanic
      = BNode content (len content) /\
    len content = Z.max (len old) (off + len b) /\
    forall i, getZ content i =
              if (off <=? i) && (i <? off + len b) then getZ b (i - off) else getZ old i.
Proof.
  intros Hc Hoff Hq Hwf Hsf old.
  rewrite (refines_file c _ Hc Hwf Hsf).
  exists (wr_at old off b).
  split; [|split].
  - replace (ops ++ OWriteAt b off :: q ++ [OGetNode])
      with ((ops ++ OWriteAt b off :: q) ++ [OGetNode])
      by (rewrite <- app_assoc; reflexivity).
    rewrite spec_run_app. cbn [snd]. cbn [spec_run spec_step snd]. rewrite last_last.
    rewrite spec_run_app. cbn [fst]. cbn [spec_run].
    set (a := fst (spec_run (spec_init c) ops)).
    cbn [spec_step].
    match goal with |- context [spec_run ?x q] => pose proof (spec_quiet_content q x Hq) as Hk;
      destruct (spec_run x q) as [a2 o2] end.
    cbn [fst f_content] in *. rewrite Hk. reflexivity.
  - apply len_wr_at. exact Hoff.
  - intros i. apply getZ_wr_at. exact Hoff.
Qed.

(** ---------- the recorded defects do break the refinement ---------- *)
Definition refuted (k : N) : Prop :=
  exists c ops, forallb op_wf ops = true /\ spec_fits (spec_init c) ops /\
                snd (run (fl_only k) (init c) ops) <> snd (spec_run (spec_init c) ops).

Ltac witness c ops :=
  exists c, ops; split; [reflexivity | split;
    [vm_compute; repeat split; intro; discriminate | vm_compute; intro; discriminate]].

Definition digits : list Z := [48; 49; 50; 51; 52; 53; 54; 55; 56; 57].   (* "0123456789" *)

Lemma overlap_refuted : refuted 1.
Proof. witness (@nil Z) [OWrite [97; 98; 99; 100; 101; 102]; OWriteAt [88; 89] 0; OGetNode]. Qed.

Lemma curoff_refuted : refuted 2.
Proof. witness (@nil Z) [OWriteAt [65; 65; 65; 65] 10; OWriteAt [66; 66] 4; OGetNode]. Qed.

Lemma seekend_refuted : refuted 3.
Proof. witness digits [OSeek (-3) 2; OSize]. Qed.

Lemma stale_refuted : refuted 4.
Proof. witness digits [ORead 2; OTruncate 5; ORead 100]. Qed.

Lemma readws_refuted : refuted 5.
Proof. witness digits [ORead 2; OWrite [88]; OGetNode]. Qed.

Lemma seekneg_refuted : refuted 6.
Proof. witness digits [OSeek (-1) 0]. Qed.
