(** C32 — proofs about the model of gateway/hostname.go (model/M_C32.v). *)
From Coq Require Import List String Ascii Bool NArith Arith Lia.
From V Require Import lib.Verdict model.M_C32.
Import ListNotations.
Open Scope string_scope.

(** ---------- characters ---------- *)
Lemma dash_neq_dot : Ascii.eqb dash dot = false.
Proof. reflexivity. Qed.

Lemma eqb_dash_not_dot c : Ascii.eqb c dash = true -> Ascii.eqb c dot = false.
Proof. intros H. apply Ascii.eqb_eq in H. subst c. reflexivity. Qed.

(** ---------- round trip ---------- *)
Lemma uninline_inline_ok : forall s, rt_ok s = true -> uninline (inline s) = s.
Proof.
  induction s as [|c r IH]; intros Hok; [reflexivity|].
  cbn [rt_ok] in Hok. apply andb_true_iff in Hok. destruct Hok as [Hc Hr].
  specialize (IH Hr).
  cbn [inline].
  destruct (Ascii.eqb c dash) eqn:Ed.
  - apply Ascii.eqb_eq in Ed. subst c.
    cbn [uninline]. change (Ascii.eqb dash dash) with true. cbn iota. now rewrite IH.
  - destruct (Ascii.eqb c dot) eqn:Et.
    + apply Ascii.eqb_eq in Et. subst c.
      destruct r as [|d r2].
      * reflexivity.
      * apply andb_true_iff in Hc. destruct Hc as [Hd1 Hd2].
        apply negb_true_iff in Hd1. apply negb_true_iff in Hd2.
        cbn [inline] in *. rewrite Hd1, Hd2 in *.
        cbn [uninline] in *. change (Ascii.eqb dash dash) with true. cbn iota.
        rewrite Hd1. rewrite Hd1 in IH. now rewrite IH.
    + cbn [uninline]. rewrite Ed. now rewrite IH.
Qed.

Lemma uninline_inline_only_ok : forall s, uninline (inline s) = s -> rt_ok s = true.
Proof.
  induction s as [|c r IH]; intros H; [reflexivity|].
  cbn [rt_ok]. apply andb_true_iff. split.
  - destruct (Ascii.eqb c dot) eqn:Et; [|reflexivity].
    apply Ascii.eqb_eq in Et. subst c.
    destruct r as [|d r2]; [reflexivity|].
    cbn [inline] in H. change (Ascii.eqb dot dash) with false in H. change (Ascii.eqb dot dot) with true in H.
    cbn iota in H.
    destruct (Ascii.eqb d dash) eqn:E1.
    + exfalso. cbn [uninline] in H. change (Ascii.eqb dash dash) with true in H. cbn iota in H.
      injection H as H1 _. discriminate H1.
    + destruct (Ascii.eqb d dot) eqn:E2; [|reflexivity].
      exfalso. cbn [uninline] in H. change (Ascii.eqb dash dash) with true in H. cbn iota in H.
      injection H as H1 _. discriminate H1.
  - apply IH.
    cbn [inline] in H.
    destruct (Ascii.eqb c dash) eqn:Ed.
    + cbn [uninline] in H. change (Ascii.eqb dash dash) with true in H. cbn iota in H. injection H as _ H2. exact H2.
    + destruct (Ascii.eqb c dot) eqn:Et.
      * cbn [uninline] in H. change (Ascii.eqb dash dash) with true in H. cbn iota in H.
        destruct (inline r) as [|d t] eqn:Ei.
        -- injection H as _ H2. subst r. reflexivity.
        -- destruct (Ascii.eqb d dash) eqn:Edd.
           ++ exfalso. injection H as H1 _. apply Ascii.eqb_eq in Et. subst c. discriminate H1.
           ++ injection H as _ H2. exact H2.
      * cbn [uninline] in H. rewrite Ed in H. injection H as H2. exact H2.
Qed.

Theorem uninline_inline_iff : forall s, uninline (inline s) = s <-> rt_ok s = true.
Proof. intros s; split; [apply uninline_inline_only_ok | apply uninline_inline_ok]. Qed.

(** ---------- valid DNS names satisfy the round-trip condition ---------- *)
Definition tail_ok (l : string) : bool := negb (String.eqb l "") && negb (starts_with "-" l).

Lemma split_nonnil : forall c s, split c s <> [].
Proof.
  intros c s. destruct s as [|a r]; cbn [split]; [discriminate|].
  destruct (Ascii.eqb a c); [discriminate|].
  destruct (split c r); discriminate.
Qed.

Lemma rt_ok_of_tail : forall s, forallb tail_ok (tl (split dot s)) = true -> rt_ok s = true.
Proof.
  induction s as [|c r IH]; intros H; [reflexivity|].
  cbn [split] in H. cbn [rt_ok].
  destruct (Ascii.eqb c dot) eqn:E.
  - cbn [tl] in H.
    assert (Hr : rt_ok r = true).
    { apply IH. destruct (split dot r) as [|h t] eqn:Es; [reflexivity|].
      cbn [forallb] in H. apply andb_true_iff in H. cbn [tl]. tauto. }
    rewrite Hr, andb_true_r.
    destruct r as [|d r']; [reflexivity|].
    cbn [split] in H.
    destruct (Ascii.eqb d dot) eqn:Ed.
    + cbn in H. discriminate.
    + destruct (split dot r') as [|h t] eqn:Es.
      * exfalso. eapply split_nonnil; eauto.
      * cbn [forallb] in H. apply andb_true_iff in H. destruct H as [H _].
        unfold tail_ok in H. apply andb_true_iff in H. destruct H as [_ H].
        apply negb_true_iff in H. cbn [starts_with] in H. rewrite andb_true_r in H.
        change "-"%char with dash in H. rewrite Ascii.eqb_sym in H. rewrite H. reflexivity.
  - destruct (split dot r) as [|h t] eqn:Es.
    + exfalso. eapply split_nonnil; eauto.
    + cbn [tl] in H. rewrite IH; [reflexivity|]. cbn [tl]. exact H.
Qed.

Lemma label_valid_tail_ok : forall l, label_valid l = true -> tail_ok l = true.
Proof.
  intros l H. unfold label_valid in H. unfold tail_ok.
  apply andb_true_iff in H. destruct H as [H _]. exact H.
Qed.

Lemma forallb_tl {A} (f : A -> bool) l : forallb f l = true -> forallb f (tl l) = true.
Proof. destruct l; cbn; [auto|]. intros H. apply andb_true_iff in H. tauto. Qed.

Lemma forallb_impl {A} (f g : A -> bool) l :
  (forall x, f x = true -> g x = true) -> forallb f l = true -> forallb g l = true.
Proof.
  intros Hfg. induction l as [|a l IH]; cbn; [auto|].
  intros H. apply andb_true_iff in H. destruct H as [Ha Hl].
  rewrite (Hfg _ Ha), (IH Hl). reflexivity.
Qed.

Theorem valid_dns_rt_ok : forall s, valid_dns s = true -> rt_ok s = true.
Proof.
  intros s H. apply rt_ok_of_tail. apply forallb_tl.
  unfold valid_dns in H. eapply forallb_impl; [|exact H]. apply label_valid_tail_ok.
Qed.

Theorem uninline_inline_valid : forall s, valid_dns s = true -> uninline (inline s) = s.
Proof. intros s H. apply uninline_inline_ok. now apply valid_dns_rt_ok. Qed.

Theorem inline_injective : forall s1 s2,
  rt_ok s1 = true -> rt_ok s2 = true -> inline s1 = inline s2 -> s1 = s2.
Proof.
  intros s1 s2 H1 H2 E.
  rewrite <- (uninline_inline_ok s1 H1), <- (uninline_inline_ok s2 H2). now rewrite E.
Qed.

(** ---------- the inlined form is one label; its length ---------- *)
Theorem inline_no_dot : forall s, contains dot (inline s) = false.
Proof.
  induction s as [|c r IH]; [reflexivity|].
  cbn [inline].
  destruct (Ascii.eqb c dash) eqn:Ed.
  - cbn [contains]. rewrite IH. reflexivity.
  - destruct (Ascii.eqb c dot) eqn:Et.
    + cbn [contains]. rewrite IH. reflexivity.
    + cbn [contains]. rewrite Et, IH. reflexivity.
Qed.

Theorem inline_length : forall s, String.length (inline s) = String.length s + count dash s.
Proof.
  induction s as [|c r IH]; [reflexivity|].
  cbn [inline count String.length].
  destruct (Ascii.eqb c dash) eqn:Ed.
  - cbn [String.length]. rewrite IH. lia.
  - destruct (Ascii.eqb c dot); cbn [String.length]; rewrite IH; lia.
Qed.

Theorem inline_checked_some : forall s l,
  inline_checked s = Some l -> l = inline s /\ String.length l <= 63.
Proof.
  intros s l H. unfold inline_checked in H.
  destruct (Nat.ltb max_label (String.length (inline s))) eqn:E; [discriminate|].
  injection H as H. subst l. split; [reflexivity|].
  apply Nat.ltb_ge in E. exact E.
Qed.

Theorem inline_checked_none : forall s,
  inline_checked s = None <-> 63 < String.length s + count dash s.
Proof.
  intros s. unfold inline_checked. rewrite <- inline_length.
  destruct (Nat.ltb max_label (String.length (inline s))) eqn:E.
  - apply Nat.ltb_lt in E. split; auto.
  - apply Nat.ltb_ge in E. unfold max_label in E. split; [discriminate|lia].
Qed.

Theorem to_dns_label_fits : forall orc t c m l,
  to_dns_label orc t c m = LOk l -> String.length l <= 63.
Proof.
  intros orc t c m l H. unfold to_dns_label in H.
  destruct (Nat.leb (String.length t) max_label) eqn:E.
  - injection H as H. subst. apply Nat.leb_le in E. exact E.
  - destruct (enc orc c m true) as [t36|]; [|discriminate].
    destruct (Nat.leb (String.length t36) max_label) eqn:E2; [|discriminate].
    injection H as H. subst. apply Nat.leb_le in E2. exact E2.
Qed.

(** ---------- split / join / cut ---------- *)
Lemma append_String : forall a s t, (String a s ++ t)%string = String a (s ++ t).
Proof. reflexivity. Qed.

Lemma split_app : forall c a b, contains c a = false -> split c (a ++ String c b) = a :: split c b.
Proof.
  intros c a b. induction a as [|x a IH]; intros H.
  - cbn [append split]. rewrite Ascii.eqb_refl. reflexivity.
  - cbn [contains] in H. apply orb_false_iff in H. destruct H as [Hx Ha].
    rewrite append_String. cbn [split]. rewrite Hx. rewrite (IH Ha). reflexivity.
Qed.

Lemma join_cons2 : forall sep x y l, join sep (x :: y :: l) = (x ++ sep ++ join sep (y :: l))%string.
Proof. reflexivity. Qed.

Lemma join_split : forall c s, join (String c EmptyString) (split c s) = s.
Proof.
  intros c s. induction s as [|a r IH]; [reflexivity|].
  cbn [split].
  destruct (Ascii.eqb a c) eqn:E.
  - apply Ascii.eqb_eq in E. subst a.
    destruct (split c r) as [|h t] eqn:Es; [exfalso; eapply split_nonnil; eauto|].
    rewrite join_cons2, IH. reflexivity.
  - destruct (split c r) as [|h t] eqn:Es; [exfalso; eapply split_nonnil; eauto|].
    destruct t as [|h2 t].
    + cbn [join] in *. now subst.
    + rewrite join_cons2 in *. rewrite append_String. now rewrite IH.
Qed.

Lemma cut_app : forall c a b, contains c a = false -> cut c (a ++ String c b) = Some (a, b).
Proof.
  intros c a b. induction a as [|x a IH]; intros H.
  - cbn [append cut]. rewrite Ascii.eqb_refl. reflexivity.
  - cbn [contains] in H. apply orb_false_iff in H. destruct H as [Hx Ha].
    rewrite append_String. cbn [cut]. rewrite Hx, (IH Ha). reflexivity.
Qed.

Lemma cut_none : forall c a, contains c a = false -> cut c a = None.
Proof.
  intros c a. induction a as [|x a IH]; intros H; [reflexivity|].
  cbn [contains] in H. apply orb_false_iff in H. destruct H as [Hx Ha].
  cbn [cut]. rewrite Hx, (IH Ha). reflexivity.
Qed.

Lemma starts_with_app : forall p s, starts_with p (p ++ s) = true.
Proof.
  induction p as [|a p IH]; intros s; [reflexivity|].
  rewrite append_String. cbn [starts_with]. rewrite Ascii.eqb_refl. apply IH.
Qed.

Lemma append_assoc : forall a b c : string, ((a ++ b) ++ c = a ++ (b ++ c))%string.
Proof. induction a as [|x a IH]; intros; [reflexivity|]. rewrite !append_String. now rewrite IH. Qed.

Lemma sub_ns_cases : forall ns, is_sub_ns ns = true -> ns = "ipfs" \/ ns = "ipns" \/ ns = "p2p" \/ ns = "ipld".
Proof.
  intros ns H. unfold is_sub_ns in H.
  repeat (apply orb_true_iff in H; destruct H as [H|H]); apply String.eqb_eq in H; auto.
Qed.

Lemma sub_ns_clean : forall ns, is_sub_ns ns = true -> contains dot ns = false /\ contains slash ns = false.
Proof. intros ns H. destruct (sub_ns_cases ns H) as [E|[E|[E|E]]]; subst; split; reflexivity. Qed.

(** ---------- knownSubdomainDetails parses label.ns.gateway ---------- *)
Lemma ksd_loop_step : forall cfg labels j,
  ksd_loop cfg labels (S (S j)) =
  match known cfg (join "." (skipn (S (S j)) labels)) with
  | Some g =>
      if is_sub_ns (nth (S j) labels "")
      then Some (g, join "." (skipn (S (S j)) labels), nth (S j) labels "", join "." (firstn (S j) labels))
      else ksd_loop cfg labels (S j)
  | None => ksd_loop cfg labels (S j)
  end.
Proof. reflexivity. Qed.

Lemma split_app_gen : forall c a b, split c (a ++ String c b) = (split c a ++ split c b)%list.
Proof.
  intros c a b. induction a as [|x a IH].
  - cbn [append split]. rewrite Ascii.eqb_refl. reflexivity.
  - rewrite append_String. cbn [split]. destruct (Ascii.eqb x c).
    + rewrite IH. reflexivity.
    + rewrite IH. destruct (split c a) as [|h t] eqn:Es; [exfalso; eapply split_nonnil; eauto|].
      reflexivity.
Qed.

Lemma split_nodot : forall c a, contains c a = false -> split c a = [a].
Proof.
  intros c a. induction a as [|x a IH]; intros H; [reflexivity|].
  cbn [contains] in H. apply orb_false_iff in H. destruct H as [Hx Ha].
  cbn [split]. rewrite Hx, (IH Ha). reflexivity.
Qed.

Section Parse.
  Variable cfg : config.
  Variables (L ns G : string) (g : gw).
  Hypothesis Hns : is_sub_ns ns = true.
  Hypothesis HG : known cfg G = Some g.
  (** no proper suffix of the gateway's own labels is a configured gateway *)
  Hypothesis Hsfx : forall j, 1 <= j < List.length (split dot G) ->
                              known cfg (join "." (skipn j (split dot G))) = None.

  Let gl := split dot G.
  Let ll := split dot L.
  Let labels := (ll ++ ns :: gl)%list.

  Lemma skipn_labels : forall (l1 : list string) x l2 k,
    skipn (S (List.length l1) + k) (l1 ++ x :: l2)%list = skipn k l2.
  Proof. induction l1 as [|a l1 IH]; intros; [reflexivity|]. cbn [List.length app]. apply IH. Qed.

  Lemma nth_labels : forall (l1 : list string) x l2, nth (List.length l1) (l1 ++ x :: l2)%list "" = x.
  Proof. induction l1 as [|a l1 IH]; intros; [reflexivity|]. cbn [List.length app nth]. apply IH. Qed.

  Lemma firstn_labels : forall (l1 : list string) x l2, firstn (List.length l1) (l1 ++ x :: l2)%list = l1.
  Proof. induction l1 as [|a l1 IH]; intros; [reflexivity|]. cbn [List.length app firstn]. now rewrite IH. Qed.

  Lemma ksd_skip : forall p k, List.length ll = S p -> k < List.length gl ->
    ksd_loop cfg labels (S (S (p + k))) = ksd_loop cfg labels (S (S p)).
  Proof.
    intros p k Hp. induction k as [|k IH]; intros Hk; [now rewrite Nat.add_0_r|].
    rewrite Nat.add_succ_r. rewrite ksd_loop_step.
    replace (S (S (S (p + k)))) with (S (List.length ll) + S k) by lia.
    unfold labels at 1. rewrite skipn_labels.
    unfold gl at 1. rewrite (Hsfx (S k)); [|unfold gl in Hk; lia].
    apply IH. lia.
  Qed.

  (** the host  L.ns.G  is taken apart into gateway G, namespace ns and root L
      (L may itself consist of several labels: a DNSLink name) *)
  Lemma ksd_parse : known_subdomain_details cfg (L ++ "." ++ ns ++ "." ++ G) = Some (g, G, ns, L).
  Proof.
    unfold known_subdomain_details.
    change ("." ++ ns ++ "." ++ G)%string with (String dot (ns ++ String dot G)).
    rewrite (split_app_gen dot L).
    rewrite (split_app_gen dot ns G), (split_nodot dot ns (proj1 (sub_ns_clean ns Hns))).
    cbn [app]. fold gl. fold ll. fold labels.
    assert (Hlen : exists n, List.length gl = S n).
    { destruct gl as [|h t] eqn:E; [exfalso; eapply split_nonnil; eauto|]. cbn. eauto. }
    destruct Hlen as [n Hn].
    assert (Hll : exists p, List.length ll = S p).
    { destruct ll as [|h t] eqn:E; [exfalso; eapply split_nonnil; eauto|]. cbn. eauto. }
    destruct Hll as [p Hp].
    replace (List.length labels - 1) with (S (S (p + n)))
      by (unfold labels; rewrite app_length; cbn [List.length]; lia).
    rewrite (ksd_skip p n Hp) by lia.
    rewrite ksd_loop_step.
    replace (S (S p)) with (S (List.length ll) + 0) by lia.
    unfold labels. rewrite skipn_labels. cbn [skipn].
    replace (S (List.length ll) + 0) with (S (List.length ll)) by lia.
    rewrite <- Hp. rewrite nth_labels, firstn_labels.
    unfold gl, ll.
    replace (join "." (split dot G)) with G by (symmetry; exact (join_split dot G)).
    replace (join "." (split dot L)) with L by (symmetry; exact (join_split dot L)).
    rewrite HG, Hns. reflexivity.
  Qed.
End Parse.

(** ---------- oracle table facts ---------- *)
Lemma enc_in : forall orc c m b t, enc orc c m b = Some t -> In t (map fst orc).
Proof.
  induction orc as [|[k v] r IH]; intros c m b t H; cbn [enc] in H; [discriminate|].
  cbn [map fst In].
  destruct (i_cid v) as [[c' m']|].
  - destruct (N.eqb c' c && N.eqb m' m && N.eqb (i_base v) (if b then 36 else 32))%bool.
    + injection H as H. now left.
    + right. eapply IH; eauto.
  - right. eapply IH; eauto.
Qed.

Lemma enc_cid : forall orc c m b t,
  NoDup (map fst orc) -> enc orc c m b = Some t -> i_cid (info orc t) = Some (c, m).
Proof.
  induction orc as [|[k v] r IH]; intros c m b t Hnd H; cbn [enc] in H; [discriminate|].
  cbn [map fst] in Hnd. inversion Hnd as [|? ? Hk Hr]; subst.
  assert (Hrec : enc r c m b = Some t -> i_cid (info ((k, v) :: r) t) = Some (c, m)).
  { intros Hr'. cbn [info]. destruct (String.eqb k t) eqn:Ek.
    - apply String.eqb_eq in Ek. subst t. exfalso. apply Hk. eapply enc_in; eauto.
    - eapply IH; eauto. }
  destruct (i_cid v) as [[c' m']|] eqn:Ev; [|auto].
  destruct (N.eqb c' c && N.eqb m' m && N.eqb (i_base v) (if b then 36 else 32))%bool eqn:Eb; [|auto].
  injection H as H. subst t. cbn [info]. rewrite String.eqb_refl.
  apply andb_true_iff in Eb. destruct Eb as [Eb _]. apply andb_true_iff in Eb. destruct Eb as [E1 E2].
  apply N.eqb_eq in E1. apply N.eqb_eq in E2. subst. exact Ev.
Qed.

Lemma to_dns_label_cases : forall orc t c m l,
  to_dns_label orc t c m = LOk l -> (l = t \/ enc orc c m true = Some l) /\ String.length l <= 63.
Proof.
  intros orc t c m l H. split; [|eapply to_dns_label_fits; eauto].
  unfold to_dns_label in H.
  destruct (Nat.leb (String.length t) max_label); [injection H as H; auto|].
  destruct (enc orc c m true) as [t36|]; [|discriminate].
  destruct (Nat.leb (String.length t36) max_label); [|discriminate].
  injection H as H. subst. auto.
Qed.

Lemma to_dns_label_err : forall orc t c m,
  to_dns_label orc t c m = LErr -> exists t36, enc orc c m true = Some t36 /\ 63 < String.length t36.
Proof.
  intros orc t c m H. unfold to_dns_label in H.
  destruct (Nat.leb (String.length t) max_label); [discriminate|].
  destruct (enc orc c m true) as [t36|]; [|discriminate].
  destruct (Nat.leb (String.length t36) max_label) eqn:E; [discriminate|].
  exists t36. split; [reflexivity|]. apply Nat.leb_gt in E. exact E.
Qed.

Lemma to_dns_label_missing : forall orc t c m,
  to_dns_label orc t c m = LMissing -> enc orc c m true = None.
Proof.
  intros orc t c m H. unfold to_dns_label in H.
  destruct (Nat.leb (String.length t) max_label); [discriminate|].
  destruct (enc orc c m true) as [t36|]; [|reflexivity].
  destruct (Nat.leb (String.length t36) max_label); discriminate.
Qed.

Lemma to_dns_label_short : forall orc t c m,
  String.length t <= 63 -> to_dns_label orc t c m = LOk t.
Proof.
  intros orc t c m H. unfold to_dns_label.
  apply Nat.leb_le in H. unfold max_label. now rewrite H.
Qed.

(** ---------- path -> subdomain URL ---------- *)
Section Redirect.
  Variable orc : oracle.
  Hypothesis Hnd : NoDup (map fst orc).

  (** a CID (or peer id) root: the label of the redirect is a CIDv1 text of the SAME
      multihash (libp2p-key codec in the peer namespaces), at most 63 characters;
      namespace, remainder, query and fragment are carried over *)
  Theorem redirect_cid : forall H path https inl q f p0 ns root rest codec m h host p q' f',
    splitn4 path = Some (p0, ns, root, rest) ->
    root_cid orc ns root = Some (codec, m) ->
    to_subdomain_url flags_off orc H path https inl q f = SUUrl h host p q' f' ->
    exists label b,
      host = (label ++ "." ++ ns ++ "." ++ H)%string /\
      enc orc (if is_peer_ns ns then libp2p_key else codec) m b = Some label /\
      i_cid (info orc label) = Some (if is_peer_ns ns then libp2p_key else codec, m) /\
      String.length label <= 63 /\ i_hostok (info orc label) = true /\
      h = https /\ p = url_path rest /\ q' = q /\ f' = f.
  Proof.
    intros H path https inl q f p0 ns root rest codec m h host p q' f' Hsp Hroot Hu.
    unfold to_subdomain_url in Hu. rewrite Hsp in Hu.
    destruct (is_sub_ns ns); cbn [negb] in Hu; [|discriminate].
    rewrite Hroot in Hu.
    set (c' := if is_peer_ns ns then libp2p_key else codec) in *.
    destruct (enc orc c' m (is_peer_ns ns)) as [txt|] eqn:Eenc; [|discriminate].
    destruct (to_dns_label orc txt c' m) as [l| |] eqn:El; try discriminate.
    destruct (String.eqb l ""); [discriminate|].
    destruct (i_hostok (info orc l)) eqn:Ehk; cbn [negb] in Hu; [|discriminate].
    injection Hu as <- <- <- <- <-.
    destruct (to_dns_label_cases _ _ _ _ _ El) as [[->|E36] Hlen].
    - exists txt, (is_peer_ns ns). repeat split; auto. eapply enc_cid; eauto.
    - exists l, true. repeat split; auto. eapply enc_cid; eauto.
  Qed.

  (** an FQDN root: the label is the name itself, or (https / inlining gateway, record
      present) its inlined form, which then fits one DNS label *)
  Theorem redirect_dnslink : forall H path https inl q f p0 n rest h host p q' f',
    splitn4 path = Some (p0, "ipns", n, rest) ->
    root_cid orc "ipns" n = None -> contains dot n = true ->
    to_subdomain_url flags_off orc H path https inl q f = SUUrl h host p q' f' ->
    exists label,
      host = (label ++ ".ipns." ++ H)%string /\
      (label = n \/
       (label = inline n /\ String.length label <= 63 /\ has_record orc n = true /\ (inl || https)%bool = true)) /\
      h = https /\ p = url_path rest /\ q' = q /\ f' = f.
  Proof.
    intros H path https inl q f p0 n rest h host p q' f' Hsp Hroot Hdot Hu.
    unfold to_subdomain_url in Hu. rewrite Hsp in Hu.
    change (is_sub_ns "ipns") with true in Hu. cbn [negb] in Hu.
    rewrite Hroot in Hu.
    change (String.eqb "ipns" "ipns") with true in Hu.
    rewrite Hdot in Hu. cbn [negb andb] in Hu. rewrite Hdot in Hu.
    rewrite andb_true_r in Hu.
    destruct (inl || https)%bool eqn:Ei.
    - destruct (has_record orc n) eqn:Er.
      + destruct (inline_checked n) as [l|] eqn:Ec; [|discriminate].
        destruct (inline_checked_some _ _ Ec) as [-> Hlen].
        destruct (String.eqb (inline n) ""); [discriminate|].
        destruct (i_hostok (info orc (inline n))); cbn [negb] in Hu; [|discriminate].
        injection Hu as <- <- <- <- <-.
        exists (inline n). repeat split; auto.
      + destruct (String.eqb n ""); [discriminate|].
        destruct (i_hostok (info orc n)); cbn [negb] in Hu; [|discriminate].
        injection Hu as <- <- <- <- <-.
        exists n. repeat split; auto.
    - change (String.eqb "ipns" "ipfs") with false in Hu.
      destruct (String.eqb n ""); [discriminate|].
      destruct (i_hostok (info orc n)); cbn [negb] in Hu; [|discriminate].
      injection Hu as <- <- <- <- <-.
      exists n. repeat split; auto.
  Qed.

  (** ---------- subdomain host -> path ---------- *)
  Theorem host_to_path_cid : forall fl g gwhost ns L r codec m,
    g_sub g = true -> has_prefix ("/" ++ ns ++ "/" ++ L) (g_paths g) = true ->
    i_cid (info orc L) = Some (codec, m) ->
    String.length L <= 63 ->
    starts_with L (r_host r) = true ->
    (is_peer_ns ns = true -> codec = libp2p_key) ->
    handle_subdomain fl orc g gwhost ns L r =
    ONext KSub gwhost (("/" ++ ns ++ "/" ++ L) ++ r_path r) (r_query r).
  Proof.
    intros fl g gwhost ns L r codec m Hsub Hpre Hcid Hlen Hst Hpeer.
    unfold handle_subdomain. rewrite Hsub, Hpre. cbn [andb negb].
    rewrite Hcid. rewrite (to_dns_label_short _ _ _ _ Hlen). rewrite Hst. cbn [negb].
    destruct (is_peer_ns ns) eqn:Ep; [|reflexivity].
    rewrite (Hpeer eq_refl). rewrite N.eqb_refl. reflexivity.
  Qed.

  Lemma inline_has_dash : forall n, contains dot n = true -> contains dash (inline n) = true.
  Proof.
    induction n as [|c r IH]; intros H; [discriminate|].
    cbn [inline]. destruct (Ascii.eqb c dash) eqn:Ed.
    - cbn [contains]. change (Ascii.eqb dash dash) with true. reflexivity.
    - cbn [contains] in H. destruct (Ascii.eqb c dot) eqn:Et.
      + cbn [contains]. change (Ascii.eqb dash dash) with true. reflexivity.
      + cbn [orb] in H. cbn [contains]. rewrite Ed, (IH H). reflexivity.
  Qed.

  (** the inlined label of a valid FQDN with a DNSLink record is mapped back to that FQDN *)
  Theorem host_to_path_inlined : forall fl g gwhost n r,
    g_sub g = true -> has_prefix ("/ipns/" ++ inline n) (g_paths g) = true ->
    valid_dns n = true -> contains dot n = true ->
    i_cid (info orc (inline n)) = None ->
    has_record orc n = true ->
    handle_subdomain fl orc g gwhost "ipns" (inline n) r =
    ONext KSub gwhost (("/ipns/" ++ n) ++ r_path r) (r_query r).
  Proof.
    intros fl g gwhost n r Hsub Hpre Hv Hdot Hcid Hrec.
    unfold handle_subdomain. rewrite Hsub.
    change ("/" ++ "ipns" ++ "/" ++ inline n)%string with ("/ipns/" ++ inline n)%string.
    rewrite Hpre. cbn [andb negb]. rewrite Hcid.
    change (String.eqb "ipns" "ipns") with true.
    rewrite inline_no_dot, (inline_has_dash _ Hdot). cbn [negb andb].
    rewrite (uninline_inline_valid _ Hv), Hrec. reflexivity.
  Qed.

  (** a multi-label name in the host is taken as it is *)
  Theorem host_to_path_fqdn : forall fl g gwhost ns n r,
    g_sub g = true -> has_prefix ("/" ++ ns ++ "/" ++ n) (g_paths g) = true ->
    contains dot n = true -> i_cid (info orc n) = None ->
    handle_subdomain fl orc g gwhost ns n r =
    ONext KSub gwhost (("/" ++ ns ++ "/" ++ n) ++ r_path r) (r_query r).
  Proof.
    intros fl g gwhost ns n r Hsub Hpre Hdot Hcid.
    unfold handle_subdomain. rewrite Hsub, Hpre. cbn [andb negb]. rewrite Hcid, Hdot.
    cbn [negb]. rewrite andb_false_r. reflexivity.
  Qed.
End Redirect.

(** ---------- end to end: path request -> redirect -> subdomain request -> path ---------- *)
Lemma splitn4_path : forall ns root rest,
  contains slash ns = false -> contains slash root = false ->
  splitn4 ("/" ++ ns ++ "/" ++ root ++ "/" ++ rest) = Some (EmptyString, ns, root, rest).
Proof.
  intros ns root rest Hns Hroot. unfold splitn4.
  change ("/" ++ ns ++ "/" ++ root ++ "/" ++ rest)%string
    with (String slash (ns ++ String slash (root ++ String slash rest))).
  cbn [cut]. rewrite Ascii.eqb_refl.
  rewrite (cut_app slash ns _ Hns). rewrite (cut_app slash root _ Hroot). reflexivity.
Qed.

Section Identity.
  Variables (cfg : config) (orc : oracle).
  Variables (G ns : string) (g : gw).
  Hypothesis Hnd : NoDup (map fst orc).
  Hypothesis Hns : is_sub_ns ns = true.
  (** G is a configured subdomain gateway serving the namespace ... *)
  Hypothesis HG : known cfg G = Some g.
  Hypothesis Hsub : g_sub g = true.
  Hypothesis Hpaths : forall x, has_prefix ("/" ++ ns ++ "/" ++ x) (g_paths g) = true.
  (** ... whose name is not ambiguous: no proper suffix of its labels is itself a
      configured gateway (and, below, neither is the subdomain host) *)
  Hypothesis Hsfx : forall j, 1 <= j < List.length (split dot G) ->
                              known cfg (join "." (skipn j (split dot G))) = None.

  Definition req (host : string) (https : bool) (path q f : string) : request :=
    {| r_host := host; r_xhost := ""; r_https := https; r_path := path; r_query := q; r_frag := f |}.

  Lemma handler_path : forall https path q f,
    has_prefix path (g_paths g) = true ->
    handler flags_off cfg orc (req G https path q f) =
    of_su (to_subdomain_url flags_off orc G path https (g_inline g) q f) (ONext KHost G path q).
  Proof.
    intros https path q f Hp. unfold handler, req. cbn [r_host r_xhost r_path r_query r_frag r_https].
    change (String.eqb "" "") with true. cbn iota.
    rewrite HG, Hp, Hsub. reflexivity.
  Qed.

  Lemma handler_sub : forall L https path q f,
    known cfg (L ++ "." ++ ns ++ "." ++ G) = None ->
    handler flags_off cfg orc (req (L ++ "." ++ ns ++ "." ++ G) https path q f) =
    handle_subdomain flags_off orc g G ns L (req (L ++ "." ++ ns ++ "." ++ G) https path q f).
  Proof.
    intros L https path q f Hbelow. unfold handler, req. cbn [r_host r_xhost r_https r_path r_query r_frag].
    change (String.eqb "" "") with true. cbn iota.
    rewrite Hbelow. rewrite (ksd_parse cfg L ns G g Hns HG Hsfx). reflexivity.
  Qed.

  (** texts of CIDs are non-empty single DNS labels that url.Parse accepts, and the
      subdomain host made of one is not itself configured as a gateway *)
  Definition cid_texts_clean : Prop :=
    forall c m b t, enc orc c m b = Some t ->
      contains dot t = false /\ t <> EmptyString /\ i_hostok (info orc t) = true /\
      known cfg (t ++ "." ++ ns ++ "." ++ G) = None.

  (** CID and peer-id roots: the redirect goes to a label of the same multihash that
      fits in 63 characters, and the request for that URL is served under
      /ns/label/remainder with the same query — or the request is refused because
      even the base36 text is longer than 63 *)
  Theorem identity_cid : forall root rest https q f codec m,
    cid_texts_clean ->
    contains slash root = false ->
    root_cid orc ns root = Some (codec, m) ->
    let c' := if is_peer_ns ns then libp2p_key else codec in
    match handler flags_off cfg orc (req G https ("/" ++ ns ++ "/" ++ root ++ "/" ++ rest) q f) with
    | ORedirect h host p q' f' =>
        exists L,
          host = (L ++ "." ++ ns ++ "." ++ G)%string /\ String.length L <= 63 /\ contains dot L = false /\
          i_cid (info orc L) = Some (c', m) /\
          h = https /\ p = url_path rest /\ q' = q /\ f' = f /\
          handler flags_off cfg orc (req host h p q' f') =
          ONext KSub G (("/" ++ ns ++ "/" ++ L) ++ url_path rest) q
    | OBadRequest => exists t36, enc orc c' m true = Some t36 /\ 63 < String.length t36
    | OOther => exists b, enc orc c' m b = None
    | _ => False
    end.
  Proof.
    intros root rest https q f codec m Hclean Hroot Hcid c'.
    pose proof (splitn4_path ns root rest (proj2 (sub_ns_clean ns Hns)) Hroot) as Hsp.
    rewrite handler_path by apply Hpaths.
    destruct (to_subdomain_url flags_off orc G ("/" ++ ns ++ "/" ++ root ++ "/" ++ rest) https (g_inline g) q f)
      as [| | |h host p q' f'] eqn:Eu; cbn [of_su].
    - (* no redirect: impossible for a CID root *)
      unfold to_subdomain_url in Eu. rewrite Hsp, Hns, Hcid in Eu. cbn [negb] in Eu. fold c' in Eu.
      destruct (enc orc c' m (is_peer_ns ns)) as [txt|] eqn:Eenc; [|discriminate].
      destruct (to_dns_label orc txt c' m) as [l| |] eqn:El; try discriminate.
      destruct (to_dns_label_cases _ _ _ _ _ El) as [[->|E36] _].
      + destruct (Hclean _ _ _ _ Eenc) as (_ & Hne & Hk & _).
        destruct (String.eqb txt "") eqn:E0; [apply String.eqb_eq in E0; contradiction|].
        rewrite Hk in Eu. discriminate.
      + destruct (Hclean _ _ _ _ E36) as (_ & Hne & Hk & _).
        destruct (String.eqb l "") eqn:E0; [apply String.eqb_eq in E0; contradiction|].
        rewrite Hk in Eu. discriminate.
    - (* error *)
      unfold to_subdomain_url in Eu. rewrite Hsp, Hns, Hcid in Eu. cbn [negb] in Eu. fold c' in Eu.
      destruct (enc orc c' m (is_peer_ns ns)) as [txt|] eqn:Eenc; [|discriminate].
      destruct (to_dns_label orc txt c' m) as [l| |] eqn:El; try discriminate.
      + exfalso. destruct (String.eqb l ""); [discriminate|].
        destruct (to_dns_label_cases _ _ _ _ _ El) as [[->|E36] _].
        * destruct (Hclean _ _ _ _ Eenc) as (_ & _ & Hk & _). rewrite Hk in Eu. discriminate.
        * destruct (Hclean _ _ _ _ E36) as (_ & _ & Hk & _). rewrite Hk in Eu. discriminate.
      + eapply to_dns_label_err; eauto.
    - (* oracle entry missing *)
      unfold to_subdomain_url in Eu. rewrite Hsp, Hns, Hcid in Eu. cbn [negb] in Eu. fold c' in Eu.
      destruct (enc orc c' m (is_peer_ns ns)) as [txt|] eqn:Eenc; [|eauto].
      destruct (to_dns_label orc txt c' m) as [l| |] eqn:El; try discriminate.
      + destruct (String.eqb l ""); [discriminate|]. destruct (i_hostok (info orc l)); discriminate.
      + exists true. eapply to_dns_label_missing; eauto.
    - destruct (redirect_cid orc Hnd _ _ _ _ _ _ _ _ _ _ _ _ _ _ _ _ _ Hsp Hcid Eu)
        as (L & b & -> & Henc & HLcid & Hlen & Hhk & -> & -> & -> & ->).
      fold c' in Henc, HLcid.
      destruct (Hclean _ _ _ _ Henc) as (HLdot & _ & _ & Hbelow).
      exists L. repeat split; auto.
      rewrite handler_sub by exact Hbelow.
      apply (host_to_path_cid orc) with (codec := c') (m := m); auto.
      + apply starts_with_app.
      + intros Hp. unfold c'. now rewrite Hp.
  Qed.

  Lemma contains_nonempty : forall c s, contains c s = true -> String.eqb s "" = false.
  Proof. intros c s H. destruct s; [discriminate|reflexivity]. Qed.

  (** DNSLink names: a valid FQDN with a record is redirected to itself as a
      multi-label host or (https / inlining gateway) to its inlined single label of at
      most 63 characters; either way the request for that URL is served under
      /ipns/<the original FQDN>/remainder — or the request is refused because the
      inlined form is longer than 63 *)
  Theorem identity_dnslink : forall n rest https q f,
    ns = "ipns" ->
    valid_dns n = true -> contains dot n = true -> contains slash n = false ->
    root_cid orc "ipns" n = None -> i_cid (info orc n) = None -> i_cid (info orc (inline n)) = None ->
    has_record orc n = true ->
    i_hostok (info orc n) = true -> i_hostok (info orc (inline n)) = true ->
    known cfg (n ++ ".ipns." ++ G) = None -> known cfg (inline n ++ ".ipns." ++ G) = None ->
    match handler flags_off cfg orc (req G https ("/ipns/" ++ n ++ "/" ++ rest) q f) with
    | ORedirect h host p q' f' =>
        (host = (n ++ ".ipns." ++ G)%string \/
         (host = (inline n ++ ".ipns." ++ G)%string /\ String.length (inline n) <= 63 /\
          contains dot (inline n) = false)) /\
        h = https /\ p = url_path rest /\ q' = q /\ f' = f /\
        handler flags_off cfg orc (req host h p q' f') =
        ONext KSub G (("/ipns/" ++ n) ++ url_path rest) q
    | OBadRequest => 63 < String.length n + count dash n
    | _ => False
    end.
  Proof.
    intros n rest https q f Ens Hv Hdot Hsl Hroot Hcid Hcidi Hrec Hk Hki Hb1 Hb2.
    assert (Hsp : splitn4 ("/ipns/" ++ n ++ "/" ++ rest) = Some (EmptyString, "ipns", n, rest)).
    { apply (splitn4_path "ipns" n rest); [reflexivity|exact Hsl]. }
    assert (Hp1 : forall x, has_prefix ("/ipns/" ++ x) (g_paths g) = true).
    { intros x. generalize (Hpaths x). rewrite Ens. auto. }
    rewrite handler_path by apply Hp1.
    assert (Hserve : forall L, (L = n \/ L = inline n) ->
              handler flags_off cfg orc (req (L ++ ".ipns." ++ G) https (url_path rest) q f) =
              ONext KSub G (("/ipns/" ++ n) ++ url_path rest) q).
    { intros L HL.
      generalize (handler_sub L https (url_path rest) q f). rewrite Ens.
      change (L ++ "." ++ "ipns" ++ "." ++ G)%string with (L ++ ".ipns." ++ G)%string.
      intros Hs. rewrite Hs by (destruct HL as [->| ->]; assumption). clear Hs.
      destruct HL as [->| ->].
      - apply (host_to_path_fqdn orc); auto; apply Hp1.
      - apply (host_to_path_inlined orc); auto; apply Hp1. }
    unfold to_subdomain_url. rewrite Hsp.
    change (is_sub_ns "ipns") with true. cbn [negb]. rewrite Hroot.
    change (String.eqb "ipns" "ipns") with true.
    rewrite Hdot. cbn [negb andb]. rewrite Hdot. rewrite andb_true_r.
    destruct (g_inline g || https)%bool.
    - rewrite Hrec.
      destruct (inline_checked n) as [l|] eqn:Ec.
      + destruct (inline_checked_some _ _ Ec) as [-> Hlen].
        rewrite (contains_nonempty dash (inline n) (inline_has_dash n Hdot)). rewrite Hki.
        cbn [negb of_su].
        split; [right; repeat split; auto; apply inline_no_dot|].
        repeat split; auto.
      + cbn [of_su]. now apply inline_checked_none.
    - change (String.eqb "ipns" "ipfs") with false.
      rewrite (contains_nonempty dot n Hdot). rewrite Hk. cbn [negb of_su].
      split; [left; reflexivity|]. repeat split; auto.
  Qed.
End Identity.

(** ---------- a boolean check of [cid_texts_clean] for concrete tables ---------- *)
Lemma enc_entry : forall orc c m b t, enc orc c m b = Some t ->
  exists v, In (t, v) orc /\ i_cid v <> None /\ i_base v <> 0%N.
Proof.
  induction orc as [|[k v] r IH]; intros c m b t H; cbn [enc] in H; [discriminate|].
  assert (Hrec : enc r c m b = Some t -> exists v0, In (t, v0) ((k, v) :: r) /\ i_cid v0 <> None /\ i_base v0 <> 0%N).
  { intros Hr. destruct (IH _ _ _ _ Hr) as (v0 & Hin & Hv). exists v0. split; [now right|exact Hv]. }
  destruct (i_cid v) as [[c' m']|] eqn:Ev; [|auto].
  destruct (N.eqb c' c && N.eqb m' m && N.eqb (i_base v) (if b then 36 else 32))%bool eqn:Eb; [|auto].
  injection H as H. subst t. exists v. split; [now left|]. split; [congruence|].
  apply andb_true_iff in Eb. destruct Eb as [_ Eb]. apply N.eqb_eq in Eb. rewrite Eb. destruct b; discriminate.
Qed.

Definition clean_entry (cfg : config) (orc : oracle) (G ns : string) (kv : string * sinfo) : bool :=
  match i_cid (snd kv) with
  | None => true
  | Some _ =>
      N.eqb (i_base (snd kv)) 0 ||
      (negb (contains dot (fst kv)) && negb (String.eqb (fst kv) "") && i_hostok (info orc (fst kv)) &&
       match known cfg (fst kv ++ "." ++ ns ++ "." ++ G) with None => true | Some _ => false end)
  end.

Lemma cid_texts_clean_check : forall cfg orc G ns,
  forallb (clean_entry cfg orc G ns) orc = true -> cid_texts_clean cfg orc G ns.
Proof.
  intros cfg orc G ns H c m b t He.
  destruct (enc_entry _ _ _ _ _ He) as (v & Hin & Hc & Hb).
  rewrite forallb_forall in H. specialize (H _ Hin). unfold clean_entry in H. cbn [fst snd] in H.
  destruct (i_cid v); [|congruence].
  apply N.eqb_neq in Hb. rewrite Hb in H. cbn [orb] in H.
  repeat (apply andb_true_iff in H; destruct H as [H ?]).
  apply negb_true_iff in H. repeat split; auto.
  - intros ->. discriminate.
  - destruct (known cfg (t ++ "." ++ ns ++ "." ++ G)); [discriminate|reflexivity].
Qed.

(** ---------- concrete instances (non-vacuity) and the fragment defect ---------- *)
Definition gw_ex : gw := {| g_paths := ["/ipfs"; "/ipns"]; g_sub := true; g_nodnslink := false; g_inline := true |}.
Definition cfg_ex : config := {| c_exact := [("dweb.link", gw_ex)]; c_wild := []; c_nodnslink := false |}.
Definition mk (cid : option (N * N)) (base : N) (peer : option N) (rec : bool) : sinfo :=
  {| i_cid := cid; i_base := base; i_peer := peer; i_dom := true; i_ip := false; i_rec := rec; i_hostok := true |}.
(** texts are abstract here: "Qm1" stands for a CIDv0, "bafy1" for its base32 CIDv1, ... *)
Definition orc_ex : oracle :=
  [ ("Qm1", mk (Some (112, 1)%N) 0 (Some 1%N) false);
    ("bafy1", mk (Some (112, 1)%N) 32 None false);
    ("k2k1", mk (Some (114, 1)%N) 36 (Some 1%N) false);
    ("my.v-long.example.com", mk None 0 None true);
    ("my-v--long-example-com", mk None 0 None false) ].

Lemma ex_nodup : NoDup (map fst orc_ex).
Proof. repeat constructor; cbn; intuition discriminate. Qed.

Lemma ex_paths : forall ns x, ns = "ipfs" \/ ns = "ipns" ->
  has_prefix ("/" ++ ns ++ "/" ++ x) (g_paths gw_ex) = true.
Proof. intros ns x [->| ->]; reflexivity. Qed.

Lemma ex_sfx : forall j, 1 <= j < List.length (split dot "dweb.link") ->
  known cfg_ex (join "." (skipn j (split dot "dweb.link"))) = None.
Proof. intros j Hj. cbn in Hj. assert (j = 1) by lia. subst. reflexivity. Qed.

Lemma ex_clean : forall ns, ns = "ipfs" \/ ns = "ipns" -> cid_texts_clean cfg_ex orc_ex "dweb.link" ns.
Proof. intros ns [->| ->]; apply cid_texts_clean_check; vm_compute; reflexivity. Qed.

(** the fragment: with the defect switch on (what hostname.go did before fixes/C32-1.patch)
    the redirect drops it; the repaired model keeps it *)
Definition orc_frag : oracle := [("bafkqaaa", mk (Some (85, 1)%N) 32 None false)].
Definition intent_frag : intent :=
  {| t_gw := "dweb.link"; t_ns := "ipfs"; t_root := "bafkqaaa"; t_rest := "a"; t_query := "x=1"; t_frag := "top"; t_https := false |}.
Definition req_frag : request := req "dweb.link" false "/ipfs/bafkqaaa/a" "x=1" "top".

Theorem fragment_refuted :
  handler flags_on cfg_ex orc_frag req_frag = ORedirect false "bafkqaaa.ipfs.dweb.link" "/a" "x=1" "" /\
  spec_outcome orc_frag intent_frag (handler flags_on cfg_ex orc_frag req_frag) = false /\
  spec_outcome orc_frag intent_frag (handler flags_off cfg_ex orc_frag req_frag) = true.
Proof. vm_compute. repeat split. Qed.
