(** C03 — proofs about the verified-read model [M_C03]. *)
From Coq Require Import List NArith ZArith Bool Lia.
From V Require Import lib.Verdict model.M_C03.
Import ListNotations.
Open Scope N_scope.

Lemma bytes_eqb_eq : forall a b, bytes_eqb a b = true <-> a = b.
Proof.
  induction a as [|x a IH]; intros [|y b]; cbn [bytes_eqb]; split; intros H; try congruence; try discriminate.
  - apply andb_prop in H. destruct H as [H1 H2]. apply N.eqb_eq in H1. apply IH in H2. congruence.
  - injection H as -> ->. rewrite N.eqb_refl. cbn. now apply IH.
Qed.

Lemma cid_eqb_eq : forall a b, cid_eqb a b = true <-> a = b.
Proof.
  intros [p d] [q e]. unfold cid_eqb. cbn [c_pref c_digest]. split; intros H.
  - apply andb_prop in H. destruct H as [H1 H2]. apply N.eqb_eq in H1. apply bytes_eqb_eq in H2. congruence.
  - injection H as -> ->. rewrite N.eqb_refl. cbn. now apply bytes_eqb_eq.
Qed.

Lemma cid_eqb_neq : forall a b, a <> b -> cid_eqb a b = false.
Proof. intros a b H. destruct (cid_eqb a b) eqn:E; [|reflexivity]. apply cid_eqb_eq in E. contradiction. Qed.

Section Hash.
  Variable B : Type.
  Variable H : N -> B -> option bytes.

  (** the validating blockstore hands out [b] only if [b] is known to hash to the requested CID
      (the digest is computable and equal), whatever the backing store holds *)
  Theorem vget_sound : forall backing c b, vget B H backing c = OOk b ->
    sum B H (c_pref c) b = Some c /\ backing = Some b.
  Proof.
    intros backing c b E. unfold vget in E. destruct backing as [b0|]; [|discriminate].
    destruct (sum B H (c_pref c) b0) as [c'|] eqn:Es; [|discriminate].
    destruct (cid_eqb c' c) eqn:Ec; [|discriminate].
    injection E as <-. apply cid_eqb_eq in Ec. subst c'. split; [assumption|reflexivity].
  Qed.

  Theorem vget_intact : forall pref b d, H pref b = Some d -> vget B H (Some b) (Cid pref d) = OOk b.
  Proof.
    intros pref b d Hd. unfold vget, sum. cbn [c_pref]. rewrite Hd. cbn [option_map].
    now rewrite (proj2 (cid_eqb_eq _ _) eq_refl).
  Qed.

  (** any stored content whose digest differs from the requested one (every flip, truncation, extension
      of the block, unless it is a hash collision) is refused *)
  Theorem vget_corrupted : forall c b' d, H (c_pref c) b' = Some d -> d <> c_digest c ->
    vget B H (Some b') c = OHashMismatch.
  Proof.
    intros c b' d Hd Hne. unfold vget, sum. rewrite Hd. cbn [option_map]. rewrite cid_eqb_neq; [reflexivity|].
    intros E. apply Hne. rewrite <- E. reflexivity.
  Qed.

  (** when no digest can be computed for the requested CID (unknown hash code, impossible digest
      length) the answer is an error, never the stored bytes *)
  Theorem vget_uncomputable : forall c b', H (c_pref c) b' = None -> vget B H (Some b') c = OOther.
  Proof. intros c b' Hn. unfold vget, sum. now rewrite Hn. Qed.

  (** altogether: Get never answers with a block except in the intact case *)
  Theorem vget_ok_iff : forall backing c b,
    vget B H backing c = OOk b <-> backing = Some b /\ H (c_pref c) b = Some (c_digest c).
  Proof.
    intros backing c b. split.
    - intros E. destruct (vget_sound _ _ _ E) as [Es ->]. split; [reflexivity|].
      unfold sum in Es. destruct (H (c_pref c) b) as [d|]; [|discriminate]. cbn in Es. injection Es as Es.
      rewrite <- Es. reflexivity.
    - intros [-> Hd]. destruct c as [p d]. cbn [c_pref c_digest] in *. now apply vget_intact.
  Qed.
End Hash.

Lemma region_length : forall content off size, off + size <= N.of_nat (length content) ->
  length (region content off size) = N.to_nat size.
Proof. intros content off size Hl. unfold region. rewrite firstn_length, skipn_length. lia. Qed.

Section FsHash.
  Variable H : N -> bytes -> option bytes.

  (** a file reference: data comes back only if it is the region [offset, offset+size) of the file AS IT IS
      NOW (any state [f], i.e. after any modification, truncation, removal since the reference was written)
      and that region is known to hash to the reference's CID *)
  Theorem fs_read_sound : forall allow r f off size want b,
    fs_read H allow r f off size want = OOk b ->
    sum bytes H (c_pref want) b = Some want /\ read_at r f off size = inl b /\ allow = true /\
    (size <> 0 -> exists content, f = FFile content /\ off + size <= N.of_nat (length content) /\ b = region content off size).
  Proof.
    intros allow r f off size want b E. unfold fs_read in E.
    destruct allow; cbn [negb] in E; [|discriminate].
    destruct (read_at r f off size) as [b0|s] eqn:Er; [|discriminate].
    destruct (sum bytes H (c_pref want) b0) as [c'|] eqn:Es; [|discriminate].
    destruct (cid_eqb c' want) eqn:Ec; [|discriminate].
    injection E as <-. apply cid_eqb_eq in Ec. subst c'. repeat split; try assumption.
    intros Hs. apply N.eqb_neq in Hs. unfold read_at in Er.
    destruct f as [| |content]; [discriminate| |].
    - destruct r; [rewrite Hs in Er|]; discriminate.
    - exists content. destruct r.
      + rewrite Hs in Er. destruct (off + size <=? N.of_nat (length content)) eqn:El; [|discriminate].
        apply N.leb_le in El. injection Er as <-. repeat split; assumption.
      + destruct (N.of_nat (length content) <? off); [discriminate|].
        destruct (off + size <=? N.of_nat (length content)) eqn:El; [|discriminate].
        apply N.leb_le in El. injection Er as <-. repeat split; assumption.
  Qed.

  Theorem fs_read_gone : forall r off size want, fs_read H true r FGone off size want = OCorrupt StFileNotFound.
  Proof. reflexivity. Qed.

  Theorem fs_read_shrunk : forall r content off size want, size <> 0 ->
    N.of_nat (length content) < off + size ->
    fs_read H true r (FFile content) off size want =
      OCorrupt (match r with
                | RStd => StFileChanged
                | RMmap => if N.of_nat (length content) <? off then StFileError else StFileChanged
                end).
  Proof.
    intros r content off size want Hs Hl. unfold fs_read, read_at. cbn [negb].
    apply N.eqb_neq in Hs. destruct r.
    - rewrite Hs. destruct (N.leb_spec (off + size) (N.of_nat (length content))); [lia|reflexivity].
    - destruct (N.of_nat (length content) <? off); [reflexivity|].
      destruct (N.leb_spec (off + size) (N.of_nat (length content))); [lia|reflexivity].
  Qed.

  Lemma read_at_inside : forall r content off size, size <> 0 -> off + size <= N.of_nat (length content) ->
    read_at r (FFile content) off size = inl (region content off size).
  Proof.
    intros r content off size Hs Hl. unfold read_at. apply N.eqb_neq in Hs. destruct r.
    - rewrite Hs. destruct (N.leb_spec (off + size) (N.of_nat (length content))); [reflexivity|lia].
    - destruct (N.ltb_spec (N.of_nat (length content)) off); [lia|].
      destruct (N.leb_spec (off + size) (N.of_nat (length content))); [reflexivity|lia].
  Qed.

  Theorem fs_read_changed : forall r content off size want d, size <> 0 ->
    off + size <= N.of_nat (length content) ->
    H (c_pref want) (region content off size) = Some d -> d <> c_digest want ->
    fs_read H true r (FFile content) off size want = OCorrupt StFileChanged.
  Proof.
    intros r content off size want d Hs Hl Hd Hne. unfold fs_read. cbn [negb].
    rewrite read_at_inside by assumption. unfold sum. rewrite Hd. cbn [option_map].
    rewrite cid_eqb_neq; [reflexivity|]. intros E. apply Hne. rewrite <- E. reflexivity.
  Qed.

  (** no digest computable for the reference's multihash: an error, never data *)
  Theorem fs_read_uncomputable : forall allow r f off size want,
    (forall b, H (c_pref want) b = None) ->
    forall b, fs_read H allow r f off size want <> OOk b.
  Proof.
    intros allow r f off size want Hn b E. apply fs_read_sound in E. destruct E as [Es _].
    unfold sum in Es. now rewrite Hn in Es.
  Qed.

  Theorem fs_read_intact : forall r content off size pref d, size <> 0 ->
    off + size <= N.of_nat (length content) -> H pref (region content off size) = Some d ->
    fs_read H true r (FFile content) off size (Cid pref d) = OOk (region content off size).
  Proof.
    intros r content off size pref d Hs Hl Hd. unfold fs_read. cbn [negb].
    rewrite read_at_inside by assumption. unfold sum. cbn [c_pref]. rewrite Hd. cbn [option_map].
    now rewrite (proj2 (cid_eqb_eq _ _) eq_refl).
  Qed.

  (** a URL reference: data comes back only if it is the first [size] bytes of a 200/206 answer and is known to hash to the CID *)
  Theorem url_read_sound : forall allow code body size want b,
    url_read H allow code body size want = OOk b ->
    sum bytes H (c_pref want) b = Some want /\ b = firstn (N.to_nat size) body /\
    (code = 200 \/ code = 206) /\ size <= N.of_nat (length body) /\ allow = true.
  Proof.
    intros allow code body size want b E. unfold url_read in E.
    destruct allow; cbn [negb] in E; [|discriminate].
    destruct ((code =? 200) || (code =? 206)) eqn:Ecode; cbn [negb] in E; [|discriminate].
    destruct (N.ltb_spec (N.of_nat (length body)) size); [discriminate|].
    destruct (sum bytes H (c_pref want) (firstn (N.to_nat size) body)) as [c'|] eqn:Es; [|discriminate].
    destruct (cid_eqb c' want) eqn:Ec; [|discriminate].
    injection E as <-. apply cid_eqb_eq in Ec. subst c'. apply orb_prop in Ecode.
    repeat split; try assumption. destruct Ecode as [Ecode|Ecode]; apply N.eqb_eq in Ecode; [now left|now right].
  Qed.

  Theorem filestore_get_ref : forall ref, filestore_get None ref = ref.
  Proof. reflexivity. Qed.
End FsHash.
