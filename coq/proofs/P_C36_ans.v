(** C36 — proofs about the decision-engine model [M_C36], part 4:
    every want in the ledger whose block is present has a queued task (defects off). *)
From Coq Require Import List ZArith Bool NArith Arith Lia Permutation.
From V Require Import lib.Verdict model.M_C36 proofs.P_C36 proofs.P_C36_inv.
Import ListNotations.
Open Scope Z_scope.

(** ---------- merging and pushing never lose "have" / "is a block task" ---------- *)
Definition tle (t t' : task) : Prop :=
  (t_have t = true -> t_have t' = true) /\ (t_isblock t = true -> t_isblock t' = true).

Lemma tle_refl t : tle t t. Proof. split; auto. Qed.
Lemma tle_trans a b c : tle a b -> tle b c -> tle a c.
Proof. intros [A1 A2] [B1 B2]. split; auto. Qed.

Lemma merge_ge_ex n ex : tle ex (merge n ex).
Proof.
  unfold tle, merge. destruct n as [np nh nb ns nz], ex as [ep eh eb es ez]; cbn.
  destruct eh, nh, eb, nb; cbn; auto.
Qed.
Lemma merge_ge_new n ex : tle n (merge n ex).
Proof.
  unfold tle, merge. destruct n as [np nh nb ns nz], ex as [ep eh eb es ez]; cbn.
  destruct eh, nh, eb, nb; cbn; auto.
Qed.

Lemma push1_keeps ts ct c t : aget ts c = Some t -> exists t', aget (push1 ts ct) c = Some t' /\ tle t t'.
Proof.
  intros H. unfold push1. destruct ct as [c0 n]; cbn [fst snd].
  destruct (aget ts c0) as [ex|] eqn:E; rewrite aget_aset; destruct (c0 =? c)%nat eqn:Ec.
  - apply Nat.eqb_eq in Ec. subst c0. rewrite E in H. injection H as ->.
    eexists; split; [reflexivity|apply merge_ge_ex].
  - exists t. split; [exact H|apply tle_refl].
  - apply Nat.eqb_eq in Ec. subst c0. congruence.
  - exists t. split; [exact H|apply tle_refl].
Qed.

Lemma push1_has ts c n : exists t', aget (push1 ts (c, n)) c = Some t' /\ tle n t'.
Proof.
  unfold push1; cbn [fst snd]. destruct (aget ts c) as [ex|]; rewrite aget_aset, Nat.eqb_refl.
  - eexists; split; [reflexivity|apply merge_ge_new].
  - eexists; split; [reflexivity|apply tle_refl].
Qed.

Lemma fold_push1_keeps new : forall ts c t, aget ts c = Some t ->
  exists t', aget (fold_left push1 new ts) c = Some t' /\ tle t t'.
Proof.
  induction new as [|ct r IH]; intros ts c t H; cbn [fold_left].
  - exists t. split; [exact H|apply tle_refl].
  - destruct (push1_keeps ts ct c t H) as (t1 & H1 & L1).
    destruct (IH _ c t1 H1) as (t2 & H2 & L2). exists t2. split; [exact H2|eapply tle_trans; eauto].
Qed.

Lemma fold_push1_has new : forall ts c n, In (c, n) new ->
  exists t', aget (fold_left push1 new ts) c = Some t' /\ tle n t'.
Proof.
  induction new as [|ct r IH]; intros ts c n Hin; cbn [fold_left]; [destruct Hin|].
  destruct Hin as [->|Hin].
  - destruct (push1_has ts c n) as (t1 & H1 & L1).
    destruct (fold_push1_keeps r _ c t1 H1) as (t2 & H2 & L2). exists t2. split; [exact H2|eapply tle_trans; eauto].
  - apply IH, Hin.
Qed.

Lemma push_off lim ts new : push flags_off lim ts new = fold_left push1 new ts.
Proof. reflexivity. Qed.

(** ---------- the per-peer invariant ---------- *)
Definition AInv (b : list cid) (s : pst) : Prop :=
  forall c e, aget (pl s) c = Some e -> nmem c b = true ->
    exists t, aget (tasks s) c = Some t /\ t_have t = true /\ (snd e = true -> t_isblock t = true).

Lemma AInv0 b : AInv b pst0.
Proof. intros c e H. cbn in H. discriminate. Qed.

(** how a message moves single ledger entries *)
Definition emoves (ws : list want) (s s' : pst) : Prop :=
  forall c e, aget (pl s') c = Some e ->
    (aget (pl s) c = Some e /\ aget (tasks s') c = aget (tasks s) c) \/
    (exists w, In w ws /\ w_cid w = c /\ e = (w_prio w, w_block w)).

Lemma emoves_refl ws s : emoves ws s s.
Proof. intros c e H. left. auto. Qed.
Lemma emoves_trans ws s1 s2 s3 : emoves ws s1 s2 -> emoves ws s2 s3 -> emoves ws s1 s3.
Proof.
  intros A B c e H. destruct (B c e H) as [[H1 H2]|H1]; [|right; exact H1].
  destruct (A c e H1) as [[H3 H4]|H3]; [left; split; [exact H3|congruence]|right; exact H3].
Qed.
Lemma emoves_mono ws ws' s s' : (forall w, In w ws -> In w ws') -> emoves ws s s' -> emoves ws' s s'.
Proof.
  intros Hsub A c e H. destruct (A c e H) as [H1|(w & Hw & Hr)]; [left; exact H1|right; exists w; auto].
Qed.

Lemma emoves_wants lim s w :
  emoves (if snd (ledger_wants lim s (w_cid w) (w_prio w, w_block w)) then [w] else [])
         s (fst (ledger_wants lim s (w_cid w) (w_prio w, w_block w))).
Proof.
  unfold ledger_wants.
  destruct ((length (pl s) =? lim)%nat && negb (amem (pl s) (w_cid w))); cbn [fst snd]; [apply emoves_refl|].
  intros c e. cbn [pl tasks]. rewrite aget_aset. destruct (w_cid w =? c)%nat eqn:E.
  - apply Nat.eqb_eq in E. intros [= <-]. right. exists w. split; [left; reflexivity|auto].
  - intros H. left. auto.
Qed.

Lemma emoves_cancel_task ws s c0 :
  emoves ws s (let (s1, had) := cancel_want s c0 in
               if had then {| pl := pl s1; inv := inv s1; tasks := adel (tasks s1) c0 |} else s1).
Proof.
  unfold cancel_want. intros c e.
  destruct (amem (pl s) c0) eqn:M; cbn [pl tasks]; rewrite aget_adel; destruct (c0 =? c)%nat eqn:E;
    try discriminate; intros H; left; split; auto.
  rewrite aget_adel, E. reflexivity.
Qed.

Lemma filter_overflow_emoves lim s ws :
  let '(s2, keep, ov) := filter_overflow lim s ws in emoves keep s s2.
Proof.
  unfold filter_overflow.
  set (f := fun (acc : pst * list want * list want) (w : want) => _).
  assert (G : forall l acc,
    let '(s0, k0, o0) := acc in emoves k0 s s0 ->
    let '(s2, keep, ov) := fold_left f l acc in emoves keep s s2).
  { induction l as [|w r IH]; intros [[s0 k0] o0]; cbn [fold_left]; [auto|].
    intros M0. specialize (IH (f (s0, k0, o0) w)). subst f. cbn beta iota in *.
    pose proof (emoves_wants lim s0 w) as Mw.
    destruct (ledger_wants lim s0 (w_cid w) (w_prio w, w_block w)) as [s' ok]. cbn [fst snd] in Mw.
    destruct ok; apply IH.
    - eapply emoves_trans; [eapply emoves_mono; [|exact M0]|eapply emoves_mono; [|exact Mw]].
      + intros x Hx. apply in_or_app. left; exact Hx.
      + intros x Hx. apply in_or_app. right; exact Hx.
    - exact M0. }
  specialize (G ws (s, [], [])). cbn beta iota in G. apply G, emoves_refl.
Qed.

Lemma apply_plan_emoves lim s plan : emoves (map snd plan) s (apply_plan lim s plan).
Proof.
  unfold apply_plan. revert s. induction plan as [|[e o] r IH]; intros s; cbn [fold_left map]; [apply emoves_refl|].
  eapply emoves_trans; [|eapply emoves_mono; [|apply IH]; intros x Hx; right; exact Hx].
  cbn [fst snd]. cbn zeta.
  pose proof (emoves_cancel_task (o :: map snd r) s (fst e)) as M1.
  destruct (cancel_want s (fst e)) as [s1 had].
  eapply emoves_trans; [exact M1|].
  pose proof (emoves_wants lim (if had then {| pl := pl s1; inv := inv s1; tasks := adel (tasks s1) (fst e) |} else s1) o) as M2.
  eapply emoves_mono; [|exact M2]. intros x Hx.
  destruct (snd (ledger_wants lim _ (w_cid o) (w_prio o, w_block o))); [destruct Hx as [<-|[]]; left; reflexivity|destruct Hx].
Qed.

Lemma do_cancels_emoves ws s cs : emoves ws s (do_cancels flags_off s cs).
Proof.
  rewrite do_cancels_off_eq. revert s. induction cs as [|e r IH]; intros s; cbn [fold_left]; [apply emoves_refl|].
  eapply emoves_trans; [|apply IH].
  intros c x. unfold cancel1; cbn [pl tasks]. rewrite !aget_adel. destruct (w_cid e =? c)%nat; [discriminate|].
  intros H. left. auto.
Qed.

Lemma AInv_msg g b p full ents s :
  AInv b s -> AInv b (msg_peer flags_off g b p full ents s).
Proof.
  intros HA. destruct ents as [|e0 er] eqn:Ee; [exact HA|]. rewrite <- Ee.
  assert (Hne : ents <> []) by (rewrite Ee; discriminate).
  rewrite (msg_peer_off_eq _ _ _ _ _ _ Hne). cbn zeta.
  destruct (split g p ents) as [[ws cs] ds].
  set (s1 := if full then pst0 else s).
  pose proof (filter_overflow_emoves (c_limit g) s1 ws) as Fm.
  destruct (filter_overflow (c_limit g) s1 ws) as [[s2 keep] ov].
  assert (M23 : let (s3, ws') := match ov with [] => (s2, keep) | _ :: _ => handle_overflow flags_off g b s2 ov keep end in
                emoves ws' s1 s3).
  { destruct ov as [|o ovr]; [exact Fm|]. unfold handle_overflow.
    eapply emoves_trans; [eapply emoves_mono; [|exact Fm]|eapply emoves_mono; [|apply apply_plan_emoves]];
      intros x Hx; apply in_or_app; [left|right]; exact Hx. }
  destruct (match ov with [] => (s2, keep) | _ :: _ => handle_overflow flags_off g b s2 ov keep end) as [s3 ws'].
  pose proof (emoves_trans _ _ _ _ M23 (do_cancels_emoves ws' s3 cs)) as M.
  set (s4 := do_cancels flags_off s3 cs) in *.
  intros c e Hc Hb. cbn [pl tasks] in *. rewrite push_off.
  destruct (M c e Hc) as [[H1 H2]|(w & Hw & Hcw & He)].
  - assert (Hs : full = false /\ aget (pl s) c = Some e).
    { subst s1. destruct full; [cbn in H1; discriminate|auto]. }
    destruct Hs as [-> Hs]. subst s1. destruct (HA c e Hs Hb) as (t & Ht & Hh & Hty).
    rewrite <- H2 in Ht. destruct (fold_push1_keeps (flat_map (dh_task g) ds ++ flat_map (want_task flags_off g b) ws') _ c t Ht)
      as (t' & Ht' & [L1 L2]).
    exists t'. auto.
  - subst c e.
    assert (Hin : In (w_cid w, {| t_prio := w_prio w; t_have := true;
                                  t_isblock := negb (have_path g w) && send_as_block g (w_block w) (if have_path g w then 0 else size_of g (w_cid w));
                                  t_sdh := w_sdh w; t_bsize := if have_path g w then 0 else size_of g (w_cid w) |})
                   (flat_map (dh_task g) ds ++ flat_map (want_task flags_off g b) ws')).
    { apply in_or_app. right. apply in_flat_map. exists w. split; [exact Hw|].
      unfold want_task. rewrite found_off, Hb. cbn [f_zero_absent flags_off]. left; reflexivity. }
    destruct (fold_push1_has _ (tasks s4) _ _ Hin) as (t' & Ht' & [L1 L2]). cbn [t_have t_isblock] in *.
    exists t'. split; [exact Ht'|split; [auto|]]. cbn [snd]. intros Hblk. apply L2.
    unfold have_path, send_as_block. rewrite Hblk. cbn [negb]. rewrite andb_false_r. reflexivity.
Qed.

Lemma AInv_add g b s c0 : inv s = pl s -> AInv b s -> AInv (nadd c0 b) (notify_peer flags_off g c0 s).
Proof.
  intros Hi HA c e Hc Hb. unfold notify_peer in *.
  destruct (aget (inv s) c0) as [[pr ty]|] eqn:E; cbn [pl tasks] in *.
  - rewrite push_off. destruct (c =? c0)%nat eqn:Ec.
    + apply Nat.eqb_eq in Ec. subst c. rewrite Hi in E. rewrite E in Hc. injection Hc as <-.
      destruct (fold_push1_has [(c0, {| t_prio := pr; t_have := true; t_isblock := send_as_block g ty (size_of g c0);
                                         t_sdh := false; t_bsize := size_of g c0 |})] (tasks s) c0 _ (or_introl eq_refl))
        as (t' & Ht' & [L1 L2]). cbn [t_have t_isblock] in *.
      exists t'. split; [exact Ht'|split; [auto|]]. cbn [snd]. intros ->. apply L2. reflexivity.
    + rewrite nmem_nadd, Ec in Hb. cbn [orb] in Hb. destruct (HA c e Hc Hb) as (t & Ht & Hh & Hty).
      destruct (fold_push1_keeps [(c0, {| t_prio := pr; t_have := true; t_isblock := send_as_block g ty (size_of g c0);
                                          t_sdh := false; t_bsize := size_of g c0 |})] _ c t Ht) as (t' & Ht' & [L1 L2]).
      exists t'. auto.
  - destruct (c =? c0)%nat eqn:Ec.
    + apply Nat.eqb_eq in Ec. subst c. rewrite Hi in E. congruence.
    + rewrite nmem_nadd, Ec in Hb. cbn [orb] in Hb. apply (HA c e Hc Hb).
Qed.

Lemma AInv_rem b s c0 : AInv b s -> AInv (nrem c0 b) s.
Proof.
  intros HA c e Hc Hb. rewrite nmem_nrem in Hb. apply andb_true_iff in Hb. apply (HA c e Hc), Hb.
Qed.

(** drain: whatever had a task and a present block is answered and leaves the ledger *)
Lemma cwt_aget s c bm k e : aget (pl (cancel_with_type s c bm)) k = Some e -> aget (pl s) k = Some e.
Proof.
  unfold cancel_with_type. destruct (aget (pl s) c) as [[pr ty]|]; [|auto].
  destruct (negb bm && ty); [auto|]. cbn [pl]. rewrite aget_adel. destruct (c =? k)%nat; [discriminate|auto].
Qed.

Lemma cwt_fold_aget l bm : forall s k e,
  aget (pl (fold_left (fun s c => cancel_with_type s c bm) l s)) k = Some e -> aget (pl s) k = Some e.
Proof.
  induction l as [|c r IH]; intros s k e H; cbn [fold_left] in H; [exact H|].
  apply IH in H. eapply cwt_aget; eauto.
Qed.

Lemma cwt_fold_removes l bm c : forall s,
  In c l -> (forall e, aget (pl s) c = Some e -> bm = true \/ snd e = false) ->
  aget (pl (fold_left (fun s c => cancel_with_type s c bm) l s)) c = None.
Proof.
  induction l as [|c0 r IH]; intros s Hin Hty; [destruct Hin|]. cbn [fold_left].
  destruct (aget (pl (fold_left (fun s c => cancel_with_type s c bm) r (cancel_with_type s c0 bm))) c) as [e|] eqn:E; [|reflexivity].
  exfalso. pose proof (cwt_fold_aget r bm _ _ _ E) as E1.
  destruct (Nat.eq_dec c0 c) as [->|Hne].
  - unfold cancel_with_type in E1. destruct (aget (pl s) c) as [[pr ty]|] eqn:Es; [|congruence].
    destruct (Hty _ eq_refl) as [->|Hf]; cbn [negb andb snd] in *.
    + cbn [pl] in E1. rewrite aget_adel, Nat.eqb_refl in E1. discriminate.
    + subst ty. rewrite andb_false_r in E1. cbn [pl] in E1. rewrite aget_adel, Nat.eqb_refl in E1. discriminate.
  - destruct Hin as [->|Hin]; [congruence|].
    assert (aget (pl (fold_left (fun s c => cancel_with_type s c bm) r (cancel_with_type s c0 bm))) c = None).
    { apply IH; [exact Hin|]. intros e' He'. apply Hty. eapply cwt_aget; eauto. }
    congruence.
Qed.

Lemma AInv_drain b s : AInv b s -> AInv b (fst (drain_peer b s)).
Proof.
  intros HA c e Hc Hb. exfalso. unfold drain_peer in Hc; cbn [fst pl] in Hc.
  rewrite response_eq in Hc. unfold message_sent in Hc.
  set (s1 := fold_left (fun s c => cancel_with_type s c true) (flat_map (em1 b) (tasks s)) s) in *.
  pose proof (cwt_fold_aget _ _ _ _ _ Hc) as H1. fold s1 in H1.
  pose proof (cwt_fold_aget _ _ _ _ _ H1) as H0.
  destruct (HA c e H0 Hb) as (t & Ht & Hh & Hty). apply aget_In in Ht.
  destruct (t_isblock t) eqn:Hib.
  - (* a block was sent *)
    assert (In c (flat_map (em1 b) (tasks s))).
    { apply in_flat_map. exists (c, t). split; [exact Ht|]. unfold em1, emits; cbn [fst snd]. rewrite Hh, Hib, Hb. left; reflexivity. }
    assert (aget (pl s1) c = None) by (apply cwt_fold_removes; [assumption|intros; left; reflexivity]).
    congruence.
  - (* a HAVE was sent; the want is a want-have *)
    assert (In c (flat_map (em2 b) (tasks s))).
    { apply in_flat_map. exists (c, t). split; [exact Ht|]. unfold em2, emits; cbn [fst snd]. rewrite Hh, Hib. left; reflexivity. }
    assert (aget (pl (fold_left (fun s c => cancel_with_type s c false) (flat_map (em2 b) (tasks s)) s1)) c = None).
    { apply cwt_fold_removes; [assumption|]. intros e' He'. right. rewrite H1 in He'. injection He' as <-.
      destruct (snd e) eqn:Se; [|reflexivity]. specialize (Hty eq_refl). congruence. }
    congruence.
Qed.

(** ---------- along every run ---------- *)
Definition AInvs (s : state) : Prop := forall p, (p < length (peers s))%nat -> AInv (bs s) (nth p (peers s) pst0).

Lemma AInvs_step g s gs o : Inv g s gs -> AInvs s -> AInvs (fst (step flags_off g s o)).
Proof.
  intros (I1 & I2 & I3) HA. destruct o as [p full ents|c|c|]; cbn [step].
  - destruct (p <? length (peers s))%nat eqn:Lp; cbn [fst]; [|exact HA].
    intros q Hq. unfold setp in *; cbn [peers bs] in *. rewrite upd_length in Hq. rewrite nth_upd, Lp, andb_true_r.
    destruct (q =? p)%nat eqn:Eq; [|apply HA, Hq]. apply Nat.eqb_eq in Eq. subst q.
    apply AInv_msg. apply HA, Hq.
  - cbn [fst]. intros q Hq. cbn [peers bs] in *. rewrite map_length in Hq.
    rewrite (nth_indep _ pst0 (notify_peer flags_off g c pst0)) by (rewrite map_length; exact Hq).
    rewrite map_nth. apply AInv_add; [|apply HA, Hq]. apply (I3 q Hq).
  - cbn [fst]. intros q Hq. cbn [peers bs] in *. apply AInv_rem, HA, Hq.
  - cbn [fst]. intros q Hq. cbn [peers bs] in *. rewrite !map_length in Hq. rewrite map_map.
    rewrite (nth_indep _ pst0 (fst (drain_peer (bs s) pst0))) by (rewrite map_length; exact Hq).
    rewrite (map_nth (fun x => fst (drain_peer (bs s) x))). apply AInv_drain, HA, Hq.
Qed.

Lemma answered_of_inv g s gs rs : Inv g s gs -> AInvs s -> answered_ok gs (obs_step s rs) = true.
Proof.
  intros (I1 & I2 & I3) HA. unfold answered_ok, obs_step; cbn [so_peers].
  apply forallb_forall. intros po Hpo. apply in_map_iff in Hpo. destruct Hpo as (x & <- & Hx).
  destruct (In_nth _ _ pst0 Hx) as (q & Hq & Eq). subst x.
  apply forallb_forall. intros [c e] Hce. unfold obs_peer in *; cbn [o_inv o_topics fst] in *.
  destruct (nmem c (gbs gs)) eqn:Hb; [|reflexivity]. cbn [negb orb].
  apply (Permutation_in _ (ksort_perm _)) in Hce.
  destruct (I3 q Hq) as (P1 & _). rewrite P1 in Hce.
  assert (Hm : amem (pl (nth q (peers s) pst0)) c = true) by (eapply In_amem; eauto).
  unfold amem in Hm. destruct (aget (pl (nth q (peers s) pst0)) c) as [e'|] eqn:E; [|discriminate].
  rewrite <- I1 in Hb. destruct (HA q Hq c e' E Hb) as (t & Ht & _).
  apply nmem_In, In_nsort. apply aget_In in Ht. apply (in_map fst) in Ht. exact Ht.
Qed.

Theorem trace_answered g : forall ops s gs,
  Inv g s gs -> AInvs s -> Forall wf_op ops ->
  trace_ok answered_clause gs ops (run flags_off g s ops) = true.
Proof.
  induction ops as [|o r IH]; intros s gs HI HA Hwf; cbn [run trace_ok]; [reflexivity|].
  inversion Hwf as [|x l Ho Hr]; subst.
  pose proof (Inv_step g s gs o HI Ho) as St. cbn zeta in St.
  pose proof (AInvs_step g s gs o HI HA) as HA'.
  destruct (step flags_off g s o) as [s' rs]. cbn [fst snd] in *. destruct St as (HI' & _ & _).
  cbn [trace_ok]. unfold answered_clause at 1. rewrite (answered_of_inv g s' _ rs HI' HA'). cbn [andb].
  apply IH; assumption.
Qed.

Theorem answered g np b0 ops : Forall wf_op ops ->
  trace_ok answered_clause (ghost0 np b0) ops (run flags_off g (init np b0) ops) = true.
Proof.
  intros H. apply trace_answered; [apply Inv_init| |exact H].
  intros p Hp. unfold init in *; cbn [peers bs] in *.
  assert (E1 : nth p (repeat pst0 np) pst0 = pst0).
  { destruct (nth_in_or_default p (repeat pst0 np) pst0) as [H0|H0]; [apply repeat_spec in H0|]; exact H0. }
  rewrite E1. apply AInv0.
Qed.
