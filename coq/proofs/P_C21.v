(** C21 — proofs about the republisher LTS of model/M_C21.v. *)
From Coq Require Import List ZArith Bool NArith Arith Lia Sorted.
From V Require Import lib.Verdict model.M_C21.
Import ListNotations.

Lemma lookup_kw_none w l : mem_nat w (map fst l) = false -> lookup_kw w l = None.
Proof.
  induction l as [|[x k] r IH]; cbn [lookup_kw mem_nat map fst existsb]; [reflexivity|].
  intro H. apply orb_false_iff in H. destruct H as [H1 H2]. rewrite H1. apply IH. exact H2.
Qed.

Lemma cid_of_upd c0 s s' c i :
  nupd s' = S (nupd s) -> hist s' = c :: hist s -> i <= nupd s -> cid_of c0 s' i = cid_of c0 s i.
Proof.
  intros Hn Hh Hi. unfold cid_of. destruct i as [|i]; [reflexivity|].
  rewrite Hn, Hh. replace (S (nupd s) - S i) with (S (nupd s - S i)) by lia. reflexivity.
Qed.

Definition InvCore (c0 : Z) (s : st) : Prop :=
  fresh s <= recvd s /\ recvd s <= nupd s /\
  match slot s with
  | Some (i, c) => i = nupd s /\ recvd s < i /\ cid_of c0 s i = c
  | None => recvd s = nupd s
  end /\
  match topub s with
  | Some (i, c) => i = recvd s /\ fresh s < i /\ c <> lastpub s /\ cid_of c0 s i = c
  | None => fresh s = recvd s
  end /\
  (pubbing s = true -> topub s <> None /\ quick s = false /\ long s = false /\ stopped s = false) /\
  lastpub s = cid_of c0 s (fresh s) /\
  (forall w, waiter s = Some w -> exists k, lookup_kw w (kw s) = Some k /\ k <= recvd s) /\
  (forall w, In w (released s) -> exists k, lookup_kw w (kw s) = Some k /\ k <= fresh s) /\
  (forall w k, lookup_kw w (kw s) = Some k -> k <= nupd s) /\
  (forall j, In j (publog s) -> 1 <= j <= fresh s) /\
  StronglySorted gt (publog s) /\
  (forall w, In w (pending s) -> exists k, lookup_kw w (kw s) = Some k).
(** timers are armed exactly while a value waits to be published outside the publish call *)
Definition InvTimers (s : st) : Prop :=
  ((quick s = true \/ long s = true) -> topub s <> None) /\
  (pubbing s = false -> topub s <> None -> quick s = true \/ long s = true).
Definition Inv (c0 : Z) (s : st) : Prop := InvCore c0 s /\ InvTimers s.

Lemma inv_init c0 : Inv c0 (init c0).
Proof.
  unfold Inv, InvCore, InvTimers, init; cbn.
  repeat split; try lia; try congruence; try tauto; try constructor;
    try (intros; discriminate); try (intros [H|H]; discriminate).
Qed.

Ltac ds s := destruct s as [sl tp lp wt im qk lg pb sp pd rl nu hi rc fr kws pl].
Ltac core_parts H :=
  destruct H as (H1 & H2 & H3 & H4 & H5 & H8 & H9 & H10 & H11 & H12 & H13 & H14).
Ltac fields := cbn [slot topub lastpub waiter imm quick long pubbing stopped pending released nupd hist recvd fresh kw publog].

Lemma core_notify c0 s : InvCore c0 s -> topub s = None -> InvCore c0 (notify s).
Proof.
  intros H Ht. unfold notify. destruct (waiter s) as [w|] eqn:Ew; [|exact H].
  unfold InvCore in *. core_parts H. fields.
  split; [exact H1|]. split; [exact H2|]. split; [exact H3|]. split; [exact H4|].
  split; [exact H5|]. split; [exact H8|].
  split; [intros w' E; discriminate|].
  split. { intros w' [E|E]; [subst w'|auto]. destruct (H9 w Ew) as (k & Hk & Hle).
           exists k. split; [exact Hk|]. rewrite Ht in H4. lia. }
  split; [exact H11|]. split; [exact H12|]. split; assumption.
Qed.

(** the block after the select re-establishes the timer clauses *)
Lemma inv_cleanup c0 s : InvCore c0 s -> pubbing s = false -> stopped s = false -> Inv c0 (cleanup s).
Proof.
  intros H Hp Hs. unfold cleanup. fields.
  destruct (topub s) as [[i c]|] eqn:Et.
  - split.
    + unfold InvCore in *. core_parts H. fields. rewrite Et in *.
      split; [exact H1|]. split; [exact H2|]. split; [exact H3|]. split; [exact H4|].
      split; [intros _; repeat split; congruence|].
      split; [exact H8|]. split; [exact H9|]. split; [exact H10|]. split; [exact H11|]. split; [exact H12|]. split; assumption.
    + unfold InvTimers. fields. split; [intros [E|E]; discriminate|intro E; discriminate].
  - split.
    + apply core_notify; [|fields; first [reflexivity|exact Et]].
      unfold InvCore in *. core_parts H. fields. rewrite Et in *. rewrite Hp.
      split; [exact H1|]. split; [exact H2|]. split; [exact H3|]. split; [exact H4|].
      split; [intro E; discriminate|].
      split; [exact H8|]. split; [exact H9|]. split; [exact H10|]. split; [exact H11|]. split; [exact H12|]. split; assumption.
    + unfold InvTimers, notify. fields. destruct (waiter s); fields; try rewrite Et;
        (split; [intros [E|E]; discriminate|intros _ E; congruence]).
Qed.

Lemma inv_upd c0 s c s' : Inv c0 s -> step s (EUpd c) = Some s' -> Inv c0 s'.
Proof.
  intros [H HT] E. cbn [step] in E. inversion E; subst s'; clear E.
  assert (Hc : forall i, i <= nupd s ->
     cid_of c0 (mk (Some (S (nupd s), c)) (topub s) (lastpub s) (waiter s) (imm s) (quick s) (long s) (pubbing s)
                   (stopped s) (pending s) (released s) (S (nupd s)) (c :: hist s) (recvd s) (fresh s) (kw s) (publog s)) i
     = cid_of c0 s i) by (intros i Hi; apply (cid_of_upd c0 s _ c i); [reflexivity|reflexivity|exact Hi]).
  split; [|exact HT].
  unfold InvCore in *. core_parts H. fields.
  split; [exact H1|]. split; [lia|].
  split. { split; [reflexivity|]. split; [lia|]. unfold cid_of. cbn. rewrite Nat.sub_diag. reflexivity. }
  split. { destruct (topub s) as [[i c']|]; [|exact H4]. destruct H4 as (A & B & C & D).
           repeat split; try assumption. rewrite Hc by lia. exact D. }
  split; [exact H5|].
  split. { rewrite Hc by lia. exact H8. }
  split; [exact H9|]. split; [exact H10|].
  split. { intros w k Hk. specialize (H11 w k Hk). lia. }
  split; [exact H12|]. split; assumption.
Qed.

Lemma inv_wait c0 s w s' : Inv c0 s -> step s (EWait w) = Some s' -> Inv c0 s'.
Proof.
  intros [H HT] E. cbn [step] in E. destruct (mem_nat w (map fst (kw s))) eqn:Em; [discriminate|].
  inversion E; subst s'; clear E. apply lookup_kw_none in Em. split; [|exact HT].
  unfold InvCore in *. core_parts H. fields.
  assert (Hk : forall w' k, lookup_kw w' (kw s) = Some k -> lookup_kw w' ((w, nupd s) :: kw s) = Some k).
  { intros w' k Hk. cbn [lookup_kw]. destruct (Nat.eqb w' w) eqn:Ew; [|exact Hk].
    apply Nat.eqb_eq in Ew. subst. congruence. }
  split; [exact H1|]. split; [exact H2|]. split; [exact H3|]. split; [exact H4|].
  split; [exact H5|]. split; [exact H8|].
  split. { intros w' Ew. destruct (H9 w' Ew) as (k & A & B). exists k. split; [apply Hk; exact A|exact B]. }
  split. { intros w' Ew. destruct (H10 w' Ew) as (k & A & B). exists k. split; [apply Hk; exact A|exact B]. }
  split. { intros w' k. cbn [lookup_kw]. destruct (Nat.eqb w' w); [intro A; inversion A; lia|apply H11]. }
  split; [exact H12|]. split; [exact H13|].
  intros w' [E|E].
  - subst w'. exists (nupd s). cbn [lookup_kw]. rewrite Nat.eqb_refl. reflexivity.
  - destruct (H14 w' E) as (k & K). exists k. apply Hk. exact K.
Qed.

Lemma in_remove_nat w x l : In w (remove_nat x l) -> In w l.
Proof.
  induction l as [|y r IH]; cbn [remove_nat]; [tauto|].
  destruct (Nat.eqb x y); cbn [In]; [auto|intros [E|E]; auto].
Qed.
Lemma mem_nat_in w l : mem_nat w l = true -> In w l.
Proof.
  unfold mem_nat. intro H. apply existsb_exists in H. destruct H as (x & Hin & E).
  apply Nat.eqb_eq in E. subst. exact Hin.
Qed.

Lemma inv_timeout c0 s w s' : Inv c0 s -> step s (ETimeout w) = Some s' -> Inv c0 s'.
Proof.
  intros [H HT] E. cbn [step] in E. inversion E; subst s'. split; [|exact HT].
  unfold InvCore in *. core_parts H. fields.
  split; [exact H1|]. split; [exact H2|]. split; [exact H3|]. split; [exact H4|]. split; [exact H5|].
  split; [exact H8|]. split; [exact H9|]. split; [exact H10|]. split; [exact H11|]. split; [exact H12|].
  split; [exact H13|]. intros w' Hw. apply H14. eapply in_remove_nat. exact Hw.
Qed.

Lemma inv_recv c0 s s' : Inv c0 s -> step s ERecv = Some s' -> Inv c0 s'.
Proof.
  intros [H HT] E. cbn [step] in E. unfold idle in E.
  destruct (pubbing s) eqn:Ep; [discriminate|]. destruct (stopped s) eqn:Es; [discriminate|].
  cbn [negb andb] in E. destruct (slot s) as [[i c]|] eqn:Esl; [|discriminate].
  unfold InvCore in H. core_parts H. rewrite Esl in H3. destruct H3 as (A & B & C).
  destruct (Z.eqb c (lastpub s)) eqn:Ec; inversion E; subst s'; clear E.
  - apply Z.eqb_eq in Ec. apply inv_cleanup; [|first [exact Ep|reflexivity]|first [exact Es|reflexivity]].
    unfold InvCore. fields. try rewrite Ep.
    split; [lia|]. split; [lia|]. split; [lia|]. split; [reflexivity|].
    split; [intro X; discriminate|].
    split. { unfold cid_of in *. destruct i; [lia|]. rewrite <- Ec. symmetry. exact C. }
    split. { intros w Ew. destruct (H9 w Ew) as (k & K1 & K2). exists k. split; [exact K1|lia]. }
    split. { intros w Ew. destruct (H10 w Ew) as (k & K1 & K2). exists k. split; [exact K1|lia]. }
    split; [exact H11|].
    split. { intros j Hj. specialize (H12 j Hj). lia. }
    split; [exact H13|exact H14].
  - apply Z.eqb_neq in Ec. split.
    + unfold InvCore. fields. try rewrite Ep.
      split; [lia|]. split; [lia|]. split; [lia|].
      split. { split; [reflexivity|]. split; [lia|]. split; [exact Ec|exact C]. }
      split; [intro X; discriminate|].
      split; [exact H8|].
      split. { intros w Ew. destruct (H9 w Ew) as (k & K1 & K2). exists k. split; [exact K1|lia]. }
      split; [exact H10|]. split; [exact H11|]. split; [exact H12|]. split; assumption.
    + unfold InvTimers. fields. split; [intros _ X; discriminate|intros _ _; left; reflexivity].
Qed.

Lemma inv_timer c0 s : Inv c0 s -> idle s = true -> Inv c0 (cleanup s).
Proof.
  intros [H HT] Hi. unfold idle in Hi. apply andb_true_iff in Hi. destruct Hi as [A B].
  apply negb_true_iff in A. apply negb_true_iff in B. apply inv_cleanup; assumption.
Qed.
Lemma inv_quick c0 s s' : Inv c0 s -> step s EQuick = Some s' -> Inv c0 s'.
Proof.
  intros H E. cbn [step] in E. destruct (idle s) eqn:Ei; [|discriminate]. cbn [negb orb] in E.
  destruct (negb (quick s)); [discriminate|]. inversion E; subst. apply inv_timer; assumption.
Qed.
Lemma inv_long c0 s s' : Inv c0 s -> step s ELong = Some s' -> Inv c0 s'.
Proof.
  intros H E. cbn [step] in E. destruct (idle s) eqn:Ei; [|discriminate]. cbn [negb orb] in E.
  destruct (negb (long s)); [discriminate|]. inversion E; subst. apply inv_timer; assumption.
Qed.

Lemma inv_imm c0 s w s' : Inv c0 s -> step s (EImm w) = Some s' -> Inv c0 s'.
Proof.
  intros [H HT] E. cbn [step] in E. unfold idle in E.
  destruct (pubbing s) eqn:Ep; [discriminate|]. destruct (stopped s) eqn:Es; [discriminate|].
  cbn [negb andb orb] in E. destruct (negb (imm s)); [discriminate|]. cbn [orb] in E.
  destruct (mem_nat w (pending s)) eqn:Em; [|discriminate]. cbn [negb] in E.
  inversion E; subst s'; clear E. apply mem_nat_in in Em.
  apply inv_cleanup; [|first [exact Ep|reflexivity]|first [exact Es|reflexivity]].
  unfold InvCore in *. core_parts H. fields. try rewrite Ep.
  destruct (H14 w Em) as (kw0 & Kw). pose proof (H11 w kw0 Kw) as Kle.
  assert (P14 : forall w', In w' (remove_nat w (pending s)) -> exists k, lookup_kw w' (kw s) = Some k)
    by (intros w' Hw'; apply H14; eapply in_remove_nat; exact Hw').
  destruct (slot s) as [[i c]|] eqn:Esl.
  - destruct H3 as (A & B & C). destruct (Z.eqb c (lastpub s)) eqn:Ec.
    + apply Z.eqb_eq in Ec.
      split; [lia|]. split; [lia|]. split; [lia|]. split; [reflexivity|].
      split; [intro X; discriminate|].
      split. { unfold cid_of in *. destruct i; [lia|]. rewrite <- Ec. symmetry. exact C. }
      split. { intros w' Ew'. inversion Ew'; subst w'. exists kw0. split; [exact Kw|lia]. }
      split. { intros w' Ew'. destruct (H10 w' Ew') as (k & K1 & K2). exists k. split; [exact K1|lia]. }
      split; [exact H11|].
      split. { intros j Hj. specialize (H12 j Hj). lia. }
      split; [exact H13|exact P14].
    + apply Z.eqb_neq in Ec.
      split; [lia|]. split; [lia|]. split; [lia|].
      split. { split; [reflexivity|]. split; [lia|]. split; [exact Ec|exact C]. }
      split; [intro X; discriminate|].
      split; [exact H8|].
      split. { intros w' Ew'. inversion Ew'; subst w'. exists kw0. split; [exact Kw|lia]. }
      split; [exact H10|]. split; [exact H11|]. split; [exact H12|]. split; [exact H13|exact P14].
  - destruct (topub s) as [[j cj]|] eqn:Et.
    + destruct H4 as (A & B & C & D).
      replace (Z.eqb cj (lastpub s)) with false by (symmetry; apply Z.eqb_neq; exact C).
      split; [lia|]. split; [lia|]. split; [exact H3|].
      split. { repeat split; assumption. }
      split; [intro X; discriminate|].
      split; [exact H8|].
      split. { intros w' Ew'. inversion Ew'; subst w'. exists kw0. split; [exact Kw|lia]. }
      split; [exact H10|]. split; [exact H11|]. split; [exact H12|]. split; [exact H13|exact P14].
    + split; [lia|]. split; [lia|]. split; [exact H3|]. split; [exact H4|].
      split; [intro X; discriminate|].
      split; [exact H8|].
      split. { intros w' Ew'. inversion Ew'; subst w'. exists kw0. split; [exact Kw|lia]. }
      split; [exact H10|]. split; [exact H11|]. split; [exact H12|]. split; [exact H13|exact P14].
Qed.

Lemma inv_pubok c0 s s' : Inv c0 s -> step s EPubOk = Some s' -> Inv c0 s'.
Proof.
  intros [H HT] E. cbn [step] in E. destruct (pubbing s) eqn:Ep; [|discriminate]. cbn [negb] in E.
  destruct (topub s) as [[i c]|] eqn:Et; [|discriminate]. inversion E; subst s'; clear E.
  unfold InvCore in H. core_parts H. rewrite Et in H4. destruct H4 as (A & B & C & D).
  destruct (H5 Ep) as (_ & Q1 & Q2 & Q3).
  split.
  - apply core_notify; [|reflexivity]. unfold InvCore. fields.
    split; [lia|]. split; [exact H2|]. split; [exact H3|]. split; [lia|].
    split; [intro X; discriminate|].
    split; [symmetry; exact D|].
    split. { intros w Ew. destruct (H9 w Ew) as (k & K1 & K2). exists k. split; [exact K1|lia]. }
    split. { intros w Ew. destruct (H10 w Ew) as (k & K1 & K2). exists k. split; [exact K1|lia]. }
    split; [exact H11|].
    split. { intros j [Hj|Hj]; [subst j; lia|]. specialize (H12 j Hj). lia. }
    split; [|exact H14].
    constructor; [exact H13|]. apply Forall_forall. intros j Hj. specialize (H12 j Hj). lia.
  - unfold InvTimers, notify. fields. rewrite Q1, Q2.
    destruct (waiter s); fields; (split; [intros [X|X]; discriminate|intros _ X; congruence]).
Qed.

Lemma inv_pubfail c0 s s' : Inv c0 s -> step s EPubFail = Some s' -> Inv c0 s'.
Proof.
  intros [H HT] E. cbn [step] in E. destruct (pubbing s) eqn:Ep; [|discriminate]. cbn [negb] in E.
  inversion E; subst s'; clear E.
  unfold InvCore in H. core_parts H. destruct (H5 Ep) as (Q0 & Q1 & Q2 & Q3).
  split.
  - unfold InvCore. fields.
    split; [exact H1|]. split; [exact H2|]. split; [exact H3|]. split; [exact H4|].
    split; [intro X; discriminate|].
    split; [exact H8|]. split; [exact H9|]. split; [exact H10|]. split; [exact H11|]. split; [exact H12|].
    split; assumption.
  - unfold InvTimers. fields. split; [intros _; exact Q0|intros _ _; right; reflexivity].
Qed.

Lemma inv_closeret c0 s s' : Inv c0 s -> step s ECloseRet = Some s' -> Inv c0 s'.
Proof.
  intros [H HT] E. cbn [step] in E. destruct (pubbing s) eqn:Ep; [discriminate|].
  destruct (stopped s); [discriminate|]. cbn [orb] in E. inversion E; subst s'; clear E.
  split.
  - unfold InvCore in *. core_parts H. fields.
    split; [exact H1|]. split; [exact H2|]. split; [exact H3|]. split; [exact H4|].
    split; [intro X; discriminate|].
    split; [exact H8|]. split; [exact H9|]. split; [exact H10|]. split; [exact H11|]. split; [exact H12|].
    split; assumption.
  - unfold InvTimers in *. fields. destruct HT as [T1 T2]. split; [exact T1|intros _; apply T2; exact Ep].
Qed.

Theorem step_inv c0 s e s' : Inv c0 s -> step s e = Some s' -> Inv c0 s'.
Proof.
  destruct e.
  - apply inv_upd. - apply inv_wait. - apply inv_timeout. - apply inv_recv. - apply inv_imm.
  - apply inv_quick. - apply inv_long. - apply inv_pubok. - apply inv_pubfail. - apply inv_closeret.
Qed.

Theorem run_inv c0 es : forall s s', Inv c0 s -> run s es = Some s' -> Inv c0 s'.
Proof.
  induction es as [|e r IH]; intros s s' H E; cbn [run] in E.
  - inversion E; subst. exact H.
  - destruct (step s e) as [s1|] eqn:Es; [|discriminate]. eapply IH; [|exact E]. eapply step_inv; eassumption.
Qed.

(** ---------- safety, for every run ---------- *)
Definition reachable (c0 : Z) (s : st) : Prop := exists es, run (init c0) es = Some s.
Lemma reachable_inv c0 s : reachable c0 s -> Inv c0 s.
Proof. intros [es H]. eapply run_inv; [apply inv_init|exact H]. Qed.

(** no regress: successful publishes carry strictly increasing update indices, each is the
    cid of that update, differs from the value published before, and is the newest update
    the loop has seen *)
Theorem no_regress c0 s : reachable c0 s ->
  StronglySorted gt (publog s) /\ (forall j, In j (publog s) -> 1 <= j <= nupd s).
Proof.
  intro R. destruct (reachable_inv _ _ R) as [H _]. unfold InvCore in H. core_parts H.
  split; [exact H13|]. intros j Hj. specialize (H12 j Hj). lia.
Qed.
Theorem publish_step c0 s s' : reachable c0 s -> step s EPubOk = Some s' ->
  exists i c, topub s = Some (i, c) /\ c = cid_of c0 s i /\ i = recvd s /\ c <> lastpub s /\
              (forall j, In j (publog s) -> j < i) /\ publog s' = i :: publog s /\ lastpub s' = c.
Proof.
  intros R E. destruct (reachable_inv _ _ R) as [H _]. unfold InvCore in H. core_parts H.
  cbn [step] in E. destruct (pubbing s); [|discriminate]. cbn [negb] in E.
  destruct (topub s) as [[i c]|]; [|discriminate]. destruct H4 as (A & B & C & D).
  exists i, c. inversion E; subst s'; clear E.
  split; [reflexivity|]. split; [symmetry; exact D|]. split; [exact A|]. split; [exact C|].
  split. { intros j Hj. specialize (H12 j Hj). lia. }
  unfold notify. fields. destruct (waiter s); split; reflexivity.
Qed.

(** WaitPub: once the wait channel of call [w] is closed, lastPublished is the cid of an
    update at least as new as every update handed over before [w] was called *)
Theorem waitpub_released c0 s w : reachable c0 s -> In w (released s) ->
  exists k, lookup_kw w (kw s) = Some k /\ k <= fresh s /\ fresh s <= nupd s /\
            lastpub s = cid_of c0 s (fresh s).
Proof.
  intros R Hw. destruct (reachable_inv _ _ R) as [H _]. unfold InvCore in H. core_parts H.
  destruct (H10 w Hw) as (k & K1 & K2). exists k. repeat split; try assumption; lia.
Qed.

(** after Close returned nothing is published any more *)
Theorem stopped_silent c0 s e : reachable c0 s -> stopped s = true ->
  match e with ERecv | EImm _ | EQuick | ELong | EPubOk | EPubFail | ECloseRet => step s e = None | _ => True end.
Proof.
  intros R Hs. destruct (reachable_inv _ _ R) as [H _]. unfold InvCore in H. core_parts H.
  assert (Hp : pubbing s = false).
  { destruct (pubbing s) eqn:Ep; [|reflexivity]. destruct (H5 eq_refl) as (_ & _ & _ & X). congruence. }
  destruct e; cbn [step]; unfold idle; rewrite ?Hs, ?Hp; cbn; try reflexivity; exact I.
Qed.

(** ---------- liveness: ranking function ---------- *)
Lemma length_remove_nat w l : In w l -> length (remove_nat w l) < length l.
Proof.
  induction l as [|x r IH]; cbn [remove_nat In length]; [tauto|].
  destruct (Nat.eqb w x) eqn:E.
  - intros _. clear IH. assert (length (remove_nat w r) <= length r); [|lia].
    induction r as [|y r IH]; cbn [remove_nat length]; [lia|]. destruct (Nat.eqb w y); cbn [length]; lia.
  - intros [H|H]; [subst; rewrite Nat.eqb_refl in E; discriminate|]. cbn [length]. specialize (IH H). lia.
Qed.

Lemma rank_notify s : rank (notify s) = rank s.
Proof. unfold notify. destruct (waiter s); reflexivity. Qed.
Lemma rank_cleanup s : pubbing s = false ->
  rank (cleanup s) = (match slot s with Some _ => 3 | None => 0 end) +
                     (match topub s with Some _ => 1 | None => 0 end) + length (pending s).
Proof.
  intro Hp. unfold cleanup. fields. destruct (topub s) eqn:Et.
  - unfold rank. fields. reflexivity.
  - rewrite rank_notify. unfold rank. fields. rewrite Hp. reflexivity.
Qed.

(** every step the loop can take on its own (publishing succeeding) lowers the rank *)
Theorem internal_decreases c0 s e s' :
  Inv c0 s -> internal e = true -> step s e = Some s' -> rank s' < rank s.
Proof.
  intros [H [T1 T2]] Hi E. destruct e; try discriminate Hi; cbn [step] in E.
  - (* ERecv *)
    unfold idle in E. destruct (pubbing s) eqn:Ep; [discriminate|]. destruct (stopped s); [discriminate|].
    cbn [negb andb orb] in E. destruct (slot s) as [[i c]|] eqn:Esl; [|discriminate].
    destruct (Z.eqb c (lastpub s)); inversion E; subst s'; clear E.
    + rewrite rank_cleanup by reflexivity. fields. unfold rank. rewrite Esl, Ep. destruct (topub s); lia.
    + unfold rank. fields. rewrite Esl, Ep. destruct (topub s); lia.
  - (* EImm *)
    unfold idle in E. destruct (pubbing s) eqn:Ep; [discriminate|]. destruct (stopped s); [discriminate|].
    cbn [negb andb orb] in E. destruct (negb (imm s)); [discriminate|]. cbn [negb andb orb] in E.
    destruct (mem_nat w (pending s)) eqn:Em; [|discriminate]. cbn [negb andb orb] in E. inversion E; subst s'; clear E.
    apply mem_nat_in in Em. apply length_remove_nat in Em.
    rewrite rank_cleanup by reflexivity. fields. unfold rank. rewrite Ep.
    destruct (slot s) as [[i c]|]; destruct (topub s) as [[j cj]|];
      repeat match goal with |- context [if ?b then _ else _] => destruct b end; lia.
  - (* EQuick *)
    unfold idle in E. destruct (pubbing s) eqn:Ep; [discriminate|]. destruct (stopped s); [discriminate|].
    cbn [negb andb orb] in E. destruct (quick s) eqn:Eq; [|discriminate]. cbn [negb andb orb] in E. inversion E; subst s'; clear E.
    rewrite rank_cleanup by exact Ep. unfold rank. rewrite Ep.
    destruct (topub s) eqn:Et; [lia|]. exfalso. apply T1; [left; reflexivity|reflexivity].
  - (* ELong *)
    unfold idle in E. destruct (pubbing s) eqn:Ep; [discriminate|]. destruct (stopped s); [discriminate|].
    cbn [negb andb orb] in E. destruct (long s) eqn:Eq; [|discriminate]. cbn [negb andb orb] in E. inversion E; subst s'; clear E.
    rewrite rank_cleanup by exact Ep. unfold rank. rewrite Ep.
    destruct (topub s) eqn:Et; [lia|]. exfalso. apply T1; [right; reflexivity|reflexivity].
  - (* EPubOk *)
    destruct (pubbing s) eqn:Ep; [|discriminate]. cbn [negb andb orb] in E.
    destruct (topub s) as [[i c]|]; [|discriminate]. inversion E; subst s'; clear E.
    rewrite rank_notify. unfold rank. fields. rewrite Ep. lia.
Qed.

(** unless everything is accounted for, the loop can move on its own *)
Theorem progress c0 s : Inv c0 s -> stopped s = false -> quiescent s = false ->
  exists e s', internal e = true /\ step s e = Some s'.
Proof.
  intros [H [T1 T2]] Hs Hq. unfold InvCore in H. core_parts H.
  destruct (pubbing s) eqn:Ep.
  - destruct (H5 eq_refl) as (Q0 & _). destruct (topub s) as [[i c]|] eqn:Et; [|congruence].
    exists EPubOk. eexists. split; [reflexivity|]. cbn [step]. rewrite Ep, Et. reflexivity.
  - destruct (slot s) as [[i c]|] eqn:Esl.
    + exists ERecv. cbn [step]. unfold idle. rewrite Ep, Hs, Esl. cbn.
      destruct (Z.eqb c (lastpub s)); eexists; split; reflexivity.
    + destruct (topub s) as [[j cj]|] eqn:Et.
      * destruct (T2 eq_refl) as [Q|Q]; [congruence| |].
        -- exists EQuick. cbn [step]. unfold idle. rewrite Ep, Hs, Q. cbn. eexists; split; reflexivity.
        -- exists ELong. cbn [step]. unfold idle. rewrite Ep, Hs, Q. cbn. eexists; split; reflexivity.
      * unfold quiescent in Hq. rewrite Esl, Et, Ep in Hq. cbn in Hq.
        destruct (imm s) eqn:Ei; [|discriminate]. cbn in Hq.
        destruct (pending s) as [|w r] eqn:Epd; [discriminate|].
        exists (EImm w). cbn [step]. unfold idle. rewrite Ep, Hs, Ei, Epd. cbn. rewrite Nat.eqb_refl. cbn.
        eexists; split; reflexivity.
Qed.

(** at rest nothing is owed: lastPublished is the cid of the LATEST update *)
Theorem quiescent_latest c0 s : Inv c0 s -> quiescent s = true ->
  fresh s = nupd s /\ lastpub s = cid_of c0 s (nupd s).
Proof.
  intros [H _] Hq. unfold InvCore in H. core_parts H. unfold quiescent in Hq.
  destruct (slot s); [discriminate|]. destruct (topub s); [discriminate|].
  assert (fresh s = nupd s) by lia. split; [assumption|]. congruence.
Qed.

(** C21_eventual: from every reachable state that is not stopped, if the environment stops
    interfering and publishing succeeds, every maximal sequence of loop steps is finite
    (at most [rank s] steps) and ends at rest with the latest update accounted for: it was
    published, or equals what was published last. *)
Theorem eventual c0 : forall n s, Inv c0 s -> stopped s = false -> rank s <= n ->
  exists es s', length es <= n /\ Forall (fun e => internal e = true) es /\
                run s es = Some s' /\ quiescent s' = true /\
                fresh s' = nupd s' /\ lastpub s' = cid_of c0 s' (nupd s').
Proof.
  induction n as [|n IH]; intros s HI Hs Hr.
  - destruct (quiescent s) eqn:Hq.
    + exists [], s. destruct (quiescent_latest _ _ HI Hq). repeat split; auto.
    + destruct (progress _ _ HI Hs Hq) as (e & s' & Hi & E).
      pose proof (internal_decreases _ _ _ _ HI Hi E). lia.
  - destruct (quiescent s) eqn:Hq.
    + exists [], s. destruct (quiescent_latest _ _ HI Hq). repeat split; auto; cbn; lia.
    + destruct (progress _ _ HI Hs Hq) as (e & s1 & Hi & E).
      pose proof (internal_decreases _ _ _ _ HI Hi E) as Hd.
      assert (Hs1 : stopped s1 = false).
      { destruct e; try discriminate Hi; cbn [step] in E;
          repeat match type of E with
                 | (if ?b then _ else _) = _ => destruct b; [try discriminate E|try discriminate E]
                 | match ?x with _ => _ end = _ => destruct x; try discriminate E
                 end; inversion E; subst s1;
          unfold cleanup, notify; fields;
          repeat match goal with |- context [match ?x with _ => _ end] => destruct x; fields end;
          assumption. }
      destruct (IH s1 (step_inv _ _ _ _ HI E) Hs1 ltac:(lia)) as (es & s' & L & F & R & Q).
      exists (e :: es), s'. split; [cbn; lia|]. split; [constructor; assumption|].
      split; [cbn [run]; rewrite E; exact R|exact Q].
Qed.
