(** C17 — proofs: the translated size functions compute exact protobuf lengths,
    and the tracked estimate of the directory model equals the length of the
    serialised block through every history. *)
From Coq Require Import List ZArith Bool Lia Permutation.
From V Require Import lib.Verdict lib.GoInt lib.Varint lib.Pb lib.UnixFsPb lib.DagPb
  gen.Gen_C17 gen.Gen_C17f model.M_C17.
Import ListNotations.
Open Scope Z_scope.

(** ================================================================
    Part 1 — varintLen
    ================================================================ *)
Fixpoint zrange (n : nat) : list Z :=
  match n with O => [] | S n' => zrange n' ++ [Z.of_nat n'] end.

Lemma zrange_in : forall n z, 0 <= z < Z.of_nat n -> In z (zrange n).
Proof.
  induction n as [|n IH]; intros z H; [lia|].
  cbn [zrange]. apply in_or_app. destruct (Z.eq_dec z (Z.of_nat n)) as [->|Hne].
  - right. left. reflexivity.
  - left. apply IH. lia.
Qed.

(** the branch-free formula on the 65 possible bit lengths *)
Lemma bitlen_formula : forall b, 1 <= b <= 64 -> (9 * b + 64) / 64 = (b - 1) / 7 + 1.
Proof.
  intros b H.
  assert (S : forallb (fun b => (9 * b + 64) / 64 =? (b - 1) / 7 + 1) (map (fun x => x + 1) (zrange 64)) = true)
    by (vm_compute; reflexivity).
  rewrite forallb_forall in S. apply Z.eqb_eq. apply S.
  apply in_map_iff. exists (b - 1). split; [lia|]. apply zrange_in. lia.
Qed.

(** the translated varintLen on every uint64: the closed form *)
Lemma varintLen_formula : forall v, 0 <= v < two64 ->
  varintLen v = (9 * len64 v + 64) / 64.
Proof.
  intros v H. unfold varintLen. set (b := len64 v).
  assert (Hb : 0 <= b <= 64) by (apply len64_range; unfold_range; unfold two64 in H; lia).
  rewrite (conv_nowrap I64 U32 b) by (unfold_range; lia).
  rewrite (mul_nowrap U32 9 b) by (unfold_range; lia).
  rewrite (add_nowrap U32 (9 * b) 64) by (unfold_range; lia).
  rewrite (conv_nowrap U32 I64 (9 * b + 64)) by (unfold_range; lia).
  rewrite (quo_nonneg I64 (9 * b + 64) 64) by (try lia; unfold_range; lia).
  reflexivity.
Qed.

(** varintLen v is the length of the varint encoding of v *)
Theorem varintLen_vlen : forall v, 0 <= v < two64 -> varintLen v = vlen v.
Proof.
  intros v H. rewrite varintLen_formula by exact H.
  unfold len64, bitlen, vlen. destruct (Z.leb_spec v 0) as [Hz|Hp].
  - assert (v = 0) by lia. subst v. reflexivity.
  - assert (L : 0 <= Z.log2 v < 64).
    { split; [apply Z.log2_nonneg|]. apply Z.log2_lt_pow2; [lia|]. exact (proj2 H). }
    rewrite bitlen_formula by lia. f_equal. f_equal. lia.
Qed.

Lemma varintLen_enc : forall v, 0 <= v < two64 -> varintLen v = blen (enc v).
Proof.
  intros v H. rewrite varintLen_vlen by exact H. unfold blen. symmetry. apply enc_length. lia.
Qed.

(** ================================================================
    Part 2 — normalising translated int arithmetic (all values stay small)
    ================================================================ *)
(** innermost-first: an operator is rewritten once its operands contain no
    operator any more; [varintLen x] becomes [vlen x] with its bound 1..10 *)
Ltac clean a :=
  lazymatch a with
  | context [add] => fail
  | context [conv] => fail
  | context [varintLen] => fail
  | _ => idtac
  end.

Ltac gonorm_step :=
  match goal with
  | |- context [conv I64 U64 ?a] =>
      clean a; rewrite (conv_nowrap I64 U64 a) by (unfold_range; lia)
  | |- context [varintLen ?a] =>
      clean a;
      let B := fresh "B" in
      assert (B : 1 <= vlen a <= 10) by (apply vlen_u64; unfold two64; lia);
      rewrite (varintLen_vlen a) by (unfold two64; lia)
  | |- context [add I64 ?a ?b] =>
      clean a; clean b; rewrite (add_nowrap I64 a b) by (unfold_range; lia)
  end.
Ltac gonorm := repeat gonorm_step.

Definition tsize_ok (e : entry) : Prop := e_tsize e < two63.

(** linkSerializedSize = the exact size of the link's entry in PBNode.Links *)
Theorem link_size_exact : forall e, wf_entry e -> tsize_ok e -> link_size e = link_entry_size e.
Proof.
  intros e (Hc & Hn & Ht) Hs. unfold link_size, linkSerializedSize, link_entry_size, link_inner_size.
  unfold tsize_ok in Hs. unfold wire_tsize. destruct (Z.ltb_spec (e_tsize e) two63); [|lia].
  pose proof (blen_nonneg (e_cid e)) as P1. pose proof (blen_nonneg (e_name e)) as P2.
  fold (blen (e_name e)). cbv zeta.
  set (c := blen (e_cid e)) in *. set (n := blen (e_name e)) in *. set (t := e_tsize e) in *.
  unfold max_len, two63, two64 in *.
  gonorm.
  match goal with |- 1 + vlen ?a + _ = 1 + vlen ?b + _ => replace a with b by lia end. lia.
Qed.

Lemma link_size_pos : forall e, wf_entry e -> tsize_ok e -> 0 < link_size e.
Proof.
  intros e H Hs. rewrite link_size_exact by assumption. unfold link_entry_size.
  pose proof (link_inner_bound e H). pose proof (vlen_pos (link_inner_size e)). lia.
Qed.

Lemma link_size_emit : forall e, wf_entry e -> tsize_ok e -> link_size e = blen (emit [link_entry e]).
Proof.
  intros e H Hs. rewrite link_size_exact by assumption.
  rewrite emit_length by (constructor; [apply wf_link_entry; exact H|constructor]).
  unfold fields_size. cbn [fold_right]. rewrite link_entry_field_size by exact H. lia.
Qed.

(** ================================================================
    Part 3 — dataFieldSerializedSize
    ================================================================ *)
Definition wf_gtime (t : gtime) : Prop := - two63 <= fst t < two63 /\ 0 <= snd t < 1000000000.

Lemma unix_perms_u32 : forall m, 0 <= ModePermsToUnixPerms m < two32.
Proof.
  intro m. assert (R : in_range U32 (ModePermsToUnixPerms m)) by (unfold ModePermsToUnixPerms; apply or_range).
  unfold_range. unfold two32. lia.
Qed.

Lemma wf_dir_data : forall mode t, wf_gtime t -> wf_data (dir_data mode t).
Proof.
  intros mode t [Hs Hn]. unfold wf_data, dir_data.
  cbn [d_type d_data d_filesize d_blocksizes d_hashtype d_fanout d_mode d_mtime in_opt].
  split; [unfold two31; lia|]. split; [exact I|]. split; [exact I|]. split; [constructor|].
  split; [exact I|]. split; [exact I|]. split.
  - destruct (mode =? 0); cbn [in_opt]; [exact I|apply unix_perms_u32].
  - destruct (is_zero t); [exact I|]. split; cbn [t_sec t_nanos in_opt]; [exact Hs|].
    destruct (0 <? snd t); cbn [in_opt]; [unfold two32; lia|exact I].
Qed.

Lemma dir_data_len : forall mode t, wf_gtime t ->
  blen (dir_data_bytes mode t) = data_size (dir_data mode t).
Proof.
  intros mode t H. unfold dir_data_bytes. apply emit_length, wf_data_fields, wf_dir_data. exact H.
Qed.

(** the message size of a directory's UnixFS Data, in closed form *)
Lemma dir_data_size : forall mode t, wf_gtime t ->
  data_size (dir_data mode t) = data_inner_size mode t.
Proof.
  intros mode t [Hs Hn]. unfold data_size, data_fields, dir_data, data_inner_size.
  cbn [d_type d_data d_filesize d_blocksizes d_hashtype d_fanout d_mode d_mtime opt_field map app].
  pose proof (unix_perms_u32 mode) as Hp.
  assert (T1 : field_size (1, WVarint (to_u64 1)) = 2) by reflexivity.
  destruct (mode =? 0); destruct (is_zero t) eqn:Ez;
    cbn [opt_field app fields_size fold_right]; rewrite ?T1.
  - lia.
  - (* mtime only *)
    unfold field_size at 1. cbn [fst snd wtype val_size]. change (vlen (tag 8 2)) with 1.
    rewrite emit_length by (apply wf_mtime_fields; split; cbn [t_sec t_nanos in_opt];
      [exact Hs|destruct (0 <? snd t); cbn [in_opt]; [unfold two32; lia|exact I]]).
    assert (M : fields_size (mtime_fields {| t_sec := Some (fst t);
                 t_nanos := if 0 <? snd t then Some (snd t) else None |}) = mtime_msg_size t).
    { unfold mtime_fields, mtime_msg_size. cbn [t_sec t_nanos opt_field app].
      assert (S : field_size (1, WVarint (to_u64 (fst t))) =
                  if 0 <=? fst t then 1 + varintLen (fst t) else 1 + 10).
      { unfold field_size. cbn [fst snd wtype val_size]. change (vlen (tag 1 0)) with 1.
        destruct (Z.leb_spec 0 (fst t)).
        - rewrite to_u64_nonneg by (unfold two63, two64 in *; lia).
          rewrite varintLen_vlen by (unfold two63, two64 in *; lia). reflexivity.
        - rewrite vlen_i64_neg by lia. reflexivity. }
      destruct (0 <? snd t); cbn [opt_field app fields_size fold_right]; rewrite S.
      - unfold field_size. cbn [fst snd wtype val_size]. change (vlen (tag 2 5)) with 1. lia.
      - lia. }
    rewrite M.
    assert (B : 2 <= mtime_msg_size t <= 16).
    { unfold mtime_msg_size. destruct (Z.leb_spec 0 (fst t)).
      - assert (1 <= vlen (fst t) <= 10) by (apply vlen_u64; unfold two63, two64 in *; lia).
        rewrite varintLen_vlen by (unfold two63, two64 in *; lia). destruct (0 <? snd t); lia.
      - destruct (0 <? snd t); lia. }
    rewrite varintLen_vlen by (unfold two64; lia). lia.
  - (* mode only *)
    unfold field_size. cbn [fst snd wtype val_size]. change (vlen (tag 7 0)) with 1.
    rewrite varintLen_vlen by (unfold two32, two64 in *; lia). lia.
  - (* mode and mtime *)
    unfold field_size at 1 2. cbn [fst snd wtype val_size].
    change (vlen (tag 7 0)) with 1. change (vlen (tag 8 2)) with 1.
    rewrite emit_length by (apply wf_mtime_fields; split; cbn [t_sec t_nanos in_opt];
      [exact Hs|destruct (0 <? snd t); cbn [in_opt]; [unfold two32; lia|exact I]]).
    assert (M : fields_size (mtime_fields {| t_sec := Some (fst t);
                 t_nanos := if 0 <? snd t then Some (snd t) else None |}) = mtime_msg_size t).
    { unfold mtime_fields, mtime_msg_size. cbn [t_sec t_nanos opt_field app].
      assert (S : field_size (1, WVarint (to_u64 (fst t))) =
                  if 0 <=? fst t then 1 + varintLen (fst t) else 1 + 10).
      { unfold field_size. cbn [fst snd wtype val_size]. change (vlen (tag 1 0)) with 1.
        destruct (Z.leb_spec 0 (fst t)).
        - rewrite to_u64_nonneg by (unfold two63, two64 in *; lia).
          rewrite varintLen_vlen by (unfold two63, two64 in *; lia). reflexivity.
        - rewrite vlen_i64_neg by lia. reflexivity. }
      destruct (0 <? snd t); cbn [opt_field app fields_size fold_right]; rewrite S.
      - unfold field_size. cbn [fst snd wtype val_size]. change (vlen (tag 2 5)) with 1. lia.
      - lia. }
    rewrite M.
    assert (B : 2 <= mtime_msg_size t <= 16).
    { unfold mtime_msg_size. destruct (Z.leb_spec 0 (fst t)).
      - assert (1 <= vlen (fst t) <= 10) by (apply vlen_u64; unfold two63, two64 in *; lia).
        rewrite varintLen_vlen by (unfold two63, two64 in *; lia). destruct (0 <? snd t); lia.
      - destruct (0 <? snd t); lia. }
    rewrite !varintLen_vlen by (unfold two32, two64 in *; lia). lia.
Qed.

Lemma data_inner_bound : forall mode t, wf_gtime t -> 2 <= data_inner_size mode t <= 40.
Proof.
  intros mode t [Hs Hn]. unfold data_inner_size. pose proof (unix_perms_u32 mode) as Hp.
  assert (B : 2 <= mtime_msg_size t <= 16).
  { unfold mtime_msg_size. destruct (Z.leb_spec 0 (fst t)).
    - assert (1 <= vlen (fst t) <= 10) by (apply vlen_u64; unfold two63, two64 in *; lia).
      rewrite varintLen_vlen by (unfold two63, two64 in *; lia). destruct (0 <? snd t); lia.
    - destruct (0 <? snd t); lia. }
  assert (1 <= vlen (ModePermsToUnixPerms mode) <= 5).
  { split; [apply vlen_pos|]. apply vlen_le_iff; [lia|lia|].
    change (2 ^ (7 * 5)) with 34359738368. unfold two32 in Hp. lia. }
  assert (1 <= vlen (mtime_msg_size t) <= 1).
  { split; [apply vlen_pos|]. apply vlen_le_iff; [lia|lia|]. change (2 ^ (7 * 1)) with 128. lia. }
  destruct (mode =? 0); destruct (is_zero t);
    rewrite ?varintLen_vlen by (unfold two32, two64 in *; lia); lia.
Qed.

(** dataFieldSerializedSize = the exact size of the Data entry of the PBNode *)
Theorem data_field_exact : forall mode t, wf_gtime t ->
  data_field_size mode t = data_entry_size (Some (dir_data_bytes mode t)).
Proof.
  intros mode t H. unfold data_field_size, data_entry_size.
  rewrite dir_data_len, dir_data_size by exact H.
  pose proof (data_inner_bound mode t H).
  rewrite varintLen_vlen by (unfold two64; lia). reflexivity.
Qed.

Lemma data_field_emit : forall mode t, wf_gtime t ->
  data_field_size mode t = blen (emit [(1, WBytes (dir_data_bytes mode t))]).
Proof.
  intros mode t H. rewrite data_field_exact by exact H.
  pose proof (data_inner_bound mode t H) as B.
  assert (L : blen (dir_data_bytes mode t) = data_inner_size mode t)
    by (rewrite dir_data_len, dir_data_size by exact H; reflexivity).
  rewrite emit_length.
  - unfold fields_size, field_size, data_entry_size. cbn [fold_right fst snd wtype val_size].
    change (vlen (tag 1 2)) with 1. lia.
  - constructor; [|constructor]. split; cbn [fst snd wf_val]; [unfold max_fnum; lia|].
    rewrite L. unfold two64. lia.
Qed.

Lemma data_field_pos : forall mode t, wf_gtime t -> 0 < data_field_size mode t.
Proof.
  intros mode t H. unfold data_field_size. pose proof (data_inner_bound mode t H).
  rewrite varintLen_vlen by (unfold two64; lia). pose proof (vlen_pos (data_inner_size mode t)). lia.
Qed.

(** ================================================================
    Part 4 — the tracked estimate through every history
    ================================================================ *)
Definition good_entry (e : entry) : Prop := wf_entry e /\ tsize_ok e.

Lemma zlist_eqb_eq : forall a b, zlist_eqb a b = true <-> a = b.
Proof.
  induction a as [|x a IH]; destruct b as [|y b]; cbn [zlist_eqb]; split; intro H;
    try reflexivity; try discriminate.
  - apply andb_true_iff in H. destruct H as [H1 H2]. apply Z.eqb_eq in H1. apply IH in H2. congruence.
  - injection H as -> ->. apply andb_true_iff. split; [apply Z.eqb_refl|apply IH; reflexivity].
Qed.

Lemma find_link_spec : forall name l e, find_link name l = Some e -> In e l /\ e_name e = name.
Proof.
  induction l as [|x l IH]; intros e H; cbn [find_link] in H; [discriminate|].
  destruct (zlist_eqb (e_name x) name) eqn:E.
  - injection H as <-. split; [left; reflexivity|apply zlist_eqb_eq; exact E].
  - destruct (IH e H) as [Hin Hn]. split; [right; exact Hin|exact Hn].
Qed.

Lemma find_link_none : forall name l, find_link name l = None -> ~ In name (map e_name l).
Proof.
  induction l as [|x l IH]; intros H; cbn [find_link map] in *; [intros []|].
  destruct (zlist_eqb (e_name x) name) eqn:E; [discriminate|].
  intros [Hx|Hin]; [|exact (IH H Hin)].
  apply zlist_eqb_eq in Hx. congruence.
Qed.

Lemma drop_name_absent : forall name l, ~ In name (map e_name l) -> drop_name name l = l.
Proof.
  induction l as [|x l IH]; intro H; cbn [drop_name filter map] in *; [reflexivity|].
  destruct (zlist_eqb (e_name x) name) eqn:E.
  - apply zlist_eqb_eq in E. exfalso. apply H. left. exact E.
  - cbn [negb]. f_equal. apply IH. intro Hin. apply H. right. exact Hin.
Qed.

(** with distinct names, dropping a present name removes exactly that entry *)
Lemma drop_name_present : forall name l e,
  NoDup (map e_name l) -> find_link name l = Some e ->
  sum_links (drop_name name l) = sum_links l - link_size e /\
  blen (drop_name name l) = blen l - 1 /\
  ~ In name (map e_name (drop_name name l)) /\
  NoDup (map e_name (drop_name name l)) /\
  (forall x, In x (drop_name name l) -> In x l).
Proof.
  induction l as [|x l IH]; intros e Hnd Hf; cbn [find_link] in Hf; [discriminate|].
  cbn [map] in Hnd. inversion Hnd as [|? ? Hnotin Hnd']; subst.
  cbn [drop_name filter]. destruct (zlist_eqb (e_name x) name) eqn:E.
  - injection Hf as <-. apply zlist_eqb_eq in E. subst name. cbn [negb].
    fold (drop_name (e_name x) l). rewrite drop_name_absent by exact Hnotin.
    cbn [sum_links fold_right]. rewrite blen_cons.
    split; [unfold sum_links; lia|]. split; [lia|]. split; [exact Hnotin|]. split; [exact Hnd'|].
    intros y Hy. right. exact Hy.
  - cbn [negb]. fold (drop_name name l).
    destruct (IH e Hnd' Hf) as (S1 & S2 & S3 & S4 & S5).
    cbn [sum_links fold_right map]. rewrite !blen_cons.
    split; [unfold sum_links in *; lia|]. split; [lia|].
    split.
    { intros [Hx|Hin]; [|exact (S3 Hin)]. apply zlist_eqb_eq in Hx. congruence. }
    split.
    { constructor; [|exact S4]. intro Hin. apply Hnotin.
      apply in_map_iff in Hin. destruct Hin as (y & Hy & Hyin). apply in_map_iff. exists y.
      split; [exact Hy|apply S5; exact Hyin]. }
    intros y [Hy|Hy]; [left; exact Hy|right; apply S5; exact Hy].
Qed.

Lemma sum_links_app : forall a b, sum_links (a ++ b) = sum_links a + sum_links b.
Proof.
  unfold sum_links. induction a as [|x a IH]; intro b; cbn [app fold_right]; [reflexivity|].
  rewrite IH. lia.
Qed.

Lemma sum_links_nonneg : forall l, Forall good_entry l -> 0 <= sum_links l.
Proof.
  induction 1 as [|e l [Hw Ht] _ IH]; cbn [sum_links fold_right]; [lia|].
  pose proof (link_size_pos e Hw Ht). unfold sum_links in IH. lia.
Qed.

Lemma sum_links_sizes : forall l, Forall good_entry l -> sum_links l = sum_sizes l.
Proof.
  induction 1 as [|e l [Hw Ht] _ IH]; [reflexivity|].
  cbn [sum_links sum_sizes fold_right]. rewrite link_size_exact by assumption.
  unfold sum_links, sum_sizes in IH. rewrite IH. reflexivity.
Qed.

(** the invariant: the estimate is the arithmetic size of the current node *)
Record inv (M : Z) (T : gtime) (d : dir) : Prop := {
  i_good : Forall good_entry (links d);
  i_nodup : NoDup (map e_name (links d));
  i_est : est d = data_field_size M T + sum_links (links d);
  i_total : total d = blen (links d);
  i_data : ndata d = dir_data_bytes M T
}.

Lemma est_nonneg : forall M T d, wf_gtime T -> inv M T d -> 0 <= est d.
Proof.
  intros M T d HT I. rewrite (i_est _ _ _ I).
  pose proof (data_field_pos M T HT). pose proof (sum_links_nonneg _ (i_good _ _ _ I)). lia.
Qed.

Lemma remove_inv : forall fl M T name d, wf_gtime T -> inv M T d ->
  inv M T (fst (remove_child fl name d)) /\ ~ In name (map e_name (links (fst (remove_child fl name d)))).
Proof.
  intros fl M T name d HT I. unfold remove_child.
  destruct (find_link name (links d)) as [old|] eqn:Ef; cbn [fst].
  - destruct (find_link_spec _ _ _ Ef) as [Hin Hname].
    destruct (drop_name_present name (links d) old (i_nodup _ _ _ I) Ef) as (S1 & S2 & S3 & S4 & S5).
    assert (Hold : good_entry old) by (apply (proj1 (Forall_forall _ _) (i_good _ _ _ I)); exact Hin).
    assert (Hls : linkSerializedSize name (blen (e_cid old)) (e_tsize old) = link_size old)
      by (unfold link_size; rewrite Hname; reflexivity).
    assert (Hsum : link_size old <= sum_links (links d)).
    { pose proof (sum_links_nonneg (drop_name name (links d))) as P.
      assert (Forall good_entry (drop_name name (links d))).
      { apply Forall_forall. intros x Hx. apply (proj1 (Forall_forall _ _) (i_good _ _ _ I)). apply S5, Hx. }
      specialize (P H). lia. }
    pose proof (data_field_pos M T HT) as Dp.
    unfold fix_negative. cbn [est]. rewrite Hls.
    destruct (Z.ltb_spec (est d - link_size old) 0) as [Hneg|Hnn].
    { rewrite (i_est _ _ _ I) in Hneg. lia. }
    cbn [links est total dmode dtime ndata]. split; [|exact S3].
    constructor; cbn [links est total dmode dtime ndata].
    + apply Forall_forall. intros x Hx. apply (proj1 (Forall_forall _ _) (i_good _ _ _ I)). apply S5, Hx.
    + exact S4.
    + rewrite (i_est _ _ _ I), S1. lia.
    + rewrite (i_total _ _ _ I), S2. reflexivity.
    + exact (i_data _ _ _ I).
  - split; [exact I|]. apply find_link_none. exact Ef.
Qed.

Lemma NoDup_snoc : forall {A} (l : list A) x, NoDup l -> ~ In x l -> NoDup (l ++ [x]).
Proof.
  induction l as [|a l IH]; intros x Hnd Hx; cbn [app].
  - constructor; [intros []|constructor].
  - inversion Hnd as [|? ? Ha Hl]; subst. constructor.
    + intro Hin. apply in_app_or in Hin. destruct Hin as [Hin|[Heq|[]]]; [contradiction|].
      apply Hx. left. symmetry. exact Heq.
    + apply IH; [exact Hl|]. intro Hin. apply Hx. right. exact Hin.
Qed.

Lemma add_inv : forall fl M T e d, wf_gtime T -> good_entry e -> inv M T d ->
  inv M T (fst (add_child fl e d)).
Proof.
  intros fl M T e d HT He I. unfold add_child.
  destruct (remove_inv fl M T (e_name e) d HT I) as [I1 Hfresh].
  set (d1 := fst (remove_child fl (e_name e) d)) in *.
  destruct He as [Hw Hts]. unfold tsize_ok in Hts.
  destruct (Z.leb_spec two63 (e_tsize e)); [lia|]. cbn [fst].
  pose proof (est_nonneg M T d1 HT I1) as E1. pose proof (link_size_pos e Hw Hts) as Lp.
  unfold fix_negative. cbn [est].
  destruct (Z.ltb_spec (est d1 + link_size e) 0); [lia|].
  cbn [links est total dmode dtime ndata].
  constructor; cbn [links est total dmode dtime ndata].
  - apply Forall_app. split; [exact (i_good _ _ _ I1)|]. constructor; [split; assumption|constructor].
  - rewrite map_app. cbn [map]. apply NoDup_snoc; [exact (i_nodup _ _ _ I1)|exact Hfresh].
  - rewrite (i_est _ _ _ I1), sum_links_app. cbn [sum_links fold_right]. lia.
  - rewrite (i_total _ _ _ I1), blen_app, blen_cons, blen_nil. lia.
  - exact (i_data _ _ _ I1).
Qed.

(** ---------- from the invariant to the serialised block ---------- *)
Lemma good_wf : forall l, Forall good_entry l -> Forall wf_entry l.
Proof. intros l H. eapply Forall_impl; [|exact H]. intros e [Hw _]. exact Hw. Qed.

Lemma dir_data_bytes_len : forall M T, wf_gtime T -> blen (dir_data_bytes M T) < two64.
Proof.
  intros M T H. rewrite dir_data_len, dir_data_size by exact H.
  pose proof (data_inner_bound M T H). unfold two64. lia.
Qed.

Theorem inv_exact : forall M T d, wf_gtime T -> inv M T d ->
  est d = blen (node_bytes d) /\ 0 <= est d /\ total d = blen (links d).
Proof.
  intros M T d HT I. split; [|split; [apply (est_nonneg M T d HT I)|exact (i_total _ _ _ I)]].
  unfold node_bytes. rewrite (i_data _ _ _ I).
  rewrite encode_node_length.
  - unfold node_size. rewrite sort_links_size, (i_est _ _ _ I), data_field_exact by exact HT.
    rewrite (sum_links_sizes _ (i_good _ _ _ I)). lia.
  - apply sort_links_wf, good_wf, (i_good _ _ _ I).
  - apply dir_data_bytes_len. exact HT.
Qed.

(** ---------- creation ---------- *)
Definition norm_mode (mode : Z) : Z := if 0 <? mode then mode else 0.
Definition norm_time (t : gtime) : gtime := if is_zero t then zero_time else t.

Lemma wf_norm_time : forall t, wf_gtime t -> wf_gtime (norm_time t).
Proof.
  intros t H. unfold norm_time. destruct (is_zero t); [|exact H].
  unfold wf_gtime, zero_time, zero_sec, two63. cbn [fst snd]. lia.
Qed.

(** the Data field sized as stored = dataFieldSerializedSize of what was stored *)
Lemma stored_data_part : forall M T, wf_gtime T ->
  1 + varintLen (blen (dir_data_bytes M T)) + blen (dir_data_bytes M T) = data_field_size M T.
Proof.
  intros M T H. rewrite (data_field_exact M T H). unfold data_entry_size.
  pose proof (dir_data_bytes_len M T H). pose proof (blen_nonneg (dir_data_bytes M T)).
  rewrite varintLen_vlen by lia. reflexivity.
Qed.

Lemma new_dir_inv : forall fl mode t, wf_gtime t ->
  inv (norm_mode mode) (norm_time t) (new_dir fl mode t).
Proof.
  intros fl mode t H. unfold new_dir. fold (norm_mode mode). fold (norm_time t). unfold recompute.
  cbn [links est total dmode dtime ndata].
  constructor; cbn [links est total dmode dtime ndata map sum_links fold_right].
  - constructor.
  - constructor.
  - unfold data_part. cbn [ndata dmode dtime]. destruct fl; [|reflexivity].
    rewrite (stored_data_part _ _ (wf_norm_time t H)). reflexivity.
  - reflexivity.
  - reflexivity.
Qed.

(** ---------- edits: add / replace / remove ---------- *)
Definition wf_op (o : op) : Prop :=
  match o with
  | OAdd e => wf_entry e
  | ORemove _ => True
  | OReload => True
  end.

Definition is_edit (o : op) : bool := match o with OReload => false | _ => true end.

Lemma step_inv_edit : forall fl M T o d, wf_gtime T -> inv M T d -> wf_op o -> is_edit o = true ->
  exists d' ok, step fl d o = Some (d', ok) /\ inv M T d'.
Proof.
  intros fl M T o d HT I W E. destruct o as [e|name| ]; cbn [step wf_op is_edit] in *; [| |discriminate].
  - destruct (add_child fl e d) as [d' ok] eqn:Ea. exists d', ok. split; [reflexivity|].
    destruct (Z_lt_le_dec (e_tsize e) two63) as [Hlt|Hge].
    + pose proof (add_inv fl M T e d HT (conj W Hlt) I) as A. rewrite Ea in A. exact A.
    + unfold add_child in Ea. destruct (Z.leb_spec two63 (e_tsize e)); [|lia].
      injection Ea as <- _. apply (remove_inv fl M T (e_name e) d HT I).
  - destruct (remove_child fl name d) as [d' ok] eqn:Er. exists d', ok. split; [reflexivity|].
    pose proof (proj1 (remove_inv fl M T name d HT I)) as R. rewrite Er in R. exact R.
Qed.

Lemma run_inv_edit : forall fl M T ops d, wf_gtime T -> inv M T d ->
  Forall wf_op ops -> forallb is_edit ops = true ->
  exists d', run fl d ops = Some d' /\ inv M T d'.
Proof.
  induction ops as [|o ops IH]; intros d HT I W E; cbn [run forallb] in *.
  - exists d. split; [reflexivity|exact I].
  - inversion W as [|? ? Wo Wops]; subst. apply andb_true_iff in E. destruct E as [Eo Eops].
    destruct (step_inv_edit fl M T o d HT I Wo Eo) as (d1 & ok & S1 & I1). rewrite S1.
    apply (IH d1 HT I1 Wops Eops).
Qed.

(** The code as it is today ([fl = false]) and the repaired reload ([fl = true])
    alike: through ANY sequence of adds, replacements and removals the tracked
    estimate is the exact length of the block that GetNode().RawData() returns. *)
Theorem edits_exact : forall fl mode t ops,
  wf_gtime t -> Forall wf_op ops -> forallb is_edit ops = true ->
  exists d, run fl (new_dir fl mode t) ops = Some d /\
            est d = blen (node_bytes d) /\ 0 <= est d /\ total d = blen (links d).
Proof.
  intros fl mode t ops Ht W E.
  destruct (run_inv_edit fl _ _ ops _ (wf_norm_time t Ht) (new_dir_inv fl mode t Ht) W E) as (d & R & I).
  exists d. split; [exact R|]. apply (inv_exact _ _ d (wf_norm_time t Ht) I).
Qed.

(** finding C17-1: the reload of today's code loses two bytes when the stored
    mode field carries no permission bits *)
Theorem reload_refuted : exists mode t ops d,
  wf_gtime t /\ Forall wf_op ops /\
  run false (new_dir false mode t) ops = Some d /\ est d <> blen (node_bytes d) /\
  exists d', run true (new_dir true mode t) ops = Some d' /\ est d' = blen (node_bytes d').
Proof.
  exists ModeDir, zero_time, [OReload].
  destruct (run false (new_dir false ModeDir zero_time) [OReload]) as [d|] eqn:E; [|vm_compute in E; discriminate].
  exists d. split; [unfold wf_gtime, zero_time, zero_sec, two63; cbn [fst snd]; lia|].
  split; [repeat constructor|]. split; [reflexivity|].
  vm_compute in E. injection E as <-. split; [vm_compute; discriminate|].
  eexists. split; [vm_compute; reflexivity|]. vm_compute. reflexivity.
Qed.

(** ================================================================
    Part 5 — reload (NewBasicDirectoryFromNode) with the repair
    ================================================================ *)
Lemma decode_dir_data : forall M T, wf_gtime T -> decode_data (dir_data_bytes M T) = Some (dir_data M T).
Proof.
  intros M T H. apply decode_encode; [apply wf_dir_data; exact H|].
  unfold encode_data, dir_data_bytes.
  assert (I : initialized (dir_data M T) = true).
  { unfold initialized, dir_data. cbn [d_type d_mtime is_some andb]. destruct (is_zero T); reflexivity. }
  rewrite I. reflexivity.
Qed.

Lemma sum_links_perm : forall a b, Permutation a b -> sum_links a = sum_links b.
Proof.
  intros a b P. unfold sum_links.
  induction P as [|x l l' _ IH|x y l|l l' l'' _ IH1 _ IH2]; cbn [fold_right]; lia.
Qed.

(** sizing the Data field as it is stored makes the reload exact whatever
    Mode()/ModTime() read back *)
Lemma reload_inv : forall M T d, wf_gtime T -> inv M T d ->
  exists d', reload true d = Some d' /\ inv M T d'.
Proof.
  intros M T d HT I. unfold reload. rewrite (i_data _ _ _ I), decode_dir_data by exact HT.
  eexists. split; [reflexivity|].
  pose proof (sort_links_perm (links d)) as P.
  unfold recompute, data_part. cbn [links est total dmode dtime ndata].
  constructor; cbn [links est total dmode dtime ndata].
  - apply Forall_forall. intros x Hx. apply (proj1 (Forall_forall _ _) (i_good _ _ _ I)).
    eapply Permutation_in; [apply Permutation_sym, P|exact Hx].
  - eapply Permutation_NoDup; [apply Permutation_map, P|exact (i_nodup _ _ _ I)].
  - rewrite (stored_data_part M T HT), <- (sum_links_perm _ _ P). reflexivity.
  - reflexivity.
  - reflexivity.
Qed.

Lemma run_inv_fixed : forall M T ops d, wf_gtime T -> inv M T d ->
  Forall wf_op ops -> exists d', run true d ops = Some d' /\ inv M T d'.
Proof.
  induction ops as [|o ops IH]; intros d HT I W; cbn [run] in *.
  - exists d. split; [reflexivity|exact I].
  - inversion W as [|? ? Wo Wops]; subst.
    destruct (is_edit o) eqn:Eo.
    + destruct (step_inv_edit true M T o d HT I Wo Eo) as (d1 & ok & S1 & I1). rewrite S1.
      apply (IH d1 HT I1 Wops).
    + destruct o; try discriminate. cbn [step].
      destruct (reload_inv M T d HT I) as (d1 & R1 & I1). rewrite R1.
      apply (IH d1 HT I1 Wops).
Qed.

(** With the repair ([fl = true]): creation, then ANY sequence of adds,
    replacements, removals AND reloads of the serialised block. *)
Theorem history_exact_fixed : forall mode t ops,
  wf_gtime t -> Forall wf_op ops ->
  exists d, run true (new_dir true mode t) ops = Some d /\
            est d = blen (node_bytes d) /\ 0 <= est d /\ total d = blen (links d).
Proof.
  intros mode t ops Ht W.
  destruct (run_inv_fixed _ _ ops _ (wf_norm_time t Ht) (new_dir_inv true mode t Ht) W)
    as (d & R & I).
  exists d. split; [exact R|]. apply (inv_exact _ _ d (wf_norm_time t Ht) I).
Qed.

(** ================================================================
    Part 6 — the value the Basic -> HAMT decision is taken on
    ================================================================ *)
Lemma link_size_le_sum : forall l e, Forall good_entry l -> In e l -> link_size e <= sum_links l.
Proof.
  induction l as [|x l IH]; intros e H Hin; [destruct Hin|].
  inversion H as [|? ? [Hw Ht] Hl]; subst. cbn [sum_links fold_right].
  pose proof (sum_links_nonneg l Hl) as N. unfold sum_links in *.
  destruct Hin as [->|Hin].
  - lia.
  - pose proof (link_size_pos x Hw Ht). specialize (IH e Hl Hin). lia.
Qed.

Lemma remove_child_est : forall fl M T name d old, wf_gtime T -> inv M T d ->
  find_link name (links d) = Some old ->
  est (fst (remove_child fl name d)) = est d - linkSerializedSize name (blen (e_cid old)) (e_tsize old).
Proof.
  intros fl M T name d old HT I Ef. unfold remove_child. rewrite Ef. cbn [fst est].
  destruct (find_link_spec _ _ _ Ef) as [Hin Hname].
  assert (Hls : linkSerializedSize name (blen (e_cid old)) (e_tsize old) = link_size old)
    by (unfold link_size; rewrite Hname; reflexivity).
  pose proof (link_size_le_sum _ _ (i_good _ _ _ I) Hin) as Hle.
  pose proof (data_field_pos M T HT) as Dp.
  unfold fix_negative. cbn [est]. rewrite Hls.
  destruct (Z.ltb_spec (est d - link_size old) 0) as [Hneg|Hnn]; [|reflexivity].
  rewrite (i_est _ _ _ I) in Hneg. lia.
Qed.

Lemma remove_child_est_absent : forall fl name d, find_link name (links d) = None ->
  fst (remove_child fl name d) = d.
Proof. intros fl name d Ef. unfold remove_child. rewrite Ef. reflexivity. Qed.

(** needsToSwitchByBlockSize computes exactly the estimate the directory has after the edit *)
Lemma decision_is_next_estimate : forall fl M T e d, wf_gtime T -> good_entry e -> inv M T d ->
  decision_size e d = est (fst (add_child fl e d)).
Proof.
  intros fl M T e d HT He I. unfold decision_size.
  destruct (remove_inv fl M T (e_name e) d HT I) as [I1 _].
  pose proof (est_nonneg M T _ HT I1) as E1.
  destruct He as [Hw Hts]. pose proof (link_size_pos e Hw Hts) as Lp. unfold tsize_ok in Hts.
  assert (A : est (fst (add_child fl e d)) = est (fst (remove_child fl (e_name e) d)) + link_size e).
  { unfold add_child. destruct (Z.leb_spec two63 (e_tsize e)); [lia|]. cbn [fst est].
    unfold fix_negative. cbn [est].
    destruct (Z.ltb_spec (est (fst (remove_child fl (e_name e) d)) + link_size e) 0); [lia|reflexivity]. }
  rewrite A. destruct (find_link (e_name e) (links d)) as [old|] eqn:Ef.
  - rewrite (remove_child_est fl M T _ d old HT I Ef). lia.
  - rewrite (remove_child_est_absent fl _ d Ef). lia.
Qed.

(** ... which is the exact length of the block after the edit *)
Theorem decision_exact : forall fl M T e d, wf_gtime T -> good_entry e -> inv M T d ->
  decision_size e d = blen (node_bytes (fst (add_child fl e d))).
Proof.
  intros fl M T e d HT He I. rewrite (decision_is_next_estimate fl M T e d HT He I).
  apply (inv_exact M T _ HT (add_inv fl M T e d HT He I)).
Qed.

Definition wf_dop (x : Z * op) : Prop :=
  match snd x with OAdd e => good_entry e | _ => True end.

Lemma dyn_sound_inv : forall fl M T ops d, wf_gtime T -> inv M T d -> Forall wf_dop ops ->
  dyn_sound fl d ops = true.
Proof.
  intros fl M T.
  induction ops as [|[thr o] ops IH]; intros d HT I W; cbn [dyn_sound]; [reflexivity|].
  inversion W as [|? ? Wo Wops]; subst. unfold wf_dop in Wo. cbn [snd] in Wo.
  destruct o as [e|name| ]; cbn [basic_edit dyn_decide decision_rule].
  - destruct (add_child fl e d) as [d' ok] eqn:Ea.
    pose proof (decision_exact fl M T e d HT Wo I) as DX. rewrite Ea in DX. cbn [fst] in DX.
    unfold needs_switch. rewrite DX, eqb_reflx. cbn [andb].
    destruct (effective_threshold thr <? blen (node_bytes d')); [reflexivity|].
    apply IH; [exact HT| |exact Wops].
    pose proof (add_inv fl M T e d HT Wo I) as A. rewrite Ea in A. exact A.
  - destruct (remove_child fl name d) as [d' ok] eqn:Er. cbn [negb andb].
    apply IH; [exact HT| |exact Wops].
    pose proof (proj1 (remove_inv fl M T name d HT I)) as R. rewrite Er in R. exact R.
  - cbn [negb andb]. apply IH; assumption.
Qed.

(** Every dynamic history, every threshold sequence: the directory converts to a
    HAMT at an AddChild exactly when the block the basic directory would
    serialise after that edit is longer than the threshold in force. *)
Theorem decision_sound : forall fl mode t ops,
  wf_gtime t -> Forall wf_dop ops -> dyn_sound fl (new_dir fl mode t) ops = true.
Proof.
  intros fl mode t ops Ht W.
  apply (dyn_sound_inv fl _ _ ops _ (wf_norm_time t Ht) (new_dir_inv fl mode t Ht) W).
Qed.
