(** C45 — proofs: crash safety of the atomic-replacement write protocol against the
    newest-only reader of the autoconf cache. *)
From Coq Require Import List ZArith Bool NArith String Ascii Lia.
From V Require Import lib.Verdict model.M_C45.
Import ListNotations.
Open Scope N_scope.

(** ---------- byte-wise string order is a total order ---------- *)
Lemma str_leb_refl a : str_leb a a = true.
Proof. induction a as [|x a IH]; cbn [str_leb]; [reflexivity|]. rewrite N.ltb_irrefl. exact IH. Qed.

Lemma str_leb_total a : forall b, str_leb a b = true \/ str_leb b a = true.
Proof.
  induction a as [|x a IH]; intros b; [left; reflexivity|].
  destruct b as [|y b]; [right; reflexivity|]. cbn [str_leb].
  destruct (N.ltb_spec (N_of_ascii x) (N_of_ascii y)) as [H1|H1]; [left; reflexivity|].
  destruct (N.ltb_spec (N_of_ascii y) (N_of_ascii x)) as [H2|H2]; [right; reflexivity|].
  apply IH.
Qed.

Lemma str_leb_trans a : forall b c, str_leb a b = true -> str_leb b c = true -> str_leb a c = true.
Proof.
  induction a as [|x a IH]; intros b c H1 H2; [reflexivity|].
  destruct b as [|y b]; [discriminate|]. destruct c as [|z c]; [discriminate|].
  cbn [str_leb] in *.
  destruct (N.ltb_spec (N_of_ascii x) (N_of_ascii y)) as [Hxy|Hxy];
  destruct (N.ltb_spec (N_of_ascii y) (N_of_ascii z)) as [Hyz|Hyz];
  destruct (N.ltb_spec (N_of_ascii x) (N_of_ascii z)) as [Hxz|Hxz]; try reflexivity; try lia.
  - destruct (N.ltb_spec (N_of_ascii z) (N_of_ascii y)); [discriminate|lia].
  - destruct (N.ltb_spec (N_of_ascii y) (N_of_ascii x)); [discriminate|lia].
  - destruct (N.ltb_spec (N_of_ascii y) (N_of_ascii x)) as [|Hyx]; [discriminate|].
    destruct (N.ltb_spec (N_of_ascii z) (N_of_ascii y)) as [|Hzy]; [discriminate|].
    destruct (N.ltb_spec (N_of_ascii z) (N_of_ascii x)) as [|Hzx]; [lia|].
    eapply IH; eassumption.
Qed.

Lemma str_leb_antisym a : forall b, str_leb a b = true -> str_leb b a = true -> a = b.
Proof.
  induction a as [|x a IH]; intros b H1 H2; destruct b as [|y b]; try reflexivity; try discriminate.
  cbn [str_leb] in *.
  destruct (N.ltb_spec (N_of_ascii x) (N_of_ascii y)) as [Hxy|Hxy];
  destruct (N.ltb_spec (N_of_ascii y) (N_of_ascii x)) as [Hyx|Hyx]; try lia; try discriminate.
  assert (x = y).
  { rewrite <- (ascii_N_embedding x), <- (ascii_N_embedding y). f_equal. lia. }
  subst. f_equal. apply IH; assumption.
Qed.

(** ---------- association lists ---------- *)
Definition names (d : dir) : list string := map fst d.

Lemma In_remove d n : forall m c, In (m, c) (remove d n) <-> In (m, c) d /\ m <> n.
Proof.
  induction d as [|[k ck] d IH]; intros m c; cbn [remove In]; [tauto|].
  destruct (String.eqb_spec k n) as [->|Hne].
  - rewrite IH. split; [tauto|]. intros [[H|H] Hm]; [inversion H; subst; contradiction|tauto].
  - cbn [In]. rewrite IH. split.
    + intros [H|[H Hm]]; [inversion H; subst; tauto|tauto].
    + intros [[H|H] Hm]; [left; exact H|right; tauto].
Qed.

Lemma In_set d n c : forall m c', In (m, c') (set d n c) <-> (m = n /\ c' = c) \/ (m <> n /\ In (m, c') d).
Proof.
  intros m c'. unfold set. cbn [In]. rewrite In_remove. split.
  - intros [H|[H Hm]]; [inversion H; subst; tauto|tauto].
  - intros [[-> ->]|[Hm H]]; [left; reflexivity|right; tauto].
Qed.

Lemma names_remove_sub d n : forall m, In m (names (remove d n)) -> In m (names d) /\ m <> n.
Proof.
  unfold names. intros m H. apply in_map_iff in H as ([k c] & <- & H). cbn [fst].
  apply In_remove in H as [H Hm]. split; [|exact Hm]. apply in_map_iff. exists (k, c). auto.
Qed.

Lemma NoDup_remove d n : NoDup (names d) -> NoDup (names (remove d n)).
Proof.
  unfold names. induction d as [|[k c] d IH]; intros H; cbn [remove map]; [constructor|].
  inversion H; subst. destruct (String.eqb k n); [apply IH; assumption|].
  cbn [map fst]. constructor; [|apply IH; assumption].
  intros Hin. apply names_remove_sub in Hin as [Hin _]. contradiction.
Qed.

Lemma NoDup_set d n c : NoDup (names d) -> NoDup (names (set d n c)).
Proof.
  intros H. unfold set, names. cbn [map fst]. constructor; [|apply NoDup_remove; exact H].
  intros Hin. apply names_remove_sub in Hin as [_ Hn]. congruence.
Qed.

Lemma lookup_In d : NoDup (names d) -> forall n c, lookup d n = Some c <-> In (n, c) d.
Proof.
  unfold names. induction d as [|[k ck] d IH]; intros Hnd n c; cbn [lookup In]; [split; [discriminate|tauto]|].
  inversion Hnd; subst. destruct (String.eqb_spec k n) as [->|Hne].
  - split; [intros H; inversion H; left; reflexivity|].
    intros [H|H]; [inversion H; reflexivity|].
    exfalso. apply H1. apply in_map_iff. exists (n, c). auto.
  - rewrite (IH H2). split; [tauto|]. intros [H|H]; [inversion H; congruence|exact H].
Qed.

Lemma nodup_names_NoDup d : nodup_names d = true -> NoDup (names d).
Proof.
  unfold names. induction d as [|[k c] d IH]; cbn [nodup_names map fst]; intros H; [constructor|].
  apply andb_true_iff in H as [H1 H2]. constructor; [|apply IH; exact H2].
  intros Hin. apply in_map_iff in Hin as ([k' c'] & Hk & Hin). cbn [fst] in Hk. subst k'.
  apply negb_true_iff in H1. assert (existsb (fun e => String.eqb (fst e) k) d = true).
  { apply existsb_exists. exists (k, c'). split; [exact Hin|]. cbn [fst]. apply String.eqb_refl. }
  congruence.
Qed.

(** ---------- [newest] is the greatest cache name ---------- *)
Lemma newest_spec d : forall n c, newest d = Some (n, c) ->
  In (n, c) d /\ is_cache_name n = true /\
  (forall m c', In (m, c') d -> is_cache_name m = true -> str_leb m n = true).
Proof.
  induction d as [|[k ck] d IH]; intros n c H; cbn [newest] in H; [discriminate|].
  destruct (is_cache_name k) eqn:Ek.
  - destruct (newest d) as [[m cm]|] eqn:En.
    + specialize (IH m cm eq_refl) as (Hin & Hc & Hmax).
      destruct (str_leb k m) eqn:El; inversion H; subst.
      * split; [right; exact Hin|]. split; [exact Hc|].
        intros m' c' [Hm|Hm] Hcm; [inversion Hm; subst; exact El|eapply Hmax; eassumption].
      * split; [left; reflexivity|]. split; [exact Ek|].
        intros m' c' [Hm|Hm] Hcm; [inversion Hm; subst; apply str_leb_refl|].
        destruct (str_leb_total n m) as [Ht|Ht]; [congruence|].
        eapply str_leb_trans; [eapply Hmax; eassumption|exact Ht].
    + inversion H; subst. split; [left; reflexivity|]. split; [exact Ek|].
      intros m' c' [Hm|Hm] Hcm; [inversion Hm; subst; apply str_leb_refl|].
      exfalso. clear IH H. induction d as [|[j cj] d IHd]; [destruct Hm|].
      cbn [newest] in En. destruct Hm as [Hm|Hm].
      * inversion Hm; subst. rewrite Hcm in En. destruct (newest d) as [[? ?]|]; [destruct (str_leb m' s)|]; discriminate.
      * destruct (is_cache_name j); [destruct (newest d) as [[? ?]|]; [destruct (str_leb j s); discriminate|discriminate]|].
        apply IHd; assumption.
  - specialize (IH n c H) as (Hin & Hc & Hmax). split; [right; exact Hin|]. split; [exact Hc|].
    intros m' c' [Hm|Hm] Hcm; [inversion Hm; subst; congruence|eapply Hmax; eassumption].
Qed.

Lemma newest_none d : newest d = None -> forall m c, In (m, c) d -> is_cache_name m = false.
Proof.
  induction d as [|[k ck] d IH]; intros H m c Hin; [destruct Hin|].
  cbn [newest] in H. destruct (is_cache_name k) eqn:Ek.
  - destruct (newest d) as [[? ?]|]; [destruct (str_leb k s)|]; discriminate.
  - destruct Hin as [Hin|Hin]; [inversion Hin; subst; exact Ek|eapply IH; eassumption].
Qed.

Lemma newest_some d m c : In (m, c) d -> is_cache_name m = true -> exists n cn, newest d = Some (n, cn).
Proof.
  intros Hin Hc. destruct (newest d) as [[n cn]|] eqn:E; [eauto|].
  rewrite (newest_none d E m c Hin) in Hc. discriminate.
Qed.

(** ---------- the invariant ---------- *)
Section Inv.
  Variable ls : lens.
  Variable vnew : N.
  Variable d0 : dir.
  Hypothesis Hnd0 : NoDup (names d0).

  Definition Inv (d : dir) : Prop :=
    NoDup (names d) /\
    (forall n c, In (n, c) d -> is_cache_name n = true ->
        exists v, parses ls c = Some v /\ (In (n, c) d0 \/ v = vnew)) /\
    (forall n0 c0, newest d0 = Some (n0, c0) ->
        exists m c, In (m, c) d /\ is_cache_name m = true /\ str_leb n0 m = true).

  Lemma Inv_init : good ls d0 = true -> Inv d0.
  Proof.
    unfold good. intros H. apply andb_true_iff in H as [Hnd Hg]. split; [apply nodup_names_NoDup; exact Hnd|]. split.
    - intros n c Hin Hc. rewrite forallb_forall in Hg. specialize (Hg (n, c) Hin). cbn [fst snd] in Hg.
      rewrite Hc in Hg. destruct (parses ls c) as [v|]; [|discriminate]. exists v. auto.
    - intros n0 c0 Hn. apply newest_spec in Hn as (Hin & Hc & _). exists n0, c0. auto using str_leb_refl.
  Qed.

  (** setting a non-cache name keeps the invariant *)
  Lemma Inv_set_other d n c : Inv d -> is_cache_name n = false -> Inv (set d n c).
  Proof.
    intros (Hnd & HB & HC) Hn. split; [apply NoDup_set; exact Hnd|]. split.
    - intros m cm Hin Hc. apply In_set in Hin as [[-> _]|[_ Hin]]; [congruence|]. eapply HB; eassumption.
    - intros n0 c0 H0. destruct (HC n0 c0 H0) as (m & cm & Hin & Hc & Hle). exists m, cm.
      split; [|auto]. apply In_set. right. split; [intros ->; congruence|exact Hin].
  Qed.

  Lemma Inv_remove_other d n : Inv d -> is_cache_name n = false -> Inv (remove d n).
  Proof.
    intros (Hnd & HB & HC) Hn. split; [apply NoDup_remove; exact Hnd|]. split.
    - intros m cm Hin Hc. apply In_remove in Hin as [Hin _]. eapply HB; eassumption.
    - intros n0 c0 H0. destruct (HC n0 c0 H0) as (m & cm & Hin & Hc & Hle). exists m, cm.
      split; [|auto]. apply In_remove. split; [exact Hin|intros ->; congruence].
  Qed.

  Lemma Inv_step d o : Inv d -> allowed ls vnew d o = true -> Inv (apply d o).
  Proof.
    intros HI Ha. destruct o as [n|n v l|a b|n]; cbn [allowed apply] in *.
    - apply Inv_set_other; [exact HI|]. apply negb_true_iff. exact Ha.
    - apply negb_true_iff in Ha. destruct (lookup d n); [apply Inv_set_other; assumption|exact HI].
    - apply andb_true_iff in Ha as [Ha Hb]. apply negb_true_iff in Ha.
      destruct (lookup d a) as [c|] eqn:El; [|exact HI].
      destruct (is_cache_name b) eqn:Eb.
      + destruct (parses ls c) as [v|] eqn:Ep; [|discriminate]. apply N.eqb_eq in Hb. subst v.
        pose proof (Inv_remove_other d a HI Ha) as (Hnd & HB & HC).
        split; [apply NoDup_set; exact Hnd|]. split.
        * intros m cm Hin Hc. apply In_set in Hin as [[-> ->]|[_ Hin]]; [exists vnew; auto|].
          eapply HB; eassumption.
        * intros n0 c0 H0. destruct (HC n0 c0 H0) as (m & cm & Hin & Hc & Hle).
          destruct (String.eqb_spec m b) as [->|Hne].
          -- exists b, c. split; [apply In_set; left; auto|auto].
          -- exists m, cm. split; [apply In_set; right; auto|auto].
      + apply Inv_set_other; [apply Inv_remove_other; assumption|exact Eb].
    - destruct (is_cache_name n) eqn:En; [|apply Inv_remove_other; assumption].
      destruct HI as (Hnd & HB & HC). split; [apply NoDup_remove; exact Hnd|]. split.
      + intros m cm Hin Hc. apply In_remove in Hin as [Hin _]. eapply HB; eassumption.
      + intros n0 c0 H0. destruct (HC n0 c0 H0) as (m & cm & Hin & Hc & Hle).
        destruct (newest d) as [[mx cx]|] eqn:Emx.
        * apply negb_true_iff in Ha. apply String.eqb_neq in Ha.
          pose proof (newest_spec d mx cx Emx) as (Hinx & Hcx & Hmax).
          exists mx, cx. split; [apply In_remove; auto|]. split; [exact Hcx|].
          eapply str_leb_trans; [exact Hle|]. eapply Hmax; eassumption.
        * rewrite (newest_none d Emx m cm Hin) in Hc. discriminate.
  Qed.

  Lemma Inv_run : forall ops d, Inv d -> atomic_protocol ls vnew d ops = true ->
    forall k, Inv (run d (firstn k ops)) /\
              (forall o, nth_error ops k = Some o -> allowed ls vnew (run d (firstn k ops)) o = true).
  Proof.
    induction ops as [|o ops IH]; intros d HI Hp k.
    - destruct k; cbn; (split; [exact HI|intros ? ?; discriminate]).
    - cbn [atomic_protocol] in Hp. apply andb_true_iff in Hp as [Ha Hp].
      destruct k as [|k]; cbn [firstn nth_error].
      + unfold run; cbn [fold_left]. split; [exact HI|]. intros o' H. inversion H; subst. exact Ha.
      + unfold run; cbn [fold_left]. apply (IH (apply d o) (Inv_step d o HI Ha) Hp k).
  Qed.

  (** what the reader returns in any state satisfying the invariant *)
  Lemma Inv_read d : Inv d ->
    get_cached ls d = get_cached ls d0 \/ get_cached ls d = RVer vnew.
  Proof.
    intros (Hnd & HB & HC).
    destruct (newest d) as [[n c]|] eqn:En.
    - pose proof (newest_spec d n c En) as (Hin & Hc & Hmax).
      destruct (HB n c Hin Hc) as (v & Hp & Hor).
      assert (Hg : get_cached ls d = RVer v) by (unfold get_cached; rewrite En, Hp; reflexivity).
      rewrite Hg. destruct Hor as [Hd0| ->]; [|right; reflexivity].
      left. unfold get_cached.
      destruct (newest d0) as [[n0 c0]|] eqn:E0.
      + destruct (HC n0 c0 eq_refl) as (m & cm & Hinm & Hcm & Hle).
        pose proof (newest_spec d0 n0 c0 E0) as (Hin0 & Hc0 & Hmax0).
        assert (n = n0).
        { apply str_leb_antisym; [eapply Hmax0; eassumption|].
          eapply str_leb_trans; [exact Hle|]. eapply Hmax; eassumption. }
        subst n.
        assert (c = c0).
        { apply (lookup_In d0 Hnd0) in Hd0. apply (lookup_In d0 Hnd0) in Hin0. congruence. }
        subst c. rewrite Hp. reflexivity.
      + exfalso. rewrite (newest_none d0 E0 n c Hd0) in Hc. discriminate.
    - assert (Hg : get_cached ls d = RFallback) by (unfold get_cached; rewrite En; reflexivity).
      rewrite Hg.
      destruct (newest d0) as [[n0 c0]|] eqn:E0.
      + destruct (HC n0 c0 eq_refl) as (m & cm & Hinm & Hcm & _).
        rewrite (newest_none d En m cm Hinm) in Hcm. discriminate.
      + left. unfold get_cached. rewrite E0. reflexivity.
  Qed.
End Inv.

(** ---------- the crash-safety theorem ---------- *)
Theorem crash_safe ls vnew d0 ops :
  good ls d0 = true -> atomic_protocol ls vnew d0 ops = true ->
  forall k cut,
    let r := get_cached ls (crash d0 ops k cut) in
    r = get_cached ls d0 \/ r = RVer vnew.
Proof.
  intros Hg Hp k cut. cbn zeta.
  assert (Hnd0 : NoDup (names d0)).
  { unfold good in Hg. apply andb_true_iff in Hg as [Hg _]. apply nodup_names_NoDup. exact Hg. }
  pose proof (Inv_run ls vnew d0 ops d0 (Inv_init ls vnew d0 Hg) Hp k) as [HI Hnext].
  apply (Inv_read ls vnew d0 Hnd0).
  unfold crash. destruct (nth_error ops k) as [o|] eqn:En; [|exact HI].
  destruct o as [n|n v l|a b|n]; try exact HI.
  destruct ((0 <? cut) && (cut <? l)); [|exact HI].
  apply Inv_step; [exact HI|]. specialize (Hnext _ eq_refl). cbn [allowed] in *. exact Hnext.
Qed.

(** in the words of the property (boolean specification used by the check) *)
Corollary crash_safe_spec ls vnew d0 ops :
  good ls d0 = true -> atomic_protocol ls vnew d0 ops = true ->
  forall k cut, spec_ok (get_cached ls d0) vnew (get_cached ls (crash d0 ops k cut)) = true.
Proof.
  intros Hg Hp k cut. destruct (crash_safe ls vnew d0 ops Hg Hp k cut) as [-> | ->].
  - unfold spec_ok, get_cached. destruct (newest d0) as [[n c]|]; [|reflexivity].
    destruct (parses ls c) as [v|]; [|reflexivity]. cbn [res_eqb]. rewrite N.eqb_refl. reflexivity.
  - cbn [spec_ok]. rewrite N.eqb_refl. apply orb_true_r.
Qed.

(** never the fallback while a valid cached version exists, never a corrupt configuration *)
Corollary crash_never_fallback ls vnew d0 ops v0 :
  good ls d0 = true -> atomic_protocol ls vnew d0 ops = true -> get_cached ls d0 = RVer v0 ->
  forall k cut, exists v, get_cached ls (crash d0 ops k cut) = RVer v /\ (v = v0 \/ v = vnew).
Proof.
  intros Hg Hp H0 k cut. destruct (crash_safe ls vnew d0 ops Hg Hp k cut) as [H|H]; rewrite H.
  - exists v0. auto.
  - exists vnew. auto.
Qed.

(** ---------- the two writers ---------- *)
(** atomic: temp file (a non-cache name), any chunking of the payload, rename, metadata, cleanup *)
Definition save_atomic (tmp name : string) (v : N) (chunks : list N) (meta : list string) : list fop :=
  FCreate tmp :: map (fun n => FWrite tmp v n) chunks ++ [FRename tmp name] ++
  List.concat (map (fun m => [FCreate m; FWrite m 0 1]) meta).
(** in place, as os.WriteFile does *)
Definition save_inplace (name : string) (v : N) (chunks : list N) : list fop :=
  FCreate name :: map (fun n => FWrite name v n) chunks.

(** the in-place writer is refuted: one earlier version, crash after the create (or in the middle of the
    write) of the newer file -> fallback although version 1 is cached *)
Lemma inplace_refuted :
  exists ls d0 ops k cut,
    good ls d0 = true /\ get_cached ls d0 = RVer 1 /\
    spec_ok (get_cached ls d0) 2 (get_cached ls (crash d0 ops k cut)) = false.
Proof.
  exists [(1, 40); (2, 50)], [("autoconf-1700000000.json"%string, CPre 1 40)],
         (save_inplace "autoconf-1790000000.json" 2 [50]), 1%nat, 17.
  vm_compute. repeat split; reflexivity.
Qed.

(** the atomic writer follows the protocol the theorem needs, for every chunking of the payload *)
Lemma lookup_set_same d n c : lookup (set d n c) n = Some c.
Proof. unfold set. cbn [lookup]. rewrite String.eqb_refl. reflexivity. Qed.

Lemma remove_set_same d n c : remove (set d n c) n = remove d n.
Proof.
  unfold set. cbn [remove]. rewrite String.eqb_refl.
  induction d as [|[k ck] d IH]; cbn [remove]; [reflexivity|].
  destruct (String.eqb k n) eqn:E; [exact IH|]. cbn [remove]. rewrite E. f_equal. exact IH.
Qed.

Lemma writes_protocol ls vnew tmp v : is_cache_name tmp = false -> v <> 0 ->
  forall chunks d acc rest,
    lookup d tmp = Some (CPre v acc) -> (acc = 0 -> False) \/ True ->
    (forall d', lookup d' tmp = Some (CPre v (acc + fold_right N.add 0 chunks)) ->
                remove d' tmp = remove d tmp ->
                atomic_protocol ls vnew d' rest = true) ->
    atomic_protocol ls vnew d (map (fun n => FWrite tmp v n) chunks ++ rest) = true.
Proof.
  intros Htmp Hv. induction chunks as [|n chunks IH]; intros d acc rest Hl _ Hrest; cbn [map app fold_right].
  - apply Hrest; [rewrite N.add_0_r; exact Hl|reflexivity].
  - cbn [atomic_protocol allowed apply]. rewrite Htmp. cbn [negb andb]. rewrite Hl.
    assert (Hv0 : (v =? 0) = false) by (apply N.eqb_neq; exact Hv). rewrite Hv0.
    assert (Happ : exists acc', append (CPre v acc) v n = CPre v acc' /\ acc' = acc + n).
    { unfold append. rewrite Hv0. cbn [andb]. rewrite N.eqb_refl. eauto. }
    destruct Happ as (acc' & Ha & ->). rewrite Ha.
    apply (IH _ (acc + n)); [apply lookup_set_same|right; exact I|].
    intros d' Hl' Hr'. apply Hrest; [rewrite <- N.add_assoc in Hl'; exact Hl'|].
    rewrite Hr'. apply remove_set_same.
Qed.

Lemma meta_protocol ls vnew meta : (forall m, In m meta -> is_cache_name m = false) ->
  forall d, atomic_protocol ls vnew d (List.concat (map (fun m => [FCreate m; FWrite m 0 1]) meta)) = true.
Proof.
  induction meta as [|m meta IH]; intros Hm d; [reflexivity|].
  cbn [map List.concat app atomic_protocol allowed].
  rewrite (Hm m (or_introl eq_refl)). cbn [negb andb]. apply IH. intros x Hx. apply Hm. right. exact Hx.
Qed.

Theorem save_atomic_protocol ls d tmp name v n1 chunks meta :
  is_cache_name tmp = false -> is_cache_name name = true ->
  (forall m, In m meta -> is_cache_name m = false) -> v <> 0 ->
  full_len ls v = Some (n1 + fold_right N.add 0 chunks) ->
  atomic_protocol ls v d (save_atomic tmp name v (n1 :: chunks) meta) = true.
Proof.
  intros Htmp Hname Hmeta Hv Hlen. unfold save_atomic. cbn [map app atomic_protocol allowed apply].
  rewrite Htmp. cbn [negb andb]. rewrite lookup_set_same.
  assert (Hv0 : (v =? 0) = false) by (apply N.eqb_neq; exact Hv). rewrite Hv0.
  change (append empty v n1) with (CPre v n1).
  apply (writes_protocol ls v tmp v Htmp Hv chunks _ n1); [apply lookup_set_same|right; exact I|].
  intros d' Hl' _. cbn [app atomic_protocol allowed]. rewrite Htmp, Hname. cbn [negb andb]. rewrite Hl'.
  cbn [parses]. rewrite Hv0, Hlen, !N.eqb_refl. cbn [andb]. apply meta_protocol. exact Hmeta.
Qed.
