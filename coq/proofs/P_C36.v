(** C36 — proofs about the decision-engine model [M_C36], part 1:
    association lists, sorting, and the bound on the ledger (for every defect set). *)
From Coq Require Import List ZArith Bool NArith Arith Lia Permutation Sorted.
From V Require Import lib.Verdict model.M_C36.
Import ListNotations.
Open Scope Z_scope.

(** ---------- association lists ---------- *)
Section ALFacts.
  Context {A : Type}.
  Implicit Types (l : list (nat * A)) (k : nat).

  Lemma aget_aset l k v k' : aget (aset l k v) k' = if (k =? k')%nat then Some v else aget l k'.
  Proof.
    induction l as [|[k0 v0] r IH]; cbn [aset aget].
    - reflexivity.
    - destruct (k0 =? k)%nat eqn:E0; cbn [aget].
      + apply Nat.eqb_eq in E0; subst k0. destruct (k =? k')%nat; reflexivity.
      + rewrite IH. destruct (k =? k')%nat eqn:E1; [|reflexivity].
        apply Nat.eqb_eq in E1; subst k'. rewrite E0. reflexivity.
  Qed.

  Lemma aget_adel l k k' : aget (adel l k) k' = if (k =? k')%nat then None else aget l k'.
  Proof.
    induction l as [|[k0 v0] r IH]; cbn [adel aget].
    - destruct (k =? k')%nat; reflexivity.
    - destruct (k0 =? k)%nat eqn:E0; cbn [aget]; rewrite IH.
      + apply Nat.eqb_eq in E0; subst k0. destruct (k =? k')%nat; reflexivity.
      + destruct (k =? k')%nat eqn:E1; [|reflexivity].
        apply Nat.eqb_eq in E1; subst k'. rewrite E0. reflexivity.
  Qed.

  Lemma amem_aset l k v k' : amem (aset l k v) k' = (k =? k')%nat || amem l k'.
  Proof. unfold amem. rewrite aget_aset. destruct (k =? k')%nat; reflexivity. Qed.

  Lemma amem_adel l k k' : amem (adel l k) k' = negb (k =? k')%nat && amem l k'.
  Proof. unfold amem. rewrite aget_adel. destruct (k =? k')%nat; reflexivity. Qed.

  Lemma aset_length l k v : length (aset l k v) = if amem l k then length l else S (length l).
  Proof.
    unfold amem. induction l as [|[k0 v0] r IH]; cbn [aset aget length]; [reflexivity|].
    destruct (k0 =? k)%nat; cbn [length]; [reflexivity|]. rewrite IH. destruct (aget r k); reflexivity.
  Qed.

  Lemma adel_length l k : (length (adel l k) <= length l)%nat.
  Proof. induction l as [|[k0 v0] r IH]; cbn [adel length]; [lia|]. destruct (k0 =? k)%nat; cbn [length]; lia. Qed.

  Lemma aget_In l k v : aget l k = Some v -> In (k, v) l.
  Proof.
    induction l as [|[k0 v0] r IH]; cbn [aget]; [discriminate|].
    destruct (k0 =? k)%nat eqn:E.
    - apply Nat.eqb_eq in E. intros [= ->]. subst. left; reflexivity.
    - intros H. right; auto.
  Qed.

  Lemma In_amem l k v : In (k, v) l -> amem l k = true.
  Proof.
    unfold amem. induction l as [|[k0 v0] r IH]; cbn [aget]; [intros []|].
    intros [H|H].
    - injection H as -> ->. rewrite Nat.eqb_refl. reflexivity.
    - destruct (k0 =? k)%nat; [reflexivity|auto].
  Qed.
End ALFacts.

Lemma nmem_In k s : nmem k s = true <-> In k s.
Proof.
  unfold nmem. rewrite existsb_exists. split.
  - intros (x & Hx & E). apply Nat.eqb_eq in E. subst; exact Hx.
  - intros H. exists k. split; [exact H|apply Nat.eqb_refl].
Qed.

(** ---------- the sorts used for observations are permutations ---------- *)
Lemma ninsert_perm x l : Permutation (ninsert x l) (x :: l).
Proof.
  induction l as [|y r IH]; cbn [ninsert]; [reflexivity|].
  destruct (x <=? y)%nat; [reflexivity|].
  eapply Permutation_trans; [apply perm_skip, IH|apply perm_swap].
Qed.
Lemma nsort_perm l : Permutation (nsort l) l.
Proof.
  induction l as [|x r IH]; cbn [nsort fold_right]; [reflexivity|]. fold (nsort r).
  eapply Permutation_trans; [apply ninsert_perm|apply perm_skip, IH].
Qed.
Lemma kinsert_perm {A} (x : nat * A) l : Permutation (kinsert x l) (x :: l).
Proof.
  induction l as [|y r IH]; cbn [kinsert]; [reflexivity|].
  destruct (fst x <=? fst y)%nat; [reflexivity|].
  eapply Permutation_trans; [apply perm_skip, IH|apply perm_swap].
Qed.
Lemma ksort_perm {A} (l : list (nat * A)) : Permutation (ksort l) l.
Proof.
  induction l as [|x r IH]; cbn [ksort fold_right]; [reflexivity|]. fold (ksort r).
  eapply Permutation_trans; [apply kinsert_perm|apply perm_skip, IH].
Qed.
Lemma ksort_length {A} (l : list (nat * A)) : length (ksort l) = length l.
Proof. apply Permutation_length, ksort_perm. Qed.
Lemma In_nsort x l : In x (nsort l) <-> In x l.
Proof. split; apply Permutation_in; [|symmetry]; apply nsort_perm. Qed.

(** ---------- the ledger never exceeds the limit (any defect set) ---------- *)
Definition bnd (lim : nat) (s : pst) : Prop := (length (pl s) <= lim)%nat.

Lemma ledger_wants_bnd lim s c e : bnd lim s -> bnd lim (fst (ledger_wants lim s c e)).
Proof.
  unfold bnd, ledger_wants. intros H.
  destruct ((length (pl s) =? lim)%nat && negb (amem (pl s) c)) eqn:G; cbn [fst pl]; [exact H|].
  rewrite aset_length. destruct (amem (pl s) c) eqn:M; [exact H|].
  rewrite andb_false_iff in G. destruct G as [G|G]; [|discriminate].
  apply Nat.eqb_neq in G. lia.
Qed.

Lemma cancel_want_bnd lim s c : bnd lim s -> bnd lim (fst (cancel_want s c)).
Proof. unfold bnd, cancel_want; cbn [fst pl]. pose proof (adel_length (pl s) c). lia. Qed.

Lemma cancel_with_type_bnd lim s c b : bnd lim s -> bnd lim (cancel_with_type s c b).
Proof.
  unfold bnd, cancel_with_type. intros H. destruct (aget (pl s) c) as [[pr ty]|]; [|exact H].
  destruct (negb b && ty); [exact H|]. cbn [pl]. pose proof (adel_length (pl s) c). lia.
Qed.

Lemma fold_left_inv {A B} (P : A -> Prop) (f : A -> B -> A) l a :
  P a -> (forall a b, P a -> P (f a b)) -> P (fold_left f l a).
Proof. revert a. induction l as [|b r IH]; cbn [fold_left]; auto. Qed.

Lemma filter_overflow_bnd lim s ws : bnd lim s -> bnd lim (fst (fst (filter_overflow lim s ws))).
Proof.
  intros H. unfold filter_overflow.
  apply (fold_left_inv (fun acc : pst * list want * list want => bnd lim (fst (fst acc)))); [exact H|].
  intros [[s0 keep] ov] w H0. cbn [fst] in H0.
  pose proof (ledger_wants_bnd lim s0 (w_cid w) (w_prio w, w_block w) H0) as H1.
  destruct (ledger_wants lim s0 (w_cid w) (w_prio w, w_block w)) as [s' ok]. cbn [fst] in H1.
  destruct ok; cbn [fst]; assumption.
Qed.

Lemma apply_plan_bnd lim s plan : bnd lim s -> bnd lim (apply_plan lim s plan).
Proof.
  intros H. unfold apply_plan. apply fold_left_inv; [exact H|].
  intros a [e o] Ha. cbn [fst snd]. cbn zeta.
  pose proof (cancel_want_bnd lim a (fst e) Ha) as H1.
  destruct (cancel_want a (fst e)) as [s1 had]. cbn [fst] in H1.
  apply ledger_wants_bnd. destruct had; exact H1.
Qed.

Lemma do_cancels_bnd fl lim s cs : bnd lim s -> bnd lim (do_cancels fl s cs).
Proof.
  intros H. unfold do_cancels. apply fold_left_inv; [exact H|].
  intros a e Ha. pose proof (cancel_want_bnd lim a (w_cid e) Ha) as H1.
  destruct (cancel_want a (w_cid e)) as [s1 had]. cbn [fst] in H1.
  destruct (had || negb (f_cancel_ledger fl)); exact H1.
Qed.

Lemma msg_peer_bnd fl g b p full ents s :
  bnd (c_limit g) s -> bnd (c_limit g) (msg_peer fl g b p full ents s).
Proof.
  intros H. unfold msg_peer. destruct ents as [|e0 er]; [exact H|].
  destruct (split g p (e0 :: er)) as [[ws cs] ds].
  set (s1 := if full then _ else s).
  assert (H1 : bnd (c_limit g) s1).
  { subst s1. destruct full; [|exact H]. unfold bnd, clear_wantlist in *.
    destruct (f_full_keeps fl); cbn [pl]; destruct (f_clear_keeps fl); cbn [length]; lia. }
  pose proof (filter_overflow_bnd (c_limit g) s1 ws H1) as H2.
  destruct (filter_overflow (c_limit g) s1 ws) as [[s2 keep] ov]. cbn [fst] in H2.
  assert (H3 : bnd (c_limit g) (fst (match ov with [] => (s2, keep) | _ :: _ => handle_overflow fl g b s2 ov keep end))).
  { destruct ov; cbn [fst]; [exact H2|]. unfold handle_overflow; cbn [fst]. apply apply_plan_bnd, H2. }
  destruct (match ov with [] => (s2, keep) | _ :: _ => handle_overflow fl g b s2 ov keep end) as [s3 ws'].
  cbn [fst] in H3. pose proof (do_cancels_bnd fl (c_limit g) s3 cs H3) as H4.
  destruct (flat_map (dh_task g) ds ++ flat_map (want_task fl g b) ws'); [exact H4|].
  unfold bnd in *; cbn [pl]; exact H4.
Qed.

Lemma notify_peer_bnd fl g c lim s : bnd lim s -> bnd lim (notify_peer fl g c s).
Proof. unfold notify_peer, bnd. destruct (aget (inv s) c) as [[pr ty]|]; cbn [pl]; auto. Qed.

Lemma drain_peer_bnd lim b s : bnd lim s -> bnd lim (fst (drain_peer b s)).
Proof.
  intros H. unfold drain_peer; cbn [fst]. unfold bnd; cbn [pl]. change (bnd lim (message_sent s (response b (tasks s)))).
  unfold message_sent. destruct (response b (tasks s)) as [[bl hv] dh].
  apply fold_left_inv; [apply fold_left_inv; [exact H|]|]; intros; apply cancel_with_type_bnd; assumption.
Qed.

Lemma upd_Forall {A} (P : A -> Prop) l i x : Forall P l -> P x -> Forall P (upd l i x).
Proof.
  revert i. induction l as [|a r IH]; intros i Hl Hx; cbn [upd]; [constructor|].
  inversion Hl; subst. destruct i; constructor; auto.
Qed.

Lemma nth_Forall {A} (P : A -> Prop) l i d : Forall P l -> P d -> P (nth i l d).
Proof.
  revert i. induction l as [|a r IH]; intros i Hl Hd; destruct i; cbn [nth]; auto; inversion Hl; subst; auto.
Qed.

Lemma step_bnd fl g s o :
  Forall (bnd (c_limit g)) (peers s) -> Forall (bnd (c_limit g)) (peers (fst (step fl g s o))).
Proof.
  intros H. destruct o as [p full ents|c|c|]; cbn [step].
  - destruct (p <? length (peers s))%nat; cbn [fst]; [|exact H]. unfold setp; cbn [peers].
    apply upd_Forall; [exact H|]. apply msg_peer_bnd. unfold getp. apply nth_Forall; [exact H|].
    unfold bnd, pst0; cbn; lia.
  - cbn [fst peers]. apply Forall_map. eapply Forall_impl; [|exact H]. intros a. apply notify_peer_bnd.
  - exact H.
  - cbn [fst peers]. rewrite map_map. apply Forall_map. eapply Forall_impl; [|exact H].
    intros a. apply drain_peer_bnd.
Qed.

Lemma bounded_of_bnd g s rs :
  Forall (bnd (c_limit g)) (peers s) -> bounded_ok g (obs_step s rs) = true.
Proof.
  intros H. unfold bounded_ok, obs_step; cbn [so_peers]. rewrite forallb_forall. intros po Hin.
  apply in_map_iff in Hin. destruct Hin as (a & <- & Ha). unfold obs_peer; cbn [o_pl].
  rewrite ksort_length. apply Nat.leb_le. rewrite Forall_forall in H. apply H, Ha.
Qed.

Theorem bounded_run fl g s ops :
  Forall (bnd (c_limit g)) (peers s) -> forallb (bounded_ok g) (run fl g s ops) = true.
Proof.
  revert s. induction ops as [|o r IH]; intros s H; cbn [run forallb]; [reflexivity|].
  pose proof (step_bnd fl g s o H) as H1. destruct (step fl g s o) as [s' rs]. cbn [fst] in H1.
  cbn [forallb]. rewrite bounded_of_bnd by exact H1. cbn [andb]. apply IH, H1.
Qed.

Theorem bounded_all fl g np b0 ops : forallb (bounded_ok g) (run fl g (init np b0) ops) = true.
Proof.
  apply bounded_run. unfold init; cbn [peers]. apply Forall_forall. intros x Hx.
  apply repeat_spec in Hx. subst x. unfold bnd, pst0; cbn; lia.
Qed.
