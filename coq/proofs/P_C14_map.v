(** C14 — links of a node as a finite map in canonical (strictly sorted) order:
    get / del / ins / set laws, extensionality, structural equality. *)
From Coq Require Import List ZArith Bool Lia Sorted.
From V Require Import lib.C11_DagPb model.M_C14 proofs.P_C11_sort.
Import ListNotations.
Open Scope Z_scope.

(** ---------- induction principle for the nested type ---------- *)
Section TreeInd.
Variable P : tree -> Prop.
Hypothesis HRaw : forall d, P (Raw d).
Hypothesis HPB : forall d k, Forall (fun nc => P (snd nc)) k -> P (PB d k).
Fixpoint tree_ind2 (t : tree) : P t :=
  match t with
  | Raw d => HRaw d
  | PB d k =>
      HPB d k ((fix go (k : list (name * tree)) : Forall (fun nc => P (snd nc)) k :=
                  match k with
                  | [] => Forall_nil _
                  | nc :: r => Forall_cons nc (tree_ind2 (snd nc)) (go r)
                  end) k)
  end.
End TreeInd.

(** ---------- structural equality ---------- *)
Fixpoint kids_eqb (ka kb : list (name * tree)) : bool :=
  match ka, kb with
  | [], [] => true
  | (n, c) :: ra, (m, e) :: rb => bytes_eqb n m && tree_eqb c e && kids_eqb ra rb
  | _, _ => false
  end.

Lemma tree_eqb_PB : forall x ka y kb,
  tree_eqb (PB x ka) (PB y kb) = (x =? y) && kids_eqb ka kb.
Proof.
  intros x ka y kb. reflexivity.
Qed.

Lemma tree_eqb_eq : forall a b, tree_eqb a b = true <-> a = b.
Proof.
  induction a as [d | d k IH] using tree_ind2; intros b.
  - destruct b as [y kb | y]; cbn [tree_eqb]; split; intro E; try discriminate.
    + apply Z.eqb_eq in E. subst. reflexivity.
    + injection E as ->. apply Z.eqb_refl.
  - destruct b as [y kb | y]; [|split; intro E; [cbn in E|]; discriminate].
    rewrite tree_eqb_PB.
    assert (K : forall kb, kids_eqb k kb = true <-> k = kb).
    { clear y kb. induction k as [|[n c] r IHr]; intros [|[m e] rb]; cbn [kids_eqb];
        split; intro E; try reflexivity; try discriminate.
      - inversion IH as [|? ? Hc Hr]; subst. cbn [snd] in Hc.
        apply andb_true_iff in E as [E E3]. apply andb_true_iff in E as [E1 E2].
        apply bytes_eqb_eq in E1. apply Hc in E2. apply (IHr Hr) in E3. subst. reflexivity.
      - inversion IH as [|? ? Hc Hr]; subst. cbn [snd] in Hc. injection E as -> -> ->.
        rewrite bytes_eqb_refl. cbn [andb].
        rewrite (proj2 (Hc e) eq_refl). cbn [andb]. apply (IHr Hr). reflexivity. }
    split; intro E.
    + apply andb_true_iff in E as [E1 E2]. apply Z.eqb_eq in E1. apply K in E2. subst. reflexivity.
    + injection E as -> ->. rewrite Z.eqb_refl. cbn [andb]. apply K. reflexivity.
Qed.

Lemma tree_eqb_refl : forall a, tree_eqb a a = true.
Proof. intro a. apply tree_eqb_eq. reflexivity. Qed.

Lemma tree_eqb_neq : forall a b, tree_eqb a b = false -> a <> b.
Proof. intros a b E Eq. apply tree_eqb_eq in Eq. congruence. Qed.

(** ---------- canonical order ---------- *)
Definition nlt (a b : name * tree) : Prop := bytes_ltb (fst a) (fst b) = true.
Definition SS (k : list (name * tree)) : Prop := StronglySorted nlt k.

Lemma names_sorted_SS : forall k, names_sorted k = true -> SS k.
Proof.
  induction k as [|[n c] r IH]; intro E; [constructor|].
  cbn [names_sorted] in E. destruct r as [|[m e] r'].
  - constructor; constructor.
  - apply andb_true_iff in E as [E1 E2]. specialize (IH E2).
    constructor; [exact IH|].
    constructor; [exact E1|].
    inversion IH as [|? ? _ F]; subst.
    rewrite Forall_forall in *. intros x Hx. specialize (F x Hx).
    unfold nlt in *. cbn [fst] in *. eapply bytes_ltb_trans; eassumption.
Qed.

Lemma SS_names_sorted : forall k, SS k -> names_sorted k = true.
Proof.
  induction k as [|[n c] r IH]; intro S; [reflexivity|].
  inversion S as [|? ? Sr F]; subst. cbn [names_sorted]. destruct r as [|[m e] r']; [reflexivity|].
  inversion F; subst. apply andb_true_iff. split; [assumption| apply IH; exact Sr].
Qed.

Lemma get_lt : forall n r m x,
  Forall (nlt (n, x)) r -> forall y, get m r = Some y -> bytes_ltb n m = true.
Proof.
  intros n r m x F. induction r as [|[m' c] r IH]; intros y G; [discriminate G|].
  inversion F as [|? ? H1 H2]; subst. cbn [get] in G. destruct (bytes_eqb m' m) eqn:E.
  - apply bytes_eqb_eq in E. subst. exact H1.
  - eapply IH; eassumption.
Qed.

Lemma get_head_none : forall n x r, Forall (nlt (n, x)) r -> get n r = None.
Proof.
  intros n x r F. destruct (get n r) as [y|] eqn:G; [|reflexivity].
  pose proof (get_lt n r n x F y G) as L. rewrite bytes_ltb_irrefl in L. discriminate.
Qed.

(** two canonical link lists with the same lookups are equal *)
Lemma kids_ext : forall k1 k2, SS k1 -> SS k2 -> (forall n, get n k1 = get n k2) -> k1 = k2.
Proof.
  induction k1 as [|[n c] r1 IH]; intros k2 S1 S2 G.
  - destruct k2 as [|[m e] r2]; [reflexivity|].
    specialize (G m). cbn [get] in G. rewrite bytes_eqb_refl in G. discriminate.
  - destruct k2 as [|[m e] r2].
    + specialize (G n). cbn [get] in G. rewrite bytes_eqb_refl in G. discriminate.
    + inversion S1 as [|? ? Sr1 F1]; subst. inversion S2 as [|? ? Sr2 F2]; subst.
      assert (n = m) as ->.
      { apply bytes_ltb_total.
        - destruct (bytes_ltb n m) eqn:L; [|reflexivity]. exfalso.
          pose proof (G n) as Gn. cbn [get] in Gn. rewrite bytes_eqb_refl in Gn.
          destruct (bytes_eqb m n) eqn:E.
          { apply bytes_eqb_eq in E. subst. rewrite bytes_ltb_irrefl in L. discriminate. }
          symmetry in Gn. pose proof (get_lt m r2 n e F2 c Gn) as L2.
          pose proof (bytes_ltb_trans _ _ _ L L2) as L3. rewrite bytes_ltb_irrefl in L3. discriminate.
        - destruct (bytes_ltb m n) eqn:L; [|reflexivity]. exfalso.
          pose proof (G m) as Gm. cbn [get] in Gm. rewrite bytes_eqb_refl in Gm.
          destruct (bytes_eqb n m) eqn:E.
          { apply bytes_eqb_eq in E. subst. rewrite bytes_ltb_irrefl in L. discriminate. }
          pose proof (get_lt n r1 m c F1 e Gm) as L2.
          pose proof (bytes_ltb_trans _ _ _ L L2) as L3. rewrite bytes_ltb_irrefl in L3. discriminate. }
      pose proof (G m) as Gm. cbn [get] in Gm. rewrite bytes_eqb_refl in Gm. injection Gm as ->.
      f_equal. apply IH; [exact Sr1| exact Sr2|].
      intro x. destruct (bytes_eqb m x) eqn:E.
      * apply bytes_eqb_eq in E. subst.
        rewrite (get_head_none x e r1 F1), (get_head_none x e r2 F2). reflexivity.
      * specialize (G x). cbn [get] in G. rewrite E in G. exact G.
Qed.

(** ---------- get / del / ins / set ---------- *)
Lemma get_del : forall n m k, get m (del n k) = if bytes_eqb n m then None else get m k.
Proof.
  intros n m k. induction k as [|[m' c] r IH]; cbn [del get].
  - destruct (bytes_eqb n m); reflexivity.
  - destruct (bytes_eqb m' n) eqn:E1.
    + apply bytes_eqb_eq in E1. subst. rewrite IH. destruct (bytes_eqb n m); reflexivity.
    + cbn [get]. rewrite IH. destruct (bytes_eqb m' m) eqn:E2; [|reflexivity].
      apply bytes_eqb_eq in E2. subst.
      destruct (bytes_eqb n m) eqn:E3; [|reflexivity].
      apply bytes_eqb_eq in E3. subst. rewrite bytes_eqb_refl in E1. discriminate.
Qed.

Lemma get_ins : forall n x m k, get n k = None ->
  get m (ins n x k) = if bytes_eqb n m then Some x else get m k.
Proof.
  intros n x m k. induction k as [|[m' c] r IH]; intro G; cbn [ins get].
  - reflexivity.
  - cbn [get] in G. destruct (bytes_eqb m' n) eqn:E1; [discriminate G|].
    destruct (bytes_ltb n m'); cbn [get].
    + reflexivity.
    + rewrite (IH G). destruct (bytes_eqb m' m) eqn:E2; [|reflexivity].
      apply bytes_eqb_eq in E2. subst.
      destruct (bytes_eqb n m) eqn:E3; [|reflexivity].
      apply bytes_eqb_eq in E3. subst. rewrite bytes_eqb_refl in E1. discriminate.
Qed.

Lemma get_del_same : forall n k, get n (del n k) = None.
Proof. intros. rewrite get_del, bytes_eqb_refl. reflexivity. Qed.

Lemma get_set : forall n x m k, get m (set n x k) = if bytes_eqb n m then Some x else get m k.
Proof.
  intros n x m k. unfold set. rewrite get_ins by apply get_del_same.
  rewrite get_del. destruct (bytes_eqb n m); reflexivity.
Qed.

Lemma in_del : forall e n k, In e (del n k) -> In e k.
Proof.
  intros e n k. induction k as [|[m c] r IH]; cbn [del]; intro H; [exact H|].
  destruct (bytes_eqb m n); [right; apply IH; exact H|].
  destruct H as [H|H]; [left; exact H| right; apply IH; exact H].
Qed.

Lemma SS_del : forall n k, SS k -> SS (del n k).
Proof.
  intros n k S. induction S as [|[m c] r Sr IH F]; cbn [del]; [constructor|].
  destruct (bytes_eqb m n); [exact IH|]. constructor; [exact IH|].
  rewrite Forall_forall in *. intros e He. apply F. eapply in_del. exact He.
Qed.

Lemma in_ins : forall e n x k, In e (ins n x k) -> e = (n, x) \/ In e k.
Proof.
  intros e n x k. induction k as [|[m c] r IH]; cbn [ins]; intro H.
  - destruct H as [H|[]]. left. symmetry. exact H.
  - destruct (bytes_ltb n m).
    + destruct H as [H|H]; [left; symmetry; exact H| right; exact H].
    + destruct H as [H|H]; [right; left; exact H|].
      destruct (IH H) as [H'|H']; [left; exact H'| right; right; exact H'].
Qed.

Lemma SS_ins : forall n x k, SS k -> get n k = None -> SS (ins n x k).
Proof.
  intros n x k S. induction S as [|[m c] r Sr IH F]; intro G; cbn [ins].
  - constructor; constructor.
  - cbn [get] in G. destruct (bytes_eqb m n) eqn:E; [discriminate G|].
    destruct (bytes_ltb n m) eqn:L.
    + constructor; [constructor; assumption|].
      constructor; [exact L|].
      rewrite Forall_forall in *. intros e He. specialize (F e He). unfold nlt in *. cbn [fst] in *.
      eapply bytes_ltb_trans; eassumption.
    + assert (L2 : bytes_ltb m n = true).
      { destruct (bytes_ltb m n) eqn:L2; [reflexivity|].
        pose proof (bytes_ltb_total _ _ L2 L) as Emn. subst. rewrite bytes_eqb_refl in E. discriminate. }
      constructor; [apply IH; exact G|].
      rewrite Forall_forall in *. intros e He. destruct (in_ins _ _ _ _ He) as [->|He'].
      * exact L2.
      * apply F. exact He'.
Qed.

Lemma SS_set : forall n x k, SS k -> SS (set n x k).
Proof. intros n x k S. unfold set. apply SS_ins; [apply SS_del; exact S| apply get_del_same]. Qed.

Lemma del_del : forall n k, del n (del n k) = del n k.
Proof.
  intros n k. induction k as [|[m c] r IH]; cbn [del]; [reflexivity|].
  destruct (bytes_eqb m n) eqn:E; [exact IH|]. cbn [del]. rewrite E, IH. reflexivity.
Qed.

Lemma set_del : forall n x k, set n x (del n k) = set n x k.
Proof. intros. unfold set. rewrite del_del. reflexivity. Qed.

Lemma set_set : forall n x y k, SS k -> set n x (set n y k) = set n x k.
Proof.
  intros n x y k S. apply kids_ext; try (apply SS_set; try apply SS_set; exact S).
  intro m. rewrite !get_set. destruct (bytes_eqb n m); reflexivity.
Qed.

Lemma set_same : forall n x k, SS k -> get n k = Some x -> set n x k = k.
Proof.
  intros n x k S G. apply kids_ext; [apply SS_set; exact S| exact S|].
  intro m. rewrite get_set. destruct (bytes_eqb n m) eqn:E; [|reflexivity].
  apply bytes_eqb_eq in E. subst. symmetry. exact G.
Qed.

Lemma get_in : forall n c k, get n k = Some c -> In (n, c) k.
Proof.
  intros n c k. induction k as [|[m e] r IH]; cbn [get]; intro G; [discriminate G|].
  destruct (bytes_eqb m n) eqn:E.
  - apply bytes_eqb_eq in E. injection G as ->. subst. left. reflexivity.
  - right. apply IH. exact G.
Qed.

Lemma in_get : forall n c k, SS k -> In (n, c) k -> get n k = Some c.
Proof.
  intros n c k S. induction S as [|[m e] r Sr IH F]; intro H; [destruct H|].
  cbn [get]. destruct H as [H|H].
  - injection H as -> ->. rewrite bytes_eqb_refl. reflexivity.
  - destruct (bytes_eqb m n) eqn:E; [|apply IH; exact H].
    apply bytes_eqb_eq in E. subst. rewrite Forall_forall in F. specialize (F _ H).
    unfold nlt in F. cbn [fst] in F. rewrite bytes_ltb_irrefl in F. discriminate.
Qed.
