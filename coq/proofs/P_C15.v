(** C15 — proofs about the model of model/M_C15.v. *)
From Coq Require Import List ZArith Bool NArith String Ascii Lia.
From V Require Import lib.Verdict model.M_C15.
Import ListNotations.
Open Scope Z_scope.

Lemma placeholder_true : True. Proof. exact I. Qed.
