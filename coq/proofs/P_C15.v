(** C15 — the directory model of model/M_C15.v (pure Basic, pure HAMT, Dynamic with any
    size-decision oracle, reloads at any point) meets the map specification
    [spec_run] — the very function the correspondence check evaluates on what the
    implementation answered. *)
From Coq Require Import List ZArith Bool NArith String Ascii Lia Sorted Permutation.
From V Require Import lib.Verdict model.M_C15 proofs.P_C15_bits proofs.P_C15_trie.
Import ListNotations.
Open Scope Z_scope.

Notation llen := List.length.

(* ------------------------------------------------------------------ *)
(** * strings *)
Lemma slen_app : forall a b, String.length (a ++ b)%string = (String.length a + String.length b)%nat.
Proof. induction a as [|ch a IH]; intros b; cbn; [reflexivity|]. rewrite IH. reflexivity. Qed.

Lemma hexpad_length : forall n x, String.length (hexpad n x) = n.
Proof.
  induction n as [|n IH]; intros x; cbn [hexpad]; [reflexivity|].
  rewrite slen_app, IH. cbn. lia.
Qed.

Lemma substring_all : forall s, substring 0 (String.length s) s = s.
Proof. induction s as [|ch s IH]; cbn; [reflexivity|]. rewrite IH. reflexivity. Qed.

Lemma drop_app : forall a b, drop (String.length a) (a ++ b)%string = b.
Proof.
  intros a b. unfold drop. rewrite slen_app.
  replace (String.length a + String.length b - String.length a)%nat with (String.length b) by lia.
  induction a as [|ch a IH]; cbn; [apply substring_all|exact IH].
Qed.

(* ------------------------------------------------------------------ *)
(** * association lists with distinct keys *)
Definition keys_nodup (l : list (name * val)) : Prop := NoDup (map fst l).
Definition same (a b : list (name * val)) : Prop := forall x, In x a <-> In x b.

Lemma bget_some_in : forall k l v, bget k l = Some v -> In (k, v) l.
Proof.
  intros k l. induction l as [|[g w] r IH]; intros v H; [discriminate|]. cbn [bget] in H.
  destruct (name_eqb g k) eqn:E.
  - apply name_eqb_eq in E. inversion H. subst. left. reflexivity.
  - right. apply IH. exact H.
Qed.

Lemma bget_none_notin : forall k l, bget k l = None -> ~ In k (map fst l).
Proof.
  intros k l. induction l as [|[g w] r IH]; intros H Hin; [contradiction|]. cbn [bget] in H.
  destruct (name_eqb g k) eqn:E; [discriminate|]. apply name_eqb_neq in E.
  cbn in Hin. destruct Hin as [Hin|Hin]; [congruence|]. exact (IH H Hin).
Qed.

Lemma in_keys_l : forall k v (l : list (name * val)), In (k, v) l -> In k (map fst l).
Proof. intros. apply in_map_iff. exists (k, v). split; [reflexivity|assumption]. Qed.

Lemma bget_in : forall k l v, keys_nodup l -> In (k, v) l -> bget k l = Some v.
Proof.
  intros k l. induction l as [|[g w] r IH]; intros v Hnd Hin; [contradiction|].
  unfold keys_nodup in Hnd. cbn [map fst] in Hnd. inversion Hnd as [|? ? Hn Hnd']. subst. cbn [bget].
  destruct Hin as [Hin|Hin].
  - inversion Hin. subst. rewrite name_eqb_refl. reflexivity.
  - destruct (name_eqb g k) eqn:E.
    + apply name_eqb_eq in E. subst g. exfalso. apply Hn. eapply in_keys_l. exact Hin.
    + apply IH; assumption.
Qed.

Lemma in_bdel : forall k l a b, In (a, b) (bdel k l) <-> a <> k /\ In (a, b) l.
Proof.
  intros k l a b. unfold bdel. rewrite filter_In. cbn [fst]. split.
  - intros [H1 H2]. split; [|exact H1]. apply negb_true_iff in H2. apply name_eqb_neq in H2. exact H2.
  - intros [H1 H2]. split; [exact H2|]. apply negb_true_iff. apply name_eqb_neq. exact H1.
Qed.

Lemma keys_bdel : forall k l a, In a (map fst (bdel k l)) <-> a <> k /\ In a (map fst l).
Proof.
  intros k l a. rewrite !in_map_iff. split.
  - intros [[x y] [E H]]. cbn in E. subst x. apply in_bdel in H. destruct H as [H1 H2].
    split; [exact H1|]. exists (a, y). split; [reflexivity|exact H2].
  - intros [H1 [[x y] [E H]]]. cbn in E. subst x. exists (a, y). split; [reflexivity|]. apply in_bdel. auto.
Qed.

Lemma filter_all_id : forall {A} (f : A -> bool) l, (forall x, In x l -> f x = true) -> filter f l = l.
Proof.
  intros A f l. induction l as [|a r IH]; intros H; [reflexivity|]. cbn [filter].
  rewrite (H a (or_introl eq_refl)). f_equal. apply IH. intros x Hx. apply H. right. exact Hx.
Qed.

Lemma nodup_bdel : forall k l, keys_nodup l -> keys_nodup (bdel k l).
Proof.
  intros k l. unfold keys_nodup. induction l as [|[g w] r IH]; intros H; [constructor|].
  cbn [map fst] in H. inversion H as [|? ? Hn Hnd]. subst. unfold bdel. cbn [filter fst].
  destruct (negb (name_eqb g k)); [|apply IH; exact Hnd].
  cbn [map fst]. constructor; [|apply IH; exact Hnd].
  intros Hin. apply keys_bdel in Hin. apply Hn. apply Hin.
Qed.

Lemma nodup_snoc : forall l k (v : val), keys_nodup l -> ~ In k (map fst l) -> keys_nodup (l ++ [(k, v)]).
Proof.
  intros l k v. unfold keys_nodup. induction l as [|[g w] r IH]; intros H Hn.
  - cbn. constructor; [intros []|constructor].
  - cbn [map fst app] in *. inversion H as [|? ? Hg Hnd]. subst. constructor.
    + rewrite map_app, in_app_iff. cbn. intros [Hin|[E|[]]]; [contradiction|]. subst. apply Hn. left. reflexivity.
    + apply IH; [exact Hnd|]. intros Hin. apply Hn. right. exact Hin.
Qed.

Lemma nodup_pairs : forall l, keys_nodup l -> NoDup l.
Proof. intros l H. unfold keys_nodup in H. eapply NoDup_map_inv. exact H. Qed.

Lemma same_perm : forall a b, keys_nodup a -> keys_nodup b -> same a b -> Permutation a b.
Proof. intros a b Ha Hb Hs. apply NoDup_Permutation; [apply nodup_pairs; exact Ha|apply nodup_pairs; exact Hb|exact Hs]. Qed.

Lemma same_length : forall a b, keys_nodup a -> keys_nodup b -> same a b -> llen a = llen b.
Proof. intros. apply Permutation_length. apply same_perm; assumption. Qed.

Lemma same_keys : forall a b k, same a b -> (In k (map fst a) <-> In k (map fst b)).
Proof.
  intros a b k Hs. rewrite !in_map_iff. split; intros [[x y] [E H]]; exists (x, y); (split; [exact E|]); apply Hs; exact H.
Qed.

Lemma bget_same : forall k a b, keys_nodup a -> keys_nodup b -> same a b -> bget k a = bget k b.
Proof.
  intros k a b Ha Hb Hs. destruct (bget k a) as [v|] eqn:E.
  - symmetry. apply bget_in; [exact Hb|]. apply Hs. apply bget_some_in. exact E.
  - destruct (bget k b) as [v|] eqn:E'; [|reflexivity].
    exfalso. apply (bget_none_notin k a E). eapply in_keys_l. apply Hs. apply bget_some_in. exact E'.
Qed.

(** sorting the links of a node *)
Lemma sort_ins_perm : forall p l, Permutation (sort_ins p l) (p :: l).
Proof.
  intros p l. induction l as [|q r IH]; cbn [sort_ins]; [reflexivity|].
  destruct (String.ltb (fst p) (fst q)); [reflexivity|].
  rewrite IH. apply perm_swap.
Qed.

Lemma sort_links_perm : forall l, Permutation (sort_links l) l.
Proof.
  induction l as [|p r IH]; [reflexivity|]. unfold sort_links. cbn [fold_right].
  rewrite sort_ins_perm. constructor. exact IH.
Qed.

Lemma sort_links_same : forall l, same (sort_links l) l.
Proof. intros l x. split; apply Permutation_in; [apply sort_links_perm|symmetry; apply sort_links_perm]. Qed.

Lemma sort_links_nodup : forall l, keys_nodup l -> keys_nodup (sort_links l).
Proof.
  intros l H. unfold keys_nodup in *. eapply Permutation_NoDup; [|exact H].
  apply Permutation_map. symmetry. apply sort_links_perm.
Qed.

(** the multiset comparison used by the specification *)
Lemma val_eqb_eq : forall a b, val_eqb a b = true <-> a = b.
Proof.
  intros [a1 a2 a3] [b1 b2 b3]. unfold val_eqb. cbn. rewrite !andb_true_iff, !Z.eqb_eq. split.
  - intros [[-> ->] ->]. reflexivity.
  - intros H. inversion H. auto.
Qed.

Lemma entry_eqb_eq : forall a b, entry_eqb a b = true <-> a = b.
Proof.
  intros [a1 a2] [b1 b2]. unfold entry_eqb. cbn. rewrite andb_true_iff, name_eqb_eq, val_eqb_eq. split.
  - intros [-> ->]. reflexivity.
  - intros H. inversion H. auto.
Qed.

Lemma remove1_perm : forall x l, In x l -> exists l', remove1 x l = Some l' /\ Permutation l (x :: l').
Proof.
  intros x l. induction l as [|y r IH]; intros Hin; [contradiction|]. cbn [remove1].
  destruct (entry_eqb x y) eqn:E.
  - apply entry_eqb_eq in E. subst y. exists r. split; reflexivity.
  - destruct Hin as [Hin|Hin]; [subst; rewrite (proj2 (entry_eqb_eq x x) eq_refl) in E; discriminate|].
    destruct (IH Hin) as [l' [H1 H2]]. rewrite H1. exists (y :: l'). split; [reflexivity|].
    rewrite H2. apply perm_swap.
Qed.

Lemma same_entries_perm : forall l1 l2, Permutation l1 l2 -> same_entries l1 l2 = true.
Proof.
  induction l1 as [|x r IH]; intros l2 Hp.
  - apply Permutation_nil in Hp. subst. reflexivity.
  - cbn [same_entries]. assert (Hin : In x l2) by (eapply Permutation_in; [exact Hp|left; reflexivity]).
    destruct (remove1_perm x l2 Hin) as [l' [H1 H2]]. rewrite H1. apply IH.
    eapply Permutation_cons_inv. rewrite Hp. exact H2.
Qed.

(** the map operations of the specification *)
Lemma mput_nodup : forall k v m, keys_nodup m -> keys_nodup (mput k v m).
Proof.
  intros k v m H. unfold mput, keys_nodup. cbn [map fst]. constructor; [|apply nodup_bdel; exact H].
  intros Hin. apply keys_bdel in Hin. destruct Hin as [Hne _]. congruence.
Qed.

Lemma mput_in : forall k v m a b, In (a, b) (mput k v m) <-> (a = k /\ b = v) \/ (a <> k /\ In (a, b) m).
Proof.
  intros. unfold mput. cbn [In]. rewrite in_bdel. split.
  - intros [H|H]; [inversion H; left; auto|right; exact H].
  - intros [[-> ->]|H]; [left; reflexivity|right; exact H].
Qed.

(* ------------------------------------------------------------------ *)
(** * collisions *)
Lemma zlist_eqb_eq : forall a b, zlist_eqb a b = true <-> a = b.
Proof.
  unfold zlist_eqb. induction a as [|x a IH]; intros [|y b]; cbn [list_eqb]; split; intros H; try reflexivity; try discriminate.
  - apply andb_true_iff in H. destruct H as [H1 H2]. apply Z.eqb_eq in H1. apply IH in H2. subst. reflexivity.
  - inversion H. subst. rewrite Z.eqb_refl. cbn. apply IH. reflexivity.
Qed.

Lemma collide_intro : forall hidx a b, a <> b -> hidx a = hidx b -> collide hidx a b = true.
Proof.
  intros hidx a b Hne He. unfold collide. apply andb_true_iff. split.
  - apply negb_true_iff. apply name_eqb_neq. exact Hne.
  - apply zlist_eqb_eq. exact He.
Qed.

Lemma has_collision_intro : forall hidx ks a b, In a ks -> In b ks -> a <> b -> hidx a = hidx b ->
  has_collision hidx ks = true.
Proof.
  intros hidx ks. induction ks as [|k r IH]; intros a b Ha Hb Hne He; [contradiction|].
  cbn [has_collision]. apply orb_true_iff.
  destruct Ha as [Ha|Ha]; destruct Hb as [Hb|Hb].
  - congruence.
  - subst k. left. apply existsb_exists. exists b. split; [exact Hb|]. apply collide_intro; assumption.
  - subst k. left. apply existsb_exists. exists a. split; [exact Ha|]. apply collide_intro; [congruence|congruence].
  - right. exact (IH a b Ha Hb Hne He).
Qed.

Lemma has_collision_elim : forall hidx ks, has_collision hidx ks = true ->
  exists a b, In a ks /\ In b ks /\ a <> b /\ hidx a = hidx b.
Proof.
  intros hidx ks. induction ks as [|x ks IHks]; intros H; [discriminate|]. cbn [has_collision] in H.
  apply orb_true_iff in H. destruct H as [H|H].
  - apply existsb_exists in H. destruct H as [y [Hy Hc]]. unfold collide in Hc.
    apply andb_true_iff in Hc. destruct Hc as [Hc1 Hc2]. apply negb_true_iff in Hc1.
    apply name_eqb_neq in Hc1. apply zlist_eqb_eq in Hc2.
    exists x, y. split; [left; reflexivity|]. split; [right; exact Hy|]. auto.
  - destruct (IHks H) as [a [b [Ha [Hb Hab]]]]. exists a, b. split; [right; exact Ha|]. split; [right; exact Hb|exact Hab].
Qed.

Lemma has_collision_incl : forall hidx ks ks', has_collision hidx ks = true ->
  (forall a, In a ks -> In a ks') -> has_collision hidx ks' = true.
Proof.
  intros hidx ks ks' H Hsub. destruct (has_collision_elim hidx ks H) as [a [b [Ha [Hb [Hne He]]]]].
  eapply has_collision_intro; [apply Hsub; exact Ha|apply Hsub; exact Hb|exact Hne|exact He].
Qed.

Lemma has_collision_mono : forall hidx k ks, has_collision hidx ks = true -> has_collision hidx (k :: ks) = true.
Proof. intros. cbn [has_collision]. rewrite H. apply orb_true_r. Qed.

(* ------------------------------------------------------------------ *)
Section DirProofs.
  Variable c : cfg.
  Variable hidx : name -> list Z.
  (** every digest yields the same, non-zero number of indices (64-bit digests) *)
  Hypothesis Hlen : forall a b, llen (hidx a) = llen (hidx b).
  Hypothesis Hpos : forall a, hidx a <> [].

  Notation trie := (trie val).
  Notation children := (children val).
  Notation wf := (wf hidx).

  (* ---------------- "too deep" only on identical index lists ---------------- *)
  Lemma fork_none_eq : forall ik ig k v g (w : val), llen ik = llen ig ->
    fork ik ig k v g w = None -> ik = ig.
  Proof.
    induction ik as [|i ik IH]; intros [|j ig] k v g w Hl Hf; try reflexivity; try discriminate.
    cbn [fork] in Hf. destruct (i =? j) eqn:E; [|discriminate]. apply Z.eqb_eq in E. subst j.
    destruct (fork ik ig k v g w) eqn:Ef; [discriminate|]. f_equal. eapply IH; [|exact Ef]. cbn in Hl. lia.
  Qed.

  Lemma firstn_S_nth : forall {A} d (a b : list A) x, firstn d a = firstn d b ->
    nth_error a d = Some x -> nth_error b d = Some x -> firstn (S d) a = firstn (S d) b.
  Proof.
    intros A d. induction d as [|d IH]; intros a b x Hf Ha Hb.
    - destruct a; destruct b; try discriminate. cbn in Ha, Hb. inversion Ha. inversion Hb. subst. reflexivity.
    - destruct a as [|y a]; destruct b as [|z b]; try discriminate. cbn [firstn] in Hf. inversion Hf. subst.
      cbn [nth_error] in Ha, Hb. change (z :: firstn (S d) a = z :: firstn (S d) b). f_equal. eapply IH; eauto.
  Qed.

  Lemma skipn_lt_nonnil : forall {A} d (l : list A), (d < llen l)%nat -> skipn d l <> [].
  Proof.
    intros A d. induction d as [|d IH]; intros l H.
    - destruct l; [cbn in H; lia|discriminate].
    - destruct l; [cbn in H; lia|]. cbn [skipn]. apply IH. cbn in H. lia.
  Qed.

  Lemma nth_some_lt : forall {A} d (l : list A) x, nth_error l d = Some x -> (d < llen l)%nat.
  Proof. intros. apply nth_error_Some. congruence. Qed.

  (** a shard below the root holds an entry, hence keys are longer than its depth *)
  Lemma sub_shard_deeper : forall d (cs : children) k, wf d (Node cs) -> (1 <= size (Node cs))%nat -> (d < llen (hidx k))%nat.
  Proof.
    intros d cs k Hwf Hsz. unfold size in Hsz. destruct (walk (Node cs)) as [|[g w] r] eqn:E; [cbn in Hsz; lia|].
    assert (Hin : In (g, w) (walk (Node cs))) by (rewrite E; left; reflexivity).
    destruct (key_needs_index hidx d cs g w Hwf Hin) as [i Hi]. apply nth_some_lt in Hi. rewrite (Hlen k g). exact Hi.
  Qed.

  Lemma swap_toodeep : forall ix d k nv (cs : children), wf d (Node cs) -> skipn d (hidx k) = ix ->
    (d < llen (hidx k))%nat ->
    (forall g w, In (g, w) (walk (Node cs)) -> firstn d (hidx g) = firstn d (hidx k)) ->
    swap hidx ix d k nv cs = STooDeep ->
    nv <> None /\ exists g w, In (g, w) (walk (Node cs)) /\ g <> k /\ hidx g = hidx k.
  Proof.
    induction ix as [|i ix IH]; intros d k nv cs Hwf Hix Hd Hpre Hsw.
    - exfalso. exact (skipn_lt_nonnil d (hidx k) Hd Hix).
    - pose proof (skipn_cons_nth _ _ _ _ Hix) as [Hn Hix'].
      pose proof (proj1 (wf_node hidx d cs) Hwf) as [Hs Hall].
      cbn [swap] in Hsw. destruct (cget i cs) as [[g w0|cs']|] eqn:Hg.
      + pose proof (Hall i _ (cget_some_in _ _ _ Hg)) as [Hslot _].
        assert (Hing : In (g, w0) (walk (Node cs))).
        { apply (walk_split cs i _ _ Hs Hg). left. left. reflexivity. }
        destruct (name_eqb g k) eqn:Egk; [destruct nv; discriminate|]. apply name_eqb_neq in Egk.
        destruct nv as [v|]; [|discriminate].
        destruct (fork ix (skipn (S d) (hidx g)) k v g w0) eqn:Ef; [discriminate|].
        split; [discriminate|]. exists g, w0. split; [exact Hing|]. split; [exact Egk|].
        assert (Hg1 : nth_error (hidx g) d = Some i) by (apply (Hslot g w0); left; reflexivity).
        assert (Hf1 : firstn (S d) (hidx g) = firstn (S d) (hidx k)).
        { eapply firstn_S_nth; [apply (Hpre g w0 Hing)|exact Hg1|exact Hn]. }
        assert (Hsk : ix = skipn (S d) (hidx g)).
        { eapply fork_none_eq; [|exact Ef]. rewrite <- Hix'. rewrite !skipn_length. rewrite (Hlen k g). reflexivity. }
        rewrite <- (firstn_skipn (S d) (hidx g)), <- (firstn_skipn (S d) (hidx k)). rewrite Hf1, Hix', Hsk. reflexivity.
      + pose proof (Hall i _ (cget_some_in _ _ _ Hg)) as [Hslot [Hbig Hwf']].
        destruct (swap hidx ix (S d) k nv cs') as [old cs''| |] eqn:Esw.
        * destruct nv; [discriminate|]. destruct cs'' as [|[j [g1 w1|csu]] [|p r]]; discriminate.
        * discriminate.
        * assert (Hsub : forall x, In x (walk (Node cs')) -> In x (walk (Node cs))).
          { intros x Hx. apply (walk_split cs i _ _ Hs Hg). left. exact Hx. }
          destruct (IH (S d) k nv cs' Hwf' Hix') as [Hnv [g [w [Hin [Hne He]]]]].
          -- apply (sub_shard_deeper (S d) cs' k Hwf'). cbn [big] in Hbig. lia.
          -- intros g w Hin. eapply firstn_S_nth; [apply (Hpre g w (Hsub _ Hin))|exact (Hslot g w Hin)|exact Hn].
          -- exact Esw.
          -- split; [exact Hnv|]. exists g, w. split; [apply Hsub; exact Hin|]. auto.
      + destruct nv; discriminate.
  Qed.

  Lemma find_not_toodeep : forall ix d k (cs : children), wf d (Node cs) -> skipn d (hidx k) = ix ->
    (d < llen (hidx k))%nat -> find ix k cs <> FTooDeep.
  Proof.
    induction ix as [|i ix IH]; intros d k cs Hwf Hix Hd.
    - exfalso. exact (skipn_lt_nonnil d (hidx k) Hd Hix).
    - pose proof (skipn_cons_nth _ _ _ _ Hix) as [Hn Hix'].
      pose proof (proj1 (wf_node hidx d cs) Hwf) as [Hs Hall].
      cbn [find]. destruct (cget i cs) as [[g w0|cs']|] eqn:Hg; [destruct (name_eqb g k); discriminate| |discriminate].
      pose proof (Hall i _ (cget_some_in _ _ _ Hg)) as [_ [Hbig Hwf']].
      apply (IH (S d) k cs' Hwf' Hix'). apply (sub_shard_deeper (S d) cs' k Hwf'). cbn [big] in Hbig. lia.
  Qed.

  Lemma root_depth : forall k, (0 < llen (hidx k))%nat.
  Proof. intros k. pose proof (Hpos k). destruct (hidx k); [congruence|cbn; lia]. Qed.

  (* ---------------- the relation between a directory and the map ---------------- *)
  Inductive Rel : dir -> fmap -> Prop :=
  | RelB : forall l m, keys_nodup l -> same l m -> Rel (DBasic l) m
  | RelH : forall cs tl m, wf 0 (Node cs) -> tl = count cs -> same (walk (Node cs)) m -> Rel (DHamt cs tl) m.

  Lemma walk_nodup : forall cs, wf 0 (Node cs) -> keys_nodup (walk (Node cs)).
  Proof. intros cs H. exact (wf_nodup hidx _ _ H). Qed.

  Lemma count_len : forall cs m, wf 0 (Node cs) -> keys_nodup m -> same (walk (Node cs)) m ->
    count cs = Z.of_nat (llen m).
  Proof. intros cs m Hwf Hm Hs. unfold count. f_equal. apply same_length; [apply walk_nodup; exact Hwf|exact Hm|exact Hs]. Qed.

  (** HAMT add / remove against the map *)
  Lemma hamt_add_ok : forall cs k v m, wf 0 (Node cs) -> keys_nodup m -> same (walk (Node cs)) m ->
    match hamt_add hidx k v cs (count cs) with
    | inl (cs', tl') => wf 0 (Node cs') /\ tl' = count cs' /\ same (walk (Node cs')) (mput k v m)
    | inr e => e = ETooDeep /\ exists g, In g (map fst m) /\ g <> k /\ hidx g = hidx k
    end.
  Proof.
    intros cs k v m Hwf Hm Hs. unfold hamt_add.
    pose proof (swap_spec hidx (hidx k) 0 k (Some v) cs Hwf eq_refl) as Hsp.
    destruct (swap hidx (hidx k) 0 k (Some v) cs) as [old cs'| |] eqn:Esw.
    - cbn [swap_post] in Hsp. destruct Hsp as [Hwf' [Hold [Hmem [Hsz _]]]].
      split; [exact Hwf'|]. split.
      + unfold count. fold (size (Node cs')). fold (size (Node cs)). destruct old; cbn [flag] in Hsz; lia.
      + intros [a b]. rewrite Hmem, mput_in. split.
        * intros [[-> H]|[Hne H]]; [inversion H; left; auto|right; split; [exact Hne|apply Hs; exact H]].
        * intros [[-> ->]|[Hne H]]; [left; auto|right; split; [exact Hne|apply Hs; exact H]].
    - cbn [swap_post] in Hsp. destruct Hsp as [Hsp _]. discriminate.
    - split; [reflexivity|].
      destruct (swap_toodeep (hidx k) 0 k (Some v) cs Hwf eq_refl (root_depth k) ltac:(intros; reflexivity) Esw)
        as [_ [g [w [Hin [Hne He]]]]].
      exists g. split; [|split; assumption]. eapply in_keys_l. apply Hs. exact Hin.
  Qed.

  Lemma hamt_remove_ok : forall cs k m, wf 0 (Node cs) -> keys_nodup m -> same (walk (Node cs)) m ->
    match hamt_remove hidx k cs (count cs) with
    | inl (cs', tl') => wf 0 (Node cs') /\ tl' = count cs' /\ same (walk (Node cs')) (mdel k m) /\ mget k m <> None
    | inr e => e = ENotExist /\ mget k m = None
    end.
  Proof.
    intros cs k m Hwf Hm Hs. unfold hamt_remove.
    pose proof (swap_spec hidx (hidx k) 0 k None cs Hwf eq_refl) as Hsp.
    destruct (swap hidx (hidx k) 0 k None cs) as [old cs'| |] eqn:Esw.
    - cbn [swap_post] in Hsp. destruct Hsp as [Hwf' [Hold [Hmem [Hsz Hrm]]]].
      specialize (Hrm eq_refl). destruct old as [w|]; [|congruence].
      split; [exact Hwf'|]. split; [|split].
      + unfold count. fold (size (Node cs')). fold (size (Node cs)). cbn [flag] in Hsz. lia.
      + intros [a b]. rewrite Hmem. unfold mdel. rewrite in_bdel. split.
        * intros [[_ H]|[Hne H]]; [discriminate|]. split; [exact Hne|apply Hs; exact H].
        * intros [Hne H]. right. split; [exact Hne|apply Hs; exact H].
      + unfold mget. rewrite (bget_in k m w Hm); [discriminate|]. apply Hs. apply Hold. reflexivity.
    - cbn [swap_post] in Hsp. destruct Hsp as [_ Hnot]. split; [reflexivity|].
      unfold mget. destruct (bget k m) as [w|] eqn:E; [|reflexivity].
      exfalso. apply (Hnot w). apply Hs. apply bget_some_in. exact E.
    - exfalso.
      destruct (swap_toodeep (hidx k) 0 k None cs Hwf eq_refl (root_depth k) ltac:(intros; reflexivity) Esw) as [H _].
      congruence.
  Qed.

  (** BasicDirectory add / remove against the map *)
  Lemma basic_add_ok : forall ml l k v m, keys_nodup l -> keys_nodup m -> same l m ->
    match basic_add ml k v l with
    | inl l' => keys_nodup l' /\ same l' (mput k v m)
    | inr e => e = EMaxLinks /\ mget k m = None /\ ((0 <? ml) && (ml <? Z.of_nat (llen m) + 1)) = true
    end.
  Proof.
    intros ml l k v m Hl Hm Hs. unfold basic_add.
    assert (Hdel : keys_nodup (bdel k l ++ [(k, v)])).
    { apply nodup_snoc; [apply nodup_bdel; exact Hl|]. intros Hin. apply keys_bdel in Hin. destruct Hin. congruence. }
    assert (Hsame : same (bdel k l ++ [(k, v)]) (mput k v m)).
    { intros [a b]. rewrite in_app_iff, in_bdel, mput_in. cbn [In]. split.
      - intros [[Hne H]|[H|[]]]; [right; split; [exact Hne|apply Hs; exact H]|inversion H; left; auto].
      - intros [[-> ->]|[Hne H]]; [right; left; reflexivity|left; split; [exact Hne|apply Hs; exact H]]. }
    destruct (bget k l) as [w|] eqn:E.
    - split; assumption.
    - assert (Hbd : bdel k l = l).
      { unfold bdel. apply filter_all_id. intros [a b] Hin. cbn [fst].
        apply negb_true_iff. apply name_eqb_neq. intros ->. apply (bget_none_notin k l E). eapply in_keys_l. exact Hin. }
      rewrite (same_length l m Hl Hm Hs).
      destruct ((0 <? ml) && (ml <? Z.of_nat (llen m) + 1)) eqn:Ecap.
      + split; [reflexivity|]. split; [|reflexivity]. unfold mget. rewrite <- (bget_same k l m Hl Hm Hs). exact E.
      + rewrite <- Hbd at 1 2. split; assumption.
  Qed.

  Lemma basic_remove_ok : forall l k m, keys_nodup l -> keys_nodup m -> same l m ->
    match basic_remove k l with
    | inl l' => keys_nodup l' /\ same l' (mdel k m) /\ mget k m <> None
    | inr e => e = ENotExist /\ mget k m = None
    end.
  Proof.
    intros l k m Hl Hm Hs. unfold basic_remove, mget. rewrite <- (bget_same k l m Hl Hm Hs).
    destruct (bget k l) as [w|] eqn:E.
    - split; [apply nodup_bdel; exact Hl|]. split; [|discriminate].
      intros [a b]. unfold mdel. rewrite !in_bdel. split; intros [H1 H2]; (split; [exact H1|apply Hs; exact H2]).
    - split; reflexivity.
  Qed.

  (** conversions *)
  Lemma to_hamt_ok : forall r cs, wf 0 (Node cs) -> NoDup (map fst (walk (Node cs)) ++ map fst r) ->
    match to_hamt hidx r cs (count cs) with
    | inl (cs', tl') => wf 0 (Node cs') /\ tl' = count cs' /\
                        (forall x, In x (walk (Node cs')) <-> In x (walk (Node cs)) \/ In x r)
    | inr e => e = ETooDeep /\
               has_collision hidx (map fst (walk (Node cs)) ++ map fst r) = true
    end.
  Proof.
    induction r as [|[k v] r IH]; intros cs Hwf Hnd.
    - cbn [to_hamt]. split; [exact Hwf|]. split; [reflexivity|]. intros x. cbn. tauto.
    - cbn [to_hamt].
      pose proof (hamt_add_ok cs k v (walk (Node cs)) Hwf (walk_nodup cs Hwf) ltac:(intros x; reflexivity)) as Ha.
      unfold hamt_add in Ha.
      assert (Hk : ~ In k (map fst (walk (Node cs)))).
      { intros Hin. cbn [map fst] in Hnd. apply NoDup_remove_2 in Hnd. apply Hnd. apply in_app_iff. left. exact Hin. }
      destruct (swap hidx (hidx k) 0 k (Some v) cs) as [old cs'| |] eqn:Esw.
      + destruct Ha as [Hwf' [Htl Hsame]].
        pose proof (swap_spec hidx (hidx k) 0 k (Some v) cs Hwf eq_refl) as Hsp. rewrite Esw in Hsp.
        cbn [swap_post] in Hsp. destruct Hsp as [_ [Hold _]].
        assert (old = None).
        { destruct old as [w|]; [|reflexivity]. exfalso. apply Hk. eapply in_keys_l. apply Hold. reflexivity. }
        subst old. replace (count cs + 1) with (count cs') by lia.
        assert (Hmem : forall x, In x (walk (Node cs')) <-> x = (k, v) \/ In x (walk (Node cs))).
        { intros [a b]. rewrite (Hsame (a, b)), mput_in. split.
          - intros [[-> ->]|[_ H]]; auto.
          - intros [H|H]; [inversion H; left; auto|]. right. split; [|exact H]. intros ->. apply Hk. eapply in_keys_l. exact H. }
        assert (Hnd' : NoDup (map fst (walk (Node cs')) ++ map fst r)).
        { cbn [map fst] in Hnd. eapply Permutation_NoDup; [|exact Hnd].
          transitivity ((k :: map fst (walk (Node cs))) ++ map fst r); [symmetry; apply Permutation_middle|].
          apply Permutation_app_tail.
          apply NoDup_Permutation.
          - constructor; [exact Hk|apply (walk_nodup cs Hwf)].
          - apply (walk_nodup cs' Hwf').
          - intros a. cbn [In]. rewrite !in_map_iff. split.
            + intros [<-|[[x y] [E H]]]; [exists (k, v); split; [reflexivity|apply Hmem; left; reflexivity]|].
              exists (x, y). split; [exact E|apply Hmem; right; exact H].
            + intros [[x y] [E H]]. apply Hmem in H. destruct H as [H|H]; [inversion H; subst; left; reflexivity|].
              right. exists (x, y). split; assumption. }
        specialize (IH cs' Hwf' Hnd').
        destruct (to_hamt hidx r cs' (count cs')) as [[cs2 tl2]|e].
        * destruct IH as [H1 [H2 H3]]. split; [exact H1|]. split; [exact H2|].
          intros x. rewrite H3, Hmem. cbn [In]. intuition.
        * destruct IH as [H1 H2]. split; [exact H1|].
          eapply has_collision_incl; [exact H2|].
          intros a. rewrite !in_app_iff. cbn [map fst In]. intros [H|H]; [|auto].
          apply in_map_iff in H. destruct H as [[x y] [E H]]. cbn in E. subst x. apply Hmem in H.
          destruct H as [H|H]; [inversion H; auto|]. left. eapply in_keys_l. exact H.
      + destruct Ha as [Ha _]. discriminate.
      + destruct Ha as [_ [g [Hg [Hne He]]]]. split; [reflexivity|].
        eapply (has_collision_intro hidx _ k g); [| |congruence|congruence].
        * apply in_app_iff. right. left. reflexivity.
        * apply in_app_iff. left. exact Hg.
  Qed.

  Lemma to_basic_ok : forall es l ml, NoDup (map fst l ++ map fst es) ->
    (ml <= 0 \/ Z.of_nat (llen l + llen es) <= ml) ->
    exists l', to_basic ml es l = inl l' /\ keys_nodup l' /\ (forall x, In x l' <-> In x l \/ In x es).
  Proof.
    induction es as [|[k v] es IH]; intros l ml Hnd Hcap.
    - exists l. cbn [to_basic]. cbn [map] in Hnd. rewrite app_nil_r in Hnd.
      split; [reflexivity|]. split; [exact Hnd|]. intros x. cbn [In]. tauto.
    - cbn [to_basic]. unfold basic_add.
      assert (Hk : ~ In k (map fst l)).
      { cbn [map fst] in Hnd. apply NoDup_remove_2 in Hnd. intros H. apply Hnd. apply in_app_iff. left. exact H. }
      destruct (bget k l) as [w|] eqn:E.
      { exfalso. apply Hk. eapply in_keys_l. apply bget_some_in. exact E. }
      assert (Hc : (0 <? ml) && (ml <? Z.of_nat (llen l) + 1) = false).
      { cbn [llen] in Hcap. destruct (0 <? ml) eqn:E1; [|reflexivity]. destruct (ml <? Z.of_nat (llen l) + 1) eqn:E2; [|reflexivity].
        apply Z.ltb_lt in E1. apply Z.ltb_lt in E2. lia. }
      rewrite Hc.
      destruct (IH (l ++ [(k, v)]) ml) as [l' [H1 [H2 H3]]].
      + rewrite map_app. cbn [map fst]. rewrite <- app_assoc. exact Hnd.
      + rewrite app_length. cbn [llen] in *. lia.
      + exists l'. split; [exact H1|]. split; [exact H2|]. intros x. rewrite H3, in_app_iff. cbn [In]. tauto.
  Qed.

  (* ---------------- Node() and loading it back ---------------- *)
  Definition keys_nonempty (t : trie) : Prop := forall g w, In (g, w) (walk t) -> g <> EmptyString.

  Lemma zip_children_ok : forall pad (f : Z * trie -> pnode) (cs : children),
    (forall p, In p cs -> from_node pad (f p) = Some (snd p)) ->
    zip_children (map fst cs) (map (from_node pad) (map f cs)) = Some cs.
  Proof.
    intros pad f cs. induction cs as [|[i u] r IH]; intros H; [reflexivity|].
    cbn [map fst zip_children]. rewrite (H (i, u) (or_introl eq_refl)). cbn [snd].
    rewrite IH; [reflexivity|]. intros p Hp. apply H. right. exact Hp.
  Qed.

  Lemma from_to_node : forall pad (t : trie) nm,
    (match t with Leaf _ _ => String.length nm = pad | Node _ => True end) ->
    keys_nonempty t -> from_node pad (to_node pad nm t) = Some t.
  Proof.
    intros pad. induction t as [k v|cs IHcs] using trie_ind'; intros nm Hnm Hne.
    - cbn [to_node from_node]. rewrite slen_app, Hnm.
      assert (Hk : k <> EmptyString) by (apply (Hne k v); left; reflexivity).
      destruct k as [|ch k]; [congruence|]. cbn [String.length].
      destruct (pad + S (String.length k) <=? pad)%nat eqn:E; [apply Nat.leb_le in E; lia|].
      rewrite <- Hnm. rewrite drop_app. reflexivity.
    - cbn [to_node from_node].
      rewrite (zip_children_ok pad (fun p => to_node pad (hexpad pad (fst p)) (snd p)) cs); [reflexivity|].
      intros [i u] Hin. cbn [fst snd]. rewrite Forall_forall in IHcs. apply (IHcs (i, u) Hin).
      + destruct u; [apply hexpad_length|exact I].
      + intros g w Hg. apply (Hne g w). apply in_walk_node. exists i, u. split; assumption.
  Qed.

  (* ---------------- one step of the directory against one step of the map ---------------- *)
  Variable hamt0 : bool.
  Definition capped : bool := (negb (c_dynamic c) && negb hamt0) || negb (c_enabled c).
  Definition kind_ok (d : dir) : Prop := c_dynamic c = false -> is_hamt d = hamt0.
  Definition mne (m : fmap) : Prop := forall g w, In (g, w) m -> g <> EmptyString.
  Definition op_ok (o : op) : Prop := match o with OAdd k _ _ => k <> EmptyString | _ => True end.

  Definition good (d : dir) (m : fmap) : Prop := Rel d m /\ keys_nodup m /\ mne m /\ kind_ok d.

  Lemma mne_mput : forall k v m, k <> EmptyString -> mne m -> mne (mput k v m).
  Proof.
    intros k v m Hk Hm g w Hin. apply mput_in in Hin. destruct Hin as [[-> _]|[_ Hin]]; [exact Hk|]. exact (Hm g w Hin).
  Qed.
  Lemma mne_mdel : forall k m, mne m -> mne (mdel k m).
  Proof. intros k m Hm g w Hin. unfold mdel in Hin. apply in_bdel in Hin. exact (Hm g w (proj2 Hin)). Qed.
  Lemma mdel_nodup : forall k m, keys_nodup m -> keys_nodup (mdel k m).
  Proof. intros. unfold mdel. apply nodup_bdel. assumption. Qed.

  Lemma present_iff : forall k cs m, wf 0 (Node cs) -> keys_nodup m -> same (walk (Node cs)) m ->
    present hidx k cs = match mget k m with Some _ => true | None => false end.
  Proof.
    intros k cs m Hwf Hm Hs. unfold present, mget.
    pose proof (find_spec hidx (hidx k) 0 k cs Hwf eq_refl) as Hf.
    destruct (find (hidx k) k cs) as [v| |].
    - rewrite (bget_in k m v Hm (proj1 (Hs _) Hf)). reflexivity.
    - destruct (bget k m) as [w|] eqn:E; [|reflexivity]. exfalso. apply (Hf w). apply Hs. apply bget_some_in. exact E.
    - destruct (bget k m) as [w|] eqn:E; [|reflexivity]. exfalso. apply (Hf w). apply Hs. apply bget_some_in. exact E.
  Qed.

  Lemma count_nil : count [] = 0.
  Proof. reflexivity. Qed.

  Lemma find_eq_spec : forall (x : option Z) (m : fmap),
    match x, x with
    | None, None => Some m
    | Some a, Some b => if a =? b then Some m else None
    | _, _ => None
    end = Some m.
  Proof. intros [a|] m; [rewrite Z.eqb_refl|]; reflexivity. Qed.

  (** needsToSwitchToBasicDir = true bounds the number of entries by maxLinks *)
  Lemma to_basic_decision_bound : forall o adding k cs tl, to_basic_decision c hidx o adding k cs tl = true ->
    c_enabled c = true /\
    (c_maxlinks c <= 0 \/
     tl + (if adding then 1 else 0) - (if present hidx k cs then 1 else 0) <= c_maxlinks c).
  Proof.
    intros o adding k cs tl H. unfold to_basic_decision in H.
    destruct (c_enabled c); [|discriminate]. split; [reflexivity|]. cbn [negb] in H.
    set (nt := tl + (if adding then 1 else 0) - (if present hidx k cs then 1 else 0)) in *.
    assert (Hcan : negb ((0 <? c_maxlinks c) && (c_maxlinks c <? nt)) = true).
    { destruct (c_nosize c).
      - apply andb_true_iff in H. destruct H as [H _]. apply andb_true_iff in H. exact (proj1 H).
      - apply andb_true_iff in H. exact (proj2 H). }
    apply negb_true_iff in Hcan. destruct (0 <? c_maxlinks c) eqn:E1.
    - destruct (c_maxlinks c <? nt) eqn:E2; [discriminate|]. apply Z.ltb_ge in E2. right. exact E2.
    - apply Z.ltb_ge in E1. left. exact E1.
  Qed.

  Lemma step_ok : forall d m o, good d m -> op_ok o ->
    exists m', spec_step c hidx capped m o (snd (step flags_spec c hidx d o)) = Some m' /\
               good (fst (step flags_spec c hidx d o)) m'.
  Proof.
    intros d m o [HR [Hm [Hne Hk]]] Hop.
    destruct o as [k v o|k o|k| | | | | |k v].
    - (* AddChild *)
      cbn [step op_ok] in *.
      assert (Hgood_add : forall d', Rel d' (mput k v m) -> kind_ok d' -> good d' (mput k v m)).
      { intros d' H1 H2. split; [exact H1|]. split; [apply mput_nodup; exact Hm|]. split; [apply mne_mput; assumption|exact H2]. }
      assert (Hcoll : forall g, In g (map fst m) -> g <> k -> hidx g = hidx k ->
                      has_collision hidx (k :: map fst m) = true).
      { intros g Hg Hgk He. eapply (has_collision_intro hidx _ k g); [left; reflexivity|right; exact Hg|congruence|congruence]. }
      inversion HR as [l m0 Hl Hs|cs tl m0 Hwf Htl Hs]; subst; unfold add_step.
      + (* basic *)
        destruct (c_dynamic c && to_hamt_decision c o k l) eqn:Edec.
        * apply andb_true_iff in Edec. destruct Edec as [Hdyn Hdec].
          pose proof (to_hamt_ok (sort_links l) [] (wf_empty hidx 0)) as Hth. rewrite count_nil in Hth.
          specialize (Hth ltac:(cbn [walk flat_map map app]; apply sort_links_nodup; exact Hl)).
          destruct (to_hamt hidx (sort_links l) [] 0) as [[cs tl]|e].
          -- destruct Hth as [Hwf [Htl Hmem]]. subst tl.
             assert (Hs' : same (walk (Node cs)) m).
             { intros x. rewrite Hmem. cbn [walk flat_map In]. split.
               - intros [[]|H]. apply Hs. apply sort_links_same. exact H.
               - intros H. right. apply sort_links_same. apply Hs. exact H. }
             pose proof (hamt_add_ok cs k v m Hwf Hm Hs') as Ha.
             destruct (hamt_add hidx k v cs (count cs)) as [[cs' tl']|e]; cbn [res_of fst snd spec_step].
             ++ destruct Ha as [H1 [H2 H3]]. exists (mput k v m). split; [reflexivity|]. apply Hgood_add.
                ** apply RelH; assumption.
                ** intros Hd. congruence.
             ++ destruct Ha as [-> [g [Hg [Hgk He]]]]. rewrite (Hcoll g Hg Hgk He).
                exists m. split; [reflexivity|]. split; [exact HR|]. auto.
          -- destruct Hth as [-> Hc]. cbn [fst snd spec_step].
             rewrite (has_collision_incl hidx _ (k :: map fst m) Hc).
             ++ exists m. split; [reflexivity|]. split; [exact HR|]. auto.
             ++ intros a Ha. cbn [walk flat_map map app] in Ha. right.
                apply in_map_iff in Ha. destruct Ha as [[x y] [E H]]. cbn in E. subst x.
                eapply in_keys_l. apply Hs. apply sort_links_same. exact H.
        * pose proof (basic_add_ok (c_maxlinks c) l k v m Hl Hm Hs) as Hb.
          destruct (basic_add (c_maxlinks c) k v l) as [l'|e]; cbn [res_of fst snd spec_step].
          -- destruct Hb as [H1 H2]. exists (mput k v m). split; [reflexivity|]. apply Hgood_add; [apply RelB; assumption|].
             intros Hd. exact (Hk Hd).
          -- destruct Hb as [-> [Hg Hcap]]. rewrite Hg.
             assert (Hcapped : capped = true).
             { unfold capped. destruct (c_dynamic c) eqn:Hdyn.
               - cbn [andb negb orb] in *. unfold to_hamt_decision in Edec.
                 destruct (c_enabled c); [|reflexivity]. cbn [negb] in Edec. exfalso.
                 unfold mget in Hg. rewrite <- (bget_same k l m Hl Hm Hs) in Hg. rewrite Hg in Edec.
                 rewrite (same_length l m Hl Hm Hs) in Edec. rewrite Hcap in Edec.
                 destruct (c_nosize c); [discriminate|]. rewrite orb_true_r in Edec. discriminate.
               - specialize (Hk Hdyn). cbn [is_hamt] in Hk. rewrite <- Hk. reflexivity. }
             rewrite Hcapped. cbn [andb]. rewrite Hcap.
             exists m. split; [reflexivity|]. split; [exact HR|]. auto.
      + (* HAMT *)
        destruct (c_dynamic c && to_basic_decision c hidx o true k cs (count cs)) eqn:Edec.
        * apply andb_true_iff in Edec. destruct Edec as [Hdyn Hdec].
          apply to_basic_decision_bound in Hdec. destruct Hdec as [Hen Hbound].
          rewrite (present_iff k cs m Hwf Hm Hs) in Hbound. rewrite (count_len cs m Hwf Hm Hs) in Hbound.
          destruct (to_basic_ok (walk (Node cs)) [] (c_maxlinks c)) as [l [Hl1 [Hl2 Hl3]]].
          -- cbn [map app]. apply (walk_nodup cs Hwf).
          -- cbn [llen Nat.add]. rewrite (same_length _ m (walk_nodup cs Hwf) Hm Hs).
             destruct (mget k m); lia.
          -- rewrite Hl1.
             assert (Hsl : same l m).
             { intros x. rewrite Hl3. cbn [In]. split; [intros [[]|H]; apply Hs; exact H|intros H; right; apply Hs; exact H]. }
             pose proof (basic_add_ok (c_maxlinks c) l k v m Hl2 Hm Hsl) as Hb.
             destruct (basic_add (c_maxlinks c) k v l) as [l'|e]; cbn [res_of fst snd spec_step].
             ++ destruct Hb as [H1 H2]. exists (mput k v m). split; [reflexivity|]. apply Hgood_add; [apply RelB; assumption|].
                intros Hd. congruence.
             ++ exfalso. destruct Hb as [_ [Hg Hcap]]. rewrite Hg in Hbound.
                apply andb_true_iff in Hcap. destruct Hcap as [C1 C2]. apply Z.ltb_lt in C1. apply Z.ltb_lt in C2. lia.
        * pose proof (hamt_add_ok cs k v m Hwf Hm Hs) as Ha.
          destruct (hamt_add hidx k v cs (count cs)) as [[cs' tl']|e]; cbn [res_of fst snd spec_step].
          -- destruct Ha as [H1 [H2 H3]]. exists (mput k v m). split; [reflexivity|]. apply Hgood_add; [apply RelH; assumption|].
             intros Hd. exact (Hk Hd).
          -- destruct Ha as [-> [g [Hg [Hgk He]]]]. rewrite (Hcoll g Hg Hgk He).
             exists m. split; [reflexivity|]. split; [exact HR|]. auto.
    - (* RemoveChild *)
      cbn [step].
      assert (Hgood_rm : forall d', Rel d' (mdel k m) -> kind_ok d' -> good d' (mdel k m)).
      { intros d' H1 H2. split; [exact H1|]. split; [apply mdel_nodup; exact Hm|]. split; [apply mne_mdel; exact Hne|exact H2]. }
      inversion HR as [l m0 Hl Hs|cs tl m0 Hwf Htl Hs]; subst; unfold remove_step.
      + pose proof (basic_remove_ok l k m Hl Hm Hs) as Hb.
        destruct (basic_remove k l) as [l'|e]; cbn [res_of fst snd spec_step].
        * destruct Hb as [H1 [H2 H3]]. destruct (mget k m); [|congruence].
          exists (mdel k m). split; [reflexivity|]. apply Hgood_rm; [apply RelB; assumption|exact Hk].
        * destruct Hb as [-> Hg]. rewrite Hg. exists m. split; [reflexivity|]. split; [exact HR|]. auto.
      + destruct (c_dynamic c && to_basic_decision c hidx o false k cs (count cs)) eqn:Edec.
        * apply andb_true_iff in Edec. destruct Edec as [Hdyn Hdec].
          apply to_basic_decision_bound in Hdec. destruct Hdec as [Hen Hbound].
          destruct (to_basic_ok (walk (Node cs)) [] (if 0 <? c_maxlinks c then c_maxlinks c + 1 else c_maxlinks c))
            as [l [Hl1 [Hl2 Hl3]]].
          -- cbn [map app]. apply (walk_nodup cs Hwf).
          -- cbn [llen Nat.add]. unfold count in Hbound.
             destruct (0 <? c_maxlinks c) eqn:E1; [apply Z.ltb_lt in E1|apply Z.ltb_ge in E1];
               destruct (present hidx k cs); lia.
          -- rewrite Hl1.
             assert (Hsl : same l m).
             { intros x. rewrite Hl3. cbn [In]. split; [intros [[]|H]; apply Hs; exact H|intros H; right; apply Hs; exact H]. }
             pose proof (basic_remove_ok l k m Hl2 Hm Hsl) as Hb.
             destruct (basic_remove k l) as [l'|e]; cbn [res_of fst snd spec_step].
             ++ destruct Hb as [H1 [H2 H3]]. destruct (mget k m); [|congruence].
                exists (mdel k m). split; [reflexivity|]. apply Hgood_rm; [apply RelB; assumption|]. intros Hd. congruence.
             ++ destruct Hb as [-> Hg]. rewrite Hg. exists m. split; [reflexivity|]. split; [exact HR|]. auto.
        * pose proof (hamt_remove_ok cs k m Hwf Hm Hs) as Ha.
          destruct (hamt_remove hidx k cs (count cs)) as [[cs' tl']|e]; cbn [res_of fst snd spec_step].
          -- destruct Ha as [H1 [H2 [H3 H4]]]. destruct (mget k m); [|congruence].
             exists (mdel k m). split; [reflexivity|]. apply Hgood_rm; [apply RelH; assumption|exact Hk].
          -- destruct Ha as [-> Hg]. rewrite Hg. exists m. split; [reflexivity|]. split; [exact HR|]. auto.
    - (* Find *)
      cbn [step fst snd]. exists m. split; [|split; auto].
      inversion HR as [l m0 Hl Hs|cs tl m0 Hwf Htl Hs]; subst; unfold find_step.
      + cbn [spec_step]. unfold mget. rewrite (bget_same k l m Hl Hm Hs).
        destruct (option_map v_id (bget k m)) as [a|]; [rewrite Z.eqb_refl|]; reflexivity.
      + pose proof (find_spec hidx (hidx k) 0 k cs Hwf eq_refl) as Hf.
        pose proof (find_not_toodeep (hidx k) 0 k cs Hwf eq_refl (root_depth k)) as Hnt.
        destruct (find (hidx k) k cs) as [v0| |]; [| |congruence]; cbn [spec_step]; unfold mget.
        * rewrite (bget_in k m v0 Hm (proj1 (Hs _) Hf)). cbn [option_map]. rewrite Z.eqb_refl. reflexivity.
        * destruct (bget k m) as [w|] eqn:E; [|reflexivity]. exfalso. apply (Hf w). apply Hs. apply bget_some_in. exact E.
    - (* Links *)
      cbn [step fst snd spec_step]. exists m. split; [|split; auto].
      assert (H : Permutation (entries d) m).
      { inversion HR as [l m0 Hl Hs|cs tl m0 Hwf Htl Hs]; subst; cbn [entries].
        - apply same_perm; [apply sort_links_nodup; exact Hl|exact Hm|].
          intros x. rewrite (sort_links_same l x). apply Hs.
        - apply same_perm; [apply walk_nodup; exact Hwf|exact Hm|exact Hs]. }
      rewrite (same_entries_perm _ _ H). reflexivity.
    - cbn [step fst snd spec_step]. exists m. split; [|split; auto].
      assert (H : Permutation (entries d) m).
      { inversion HR as [l m0 Hl Hs|cs tl m0 Hwf Htl Hs]; subst; cbn [entries].
        - apply same_perm; [apply sort_links_nodup; exact Hl|exact Hm|].
          intros x. rewrite (sort_links_same l x). apply Hs.
        - apply same_perm; [apply walk_nodup; exact Hwf|exact Hm|exact Hs]. }
      rewrite (same_entries_perm _ _ H). reflexivity.
    - cbn [step fst snd spec_step]. exists m. split; [|split; auto].
      assert (H : Permutation (entries d) m).
      { inversion HR as [l m0 Hl Hs|cs tl m0 Hwf Htl Hs]; subst; cbn [entries].
        - apply same_perm; [apply sort_links_nodup; exact Hl|exact Hm|].
          intros x. rewrite (sort_links_same l x). apply Hs.
        - apply same_perm; [apply walk_nodup; exact Hwf|exact Hm|exact Hs]. }
      rewrite (same_entries_perm _ _ H). reflexivity.
    - (* reload *)
      cbn [step]. inversion HR as [l m0 Hl Hs|cs tl m0 Hwf Htl Hs]; subst; unfold reload_step.
      + cbn [fst snd spec_step]. exists m. split; [reflexivity|]. split; [|split; [exact Hm|split; [exact Hne|exact Hk]]].
        apply RelB; [apply sort_links_nodup; exact Hl|]. intros x. rewrite (sort_links_same l x). apply Hs.
      + rewrite (from_to_node (c_pad c) (Node cs) EmptyString I).
        * cbn [flags_spec f_reload_total fst snd spec_step]. exists m. split; [reflexivity|].
          split; [apply RelH; [exact Hwf|reflexivity|exact Hs]|]. split; [exact Hm|]. split; [exact Hne|exact Hk].
        * intros g w Hin. apply (Hne g w). apply Hs. exact Hin.
    - (* dump *)
      cbn [step fst snd]. exists m. split; [|split; auto].
      inversion HR as [l m0 Hl Hs|cs tl m0 Hwf Htl Hs]; subst; cbn [spec_step]; [|reflexivity].
      assert (H : Permutation (sort_links l) m).
      { apply same_perm; [apply sort_links_nodup; exact Hl|exact Hm|]. intros x. rewrite (sort_links_same l x). apply Hs. }
      rewrite (same_entries_perm _ _ H). reflexivity.
    - (* AddChild refused by the store *)
      cbn [step fst snd spec_step]. exists m. split; [reflexivity|]. split; [exact HR|]. auto.
  Qed.

  Lemma run_ok : forall ops d m, good d m -> Forall op_ok ops ->
    spec_run c hidx capped m ops (snd (run flags_spec c hidx d ops)) = true.
  Proof.
    induction ops as [|o ops IH]; intros d m Hg Hops; [reflexivity|].
    inversion Hops as [|? ? Ho Hops']. subst.
    destruct (step_ok d m o Hg Ho) as [m' [Hs Hg']].
    cbn [run]. destruct (step flags_spec c hidx d o) as [d' b] eqn:Est. cbn [fst snd] in *.
    destruct (run flags_spec c hidx d' ops) as [d'' bs] eqn:Er. cbn [snd spec_run]. rewrite Hs.
    specialize (IH d' m' Hg' Hops'). rewrite Er in IH. exact IH.
  Qed.

  Lemma init_good : good (init_dir hamt0) [].
  Proof.
    split; [|split; [constructor|split; [intros ? ? []|]]].
    - unfold init_dir. destruct hamt0.
      + apply RelH; [apply wf_empty|reflexivity|intros x; reflexivity].
      + apply RelB; [constructor|intros x; reflexivity].
    - intros _. unfold init_dir. destruct hamt0; reflexivity.
  Qed.
End DirProofs.

(** The model of every directory kind, under every configuration, hash function with
    equally long non-empty index lists, size-decision oracle and history (edits,
    lookups, the three enumerations, reloads, dumps) answers exactly as the map
    specification demands. *)
Theorem model_meets_spec : forall c hidx hamt0 ops,
  (forall a b, llen (hidx a) = llen (hidx b)) -> (forall a, hidx a <> []) ->
  Forall op_ok ops ->
  spec_run c hidx (capped c hamt0) [] ops (snd (run flags_spec c hidx (init_dir hamt0) ops)) = true.
Proof.
  intros c hidx hamt0 ops Hlen Hpos Hops.
  apply (run_ok c hidx Hlen Hpos hamt0 ops (init_dir hamt0) [] (init_good c hidx hamt0) Hops).
Qed.

(* ------------------------------------------------------------------ *)
(** * the defect of the current code (finding C15-1): totalLinks after a reload *)
Local Open Scope string_scope.
Definition wit_hidx (k : name) : list Z :=
  if String.eqb k "a" then [0; 0] else if String.eqb k "b" then [0; 1]
  else if String.eqb k "c" then [0; 2] else if String.eqb k "d" then [1; 0] else [7; 7].
Definition wit_cfg : cfg := mkcfg 3 1%nat 2 true true true.
Definition wit_val : val := mkval 0 34 10.
Definition wit_ops : list op :=
  [OAdd "a" wit_val false; OAdd "b" wit_val false; OAdd "c" wit_val false; OAdd "d" wit_val false;
   OReload; ORemove "a" false].

Lemma wit_hidx_len : forall a b, llen (wit_hidx a) = llen (wit_hidx b).
Proof.
  intros a b. unfold wit_hidx.
  repeat match goal with |- context [String.eqb ?x ?y] => destruct (String.eqb x y) end; reflexivity.
Qed.
Lemma wit_hidx_pos : forall a, wit_hidx a <> [].
Proof.
  intros a. unfold wit_hidx.
  repeat match goal with |- context [String.eqb ?x ?y] => destruct (String.eqb x y) end; discriminate.
Qed.
Lemma wit_ops_ok : Forall op_ok wit_ops.
Proof. repeat constructor; cbn; discriminate. Qed.

(** with the flag on (code as it is) the same history ends with RemoveChild of the
    existing name "a" answering "maxLinks reached": the map specification is violated *)
Lemma reload_total_refuted :
  snd (run flags_code wit_cfg wit_hidx (init_dir false) wit_ops) =
    [BRes None; BRes None; BRes None; BRes None; BReload true; BRes (Some EMaxLinks)] /\
  spec_run wit_cfg wit_hidx (capped wit_cfg false) [] wit_ops
           (snd (run flags_code wit_cfg wit_hidx (init_dir false) wit_ops)) = false /\
  spec_run wit_cfg wit_hidx (capped wit_cfg false) [] wit_ops
           (snd (run flags_spec wit_cfg wit_hidx (init_dir false) wit_ops)) = true.
Proof. vm_compute. repeat split; reflexivity. Qed.

(** the hypotheses on the hash function are met by the real thing: the index lists of
    any two 8-byte digests have the same, non-zero length for every shard width 8..1024 *)
Lemma digest_indices_len : forall lg2 b1 b2, 0 < lg2 <= 10 -> bytes_ok b1 -> bytes_ok b2 ->
  llen b1 = 8%nat -> llen b2 = 8%nat ->
  llen (indices lg2 b1) = llen (indices lg2 b2) /\ indices lg2 b1 <> [].
Proof.
  intros lg2 b1 b2 Hl H1 H2 L1 L2. rewrite !indices_length by (try assumption; lia). rewrite L1, L2.
  split; [reflexivity|]. intros E. apply (f_equal (@List.length Z)) in E. rewrite indices_length in E by (try assumption; lia).
  rewrite L1 in E. cbn [llen] in E. change (8 * Z.of_nat 8) with 64 in E.
  assert (6 <= 64 / lg2) by (apply Z.div_le_lower_bound; lia). lia.
Qed.
