(** C20 — proofs: lock-order discipline implies deadlock freedom in the
    writer-preferring RWMutex transition system of model/M_C20.v. *)
From Coq Require Import List ZArith Bool NArith Arith Lia.
From V Require Import lib.Verdict model.M_C20.
Import ListNotations.

Lemma lock_eqb_eq a b : lock_eqb a b = true -> a = b.
Proof.
  destruct a, b; cbn [lock_eqb]; intro H; try discriminate; apply Nat.eqb_eq in H; subst; reflexivity.
Qed.
Lemma lock_eqb_refl a : lock_eqb a a = true.
Proof. destruct a; cbn [lock_eqb]; apply Nat.eqb_refl. Qed.

Definition wants (th : thread) : option lock :=
  match prog th with ARLock l :: _ | ALock l :: _ => Some l | _ => None end.

(** what [okb] says about the head action *)
Lemma okb_acquire h l r (w : bool) :
  okb h ((if w then ALock l else ARLock l) :: r) = true ->
  (forall x, In x h -> rank (fst x) < rank l) /\ rank l < RANK_BOUND /\ okb ((l, w) :: h) r = true.
Proof.
  destruct w; cbn [okb]; intro H; apply andb_true_iff in H; destruct H as [H H3];
    apply andb_true_iff in H; destruct H as [H1 H2];
    (split; [intros x Hx; rewrite forallb_forall in H1; apply Nat.ltb_lt; apply H1; exact Hx|]);
    (split; [apply Nat.ltb_lt; exact H2|exact H3]).
Qed.
Lemma okb_nil h : okb h [] = true -> h = [].
Proof. destruct h; cbn; [reflexivity|discriminate]. Qed.

Lemma ok_thread_parts th : ok_thread th = true ->
  okb (held th) (prog th) = true /\
  (waiting th = true -> exists l r, prog th = ALock l :: r).
Proof.
  unfold ok_thread. intro H. apply andb_true_iff in H. destruct H as [H1 H2]. split; [exact H1|].
  intro W. rewrite W in H2. cbn in H2. destruct (prog th) as [|[l|l|l|l] r]; try discriminate. eauto.
Qed.

(** the discipline is kept by every step *)
Lemma ok_do_act th : ok_thread th = true -> prog th <> [] -> ok_thread (do_act th) = true.
Proof.
  intros H Hp. destruct (ok_thread_parts th H) as [Ho Hw]. unfold do_act, ok_thread.
  destruct (prog th) as [|a r] eqn:E; [congruence|]. destruct a as [l|l|l|l]; cbn [held waiting prog].
  - destruct (okb_acquire _ l r false Ho) as (_ & _ & O). rewrite O. reflexivity.
  - cbn [okb] in Ho. apply andb_true_iff in Ho. destruct Ho as [_ O]. rewrite O. reflexivity.
  - destruct (waiting th) eqn:W; cbn [held waiting prog].
    + destruct (okb_acquire _ l r true Ho) as (_ & _ & O). rewrite O. reflexivity.
    + rewrite Ho. reflexivity.
  - cbn [okb] in Ho. apply andb_true_iff in Ho. destruct Ho as [_ O]. rewrite O. reflexivity.
Qed.

Lemma Forall_set_nth {A} (P : A -> Prop) i x l : Forall P l -> P x -> Forall P (set_nth i x l).
Proof.
  revert i. induction l as [|y r IH]; intros i Hl Hx; [destruct i; constructor|].
  inversion Hl; subst. destruct i; cbn [set_nth]; constructor; auto.
Qed.

Notation ok_state S := (Forall (fun th => ok_thread th = true) S).

Lemma step_ok S i S' : ok_state S -> step S i = Some S' -> ok_state S'.
Proof.
  unfold step. intros H E. destruct (nth_error S i) as [th|] eqn:En; [|discriminate].
  destruct (can_step S th) eqn:Ec; [|discriminate]. inversion E; subst S'.
  apply Forall_set_nth; [exact H|]. apply ok_do_act.
  - rewrite Forall_forall in H. apply H. eapply nth_error_In. exact En.
  - unfold can_step in Ec. destruct (prog th); [discriminate|congruence].
Qed.
Lemma run_ok sched : forall S S', ok_state S -> run S sched = Some S' -> ok_state S'.
Proof.
  induction sched as [|i r IH]; intros S S' H E; cbn [run] in E.
  - inversion E; subst. exact H.
  - destruct (step S i) as [S1|] eqn:Es; [|discriminate]. eapply IH; [|exact E]. eapply step_ok; eassumption.
Qed.

(** a blocked thread waits for a lock that some thread holds *)
Lemma blocked_reason S th :
  ok_state S -> (forall u, In u S -> can_step S u = false) -> In th S -> prog th <> [] ->
  exists l, wants th = Some l /\ rank l < RANK_BOUND /\
            (forall x, In x (held th) -> rank (fst x) < rank l) /\
            exists v, In v S /\ holds_any l v = true.
Proof.
  intros Hok Hall Hin Hp. rewrite Forall_forall in Hok.
  destruct (ok_thread_parts th (Hok th Hin)) as [Ho Hw].
  pose proof (Hall th Hin) as Hb. unfold can_step in Hb. unfold wants.
  destruct (prog th) as [|a r] eqn:E; [congruence|]. destruct a as [l|l|l|l]; try discriminate Hb.
  - (* RLock *)
    destruct (okb_acquire _ l r false Ho) as (O1 & O2 & _). exists l. split; [reflexivity|].
    split; [exact O2|]. split; [exact O1|].
    apply andb_false_iff in Hb. destruct Hb as [Hb|Hb]; apply negb_false_iff in Hb;
      apply existsb_exists in Hb; destruct Hb as (u & Hu & Hh).
    + exists u. split; [exact Hu|]. unfold holds_mode in Hh. unfold holds_any.
      apply existsb_exists in Hh. destruct Hh as (x & Hx & Hc). apply andb_true_iff in Hc.
      apply existsb_exists. exists x. tauto.
    + (* a writer u is waiting for l; it is blocked too: somebody holds l *)
      unfold waits_for in Hh. apply andb_true_iff in Hh. destruct Hh as [Wu Pu].
      pose proof (Hall u Hu) as Hbu. unfold can_step in Hbu.
      destruct (prog u) as [|[l'|l'|l'|l'] ru]; try discriminate Pu.
      apply lock_eqb_eq in Pu. subst l'. rewrite Wu in Hbu. apply negb_false_iff in Hbu.
      apply existsb_exists in Hbu. destruct Hbu as (v & Hv & Hh). exists v. tauto.
  - (* Lock *)
    destruct (okb_acquire _ l r true Ho) as (O1 & O2 & _). exists l. split; [reflexivity|].
    split; [exact O2|]. split; [exact O1|].
    destruct (waiting th); [|discriminate]. apply negb_false_iff in Hb.
    apply existsb_exists in Hb. destruct Hb as (v & Hv & Hh). exists v. tauto.
Qed.

(** ... and whoever holds it is itself blocked on a lock of strictly higher rank *)
Lemma blocked_ascends S th l :
  ok_state S -> (forall u, In u S -> can_step S u = false) -> In th S -> wants th = Some l ->
  exists v l', In v S /\ wants v = Some l' /\ rank l < rank l' /\ rank l' < RANK_BOUND.
Proof.
  intros Hok Hall Hin Hw.
  assert (Hp : prog th <> []) by (unfold wants in Hw; destruct (prog th); [discriminate|congruence]).
  destruct (blocked_reason S th Hok Hall Hin Hp) as (l0 & W0 & _ & _ & v & Hv & Hh).
  rewrite Hw in W0. inversion W0; subst l0.
  assert (Hpv : prog v <> []).
  { intro En. pose proof Hok as Hok'. rewrite Forall_forall in Hok'.
    destruct (ok_thread_parts v (Hok' v Hv)) as [Ho _]. rewrite En in Ho. apply okb_nil in Ho.
    unfold holds_any in Hh. rewrite Ho in Hh. discriminate. }
  destruct (blocked_reason S v Hok Hall Hv Hpv) as (l' & W' & B' & R' & _).
  exists v, l'. split; [exact Hv|]. split; [exact W'|]. split; [|exact B'].
  unfold holds_any in Hh. apply existsb_exists in Hh. destruct Hh as (x & Hx & Hc).
  apply lock_eqb_eq in Hc. subst l. apply R'. exact Hx.
Qed.

Lemma no_total_block S : ok_state S -> (forall u, In u S -> can_step S u = false) ->
  forall n th l, In th S -> wants th = Some l -> RANK_BOUND - rank l <= n -> False.
Proof.
  intros Hok Hall. induction n as [|n IH]; intros th l Hin Hw Hn;
    destruct (blocked_ascends S th l Hok Hall Hin Hw) as (v & l' & Hv & Wv & Hlt & Hb).
  - lia.
  - apply (IH v l' Hv Wv). lia.
Qed.

(** DEADLOCK FREEDOM: in a state where every thread follows the discipline, some thread
    can move unless all have finished *)
Theorem ok_not_deadlocked S : ok_state S -> all_done S = false ->
  exists th, In th S /\ can_step S th = true.
Proof.
  intros Hok Hd. destruct (existsb (can_step S) S) eqn:E.
  - apply existsb_exists in E. exact E.
  - exfalso.
    assert (Hall : forall u, In u S -> can_step S u = false).
    { intros u Hu. destruct (can_step S u) eqn:Eu; [|reflexivity].
      assert (existsb (can_step S) S = true) by (apply existsb_exists; eauto). congruence. }
    unfold all_done in Hd.
    assert (exists th, In th S /\ prog th <> []) as (th & Hin & Hp).
    { clear -Hd. induction S as [|x r IH]; cbn in Hd; [discriminate|].
      destruct (prog x) eqn:Ex.
      - destruct (IH Hd) as (th & A & B). exists th. split; [right; exact A|exact B].
      - exists x. split; [left; reflexivity|congruence]. }
    destruct (blocked_reason S th Hok Hall Hin Hp) as (l & W & _).
    exact (no_total_block S Hok Hall _ th l Hin W (le_n _)).
Qed.

Lemma nth_error_in_index {A} (l : list A) x : In x l -> exists i, nth_error l i = Some x.
Proof. apply In_nth_error. Qed.

Theorem deadlock_free S0 sched S : ok_state S0 -> run S0 sched = Some S ->
  all_done S = true \/ exists i S', step S i = Some S'.
Proof.
  intros H0 R. pose proof (run_ok sched S0 S H0 R) as Hok.
  destruct (all_done S) eqn:Ed; [left; reflexivity|right].
  destruct (ok_not_deadlocked S Hok Ed) as (th & Hin & Hc).
  destruct (In_nth_error _ _ Hin) as (i & Hi). exists i. unfold step. rewrite Hi, Hc. eauto.
Qed.

(** ---------- the MFS programs ---------- *)
Lemma okb_app p q : forall h, okb h p = true -> okb [] q = true -> okb h (p ++ q) = true.
Proof.
  induction p as [|a r IH]; intros h Hp Hq.
  - apply okb_nil in Hp. subst. exact Hq.
  - destruct a as [l|l|l|l]; cbn [okb app] in *; apply andb_true_iff in Hp; destruct Hp as [A B];
      rewrite A; cbn [andb]; apply IH; assumption.
Qed.

Definition op_ok (t : nat) (o : op) : bool := okb [] (map fst (p_op false t o)).

(** every MFS file operation (repaired Mode/ModTime), by every thread id used, acquires
    locks in strictly increasing rank, never one it holds, and ends holding nothing *)
Lemma mfs_ops_ok : forallb (fun t => forallb (op_ok t) all_ops) [0; 1; 2; 3] = true.
Proof. vm_compute. reflexivity. Qed.

Lemma thread_ok t ops : In t [0; 1; 2; 3] -> Forall (fun o => In o all_ops) ops ->
  ok_thread (start (map fst (p_thread false t ops))) = true.
Proof.
  intros Ht Hops. unfold ok_thread, start. cbn [held waiting prog]. rewrite andb_true_r.
  pose proof mfs_ops_ok as H. rewrite forallb_forall in H. specialize (H t Ht). rewrite forallb_forall in H.
  unfold p_thread. induction Hops as [|o r Ho _ IH]; [reflexivity|].
  cbn [flat_map]. rewrite map_app. apply okb_app; [apply (H o Ho)|exact IH].
Qed.

Definition mfs_state (reentrant : bool) (threads : list (list op)) : state :=
  map (fun r : nat * list op => start (map fst (p_thread reentrant (fst r) (snd r)))) (indexed 0 threads).

Lemma indexed_in {A} (l : list A) : forall i t x, In (t, x) (indexed i l) -> i <= t < i + length l /\ In x l.
Proof.
  induction l as [|y r IH]; intros i t x H; cbn [indexed In length] in *; [tauto|].
  destruct H as [H|H].
  - inversion H; subst. split; [lia|left; reflexivity].
  - destruct (IH _ _ _ H) as [HA HB]. split; [lia|right; exact HB].
Qed.

(** any 1..4 threads, each running any sequence of the MFS file operations: never deadlocked *)
Theorem mfs_deadlock_free threads sched S :
  length threads <= 4 -> Forall (fun ops => Forall (fun o => In o all_ops) ops) threads ->
  run (mfs_state false threads) sched = Some S ->
  all_done S = true \/ exists i S', step S i = Some S'.
Proof.
  intros Hlen Hops R. eapply deadlock_free; [|exact R].
  unfold mfs_state. apply Forall_forall. intros th Hth. apply in_map_iff in Hth.
  destruct Hth as ([t ops] & E & Hin). subst th. cbn [fst snd].
  destruct (indexed_in threads 0 t ops Hin) as [Ht Ho].
  apply thread_ok.
  - cbn [In]. lia.
  - rewrite Forall_forall in Hops. apply Hops. exact Ho.
Qed.
