(** C40 — proofs about the keystore model [model/M_C40.v]. *)
From Coq Require Import List NArith Arith Bool Lia.
From V Require Import lib.Verdict lib.BaseN model.M_C40.
Import ListNotations.
Open Scope N_scope.

(** ---------- byte strings ---------- *)
Lemma bytes_eqb_refl : forall a, bytes_eqb a a = true.
Proof. induction a as [|x a IH]; cbn; [reflexivity|]. rewrite N.eqb_refl, IH. reflexivity. Qed.

Lemma bytes_eqb_eq : forall a b, bytes_eqb a b = true <-> a = b.
Proof.
  induction a as [|x a IH]; intros [|y b]; cbn; split; intro H; try reflexivity; try discriminate.
  - apply andb_true_iff in H. destruct H as [H1 H2]. apply N.eqb_eq in H1. apply IH in H2. congruence.
  - inversion H; subst. rewrite N.eqb_refl. cbn. apply bytes_eqb_refl.
Qed.

Lemma bytes_eqb_inj : forall (f : list N -> list N) a b,
  (forall x y, f x = f y -> x = y) -> bytes_eqb (f a) (f b) = bytes_eqb a b.
Proof.
  intros f a b Hinj. destruct (bytes_eqb a b) eqn:E.
  - apply bytes_eqb_eq in E. subst. apply bytes_eqb_refl.
  - destruct (bytes_eqb (f a) (f b)) eqn:E'; [|reflexivity].
    apply bytes_eqb_eq in E'. apply Hinj in E'. subst. rewrite bytes_eqb_refl in E. discriminate.
Qed.

Definition bytes (n : list N) : Prop := Forall is_byte n.

Lemma forallb_bytes : forall n, forallb byte_ok n = true -> bytes n.
Proof.
  intros n H. apply Forall_forall. intros b Hb. rewrite forallb_forall in H. specialize (H b Hb).
  unfold byte_ok in H. apply N.ltb_lt in H. exact H.
Qed.

(** ---------- the file name encoding ---------- *)
Lemma file_of_inj : forall n1 n2, bytes n1 -> bytes n2 -> file_of n1 = file_of n2 -> n1 = n2.
Proof.
  intros n1 n2 H1 H2 E. unfold file_of in E. apply app_inv_head in E.
  apply b32lower_encode_inj; assumption.
Qed.

Lemma lower_alpha_safe : Forall (fun c => safe_char c = true) b32lower_alpha.
Proof. apply Forall_forall. apply forallb_forall. vm_compute. reflexivity. Qed.

Lemma file_of_safe : forall n, safe_component (file_of n) = true.
Proof.
  intro n. unfold safe_component, file_of. cbn [PREFIX app is_nil negb andb].
  apply forallb_forall. apply Forall_forall.
  repeat (constructor; [reflexivity|]).
  unfold b32lower_encode. apply encode_Forall; [lia|reflexivity|apply lower_alpha_safe].
Qed.

Lemma digit_ci_lower : forall d, d < 2 ^ N.of_nat 5 ->
  norm_digit ascii_upper b32_alpha (char_of b32lower_alpha d) = Some d.
Proof.
  intros d Hd. change (2 ^ N.of_nat 5) with 32 in Hd.
  assert (E : d = N.of_nat (N.to_nat d)) by (symmetry; apply N2Nat.id).
  assert (Hn : (N.to_nat d < 32)%nat) by lia.
  revert E Hn. generalize (N.to_nat d). intros n E Hn. subst d. clear Hd.
  do 32 (destruct n as [|n]; [vm_compute; reflexivity|]). lia.
Qed.

(** decode(encode(name)) = name: List() shows exactly the names that were put *)
Lemma name_of_file_of : forall n, bytes n -> name_of (file_of n) = Some n.
Proof.
  intros n Hn. unfold name_of, file_of. cbn [PREFIX app strip_prefix]. rewrite !N.eqb_refl.
  unfold b32_decode_ci, b32lower_encode.
  apply decode_encode; [lia|lia|exact digit_ci_lower|exact Hn].
Qed.

(** ---------- simulation: FS keystore (repaired Delete) = in-memory map ---------- *)
Definition enc_entry (e : name * key) : fname * key := (file_of (fst e), snd e).
Definition enc_mem (m : mem) : dir := map enc_entry m.
Definition mem_bytes (m : mem) : Prop := Forall (fun e => bytes (fst e)) m.

Lemma dlookup_enc : forall m n, bytes n -> mem_bytes m -> dlookup (file_of n) (enc_mem m) = mlookup n m.
Proof.
  induction m as [|[n' k] m IH]; intros n Hn Hm; [reflexivity|].
  inversion Hm as [|? ? Hn' Hm']; subst. cbn [fst] in Hn'.
  cbn [enc_mem map enc_entry fst snd dlookup mlookup].
  destruct (bytes_eqb n n') eqn:E.
  - apply bytes_eqb_eq in E. subst. rewrite bytes_eqb_refl. reflexivity.
  - destruct (bytes_eqb (file_of n) (file_of n')) eqn:E'.
    + apply bytes_eqb_eq in E'. apply file_of_inj in E'; [|assumption|assumption]. subst.
      rewrite bytes_eqb_refl in E. discriminate.
    + apply IH; assumption.
Qed.

Lemma dremove_enc : forall m n, bytes n -> mem_bytes m -> dremove (file_of n) (enc_mem m) = enc_mem (mremove n m).
Proof.
  induction m as [|[n' k] m IH]; intros n Hn Hm; [reflexivity|].
  inversion Hm as [|? ? Hn' Hm']; subst. cbn [fst] in Hn'.
  cbn [enc_mem map enc_entry fst snd dremove mremove].
  destruct (bytes_eqb n n') eqn:E.
  - apply bytes_eqb_eq in E. subst. rewrite bytes_eqb_refl. reflexivity.
  - destruct (bytes_eqb (file_of n) (file_of n')) eqn:E'.
    + apply bytes_eqb_eq in E'. apply file_of_inj in E'; [|assumption|assumption]. subst.
      rewrite bytes_eqb_refl in E. discriminate.
    + cbn [map enc_entry fst snd]. f_equal. apply IH; assumption.
Qed.

Lemma dnames_enc : forall m, mem_bytes m -> dnames (enc_mem m) = map fst m.
Proof.
  induction m as [|[n k] m IH]; intro Hm; [reflexivity|].
  inversion Hm as [|? ? Hn Hm']; subst. cbn [fst] in Hn.
  cbn [enc_mem map enc_entry fst snd dnames]. rewrite name_of_file_of by assumption.
  f_equal. apply IH. assumption.
Qed.

Lemma mremove_bytes : forall m n, mem_bytes m -> mem_bytes (mremove n m).
Proof.
  induction m as [|[n' k] m IH]; intros n Hm; [constructor|].
  inversion Hm; subst. cbn [mremove]. destruct (bytes_eqb n n'); [assumption|].
  constructor; [assumption|apply IH; assumption].
Qed.

Lemma valid_name_spec : forall n, valid_name n = true -> is_nil n = false /\ bytes n /\ too_long (file_of n) = false.
Proof.
  intros n H. unfold valid_name in H.
  apply andb_true_iff in H. destruct H as [H H3]. apply andb_true_iff in H. destruct H as [H1 H2].
  apply negb_true_iff in H1, H3. split; [assumption|]. split; [apply forallb_bytes; assumption|assumption].
Qed.

Lemma step_sim : forall m o, mem_bytes m -> forallb valid_name (op_names o) = true ->
  let (d', r) := fs_step false (enc_mem m) o in
  let (m', r') := mem_step false m o in
  r = r' /\ d' = enc_mem m' /\ mem_bytes m'.
Proof.
  intros m o Hm Hv. destruct o as [n k|n|n|n|]; cbn [op_names forallb] in Hv;
    try (rewrite andb_true_r in Hv; apply valid_name_spec in Hv; destruct Hv as (Hnil & Hb & Hlen));
    cbn [fs_step mem_step]; rewrite ?Hnil, ?Hlen, ?dlookup_enc by assumption.
  - destruct (mlookup n m); [auto|]. split; [reflexivity|]. split.
    + unfold enc_mem. rewrite map_app. reflexivity.
    + apply Forall_app. split; [assumption|]. constructor; [exact Hb|constructor].
  - destruct (mlookup n m); auto.
  - destruct (mlookup n m); auto.
  - destruct (mlookup n m) eqn:E.
    + split; [reflexivity|]. split; [apply dremove_enc; assumption|apply mremove_bytes; assumption].
    + split; [reflexivity|]. split; [reflexivity|assumption].
  - split; [|auto]. f_equal. apply dnames_enc. assumption.
Qed.

Lemma run_sim : forall ops m, mem_bytes m -> valid_ops ops = true ->
  snd (fs_run false (enc_mem m) ops) = snd (mem_run false m ops) /\
  fst (fs_run false (enc_mem m) ops) = enc_mem (fst (mem_run false m ops)).
Proof.
  induction ops as [|o ops IH]; intros m Hm Hv; [split; reflexivity|].
  cbn [valid_ops forallb] in Hv. apply andb_true_iff in Hv. destruct Hv as [Hv1 Hv2].
  pose proof (step_sim m o Hm Hv1) as Hs. cbn [fs_run mem_run].
  destruct (fs_step false (enc_mem m) o) as [d' r]. destruct (mem_step false m o) as [m' r'].
  destruct Hs as (Hr & Hd & Hm'). subst d' r'.
  specialize (IH m' Hm' Hv2).
  destruct (fs_run false (enc_mem m') ops) as [d'' rs]. destruct (mem_run false m' ops) as [m'' rs'].
  cbn [fst snd] in *. destruct IH as [IH1 IH2]. subst. split; reflexivity.
Qed.

Theorem fs_refines_mem : forall ops, valid_ops ops = true ->
  snd (fs_run false [] ops) = snd (mem_run false [] ops) /\
  fst (fs_run false [] ops) = enc_mem (fst (mem_run false [] ops)).
Proof. intros ops Hv. apply (run_sim ops [] (Forall_nil _) Hv). Qed.

(** ---------- confinement: whatever the operations and names, only safe single components are used ---------- *)
Lemma touched_safe : forall o, Forall (fun f => safe_component f = true) (touched o).
Proof.
  intros [n k|n|n|n|]; cbn [touched]; try constructor;
    destruct (is_nil n); constructor; try apply file_of_safe; constructor.
Qed.

Definition dir_safe (d : dir) : Prop := Forall (fun e => safe_component (fst e) = true) d.

Lemma dremove_safe : forall d f, dir_safe d -> dir_safe (dremove f d).
Proof.
  induction d as [|[f' k] d IH]; intros f H; [constructor|]. inversion H; subst. cbn [dremove].
  destruct (bytes_eqb f f'); [assumption|]. constructor; [assumption|apply IH; assumption].
Qed.

Lemma fs_step_safe : forall fl d o, dir_safe d -> dir_safe (fst (fs_step fl d o)).
Proof.
  intros fl d o H. destruct o as [n k|n|n|n|]; cbn [fs_step];
    try (destruct (is_nil n); [exact H|]; destruct (too_long (file_of n)); [exact H|];
         destruct (dlookup (file_of n) d); try exact H).
  - cbn [fst]. apply Forall_app. split; [exact H|]. constructor; [apply file_of_safe|constructor].
  - cbn [fst]. apply dremove_safe. exact H.
  - exact H.
Qed.

Theorem fs_run_safe : forall fl ops d, dir_safe d -> dir_safe (fst (fs_run fl d ops)).
Proof.
  intros fl ops. induction ops as [|o ops IH]; intros d H; [exact H|]. cbn [fs_run].
  pose proof (fs_step_safe fl d o H) as Hs. destruct (fs_step fl d o) as [d' r]. cbn [fst] in Hs.
  specialize (IH d' Hs). destruct (fs_run fl d' ops) as [d'' rs]. exact IH.
Qed.

(** ---------- the defect ---------- *)
Theorem delete_missing_refuted :
  valid_ops [Del [97]] = true /\
  snd (fs_run true [] [Del [97]]) = [ROther] /\ snd (mem_run true [] [Del [97]]) = [ROk].
Proof. vm_compute. repeat split; reflexivity. Qed.
