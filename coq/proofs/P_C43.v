(** C43 — proofs about the iterator model [M_C43]. *)
From Coq Require Import List ZArith Bool NArith Lia.
From V Require Import lib.Verdict model.M_C43.
Import ListNotations.
Open Scope Z_scope.

(** what a state will still yield *)
Fixpoint rest (s : st) : list (Z * bool) :=
  match s with
  | SSrc rem _ => map (fun x => (x, false)) rem
  | SJson rem done _ _ => if done then [] else jvals rem
  | SMap f done _ i => if done then [] else map (fun x => (apf f (fst x), false)) (rest i)
  | SFilter p done _ i =>
      if done then [] else map (fun x => (fst x, false)) (filter (fun x => app p (fst x)) (rest i))
  | SLimit lim cnt i => if 0 <? lim then firstn (Z.to_nat (lim - cnt)) (rest i) else rest i
  | SCnt _ _ _ i => rest i
  end.

Lemma rest_init t : rest (init t) = sem t.
Proof.
  induction t as [xs|rs|f i IH|p i IH|n i IH|i IH]; cbn [init rest sem]; try congruence.
  - unfold take. rewrite IH, Z.sub_0_r. reflexivity.
Qed.

Lemma jvals_length rs : (length (jvals rs) <= length rs)%nat.
Proof. induction rs as [|[v|] r IH]; cbn [jvals length]; lia. Qed.

Lemma filter_len_le {A} (f : A -> bool) l : (length (filter f l) <= length l)%nat.
Proof. induction l as [|a l IH]; cbn [filter length]; [lia|]. destruct (f a); cbn [length]; lia. Qed.

Lemma rest_length s : (length (rest s) <= remaining s)%nat.
Proof.
  induction s as [rem v|rem d v e|f d v i IH|p d v i IH|l c i IH|n t c i IH];
    cbn [rest remaining].
  - rewrite map_length. lia.
  - destruct d; cbn [length]; [lia|apply jvals_length].
  - destruct d; cbn [length]; [lia|]. rewrite map_length. exact IH.
  - destruct d; cbn [length]; [lia|]. rewrite map_length.
    etransitivity; [apply filter_len_le|exact IH].
  - destruct (0 <? l); [|exact IH]. rewrite firstn_length. lia.
  - exact IH.
Qed.

(** ---- fuel is sufficient, and Next consumes from the source ---- *)
Lemma nextf_progress :
  forall fuel s, (depth s + remaining s < fuel)%nat ->
    exists b s', nextf fuel s = Some (b, s') /\ depth s' = depth s /\
                 (remaining s' <= remaining s)%nat /\
                 (b = true -> (remaining s' < remaining s)%nat).
Proof.
  induction fuel as [|fuel IH]; intros s Hlt; [lia|].
  destruct s as [rem v|rem d v e|f d v i|p d v i|l c i|n t c i]; cbn [nextf].
  - destruct rem as [|x r]; eexists _, _; (split; [reflexivity|]); cbn; repeat split; try lia; discriminate.
  - destruct d.
    + eexists _, _; (split; [reflexivity|]); cbn; repeat split; try lia; discriminate.
    + destruct rem as [|[x|] r]; eexists _, _; (split; [reflexivity|]); cbn; repeat split; try lia; discriminate.
  - destruct d.
    + eexists _, _; (split; [reflexivity|]); cbn; repeat split; try lia; discriminate.
    + cbn [depth remaining] in Hlt.
      destruct (IH i ltac:(lia)) as (b & i' & E & Hd & Hr & Hs). rewrite E.
      destruct b; eexists _, _; (split; [reflexivity|]); cbn [depth remaining];
        repeat split; try lia; try discriminate; try (intros _; apply Hs; reflexivity).
  - destruct d.
    + eexists _, _; (split; [reflexivity|]); cbn; repeat split; try lia; discriminate.
    + cbn [depth remaining] in Hlt.
      destruct (IH i ltac:(lia)) as (b & i' & E & Hd & Hr & Hs). rewrite E.
      destruct b.
      * specialize (Hs eq_refl).
        destruct (app p (fst (val i'))).
        -- eexists _, _; (split; [reflexivity|]); cbn [depth remaining]; repeat split; lia.
        -- destruct (IH (SFilter p false (fst (val i')) i')) as (b2 & s2 & E2 & Hd2 & Hr2 & Hs2).
           { cbn [depth remaining]. lia. }
           rewrite E2. exists b2, s2. cbn [depth remaining] in *. repeat split; try lia.
      * eexists _, _; (split; [reflexivity|]); cbn [depth remaining]; repeat split; try lia; discriminate.
  - destruct ((0 <? l) && (l <=? c)).
    + eexists _, _; (split; [reflexivity|]); repeat split; try lia; discriminate.
    + cbn [depth remaining] in Hlt.
      destruct (IH i ltac:(lia)) as (b & i' & E & Hd & Hr & Hs). rewrite E.
      destruct b; eexists _, _; (split; [reflexivity|]); cbn [depth remaining];
        repeat split; try lia; try discriminate; try (intros _; apply Hs; reflexivity).
  - cbn [depth remaining] in Hlt.
    destruct (IH i ltac:(lia)) as (b & i' & E & Hd & Hr & Hs). rewrite E.
    eexists _, _; (split; [reflexivity|]); cbn [depth remaining]; repeat split; try lia;
    try (intros ->; apply Hs; reflexivity).
Qed.

Lemma nextf_enough s : exists r, nextf (fuel_of s) s = Some r.
Proof.
  destruct (nextf_progress (fuel_of s) s) as (b & s' & E & _); [unfold fuel_of; lia|].
  eauto.
Qed.

Lemma next_nextf s : nextf (fuel_of s) s = Some (next s).
Proof. unfold next. destruct (nextf_enough s) as [r E]. rewrite E. reflexivity. Qed.

(** ---- Next yields the head of [rest] ---- *)
Definition next_post (s : st) (b : bool) (s' : st) : Prop :=
  match rest s with
  | [] => b = false /\ rest s' = []
  | y :: ys => b = true /\ val s' = y /\ rest s' = ys
  end.

Lemma firstn_nil_of {A} n (l : list A) : l = [] -> firstn n l = [].
Proof. intros ->. destruct n; reflexivity. Qed.

Lemma nextf_spec :
  forall fuel s b s', nextf fuel s = Some (b, s') -> next_post s b s'.
Proof.
  induction fuel as [|fuel IH]; intros s b s' E; [discriminate|].
  destruct s as [rem v|rem d v e|f d v i|p d v i|l c i|n t c i]; cbn [nextf] in E; unfold next_post.
  - destruct rem as [|x r]; injection E as <- <-; cbn; auto.
  - destruct d; [injection E as <- <-; cbn; auto|].
    destruct rem as [|[x|] r]; injection E as <- <-; cbn; auto.
  - destruct d; [injection E as <- <-; cbn; auto|].
    destruct (nextf fuel i) as [[bi i']|] eqn:Ei; [|discriminate].
    apply IH in Ei. unfold next_post in Ei. cbn [rest].
    destruct (rest i) as [|y ys].
    + destruct Ei as [-> Hr]. injection E as <- <-. cbn. auto.
    + destruct Ei as (-> & Hv & Hr). injection E as <- <-. cbn [map rest val].
      rewrite Hv, Hr. auto.
  - destruct d; [injection E as <- <-; cbn; auto|].
    destruct (nextf fuel i) as [[bi i']|] eqn:Ei; [|discriminate].
    apply IH in Ei. unfold next_post in Ei. cbn [rest].
    destruct (rest i) as [|y ys].
    + destruct Ei as [-> Hr]. injection E as <- <-. cbn. auto.
    + destruct Ei as (-> & Hv & Hr). cbn [filter]. rewrite Hv in E.
      destruct (app p (fst y)) eqn:Ep.
      * injection E as <- <-. cbn [map rest val]. rewrite Hr. auto.
      * apply IH in E. unfold next_post in E. cbn [rest] in E. rewrite Hr in E. exact E.
  - cbn [rest].
    destruct ((0 <? l) && (l <=? c)) eqn:Eg.
    + injection E as <- <-. apply andb_true_iff in Eg as [Eg1 Eg2]. cbn [rest]. rewrite Eg1.
      replace (Z.to_nat (l - c)) with O by lia. cbn. auto.
    + destruct (nextf fuel i) as [[bi i']|] eqn:Ei; [|discriminate].
      apply IH in Ei. unfold next_post in Ei.
      destruct (rest i) as [|y ys].
      * destruct Ei as [-> Hr]. injection E as <- <-. cbn [rest]. rewrite Hr.
        destruct (0 <? l); rewrite ?firstn_nil; auto.
      * destruct Ei as (-> & Hv & Hr). injection E as <- <-. cbn [rest val]. rewrite Hr.
        destruct (0 <? l) eqn:El.
        -- cbn [andb] in Eg. apply Z.leb_gt in Eg.
           replace (Z.to_nat (l - c)) with (S (Z.to_nat (l - (c + 1)))) by lia.
           cbn [firstn]. auto.
        -- auto.
  - destruct (nextf fuel i) as [[bi i']|] eqn:Ei; [|discriminate].
    apply IH in Ei. unfold next_post in Ei. injection E as <- <-. cbn [rest val]. exact Ei.
Qed.

Lemma next_spec s : next_post s (fst (next s)) (snd (next s)).
Proof.
  apply (nextf_spec (fuel_of s)). rewrite next_nextf. destruct (next s); reflexivity.
Qed.

(** ---- draining a state yields exactly [rest] ---- *)
Lemma read_allf_rest :
  forall fuel s, (length (rest s) < fuel)%nat -> fst (read_allf fuel s) = rest s.
Proof.
  induction fuel as [|fuel IH]; intros s Hl; [lia|].
  cbn [read_allf]. pose proof (next_spec s) as Hn. unfold next_post in Hn.
  destruct (next s) as [b s']. cbn [fst snd] in Hn.
  destruct (rest s) as [|y ys] eqn:Er.
  - destruct Hn as [-> _]. reflexivity.
  - destruct Hn as (-> & Hv & Hr). cbn [length] in Hl.
    specialize (IH s' ltac:(rewrite Hr; lia)).
    destruct (read_allf fuel s') as [l s'']. cbn [fst] in *. rewrite Hv, IH, Hr. reflexivity.
Qed.

Lemma read_all_rest s : fst (read_all s) = rest s.
Proof. apply read_allf_rest. pose proof (rest_length s). lia. Qed.

Theorem read_all_sem t : fst (read_all (init t)) = sem t.
Proof. rewrite read_all_rest. apply rest_init. Qed.

(** the three list laws of the property, in terms of what draining yields *)
Corollary map_law f i :
  fst (read_all (init (MapI f i))) =
  map (fun x => (apf f (fst x), false)) (fst (read_all (init i))).
Proof. rewrite !read_all_sem. reflexivity. Qed.

Corollary filter_law p i :
  fst (read_all (init (FilterI p i))) =
  map (fun x => (fst x, false)) (filter (fun x => app p (fst x)) (fst (read_all (init i)))).
Proof. rewrite !read_all_sem. reflexivity. Qed.

Corollary limit_law n i :
  fst (read_all (init (LimitI n i))) =
  if 0 <? n then firstn (Z.to_nat n) (fst (read_all (init i))) else fst (read_all (init i)).
Proof. rewrite !read_all_sem. reflexivity. Qed.

Corollary compose_law t : fst (read_all (init t)) = sem t.
Proof. apply read_all_sem. Qed.

(** ---- Close reaches every wrapper exactly once; Next never touches close counts ---- *)
Definition closes_of (s : st) : list N := map (fun c => snd c) (counters s).

Lemma close_counts s : closes_of (close s) = map N.succ (closes_of s).
Proof.
  unfold closes_of.
  induction s as [rem v|rem d v e|f d v i IH|p d v i IH|l c i IH|n t c i IH];
    cbn [close counters map]; try assumption; try reflexivity.
  cbn [snd]. f_equal. exact IH.
Qed.

Lemma nextf_closes :
  forall fuel s b s', nextf fuel s = Some (b, s') -> closes_of s' = closes_of s.
Proof.
  unfold closes_of.
  induction fuel as [|fuel IH]; intros s b s' E; [discriminate|].
  destruct s as [rem v|rem d v e|f d v i|p d v i|l c i|n t c i]; cbn [nextf] in E.
  - destruct rem; inversion E; reflexivity.
  - destruct d; [inversion E; reflexivity|]. destruct rem as [|[x|] r]; inversion E; reflexivity.
  - destruct d; [inversion E; reflexivity|].
    destruct (nextf fuel i) as [[bi i']|] eqn:Ei; [|discriminate].
    apply IH in Ei. destruct bi; inversion E; subst; cbn [counters]; exact Ei.
  - destruct d; [inversion E; reflexivity|].
    destruct (nextf fuel i) as [[bi i']|] eqn:Ei; [|discriminate].
    apply IH in Ei. destruct bi.
    + destruct (app p (fst (val i'))).
      * inversion E; subst; cbn [counters]; exact Ei.
      * apply IH in E. cbn [counters] in *. congruence.
    + inversion E; subst; cbn [counters]; exact Ei.
  - destruct ((0 <? l) && (l <=? c)); [inversion E; reflexivity|].
    destruct (nextf fuel i) as [[bi i']|] eqn:Ei; [|discriminate].
    apply IH in Ei. destruct bi; inversion E; subst; cbn [counters]; exact Ei.
  - destruct (nextf fuel i) as [[bi i']|] eqn:Ei; [|discriminate].
    apply IH in Ei. inversion E; subst. cbn [counters map snd]. f_equal. exact Ei.
Qed.

Lemma next_closes s : closes_of (snd (next s)) = closes_of s.
Proof.
  pose proof (next_nextf s) as E. destruct (next s) as [b s'].
  apply nextf_closes in E. exact E.
Qed.

Definition count_close (ops : list op) : N :=
  fold_right (fun o n => match o with OClose => N.succ n | _ => n end) 0%N ops.

Lemma run_closes :
  forall ops s, closes_of (fst (run s ops)) = map (N.add (count_close ops)) (closes_of s).
Proof.
  induction ops as [|o ops IH]; intros s; cbn [run].
  - cbn [fst count_close fold_right]. rewrite <- (map_id (closes_of s)) at 1. apply map_ext. intros; lia.
  - destruct (step s o) as [s1 b1] eqn:Es. specialize (IH s1).
    destruct (run s1 ops) as [s2 bs]. cbn [fst] in *. rewrite IH.
    change (count_close (o :: ops)) with
      (match o with OClose => N.succ (count_close ops) | _ => count_close ops end).
    destruct o; cbn [step] in Es.
    + pose proof (next_closes s) as Hc. destruct (next s) as [b s']. inversion Es; subst.
      cbn [snd] in Hc. rewrite Hc. reflexivity.
    + inversion Es; subst. reflexivity.
    + inversion Es; subst. rewrite close_counts, map_map. apply map_ext. intros; lia.
Qed.

Lemma init_closes t : forall c, In c (closes_of (init t)) -> c = 0%N.
Proof.
  unfold closes_of.
  induction t as [xs|rs|f i IH|p i IH|n i IH|i IH]; cbn [init counters map]; intros c Hc;
    try (apply IH; exact Hc); try contradiction.
  cbn [snd] in Hc. destruct Hc as [<-|Hc]; [reflexivity|apply IH; exact Hc].
Qed.

Theorem close_propagates t ops :
  forall c, In c (closes_of (fst (run (init t) ops))) -> c = count_close ops.
Proof.
  intros c Hc. rewrite run_closes in Hc. apply in_map_iff in Hc as (c0 & <- & Hc0).
  apply init_closes in Hc0. subst. lia.
Qed.

(** ---- a limited iterator never advances its source more than [limit] times ---- *)
Definition is_cnt (s : st) : bool := match s with SCnt _ _ _ _ => true | _ => false end.

(** [tinv cons t s]: state [s] is a run-time state of term [t]; for every
    [LimitI n (Cnt i)] / [SLimit n cnt (SCnt nx tr _ s0)] pair: the wrapper saw
    exactly [cnt] successful advances, [cnt <= n] when the limit is positive, and
    it saw no other advance unless [i] has fewer than [n] elements.  With
    [cons = true] (before Close) also the conservation law
    [cnt + |rest s0| = |sem i|]. *)
Fixpoint tinv (cons : bool) (t : it) (s : st) : Prop :=
  match t, s with
  | Src _, SSrc _ _ => True
  | Json _, SJson _ _ _ _ => True
  | MapI _ i, SMap _ _ _ s0 => tinv cons i s0
  | FilterI _ i, SFilter _ _ _ s0 => tinv cons i s0
  | Cnt i, SCnt _ _ _ s0 => tinv cons i s0
  | LimitI n i, SLimit lim cnt s0 =>
      (lim = n) /\ (tinv cons i s0) /\
      (match i, s0 with
      | Cnt i', SCnt nx tr _ s1 =>
          Z.of_N tr = cnt /\ (0 < n -> cnt <= n) /\
          (0 < n -> Z.of_N nx = cnt \/ Z.of_nat (length (sem i')) < n) /\
          (cons = true -> cnt + Z.of_nat (length (rest s1)) = Z.of_nat (length (sem i')))
      | _, _ => True
      end)
  | _, _ => False
  end.

Lemma tinv_init t : tinv true t (init t).
Proof.
  induction t as [xs|rs|f i IH|p i IH|n i IH|i IH]; cbn [init tinv]; auto.
  split; [reflexivity|]. split; [exact IH|].
  destruct i; cbn [init]; auto. rewrite rest_init. cbn. lia.
Qed.

Lemma nextf_tinv :
  forall fuel t s b s', nextf fuel s = Some (b, s') -> tinv true t s -> tinv true t s'.
Proof.
  induction fuel as [|fuel IH]; intros t s b s' E Hi; [discriminate|].
  destruct s as [rem v|rem d v e|f d v i|p d v i|l c i|n k c i];
    destruct t as [xs|rs|f0 t0|p0 t0|n0 t0|t0]; cbn [tinv] in Hi; try contradiction;
    cbn [nextf] in E.
  - destruct rem; injection E as <- <-; exact I.
  - destruct d; [injection E as <- <-; exact I|].
    destruct rem as [|[x|] r]; injection E as <- <-; exact I.
  - destruct d; [injection E as <- <-; exact Hi|].
    destruct (nextf fuel i) as [[bi i']|] eqn:Ei; [|discriminate].
    apply (IH t0) in Ei; [|exact Hi]. destruct bi; injection E as <- <-; exact Ei.
  - destruct d; [injection E as <- <-; exact Hi|].
    destruct (nextf fuel i) as [[bi i']|] eqn:Ei; [|discriminate].
    apply (IH t0) in Ei; [|exact Hi]. destruct bi.
    + destruct (app p (fst (val i'))); [injection E as <- <-; exact Ei|].
      apply (IH (FilterI p0 t0)) in E; [exact E|exact Ei].
    + injection E as <- <-; exact Ei.
  - destruct Hi as (-> & Hi & Hc).
    destruct ((0 <? n0) && (n0 <=? c)) eqn:Eg;
      [injection E as <- <-; cbn [tinv]; auto|].
    destruct (nextf fuel i) as [[bi i']|] eqn:Ei; [|discriminate].
    pose proof (IH _ _ _ _ Ei Hi) as Hi'.
    assert (Hres : tinv true (LimitI n0 t0) (SLimit n0 (if bi then c + 1 else c) i')).
    { cbn [tinv]. split; [reflexivity|]. split; [exact Hi'|].
      destruct t0 as [| | | | |t1]; auto.
      destruct i as [| | | | |nx tr cl i0]; cbn [tinv] in Hi; try contradiction.
      destruct fuel as [|fuel0]; [discriminate|]. cbn [nextf] in Ei.
      destruct (nextf fuel0 i0) as [[b0 i0']|] eqn:E0; [|discriminate].
      pose proof (nextf_spec _ _ _ _ E0) as Hp. unfold next_post in Hp.
      injection Ei as <- <-.
      destruct Hc as (Htr & Hle & Hor & Hcons). specialize (Hcons eq_refl).
      assert (Hlt : 0 < n0 -> c < n0).
      { intros Hl. apply Z.ltb_lt in Hl. rewrite Hl in Eg. cbn in Eg. apply Z.leb_gt in Eg. exact Eg. }
      destruct b0.
      - destruct (rest i0) as [|y ys]; [destruct Hp; discriminate|].
        destruct Hp as (_ & _ & Hr). rewrite Hr. cbn [length] in Hcons.
        split; [lia|]. split; [intros Hl; specialize (Hlt Hl); lia|].
        split; [intros Hl; specialize (Hor Hl); specialize (Hlt Hl); lia|intros _; lia].
      - destruct (rest i0) as [|y ys]; [|destruct Hp; discriminate].
        destruct Hp as (_ & Hr). rewrite Hr. cbn [length] in *.
        split; [lia|]. split; [intros Hl; specialize (Hlt Hl); lia|].
        split; [intros Hl; specialize (Hlt Hl); right; lia|intros _; lia]. }
    destruct bi; injection E as <- <-; exact Hres.
  - destruct (nextf fuel i) as [[bi i']|] eqn:Ei; [|discriminate].
    injection E as <- <-. cbn [tinv]. eapply IH; eauto.
Qed.

Lemma next_tinv t s : tinv true t s -> tinv true t (snd (next s)).
Proof.
  intros Hi. pose proof (next_nextf s) as E. destruct (next s) as [b s'].
  eapply nextf_tinv; eauto.
Qed.

Lemma read_allf_tinv t : forall fuel s, tinv true t s -> tinv true t (snd (read_allf fuel s)).
Proof.
  induction fuel as [|fuel IH]; intros s Hi; [exact Hi|].
  cbn [read_allf]. pose proof (next_tinv t s Hi) as Hn. destruct (next s) as [b s'].
  cbn [snd] in Hn. destruct b; [|exact Hn].
  specialize (IH s' Hn). destruct (read_allf fuel s'). exact IH.
Qed.

Lemma close_tinv t : forall s, tinv true t s -> tinv false t (close s).
Proof.
  induction t as [xs|rs|f i IH|p i IH|n i IH|i IH]; intros s Hi;
    destruct s as [rem v|rem d v e|f1 d v s0|p1 d v s0|l c s0|nx tr cl s0];
    cbn [tinv] in Hi; try contradiction; cbn [close tinv]; auto.
  destruct Hi as (-> & Hi & Hc). split; [reflexivity|]. split; [apply IH; exact Hi|].
  destruct i as [| | | | |i']; auto.
  destruct s0 as [| | | | |nx tr cl s1]; cbn [tinv] in Hi; try contradiction.
  cbn [close]. destruct Hc as (Htr & Hle & Hor & _). repeat split; auto. discriminate.
Qed.

Lemma tinv_limit_ok t : forall s, tinv false t s -> limit_ok t (counters s) = true.
Proof.
  induction t as [xs|rs|f i IH|p i IH|n i IH|i IH]; intros s Hi;
    destruct s as [rem v|rem d v e|f1 d v s0|p1 d v s0|l c s0|nx tr cl s0];
    cbn [tinv] in Hi; try contradiction; cbn [limit_ok counters tl]; auto.
  destruct Hi as (-> & Hi & Hc).
  destruct i as [xs|rs|f2 i2|p2 i2|n2 i2|i'].
  1-5: apply IH; exact Hi.
  destruct s0 as [| | | | |nx tr cl s1]; cbn [tinv] in Hi; try contradiction.
  cbn [counters]. destruct Hc as (Htr & Hle & Hor & _).
  apply andb_true_iff. split.
  - destruct (0 <? n) eqn:El; [|reflexivity]. apply Z.ltb_lt in El.
    specialize (Hle El). specialize (Hor El).
    apply andb_true_iff. split; [apply Z.leb_le; lia|].
    destruct (n <=? Z.of_nat (length (sem i'))) eqn:En; [|reflexivity].
    apply Z.leb_le in En. apply Z.leb_le. lia.
  - specialize (IH (SCnt nx tr cl s1)). cbn [tinv limit_ok counters tl] in IH. apply IH. exact Hi.
Qed.

(** the statement used by the property: drain, then Close *)
Theorem limit_never_reads_ahead t :
  let s := close (snd (read_all (init t))) in
  limit_ok t (counters s) = true /\ closes_ok (counters s) = true.
Proof.
  cbn zeta. split.
  - apply tinv_limit_ok, close_tinv. unfold read_all. apply read_allf_tinv, tinv_init.
  - unfold closes_ok. apply forallb_forall. intros [[nx tr] cl] Hin.
    assert (Hc : In cl (closes_of (close (snd (read_all (init t)))))).
    { unfold closes_of. apply in_map_iff. exists (nx, tr, cl). split; [reflexivity|exact Hin]. }
    rewrite close_counts in Hc. apply in_map_iff in Hc as (c0 & <- & Hc0).
    assert (c0 = 0%N); [|subst; reflexivity].
    revert Hc0. unfold read_all. generalize (S (remaining (init t))).
    intros fuel. generalize (init_closes t). generalize (init t).
    induction fuel as [|fuel IHf]; intros s Hs Hc0; [apply Hs; exact Hc0|].
    cbn [read_allf] in Hc0. pose proof (next_closes s) as Hn. destruct (next s) as [b s'].
    cbn [snd] in Hn. destruct b.
    + specialize (IHf s'). destruct (read_allf fuel s') as [l s'']. cbn [snd] in *.
      apply IHf; [rewrite Hn; exact Hs|exact Hc0].
    + cbn [snd] in Hc0. apply Hs. rewrite <- Hn. exact Hc0.
Qed.

(** corollary in the words of the property: below a positive limit [n], a
    source with at least [n] elements is advanced exactly... at most [n] times *)
Corollary limit_reads n xs :
  0 < n -> n <= Z.of_nat (length xs) ->
  match counters (snd (read_all (init (LimitI n (Cnt (Src xs)))))) with
  | [(nx, tr, _)] => Z.of_N nx <= n /\ Z.of_N tr <= n
  | _ => False
  end.
Proof.
  intros Hn Hl.
  pose proof (read_allf_tinv (LimitI n (Cnt (Src xs))) (S (remaining (init (LimitI n (Cnt (Src xs))))))
                _ (tinv_init _)) as Hi.
  fold (read_all (init (LimitI n (Cnt (Src xs))))) in Hi.
  destruct (snd (read_all (init (LimitI n (Cnt (Src xs)))))) as [| | | |l c s0|]; cbn [tinv] in Hi; try contradiction.
  destruct Hi as (-> & Hi & Hc).
  destruct s0 as [| | | | |nx tr cl s1]; cbn [tinv] in Hi; try contradiction.
  destruct s1; cbn [tinv] in Hi; try contradiction.
  cbn [counters]. destruct Hc as (Htr & Hle & Hor & _). specialize (Hle Hn). specialize (Hor Hn).
  cbn [sem] in Hor. rewrite map_length in Hor. lia.
Qed.
