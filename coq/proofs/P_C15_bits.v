(** C15 — hashBits.next reads exactly the bits [consumed, consumed+i) of the digest,
    most significant bit first, as an integer. *)
From Coq Require Import List ZArith Bool NArith Lia.
From V Require Import lib.Verdict model.M_C15.
Import ListNotations.
Open Scope Z_scope.

(** bit [n] of the byte stream, counting from the most significant bit of byte 0 *)
Definition bitat (b : list Z) (n : Z) : bool :=
  Z.testbit (nth (Z.to_nat (n / 8)) b 0) (7 - n mod 8).

(** the integer whose binary digits are the bits c, c+1, ..., c+i-1 of the stream *)
Fixpoint bitsval (b : list Z) (c : Z) (i : nat) : Z :=
  match i with
  | O => 0
  | S i' => 2 * bitsval b c i' + Z.b2z (bitat b (c + Z.of_nat i'))
  end.

(* ---------- inside one byte: exhaustive computation over the finite domain ---------- *)

Definition byte_ok (x lo n : Z) : bool :=
  let leftb := 8 - lo in
  let spec := bitsval [x] lo (Z.to_nat n) in
  (* the three expressions of next() that read inside the current byte *)
  (if n =? leftb then Z.land (mkmask n) x =? spec else true) &&
  (if n <? leftb then
     Z.shiftr (Z.land (Z.land x (mkmask leftb)) (255 - mkmask (leftb - n))) (leftb - n) =? spec
   else true).

Definition zrange (n : nat) : list Z := map Z.of_nat (seq 0 n).

Lemma in_zrange : forall n x, 0 <= x < Z.of_nat n -> In x (zrange n).
Proof.
  intros n x H. unfold zrange. apply in_map_iff. exists (Z.to_nat x). split; [lia|].
  apply in_seq. lia.
Qed.

Definition byte_sweep : bool :=
  forallb (fun x => forallb (fun lo => forallb (fun n => byte_ok x lo n) (zrange 9)) (zrange 8)) (zrange 256).

Lemma byte_sweep_ok : byte_sweep = true.
Proof. vm_compute. reflexivity. Qed.

Lemma byte_ok_all : forall x lo n, 0 <= x < 256 -> 0 <= lo < 8 -> 0 <= n <= 8 - lo -> byte_ok x lo n = true.
Proof.
  intros x lo n Hx Hlo Hn.
  pose proof byte_sweep_ok as H. unfold byte_sweep in H.
  assert (E256 : Z.of_nat 256 = 256) by reflexivity.
  assert (E8 : Z.of_nat 8 = 8) by reflexivity.
  assert (E9 : Z.of_nat 9 = 9) by reflexivity.
  rewrite forallb_forall in H. specialize (H x (in_zrange 256 x ltac:(rewrite E256; lia))).
  rewrite forallb_forall in H. specialize (H lo (in_zrange 8 lo ltac:(rewrite E8; lia))).
  rewrite forallb_forall in H. apply (H n). apply in_zrange. rewrite E9. lia.
Qed.

(* ---------- from the stream to the current byte ---------- *)

Lemma bitat_local : forall b c k, 0 <= c -> 0 <= k -> c mod 8 + k < 8 ->
  bitat b (c + k) = bitat [nth (Z.to_nat (c / 8)) b 0] (c mod 8 + k).
Proof.
  intros b c k Hc Hk Hlt. unfold bitat.
  pose proof (Z.mod_pos_bound c 8 ltac:(lia)) as Hm.
  assert (E1 : (c + k) / 8 = c / 8).
  { rewrite (Z.div_mod c 8) at 1 by lia.
    replace (8 * (c / 8) + c mod 8 + k) with ((c mod 8 + k) + (c / 8) * 8) by lia.
    rewrite Z.div_add by lia. rewrite Z.div_small; lia. }
  assert (E2 : (c + k) mod 8 = c mod 8 + k).
  { rewrite (Z.div_mod c 8) at 1 by lia.
    replace (8 * (c / 8) + c mod 8 + k) with ((c mod 8 + k) + (c / 8) * 8) by lia.
    rewrite Z.mod_add by lia. apply Z.mod_small. pose proof (Z.mod_pos_bound c 8). lia. }
  rewrite E1, E2.
  assert (E3 : (c mod 8 + k) / 8 = 0) by (apply Z.div_small; pose proof (Z.mod_pos_bound c 8); lia).
  assert (E4 : (c mod 8 + k) mod 8 = c mod 8 + k) by (apply Z.mod_small; pose proof (Z.mod_pos_bound c 8); lia).
  rewrite E3, E4. reflexivity.
Qed.

Lemma bitsval_local : forall b c n, 0 <= c -> c mod 8 + Z.of_nat n <= 8 ->
  bitsval b c n = bitsval [nth (Z.to_nat (c / 8)) b 0] (c mod 8) n.
Proof.
  intros b c n Hc. induction n as [|n IH]; intros Hn; [reflexivity|].
  cbn [bitsval]. rewrite IH by lia. rewrite bitat_local by lia. reflexivity.
Qed.

Lemma bitsval_app : forall b c n1 n2,
  bitsval b c (n1 + n2) = bitsval b c n1 * 2 ^ Z.of_nat n2 + bitsval b (c + Z.of_nat n1) n2.
Proof.
  intros b c n1 n2. induction n2 as [|n2 IH].
  - rewrite Nat.add_0_r. cbn [bitsval]. change (2 ^ Z.of_nat 0) with 1. lia.
  - rewrite Nat.add_succ_r. cbn [bitsval]. rewrite IH.
    replace (c + Z.of_nat (n1 + n2)) with (c + Z.of_nat n1 + Z.of_nat n2) by lia.
    rewrite Nat2Z.inj_succ, Z.pow_succ_r by lia. lia.
Qed.

Lemma bitsval_nonneg : forall b c n, 0 <= bitsval b c n.
Proof.
  intros b c n. induction n as [|n IH]; cbn [bitsval]; [lia|].
  destruct (bitat b (c + Z.of_nat n)); cbn [Z.b2z]; lia.
Qed.

(* ---------- next ---------- *)

Definition bytes_ok (b : list Z) : Prop := Forall (fun x => 0 <= x < 256) b.

Lemma nth_byte : forall b n, bytes_ok b -> 0 <= nth n b 0 < 256.
Proof.
  intros b n H. destruct (Nat.lt_ge_cases n (length b)) as [Hl|Hl].
  - unfold bytes_ok in H. rewrite Forall_forall in H. apply H. apply nth_In. exact Hl.
  - rewrite nth_overflow by exact Hl. lia.
Qed.

Lemma nextf_bits : forall fuel b c i, bytes_ok b -> 0 <= c -> 0 <= i -> (Z.to_nat i < fuel)%nat ->
  nextf fuel b c i = Some (bitsval b c (Z.to_nat i), c + i).
Proof.
  induction fuel as [|fuel IH]; intros b c i Hb Hc Hi Hf; [lia|].
  cbn [nextf].
  set (leftb := 8 - c mod 8). set (curb := nth (Z.to_nat (c / 8)) b 0).
  pose proof (Z.mod_pos_bound c 8 ltac:(lia)) as Hm.
  pose proof (nth_byte b (Z.to_nat (c / 8)) Hb) as Hx. fold curb in Hx.
  destruct (i =? leftb) eqn:E1.
  - apply Z.eqb_eq in E1.
    pose proof (byte_ok_all curb (c mod 8) i Hx ltac:(lia) ltac:(lia)) as Hok.
    unfold byte_ok in Hok. fold leftb in Hok. rewrite (proj2 (Z.eqb_eq i leftb) E1) in Hok.
    apply andb_prop in Hok. destruct Hok as [Hok _]. apply Z.eqb_eq in Hok.
    rewrite Hok. rewrite (bitsval_local b c (Z.to_nat i)) by lia. reflexivity.
  - apply Z.eqb_neq in E1. destruct (i <? leftb) eqn:E2.
    + apply Z.ltb_lt in E2.
      pose proof (byte_ok_all curb (c mod 8) i Hx ltac:(lia) ltac:(lia)) as Hok.
      unfold byte_ok in Hok. fold leftb in Hok. rewrite (proj2 (Z.ltb_lt i leftb) E2) in Hok.
      apply andb_prop in Hok. destruct Hok as [_ Hok]. apply Z.eqb_eq in Hok.
      rewrite Hok. rewrite (bitsval_local b c (Z.to_nat i)) by lia. reflexivity.
    + apply Z.ltb_ge in E2.
      rewrite (IH b (c + leftb) (i - leftb)) by (try assumption; lia).
      pose proof (byte_ok_all curb (c mod 8) leftb Hx ltac:(lia) ltac:(lia)) as Hok.
      unfold byte_ok in Hok. fold leftb in Hok. rewrite Z.eqb_refl in Hok.
      apply andb_prop in Hok. destruct Hok as [Hok _]. apply Z.eqb_eq in Hok.
      rewrite Hok. rewrite Z.shiftl_mul_pow2 by lia. unfold curb.
      rewrite <- (bitsval_local b c (Z.to_nat leftb)) by lia.
      replace (Z.to_nat i) with (Z.to_nat leftb + Z.to_nat (i - leftb))%nat by lia.
      rewrite bitsval_app. rewrite !Z2Nat.id by lia.
      f_equal. f_equal. lia.
Qed.

(** hashBits.Next: the bits [consumed, consumed+i) as an integer, or an error exactly
    when fewer than [i] bits are left.  Any width [i], any digest length, any offset. *)
Lemma Next_bits : forall b c i, bytes_ok b -> 0 <= c -> 0 <= i ->
  Next b c i = if 8 * Z.of_nat (length b) <? c + i then None
               else Some (bitsval b c (Z.to_nat i), c + i).
Proof.
  intros b c i Hb Hc Hi. unfold Next.
  destruct (8 * Z.of_nat (length b) <? c + i); [reflexivity|].
  apply nextf_bits; try assumption. lia.
Qed.

(** the value read is an [i]-bit number: a valid child index for tableSize = 2^i *)
Lemma bitsval_bound : forall b c n, bitsval b c n < 2 ^ Z.of_nat n.
Proof.
  intros b c n. induction n as [|n IH]; cbn [bitsval].
  - change (2 ^ Z.of_nat 0) with 1. lia.
  - rewrite Nat2Z.inj_succ, Z.pow_succ_r by lia.
    destruct (bitat b (c + Z.of_nat n)); cbn [Z.b2z]; lia.
Qed.

(* ---------- the chain of Next calls ---------- *)

Lemma indices_from_spec : forall fuel lg2 b c, bytes_ok b -> 0 < lg2 -> 0 <= c ->
  (Z.to_nat ((8 * Z.of_nat (length b) - c) / lg2) <= fuel)%nat ->
  c <= 8 * Z.of_nat (length b) ->
  indices_from fuel lg2 b c =
  map (fun j => bitsval b (c + Z.of_nat j * lg2) (Z.to_nat lg2))
      (seq 0 (Z.to_nat ((8 * Z.of_nat (length b) - c) / lg2))).
Proof.
  induction fuel as [|fuel IH]; intros lg2 b c Hb Hl Hc Hf Hle.
  - assert (E : Z.to_nat ((8 * Z.of_nat (length b) - c) / lg2) = 0%nat) by lia.
    rewrite E. reflexivity.
  - cbn [indices_from]. rewrite Next_bits by (try assumption; lia).
    set (T := 8 * Z.of_nat (length b)) in *.
    destruct (T <? c + lg2) eqn:E.
    + apply Z.ltb_lt in E.
      assert (E0 : (T - c) / lg2 = 0) by (apply Z.div_small; lia).
      rewrite E0. reflexivity.
    + apply Z.ltb_ge in E.
      assert (E0 : (T - c) / lg2 = (T - (c + lg2)) / lg2 + 1).
      { replace (T - c) with ((T - (c + lg2)) + 1 * lg2) by lia. rewrite Z.div_add by lia. reflexivity. }
      assert (Hq : 0 <= (T - (c + lg2)) / lg2) by (apply Z.div_pos; lia).
      rewrite E0 in Hf. rewrite E0. replace (Z.to_nat ((T - (c + lg2)) / lg2 + 1)) with (S (Z.to_nat ((T - (c + lg2)) / lg2))) by lia.
      cbn [seq map]. f_equal.
      * f_equal. lia.
      * subst T. rewrite IH by (try assumption; lia).
        rewrite <- seq_shift, map_map. apply map_ext. intros j. f_equal. lia.
Qed.

(** [indices lg2 b] = the floor(bits/lg2) successive lg2-bit groups of the digest *)
Lemma indices_spec : forall lg2 b, bytes_ok b -> 0 < lg2 ->
  indices lg2 b =
  map (fun j => bitsval b (Z.of_nat j * lg2) (Z.to_nat lg2))
      (seq 0 (Z.to_nat (8 * Z.of_nat (length b) / lg2))).
Proof.
  intros lg2 b Hb Hl. unfold indices.
  destruct (lg2 <=? 0) eqn:E; [apply Z.leb_le in E; lia|].
  rewrite indices_from_spec; try assumption; try lia.
  - rewrite Z.sub_0_r. apply map_ext. intros j. f_equal.
  - rewrite Z.sub_0_r.
    assert (8 * Z.of_nat (length b) / lg2 <= 8 * Z.of_nat (length b)).
    { apply Z.div_le_upper_bound; nia. }
    lia.
Qed.

Lemma indices_length : forall lg2 b, bytes_ok b -> 0 < lg2 ->
  length (indices lg2 b) = Z.to_nat (8 * Z.of_nat (length b) / lg2).
Proof. intros. rewrite indices_spec by assumption. rewrite map_length, seq_length. reflexivity. Qed.
