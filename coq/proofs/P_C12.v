(** C12 — proofs about the DAG walk model (model/M_C12.v). *)
From Coq Require Import List ZArith Bool NArith Lia Arith.
From V Require Import lib.Verdict model.M_C12.
Import ListNotations.
Open Scope Z_scope.

(** ================= handler composition ================= *)

(** what a handler tree computes when every closure calls its captured predecessor *)
Fixpoint run_h (x : hnd) (c : cid) (e : option ekind) : option ekind * list hcall :=
  match x with
  | HBase h => apply1 h c e
  | HComp h _ p => let (e', l) := run_h p c e in
                   let (e'', l') := apply1 h c e' in (e'', l ++ l')
  end.

Fixpoint no_selfref (x : hnd) : bool :=
  match x with HBase _ => true | HComp _ s p => negb s && no_selfref p end.

Lemma eval_no_selfref : forall fuel top x c e,
  no_selfref x = true -> (hdepth x <= fuel)%nat -> eval fuel top x c e = Some (run_h x c e).
Proof.
  induction fuel as [|f IH]; intros top x c e Hn Hd.
  - destruct x; cbn [hdepth] in Hd; lia.
  - destruct x as [h|h s p]; [reflexivity|].
    cbn [no_selfref] in Hn. apply andb_true_iff in Hn. destruct Hn as [Hs Hp].
    apply negb_true_iff in Hs. subst s. cbn [hdepth] in Hd.
    cbn [eval run_h]. rewrite (IH top p c e Hp) by lia.
    destruct (run_h p c e) as [e' l]. destruct (apply1 h c e') as [e'' l']. reflexivity.
Qed.

Fixpoint build (s : bool) (hs : list hopt) (x : hnd) : hnd :=
  match hs with [] => x | h :: r => build s r (HComp h s x) end.

Lemma install_build : forall s h hs, install s (h :: hs) = Some (build s hs (HBase h)).
Proof.
  intros s h hs. unfold install. cbn [fold_left add_handler].
  generalize (HBase h) as x. induction hs as [|h' r IH]; intros x; [reflexivity|].
  cbn [fold_left add_handler build]. apply IH.
Qed.

Lemma build_no_selfref : forall hs x, no_selfref x = true -> no_selfref (build false hs x) = true.
Proof.
  induction hs as [|h r IH]; intros x Hx; [exact Hx|]. cbn [build]. apply IH. cbn [no_selfref negb andb]. exact Hx.
Qed.

Lemma run_build : forall hs x c e,
  run_h (build false hs x) c e =
  let (e1, l1) := run_h x c e in let (e2, l2) := fold_handlers hs c e1 in (e2, l1 ++ l2).
Proof.
  induction hs as [|h r IH]; intros x c e; cbn [build fold_handlers].
  - destruct (run_h x c e) as [e1 l1]. rewrite app_nil_r. reflexivity.
  - rewrite IH. cbn [run_h]. destruct (run_h x c e) as [e1 l1].
    destruct (apply1 h c e1) as [e2 l2]. destruct (fold_handlers r c e2) as [e3 l3].
    rewrite app_assoc. reflexivity.
Qed.

(** any list of handler options composes to the fold of the single handlers, and
    calling it terminates within the fuel [process] gives it *)
Lemma options_compose : forall hs c e,
  hs <> [] ->
  exists h, install false hs = Some h /\
            eval (S (hdepth h)) h h c e = Some (fold_handlers hs c e).
Proof.
  intros [|h0 hs] c e Hne; [congruence|].
  exists (build false hs (HBase h0)). split; [apply install_build|].
  rewrite eval_no_selfref; [|apply build_no_selfref; reflexivity|lia].
  rewrite run_build. cbn [run_h fold_handlers].
  destruct (apply1 h0 c e) as [e1 l1]. destruct (fold_handlers hs c e1) as [e2 l2]. reflexivity.
Qed.

(** the code as found: with two or more handlers the composed handler never returns *)
Lemma selfref_diverges : forall fuel h p c e,
  eval fuel (HComp h true p) (HComp h true p) c e = None.
Proof.
  induction fuel as [|f IH]; intros h p c e; [reflexivity|]. cbn [eval]. rewrite IH. reflexivity.
Qed.

Lemma install_selfref_two : forall h1 h2 hs,
  exists h p, install true (h1 :: h2 :: hs) = Some (HComp h true p).
Proof.
  intros h1 h2 hs. rewrite install_build. cbn [build].
  generalize (HBase h1) as x. revert h2. induction hs as [|h3 r IH]; intros h2 x.
  - exists h2, x. reflexivity.
  - cbn [build]. apply IH.
Qed.

(** ================= the walk as a transition system ================= *)

Lemma find_cons : forall c d s x,
  find ((c, d) :: s) x = if (x =? c)%N then Some d else find s x.
Proof. reflexivity. Qed.

(** the visit function, case by case *)
Lemma visit_spec : forall lim s c d b s',
  visit lim s c d = (b, s') ->
  (b = false /\ s' = s /\
     ((exists old, find s c = Some old /\ lim < 0) \/
      (0 <= lim /\ lim < d) \/
      (exists old, find s c = Some old /\ 0 <= lim /\ d <= lim /\ old <= d)))
  \/
  (b = true /\ s' = (c, d) :: s /\ (lim < 0 \/ d <= lim) /\
     (find s c = None \/ exists old, find s c = Some old /\ d < old /\ 0 <= lim)).
Proof.
  intros lim s c d b s' H. unfold visit in H.
  destruct (find s c) as [old|] eqn:Hf.
  - destruct (lim <? 0) eqn:E1; cbn [orb] in H.
    + apply Z.ltb_lt in E1. inversion H; subst. left. repeat split. left. exists old. auto.
    + apply Z.ltb_ge in E1. destruct (0 <=? lim) eqn:E2; [|apply Z.leb_gt in E2; lia].
      cbn [andb] in H. destruct (lim <? d) eqn:E3.
      * apply Z.ltb_lt in E3. inversion H; subst. left. repeat split. right. left. lia.
      * apply Z.ltb_ge in E3. destruct (d <? old) eqn:E4.
        -- apply Z.ltb_lt in E4. inversion H; subst. right. repeat split; [right; lia|].
           right. exists old. repeat split; [exact E4 | lia].
        -- apply Z.ltb_ge in E4. inversion H; subst. left. repeat split. right. right.
           exists old. repeat split; lia.
  - destruct (0 <=? lim) eqn:E2; cbn [andb] in H.
    + apply Z.leb_le in E2. destruct (lim <? d) eqn:E3.
      * apply Z.ltb_lt in E3. inversion H; subst. left. repeat split. right. left. lia.
      * apply Z.ltb_ge in E3. inversion H; subst. right. repeat split; [right; lia | left; reflexivity].
    + apply Z.leb_gt in E2. inversion H; subst. right. repeat split; [left; lia | left; reflexivity].
Qed.

(** [process]: the set is untouched; if the state is clean afterwards it was clean
    before and the children are the links of a successfully fetched (or forgiven) node *)
Lemma process_spec : forall fl g cf root c d k k' kids,
  process fl g cf root c d k = (k', kids) ->
  k_set k' = k_set k /\
  (k_errs k' = [] -> k_crash k' = false ->
     k_errs k = [] /\ k_crash k = false /\ kids = map (fun x => (x, d + 1)) (ok_links g c)).
Proof.
  intros fl g cf root c d k k' kids H. unfold process in H.
  match type of H with (match ?h with _ => _ end) = _ => destruct h as [[[e'|] calls]|] end;
    inversion H; subst; cbn [k_set k_errs k_crash]; split; try reflexivity.
  - intros He _. apply app_eq_nil in He. destruct He as [_ He]. discriminate.
  - intros He Hc. auto.
  - intros _ Hc. discriminate.
Qed.

Lemma nth_error_split_in : forall (A : Type) (l : list A) i x,
  nth_error l i = Some x ->
  (forall y, In y (remove_nth i l) -> In y l) /\
  (forall y, In y l -> y = x \/ In y (remove_nth i l)).
Proof.
  intros A l. induction l as [|a l IH]; intros i x H; [destruct i; discriminate|].
  destruct i as [|i]; cbn [nth_error remove_nth] in *.
  - inversion H; subst. split; [intros y Hy; right; exact Hy|]. intros y [->|Hy]; auto.
  - destruct (IH i x H) as [H1 H2]. split.
    + intros y [->|Hy]; [left; reflexivity | right; apply H1, Hy].
    + intros y [->|Hy]; [right; left; reflexivity|]. destruct (H2 y Hy) as [->|Hy']; [left; reflexivity | right; right; exact Hy'].
Qed.

Section Walk.
  Variable fl : flags.
  Variable g : graph.
  Variable cf : cfg.
  Variable root : cid.
  Local Notation lim := (c_lim cf).

  (** a path of [n] links from the root through successfully fetched nodes *)
  Inductive dpath : cid -> nat -> Prop :=
  | dp_root : dpath root O
  | dp_step : forall p c n, dpath p n -> In c (ok_links g p) -> dpath c (S n).

  Definition within (e : Z) : Prop := lim < 0 \/ e <= lim.
  Definition lle (x e : Z) : Prop := lim < 0 \/ x <= e.

  (** node [x], wanted at depth [e], is taken care of *)
  Definition cov (s : dset) (P : list (cid * Z)) (x : cid) (e : Z) : Prop :=
    ~ within e \/
    (exists dx, find s x = Some dx /\ lle dx e) \/
    (exists d', In (x, d') P /\ lle d' e /\ 0 < d').

  Definition clean (k : core) : Prop := k_errs k = [] /\ k_crash k = false.

  Record Inv (k : core) (P : list (cid * Z)) : Prop := {
    I1 : forall c d, In (c, d) P -> exists n, d = Z.of_nat n /\ dpath c n;
    I2 : forall c d, find (k_set k) c = Some d -> exists n, d = Z.of_nat n /\ dpath c n /\ within d;
    I3 : clean k -> forall c dc, find (k_set k) c = Some dc ->
           forall x, In x (ok_links g c) -> cov (k_set k) P x (dc + 1);
    I4 : clean k ->
           In (root, 0) P \/
           (c_skip_root cf = true /\ forall x, In x (ok_links g root) -> cov (k_set k) P x 1) \/
           (c_skip_root cf = false /\ exists d0, find (k_set k) root = Some d0 /\ lle d0 0);
    I5 : forall c d, In (c, d) P -> d = 0 -> c = root
  }.

  Lemma inv_init : Inv init_core [(root, 0)].
  Proof.
    constructor.
    - intros c d [H|[]]. inversion H; subst. exists O. split; [reflexivity | constructor].
    - intros c d H. discriminate.
    - intros _ c dc H. discriminate.
    - intros _. left. left. reflexivity.
    - intros c d [H|[]] _. inversion H. reflexivity.
  Qed.

  (** transfer of [cov] along a change of set and pending list *)
  Lemma cov_transfer : forall s P s' P' x e,
    (forall y dy e0, find s y = Some dy -> lle dy e0 -> cov s' P' y e0) ->
    (forall y d' e0, In (y, d') P -> 0 < d' -> lle d' e0 -> cov s' P' y e0) ->
    cov s P x e -> cov s' P' x e.
  Proof.
    intros s P s' P' x e HS HP [H|[(dx & Hf & Hl)|(d' & Hin & Hl & Hpos)]].
    - left. exact H.
    - eapply HS; eassumption.
    - eapply HP; eassumption.
  Qed.

  (** one worker iteration preserves the invariant *)
  Lemma inv_work : forall k P c d P0 b k' kids,
    Inv k P -> In (c, d) P ->
    (forall y, In y P0 -> In y P) ->
    (forall y, In y P -> y = (c, d) \/ In y P0) ->
    work fl g cf root c d k = (b, (k', kids)) ->
    Inv k' (kids ++ P0).
  Proof.
    intros k P c d P0 b k' kids HI Hin Hsub Hsplit Hw.
    destruct (I1 _ _ HI c d Hin) as (n & Hdn & Hpath).
    assert (Hd0 : 0 <= d) by lia.
    unfold work in Hw.
    destruct (c_skip_root cf && (d =? 0)) eqn:Hskip.
    - (* the skipped root *)
      apply andb_true_iff in Hskip. destruct Hskip as [Hsk Hz]. apply Z.eqb_eq in Hz. subst d.
      pose proof (I5 _ _ HI c 0 Hin eq_refl) as Hc. subst c.
      inversion Hw; subst b. clear Hw.
      destruct (process fl g cf root root 0 k) as [k1 kids1] eqn:Hp. inversion H1; subst k1 kids1. clear H1.
      destruct (process_spec _ _ _ _ _ _ _ _ _ Hp) as [Hset Hclean].
      assert (Hkids_in : forall y dy, In (y, dy) kids -> clean k' -> dy = 1 /\ In y (ok_links g root)).
      { intros y dy Hy [He Hc]. destruct (Hclean He Hc) as (_ & _ & Hk). rewrite Hk in Hy.
        apply in_map_iff in Hy. destruct Hy as (x & Hx & Hxin). inversion Hx; subst. split; [lia | exact Hxin]. }
      assert (Hkids_path : forall y dy, In (y, dy) kids -> exists m, dy = Z.of_nat m /\ dpath y m /\ 0 < dy).
      { intros y dy Hy. unfold process in Hp.
        match type of Hp with (match ?h with _ => _ end) = _ => destruct h as [[[e'|] calls]|] end;
          inversion Hp; subst; try destruct Hy.
        apply in_map_iff in Hy. destruct Hy as (x & Hx & Hxin). inversion Hx; subst.
        exists 1%nat. split; [reflexivity|]. split; [eapply dp_step; [constructor | exact Hxin] | lia]. }
      constructor.
      + intros y dy Hy. apply in_app_or in Hy. destruct Hy as [Hy|Hy].
        * destruct (Hkids_path y dy Hy) as (m & Hm & Hpm & _). exists m. auto.
        * apply (I1 _ _ HI), Hsub, Hy.
      + rewrite Hset. apply (I2 _ _ HI).
      + intros Hcl y dy Hf x Hx. rewrite Hset in *.
        destruct Hcl as [He Hc]. destruct (Hclean He Hc) as (He0 & Hc0 & Hk).
        eapply cov_transfer; [| |apply (I3 _ _ HI (conj He0 Hc0) y dy Hf x Hx)].
        * intros y0 dy0 e0 Hf0 Hl0. right. left. exists dy0. auto.
        * intros y0 d' e0 Hin0 Hpos Hl0. right. right. exists d'. repeat split; try assumption.
          apply in_or_app. right. destruct (Hsplit _ Hin0) as [Heq|Hin1]; [inversion Heq; lia | exact Hin1].
      + intros [He Hc]. destruct (Hclean He Hc) as (He0 & Hc0 & Hk).
        right. left. split; [exact Hsk|]. intros x Hx. right. right. exists 1.
        split; [|split; [right; lia | lia]]. apply in_or_app. left. rewrite Hk.
        apply in_map_iff. exists x. split; [reflexivity | exact Hx].
      + intros y dy Hy Hz. apply in_app_or in Hy. destruct Hy as [Hy|Hy].
        * destruct (Hkids_path y dy Hy) as (_ & _ & _ & Hpos). lia.
        * apply (I5 _ _ HI y dy); [apply Hsub, Hy | exact Hz].
    - (* an ordinary item: visit first *)
      destruct (visit (c_lim cf) (k_set k) c d) as [b0 set'] eqn:Hv.
      assert (Hnot_skiproot : d = 0 -> c_skip_root cf = false).
      { intros Hdz. rewrite Hdz in Hskip.
        change (0 =? 0) with true in Hskip. rewrite andb_true_r in Hskip. exact Hskip. }
      destruct (visit_spec _ _ _ _ _ _ Hv) as [(Hb & Hs' & Hwhy)|(Hb & Hs' & Hwithin & Hfresh)]; subst b0 set'.
      + (* not visited *)
        inversion Hw; subst b k' kids. clear Hw. cbn [app].
        assert (Hrepl : forall e0, lle d e0 -> cov (k_set k) P0 c e0).
        { intros e0 Hl. destruct Hwhy as [(old & Hf & Hneg)|[(Hl0 & Hgt)|(old & Hf & Hl0 & Hdl & Hold)]].
          - right. left. exists old. split; [exact Hf | left; exact Hneg].
          - left. intros [Hw|Hw]; [lia|]. destruct Hl as [Hl|Hl]; lia.
          - right. left. exists old. split; [exact Hf|]. destruct Hl as [Hl|Hl]; [left; exact Hl | right; lia]. }
        assert (HcovT : forall x e, cov (k_set k) P x e -> cov (k_set k) P0 x e).
        { intros x e. apply cov_transfer.
          - intros y dy e0 Hf Hl. right. left. exists dy. auto.
          - intros y d' e0 Hin0 Hpos Hl. destruct (Hsplit _ Hin0) as [Heq|Hin1].
            + injection Heq as Hy Hd'. subst y d'. apply Hrepl, Hl.
            + right. right. exists d'. auto. }
        constructor; cbn [with_set k_set k_errs k_crash].
        * intros y dy Hy. apply (I1 _ _ HI), Hsub, Hy.
        * apply (I2 _ _ HI).
        * intros Hcl y dy Hf x Hx. apply HcovT. apply (I3 _ _ HI Hcl y dy Hf x Hx).
        * intros Hcl. destruct (I4 _ _ HI Hcl) as [Hr|[(Hsk & Hr)|Hr]].
          -- destruct (Hsplit _ Hr) as [Heq|Hr0]; [|left; exact Hr0].
             assert (Hcr : root = c) by congruence. assert (Hdz : d = 0) by congruence. clear Heq.
             right. right. split; [apply Hnot_skiproot; exact Hdz|]. rewrite Hcr.
             destruct Hwhy as [(old & Hf & Hneg)|[(Hl0 & Hgt)|(old & Hf & Hl0 & Hdl & Hold)]].
             ++ exists old. split; [exact Hf | left; exact Hneg].
             ++ lia.
             ++ exists old. split; [exact Hf | right; lia].
          -- right. left. split; [exact Hsk|]. intros x Hx. apply HcovT, Hr, Hx.
          -- right. right. exact Hr.
        * intros y dy Hy. apply (I5 _ _ HI), Hsub, Hy.
      + (* visited: recorded at depth d, then processed *)
        inversion Hw; subst b. clear Hw.
        destruct (process fl g cf root c d (with_set k ((c, d) :: k_set k))) as [k1 kids1] eqn:Hp.
        inversion H1; subst k1 kids1. clear H1.
        destruct (process_spec _ _ _ _ _ _ _ _ _ Hp) as [Hset Hclean]. cbn [with_set k_set k_errs k_crash] in Hset, Hclean.
        assert (Hkids_path : forall y dy, In (y, dy) kids -> exists m, dy = Z.of_nat m /\ dpath y m /\ 0 < dy).
        { intros y dy Hy. unfold process in Hp.
          match type of Hp with (match ?h with _ => _ end) = _ => destruct h as [[[e'|] calls]|] end;
            inversion Hp; subst; try destruct Hy.
          apply in_map_iff in Hy. destruct Hy as (x & Hx & Hxin). inversion Hx; subst.
          exists (S n). split; [lia|]. split; [eapply dp_step; eassumption | lia]. }
        assert (Hfind_new : forall y dy, find (k_set k) y = Some dy ->
                  exists dy', find ((c, d) :: k_set k) y = Some dy' /\ (lim < 0 \/ dy' <= dy)).
        { intros y dy Hf. rewrite find_cons. destruct (N.eqb_spec y c) as [->|Hne].
          - exists d. split; [reflexivity|]. destruct Hfresh as [Hnone|(old & Hfo & Hlt & Hl0)]; [congruence|].
            rewrite Hfo in Hf. inversion Hf; subst. right. lia.
          - exists dy. split; [exact Hf | right; lia]. }
        assert (HcovT : forall x e, cov (k_set k) P x e -> cov ((c, d) :: k_set k) (kids ++ P0) x e).
        { intros x e. apply cov_transfer.
          - intros y dy e0 Hf Hl. destruct (Hfind_new y dy Hf) as (dy' & Hf' & Hle).
            right. left. exists dy'. split; [exact Hf'|]. destruct Hl as [Hl|Hl]; [left; exact Hl|].
            destruct Hle as [Hle|Hle]; [left; exact Hle | right; lia].
          - intros y d' e0 Hin0 Hpos Hl. destruct (Hsplit _ Hin0) as [Heq|Hin1].
            + injection Heq as Hy Hd'. subst y d'. right. left. exists d. split; [|exact Hl].
              rewrite find_cons, N.eqb_refl. reflexivity.
            + right. right. exists d'. repeat split; try assumption. apply in_or_app. right. exact Hin1. }
        constructor; rewrite ?Hset.
        * intros y dy Hy. apply in_app_or in Hy. destruct Hy as [Hy|Hy].
          -- destruct (Hkids_path y dy Hy) as (m & Hm & Hpm & _). exists m. auto.
          -- apply (I1 _ _ HI), Hsub, Hy.
        * intros y dy Hf. rewrite find_cons in Hf. destruct (N.eqb_spec y c) as [->|Hne].
          -- injection Hf as Hf. subst dy. exists n. split; [exact Hdn|]. split; [exact Hpath | exact Hwithin].
          -- apply (I2 _ _ HI y dy Hf).
        * intros [He Hc] y dy Hf x Hx. destruct (Hclean He Hc) as (He0 & Hc0 & Hk).
          rewrite find_cons in Hf. destruct (N.eqb_spec y c) as [->|Hne].
          -- injection Hf as Hf. subst dy. right. right. exists (d + 1). split; [|split; [right; lia | lia]].
             apply in_or_app. left. rewrite Hk. apply in_map_iff. exists x. split; [reflexivity | exact Hx].
          -- apply HcovT. apply (I3 _ _ HI (conj He0 Hc0) y dy Hf x Hx).
        * intros [He Hc]. destruct (Hclean He Hc) as (He0 & Hc0 & Hk).
          destruct (I4 _ _ HI (conj He0 Hc0)) as [Hr|[(Hsk & Hr)|(Hsk & d0 & Hf0 & Hl0)]].
          -- destruct (Hsplit _ Hr) as [Heq|Hr0]; [|left; apply in_or_app; right; exact Hr0].
             assert (Hcr : root = c) by congruence. assert (Hdz : d = 0) by congruence. clear Heq.
             right. right. split; [apply Hnot_skiproot; exact Hdz|]. rewrite Hcr.
             exists d. split; [rewrite find_cons, N.eqb_refl; reflexivity | right; lia].
          -- right. left. split; [exact Hsk|]. intros x Hx. apply HcovT, Hr, Hx.
          -- right. right. split; [exact Hsk|]. destruct (Hfind_new root d0 Hf0) as (d0' & Hf' & Hle).
             exists d0'. split; [exact Hf'|]. destruct Hl0 as [Hl0|Hl0]; [left; exact Hl0|].
             destruct Hle as [Hle|Hle]; [left; exact Hle | right; lia].
        * intros y dy Hy Hz. apply in_app_or in Hy. destruct Hy as [Hy|Hy].
          -- destruct (Hkids_path y dy Hy) as (_ & _ & _ & Hpos). lia.
          -- apply (I5 _ _ HI y dy); [apply Hsub, Hy | exact Hz].
  Qed.
End Walk.

(** ================= every schedule ================= *)
Section Sched.
  Variable fl : flags.
  Variable g : graph.
  Variable cf : cfg.
  Variable root : cid.
  Local Notation lim := (c_lim cf).

  Lemma inv_step : forall s i,
    Inv g cf root (fst s) (snd s) ->
    Inv g cf root (fst (step fl g cf root s i)) (snd (step fl g cf root s i)).
  Proof.
    intros [k P] i HI. unfold step. cbn [fst snd] in *.
    destruct (nth_error P i) as [[c d]|] eqn:Hn; [|exact HI].
    destruct (work fl g cf root c d k) as [b [k' kids]] eqn:Hw. cbn [fst snd].
    destruct (nth_error_split_in _ _ _ _ Hn) as [H1 H2].
    eapply inv_work; try eassumption. eapply nth_error_In, Hn.
  Qed.

  Lemma inv_run : forall is s,
    Inv g cf root (fst s) (snd s) ->
    let s' := fold_left (step fl g cf root) is s in
    Inv g cf root (fst s') (snd s').
  Proof.
    induction is as [|i is IH]; intros s HI; [exact HI|]. cbn [fold_left]. apply IH, inv_step, HI.
  Qed.

  (** what a clean state with nothing pending has visited *)
  Lemma inv_final : forall k,
    Inv g cf root k [] -> clean k ->
    forall c m, dpath g root c m -> within cf (Z.of_nat m) ->
      (c_skip_root cf = true /\ c = root /\ m = O) \/
      (exists d, find (k_set k) c = Some d /\ lle cf d (Z.of_nat m)).
  Proof.
    intros k HI Hcl c m Hp. induction Hp as [|p c n Hp IH Hc]; intros Hw.
    - destruct (I4 _ _ _ _ _ HI Hcl) as [[]|[(Hsk & _)|(Hsk & d0 & Hf & Hl)]].
      + left. auto.
      + right. exists d0. split; [exact Hf | exact Hl].
    - assert (Hwn : within cf (Z.of_nat n)).
      { destruct Hw as [Hw|Hw]; [left; exact Hw | right; lia]. }
      assert (Hcov : forall e, cov cf (k_set k) [] c e -> within cf e ->
                     exists dx, find (k_set k) c = Some dx /\ lle cf dx e).
      { intros e [Hn|[Hs|(d' & [] & _)]] Hwe; [contradiction | exact Hs]. }
      destruct (IH Hwn) as [(Hsk & -> & ->)|(dp & Hf & Hl)].
      + destruct (I4 _ _ _ _ _ HI Hcl) as [[]|[(_ & Hr)|(Hsk' & _)]]; [|congruence].
        right. apply (Hcov 1 (Hr c Hc)). exact Hw.
      + right. destruct (Hcov (dp + 1) (I3 _ _ _ _ _ HI Hcl p dp Hf c Hc)) as (dx & Hfx & Hlx).
        * destruct Hw as [Hw|Hw]; [left; exact Hw|]. destruct Hl as [Hl|Hl]; [left; exact Hl | right; lia].
        * exists dx. split; [exact Hfx|]. destruct Hlx as [Hlx|Hlx]; [left; exact Hlx|].
          destruct Hl as [Hl|Hl]; [left; exact Hl | right; lia].
  Qed.

  (** For EVERY schedule: if the walk ran to completion without an error, the
      final set maps exactly the nodes with a path within the limit to a path
      length - the shortest one when a limit is set. *)
  Theorem sched_complete : forall is k,
    run_sched fl g cf root is = (k, []) -> clean k ->
    (forall c d, find (k_set k) c = Some d ->
       exists n, d = Z.of_nat n /\ dpath g root c n /\ within cf d) /\
    (forall c m, dpath g root c m -> within cf (Z.of_nat m) ->
       (c_skip_root cf = true /\ c = root /\ m = O) \/
       (exists d, find (k_set k) c = Some d /\ lle cf d (Z.of_nat m))).
  Proof.
    intros is k Hr Hcl.
    pose proof (inv_run is (init_st root) (inv_init g cf root)) as HI.
    cbn zeta in HI. unfold run_sched in Hr. rewrite Hr in HI. cbn [fst snd] in HI.
    split; [apply (I2 _ _ _ _ _ HI) | apply inv_final; assumption].
  Qed.
End Sched.

(** ================= the sequential walk is the depth-first schedule ================= *)
Definition walk_children (rec : cid -> Z -> core -> vlog -> option (core * vlog * bool)) :=
  fix children (ls : list (cid * Z)) (k : core) (lg : vlog) : option (core * vlog * bool) :=
    match ls with
    | [] => Some (k, lg, false)
    | (x, dx) :: r =>
        match rec x dx k lg with
        | None => None
        | Some (k', lg', true) => Some (k', lg', true)
        | Some (k', lg', false) => children r k' lg'
        end
    end.

Lemma seqw_unfold : forall f fl g cf root c d k lg,
  seqw (S f) fl g cf root c d k lg =
  let '(b, (k1, kids)) := work fl g cf root c d k in
  let lg' := if c_skip_root cf && (d =? 0) then lg else lg ++ [(c, d, b)] in
  if k_crash k1 then Some (k1, lg', true) else
  match k_errs k1 with
  | _ :: _ => Some (k1, lg', true)
  | [] => walk_children (seqw f fl g cf root) kids k1 lg'
  end.
Proof. reflexivity. Qed.

Lemma repeat_fold : forall fl g cf root n1 n2 s,
  fold_left (step fl g cf root) (repeat O (n1 + n2)) s =
  fold_left (step fl g cf root) (repeat O n2) (fold_left (step fl g cf root) (repeat O n1) s).
Proof. intros. rewrite repeat_app, fold_left_app. reflexivity. Qed.

Lemma seq_sim : forall f fl g cf root c d k lg k' lg',
  seqw f fl g cf root c d k lg = Some (k', lg', false) ->
  (clean k -> clean k') /\
  forall P, exists n, fold_left (step fl g cf root) (repeat O n) (k, (c, d) :: P) = (k', P).
Proof.
  induction f as [|f IH]; intros fl g cf root c d k lg k' lg' H; [discriminate|].
  rewrite seqw_unfold in H.
  destruct (work fl g cf root c d k) as [b [k1 kids]] eqn:Hw.
  destruct (k_crash k1) eqn:Hc; [discriminate|].
  destruct (k_errs k1) as [|e0 er] eqn:He; [|discriminate].
  assert (Hinner : forall ls k0 lg0,
            walk_children (seqw f fl g cf root) ls k0 lg0 = Some (k', lg', false) ->
            (clean k0 -> clean k') /\
            forall P, exists n, fold_left (step fl g cf root) (repeat O n) (k0, ls ++ P) = (k', P)).
  { induction ls as [|[x dx] r IHls]; intros k0 lg0 Hch.
    - cbn in Hch. inversion Hch; subst. split; [auto|]. intros P. exists O. reflexivity.
    - cbn [walk_children] in Hch.
      destruct (seqw f fl g cf root x dx k0 lg0) as [[[k2 lg2] [|]]|] eqn:Hs; try discriminate.
      destruct (IH _ _ _ _ _ _ _ _ _ _ Hs) as [Hcl1 Hsim1].
      destruct (IHls _ _ Hch) as [Hcl2 Hsim2].
      split; [auto|]. intros P.
      destruct (Hsim1 (r ++ P)) as [n1 Hn1]. destruct (Hsim2 P) as [n2 Hn2].
      exists (n1 + n2)%nat. rewrite repeat_fold. cbn [app]. rewrite Hn1. exact Hn2. }
  destruct (Hinner _ _ _ H) as [Hcl Hsim].
  split.
  - intros _. apply Hcl. split; assumption.
  - intros P. destruct (Hsim P) as [n Hn]. exists (S n). cbn [repeat fold_left].
    unfold step at 2. cbn [snd fst nth_error]. rewrite Hw. cbn [remove_nth]. exact Hn.
Qed.

(** a sequential walk that returns nil is a run of the transition system (the
    schedule that always takes the newest pending item) ending clean with nothing pending *)
Lemma seq_is_schedule : forall fuel fl g cf root k' lg',
  seqw fuel fl g cf root root 0 init_core [] = Some (k', lg', false) ->
  clean k' /\ exists is, run_sched fl g cf root is = (k', []).
Proof.
  intros fuel fl g cf root k' lg' H. destruct (seq_sim _ _ _ _ _ _ _ _ _ _ _ H) as [Hcl Hsim].
  split; [apply Hcl; split; reflexivity|].
  destruct (Hsim []) as [n Hn]. exists (repeat O n). exact Hn.
Qed.

(** ================= callbacks and provider, for every schedule ================= *)
Definition call_cid (h : hcall) : cid := match h with CMissing c => c | CError c _ => c end.
Definition is_missing_call (h : hcall) : bool := match h with CMissing _ => true | _ => false end.

Lemma apply1_calls : forall h c e e' l,
  apply1 h c e = (e', l) ->
  (forall x, In x l -> call_cid x = c) /\
  (is_notfound e = false -> is_notfound e' = false /\ forall x, In x l -> is_missing_call x = false).
Proof.
  intros h c e e' l H. destruct h as [| | |p]; cbn [apply1] in H; inversion H; subst; clear H.
  - split; [intros x []|]. intros _. split; [reflexivity | intros x []].
  - split; [intros x []|]. intros Hn. rewrite Hn. split; [first [exact Hn | reflexivity] | intros x []].
  - split.
    + intros x Hx. destruct (is_notfound e'); [destruct Hx as [<-|[]]; reflexivity | destruct Hx].
    + intros Hn. split; [exact Hn|]. rewrite Hn. intros x [].
  - split; [intros x [<-|[]]; reflexivity|]. intros Hn. split.
    + destruct p; [reflexivity | exact Hn | destruct e; reflexivity].
    + intros x [<-|[]]. reflexivity.
Qed.

Lemma eval_calls : forall fuel top x c e e' l,
  eval fuel top x c e = Some (e', l) ->
  (forall y, In y l -> call_cid y = c) /\
  (is_notfound e = false -> is_notfound e' = false /\ forall y, In y l -> is_missing_call y = false).
Proof.
  induction fuel as [|f IH]; intros top x c e e' l H; [discriminate|].
  destruct x as [h|h s p]; cbn [eval] in H.
  - inversion H. eapply apply1_calls; eassumption.
  - destruct (eval f top (if s then top else p) c e) as [[e1 l1]|] eqn:He; [|discriminate].
    destruct (apply1 h c e1) as [e2 l2] eqn:Ha. inversion H; subst; clear H.
    destruct (IH _ _ _ _ _ _ He) as [Hc1 Hn1]. destruct (apply1_calls _ _ _ _ _ Ha) as [Hc2 Hn2].
    split.
    + intros y Hy. apply in_app_or in Hy. destruct Hy; auto.
    + intros Hn. destruct (Hn1 Hn) as [Hn1' Hm1]. destruct (Hn2 Hn1') as [Hn2' Hm2].
      split; [exact Hn2'|]. intros y Hy. apply in_app_or in Hy. destruct Hy; auto.
Qed.

Definition good_call (g : graph) (h : hcall) : Prop :=
  match h with
  | CMissing c => n_fail (lookup g c) = Some ENotFound
  | CError c _ => n_fail (lookup g c) <> None
  end.

Lemma process_obs : forall fl g cf root c d k k' kids,
  f_parallel_root_arg fl = false ->
  process fl g cf root c d k = (k', kids) ->
  (exists calls, k_hcalls k' = k_hcalls k ++ calls /\ forall x, In x calls -> good_call g x) /\
  (k_prov k' = k_prov k \/ (c_provider cf = true /\ k_prov k' = k_prov k ++ [c])) /\
  (clean k' -> c_provider cf = true -> k_prov k' = k_prov k ++ [c]).
Proof.
  intros fl g cf root c d k k' kids Hfl H. unfold process in H. rewrite Hfl in H. cbn [andb] in H.
  assert (Hcalls : forall e h r calls, n_fail (lookup g c) = Some e ->
            eval (S (hdepth h)) h h c (Some e) = Some (r, calls) -> forall x, In x calls -> good_call g x).
  { intros e h r calls Hf Hev x Hx. destruct (eval_calls _ _ _ _ _ _ _ Hev) as [Hc Hn].
    specialize (Hc x Hx). destruct x as [y|y ey]; cbn [call_cid] in Hc; subst y; cbn [good_call].
    - rewrite Hf. destruct e; [reflexivity | | |];
        (destruct (Hn eq_refl) as [_ Hm]; specialize (Hm _ Hx); discriminate).
    - rewrite Hf. discriminate. }
  destruct (n_fail (lookup g c)) as [e|] eqn:Hf.
  - destruct (install (f_handler_selfref fl) (c_handlers cf)) as [h|] eqn:Hi.
    + destruct (eval (S (hdepth h)) h h c (Some e)) as [[[e'|] calls]|] eqn:Hev; inversion H; subst; cbn [k_hcalls k_prov k_errs k_crash].
      * split; [exists calls; split; [reflexivity | eapply Hcalls; eauto]|]. split; [left; reflexivity|].
        intros [He _]. apply app_eq_nil in He. destruct He as [_ He]. discriminate.
      * split; [exists calls; split; [reflexivity | eapply Hcalls; eauto]|].
        destruct (c_provider cf); (split; [first [left; reflexivity | right; split; reflexivity] | intros _ Hpv; first [reflexivity | discriminate]]).
      * split; [exists []; split; [rewrite app_nil_r; reflexivity | intros x []]|]. split; [left; reflexivity|].
        intros [_ Hc]. discriminate.
    + inversion H; subst; cbn [k_hcalls k_prov k_errs k_crash].
      split; [exists []; split; [rewrite app_nil_r; reflexivity | intros x []]|]. split; [left; reflexivity|].
      intros [He _]. apply app_eq_nil in He. destruct He as [_ He]. discriminate.
  - inversion H; subst; cbn [k_hcalls k_prov k_errs k_crash].
    split; [exists []; split; [rewrite app_nil_r; reflexivity | intros x []]|].
    destruct (c_provider cf); (split; [first [left; reflexivity | right; split; reflexivity] | intros _ Hpv; first [reflexivity | discriminate]]).
Qed.

Section Callbacks.
  Variable fl : flags.
  Variable g : graph.
  Variable cf : cfg.
  Variable root : cid.
  Hypothesis Hfl : f_parallel_root_arg fl = false.

  Record Kinv (k : core) (P : list (cid * Z)) : Prop := {
    K0 : forall x, In x (k_hcalls k) -> good_call g x;
    K1 : forall c, In c (k_prov k) ->
           (exists d, find (k_set k) c = Some d) \/ (c_skip_root cf = true /\ c = root);
    K2 : clean k -> c_provider cf = true -> forall c d, find (k_set k) c = Some d -> In c (k_prov k);
    K3 : clean k -> c_provider cf = true -> c_skip_root cf = true -> In (root, 0) P \/ In root (k_prov k)
  }.

  Lemma kinv_work : forall k P c d P0 b k' kids,
    Inv g cf root k P -> Kinv k P -> In (c, d) P ->
    (forall y, In y P -> y = (c, d) \/ In y P0) ->
    work fl g cf root c d k = (b, (k', kids)) ->
    Kinv k' (kids ++ P0).
  Proof.
    intros k P c d P0 b k' kids HI HK Hin Hsplit Hw. unfold work in Hw.
    destruct (c_skip_root cf && (d =? 0)) eqn:Hskip.
    - apply andb_true_iff in Hskip. destruct Hskip as [Hsk Hz]. apply Z.eqb_eq in Hz.
      pose proof (I5 _ _ _ _ _ HI c d Hin Hz) as Hc. subst c.
      destruct (process fl g cf root root d k) as [k1 kids1] eqn:Hp. inversion Hw; subst b k1 kids1. clear Hw.
      destruct (process_spec _ _ _ _ _ _ _ _ _ Hp) as [Hset Hclean].
      destruct (process_obs _ _ _ _ _ _ _ _ _ Hfl Hp) as ((calls & Hcalls & Hgood) & Hprov & Hprovc).
      constructor.
      + rewrite Hcalls. intros x Hx. apply in_app_or in Hx. destruct Hx; [apply (K0 _ _ HK) | apply Hgood]; assumption.
      + rewrite Hset. intros c Hc. destruct Hprov as [Hpr|(_ & Hpr)]; rewrite Hpr in Hc.
        * apply (K1 _ _ HK), Hc.
        * apply in_app_or in Hc. destruct Hc as [Hc|[<-|[]]]; [apply (K1 _ _ HK), Hc | right; auto].
      + rewrite Hset. intros [He Hcr] Hpv c dc Hf. destruct (Hclean He Hcr) as (He0 & Hc0 & _).
        rewrite (Hprovc (conj He Hcr) Hpv). apply in_or_app. left. apply (K2 _ _ HK (conj He0 Hc0) Hpv c dc Hf).
      + intros Hcl Hpv _. right. rewrite (Hprovc Hcl Hpv). apply in_or_app. right. left. reflexivity.
    - destruct (visit (c_lim cf) (k_set k) c d) as [b0 set'] eqn:Hv.
      destruct (visit_spec _ _ _ _ _ _ Hv) as [(Hb & Hs' & _)|(Hb & Hs' & _ & Hfresh)]; subst b0 set'.
      + inversion Hw; subst b k' kids. clear Hw. cbn [app].
        constructor; cbn [with_set k_set k_hcalls k_prov k_errs k_crash].
        * apply (K0 _ _ HK).
        * apply (K1 _ _ HK).
        * apply (K2 _ _ HK).
        * intros Hcl Hpv Hsk. destruct (K3 _ _ HK Hcl Hpv Hsk) as [Hr|Hr]; [|right; exact Hr].
          destruct (Hsplit _ Hr) as [Heq|Hr0]; [|left; exact Hr0].
          injection Heq as Hc Hd. subst d. rewrite Hsk in Hskip. discriminate.
      + destruct (process fl g cf root c d (with_set k ((c, d) :: k_set k))) as [k1 kids1] eqn:Hp.
        inversion Hw; subst b k1 kids1. clear Hw.
        destruct (process_spec _ _ _ _ _ _ _ _ _ Hp) as [Hset Hclean].
        destruct (process_obs _ _ _ _ _ _ _ _ _ Hfl Hp) as ((calls & Hcalls & Hgood) & Hprov & Hprovc).
        cbn [with_set k_set k_hcalls k_prov k_errs k_crash] in *.
        assert (Hfind_new : forall y dy, find (k_set k) y = Some dy -> exists dy', find ((c, d) :: k_set k) y = Some dy').
        { intros y dy Hf. rewrite find_cons. destruct (y =? c)%N; eauto. }
        constructor.
        * rewrite Hcalls. intros x Hx. apply in_app_or in Hx. destruct Hx; [apply (K0 _ _ HK) | apply Hgood]; assumption.
        * rewrite Hset. intros y Hy. destruct Hprov as [Hpr|(_ & Hpr)]; rewrite Hpr in Hy.
          -- destruct (K1 _ _ HK y Hy) as [(dy & Hf)|Hr]; [left; eapply Hfind_new, Hf | right; exact Hr].
          -- apply in_app_or in Hy. destruct Hy as [Hy|[<-|[]]].
             ++ destruct (K1 _ _ HK y Hy) as [(dy & Hf)|Hr]; [left; eapply Hfind_new, Hf | right; exact Hr].
             ++ left. exists d. rewrite find_cons, N.eqb_refl. reflexivity.
        * rewrite Hset. intros [He Hcr] Hpv y dy Hf. destruct (Hclean He Hcr) as (He0 & Hc0 & _).
          rewrite (Hprovc (conj He Hcr) Hpv). apply in_or_app.
          rewrite find_cons in Hf. destruct (N.eqb_spec y c) as [->|Hne]; [right; left; reflexivity|].
          left. apply (K2 _ _ HK (conj He0 Hc0) Hpv y dy Hf).
        * intros [He Hcr] Hpv Hsk. destruct (Hclean He Hcr) as (He0 & Hc0 & _).
          destruct (K3 _ _ HK (conj He0 Hc0) Hpv Hsk) as [Hr|Hr].
          -- destruct (Hsplit _ Hr) as [Heq|Hr0]; [|left; apply in_or_app; right; exact Hr0].
             injection Heq as Hc Hd. subst d. rewrite Hsk in Hskip. discriminate.
          -- right. rewrite (Hprovc (conj He Hcr) Hpv). apply in_or_app. left. exact Hr.
  Qed.

  Lemma kinv_run : forall is s,
    Inv g cf root (fst s) (snd s) -> Kinv (fst s) (snd s) ->
    let s' := fold_left (step fl g cf root) is s in
    Inv g cf root (fst s') (snd s') /\ Kinv (fst s') (snd s').
  Proof.
    induction is as [|i is IH]; intros s HI HK; [split; assumption|]. cbn [fold_left].
    apply IH; [apply inv_step, HI|].
    destruct s as [k P]. unfold step. cbn [fst snd] in *.
    destruct (nth_error P i) as [[c d]|] eqn:Hn; [|exact HK].
    destruct (work fl g cf root c d k) as [b [k' kids]] eqn:Hw. cbn [fst snd].
    destruct (nth_error_split_in _ _ _ _ Hn) as [H1 H2].
    eapply kinv_work; try eassumption. eapply nth_error_In, Hn.
  Qed.

  Lemma kinv_init : Kinv init_core [(root, 0)].
  Proof.
    constructor; cbn.
    - intros x [].
    - intros c [].
    - intros _ _ c d H. discriminate.
    - intros _ _ _. left. left. reflexivity.
  Qed.

  Lemma callbacks_all_schedules : forall is k P,
    run_sched fl g cf root is = (k, P) ->
    (forall x, In x (k_hcalls k) -> good_call g x) /\
    (forall c, In c (k_prov k) -> (exists d, find (k_set k) c = Some d) \/ (c_skip_root cf = true /\ c = root)) /\
    (P = [] -> clean k -> c_provider cf = true ->
       forall c, In c (k_prov k) <-> (exists d, find (k_set k) c = Some d) \/ (c_skip_root cf = true /\ c = root)).
  Proof.
    intros is k P Hr.
    destruct (kinv_run is (init_st root) (inv_init g cf root) kinv_init) as [HI HK].
    cbn zeta in HI, HK. unfold run_sched in Hr. rewrite Hr in HI, HK. cbn [fst snd] in HI, HK.
    split; [apply (K0 _ _ HK)|]. split; [apply (K1 _ _ HK)|].
    intros -> Hcl Hpv c. split; [apply (K1 _ _ HK)|].
    intros [(d & Hf)|(Hsk & ->)]; [eapply (K2 _ _ HK); eassumption|].
    destruct (K3 _ _ HK Hcl Hpv Hsk) as [[]|Hr0]. exact Hr0.
  Qed.
End Callbacks.

(** ================= the sequential walk's fuel ================= *)
Definition indom (s : dset) (c : cid) : bool := match find s c with Some _ => true | None => false end.

Definition unvis (g : graph) (s : dset) : nat :=
  length (filter (fun p => negb (indom s (fst p))) g).

Lemma filter_length_le : forall (A : Type) (f h : A -> bool) (l : list A),
  (forall x, In x l -> f x = true -> h x = true) -> (length (filter f l) <= length (filter h l))%nat.
Proof.
  intros A f h l. induction l as [|a l IH]; intros H; [apply le_n|]. cbn [filter].
  assert (IH' : (length (filter f l) <= length (filter h l))%nat).
  { apply IH. intros x Hx. apply H. right. exact Hx. }
  destruct (f a) eqn:Hf.
  - rewrite (H a (or_introl eq_refl) Hf). cbn [length]. lia.
  - destruct (h a); cbn [length]; lia.
Qed.

Lemma filter_length_lt : forall (A : Type) (f h : A -> bool) (l : list A) a,
  (forall x, In x l -> f x = true -> h x = true) -> In a l -> f a = false -> h a = true ->
  (length (filter f l) < length (filter h l))%nat.
Proof.
  intros A f h l. induction l as [|b l IH]; intros a H Hin Hfa Hha; [destruct Hin|]. cbn [filter].
  assert (Hle : (length (filter f l) <= length (filter h l))%nat).
  { apply filter_length_le. intros x Hx. apply H. right. exact Hx. }
  destruct Hin as [->|Hin].
  - rewrite Hfa, Hha. cbn [length]. lia.
  - assert (Hlt : (length (filter f l) < length (filter h l))%nat).
    { apply (IH a); try assumption. intros x Hx. apply H. right. exact Hx. }
    destruct (f b) eqn:Hf.
    + rewrite (H b (or_introl eq_refl) Hf). cbn [length]. lia.
    + destruct (h b); cbn [length]; lia.
Qed.

Lemma unvis_mono : forall g s s',
  (forall x, indom s x = true -> indom s' x = true) -> (unvis g s' <= unvis g s)%nat.
Proof.
  intros g s s' H. unfold unvis. apply filter_length_le. intros p _ Hp.
  apply negb_true_iff in Hp. apply negb_true_iff.
  destruct (indom s (fst p)) eqn:E; [|reflexivity]. rewrite (H _ E) in Hp. discriminate.
Qed.

Lemma unvis_lt : forall g s s' c n,
  (forall x, indom s x = true -> indom s' x = true) ->
  In (c, n) g -> indom s c = false -> indom s' c = true -> (unvis g s' < unvis g s)%nat.
Proof.
  intros g s s' c n H Hin Hs Hs'. unfold unvis. apply filter_length_lt with (a := (c, n)); cbn [fst].
  - intros p _ Hp. apply negb_true_iff in Hp. apply negb_true_iff.
    destruct (indom s (fst p)) eqn:E; [|reflexivity]. rewrite (H _ E) in Hp. discriminate.
  - exact Hin.
  - rewrite Hs'. reflexivity.
  - rewrite Hs. reflexivity.
Qed.

Lemma lookup_absent : forall g c, (forall n, ~ In (c, n) g) -> lookup g c = missing_node.
Proof.
  induction g as [|[c' n'] r IH]; intros c H; [reflexivity|]. cbn [lookup].
  destruct (N.eqb_spec c c') as [->|Hne].
  - exfalso. apply (H n'). left. reflexivity.
  - apply IH. intros n Hin. apply (H n). right. exact Hin.
Qed.

Lemma lookup_in_or_missing : forall g c, (exists n, In (c, n) g) \/ ok_links g c = [].
Proof.
  intros g c. induction g as [|[c' n'] r IH].
  - right. reflexivity.
  - destruct (N.eqb_spec c c') as [->|Hne].
    + left. exists n'. left. reflexivity.
    + destruct IH as [(n & Hin)|Hk]; [left; exists n; right; exact Hin|].
      right. unfold ok_links in *. cbn [lookup]. destruct (N.eqb_spec c c'); [contradiction | exact Hk].
Qed.

(** kids of [process]: at depth d+1, and none unless the node's links are followed *)
Lemma process_kids : forall fl g cf root c d k k' kids,
  process fl g cf root c d k = (k', kids) ->
  k_set k' = k_set k /\ (kids = [] \/ kids = map (fun x => (x, d + 1)) (ok_links g c)).
Proof.
  intros fl g cf root c d k k' kids H. unfold process in H.
  match type of H with (match ?h with _ => _ end) = _ => destruct h as [[[e'|] calls]|] end;
    inversion H; subst; cbn [k_set]; auto.
Qed.

Section Fuel.
  Variable fl : flags.
  Variable g : graph.
  Variable cf : cfg.
  Variable root : cid.
  Local Notation lim := (c_lim cf).

  (** the set only grows along a sequential walk *)
  Lemma work_dom : forall c d k b k' kids,
    work fl g cf root c d k = (b, (k', kids)) ->
    forall x, indom (k_set k) x = true -> indom (k_set k') x = true.
  Proof.
    intros c d k b k' kids Hw x Hx. unfold work in Hw.
    destruct (c_skip_root cf && (d =? 0)).
    - destruct (process fl g cf root c d k) as [k1 kids1] eqn:Hp. inversion Hw; subst.
      destruct (process_kids _ _ _ _ _ _ _ _ _ Hp) as [Hs _]. rewrite Hs. exact Hx.
    - destruct (visit (c_lim cf) (k_set k) c d) as [b0 set'] eqn:Hv.
      assert (Hset' : indom set' x = true).
      { destruct (visit_spec _ _ _ _ _ _ Hv) as [(_ & Hs0 & _)|(_ & Hs0 & _)]; subst set'; [exact Hx|].
        unfold indom in *. rewrite find_cons. destruct (x =? c)%N; [reflexivity | exact Hx]. }
      destruct b0.
      + destruct (process fl g cf root c d (with_set k set')) as [k1 kids1] eqn:Hp. inversion Hw; subst.
        destruct (process_kids _ _ _ _ _ _ _ _ _ Hp) as [Hs _]. rewrite Hs. exact Hset'.
      + inversion Hw; subst. exact Hset'.
  Qed.

  Lemma seqw_dom : forall f c d k lg k' lg' a,
    seqw f fl g cf root c d k lg = Some (k', lg', a) ->
    forall x, indom (k_set k) x = true -> indom (k_set k') x = true.
  Proof.
    induction f as [|f IH]; intros c d k lg k' lg' a H x Hx; [discriminate|].
    rewrite seqw_unfold in H.
    destruct (work fl g cf root c d k) as [b [k1 kids]] eqn:Hw.
    pose proof (work_dom _ _ _ _ _ _ Hw x Hx) as Hx1.
    destruct (k_crash k1); [inversion H; subst; exact Hx1|].
    destruct (k_errs k1); [|inversion H; subst; exact Hx1].
    clear Hw. revert k1 H Hx1. generalize (if c_skip_root cf && (d =? 0) then lg else lg ++ [(c, d, b)]).
    induction kids as [|[y dy] r IHk]; intros lg0 k1 H Hx1.
    - cbn in H. inversion H; subst. exact Hx1.
    - cbn [walk_children] in H.
      destruct (seqw f fl g cf root y dy k1 lg0) as [[[k2 lg2] [|]]|] eqn:Hs; try discriminate.
      + inversion H; subst. eapply IH; eassumption.
      + eapply IHk; [exact H|]. eapply IH; eassumption.
  Qed.

  (** enough fuel for the recursion at depth [d] in state [k] *)
  Definition enough (f : nat) (d : Z) (k : core) : Prop :=
    (0 <= lim /\ (Z.to_nat (lim + 1 - d) < f)%nat) \/
    (lim < 0 /\ (unvis g (k_set k) + (if (d =? 0)%Z then 1 else 0) < f)%nat).

  Lemma seqw_total : forall f c d k lg,
    0 <= d -> enough f d k -> exists r, seqw f fl g cf root c d k lg = Some r.
  Proof.
    induction f as [|f IH]; intros c d k lg Hd He.
    { destruct He as [(_ & He)|(_ & He)]; lia. }
    rewrite seqw_unfold.
    destruct (work fl g cf root c d k) as [b [k1 kids]] eqn:Hw.
    destruct (k_crash k1); [eexists; reflexivity|].
    destruct (k_errs k1); [|eexists; reflexivity].
    (* what [work] tells about the children *)
    assert (Hkids : kids = [] \/
              (kids = map (fun x => (x, d + 1)) (ok_links g c) /\ enough f (d + 1) k1)).
    { unfold work in Hw. destruct (c_skip_root cf && (d =? 0)) eqn:Hsk.
      - apply andb_true_iff in Hsk. destruct Hsk as [_ Hz]. apply Z.eqb_eq in Hz. subst d.
        destruct (process fl g cf root c 0 k) as [k2 kids2] eqn:Hp. inversion Hw; subst.
        destruct (process_kids _ _ _ _ _ _ _ _ _ Hp) as [Hs [-> | ->]]; [left; reflexivity|].
        right. split; [reflexivity|]. unfold enough in *. rewrite Hs.
        destruct He as [(Hl & He)|(Hl & He)]; [left; split; [exact Hl|lia] | right; split; [exact Hl|]].
        change (0 =? 0) with true in He. change (0 + 1 =? 0) with false. cbn iota in *. lia.
      - destruct (visit (c_lim cf) (k_set k) c d) as [b0 set'] eqn:Hv.
        destruct (visit_spec _ _ _ _ _ _ Hv) as [(Hb0 & Hs0 & _)|(Hb0 & Hs0 & Hwi & Hfresh)]; subst b0 set'.
        + inversion Hw; subst. left. reflexivity.
        + destruct (process fl g cf root c d (with_set k ((c, d) :: k_set k))) as [k2 kids2] eqn:Hp.
          inversion Hw; subst.
          destruct (process_kids _ _ _ _ _ _ _ _ _ Hp) as [Hs [-> | ->]]; [left; reflexivity|].
          cbn [with_set k_set] in Hs.
          destruct (lookup_in_or_missing g c) as [(n & Hin)|Hnone]; [|left; rewrite Hnone; reflexivity].
          right. split; [reflexivity|]. unfold enough in *. rewrite Hs.
          destruct He as [(Hl & He)|(Hl & He)].
          * left. split; [exact Hl|]. destruct Hwi as [Hwi|Hwi]; lia.
          * right. split; [exact Hl|].
            assert (Hne : (d + 1 =? 0) = false) by (apply Z.eqb_neq; lia). rewrite Hne.
            assert (Hlt : (unvis g ((c, d) :: k_set k) < unvis g (k_set k))%nat).
            { apply unvis_lt with (c := c) (n := n); try assumption.
              - intros x Hx. unfold indom in *. rewrite find_cons. destruct (x =? c)%N; [reflexivity | exact Hx].
              - unfold indom. destruct Hfresh as [->|(old & _ & _ & Hl0)]; [reflexivity | lia].
              - unfold indom. rewrite find_cons, N.eqb_refl. reflexivity. }
            destruct (d =? 0); lia. }
    destruct Hkids as [->|[-> Hen]]; [eexists; reflexivity|].
    assert (Hd1 : 0 <= d + 1) by lia.
    clear Hw. revert Hen. generalize (if c_skip_root cf && (d =? 0) then lg else lg ++ [(c, d, b)]).
    revert k1. induction (ok_links g c) as [|y r IHr]; intros k1 lg0 Hen; [eexists; reflexivity|].
    cbn [map walk_children].
    destruct (IH y (d + 1) k1 lg0 Hd1 Hen) as [[[k2 lg2] a] Hs]. rewrite Hs.
    destruct a; [eexists; reflexivity|].
    apply IHr. unfold enough in *. destruct Hen as [Hen|(Hl & Hen)]; [left; exact Hen|].
    right. split; [exact Hl|].
    pose proof (unvis_mono g (k_set k1) (k_set k2) (seqw_dom _ _ _ _ _ _ _ _ Hs)). lia.
  Qed.

  Lemma fuel_seq_enough : exists r, seqw (fuel_seq g cf) fl g cf root root 0 init_core [] = Some r.
  Proof.
    apply seqw_total; [lia|]. unfold enough, fuel_seq.
    destruct (c_lim cf <? 0) eqn:E.
    - apply Z.ltb_lt in E. right. split; [exact E|]. cbn [init_core k_set].
      assert (Hall : forall l : graph, (length (filter (fun p => negb (indom [] (fst p))) l) <= length l)%nat).
      { induction l as [|a l IH]; [apply le_n|]. cbn [filter].
        destruct (negb (indom [] (fst a))); cbn [length]; lia. }
      pose proof (Hall g) as Hg. fold (unvis g []) in Hg.
      change (0 =? 0) with true. cbn iota. lia.
    - apply Z.ltb_ge in E. left. split; [exact E|]. lia.
  Qed.
End Fuel.
