(** C02, concurrent part, Bloom layer: for ALL interleavings, while the filter
    is active every stored key is in the filter or has a Put in flight that will
    add it; consequences and the two refutations for the code as it is today. *)
From Coq Require Import List ZArith Bool NArith Arith PeanoNat Lia.
From V Require Import lib.Verdict model.M_C02 proofs.P_C02_seq proofs.P_C02_conc.
Import ListNotations.

(** [p] still has a filter add for [k] to perform, and it will land in the live
    filter ([g] = generation of the live filter) *)
Definition pend (g : nat) (p : pc) (k : key) : Prop :=
  match p with
  | SPost (SKPut _) k' true | TUpd (SKPut _) k' true | TUnlock (SKPut _) k' ROk | BLoad k' => k' = k
  | BAdd k' g' => k' = k /\ g' = g
  | MSPost ks _ true | MUpd ks _ _ | MUnlock ks _ ROk => In k ks
  | MLoad todo => In k todo
  | MAdd todo k' g' => In k todo \/ (k' = k /\ g' = g)
  | _ => False
  end.

Lemma pend_window g p k : pend g p k -> in_put_window p = true.
Proof.
  destruct p; cbn [pend in_put_window]; try tauto; try reflexivity;
    repeat match goal with
           | |- context [match ?x with _ => _ end] => destruct x; try tauto; try reflexivity
           end.
Qed.

Definition wfb (p : pc) : Prop :=
  match p with
  | MQuery ks _ todo good => incl todo ks /\ incl good ks
  | MLock ks _ locked todo => incl locked ks /\ incl todo ks
  | MSPre ks _ good | MSPost ks good _ => incl good ks
  | _ => True
  end.

Definition is_swap (p : pc) : Prop := exists n c, p = RSwap n c.

Section Bloom.
Variable cf : cfg.
Variable fl : flags.
Variable pos : key -> N.
Variable sz : key -> Z.

Notation tstep1 := (tstep1 cf fl pos sz).
Notation tstep := (tstep cf fl pos sz).
Notation lstep := (lstep cf fl pos sz).
Notation lrun := (lrun cf fl pos sz).

Ltac step_cases H :=
  unfold M_C02.tstep1 in H; cbn [t_pc t_ops t_res] in H;
  repeat (match type of H with
          | context [match ?x with _ => _ end] =>
              let E := fresh "E" in destruct x eqn:E; try discriminate H
          end);
  try discriminate H;
  injection H as <- <-.

(** [k] is covered: in the filter, still to be delivered by the running
    enumeration, or about to be added by a Put in flight *)
Definition cov (s : cst) (rem : list key) (k : key) : Prop :=
  bsub (pos k) (g_filt (g_sh s)) = true \/ In k rem \/ exists t, pend (g_gen (g_sh s)) (pcof s t) k.

Definition build_cov (s : cst) (p : pc) : Prop :=
  match p with
  | RQPost _ _ rem | RNext _ _ _ rem => forall k, mem k (g_store (g_sh s)) = true -> cov s rem k
  | RActivate => forall k, mem k (g_store (g_sh s)) = true -> cov s [] k
  (* repaired hasCached: a reader that saw [active] after loading the filter may
     trust that filter for as long as it stays the live one *)
  | BTest _ _ g => g = g_gen (g_sh s) -> forall k, mem k (g_store (g_sh s)) = true -> cov s [] k
  | _ => True
  end.

(** a loaded filter generation is never ahead of the live one *)
Definition gen_ok (cur : nat) (p : pc) : Prop :=
  match p with BActiveR _ _ g | BTest _ _ g => g <= cur | _ => True end.

Record BInv (s : cst) : Prop := {
  b_mu : forall t1 t2, holds_mu (pcof s t1) = true -> holds_mu (pcof s t2) = true -> t1 = t2;
  b_swap : forall t, is_swap (pcof s t) -> g_active (g_sh s) = false;
  b_active : g_active (g_sh s) = true -> forall k, mem k (g_store (g_sh s)) = true -> cov s [] k;
  b_build : forall t, build_cov s (pcof s t);
  b_wf : forall t, wfb (pcof s t);
  b_gen : forall t, gen_ok (g_gen (g_sh s)) (pcof s t)
}.

(** what one step does, as far as the Bloom layer is concerned *)
Record bloom_facts (s : cst) (t : tid) (p p' : pc) (h h' : shared) : Prop := {
  bf_mu : holds_mu p' = true -> holds_mu p = true \/ mu_free s t = true;
  bf_wf : wfb p -> wfb p';
  bf_swap : is_swap p ->
            g_active h' = g_active h /\ g_store h' = g_store h /\ ~ is_swap p' /\
            match p' with RQPost _ _ _ | RNext _ _ _ _ | RActivate | BTest _ _ _ => False | _ => True end /\
            g_gen h' = S (g_gen h);
  bf_genle : g_gen h <= g_gen h';
  bf_genok : gen_ok (g_gen h) p -> gen_ok (g_gen h') p';
  bf_gen : ~ is_swap p -> g_gen h' = g_gen h /\
                          forall q, bsub q (g_filt h) = true -> bsub q (g_filt h') = true;
  bf_active : g_active h' = g_active h \/ g_active h' = false \/
              (p = RActivate /\ (d_early fl = true \/ no_put_window s t = true));
  bf_toswap : is_swap p' -> g_active h' = false;
  bf_store : wfb p -> forall k, mem k (g_store h') = true ->
                                mem k (g_store h) = true \/ pend (g_gen h') p' k;
  bf_pend : ~ is_swap p -> forall k, pend (g_gen h) p k ->
                                     pend (g_gen h') p' k \/ bsub (pos k) (g_filt h') = true;
  bf_build :
    match p' with
    | RQPost _ _ rem => rem = g_store h' /\ ~ is_swap p
    | RNext _ _ _ rem' =>
        (exists n c, p = RQPost n c rem') \/
        (exists n c i k, p = RNext n c i (k :: rem') /\ bsub (pos k) (g_filt h') = true)
    | RActivate => exists n c i, p = RNext n c i []
    | BTest a k g => p = BActiveR a k g /\ g_active h = true
    | _ => True
    end
}.

Lemma incl_app_single {A} (l : list A) k ks : incl l ks -> In k ks -> incl (l ++ [k]) ks.
Proof. intros Hl Hk x Hx. apply in_app_iff in Hx as [Hx|[<-|[]]]; auto. Qed.

Lemma incl_sort_dedup l ks : incl l ks -> incl (sort_dedup l) ks.
Proof.
  intros H x Hx. apply H. apply mem_true_iff. rewrite <- mem_sort_dedup. now apply mem_true_iff.
Qed.

Lemma sk_store_put_grows f k store k1 :
  mem k1 (fst (sk_store (SKPut f) k store)) = true ->
  mem k1 store = true \/ (k1 = k /\ snd (sk_store (SKPut f) k store) = true).
Proof.
  cbn [sk_store]. destruct (mem k store) eqn:Hm; cbn [fst snd]; [auto|].
  destruct f; cbn [fst snd]; [auto|]. rewrite mem_insert.
  destruct (k1 =? k) eqn:He; cbn [orb]; [|auto]. apply Nat.eqb_eq in He. auto.
Qed.

Lemma sk_store_other_shrinks a k store k1 :
  (forall f, a <> SKPut f) -> mem k1 (fst (sk_store a k store)) = true -> mem k1 store = true.
Proof.
  intros Hn. destruct a as [rk|f|f]; cbn [sk_store fst]; [auto|now destruct (Hn f)|].
  destruct (negb (mem k store)); [auto|]. destruct f; cbn [fst]; [auto|].
  rewrite mem_remove. intros H. now apply andb_true_iff in H.
Qed.

Lemma step_bloom s t th h' th' :
  c_bloom cf = true ->
  tstep1 s t th = Some (h', th') ->
  bloom_facts s t (t_pc th) (t_pc th') (g_sh s) h'.
Proof.
  intros Hbl H.
  destruct th as [ops p res]. cbn [t_pc] in *.
  destruct p; step_cases H;
    unfold after_inner, after_many, start_op, enter, enter_inner, add_if_live, setpc, fin in *;
    try rewrite Hbl in *; try discriminate.
  all: repeat first
         [ progress cbn [sk_res t_pc t_ops t_res]
         | match goal with
           | |- context [if ?b then _ else _] => destruct b eqn:?
           | |- context [match ?a with SKRead _ => _ | _ => _ end] => destruct a
           | |- context [match ?r with ROk => _ | _ => _ end] => destruct r
           end ].
  all: split; unfold is_swap;
       cbn [holds_mu wfb pend gen_ok g_store g_cache g_filt g_gen g_active sh_store sh_cache sh_filt sh_active sh_swap];
       try (intros; tauto); auto.
  all: try solve [ intros (n0 & c0 & [=]) | intros _; split; auto | intros _ (n0 & c0 & [=]) ].
  all: try solve
    [ intros Hn; exfalso; apply Hn; eauto
    | intros _; split; [reflexivity | intros q Hq; now apply bsub_lor_mono]
    | intros _; split; auto using incl_refl, incl_nil_l
    | intros _; apply incl_refl
    | intros [H1 H2]; split; auto using incl_nil_l;
      match goal with E : sort_dedup ?g = _ |- _ => rewrite <- E; now apply incl_sort_dedup end
    | intros [H1 H2]; split;
      [ intros x Hx; apply H1; now right
      | try assumption; apply incl_app_single; [assumption | apply H1; now left] ]
    | intros [H1 H2]; split;
      [ apply incl_app_single; [assumption | apply H2; now left] | intros x Hx; apply H2; now right ]
    | eauto
    | left; eauto
    | right; do 4 eexists; split; [reflexivity | apply bsub_lor_self]
    | right; right; split; [reflexivity | now apply orb_true_iff]
    | intros _ k0 [<- _]; right; apply bsub_lor_self
    | intros _ k0 [Hin|[<- _]]; [left; assumption | right; apply bsub_lor_self]
    | intros _ k0 [<-|Hin]; left; auto
    | intros _ k0 Hk; subst; auto
    | intros Hi k0 Hm; rewrite mem_fold_insert in Hm; apply orb_true_iff in Hm as [Hm|Hm];
      [right; apply Hi; now apply mem_true_iff | left; assumption]
    | match goal with
      | E : sk_store (SKPut ?f) ?k ?st = (?l, ?b) |- _ =>
          intros _ k0 Hm; pose proof (sk_store_put_grows f k st k0) as X; rewrite E in X; cbn [fst snd] in X;
          destruct (X Hm) as [X1|[X1 X2]]; [left; exact X1 | right; subst; reflexivity]
      | E : sk_store ?a ?k ?st = (?l, ?b) |- _ =>
          intros _ k0 Hm; left; pose proof (sk_store_other_shrinks a k st k0) as X; rewrite E in X; cbn [fst] in X;
          apply X; [intros f0; discriminate | exact Hm]
      end ].
  all: try solve
    [ intros _; repeat split; auto; intros (n0 & c0 & [=])
    | split; [reflexivity | intros (n0 & c0 & [=])]
    | intros [H1 H2]; split; [intros x Hx; apply H1; right; exact Hx | exact H2]
    | intros _ k0 [_ Hg]; subst; rewrite Nat.eqb_refl in *; discriminate
    | intros _ k0 [Hin|[_ Hg]]; [left; assumption | subst; rewrite Nat.eqb_refl in *; discriminate]
    | intros _ k0; destruct a; try tauto; destruct o; cbn [sk_res]; tauto
    | match goal with
      | E : sk_store ?a ?k ?st = (?l, ?b) |- _ =>
          intros _ k0 Hm; destruct a as [rk0|f0|f0];
          [ left; pose proof (sk_store_other_shrinks (SKRead rk0) k st k0) as X; rewrite E in X; cbn [fst] in X;
            apply X; [intros f1; discriminate | exact Hm]
          | pose proof (sk_store_put_grows f0 k st k0) as X; rewrite E in X; cbn [fst snd] in X;
            destruct (X Hm) as [X1|[X1 X2]]; [left; exact X1 | right; subst; reflexivity]
          | left; pose proof (sk_store_other_shrinks (SKDel f0) k st k0) as X; rewrite E in X; cbn [fst] in X;
            apply X; [intros f1; discriminate | exact Hm] ]
      end ].
Qed.

Lemma is_swap_dec p : is_swap p \/ ~ is_swap p.
Proof. unfold is_swap. destruct p; try (right; intros (n0 & c0 & [=]); fail). left. eauto. Qed.

Lemma is_swap_mu p : is_swap p -> holds_mu p = true.
Proof. intros (n & c & ->). reflexivity. Qed.

Lemma bloom_step s t s' : c_bloom cf = true -> BInv s -> tstep s t = Some s' -> BInv s'.
Proof.
  intros Hbl [HM HD HA HB HW HG] H. destruct (tstep_inv _ _ _ _ _ _ _ H) as (h' & th' & H1 & ->).
  pose proof (step_bloom s t _ _ _ Hbl H1) as [G1 G2 G3 GL GO G4 G5 G6 G7 G8 G9].
  fold (pcof s t) in *.
  set (p := pcof s t) in *. set (p' := t_pc th') in *.
  set (s' := mkC h' (cset t th' (g_thr s))).
  assert (Hpc : forall t1, pcof s' t1 = if t1 =? t then p' else pcof s t1) by (intros; apply pcof_upd).
  assert (Hpt : pcof s' t = p') by (rewrite Hpc; now rewrite Nat.eqb_refl).
  assert (Hpo : forall t1, t1 <> t -> pcof s' t1 = pcof s t1).
  { intros t1 Hne. rewrite Hpc. apply Nat.eqb_neq in Hne. now rewrite Hne. }
  specialize (G2 (HW t)). specialize (G7 (HW t)). specialize (GO (HG t)).
  (* coverage moves along with a non-swap step *)
  assert (Hcov : ~ is_swap p -> forall rem k, cov s rem k -> cov s' rem k).
  { intros Hns rem k [Hf|[Hin|[t1 Hp]]].
    - left. cbn. now apply (proj2 (G4 Hns)).
    - right. now left.
    - destruct (G4 Hns) as [Hgen Hmono]. destruct (Nat.eq_dec t1 t) as [->|Hne].
      + destruct (G8 Hns k Hp) as [Hp'|Hf'].
        * right. right. exists t. rewrite Hpt. exact Hp'.
        * left. exact Hf'.
      + right. right. exists t1. rewrite (Hpo _ Hne). cbn [g_sh s']. now rewrite Hgen. }
  assert (Hstored : ~ is_swap p -> forall rem k,
             (forall k0, mem k0 (g_store (g_sh s)) = true -> cov s rem k0) ->
             mem k (g_store h') = true -> cov s' rem k).
  { intros Hns rem k Hold Hm. destruct (G7 k Hm) as [Hm0|Hp'].
    - apply Hcov; auto.
    - right. right. exists t. rewrite Hpt. exact Hp'. }
  split.
  - (* buildMu exclusion *)
    intros t1 t2 Hh1 Hh2. rewrite Hpc in Hh1, Hh2.
    destruct (t1 =? t) eqn:E1, (t2 =? t) eqn:E2.
    + apply Nat.eqb_eq in E1, E2. congruence.
    + apply Nat.eqb_eq in E1. apply Nat.eqb_neq in E2. subst t1. destruct (G1 Hh1) as [Hold|Hfree].
      * now apply HM.
      * rewrite (mu_free_spec _ _ Hfree t2 E2) in Hh2. discriminate.
    + apply Nat.eqb_eq in E2. apply Nat.eqb_neq in E1. subst t2. destruct (G1 Hh2) as [Hold|Hfree].
      * now apply HM.
      * rewrite (mu_free_spec _ _ Hfree t1 E1) in Hh1. discriminate.
    + now apply HM.
  - (* a thread about to swap sees the filter inactive *)
    intros t1 Hsw. cbn [g_sh s']. destruct (Nat.eq_dec t1 t) as [->|Hne].
    + rewrite Hpt in Hsw. now apply G6.
    + rewrite (Hpo _ Hne) in Hsw. pose proof (HD _ Hsw) as Hina.
      destruct G5 as [Hsame|[Hfalse|[Hact _]]]; [congruence | assumption |].
      exfalso. apply Hne. apply HM; [now apply is_swap_mu|]. fold p. now rewrite Hact.
  - (* active => covered *)
    cbn [g_sh s']. intros Hact k Hm.
    destruct (is_swap_dec p) as [Hsw|Hns].
    + destruct (G3 Hsw) as (Ha & _). rewrite Ha, (HD t Hsw) in Hact. discriminate.
    + apply (Hstored Hns); [|exact Hm].
      destruct G5 as [Hsame|[Hfalse|[Hp _]]].
      * apply HA. congruence.
      * congruence.
      * pose proof (HB t) as Hb. fold p in Hb. rewrite Hp in Hb. exact Hb.
  - (* the running enumeration covers the store *)
    intros t1. destruct (Nat.eq_dec t1 t) as [->|Hne].
    + rewrite Hpt. pose proof (HB t) as Hb. fold p in Hb.
      destruct p' eqn:Ep'; cbn [build_cov]; try exact I.
      * destruct G9 as [Hp Hact].
        assert (Hns : ~ is_swap p) by (rewrite Hp; intros (? & ? & [=])).
        intros _ k1 Hm. apply (Hstored Hns); [|exact Hm]. now apply HA.
      * destruct G9 as [-> Hns]. intros k Hm. right. left. now apply mem_true_iff.
      * destruct G9 as [(n0 & c0 & Hp)|(n0 & c0 & i0 & k0 & Hp & Hf)].
        -- assert (Hns : ~ is_swap p) by (rewrite Hp; intros (? & ? & [=])).
           intros k Hm. apply (Hstored Hns); [|exact Hm]. rewrite Hp in Hb. exact Hb.
        -- assert (Hns : ~ is_swap p) by (rewrite Hp; intros (? & ? & [=])).
           intros k Hm. rewrite Hp in Hb. cbn [build_cov] in Hb.
           destruct (Hstored Hns _ k Hb Hm) as [Hf'|[[<-|Hin]|Hp']].
           ++ now left.
           ++ now left.
           ++ right. now left.
           ++ right. now right.
      * destruct G9 as (n0 & c0 & i0 & Hp).
        assert (Hns : ~ is_swap p) by (rewrite Hp; intros (? & ? & [=])).
        intros k Hm. apply (Hstored Hns); [|exact Hm]. rewrite Hp in Hb. exact Hb.
    + rewrite (Hpo _ Hne). pose proof (HB t1) as Hb.
      assert (Hns : holds_mu (pcof s t1) = true -> ~ is_swap p).
      { intros Hh Hsw. apply Hne. apply HM; [exact Hh | now apply is_swap_mu]. }
      pose proof (HG t1) as Hg1.
      destruct (pcof s t1) eqn:Eq; cbn [build_cov gen_ok] in *; try exact I.
      * (* a reader holding a loaded filter: a swap makes its generation stale *)
        cbn [g_sh s']. intros Hg k1 Hm. destruct (is_swap_dec p) as [Hsw|Hns'].
        -- exfalso. destruct (G3 Hsw) as (_ & _ & _ & _ & Hgen). lia.
        -- apply (Hstored Hns'); [|exact Hm]. apply Hb. rewrite Hg. apply (proj1 (G4 Hns')).
      * intros k Hm; apply (Hstored (Hns eq_refl)); auto.
      * intros k Hm; apply (Hstored (Hns eq_refl)); auto.
      * intros k Hm; apply (Hstored (Hns eq_refl)); auto.
  - intros t1. rewrite Hpc. destruct (t1 =? t); [exact G2 | apply HW].
  - intros t1. cbn [g_sh s']. rewrite Hpc. destruct (t1 =? t); [exact GO|].
    pose proof (HG t1) as Hg1. destruct (pcof s t1); cbn [gen_ok] in *; auto; lia.
Qed.

Lemma bloom_evict s k :
  BInv s -> BInv (mkC (sh_cache (g_sh s) (cdel k (g_cache (g_sh s)))) (g_thr s)).
Proof. intros [HM HD HA HB HW HG]. split; assumption. Qed.

Lemma bloom_lrun ls : forall s s', c_bloom cf = true -> BInv s -> lrun s ls = Some s' -> BInv s'.
Proof.
  induction ls as [|l r IH]; intros s s' Hbl HI; cbn [M_C02.lrun].
  - now intros [= <-].
  - destruct (M_C02.lstep cf fl pos sz s l) as [s1|] eqn:Hl; [|discriminate].
    intros Hr. apply (IH s1 s' Hbl); [|exact Hr].
    destruct l as [t|k]; cbn [M_C02.lstep] in Hl.
    + eapply bloom_step; eauto.
    + injection Hl as <-. now apply bloom_evict.
Qed.

Lemma bloom_init keys bn bc progs : BInv (cinit cf keys bn bc progs).
Proof.
  assert (Hp := cinit_pcs cf keys bn bc progs).
  split.
  - intros t1 t2 H1. destruct (Hp t1) as [E|(n & c & E)]; rewrite E in H1; discriminate.
  - intros t (n & c & E). destruct (Hp t) as [E'|(n' & c' & E')]; congruence.
  - discriminate.
  - intros t. destruct (Hp t) as [E|(n & c & E)]; rewrite E; exact I.
  - intros t. destruct (Hp t) as [E|(n & c & E)]; rewrite E; exact I.
  - intros t. destruct (Hp t) as [E|(n & c & E)]; rewrite E; exact I.
Qed.

Theorem bloom_reachable keys bn bc progs ls s :
  c_bloom cf = true -> lrun (cinit cf keys bn bc progs) ls = Some s -> BInv s.
Proof. intros Hbl. apply bloom_lrun; [assumption | apply bloom_init]. Qed.


(** ---------- consequences ---------- *)
Definition put_in_flight (s : cst) (k : key) : Prop :=
  exists t, pend (g_gen (g_sh s)) (pcof s t) k.
Definition writer_in_flight (s : cst) (k : key) : Prop :=
  exists t, wwin (pcof s t) k.

Lemma bloom_negative_sound s k :
  c_bloom cf = true -> BInv s ->
  g_active (g_sh s) = true -> mem k (g_store (g_sh s)) = true ->
  bsub (pos k) (g_filt (g_sh s)) = false -> put_in_flight s k.
Proof.
  intros Hbl HI Ha Hm Hf. destruct (b_active s HI Ha k Hm) as [Hf'|[[]|Hp]]; [congruence | exact Hp].
Qed.

(** Repaired hasCached (filter loaded first, [active] read afterwards, negative
    answer trusted only if the same filter is still live): at the moment the
    loaded filter is tested, a lookup of a stored key with no Put of that key in
    flight is never short-circuited - the test says "maybe there" (or the filter
    is stale and will not be trusted) and the lookup goes on to the inner layers. *)
Lemma never_missing_bloom s t s' a k g :
  c_bloom cf = true -> BInv s ->
  pcof s t = BTest a k g -> mem k (g_store (g_sh s)) = true -> ~ put_in_flight s k ->
  tstep s t = Some s' -> pcof s' t = enter_inner cf a k.
Proof.
  intros Hbl HI Hpc Hm Hnf H. destruct (tstep_inv _ _ _ _ _ _ _ H) as (h' & th' & H1 & ->).
  rewrite pcof_upd, Nat.eqb_refl.
  pose proof (b_build s HI t) as Hb. rewrite Hpc in Hb. cbn [build_cov] in Hb.
  unfold pcof in Hpc. unfold M_C02.tstep1 in H1. rewrite Hpc in H1.
  destruct (g =? g_gen (g_sh s)) eqn:Hg; cbn [andb] in H1.
  - apply Nat.eqb_eq in Hg. destruct (Hb Hg k Hm) as [Hf|[[]|Hp]]; [|now destruct Hnf].
    rewrite Hf in H1. cbn [negb] in H1. now injection H1 as <- <-.
  - now injection H1 as <- <-.
Qed.

(** The 2Q layer never answers "missing" for a stored key from its cache unless a
    writer of that key is between its store call and its cache update. *)
Lemma never_missing_cache s t s' rk k :
  c_tq cf = true -> TQInv sz s ->
  pcof s t = TQuery (SKRead rk) k -> mem k (g_store (g_sh s)) = true -> ~ writer_in_flight s k ->
  tstep s t = Some s' ->
  pcof s' t = TLock (SKRead rk) k \/
  t_res (tget s' t) = found_res sz rk k :: t_res (tget s t).
Proof.
  intros Htq HI Hpc Hm Hnw H. destruct (tstep_inv _ _ _ _ _ _ _ H) as (h' & th' & H1 & ->).
  rewrite pcof_upd, Nat.eqb_refl, (tget_upd h' (g_sh s)), Nat.eqb_refl. unfold pcof in Hpc.
  unfold M_C02.tstep1 in H1. rewrite Hpc in H1.
  destruct (lookup k (g_cache (g_sh s))) as [e|] eqn:Hl.
  - cbn [sk_conclude] in H1. destruct (conclude rk k e) as [r|] eqn:Hc.
    + injection H1 as <- <-. right. cbn [after_inner fin t_res].
      destruct (tq_cache sz s HI k e Hl) as [Hag|Hw]; [|now destruct Hnw].
      rewrite (conclude_sound sz _ _ _ _ _ Hag Hc), Hm. reflexivity.
    + injection H1 as <- <-. now left.
  - injection H1 as <- <-. now left.
Qed.

(** If activation waits for the Puts that have written the store but not yet the
    filter, then at the moment of activation every stored key is in the filter. *)
Lemma activate_complete s t s' :
  d_early fl = false -> c_bloom cf = true -> BInv s ->
  pcof s t = RActivate -> tstep s t = Some s' ->
  g_active (g_sh s') = true /\
  forall k, mem k (g_store (g_sh s')) = true -> bsub (pos k) (g_filt (g_sh s')) = true.
Proof.
  intros Hearly Hbl HI Hpc H. destruct (tstep_inv _ _ _ _ _ _ _ H) as (h' & th' & H1 & ->).
  pose proof (b_build s HI t) as Hb. rewrite Hpc in Hb. cbn [build_cov] in Hb.
  unfold pcof in Hpc. unfold M_C02.tstep1 in H1. rewrite Hpc, Hearly in H1. cbn [orb] in H1.
  destruct (no_put_window s t) eqn:Hw; [|discriminate]. injection H1 as <- <-.
  cbn [g_sh g_active g_store g_filt sh_active]. split; [reflexivity|].
  intros k Hm. destruct (Hb k Hm) as [Hf|[[]|[t1 Hp]]]; [exact Hf|].
  exfalso. pose proof (pend_window _ _ _ Hp) as Hin.
  destruct (Nat.eq_dec t1 t) as [->|Hne].
  - fold (pcof s t) in Hpc. rewrite Hpc in Hin. discriminate.
  - rewrite (no_window_spec _ _ Hw t1 Hne) in Hin. discriminate.
Qed.

End Bloom.

(** ---------- the code as it is today: two refutations ---------- *)
Definition cf_bloom : cfg := Build_cfg false true.
Definition pos1 : key -> N := fun _ => 1%N.
Definition sz0 : key -> Z := fun _ => 0%Z.

(** (1) hasCached reads [active] and then loads the filter: a Rebuild that
    deactivates and swaps in between makes a reader consult the fresh, empty
    filter.  Key 0 is stored from the start, no thread ever writes or deletes,
    and yet Has(0) answers false. *)
Definition toctou_run : list label :=
  repeat (LThread 0) 7 ++ repeat (LThread 1) 2 ++ repeat (LThread 2) 4 ++ [LThread 1].

Lemma toctou_witness :
  exists s,
    lrun cf_bloom (Build_flags true false) pos1 sz0
      (cinit cf_bloom [0] 30 true [[ORead KHas 0]; [ORebuild 30 true]]) toctou_run = Some s /\
    mem 0 (g_store (g_sh s)) = true /\ t_res (tget s 1) = [RBool false].
Proof. eexists. vm_compute. repeat split. Qed.

(** (2) the filter is activated while a Put has written the store but not yet
    the filter: Has(0) answers true (inactive filter, store consulted) and then
    false (active filter without key 0), although nothing is ever deleted. *)
Definition early_run : list label :=
  repeat (LThread 0) 3 ++ repeat (LThread 1) 2 ++ repeat (LThread 2) 4 ++ repeat (LThread 0) 2
  ++ repeat (LThread 2) 3.

Lemma early_witness :
  exists s,
    lrun cf_bloom (Build_flags true true) pos1 sz0
      (cinit cf_bloom [] 30 true [[OPut 0 false]; [ORead KHas 0; ORead KHas 0]]) early_run = Some s /\
    t_res (tget s 2) = [RBool false; RBool true] /\ t_res (tget s 1) = [] /\
    g_active (g_sh s) = true /\ mem 0 (g_store (g_sh s)) = true /\ bsub (pos1 0) (g_filt (g_sh s)) = false.
Proof. eexists. vm_compute. repeat split. Qed.

(** the corresponding schedules in the repaired model: the reader has loaded the
    old filter and seen it active when the Rebuild deactivates and swaps; the
    stale filter is not trusted and the store answers.  And activation is not
    enabled while the Put is between its store write and its filter add. *)
Definition toctou_run_fixed : list label :=
  repeat (LThread 0) 7 ++ repeat (LThread 1) 3 ++ repeat (LThread 2) 4 ++ repeat (LThread 1) 3.

Lemma toctou_fixed :
  exists s,
    lrun cf_bloom (Build_flags false false) pos1 sz0
      (cinit cf_bloom [0] 30 true [[ORead KHas 0]; [ORebuild 30 true]]) toctou_run_fixed = Some s /\
    g_active (g_sh s) = false /\ g_filt (g_sh s) = 0%N /\ t_res (tget s 1) = [RBool true].
Proof. eexists. vm_compute. repeat split. Qed.

Definition early_run_fixed : list label :=
  repeat (LThread 0) 3 ++ repeat (LThread 1) 2 ++ repeat (LThread 2) 5 ++ repeat (LThread 0) 2.

Lemma early_fixed :
  lrun cf_bloom (Build_flags false false) pos1 sz0
    (cinit cf_bloom [] 30 true [[OPut 0 false]; [ORead KHas 0; ORead KHas 0]]) early_run_fixed = None /\
  exists s,
    lrun cf_bloom (Build_flags false false) pos1 sz0
      (cinit cf_bloom [] 30 true [[OPut 0 false]; [ORead KHas 0; ORead KHas 0]])
      (removelast early_run_fixed) = Some s /\
    pcof s 0 = RActivate /\ t_res (tget s 2) = [RBool true].
Proof. split; [vm_compute; reflexivity | eexists; vm_compute; repeat split]. Qed.
