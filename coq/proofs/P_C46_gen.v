(** C46 — the hand model [nb] of nextBackoff equals the definition regenerated from
    peering/peering.go by go2coq ([gen/Gen_C46.v]) on every run, for all arguments in range;
    no int64 wrap-around occurs and the function does not panic. *)
From Coq Require Import List ZArith Bool Lia.
From V Require Import lib.GoInt gen.Gen_C46 model.M_C46 proofs.P_C46.
Open Scope Z_scope.

Ltac Zify.zify_post_hook ::= Z.div_mod_to_equations.

Lemma gen_nextBackoff_eq d r1 r2 :
  initial_delay <= d <= max_backoff -> 0 <= r1 < d -> 0 <= r2 < jitter_span ->
  peerHandler_nextBackoff d r1 r2 = (nb d r1 r2, nb d r1 r2) /\
  peerHandler_nextBackoff_ok d r1 r2 = true.
Proof.
  unfold nb, peerHandler_nextBackoff, peerHandler_nextBackoff_ok, initial_delay, max_backoff, jitter_span.
  intros Hd H1 H2.
  assert (Hq : quo I64 d 2 = d / 2).
  { unfold quo. change (2 =? 0) with false. cbn match.
    rewrite Z.quot_div_nonneg by lia. apply wrap_id. apply in_range_I64. lia. }
  assert (Ha1 : add I64 (d / 2) r1 = d / 2 + r1) by (apply add_nowrap, in_range_I64; lia).
  assert (Ha2 : add I64 d (d / 2 + r1) = d + d / 2 + r1).
  { rewrite add_nowrap by (apply in_range_I64; lia). lia. }
  assert (Hs : sub I64 600000000000 r2 = 600000000000 - r2) by (apply sub_nowrap, in_range_I64; lia).
  rewrite Hq, Ha1, Ha2, Hs.
  destruct (Z.ltb_spec d 600000000000) as [Hlt|Hge].
  - destruct (Z.ltb_spec 0 d); [|lia].
    destruct (Z.ltb_spec 600000000000 (d + d / 2 + r1)); split; reflexivity.
  - destruct (Z.ltb_spec 600000000000 d); [lia|]. split; reflexivity.
Qed.

(** hence the generated function itself is bounded for all draws in range *)
Lemma gen_nextBackoff_range d r1 r2 :
  initial_delay <= d <= max_backoff -> 0 <= r1 < d -> 0 <= r2 < jitter_span ->
  let '(v, d') := peerHandler_nextBackoff d r1 r2 in
  v = d' /\ 0 < d' <= max_backoff /\ initial_delay <= d'.
Proof.
  intros Hd H1 H2. destruct (gen_nextBackoff_eq d r1 r2 Hd H1 H2) as [-> _].
  split; [reflexivity|].
  pose proof (next_ok_range d _ Hd (nb_next_ok d r1 r2 Hd H1 H2)) as [Hr _].
  unfold initial_delay, max_backoff in *. lia.
Qed.
