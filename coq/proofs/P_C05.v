(** C05 — proofs.  See props/Props_C05.v for the statements. *)
From Coq Require Import List ZArith Bool NArith Lia.
From V Require Import lib.Verdict lib.BlockSvc model.M_C04 model.M_C05 proofs.P_C04.
Import ListNotations.
Open Scope Z_scope.

(** ---------- equality tests ---------- *)
Lemma mh_eqb_refl : forall m, mh_eqb m m = true.
Proof. intros [[a b] c]. unfold mh_eqb. rewrite !Z.eqb_refl, N.eqb_refl. reflexivity. Qed.

Lemma cid_eqb_refl : forall c, cid_eqb c c = true.
Proof. intros c. unfold cid_eqb. rewrite !Z.eqb_refl, mh_eqb_refl. reflexivity. Qed.

Lemma mh_eqb_eq : forall a b, mh_eqb a b = true -> a = b.
Proof.
  intros [[a1 a2] a3] [[b1 b2] b3] H. unfold mh_eqb in H.
  apply andb_true_iff in H. destruct H as [H H3]. apply andb_true_iff in H. destruct H as [H1 H2].
  apply Z.eqb_eq in H1. apply Z.eqb_eq in H2. apply N.eqb_eq in H3. subst. reflexivity.
Qed.

Lemma In_cid_in : forall c l, In c l -> cid_in c l = true.
Proof.
  intros c l H. unfold cid_in. apply existsb_exists. exists c. split; [exact H | apply cid_eqb_refl].
Qed.

Lemma cid_eqb_trans : forall a b c, cid_eqb a b = true -> cid_eqb b c = true -> cid_eqb a c = true.
Proof.
  intros a b c H1 H2. unfold cid_eqb in *.
  apply andb_true_iff in H1. destruct H1 as [H1 M1]. apply andb_true_iff in H1. destruct H1 as [V1 C1].
  apply andb_true_iff in H2. destruct H2 as [H2 M2]. apply andb_true_iff in H2. destruct H2 as [V2 C2].
  apply Z.eqb_eq in V1. apply Z.eqb_eq in V2. apply Z.eqb_eq in C1. apply Z.eqb_eq in C2.
  apply mh_eqb_eq in M1. apply mh_eqb_eq in M2.
  rewrite V1, V2, C1, C2, M1, M2, !Z.eqb_refl, mh_eqb_refl. reflexivity.
Qed.

Lemma cid_in_sub : forall c l1 l2, cid_in c l1 = true -> (forall x, In x l1 -> In x l2) -> cid_in c l2 = true.
Proof.
  intros c l1 l2 H Hs. unfold cid_in in *. apply existsb_exists in H. destruct H as [x [Hx He]].
  apply existsb_exists. exists x. split; [apply Hs; exact Hx | exact He].
Qed.

(** ---------- store facts ---------- *)
Lemma has_put : forall s b, has (put s b) (bmh b) = true.
Proof.
  intros s b. unfold put. destruct (has s (bmh b)) eqn:H; [exact H |].
  unfold has. cbn [lookup]. rewrite mh_eqb_refl. reflexivity.
Qed.

Lemma lookup_has : forall s m d, lookup s m = Some d -> has s m = true.
Proof. intros s m d H. unfold has. rewrite H. reflexivity. Qed.

Lemma lookup_good : forall s c d, store_good s = true -> lookup s (mh_of c) = Some d -> good (mkblk c d) = true.
Proof.
  induction s as [| [k v] r IH]; intros c d Hs Hl; cbn [lookup] in Hl; [discriminate |].
  cbn [store_good forallb fst snd] in Hs. apply andb_true_iff in Hs. destruct Hs as [Hk Hr].
  destruct (mh_eqb (mh_of c) k) eqn:E.
  - inversion Hl. subst v. apply mh_eqb_eq in E. subst k. unfold mh_of in Hk. unfold good. cbn [b_cid b_data]. exact Hk.
  - apply IH; assumption.
Qed.

Lemma good_put : forall s b, store_good s = true -> good b = true -> store_good (put s b) = true.
Proof.
  intros s b Hs Hb. unfold put. destruct (has s (bmh b)); [exact Hs |].
  cbn [store_good forallb fst snd]. unfold bmh, mh_of. unfold good in Hb. rewrite Hb. exact Hs.
Qed.

Lemma good_put_many : forall bs s, store_good s = true -> forallb good bs = true -> store_good (put_many s bs) = true.
Proof.
  unfold put_many. induction bs as [| b r IH]; intros s Hs Hb; cbn [fold_left]; [exact Hs |].
  cbn [forallb] in Hb. apply andb_true_iff in Hb. destruct Hb as [Hb Hr].
  apply IH; [apply good_put; assumption | exact Hr].
Qed.

Lemma good_del : forall s m, store_good s = true -> store_good (del s m) = true.
Proof.
  intros s m Hs. unfold del, store_good in *. rewrite forallb_forall in *.
  intros e He. apply filter_In in He. destruct He as [He _]. exact (Hs e He).
Qed.

Lemma fetched_app : forall l1 l2, fetched (l1 ++ l2) = fetched l1 ++ fetched l2.
Proof. intros. unfold fetched. apply flat_map_app. Qed.
Lemma fetched_N : forall v cs, fetched [EvFetchN v cs] = cs.
Proof. intros. unfold fetched. cbn [flat_map]. apply app_nil_r. Qed.

Section Step.
Variable validate : Z -> Z -> verr.
Variable checkfirst : bool.
Variable ex : exkind.
Variable fl : flags.

Notation STEP := (step validate checkfirst ex fl).

Lemma fetcher_fetched : forall p, fetched (fst (fetcher ex p)) = [].
Proof. intros p. unfold fetcher. destruct ex; [reflexivity | reflexivity | destruct p; reflexivity]. Qed.

(** ----- facts about the pieces of getBlocks ----- *)
Lemma local_pass_facts : forall ft s ks,
  let '(evs, outs, misses) := local_pass ft s ks in
  fetched evs = [] /\
  (forall p, In p outs -> In (b_cid (fst p)) ks /\ snd p = true /\
                          lookup s (mh_of (b_cid (fst p))) = Some (b_data (fst p))) /\
  (forall c, In c misses -> In c ks /\ (has s (mh_of c) = false \/ inl (mh_of c) (f_get ft) = true)).
Proof.
  intros ft s. induction ks as [| c r IH]; cbn [local_pass].
  - split; [reflexivity |]. split; intros x H; destruct H.
  - destruct (local_pass ft s r) as [[evs outs] misses]. destruct IH as [He [Ho Hm]].
    assert (Hm' : forall c0, In c0 (c :: misses) ->
              (has s (mh_of c) = false \/ inl (mh_of c) (f_get ft) = true) ->
              In c0 (c :: r) /\ (has s (mh_of c0) = false \/ inl (mh_of c0) (f_get ft) = true)).
    { intros c0 [E | H] Hc; [subst c0; split; [left; reflexivity | exact Hc] |].
      destruct (Hm c0 H) as [H1 H2]. split; [right; exact H1 | exact H2]. }
    assert (Ho' : forall p, In p outs -> In (b_cid (fst p)) (c :: r) /\ snd p = true /\
                     lookup s (mh_of (b_cid (fst p))) = Some (b_data (fst p))).
    { intros p H. destruct (Ho p H) as [H1 H2]. split; [right; exact H1 | exact H2]. }
    assert (Hm'' : forall c0, In c0 misses ->
              In c0 (c :: r) /\ (has s (mh_of c0) = false \/ inl (mh_of c0) (f_get ft) = true)).
    { intros c0 H. destruct (Hm c0 H) as [H1 H2]. split; [right; exact H1 | exact H2]. }
    destruct (inl (mh_of c) (f_get ft)) eqn:Ef.
    + split; [exact He |]. split; [exact Ho' |]. intros c0 H. apply Hm'; [exact H | right; reflexivity].
    + destruct (lookup s (mh_of c)) as [d |] eqn:El.
      * split; [exact He |]. split; [| exact Hm''].
        intros p [E | H]; [| exact (Ho' p H)]. subst p. cbn [fst snd b_cid b_data].
        split; [left; reflexivity |]. split; [reflexivity | exact El].
      * split; [exact He |]. split; [exact Ho' |]. intros c0 H. apply Hm'; [exact H |].
        left. unfold has. rewrite El. reflexivity.
Qed.

Lemma recv_facts : forall ft wanted resp s,
  let '(s', evs, outs) := recv fl ft wanted s resp in
  fetched evs = [] /\
  (forall p, In p outs -> accept fl wanted (fst p) = true /\ snd p = true).
Proof.
  intros ft wanted. induction resp as [| b r IH]; intros s; cbn [recv].
  - split; [reflexivity | intros p H; destruct H].
  - destruct (accept fl wanted b) eqn:Hacc; [| apply IH].
    destruct (inl (bmh b) (f_put ft)); [split; [reflexivity | intros p H; destruct H] |].
    destruct (inl (bmh b) (f_notify ft)); [split; [reflexivity | intros p H; destruct H] |].
    specialize (IH (put s b)). destruct (recv fl ft wanted (put s b) r) as [[s'' evs] outs].
    destruct IH as [He Ho]. split; [exact He |].
    intros p [E | H]; [| exact (Ho p H)]. subst p. cbn [fst snd]. split; [exact Hacc | apply has_put].
Qed.

Lemma recv_good : forall ft wanted resp s, trust_hash fl = false -> store_good s = true ->
  store_good (fst (fst (recv fl ft wanted s resp))) = true.
Proof.
  intros ft wanted resp s Hh. revert s. induction resp as [| b r IH]; intros s Hs; cbn [recv]; [exact Hs |].
  destruct (accept fl wanted b) eqn:Hacc; [| apply IH; exact Hs].
  assert (Hb : good b = true).
  { unfold accept in Hacc. rewrite Hh in Hacc. cbn [orb] in Hacc. apply andb_true_iff in Hacc. tauto. }
  destruct (inl (bmh b) (f_put ft)); [exact Hs |].
  destruct (inl (bmh b) (f_notify ft)); [cbn [fst]; apply good_put; assumption |].
  specialize (IH (put s b) (good_put _ _ Hs Hb)).
  destruct (recv fl ft wanted (put s b) r) as [[s'' evs] outs]. exact IH.
Qed.

Lemma filter_keys_sub : forall ks c, In c (filter_keys validate ks) -> In c ks.
Proof. intros ks c H. rewrite filter_keys_spec in H. apply filter_In in H. tauto. Qed.

(** ----- (1) only requested CIDs come back, and only requested CIDs are asked for ----- *)
Lemma step_req_ok : forall ft s o, trust_cid fl = false ->
  let '(s', evs, res) := STEP ft s o in req_ok o evs res = true.
Proof.
  intros ft s o Hc. destruct o as [b | bs | p c x | p ks x | c]; cbn [step].
  - (* AddBlock: no block out, no fetch *)
    unfold add_block. destruct (cverr validate (b_cid b)); try reflexivity.
    assert (H : forall pre, fetched pre = [] ->
      (let '(_, evs, res) := (if inl (bmh b) (f_put ft) then (s, pre ++ [EvPut b], RAdd ROther)
        else (put s b, pre ++ EvPut b :: match ex with XNone => [] | _ => [EvNotify [b]] end, RAdd RNil)) in
       req_ok (OAdd b) evs res = true)).
    { intros pre Hp. destruct (inl (bmh b) (f_put ft)); unfold req_ok; rewrite fetched_app, Hp;
        [reflexivity | destruct ex; reflexivity]. }
    destruct checkfirst; [| exact (H [] eq_refl)].
    destruct (inl (bmh b) (f_has ft)); [reflexivity |]. destruct (has s (bmh b)); [reflexivity |].
    exact (H [EvHas (b_cid b)] eq_refl).
  - unfold add_blocks. destruct (first_invalid validate bs); try reflexivity.
    assert (Hsc : fetched (fst (if checkfirst then has_scan ft s bs else ([], Some bs))) = []).
    { destruct checkfirst; [| reflexivity]. clear. induction bs as [| b r IH]; cbn [has_scan]; [reflexivity |].
      destruct (inl (bmh b) (f_has ft)); [reflexivity |]. destruct (has_scan ft s r) as [evs res]. exact IH. }
    destruct (if checkfirst then has_scan ft s bs else ([], Some bs)) as [evs res]. cbn [fst] in Hsc.
    destruct res as [tp |]; [| unfold req_ok; rewrite Hsc; reflexivity].
    destruct tp as [| b0 tp']; [unfold req_ok; rewrite Hsc; reflexivity |].
    destruct (existsb (fun b => inl (bmh b) (f_put ft)) (b0 :: tp')); unfold req_ok; rewrite fetched_app, Hsc;
      [reflexivity | destruct ex; reflexivity].
  - (* GetBlock *)
    unfold get_block. destruct (cverr validate c); try reflexivity.
    destruct (inl (mh_of c) (f_get ft)); [reflexivity |].
    destruct (lookup s (mh_of c)) as [d |].
    + unfold req_ok. cbn. rewrite cid_eqb_refl. reflexivity.
    + pose proof (fetcher_fetched p) as Hf. destruct (fetcher ex p) as [fevs f]. cbn [fst] in Hf.
      destruct f as [via |]; [| unfold req_ok; cbn [out_blocks forallb andb]; rewrite fetched_app, Hf; reflexivity].
      assert (Hpre : fetched ([EvGet c] ++ fevs ++ [EvFetch1 via c]) = [c])
        by (rewrite !fetched_app, Hf; reflexivity).
      assert (Hcc : cid_in c [c] = true) by (apply In_cid_in; left; reflexivity).
      destruct x as [e | b].
      * unfold req_ok. rewrite Hpre. cbn [out_blocks forallb req_of andb]. rewrite Hcc. reflexivity.
      * destruct (accept fl [c] b) eqn:Hacc.
        -- assert (Hb : cid_in (b_cid b) [c] = true).
           { unfold accept in Hacc. rewrite Hc in Hacc. cbn [orb] in Hacc. apply andb_true_iff in Hacc. tauto. }
           destruct (inl (bmh b) (f_put ft)); [| destruct (inl (bmh b) (f_notify ft))];
             unfold req_ok; rewrite fetched_app, Hpre; cbn [out_blocks forallb req_of andb fetched flat_map app];
             rewrite ?Hb, Hcc; reflexivity.
        -- unfold req_ok. rewrite Hpre. cbn [out_blocks forallb req_of andb]. rewrite Hcc. reflexivity.
  - (* GetBlocks *)
    unfold get_blocks.
    pose proof (local_pass_facts ft s (filter_keys validate ks)) as Hl.
    destruct (local_pass ft s (filter_keys validate ks)) as [[evs outs] misses].
    destruct Hl as [He [Ho Hm]].
    pose proof (fetcher_fetched p) as Hf. destruct (fetcher ex p) as [fevs f]. cbn [fst] in Hf.
    assert (Houts : forallb (fun b => cid_in (b_cid b) ks) (map fst outs) = true).
    { rewrite forallb_forall. intros b Hb. apply in_map_iff in Hb. destruct Hb as [q [E Hq]]. subst b.
      apply In_cid_in. apply filter_keys_sub. apply (Ho q Hq). }
    assert (Hmiss : forallb (fun c => cid_in c ks) misses = true).
    { rewrite forallb_forall. intros c Hc'. apply In_cid_in. apply filter_keys_sub. apply (Hm c Hc'). }
    assert (Hbase : req_ok (OGetMany p ks x) (evs ++ fevs) (RGetMany outs) = true).
    { unfold req_ok. rewrite fetched_app, He, Hf. cbn [out_blocks req_of app forallb]. rewrite Houts. reflexivity. }
    destruct f as [via |]; [| exact Hbase].
    destruct misses as [| m0 mr]; [exact Hbase |]. remember (m0 :: mr) as misses eqn:Em.
    destruct x as [resp |].
    + pose proof (recv_facts ft misses resp s) as Hr.
      destruct (recv fl ft misses s resp) as [[s' revs] routs]. destruct Hr as [Hre Hro].
      unfold req_ok. rewrite !fetched_app, fetched_N, He, Hf, Hre. cbn [out_blocks req_of app].
      rewrite app_nil_r, Hmiss, map_app, forallb_app, Houts. cbn [andb].
      rewrite andb_true_r. rewrite forallb_forall. intros b Hb. apply in_map_iff in Hb.
      destruct Hb as [q [E Hq]]. subst b. destruct (Hro q Hq) as [Hacc _].
      unfold accept in Hacc. rewrite Hc in Hacc. cbn [orb] in Hacc. apply andb_true_iff in Hacc.
      destruct Hacc as [Hin _]. apply (cid_in_sub _ misses); [exact Hin |].
      intros y Hy. apply filter_keys_sub. apply (Hm y Hy).
    + unfold req_ok. rewrite !fetched_app, fetched_N, He, Hf. cbn [out_blocks req_of app].
      rewrite Hmiss, Houts. reflexivity.
  - reflexivity.
Qed.

(** ----- (2) bytes hash to the CID, and the store stays good ----- *)
Lemma step_hash_ok : forall ft s o, trust_hash fl = false -> store_good s = true -> op_good o = true ->
  let '(s', evs, res) := STEP ft s o in hash_ok res = true /\ store_good s' = true.
Proof.
  intros ft s o Hh Hs Hg. destruct o as [b | bs | p c x | p ks x | c]; cbn [step].
  - cbn [op_good] in Hg. unfold add_block. destruct (cverr validate (b_cid b)); try (split; [reflexivity | exact Hs]).
    assert (H : forall pre,
      (let '(s', _, res) := (if inl (bmh b) (f_put ft) then (s, pre ++ [EvPut b], RAdd ROther)
        else (put s b, pre ++ EvPut b :: match ex with XNone => [] | _ => [EvNotify [b]] end, RAdd RNil)) in
       hash_ok res = true /\ store_good s' = true)).
    { intros pre. destruct (inl (bmh b) (f_put ft)); split; try reflexivity; [exact Hs | apply good_put; assumption]. }
    destruct checkfirst; [| exact (H [])].
    destruct (inl (bmh b) (f_has ft)); [split; [reflexivity | exact Hs] |].
    destruct (has s (bmh b)); [split; [reflexivity | exact Hs] |]. exact (H [EvHas (b_cid b)]).
  - cbn [op_good] in Hg. unfold add_blocks. destruct (first_invalid validate bs); try (split; [reflexivity | exact Hs]).
    assert (Hsc : forall tp, snd (if checkfirst then has_scan ft s bs else ([], Some bs)) = Some tp -> forallb good tp = true).
    { destruct checkfirst; [| intros tp H; inversion H; subst; exact Hg]. clear - Hg.
      induction bs as [| b r IH]; cbn [has_scan]; intros tp H; [inversion H; reflexivity |].
      cbn [forallb] in Hg. apply andb_true_iff in Hg. destruct Hg as [Hb Hr].
      destruct (inl (bmh b) (f_has ft)); [discriminate |].
      destruct (has_scan ft s r) as [evs res]. cbn [snd] in *. destruct res as [tp0 |]; [| discriminate].
      inversion H. specialize (IH Hr tp0 eq_refl). destruct (has s (bmh b)); [exact IH |].
      cbn [forallb]. rewrite Hb, IH. reflexivity. }
    destruct (if checkfirst then has_scan ft s bs else ([], Some bs)) as [evs res]. cbn [snd] in Hsc.
    destruct res as [tp |]; [| split; [reflexivity | exact Hs]].
    specialize (Hsc tp eq_refl).
    destruct tp as [| b0 tp']; [split; [reflexivity | exact Hs] |]. remember (b0 :: tp') as tp eqn:Etp.
    destruct (existsb (fun b => inl (bmh b) (f_put ft)) tp); split; try reflexivity;
      [exact Hs | apply good_put_many; assumption].
  - unfold get_block. destruct (cverr validate c); try (split; [reflexivity | exact Hs]).
    destruct (inl (mh_of c) (f_get ft)); [split; [reflexivity | exact Hs] |].
    destruct (lookup s (mh_of c)) as [d |] eqn:El.
    + split; [| exact Hs]. unfold hash_ok. cbn [out_blocks forallb]. rewrite (lookup_good _ _ _ Hs El). reflexivity.
    + destruct (fetcher ex p) as [fevs f]. destruct f as [via |]; [| split; [reflexivity | exact Hs]].
      destruct x as [e | b]; [split; [reflexivity | exact Hs] |].
      destruct (accept fl [c] b) eqn:Hacc; [| split; [reflexivity | exact Hs]].
      assert (Hb : good b = true).
      { unfold accept in Hacc. rewrite Hh in Hacc. cbn [orb] in Hacc. apply andb_true_iff in Hacc. tauto. }
      destruct (inl (bmh b) (f_put ft)); [split; [reflexivity | exact Hs] |].
      destruct (inl (bmh b) (f_notify ft)); (split; [| apply good_put; assumption]); [reflexivity |].
      unfold hash_ok. cbn [out_blocks forallb]. rewrite Hb. reflexivity.
  - unfold get_blocks.
    pose proof (local_pass_facts ft s (filter_keys validate ks)) as Hl.
    destruct (local_pass ft s (filter_keys validate ks)) as [[evs outs] misses].
    destruct Hl as [_ [Ho _]].
    assert (Houts : forallb good (map fst outs) = true).
    { rewrite forallb_forall. intros b Hb. apply in_map_iff in Hb. destruct Hb as [q [E Hq]]. subst b.
      destruct (Ho q Hq) as [_ [_ Hl]]. pose proof (lookup_good _ _ _ Hs Hl) as G.
      unfold good in *. cbn [b_cid b_data] in G. exact G. }
    destruct (fetcher ex p) as [fevs f].
    destruct f as [via |]; [| split; [exact Houts | exact Hs]].
    destruct misses as [| m0 mr]; [split; [exact Houts | exact Hs] |]. remember (m0 :: mr) as misses eqn:Em.
    destruct x as [resp |]; [| split; [exact Houts | exact Hs]].
    pose proof (recv_facts ft misses resp s) as Hr. pose proof (recv_good ft misses resp s Hh Hs) as Hg2.
    destruct (recv fl ft misses s resp) as [[s' revs] routs]. destruct Hr as [_ Hro]. cbn [fst] in Hg2.
    split; [| exact Hg2]. unfold hash_ok. cbn [out_blocks]. rewrite map_app, forallb_app, Houts. cbn [andb].
    rewrite forallb_forall. intros b Hb. apply in_map_iff in Hb. destruct Hb as [q [E Hq]]. subst b.
    destruct (Hro q Hq) as [Hacc _]. unfold accept in Hacc. rewrite Hh in Hacc. cbn [orb] in Hacc.
    apply andb_true_iff in Hacc. tauto.
  - split; [reflexivity | apply good_del; exact Hs].
Qed.

(** ----- (3) handed over => in the blockstore; (4) stored locally => not fetched: any flags ----- *)
Lemma step_cached_miss_ok : forall ft s o,
  let '(s', evs, res) := STEP ft s o in cached_ok res s' = true /\ miss_ok s ft evs = true.
Proof.
  intros ft s o. destruct o as [b | bs | p c x | p ks x | c]; cbn [step].
  - unfold add_block. destruct (cverr validate (b_cid b)); try (split; reflexivity).
    assert (H : forall pre, fetched pre = [] ->
      (let '(s', evs, res) := (if inl (bmh b) (f_put ft) then (s, pre ++ [EvPut b], RAdd ROther)
        else (put s b, pre ++ EvPut b :: match ex with XNone => [] | _ => [EvNotify [b]] end, RAdd RNil)) in
       cached_ok res s' = true /\ miss_ok s ft evs = true)).
    { intros pre Hp. destruct (inl (bmh b) (f_put ft)); (split; [reflexivity |]); unfold miss_ok;
        rewrite fetched_app, Hp; [reflexivity | destruct ex; reflexivity]. }
    destruct checkfirst; [| exact (H [] eq_refl)].
    destruct (inl (bmh b) (f_has ft)); [split; reflexivity |]. destruct (has s (bmh b)); [split; reflexivity |].
    exact (H [EvHas (b_cid b)] eq_refl).
  - unfold add_blocks. destruct (first_invalid validate bs); try (split; reflexivity).
    assert (Hsc : fetched (fst (if checkfirst then has_scan ft s bs else ([], Some bs))) = []).
    { destruct checkfirst; [| reflexivity]. clear. induction bs as [| b r IH]; cbn [has_scan]; [reflexivity |].
      destruct (inl (bmh b) (f_has ft)); [reflexivity |]. destruct (has_scan ft s r) as [evs res]. exact IH. }
    destruct (if checkfirst then has_scan ft s bs else ([], Some bs)) as [evs res]. cbn [fst] in Hsc.
    destruct res as [tp |]; [| split; [reflexivity | unfold miss_ok; rewrite Hsc; reflexivity]].
    destruct tp as [| b0 tp']; [split; [reflexivity | unfold miss_ok; rewrite Hsc; reflexivity] |].
    destruct (existsb (fun b => inl (bmh b) (f_put ft)) (b0 :: tp')); (split; [reflexivity |]);
      unfold miss_ok; rewrite fetched_app, Hsc; [reflexivity | destruct ex; reflexivity].
  - unfold get_block. destruct (cverr validate c); try (split; reflexivity).
    destruct (inl (mh_of c) (f_get ft)) eqn:Ef; [split; reflexivity |].
    destruct (lookup s (mh_of c)) as [d |] eqn:El.
    + split; [| reflexivity]. cbn [cached_ok]. unfold bmh. cbn [b_cid]. exact (lookup_has _ _ _ El).
    + pose proof (fetcher_fetched p) as Hf. destruct (fetcher ex p) as [fevs f]. cbn [fst] in Hf.
      destruct f as [via |]; [| split; [reflexivity | unfold miss_ok; rewrite fetched_app, Hf; reflexivity]].
      assert (Hpre : fetched ([EvGet c] ++ fevs ++ [EvFetch1 via c]) = [c])
        by (rewrite !fetched_app, Hf; reflexivity).
      assert (Hmiss : forall tl, fetched tl = [] -> miss_ok s ft (([EvGet c] ++ fevs ++ [EvFetch1 via c]) ++ tl) = true).
      { intros tl Ht. unfold miss_ok. rewrite fetched_app, Hpre, Ht. cbn [app forallb]. unfold has. rewrite El. reflexivity. }
      assert (Hmiss0 : miss_ok s ft ([EvGet c] ++ fevs ++ [EvFetch1 via c]) = true).
      { rewrite <- (app_nil_r (_ ++ _ ++ _)). apply Hmiss. reflexivity. }
      destruct x as [e | b]; [split; [reflexivity | exact Hmiss0] |].
      destruct (accept fl [c] b); [| split; [reflexivity | exact Hmiss0]].
      destruct (inl (bmh b) (f_put ft)); [split; [reflexivity | apply Hmiss; reflexivity] |].
      destruct (inl (bmh b) (f_notify ft)); (split; [| apply Hmiss; reflexivity]); [reflexivity |].
      cbn [cached_ok]. apply has_put.
  - unfold get_blocks.
    pose proof (local_pass_facts ft s (filter_keys validate ks)) as Hl.
    destruct (local_pass ft s (filter_keys validate ks)) as [[evs outs] misses].
    destruct Hl as [He [Ho Hm]].
    pose proof (fetcher_fetched p) as Hf. destruct (fetcher ex p) as [fevs f]. cbn [fst] in Hf.
    assert (Houts : forallb snd outs = true).
    { rewrite forallb_forall. intros q Hq. apply (Ho q Hq). }
    assert (Hmiss : forallb (fun c => negb (has s (mh_of c)) || inl (mh_of c) (f_get ft)) misses = true).
    { rewrite forallb_forall. intros c Hc. destruct (Hm c Hc) as [_ [H | H]]; rewrite H; [reflexivity | apply orb_true_r]. }
    assert (Hbase : cached_ok (RGetMany outs) s = true /\ miss_ok s ft (evs ++ fevs) = true).
    { split; [exact Houts |]. unfold miss_ok. rewrite fetched_app, He, Hf. reflexivity. }
    destruct f as [via |]; [| exact Hbase].
    destruct misses as [| m0 mr]; [exact Hbase |]. remember (m0 :: mr) as misses eqn:Em.
    destruct x as [resp |].
    + pose proof (recv_facts ft misses resp s) as Hr.
      destruct (recv fl ft misses s resp) as [[s' revs] routs]. destruct Hr as [Hre Hro].
      split.
      * cbn [cached_ok]. rewrite forallb_app, Houts. cbn [andb]. rewrite forallb_forall. intros q Hq. apply (Hro q Hq).
      * unfold miss_ok. rewrite !fetched_app, fetched_N, He, Hf, Hre. cbn [app]. rewrite app_nil_r. exact Hmiss.
    + split; [exact Houts |]. unfold miss_ok. rewrite !fetched_app, fetched_N, He, Hf. cbn [app]. exact Hmiss.
  - split; reflexivity.
Qed.

(** ----- histories ----- *)
Lemma run_req_ok : forall h s, trust_cid fl = false ->
  run_all validate checkfirst ex fl (fun _ o _ evs r _ => req_ok o evs r) s h = true.
Proof.
  induction h as [| [o ft] r IH]; intros s Hc; cbn [run_all]; [reflexivity |].
  pose proof (step_req_ok ft s o Hc) as H. destruct (STEP ft s o) as [[s' evs] res]. rewrite H. apply IH. exact Hc.
Qed.

Lemma run_hash_ok : forall h s, trust_hash fl = false -> store_good s = true ->
  forallb (fun p => op_good (fst p)) h = true ->
  run_all validate checkfirst ex fl (fun _ _ _ _ r _ => hash_ok r) s h = true.
Proof.
  induction h as [| [o ft] r IH]; intros s Hh Hs Hg; cbn [run_all]; [reflexivity |].
  cbn [forallb fst] in Hg. apply andb_true_iff in Hg. destruct Hg as [Ho Hr].
  pose proof (step_hash_ok ft s o Hh Hs Ho) as H. destruct (STEP ft s o) as [[s' evs] res].
  destruct H as [H1 H2]. rewrite H1. apply IH; assumption.
Qed.

Lemma run_cached_ok : forall h s,
  run_all validate checkfirst ex fl (fun _ _ _ _ r post => cached_ok r post) s h = true.
Proof.
  induction h as [| [o ft] r IH]; intros s; cbn [run_all]; [reflexivity |].
  pose proof (step_cached_miss_ok ft s o) as H. destruct (STEP ft s o) as [[s' evs] res].
  destruct H as [H1 _]. rewrite H1. apply IH.
Qed.

Lemma run_miss_ok : forall h s,
  run_all validate checkfirst ex fl (fun pre _ ft evs _ _ => miss_ok pre ft evs) s h = true.
Proof.
  induction h as [| [o ft] r IH]; intros s; cbn [run_all]; [reflexivity |].
  pose proof (step_cached_miss_ok ft s o) as H. destruct (STEP ft s o) as [[s' evs] res].
  destruct H as [_ H2]. rewrite H2. apply IH.
Qed.

(** all clauses together (what check_case evaluates for the flag-off model) *)
Lemma run_spec : forall h s, trust_cid fl = false -> trust_hash fl = false -> store_good s = true ->
  forallb (fun p => op_good (fst p)) h = true ->
  run_all validate checkfirst ex fl (spec_step true) s h = true.
Proof.
  induction h as [| [o ft] r IH]; intros s Hc Hh Hs Hg; cbn [run_all]; [reflexivity |].
  cbn [forallb fst] in Hg. apply andb_true_iff in Hg. destruct Hg as [Ho Hr].
  pose proof (step_req_ok ft s o Hc) as H1. pose proof (step_hash_ok ft s o Hh Hs Ho) as H2.
  pose proof (step_cached_miss_ok ft s o) as H3.
  destruct (STEP ft s o) as [[s' evs] res]. destruct H2 as [H2 Hs']. destruct H3 as [H3 H4].
  unfold spec_step. rewrite H1, H2, H3, H4. cbn [negb orb andb]. apply IH; assumption.
Qed.
End Step.

(** ---------- the defects, as theorems about the flag-on models ---------- *)
(** C05-1 (code before the fix): request {a}, the exchange answers with block b *)
Lemma trust_cid_refuted :
  exists v cf ex h, run_all v cf ex fl_old (fun _ o _ evs r _ => req_ok o evs r) [] h = false.
Proof.
  exists (fun _ _ => EOk), true, XPlain,
    [(OGet PPlain (mkcid 1 0x55 0x12 32 1) (XBlk (mkblk (mkcid 1 0x55 0x12 32 2) 2)), no_faults)].
  vm_compute. reflexivity.
Qed.
Lemma trust_cid_refuted_batch :
  exists v cf ex h, run_all v cf ex fl_old (fun _ o _ evs r _ => req_ok o evs r) [] h = false.
Proof.
  exists (fun _ _ => EOk), true, XSess,
    [(OGetMany PSession [mkcid 1 0x55 0x12 32 1]
        (Some [mkblk (mkcid 1 0x55 0x12 32 2) 2; mkblk (mkcid 1 0x55 0x12 32 1) 1]), no_faults)].
  vm_compute. reflexivity.
Qed.
(** C05-2 (current code): request {a}, the exchange answers with CID a over other bytes; the
    block is returned, stored, and served from the local store ever after *)
Lemma trust_hash_refuted :
  exists v cf ex h,
    forallb (fun p => op_good (fst p)) h = true /\
    run_all v cf ex fl_code (fun _ _ _ _ r _ => hash_ok r) [] h = false.
Proof.
  exists (fun _ _ => EOk), true, XPlain,
    [(OGet PPlain (mkcid 1 0x55 0x12 32 1) (XBlk (mkblk (mkcid 1 0x55 0x12 32 1) 2)), no_faults)].
  vm_compute. split; reflexivity.
Qed.
